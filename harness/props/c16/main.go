// C16 Memory hierarchies are transparent to requesters.
//
// A scripted driver (never two in-flight requests on one byte) runs against a
// PRNG-drawn hierarchy; every read is compared with a flat reference memory,
// every request must get exactly one response of the right kind addressed to
// its sender, and nothing may be outstanding when the simulation goes quiet.
package main

import (
	"encoding/json"
	"fmt"
	"os"
	"strings"

	"github.com/sarchlab/akita/v5/mem/memprotocol"

	"verifharness/kit"
	"verifharness/kit/sim"

	"github.com/sarchlab/akita/v5/timing"
)

type params struct {
	NumReqs int  `json:"num_reqs"`
	ZeroLat bool `json:"zero_lat"`
}

func main() {
	kit.Main(kit.Prop{
		ID:    "C16",
		Level: "exploration",
		Rule: "each case is a PRNG-drawn hierarchy (0-3 levels of ROB / write-around / write-evict / write-through / write-back caches with tiny geometries, " +
			"ideal / banked / DRAM-preset memory, 1-4 interleaved modules, 1-3 drivers, port buffers 1-8, mixed clock frequencies) and a PRNG-drawn request stream " +
			"(reads, full-line, partial and masked writes; no two in-flight requests share a byte). Non-trivial: at least one cache level or >1 memory module and " +
			"the run completed >= 50 requests; distinct by configuration JSON",
		Assumptions: []string{
			"requests stay inside one line of the top-level block size; block sizes do not shrink towards memory; the interleaving size is a multiple of the lowest block size",
			"a run that has not answered every request within a virtual-time budget of 2e5 cycles per request is reported as unanswered (bounded-progress restatement)",
		},
		Plan: func(tier string, seed int64) []kit.Batch {
			nb, n, nreq := 16, 5, 300
			if tier == "thorough" {
				nb, n, nreq = 48, 80, 1500
			}
			var bs []kit.Batch
			for i := 0; i < nb; i++ {
				bs = append(bs, kit.Batch{Name: fmt.Sprintf("stacks%d", i), Seed: seed*7919 + int64(i), N: n,
					Params: kit.MkParams(params{NumReqs: nreq, ZeroLat: i%4 == 3})})
			}
			return bs
		},
		Run:         run,
		MustObserve: []string{"responses_checked", "reads_checked", "writes_below_a_writeback_cache(evictions)", "fetches_below_a_cache(misses)"},
	})
}

func run(b kit.Batch, r *kit.R) {
	var p params
	b.P(&p)
	r.ForEach(b.N, func(c *kit.Case) {
		cfg := sim.RandomStackCfg(c.Rng, sim.GenOpts{NumReqs: p.NumReqs, AllowDRAM: true, AllowBanked: true, MaxDrivers: 3, ZeroLat: p.ZeroLat, RspStall: true})
		c.Desc(cfg)
		RunStack(c, cfg)
	})
}

// RunStack executes one configuration and judges it.
func RunStack(c *kit.Case, cfg sim.StackCfg) {
	r := c.R
	s := sim.BuildStack(cfg, r.WorkDir)
	defer s.Close()
	debug := os.Getenv("C16_DEBUG") != ""
	tap := sim.AttachTap(s.AllPorts(), s.Engine.CurrentTime, debug)
	var firstBad uint64
	haveBad := false
	total := 0
	for _, d := range s.Drivers {
		total += d.Spec().NumReqs
		d := d
		d.OnError = func(key, msg string) {
			c.Fail("hier/"+key, map[string]any{"msg": msg, "driver": d.Name(), "cfg": cfg})
			if debug && !haveBad {
				haveBad = true
				fmt.Sscanf(msg[strings.Index(msg, "addr=")+5:], "0x%x", &firstBad)
				dumpLine(tap, firstBad, cfg)
			}
		}
	}
	s.Start()
	limit := timing.VTimeInPicoSec(total) * 200000 * 1000
	if err := s.Engine.RunUntil(limit); err != nil {
		c.Failf("hier/engine-error", "%v", err)
	}
	done := true
	for _, d := range s.Drivers {
		if !d.Done() {
			done = false
			quiesced := s.Engine.CurrentTime() < limit
			c.Fail("hier/unanswered", map[string]any{
				"msg": fmt.Sprintf("%s: issued %d of %d, %d outstanding at t=%d (event queue empty: %v)", d.Name(), d.State.Issued,
					d.Spec().NumReqs, len(d.State.Inflight), s.Engine.CurrentTime(), quiesced),
				"outstanding": d.State.Inflight, "cfg": cfg})
		}
		r.Count("responses_checked", int64(d.State.Completed))
		r.Count("reads_checked", int64(d.State.Reads))
		r.Count("writes_issued", int64(d.State.Writes))
	}
	// coverage from the taps
	for _, l := range s.WB {
		r.Count("writes_below_a_writeback_cache(evictions)", int64(tap.CountMatching(l.Name()+".Bottom/send/", "WriteReq")))
		r.Count("fetches_below_a_cache(misses)", int64(tap.CountMatching(l.Name()+".Bottom/send/", "ReadReq")))
	}
	for _, l := range s.WT {
		r.Count("writes_below_a_writethrough_cache", int64(tap.CountMatching(l.Name()+".Bottom/send/", "WriteReq")))
		r.Count("fetches_below_a_cache(misses)", int64(tap.CountMatching(l.Name()+".Bottom/send/", "ReadReq")))
		top := tap.CountMatching(l.Name()+".Top/retr_in/", "ReadReq")
		down := tap.CountMatching(l.Name()+".Bottom/send/", "ReadReq")
		if top > down {
			r.Count("reads_served_without_own_fetch(hits+mshr_merges)", int64(top-down))
		}
	}
	for _, l := range s.WB {
		top := tap.CountMatching(l.Name()+".Top/retr_in/")
		down := tap.CountMatching(l.Name()+".Bottom/send/", "ReadReq")
		if top > down {
			r.Count("reads_served_without_own_fetch(hits+mshr_merges)", int64(top-down))
		}
	}
	kinds := []string{}
	for _, l := range cfg.Levels {
		kinds = append(kinds, l.Kind)
	}
	shape := strings.Join(kinds, ">") + ">" + cfg.Mem.Kind + cfg.Mem.Preset + fmt.Sprintf("x%d", max(cfg.Mem.Count, 1))
	r.Distinct("stack_shapes", shape)
	if done && total >= 50 && (len(cfg.Levels) > 0 || cfg.Mem.Count > 1) {
		j, _ := json.Marshal(cfg)
		c.Nontrivial(string(j))
	}
	c.Sample(map[string]any{"shape": shape, "cfg": cfg, "end_time_ps": s.Engine.CurrentTime()})
}

// dumpLine prints every memory message that touches the 256-byte region around addr (debug aid for replays).
func dumpLine(tap *sim.Tap, addr uint64, cfg sim.StackCfg) {
	lo, hi := addr/256*256, addr/256*256+256
	ids := map[uint64]string{}
	for _, r := range tap.Recs {
		if r.Pos != "send" && r.Pos != "retr_in" {
			continue
		}
		switch m := r.Msg.(type) {
		case memprotocol.ReadReq:
			if m.Address < hi && m.Address+m.AccessByteSize > lo {
				ids[m.ID] = fmt.Sprintf("R[%#x+%d]", m.Address, m.AccessByteSize)
				fmt.Printf("%8d %-8s %-22s RD  id=%d addr=%#x len=%d -> %s\n", r.Time, r.Pos, r.Port, m.ID, m.Address, m.AccessByteSize, m.Dst)
			}
		case memprotocol.WriteReq:
			if m.Address < hi && m.Address+uint64(len(m.Data)) > lo {
				ids[m.ID] = fmt.Sprintf("W[%#x+%d]", m.Address, len(m.Data))
				mask := ""
				if m.DirtyMask != nil {
					for _, b := range m.DirtyMask {
						if b {
							mask += "1"
						} else {
							mask += "0"
						}
					}
				}
				fmt.Printf("%8d %-8s %-22s WR  id=%d addr=%#x len=%d data=%x mask=%s -> %s\n", r.Time, r.Pos, r.Port, m.ID, m.Address, len(m.Data), m.Data, mask, m.Dst)
			}
		case memprotocol.DataReadyRsp:
			if what, ok := ids[m.RspTo]; ok {
				fmt.Printf("%8d %-8s %-22s DATA rspto=%d %s data=%x\n", r.Time, r.Pos, r.Port, m.RspTo, what, m.Data)
			}
		case memprotocol.WriteDoneRsp:
			if what, ok := ids[m.RspTo]; ok {
				fmt.Printf("%8d %-8s %-22s DONE rspto=%d %s\n", r.Time, r.Pos, r.Port, m.RspTo, what)
			}
		}
	}
}
