// C28 LRU sets behave as a recency-ordered key map: histories of
// Lookup/UpdateKey/Remove/Evict/Visit on lruset.Set against a (map, recency
// list) model; JSON-restored copies continue the same history.
package main

import (
	"encoding/json"
	"fmt"
	"strings"

	"verifharness/kit"

	"github.com/sarchlab/akita/v5/mem/vm/lruset"
)

type params struct {
	Ops int `json:"ops"`
}

func main() {
	kit.Main(kit.Prop{
		ID:    "C28",
		Level: "exploration",
		Rule: "a case is one PRNG-drawn history (ways 0..8 or occasionally 9..24, key universe 2..12 keys built with KeyString, per-case operation mix) of " +
			"Lookup/UpdateKey/Remove/Evict/Visit/JSON-round-trip executed on the real Set(s) and on a model (key map + recency list); every Lookup and Evict result is compared, " +
			"all keys of the universe are looked up after every operation, and at the end every live copy is drained with Evict to read its complete recency order; " +
			"non-trivial when the history evicted a way that had been re-visited out of initial order, found a bound key and missed a removed/rebound one; " +
			"distinct by (ways, operation/result trace)",
		Assumptions: []string{
			"way ids passed to Visit/UpdateKey are in 0..ways-1 (Visit of an out-of-range way indexes out of range; not part of the property)",
			"UpdateKey is modelled as documented: delete oldKey unconditionally, then bind newKey to the way (several keys may end up bound to one way)",
			"fewer than 2^64 visits",
		},
		Plan: func(tier string, seed int64) []kit.Batch {
			nb, n, ops := 12, 1500, 120
			if tier == "thorough" {
				nb, n, ops = 32, 12000, 300
			}
			var bs []kit.Batch
			for i := 0; i < nb; i++ {
				bs = append(bs, kit.Batch{Name: fmt.Sprintf("hist%d", i), Seed: seed*1000 + int64(i), N: n,
					Params: kit.MkParams(params{Ops: ops})})
			}
			return bs
		},
		Run: run,
		MustObserve: []string{
			"lookup_hit", "lookup_miss_after_remove_or_rebind", "evict_returned_way", "evict_on_empty_list",
			"evict_of_revisited_order", "visit_of_listed_way", "visit_of_evicted_way", "rebind_moves_key_to_other_way",
			"remove_bound_key", "json_roundtrips_with_partial_list", "final_drains",
		},
	})
}

type subject struct {
	s     *lruset.Set
	label string
}

func run(b kit.Batch, r *kit.R) {
	var p params
	b.P(&p)
	r.ForEach(b.N, func(c *kit.Case) { runCase(c, r, p.Ops) })
}

type holder struct {
	Pad int        `json:"pad"`
	LRU lruset.Set `json:"lru"`
}

func runCase(c *kit.Case, r *kit.R, nOps int) {
	rng := c.Rng
	ways := rng.Intn(9)
	if rng.Intn(12) == 0 {
		ways = 9 + rng.Intn(16)
	}
	nKeys := 2 + rng.Intn(11)
	keys := make([]string, nKeys)
	for i := range keys {
		switch rng.Intn(3) {
		case 0:
			keys[i] = lruset.KeyString(uint64(rng.Intn(3)), uint64(i)<<12)
		case 1:
			keys[i] = lruset.KeyString(rng.Uint64(), rng.Uint64())
		default:
			keys[i] = fmt.Sprintf("k%d", i)
		}
	}
	// weights: lookup, updateKey, remove, evict, visit, json
	mix := [][6]int{{15, 25, 10, 15, 30, 5}, {10, 20, 5, 35, 25, 5}, {10, 30, 20, 5, 30, 5}, {10, 15, 5, 20, 45, 5}}[rng.Intn(4)]
	c.Desc(map[string]any{"ways": ways, "keys": nKeys, "mix_lookup_update_remove_evict_visit_json": mix, "ops": nOps})

	// model
	bound := map[string]int{}
	var order []int // least recent first
	for w := 0; w < ways; w++ {
		order = append(order, w)
	}
	initialOrder := true // order still a suffix-rotation-free prefix of 0..ways-1
	everUnbound := map[string]bool{}

	set := lruset.NewSet(ways)
	subs := []*subject{{s: &set, label: "original"}}

	var trace strings.Builder
	fmt.Fprintf(&trace, "%d:", ways)
	var written []string
	note := func(format string, a ...any) {
		s := fmt.Sprintf(format, a...)
		trace.WriteString(s)
		trace.WriteByte(';')
		if len(written) < 40 {
			written = append(written, s)
		}
	}
	failed := false
	fail := func(key, format string, a ...any) {
		failed = true
		c.Fail(key, map[string]any{"msg": fmt.Sprintf(format, a...), "ways": ways, "history_prefix": written,
			"model_order": fmt.Sprint(order), "model_keys": fmt.Sprint(bound)})
	}
	checkLookups := func(after string) {
		for _, s := range subs {
			for _, k := range keys {
				w, ok := s.s.Lookup(k)
				mw, mok := bound[k]
				if ok != mok || (ok && w != mw) {
					fail("lru/lookup", "after %s on %s: Lookup(%q) = (%d,%v) model (%d,%v)", after, s.label, k, w, ok, mw, mok)
				}
			}
		}
	}
	pick := func() int {
		t := 0
		for _, w := range mix {
			t += w
		}
		x := rng.Intn(t)
		for i, w := range mix {
			if x < w {
				return i
			}
			x -= w
		}
		return 0
	}
	inOrder := func(w int) int {
		for i, x := range order {
			if x == w {
				return i
			}
		}
		return -1
	}

	var hits, missAfter, evictRevisited int
	for op := 0; op < nOps && !failed; op++ {
		kind := pick()
		if ways == 0 && (kind == 1 || kind == 4) {
			kind = 3 // no way id exists; evict on the empty list instead
		}
		switch kind {
		case 0: // Lookup (explicit, counted)
			k := keys[rng.Intn(nKeys)]
			mw, mok := bound[k]
			if mok {
				hits++
				r.Count("lookup_hit", 1)
			} else {
				r.Count("lookup_miss", 1)
				if everUnbound[k] {
					missAfter++
					r.Count("lookup_miss_after_remove_or_rebind", 1)
				}
			}
			note("lookup(%s)->%d,%v", k, mw, mok)
			for _, s := range subs {
				w, ok := s.s.Lookup(k)
				if ok != mok || (ok && w != mw) {
					fail("lru/lookup", "Lookup(%q) on %s = (%d,%v) model (%d,%v)", k, s.label, w, ok, mw, mok)
				}
				if !ok && w != 0 {
					r.Count("miss_with_nonzero_way", 1)
				}
			}
		case 1: // UpdateKey(way, old, new)
			w := rng.Intn(ways)
			newKey := keys[rng.Intn(nKeys)]
			oldKey := ""
			switch rng.Intn(4) {
			case 0: // no previous key (fresh way), as the TLB does with an invalid block
				oldKey = "unbound-" + fmt.Sprint(w)
			case 1: // any key of the universe
				oldKey = keys[rng.Intn(nKeys)]
			default: // the key currently bound to that way, if any (the normal replacement)
				for _, k := range keys {
					if bw, ok := bound[k]; ok && bw == w {
						oldKey = k
						break
					}
				}
			}
			if pw, ok := bound[newKey]; ok && pw != w {
				r.Count("rebind_moves_key_to_other_way", 1)
			}
			if _, ok := bound[oldKey]; ok && oldKey != newKey {
				everUnbound[oldKey] = true
				r.Count("rebind_unbinds_old_key", 1)
			}
			delete(bound, oldKey)
			bound[newKey] = w
			note("update(%d,%s,%s)", w, oldKey, newKey)
			for _, s := range subs {
				s.s.UpdateKey(w, oldKey, newKey)
			}
		case 2: // Remove
			k := keys[rng.Intn(nKeys)]
			if _, ok := bound[k]; ok {
				everUnbound[k] = true
				r.Count("remove_bound_key", 1)
			} else {
				r.Count("remove_absent_key", 1)
			}
			delete(bound, k)
			note("remove(%s)", k)
			for _, s := range subs {
				s.s.Remove(k)
			}
		case 3: // Evict
			mw, mok := 0, false
			if len(order) > 0 {
				mw, mok = order[0], true
				order = order[1:]
				r.Count("evict_returned_way", 1)
				if !initialOrder {
					evictRevisited++
					r.Count("evict_of_revisited_order", 1)
				}
			} else {
				r.Count("evict_on_empty_list", 1)
			}
			note("evict->%d,%v", mw, mok)
			for _, s := range subs {
				w, ok := s.s.Evict()
				if ok != mok || (ok && w != mw) {
					fail("lru/evict", "Evict on %s = (%d,%v) model (%d,%v)", s.label, w, ok, mw, mok)
				}
			}
		case 4: // Visit
			w := rng.Intn(ways)
			if i := inOrder(w); i >= 0 {
				if i != len(order)-1 {
					initialOrder = false
				}
				order = append(append([]int(nil), order[:i]...), order[i+1:]...)
				r.Count("visit_of_listed_way", 1)
			} else {
				initialOrder = false
				r.Count("visit_of_evicted_way", 1)
			}
			order = append(order, w)
			note("visit(%d)", w)
			for _, s := range subs {
				s.s.Visit(w)
			}
		case 5: // JSON round trip; the copy keeps executing the history
			src := subs[rng.Intn(len(subs))]
			form := rng.Intn(3)
			var data []byte
			var err error
			switch form {
			case 0:
				data, err = json.Marshal(src.s)
			case 1:
				data, err = json.Marshal(*src.s)
			default:
				data, err = json.Marshal(holder{Pad: 3, LRU: *src.s})
			}
			if err != nil {
				fail("lru/json-error", "Marshal: %v", err)
				break
			}
			var dst *lruset.Set
			dirty := rng.Intn(2) == 0
			mk := func() *lruset.Set {
				if !dirty {
					return new(lruset.Set)
				}
				d := lruset.NewSet(ways + 2)
				d.UpdateKey(0, "", "stale-key")
				d.UpdateKey(1, "", keys[0])
				d.Visit(0)
				return &d
			}
			if form == 2 {
				h := holder{LRU: *mk()}
				err = json.Unmarshal(data, &h)
				dst = &h.LRU
			} else {
				dst = mk()
				err = json.Unmarshal(data, dst)
			}
			if err != nil {
				fail("lru/json-error", "Unmarshal(%s): %v", data, err)
				break
			}
			if _, ok := dst.Lookup("stale-key"); ok {
				fail("lru/json-keys", "a key of the overwritten target survived Unmarshal (%s)", data)
			}
			r.Count("json_roundtrips", 1)
			if len(order) > 0 && len(order) < ways {
				r.Count("json_roundtrips_with_partial_list", 1)
			}
			if len(bound) > 0 {
				r.Count("json_roundtrips_with_keys", 1)
			}
			ns := &subject{s: dst, label: fmt.Sprintf("json%d-of-%s@%d", form, src.label, op)}
			if len(subs) < 4 {
				subs = append(subs, ns)
			} else {
				subs[1+rng.Intn(3)] = ns
			}
			note("json(form %d, dirty %v)", form, dirty)
		}
		if !failed {
			checkLookups(fmt.Sprintf("op %d", op))
		}
		r.Count("operations", 1)
		r.Max("max_bound_keys", int64(len(bound)))
	}

	// Read the complete recency order of every live copy; one copy is first
	// sent through JSON once more so that the serialised order is read too.
	if !failed {
		if data, err := json.Marshal(subs[0].s); err == nil {
			d := new(lruset.Set)
			if err := json.Unmarshal(data, d); err != nil {
				fail("lru/json-error", "final Unmarshal(%s): %v", data, err)
			} else {
				subs = append(subs, &subject{s: d, label: "final-json-copy"})
			}
		} else {
			fail("lru/json-error", "final Marshal: %v", err)
		}
	}
	if !failed {
		checkLookups("final JSON copy")
		for _, s := range subs {
			var got []int
			for i := 0; i <= ways+1; i++ {
				w, ok := s.s.Evict()
				if !ok {
					break
				}
				got = append(got, w)
			}
			if fmt.Sprint(got) != fmt.Sprint(order) {
				key := "lru/order"
				if strings.Contains(s.label, "json") {
					key = "lru/json-order"
				}
				fail(key, "draining %s gives recency order %v, model %v", s.label, got, order)
			}
			r.Count("final_drains", 1)
		}
	}
	r.Max("max_live_copies", int64(len(subs)))
	r.Distinct("way_counts", fmt.Sprint(ways))
	if hits > 0 && missAfter > 0 && evictRevisited > 0 {
		c.Nontrivial(trace.String())
	}
	c.Sample(map[string]any{"ways": ways, "keys": keys, "first_operations": written,
		"final_recency_order_lru_first": fmt.Sprint(order), "final_bindings": fmt.Sprint(bound)})
}
