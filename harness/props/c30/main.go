// C30 Routing tables give loop-free shortest routes to every device.
//
// Generic connector: PRNG-drawn switch graphs (paths, rings, stars, trees,
// cliques, grids, random connected graphs, with parallel links), devices with
// 1..3 ports placed on random switches, construction operations in shuffled
// order. Every (switch, device port) pair is walked hop by hop through
// routing.Table.FindPort and compared with a BFS over the generated graph.
// A sequence of networks is built with ONE connector and every later network
// is compared, table entry by table entry, with the same network built by a
// fresh connector. Mesh connector: random 3-D tile sets, walked the same way
// against the Manhattan distance.
package main

import (
	"fmt"
	"math/rand"
	"sort"
	"strings"

	"verifharness/kit"

	"github.com/sarchlab/akita/v5/messaging"
	"github.com/sarchlab/akita/v5/naming"
	"github.com/sarchlab/akita/v5/noc/networking/mesh"
	"github.com/sarchlab/akita/v5/noc/networking/networkconnector"
	"github.com/sarchlab/akita/v5/noc/networking/routing"
	"github.com/sarchlab/akita/v5/noc/networking/switching/switches"
	"github.com/sarchlab/akita/v5/timing"
)

// ---------------------------------------------------------------- registrar

// recReg is a modeling.Registrar that remembers what was registered, so that
// switches built inside a connector (and their ports) can be observed.
type recReg struct {
	eng   timing.Engine
	comps []naming.Named
	ports []naming.Named
}

func newReg() *recReg                               { return &recReg{eng: timing.NewSerialEngine()} }
func (r *recReg) GetEngine() timing.Engine          { return r.eng }
func (r *recReg) RegisterComponent(c naming.Named)  { r.comps = append(r.comps, c) }
func (r *recReg) RegisterConnection(_ naming.Named) {}
func (r *recReg) RegisterResource(_ naming.Named)   {}
func (r *recReg) RegisterPort(p naming.Named)       { r.ports = append(r.ports, p) }

func (r *recReg) switchByName(name string) *switches.Comp {
	for i := len(r.comps) - 1; i >= 0; i-- { // newest first: names repeat across networks
		if sw, ok := r.comps[i].(*switches.Comp); ok && sw.Name() == name {
			return sw
		}
	}
	return nil
}

// mapTable is an independent routing.Table implementation handed to the
// connector for some switches.
type mapTable struct {
	m   map[messaging.RemotePort]messaging.RemotePort
	def messaging.RemotePort
}

func (t *mapTable) FindPort(d messaging.RemotePort) messaging.RemotePort {
	if o, ok := t.m[d]; ok {
		return o
	}
	return t.def
}
func (t *mapTable) DefineRoute(d, o messaging.RemotePort)     { t.m[d] = o }
func (t *mapTable) DefineDefaultRoute(o messaging.RemotePort) { t.def = o }

// ---------------------------------------------------------------- generic plan

type gop struct {
	Link  bool `json:"link"`
	A, B  int  // link ends
	Dev   int  // device index
	Named bool // ConnectDeviceWithEPName instead of ConnectDevice
}

type gplan struct {
	Net      string     `json:"net"`
	Shape    string     `json:"shape"`
	NSw      int        `json:"n_sw"`
	SwKind   []int      `json:"sw_kind"` // 0 AddSwitch, 1 AddSwitchWithName, 2 +routing.NewTable, 3 +own table
	Ops      []gop      `json:"ops"`
	DevSw    []int      `json:"dev_sw"`
	DevPorts [][]string `json:"dev_ports"`
	Comps    int        `json:"components"` // connected components of the switch graph
}

func (p *gplan) edges() [][2]int {
	var es [][2]int
	for _, o := range p.Ops {
		if o.Link {
			es = append(es, [2]int{o.A, o.B})
		}
	}
	return es
}

var shapes = []string{"path", "ring", "star", "tree", "clique", "grid", "random", "random", "single"}

func genEdges(rng *rand.Rand, shape string, n int) [][2]int {
	var es [][2]int
	add := func(a, b int) { es = append(es, [2]int{a, b}) }
	switch shape {
	case "path":
		for i := 1; i < n; i++ {
			add(i-1, i)
		}
	case "ring":
		for i := 1; i < n; i++ {
			add(i-1, i)
		}
		if n > 2 {
			add(n-1, 0)
		}
	case "star":
		for i := 1; i < n; i++ {
			add(0, i)
		}
	case "tree":
		for i := 1; i < n; i++ {
			add(rng.Intn(i), i)
		}
	case "clique":
		for i := 0; i < n; i++ {
			for j := i + 1; j < n; j++ {
				add(i, j)
			}
		}
	case "grid":
		w := 1 + rng.Intn(4)
		for i := 0; i < n; i++ {
			if i%w != 0 {
				add(i-1, i)
			}
			if i >= w {
				add(i-w, i)
			}
		}
	case "random":
		for i := 1; i < n; i++ {
			add(rng.Intn(i), i)
		}
		for k := rng.Intn(2*n + 1); k > 0 && n > 1; k-- {
			a, b := rng.Intn(n), rng.Intn(n)
			if a != b {
				add(a, b) // may duplicate an existing link: parallel links
			}
		}
	}
	// relabel so that switch ids carry no structure, and flip link ends
	perm := rng.Perm(n)
	for i := range es {
		a, b := perm[es[i][0]], perm[es[i][1]]
		if rng.Intn(2) == 0 {
			a, b = b, a
		}
		es[i] = [2]int{a, b}
	}
	return es
}

// genPlan draws one network. parts > 1 makes a disconnected switch graph out
// of that many independently drawn connected parts.
func genPlan(rng *rand.Rand, net, portPrefix string, maxSw, parts int) *gplan {
	p := &gplan{Net: net, Comps: parts}
	var es [][2]int
	var names []string
	for c := 0; c < parts; c++ {
		shape := shapes[rng.Intn(len(shapes))]
		n := 1 + rng.Intn(maxSw)
		if shape == "single" {
			n = 1
		}
		if shape == "clique" && n > 7 {
			n = 7
		}
		for _, e := range genEdges(rng, shape, n) {
			es = append(es, [2]int{e[0] + p.NSw, e[1] + p.NSw})
		}
		p.NSw += n
		names = append(names, shape)
	}
	p.Shape = strings.Join(names, "+")
	for i := 0; i < p.NSw; i++ {
		p.SwKind = append(p.SwKind, rng.Intn(4))
	}
	nDev := 1 + rng.Intn(8)
	if rng.Intn(12) == 0 {
		nDev = 0
	}
	if p.NSw == 1 && parts == 1 && nDev == 0 {
		nDev = 1 // a lone switch without any link is outside the connected-graph family
	}
	for d := 0; d < nDev; d++ {
		p.DevSw = append(p.DevSw, rng.Intn(p.NSw))
		var ports []string
		for j := 1 + rng.Intn(3); j > 0; j-- {
			ports = append(ports, fmt.Sprintf("%sDev[%d].Port[%d]", portPrefix, d, len(ports)))
		}
		p.DevPorts = append(p.DevPorts, ports)
	}
	for _, e := range es {
		p.Ops = append(p.Ops, gop{Link: true, A: e[0], B: e[1]})
	}
	for d := range p.DevSw {
		p.Ops = append(p.Ops, gop{Dev: d, Named: rng.Intn(2) == 0})
	}
	rng.Shuffle(len(p.Ops), func(i, j int) { p.Ops[i], p.Ops[j] = p.Ops[j], p.Ops[i] })
	return p
}

// ---------------------------------------------------------------- building

type hop struct {
	owner int // switch that owns the local port
	toSw  int // neighbouring switch, or -1
	toDev int // attached device, or -1
}

type gnet struct {
	plan   *gplan
	tables []routing.Table
	peer   map[messaging.RemotePort]hop
}

var idealLink = networkconnector.LinkParameter{IsIdeal: true, Frequency: 1 * timing.GHz}

func swEnd(rng *rand.Rand) networkconnector.LinkEndSwitchParameter {
	return networkconnector.LinkEndSwitchParameter{
		IncomingBufSize: 1 + rng.Intn(3), OutgoingBufSize: 1 + rng.Intn(3),
		NumInputChannel: 1 + rng.Intn(2), NumOutputChannel: 1 + rng.Intn(2), Latency: 1 + rng.Intn(3),
	}
}

// populate performs the plan's operations on the connector (NewNetwork is the
// caller's business) up to but not including EstablishRoute.
func populate(conn *networkconnector.Connector, reg *recReg, p *gplan, rng *rand.Rand) *gnet {
	g := &gnet{plan: p, peer: map[messaging.RemotePort]hop{}}
	full := make([]string, p.NSw)
	for i := 0; i < p.NSw; i++ {
		var id int
		var rt routing.Table
		switch p.SwKind[i] {
		case 0:
			id = conn.AddSwitch()
			full[i] = fmt.Sprintf("%s.Switch[%d]", p.Net, i)
		case 1:
			id = conn.AddSwitchWithName(fmt.Sprintf("S%d", i))
			full[i] = fmt.Sprintf("%s.S%d", p.Net, i)
		case 2:
			rt = routing.NewTable()
			id = conn.AddSwitchWithNameAndRoutingTable(fmt.Sprintf("T%d", i), rt)
			full[i] = fmt.Sprintf("%s.T%d", p.Net, i)
		default:
			rt = &mapTable{m: map[messaging.RemotePort]messaging.RemotePort{}}
			id = conn.AddSwitchWithNameAndRoutingTable(fmt.Sprintf("M%d", i), rt)
			full[i] = fmt.Sprintf("%s.M%d", p.Net, i)
		}
		if id != i {
			panic(fmt.Sprintf("harness: switch id %d for the %d-th switch", id, i))
		}
		if rt == nil {
			sw := reg.switchByName(full[i])
			if sw == nil {
				panic("harness: switch " + full[i] + " was not registered")
			}
			rt = switches.GetRoutingTable(sw)
		}
		g.tables = append(g.tables, rt)
	}
	for _, o := range p.Ops {
		if o.Link {
			l, r := conn.ConnectSwitches(o.A, o.B, networkconnector.SwitchToSwitchLinkParameter{
				LeftEndParam: swEnd(rng), RightEndParam: swEnd(rng), LinkParam: idealLink})
			g.peer[l.AsRemote()] = hop{owner: o.A, toSw: o.B, toDev: -1}
			g.peer[r.AsRemote()] = hop{owner: o.B, toSw: o.A, toDev: -1}
			continue
		}
		var ports []messaging.Port
		for _, n := range p.DevPorts[o.Dev] {
			ports = append(ports, messaging.NewPort(nil, 1, 1, n))
		}
		param := networkconnector.DeviceToSwitchLinkParameter{
			DeviceEndParam: networkconnector.LinkEndDeviceParameter{
				IncomingBufSize: 1 + rng.Intn(3), OutgoingBufSize: 1 + rng.Intn(3), NumInputChannel: 1, NumOutputChannel: 1},
			SwitchEndParam: swEnd(rng), LinkParam: idealLink}
		sw := p.DevSw[o.Dev]
		if o.Named {
			_, swPort := conn.ConnectDeviceWithEPName(fmt.Sprintf("EP%d", o.Dev), sw, ports, param)
			g.peer[swPort.AsRemote()] = hop{owner: sw, toSw: -1, toDev: o.Dev}
			continue
		}
		before := len(reg.ports)
		conn.ConnectDevice(sw, ports, param)
		found := 0
		for _, pt := range reg.ports[before:] { // the switch-side port minted by this call
			if strings.HasPrefix(pt.Name(), full[sw]+".Port[") {
				g.peer[messaging.RemotePort(pt.Name())] = hop{owner: sw, toSw: -1, toDev: o.Dev}
				found++
			}
		}
		if found != 1 {
			panic(fmt.Sprintf("harness: ConnectDevice registered %d switch ports", found))
		}
	}
	return g
}

func bfs(n int, es [][2]int) [][]int {
	adj := make([][]int, n)
	for _, e := range es {
		adj[e[0]] = append(adj[e[0]], e[1])
		adj[e[1]] = append(adj[e[1]], e[0])
	}
	dist := make([][]int, n)
	for s := 0; s < n; s++ {
		d := make([]int, n)
		for i := range d {
			d[i] = -1
		}
		d[s] = 0
		q := []int{s}
		for len(q) > 0 {
			u := q[0]
			q = q[1:]
			for _, v := range adj[u] {
				if d[v] < 0 {
					d[v] = d[u] + 1
					q = append(q, v)
				}
			}
		}
		dist[s] = d
	}
	return dist
}

// walk follows the tables from every switch to every port of every reachable
// device. shortest=false (bandwidth-first router) only demands arrival without
// a loop. It returns the longest route in switch-to-switch hops.
func walk(c *kit.Case, r *kit.R, g *gnet, pfx string, shortest bool) (maxHops int) {
	p := g.plan
	dist := bfs(p.NSw, p.edges())
	for s := 0; s < p.NSw; s++ {
		for d, dsw := range p.DevSw {
			if dist[s][dsw] < 0 {
				r.Count("unreachable_pairs_not_judged", 1)
				continue
			}
			for _, pn := range p.DevPorts[d] {
				dst := messaging.RemotePort(pn)
				cur, hops := s, 0
				var trail []string
				for {
					out := g.tables[cur].FindPort(dst)
					trail = append(trail, fmt.Sprintf("sw%d:%s", cur, out))
					if out == "" {
						c.Failf(pfx+"/no-route", "switch %d has no route to %s (device %d on switch %d, %d hops away); trail %v", cur, pn, d, dsw, dist[cur][dsw], trail)
						break
					}
					h, ok := g.peer[out]
					if !ok || h.owner != cur {
						c.Failf(pfx+"/foreign-port", "switch %d routes %s to %s which is not one of its ports; trail %v", cur, pn, out, trail)
						break
					}
					if h.toDev >= 0 {
						if h.toDev != d {
							c.Failf(pfx+"/wrong-device", "route to %s (device %d) from switch %d ends at device %d; trail %v", pn, d, s, h.toDev, trail)
						} else if shortest && hops != dist[s][dsw] {
							c.Failf(pfx+"/not-shortest", "route to %s from switch %d took %d hops, BFS distance %d; trail %v", pn, s, hops, dist[s][dsw], trail)
						}
						break
					}
					cur = h.toSw
					hops++
					if hops > p.NSw {
						c.Failf(pfx+"/loop", "route to %s from switch %d still travelling after %d hops (%d switches); trail %v", pn, s, hops, p.NSw, trail)
						break
					}
				}
				if hops > maxHops {
					maxHops = hops
				}
				r.Count("routes_walked", 1)
				r.Count("hops_followed", int64(hops)+1)
				if hops > 0 && !shortest {
					r.Count("bwfirst_multi_hop_routes", 1)
				}
			}
		}
	}
	return maxHops
}

// dump lists FindPort for every (switch, port name).
func dump(g *gnet, names []string) map[string]string {
	m := map[string]string{}
	for i, t := range g.tables {
		for _, n := range names {
			m[fmt.Sprintf("sw%d->%s", i, n)] = string(t.FindPort(messaging.RemotePort(n)))
		}
	}
	return m
}

func newConn(reg *recReg, bw bool, flit int) *networkconnector.Connector {
	c := networkconnector.MakeConnector().WithRegistrar(reg).WithDefaultFreq(1 * timing.GHz).WithFlitSize(flit)
	if bw {
		c = c.WithRouter(&networkconnector.BandwidthFirstRouter{FlitSize: flit})
	}
	return &c
}

// establish runs EstablishRoute and reports a panic as a value.
func establish(conn *networkconnector.Connector) (pan any) {
	defer func() { pan = recover() }()
	conn.EstablishRoute()
	return nil
}

type gparams struct {
	MaxSw    int  `json:"max_sw"`
	MaxNets  int  `json:"max_nets"`
	Parts    int  `json:"parts"`
	BWRouter bool `json:"bw_router"`
}

func runGeneric(b kit.Batch, r *kit.R) {
	var gp gparams
	b.P(&gp)
	r.ForEach(b.N, func(c *kit.Case) {
		rng := c.Rng
		nNets := 1 + rng.Intn(gp.MaxNets)
		flit := []int{16, 32, 64}[rng.Intn(3)]
		reg := newReg()
		conn := newConn(reg, gp.BWRouter, flit)
		pfx := "generic"
		if gp.BWRouter {
			pfx = "bwfirst"
		}
		if gp.Parts > 1 {
			pfx = "disconnected"
		}
		var plans []*gplan
		var allPorts []string
		staleDevices := 0
		for k := 0; k < nNets; k++ {
			net := fmt.Sprintf("Net%d", k)
			prefix := net + "."
			if rng.Intn(3) == 0 {
				net, prefix = "Net", "" // same network name and same device port names as before
			}
			parts := 1
			if gp.Parts > 1 {
				parts = 2 + rng.Intn(gp.Parts-1)
			}
			p := genPlan(rng, net, prefix, gp.MaxSw, parts)
			plans = append(plans, p)
			c.Desc(map[string]any{"networks": plans, "bw_router": gp.BWRouter})
			for _, dp := range p.DevPorts {
				allPorts = append(allPorts, dp...)
			}
			buildSeed := rng.Int63()

			conn.NewNetwork(p.Net)
			g := populate(conn, reg, p, rand.New(rand.NewSource(buildSeed)))
			if pan := establish(conn); pan != nil {
				switch {
				case gp.Parts > 1:
					c.Failf("disconnected/establish-route-panic", "EstablishRoute panicked on a network whose switch graph has %d components: %v", p.Comps, pan)
				case k > 0:
					c.Failf("reuse/establish-route-panic", "EstablishRoute panicked on network #%d built with a reused connector (%d devices of earlier networks): %v", k, staleDevices, pan)
				default:
					panic(pan)
				}
				return
			}
			mh := walk(c, r, g, pfx, !gp.BWRouter)
			r.Max("max_route_hops", int64(mh))
			r.Max("max_switches", int64(p.NSw))
			r.Count("networks_built", 1)
			r.Count("shape/"+p.Shape, 1)
			r.Count("devices", int64(len(p.DevSw)))
			if hasParallel(p) {
				r.Count("networks_with_parallel_links", 1)
			}
			if gp.Parts > 1 {
				r.Count("disconnected_networks_routed", 1)
			}
			if mh >= 1 {
				c.Nontrivial(fmt.Sprintf("%v", *p))
			}
			if mh >= 3 {
				r.Count("networks_with_routes_of_3+_hops", 1)
			}

			if k > 0 {
				// the same network from a fresh connector
				freg := newReg()
				fconn := newConn(freg, gp.BWRouter, flit)
				fconn.NewNetwork(p.Net)
				fg := populate(fconn, freg, p, rand.New(rand.NewSource(buildSeed)))
				fconn.EstablishRoute()
				sort.Strings(allPorts)
				got, want := dump(g, allPorts), dump(fg, allPorts)
				r.Count("reuse_networks_compared_with_fresh", 1)
				r.Count("reuse_table_entries_compared", int64(len(want)))
				if staleDevices > 0 {
					r.Count("reuse_networks_after_networks_with_devices", 1)
				}
				for key, w := range want {
					if got[key] != w {
						c.Failf("reuse/tables-differ", "network #%d: reused connector routes %s via %q, a fresh connector via %q", k, key, got[key], w)
						break
					}
				}
			}
			staleDevices += len(p.DevSw)
			if k == 0 {
				c.Sample(map[string]any{"plan": p, "tables": dump(g, p.DevPorts0())})
			}
		}
	})
}

func (p *gplan) DevPorts0() []string {
	var s []string
	for _, d := range p.DevPorts {
		s = append(s, d...)
	}
	return s
}

func hasParallel(p *gplan) bool {
	seen := map[[2]int]bool{}
	for _, e := range p.edges() {
		if e[0] > e[1] {
			e[0], e[1] = e[1], e[0]
		}
		if seen[e] {
			return true
		}
		seen[e] = true
	}
	return false
}

// ---------------------------------------------------------------- mesh

type tileSpec struct {
	Loc   [3]int   `json:"loc"`
	Ports []string `json:"ports"`
}

type mplan struct {
	Net   string     `json:"net"`
	Tiles []tileSpec `json:"tiles"`
}

func genMesh(rng *rand.Rand, net, prefix string, big bool) *mplan {
	dim := [3]int{1 + rng.Intn(4), 1 + rng.Intn(4), 1 + rng.Intn(3)}
	if big { // beyond the initial 8x8x2 capacity in one or two dimensions
		switch rng.Intn(3) {
		case 0:
			dim = [3]int{9 + rng.Intn(4), 1 + rng.Intn(2), 1 + rng.Intn(2)}
		case 1:
			dim = [3]int{1 + rng.Intn(2), 9 + rng.Intn(3), 1 + rng.Intn(2)}
		default:
			dim = [3]int{1 + rng.Intn(3), 1 + rng.Intn(3), 3 + rng.Intn(3)}
		}
	}
	p := &mplan{Net: net}
	n := 0
	for x := 0; x < dim[0]; x++ {
		for y := 0; y < dim[1]; y++ {
			for z := 0; z < dim[2]; z++ {
				if rng.Intn(5) == 0 {
					continue // a hole: the switch exists, no device
				}
				t := tileSpec{Loc: [3]int{x, y, z}}
				for j := 1 + rng.Intn(2); j > 0; j-- {
					t.Ports = append(t.Ports, fmt.Sprintf("%sTile%d.Port[%d]", prefix, n, len(t.Ports)))
				}
				n++
				p.Tiles = append(p.Tiles, t)
			}
		}
	}
	if len(p.Tiles) == 0 {
		p.Tiles = append(p.Tiles, tileSpec{Loc: [3]int{dim[0] - 1, dim[1] - 1, dim[2] - 1}, Ports: []string{prefix + "Tile0.Port[0]"}})
	}
	rng.Shuffle(len(p.Tiles), func(i, j int) { p.Tiles[i], p.Tiles[j] = p.Tiles[j], p.Tiles[i] })
	if rng.Intn(3) == 0 { // split one tile's ports over two AddTile calls (port merging)
		t := p.Tiles[rng.Intn(len(p.Tiles))]
		p.Tiles = append(p.Tiles, tileSpec{Loc: t.Loc, Ports: []string{t.Ports[0] + ".more"}})
	}
	return p
}

type mnet struct {
	size   [3]int
	sw     map[[3]int]*switches.Comp
	owner  map[messaging.RemotePort][3]int // local switch port -> its switch
	remote map[messaging.RemotePort]messaging.RemotePort
}

func buildMesh(mc *mesh.Connector, reg *recReg, p *mplan) *mnet {
	first := len(reg.comps)
	mc.CreateNetwork(p.Net)
	m := &mnet{sw: map[[3]int]*switches.Comp{}, owner: map[messaging.RemotePort][3]int{}, remote: map[messaging.RemotePort]messaging.RemotePort{}}
	for _, t := range p.Tiles {
		var ports []messaging.Port
		for _, n := range t.Ports {
			ports = append(ports, messaging.NewPort(nil, 1, 1, n))
		}
		mc.AddTile(t.Loc, ports)
		for i := 0; i < 3; i++ {
			if t.Loc[i]+1 > m.size[i] {
				m.size[i] = t.Loc[i] + 1
			}
		}
	}
	mc.EstablishNetwork()
	for _, comp := range reg.comps[first:] {
		sw, ok := comp.(*switches.Comp)
		if !ok {
			continue
		}
		var loc [3]int
		if _, err := fmt.Sscanf(strings.TrimPrefix(sw.Name(), p.Net+"."), "SW[%d][%d][%d]", &loc[0], &loc[1], &loc[2]); err != nil {
			panic("harness: unexpected mesh switch name " + sw.Name())
		}
		m.sw[loc] = sw
		for _, pc := range sw.State.PortComplexes {
			m.owner[messaging.RemotePort(pc.LocalPortName)] = loc
			m.remote[messaging.RemotePort(pc.LocalPortName)] = pc.RemotePort
		}
	}
	return m
}

func abs(a int) int {
	if a < 0 {
		return -a
	}
	return a
}

func walkMesh(c *kit.Case, r *kit.R, m *mnet, p *mplan) (maxHops int) {
	want := m.size[0] * m.size[1] * m.size[2]
	if len(m.sw) != want {
		c.Failf("mesh/switch-count", "grid %v has %d switches, want %d", m.size, len(m.sw), want)
		return 0
	}
	for s := range m.sw {
		for _, t := range p.Tiles {
			manh := abs(s[0]-t.Loc[0]) + abs(s[1]-t.Loc[1]) + abs(s[2]-t.Loc[2])
			epPort := messaging.RemotePort(fmt.Sprintf("%s.EP[%d][%d][%d].NetworkPort", p.Net, t.Loc[0], t.Loc[1], t.Loc[2]))
			for _, pn := range t.Ports {
				cur, hops := s, 0
				var trail []string
				for {
					out := switches.GetRoutingTable(m.sw[cur]).FindPort(messaging.RemotePort(pn))
					trail = append(trail, fmt.Sprintf("%v:%s", cur, out))
					own, ok := m.owner[out]
					if out == "" || !ok || own != cur {
						c.Failf("mesh/foreign-port", "switch %v routes %s (tile %v) to %q which is not one of its ports; trail %v", cur, pn, t.Loc, out, trail)
						break
					}
					rem := m.remote[out]
					if nxt, isSw := m.owner[rem]; isSw {
						cur = nxt
						hops++
						if hops > manh {
							c.Failf("mesh/not-manhattan", "route to %s (tile %v) from switch %v exceeds the Manhattan distance %d; trail %v", pn, t.Loc, s, manh, trail)
							break
						}
						continue
					}
					if rem != epPort {
						c.Failf("mesh/wrong-tile", "route to %s (tile %v) from switch %v leaves the mesh at %s; trail %v", pn, t.Loc, s, rem, trail)
					} else if hops != manh {
						c.Failf("mesh/not-manhattan", "route to %s (tile %v) from switch %v took %d hops, Manhattan distance %d; trail %v", pn, t.Loc, s, hops, manh, trail)
					}
					break
				}
				if hops > maxHops {
					maxHops = hops
				}
				r.Count("mesh_routes_walked", 1)
			}
		}
	}
	return maxHops
}

func dumpMesh(m *mnet, names []string) map[string]string {
	out := map[string]string{}
	for loc, sw := range m.sw {
		for _, n := range names {
			out[fmt.Sprintf("%v->%s", loc, n)] = string(switches.GetRoutingTable(sw).FindPort(messaging.RemotePort(n)))
		}
	}
	return out
}

func runMesh(b kit.Batch, r *kit.R) {
	var mp struct {
		Big bool `json:"big"`
	}
	b.P(&mp)
	r.ForEach(b.N, func(c *kit.Case) {
		rng := c.Rng
		reg := newReg()
		mc := mesh.NewConnector().WithRegistrar(reg).WithFreq(1 * timing.GHz)
		if rng.Intn(2) == 0 {
			mc = mc.WithSwitchLatency(1 + rng.Intn(3)).WithFlitSize(8 << rng.Intn(3))
		}
		var plans []*mplan
		for k, nNets := 0, 1+rng.Intn(2); k < nNets; k++ {
			net, prefix := fmt.Sprintf("Mesh%d", k), fmt.Sprintf("Mesh%d.", k)
			p := genMesh(rng, net, prefix, mp.Big && rng.Intn(2) == 0)
			plans = append(plans, p)
			c.Desc(map[string]any{"meshes": plans})
			m := buildMesh(mc, reg, p)
			mh := walkMesh(c, r, m, p)
			r.Count("mesh_networks_built", 1)
			r.Max("mesh_max_manhattan_hops", int64(mh))
			r.Max("mesh_max_switches", int64(len(m.sw)))
			if m.size[0] > 8 || m.size[1] > 8 || m.size[2] > 2 {
				r.Count("mesh_networks_beyond_initial_capacity", 1)
			}
			if m.size[2] > 1 {
				r.Count("mesh_networks_3d", 1)
			}
			if mh >= 1 {
				c.Nontrivial(fmt.Sprintf("%v", *p))
			}
			var names []string
			for _, t := range p.Tiles {
				names = append(names, t.Ports...)
			}
			if k > 0 {
				freg := newReg()
				fm := buildMesh(mesh.NewConnector().WithRegistrar(freg).WithFreq(1*timing.GHz), freg, p)
				got, want := dumpMesh(m, names), dumpMesh(fm, names)
				r.Count("mesh_reuse_networks_compared_with_fresh", 1)
				for key, w := range want {
					if got[key] != w {
						c.Failf("mesh/reuse-tables-differ", "mesh #%d: reused connector routes %s via %q, a fresh one via %q", k, key, got[key], w)
						break
					}
				}
			}
			if k == 0 {
				c.Sample(map[string]any{"mesh": p, "grid": m.size, "longest_route_hops": mh})
			}
		}
	})
}

// ---------------------------------------------------------------- main

func main() {
	kit.Main(kit.Prop{
		ID:    "C30",
		Level: "exploration",
		Rule: "generic: PRNG-drawn switch graphs (path/ring/star/tree/clique/grid/random connected with parallel links, relabelled), 0..8 devices with 1..3 ports, " +
			"four ways of adding a switch, shuffled ConnectSwitches/ConnectDevice order, 1..3 networks per connector; every (switch, device port) route is walked through FindPort " +
			"and compared with BFS; later networks of a connector are compared entry by entry with a fresh connector. mesh: random 3-D tile sets (holes, merged tiles, grids beyond 8x8x2), " +
			"walked against the Manhattan distance. A case is non-trivial when some route crosses at least one switch-to-switch link; distinct by the full plan",
		Assumptions: []string{
			"links are ideal (the only kind the connector implements); device port names are unique inside one network",
			"shortest = fewest switch-to-switch hops (FloydWarshallRouter); the BandwidthFirstRouter batch is judged only for arrival and loop freedom",
			"a disconnected switch graph is judged only for pairs inside one component; EstablishRoute must not fail on it (key disconnected/*)",
		},
		Plan: func(tier string, seed int64) []kit.Batch {
			n, nm, reps := 400, 60, 1
			if tier == "thorough" {
				n, nm, reps = 12000, 1500, 3
			}
			var bs []kit.Batch
			add := func(kind, name string, n int, p any) {
				bs = append(bs, kit.Batch{Name: kind + ":" + name, Seed: seed*1000 + int64(len(bs)), N: n, Params: kit.MkParams(p)})
			}
			for rep := 0; rep < reps; rep++ {
				for i := 0; i < 4; i++ {
					add("generic", fmt.Sprintf("small%d.%d", rep, i), n, gparams{MaxSw: 6, MaxNets: 3, Parts: 1})
					add("generic", fmt.Sprintf("large%d.%d", rep, i), n/2, gparams{MaxSw: 16, MaxNets: 2, Parts: 1})
				}
				add("generic", fmt.Sprintf("single%d", rep), n, gparams{MaxSw: 10, MaxNets: 1, Parts: 1})
				add("generic", fmt.Sprintf("bwfirst%d", rep), n, gparams{MaxSw: 10, MaxNets: 2, Parts: 1, BWRouter: true})
				add("generic", fmt.Sprintf("disconnected%d", rep), n/2, gparams{MaxSw: 5, MaxNets: 1, Parts: 3})
				add("mesh", fmt.Sprintf("small%d", rep), nm, map[string]any{"big": false})
				add("mesh", fmt.Sprintf("small%d.b", rep), nm, map[string]any{"big": false})
				add("mesh", fmt.Sprintf("big%d", rep), nm/3, map[string]any{"big": true})
			}
			return bs
		},
		Run: func(b kit.Batch, r *kit.R) {
			if strings.HasPrefix(b.Name, "mesh:") {
				runMesh(b, r)
			} else {
				runGeneric(b, r)
			}
		},
		MustObserve: []string{
			"routes_walked", "networks_with_routes_of_3+_hops", "networks_with_parallel_links",
			"reuse_networks_after_networks_with_devices", "reuse_table_entries_compared", "bwfirst_multi_hop_routes",
			"mesh_routes_walked", "mesh_networks_beyond_initial_capacity", "mesh_networks_3d", "mesh_reuse_networks_compared_with_fresh",
			"disconnected_networks_routed",
		},
	})
}
