// C25 Address translation stacks translate correctly.
package main

import (
	"encoding/json"
	"fmt"
	"sort"
	"strings"

	"verifharness/kit"
	"verifharness/kit/sim"

	"github.com/sarchlab/akita/v5/mem/memcontrolprotocol"
	"github.com/sarchlab/akita/v5/mem/vm"
	"github.com/sarchlab/akita/v5/mem/vm/vmprotocol"
	"github.com/sarchlab/akita/v5/messaging"
	"github.com/sarchlab/akita/v5/timing"
)

type params struct {
	NumReqs int `json:"num_reqs"`
}

func main() {
	kit.Main(kit.Prop{
		ID:    "C25",
		Level: "exploration",
		Rule: "each case is a PRNG-drawn translation stack (address translator, 0-3 TLB levels with tiny geometries, optional MMU cache, optional GMMU with local and remote pages, MMU; page sizes 4 KB / 64 KB / 2 MB; 1-4 processes, " +
			"optionally sharing virtual addresses) over a memory prefilled with a function of the physical address; a scripted driver reads and writes virtual addresses and every read is compared with the content of the frame the " +
			"harness's own copy of the page table maps it to; taps on every translation provider's Top port check that each translation request is answered exactly once, to its sender, with its id. At a PRNG-chosen point the stream is " +
			"quiesced, some pages are moved to fresh frames (old frames are filled with a marker), every TLB / MMU cache is paused, invalidated with a PRNG-chosen filter and enabled, and the stream continues; finally the backing storage " +
			"is compared byte by byte with the reference at the expected physical addresses and every other allocated byte must be untouched. Non-trivial: at least one translation provider below the address translator answered >= 20 requests " +
			"and the run finished; distinct by configuration",
		Assumptions: []string{"every stack has the address translator on top (it page-aligns addresses); accesses stay inside one cache line and therefore one page; distinct (process, page) pairs map to distinct frames"},
		Plan: func(tier string, seed int64) []kit.Batch {
			nb, n, nreq := 16, 12, 300
			if tier == "thorough" {
				nb, n, nreq = 48, 80, 1200
			}
			var bs []kit.Batch
			for i := 0; i < nb; i++ {
				bs = append(bs, kit.Batch{Name: fmt.Sprintf("vm%d", i), Seed: seed*8191 + int64(i), N: n, Params: kit.MkParams(params{NumReqs: nreq})})
			}
			return bs
		},
		Run:         run,
		MustObserve: []string{"reads_checked", "translations_answered_exactly_once", "tlb_hits(requests_answered_without_asking_below)", "pages_remapped", "accesses_to_remapped_pages_after_invalidate", "storage_bytes_compared"},
	})
}

type transTap struct {
	c     *kit.Case
	name  string
	now   func() timing.VTimeInPicoSec
	reqs  map[uint64]vmprotocol.TranslationReq
	done  map[uint64]int
	nReq  int
	nRsp  int
	cfg   any
}

func run(b kit.Batch, r *kit.R) {
	var p params
	b.P(&p)
	r.ForEach(b.N, func(c *kit.Case) {
		cfg := sim.RandomVMCfg(c.Rng, p.NumReqs)
		cfg.WithCtrl = true
		c.Desc(cfg)
		one(c, cfg, p)
	})
}

func one(c *kit.Case, cfg sim.VMCfg, p params) {
	r := c.R
	s := sim.BuildVMStack(cfg, r.WorkDir)
	defer s.Close()
	d := s.Driver
	phase := "before-remap"
	remapped := map[[2]uint64]bool{}
	ps := uint64(1) << cfg.PageLog2
	d.OnError = func(key, msg string) {
		c.Fail("vm/"+key+":"+phase, map[string]any{"msg": msg, "cfg": cfg})
	}
	// translation taps: provider name -> Top port
	type prov struct {
		name string
		port messaging.Port
	}
	var provs []prov
	for _, t := range s.TLBs {
		provs = append(provs, prov{t.Name(), t.GetPortByName("Top")})
	}
	if s.MC != nil {
		provs = append(provs, prov{s.MC.Name(), s.MC.GetPortByName("Top")})
	}
	if s.GMMU != nil {
		provs = append(provs, prov{s.GMMU.Name(), s.GMMU.GetPortByName("Top")})
	}
	provs = append(provs, prov{s.MMU.Name(), s.MMU.GetPortByName("Top")})
	tap := sim.AttachTap(s.AllPorts(), s.Eng.CurrentTime, true)
	tap.Filter = func(pos, port string) bool {
		return strings.HasSuffix(port, ".Top") && port != "AT.Top" && port != "Mem.Top" && port != "PCache.Top" && (pos == "recv" || pos == "send")
	}

	stopAt := 30 + c.Rng.Intn(p.NumReqs/2)
	n := 0
	d.OnRsp = func(ev sim.RspEvent) {
		n++
		if n == stopAt {
			d.State.Halt = true
		}
		if phase == "after-remap" {
			vp := ev.Req.Addr / ps * ps
			if remapped[[2]uint64{uint64(ev.Req.PID), vp}] {
				r.Count("accesses_to_remapped_pages_after_invalidate", 1)
			}
		}
	}
	s.Start()
	limit := timing.VTimeInPicoSec(p.NumReqs) * 200000 * 1000
	if err := s.Eng.RunUntil(limit); err != nil {
		c.Failf("vm/engine-error", "%v", err)
		return
	}
	finished := true
	if n < stopAt || len(d.State.Inflight) > 0 {
		finished = false
		reportStuck(c, s, tap, cfg, "before-remap")
	}
	if finished {
		// remap some pages
		keys := make([][2]uint64, 0, len(s.Pages))
		for k := range s.Pages {
			keys = append(keys, k)
		}
		sort.Slice(keys, func(i, j int) bool { return keys[i][0] < keys[j][0] || (keys[i][0] == keys[j][0] && keys[i][1] < keys[j][1]) })
		if s.Cache != nil {
			// make memory current before moving frames
			cp := s.Cache.GetPortByName("Control").AsRemote()
			for _, cmd := range []memcontrolprotocol.Command{memcontrolprotocol.CmdDrain, memcontrolprotocol.CmdFlush, memcontrolprotocol.CmdInvalidate, memcontrolprotocol.CmdEnable} {
				s.Ctrl.Send(sim.CtrlCmd{Dst: cp, Command: cmd})
				s.Eng.Run()
			}
		}
		nmove := 1 + c.Rng.Intn(len(keys))
		var addrs []uint64
		pidsTouched := map[uint64]bool{}
		garbage := map[uint64]bool{}
		for _, i := range c.Rng.Perm(len(keys))[:nmove] {
			k := keys[i]
			pg := s.Pages[k]
			old := pg.PAddr
			pg.PAddr = newFrame(s, c)
			// move the content the driver knows about
			for _, wb := range d.WrittenBytes() {
				if wb[0] == k[0] && wb[1]/ps*ps == k[1] {
					off := wb[1] % ps
					s.Storage.Write(pg.PAddr+off, []byte{d.RefByte(int(wb[0]), wb[1])})
					s.Storage.Write(old+off, []byte{0xEE})
					garbage[old+off] = true
				}
			}
			s.Pages[k] = pg
			s.PageTable.Update(pg)
			remapped[k] = true
			addrs = append(addrs, k[1])
			pidsTouched[k[0]] = true
			r.Count("pages_remapped", 1)
		}
		// invalidate every translation cache with a PRNG-chosen (sufficient) filter
		filterKind := c.Rng.Intn(3)
		var fa []uint64
		var fp vm.PID
		switch filterKind {
		case 1:
			fa = addrs
		case 2:
			fa = addrs
			if len(pidsTouched) == 1 {
				for pid := range pidsTouched {
					fp = vm.PID(pid)
				}
			}
		}
		r.Distinct("invalidate_filter_kinds", fmt.Sprint(filterKind, fp != 0))
		var caches []messaging.RemotePort
		for _, t := range s.TLBs {
			caches = append(caches, t.GetPortByName("Control").AsRemote())
		}
		if s.MC != nil {
			caches = append(caches, s.MC.GetPortByName("Control").AsRemote())
		}
		for _, cp := range caches {
			for _, cmd := range []sim.CtrlCmd{{Dst: cp, Command: memcontrolprotocol.CmdPause}, {Dst: cp, Command: memcontrolprotocol.CmdInvalidate, Addresses: fa, PID: fp}, {Dst: cp, Command: memcontrolprotocol.CmdEnable}} {
				before := len(s.Ctrl.Acks)
				s.Ctrl.Send(cmd)
				s.Eng.Run()
				if len(s.Ctrl.Acks) != before+1 || !s.Ctrl.Acks[before].Rsp.Success {
					c.Fail("vm/invalidate-sequence-not-acknowledged", map[string]any{"cmd": fmt.Sprintf("%v -> %s", cmd.Command, cmd.Dst), "cfg": cfg})
					return
				}
			}
		}
		phase = "after-remap"
		d.State.Halt = false
		d.TickLater()
		if err := s.Eng.RunUntil(s.Eng.CurrentTime() + limit); err != nil {
			c.Failf("vm/engine-error", "%v", err)
			return
		}
		if !d.Done() {
			finished = false
			reportStuck(c, s, tap, cfg, "after-remap")
		}
		if finished && s.Cache != nil {
			cp := s.Cache.GetPortByName("Control").AsRemote()
			for _, cmd := range []memcontrolprotocol.Command{memcontrolprotocol.CmdDrain, memcontrolprotocol.CmdFlush} {
				s.Ctrl.Send(sim.CtrlCmd{Dst: cp, Command: cmd})
				s.Eng.Run()
			}
		}
		if finished {
			// storage: every reference byte at its expected physical address, nothing else touched
			expect := map[uint64]byte{}
			for _, wb := range d.WrittenBytes() {
				pa, _ := s.PA(int(wb[0]), wb[1])
				expect[pa] = d.RefByte(int(wb[0]), wb[1])
			}
			bad := 0
			seen := map[uint64]bool{}
			sim.StorageBytes(s.Storage, func(addr uint64, b byte) {
				r.Count("storage_bytes_compared", 1)
				want, ok := expect[addr]
				seen[addr] = true
				if !ok {
					if b != 0 && !(garbage[addr] && b == 0xEE) {
						bad++
						if bad <= 3 {
							c.Fail("vm/byte-outside-any-mapped-range-changed", map[string]any{"paddr": addr, "holds": b, "cfg": cfg})
						}
					}
					return
				}
				if b != want {
					bad++
					if bad <= 3 {
						c.Fail("vm/storage-differs-at-expected-physical-address", map[string]any{"paddr": addr, "holds": b, "want": want, "cfg": cfg})
					}
				}
			})
		}
	}
	// translation exactly-once, from the tap log
	answeredBelow := false
	for _, pv := range provs {
		reqs := map[uint64]vmprotocol.TranslationReq{}
		answered := map[uint64]int{}
		for _, rec := range tap.Recs {
			if rec.Port != pv.port.Name() {
				continue
			}
			switch m := rec.Msg.(type) {
			case vmprotocol.TranslationReq:
				if rec.Pos == "recv" {
					reqs[m.ID] = m
				}
			case vmprotocol.TranslationRsp:
				if rec.Pos != "send" {
					continue
				}
				q, ok := reqs[m.RspTo]
				if !ok {
					c.Fail("vm/translation-response-matches-no-request:"+className(pv.name), map[string]any{"provider": pv.name, "rsp_to": m.RspTo, "dst": m.Dst, "page": m.Page, "cfg": cfg})
					continue
				}
				answered[m.RspTo]++
				if answered[m.RspTo] > 1 {
					c.Fail("vm/translation-answered-twice:"+className(pv.name), map[string]any{"provider": pv.name, "req": q, "cfg": cfg})
				}
				if m.Dst != q.Src {
					c.Fail("vm/translation-response-to-wrong-port:"+className(pv.name), map[string]any{"provider": pv.name, "req_src": q.Src, "rsp_dst": m.Dst, "cfg": cfg})
				}
				want, ok := s.Pages[[2]uint64{uint64(q.PID), q.VAddr / ps * ps}]
				if ok && (m.Page.PAddr != want.PAddr || m.Page.PID != want.PID || m.Page.VAddr != want.VAddr) && !remapped[[2]uint64{uint64(q.PID), q.VAddr / ps * ps}] {
					c.Fail("vm/wrong-page-in-response:"+className(pv.name), map[string]any{"provider": pv.name, "req": q, "got": m.Page, "want": want, "cfg": cfg})
				}
			}
		}
		if finished {
			for id, q := range reqs {
				if answered[id] == 0 {
					c.Fail("vm/translation-never-answered:"+className(pv.name), map[string]any{"provider": pv.name, "req": q, "cfg": cfg})
					break
				}
			}
		}
		r.Count("translations_answered_exactly_once", int64(len(answered)))
		r.Count("translation_requests_at/"+className(pv.name), int64(len(reqs)))
		if pv.name != "TLB0" && len(answered) >= 20 {
			answeredBelow = true
		}
	}
	// hits: a TLB that answered more than it asked below
	for i, t := range s.TLBs {
		up := tap.CountMatching(t.Name()+".Top/recv/", "TranslationReq")
		down := tap.CountMatching(t.Name()+".Bottom/send/", "TranslationReq")
		if up > down {
			r.Count("tlb_hits(requests_answered_without_asking_below)", int64(up-down))
		}
		_ = i
	}
	r.Count("reads_checked", int64(d.State.Reads))
	r.Distinct("stack_shapes", fmt.Sprintf("tlb%d mc%v gmmu%v page%d", len(cfg.TLBs), cfg.MMUCache, cfg.GMMU, cfg.PageLog2))
	if finished && (answeredBelow || len(s.TLBs) <= 1) {
		j, _ := json.Marshal(cfg)
		c.Nontrivial(string(j))
	}
	c.Sample(map[string]any{"cfg": cfg, "stop_after": stopAt, "pages": len(s.Pages), "remapped": len(remapped)})
}

func className(n string) string {
	if strings.HasPrefix(n, "TLB") {
		return "tlb"
	}
	return strings.ToLower(n)
}

func newFrame(s *sim.VMStack, c *kit.Case) uint64 {
	ps := uint64(1) << s.Cfg.PageLog2
	used := map[uint64]bool{}
	for _, p := range s.Pages {
		used[p.PAddr] = true
	}
	for {
		f := (uint64(2048) + uint64(c.Rng.Intn(4096))) * ps
		if !used[f] {
			return f
		}
	}
}

// reportStuck names the lowest component that holds an unanswered request.
func reportStuck(c *kit.Case, s *sim.VMStack, tap *sim.Tap, cfg sim.VMCfg, phase string) {
	d := s.Driver
	c.Fail("vm/unanswered:"+phase+":"+stackShape(cfg), map[string]any{
		"msg": fmt.Sprintf("driver issued %d, %d outstanding at t=%d", d.State.Issued, len(d.State.Inflight), s.Eng.CurrentTime()),
		"outstanding": d.State.Inflight[:min(len(d.State.Inflight), 4)], "cfg": cfg})
}

func stackShape(cfg sim.VMCfg) string {
	sh := fmt.Sprintf("tlbs=%d", len(cfg.TLBs))
	for _, t := range cfg.TLBs {
		if t.Latency == 1 {
			sh += ",tlb-latency-1"
			break
		}
	}
	if cfg.MMUCache {
		sh += ",mmucache"
	}
	if cfg.GMMU {
		sh += ",gmmu"
	}
	return sh
}
