package main

import (
	"fmt"
	"sort"

	"github.com/sarchlab/akita/v5/hooking"
	"github.com/sarchlab/akita/v5/mem/memcontrolprotocol"
	"github.com/sarchlab/akita/v5/messaging"
	"github.com/sarchlab/akita/v5/timing"
	"github.com/sarchlab/akita/v5/tracing"
)

// One record of the global trace stream (serial engine: one goroutine, so the
// append order is the stream order).
type rec struct {
	Op     byte // 'S' start, 'E' end, 'T' tag, 'M' milestone, 'R' reset acknowledged (marker)
	Comp   string
	ID     uint64 // task id (S/E) or owning task id (T/M)
	Parent uint64
	Kind   string
	What   string
	Loc    string
	Time   timing.VTimeInPicoSec
}

type stream struct {
	recs []rec
}

// compTracer is the recording tracer attached to one component.
type compTracer struct {
	s    *stream
	comp string
}

func (t *compTracer) StartTask(x tracing.TaskStart) {
	t.s.recs = append(t.s.recs, rec{Op: 'S', Comp: t.comp, ID: x.ID, Parent: x.ParentID, Kind: x.Kind, What: x.What, Loc: x.Location, Time: x.Time})
}
func (t *compTracer) EndTask(x tracing.TaskEnd) {
	t.s.recs = append(t.s.recs, rec{Op: 'E', Comp: t.comp, ID: x.ID, Time: x.Time})
}
func (t *compTracer) AddTaskTag(x tracing.TaskTag) {
	t.s.recs = append(t.s.recs, rec{Op: 'T', Comp: t.comp, ID: x.TaskID, What: x.What, Time: x.Time})
}
func (t *compTracer) AddMilestone(x tracing.Milestone) {
	t.s.recs = append(t.s.recs, rec{Op: 'M', Comp: t.comp, ID: x.TaskID, Kind: string(x.Kind), What: x.What, Time: x.Time})
}

// resetMarker is a hook on Control ports: it appends a marker when a component
// sends the acknowledgment of a Reset (the teardown precedes the ack in the
// same tick).
type resetMarker struct {
	s   *stream
	now func() timing.VTimeInPicoSec
}

func (m *resetMarker) Func(ctx hooking.HookCtx) {
	if ctx.Pos != messaging.HookPosPortMsgSend {
		return
	}
	rsp, ok := ctx.Item.(memcontrolprotocol.Rsp)
	if !ok || rsp.Command != memcontrolprotocol.CmdReset {
		return
	}
	p := ctx.Domain.(messaging.Port)
	m.s.recs = append(m.s.recs, rec{Op: 'R', Comp: p.Component().Name(), Time: m.now()})
}

type task struct {
	start, end int // stream indices; end = -1 while open
	r          rec
	endTime    timing.VTimeInPicoSec
	afterReset bool // ended while the component was tearing down for a Reset
}

type problem struct {
	Key     string
	Witness map[string]any
}

type analysis struct {
	Problems []problem
	Counts   map[string]int64
	Kinds    map[string]bool
	Open     int
}

func isBufferKind(k string) bool {
	return k == tracing.IncomingBufferTaskKind || k == tracing.OutgoingBufferTaskKind
}

// window renders the stream around index i for the named task id, as a witness.
func window(recs []rec, ids map[uint64]bool, upto int) []string {
	var out []string
	for i := 0; i <= upto && i < len(recs); i++ {
		r := recs[i]
		if r.Op == 'R' || ids[r.ID] || (r.Op == 'S' && ids[r.Parent]) {
			out = append(out, fmt.Sprintf("#%d t=%d %c %s id=%d parent=%d kind=%s what=%s loc=%s", i, r.Time, r.Op, r.Comp, r.ID, r.Parent, r.Kind, r.What, r.Loc))
		}
	}
	if len(out) > 24 {
		out = append(out[:6], out[len(out)-18:]...)
	}
	return out
}

// instant lists what the component of record i did at that record's timestamp.
func instant(recs []rec, i int) []string {
	var out []string
	for j, r := range recs {
		if r.Comp == recs[i].Comp && r.Time == recs[i].Time && j <= i+12 {
			out = append(out, fmt.Sprintf("#%d %c id=%d parent=%d kind=%s what=%s loc=%s", j, r.Op, r.ID, r.Parent, r.Kind, r.What, r.Loc))
		}
	}
	if len(out) > 40 {
		out = out[len(out)-40:]
	}
	return out
}

// analyse decides the well-formedness of the whole stream. final: the run is
// quiescent, so no task may be open. compKind names the kind of a component
// (for stable violation keys).
func analyse(recs []rec, final bool, compKind func(string) string) *analysis {
	a := &analysis{Counts: map[string]int64{}, Kinds: map[string]bool{}}
	tasks := map[uint64]*task{}
	locKind := map[string]string{}
	locFirst := map[string]int{}
	seen := map[string]bool{}
	add := func(key string, w map[string]any) {
		if seen[key] { // one witness per class and run
			a.Counts["violations/"+key]++
			return
		}
		seen[key] = true
		a.Counts["violations/"+key]++
		a.Problems = append(a.Problems, problem{key, w})
	}
	// indices of reset markers per component, to classify ends as teardown ends
	teardown := map[int]bool{}     // record index -> part of a reset teardown
	{
		// A Reset handler ends its tasks and then sends the ack within one
		// tick: the E records of the component directly preceding the marker
		// with the marker's timestamp are teardown ends.
		for i, r := range recs {
			if r.Op != 'R' {
				continue
			}
			for j := i - 1; j >= 0; j-- {
				q := recs[j]
				if q.Comp != r.Comp {
					continue
				}
				if q.Time != r.Time || q.Op == 'R' || (q.Op == 'S' && !isBufferKind(q.Kind)) {
					break
				}
				if q.Op == 'E' {
					teardown[j] = true
				}
			}
			// the ROB acknowledges first and tears down afterwards, in the same tick
			for j := i + 1; j < len(recs); j++ {
				q := recs[j]
				if q.Comp != r.Comp {
					continue
				}
				if q.Time != r.Time || q.Op == 'R' || (q.Op == 'S' && !isBufferKind(q.Kind)) {
					break
				}
				if q.Op == 'E' {
					teardown[j] = true
				}
			}
		}
	}
	for i, r := range recs {
		switch r.Op {
		case 'R':
			a.Counts["reset_acks_seen_in_stream"]++
		case 'S':
			a.Counts["tasks_started"]++
			a.Counts["tasks_started/"+r.Kind]++
			a.Kinds[r.Kind] = true
			if r.Loc == "" {
				add("trace/task-without-location:"+compKind(r.Comp)+":"+r.Kind, map[string]any{"record": fmt.Sprint(r), "index": i})
			}
			if k, ok := locKind[r.Loc]; ok && k != r.Kind {
				add("trace/location-hosts-two-kinds:"+compKind(r.Comp)+":"+k+"+"+r.Kind, map[string]any{"location": r.Loc, "first_kind": k, "first_at": fmt.Sprint(recs[locFirst[r.Loc]]), "second_kind": r.Kind, "second_at": fmt.Sprint(r)})
			} else if !ok {
				locKind[r.Loc] = r.Kind
				locFirst[r.Loc] = i
			}
			if t, ok := tasks[r.ID]; ok {
				state := "while-open"
				if t.end >= 0 {
					state = "after-it-ended"
				}
				add("trace/task-started-twice:"+state+":"+compKind(r.Comp)+":"+r.Kind, map[string]any{"id": r.ID, "first_start": fmt.Sprint(t.r), "second_start": fmt.Sprint(r),
					"stream": window(recs, map[uint64]bool{r.ID: true}, i)})
				continue
			}
			tasks[r.ID] = &task{start: i, end: -1, r: r}
		case 'E':
			t, ok := tasks[r.ID]
			if !ok {
				// documented no-op: EndTask for an id that was never started
				a.Counts["ends_of_never_started_tasks(tolerated)"]++
				if teardown[i] {
					a.Counts["ends_of_never_started_tasks_during_reset_teardown(tolerated)"]++
				}
				continue
			}
			if t.end >= 0 {
				how := "plain"
				if teardown[i] {
					how = "second-end-by-reset-teardown"
				} else if t.afterReset {
					how = "second-end-after-reset-teardown"
				}
				add("trace/task-ended-twice:"+how+":"+compKind(t.r.Comp)+":"+t.r.Kind, map[string]any{"id": r.ID, "task": fmt.Sprint(t.r), "first_end": fmt.Sprint(recs[t.end]), "second_end": fmt.Sprint(r),
					"stream": window(recs, map[uint64]bool{r.ID: true}, i), "same_instant_at_component": instant(recs, i)})
				continue
			}
			t.end, t.endTime, t.afterReset = i, r.Time, teardown[i]
			a.Counts["tasks_ended"]++
			if teardown[i] {
				if isBufferKind(t.r.Kind) {
					a.Counts["buffer_tasks_ended_by_reset_port_clearing"]++
				} else {
					a.Counts["tasks_ended_by_reset_teardown"]++
					a.Counts["tasks_ended_by_reset_teardown/"+compKind(t.r.Comp)+":"+t.r.Kind]++
				}
			}
			if r.Time < t.r.Time {
				add("trace/task-ends-before-it-starts:"+compKind(t.r.Comp)+":"+t.r.Kind, map[string]any{"task": fmt.Sprint(t.r), "end": fmt.Sprint(r)})
			}
			if r.Time > t.r.Time {
				a.Counts["tasks_with_positive_duration"]++
			}
		case 'T', 'M':
			name := "tag"
			if r.Op == 'M' {
				name = "milestone"
			}
			a.Counts[name+"s"]++
			t, ok := tasks[r.ID]
			switch {
			case !ok:
				add("trace/"+name+"-on-never-started-task:"+compKind(r.Comp)+":"+r.Kind, map[string]any{"record": fmt.Sprint(r), "index": i,
					"stream": window(recs, map[uint64]bool{r.ID: true}, min(i+400, len(recs)-1))})
			case t.end >= 0:
				add("trace/"+name+"-after-task-end:"+compKind(t.r.Comp)+":"+t.r.Kind, map[string]any{"record": fmt.Sprint(r), "task": fmt.Sprint(t.r), "end": fmt.Sprint(recs[t.end]),
					"stream": window(recs, map[uint64]bool{r.ID: true}, i)})
			case r.Time < t.r.Time:
				add("trace/"+name+"-before-task-start:"+compKind(t.r.Comp)+":"+t.r.Kind, map[string]any{"record": fmt.Sprint(r), "task": fmt.Sprint(t.r)})
			default:
				a.Counts[name+"s_inside_an_open_task"]++
			}
		}
	}
	if final {
		var open []*task
		for _, t := range tasks {
			if t.end < 0 {
				open = append(open, t)
			}
		}
		sort.Slice(open, func(i, j int) bool { return open[i].start < open[j].start })
		a.Open = len(open)
		for _, t := range open {
			add("trace/task-left-open:"+compKind(t.r.Comp)+":"+t.r.Kind, map[string]any{"task": fmt.Sprint(t.r), "open_tasks_total": len(open),
				"stream": window(recs, map[uint64]bool{t.r.ID: true, t.r.Parent: true}, len(recs)-1)})
		}
	}
	a.Counts["locations"] = int64(len(locKind))
	return a
}
