// C32 Traces are well-formed task trees.
//
// A recording tracer is attached to every component of a PRNG-drawn memory
// hierarchy (the port buffer tracers that simulation.RegisterPort installs
// report to the same tracers). A control driver pauses / drains / resets the
// whole hierarchy in the middle of traffic. At every quiescent point the
// global stream is checked: ids started once, ended exactly once, end >= start,
// none open; tags and milestones inside the lifetime of a started task; one
// kind per location.
package main

import (
	"encoding/json"
	"fmt"
	"os"
	"regexp"
	"sort"
	"strings"

	"verifharness/kit"
	"verifharness/kit/sim"

	"github.com/sarchlab/akita/v5/mem/memcontrolprotocol"
	"github.com/sarchlab/akita/v5/messaging"
	"github.com/sarchlab/akita/v5/tracing"
)

type params struct {
	NumReqs int  `json:"num_reqs"`
	Xlat    bool `json:"xlat"` // translation stack (address translator, TLB, MMU) instead of a cache hierarchy
}

func main() {
	kit.Main(kit.Prop{
		ID:    "C32",
		Level: "exploration",
		Rule: "each case is a PRNG-drawn memory hierarchy (ROB, write-around/evict/through and write-back caches, ideal/banked/DRAM memories, 1-3 drivers) or, in every fourth batch, a translation stack (address translator -> TLB -> [MMU cache ->] MMU with auto page allocation, " +
			"ideal memory; when the MMU cache is not in the path it is idle and only takes part in the control history; 1-2 drivers with two processes) with a recording tracer on every component and a PRNG-drawn control history: " +
			"0-3 control episodes, each started at a PRNG-chosen response count with requests in flight: hot Reset of every component (top-down, bottom-up or shuffled), Pause-all then Reset-all, Drain-all then Reset-all, or Pause-all then Enable-all; " +
			"after each episode the hierarchy is brought to quiescence (each component is Reset once more bottom-up, one at a time, so that no transaction is left waiting for a neighbour that dropped it), the stream is judged, and traffic resumes. " +
			"Non-trivial: at least 200 tasks were traced and, for histories with a Reset, at least one task was ended by a reset teardown; distinct by (configuration, history)",
		Assumptions: []string{
			"task ids are global (the DB tracer keys its task table by id alone), so 'started once' is judged over the whole assembly",
			"EndTask for an id that was never started is a documented no-op (tracing.EndTaskOnReset): tolerated and counted",
			"quiescence = the event queue is empty after every library component has been Reset (and thereby enabled); the drivers' cancelled requests are forgotten before traffic resumes",
		},
		Plan: func(tier string, seed int64) []kit.Batch {
			nb, n, nreq := 16, 4, 300
			if tier == "thorough" {
				nb, n, nreq = 48, 60, 900
			}
			var bs []kit.Batch
			for i := 0; i < nb; i++ {
				bs = append(bs, kit.Batch{Name: fmt.Sprintf("trace%d", i), Seed: seed*6689 + int64(i), N: n, Params: kit.MkParams(params{NumReqs: nreq, Xlat: i%4 == 3})})
			}
			return bs
		},
		Run: run,
		MustObserve: []string{"tasks_started", "tasks_ended", "milestones_inside_an_open_task", "tags_inside_an_open_task", "tasks_ended_by_reset_teardown",
			"resets_acknowledged_with_requests_in_flight", "quiescent_points_judged", "runs_with_traffic_after_a_reset", "cases_with_slow_requesters_throughout"},
	})
}

var lvlRe = regexp.MustCompile(`^L\d+`)

func compKindFn(cfg sim.StackCfg) func(string) string {
	return func(name string) string {
		switch {
		case lvlRe.MatchString(name):
			return lvlRe.ReplaceAllString(name, "")
		case strings.HasPrefix(name, "Mem"):
			return cfg.Mem.Kind
		case strings.HasPrefix(name, "Driver"):
			return "driver"
		case strings.HasPrefix(name, "CtrlDriver"):
			return "ctrldriver"
		case strings.Contains(name, "Conn"):
			return "conn"
		}
		return name
	}
}

type episode struct {
	At    int    `json:"at_response"` // responses (over all drivers) after which the episode starts
	Kind  string `json:"kind"`        // hot-reset | pause-reset | drain-reset | pause-enable
	Order string `json:"order"`       // top-down | bottom-up | shuffled
	Perm  []int  `json:"perm,omitempty"`
}

func ctrlPort(c messaging.Component) messaging.RemotePort {
	return c.GetPortByName("Control").AsRemote()
}

type runner struct {
	c     *kit.Case
	s     *sim.Stack
	desc  any
	units []messaging.Component // top-down: levels then memories
}

// send queues the commands (all at once when hot, else one at a time with a
// run to quiescence in between) and runs the engine. It reports whether every
// command was acknowledged.
func (x *runner) send(cmds []sim.CtrlCmd, oneAtATime bool) bool {
	s := x.s
	n := len(s.Ctrl.Acks)
	if oneAtATime {
		for _, cmd := range cmds {
			s.Ctrl.Send(cmd)
			if err := s.Engine.Run(); err != nil {
				x.c.Failf("trace/engine-error", "%v", err)
				return false
			}
		}
	} else {
		for _, cmd := range cmds {
			s.Ctrl.Send(cmd)
		}
		if err := s.Engine.Run(); err != nil {
			x.c.Failf("trace/engine-error", "%v", err)
			return false
		}
	}
	if len(s.Ctrl.Acks) != n+len(cmds) {
		x.c.R.Count("control_commands_not_acknowledged(case_not_judged_further)", 1)
		return false
	}
	return true
}

func (x *runner) all(cmd memcontrolprotocol.Command, order string, perm []int) []sim.CtrlCmd {
	var out []sim.CtrlCmd
	idx := make([]int, len(x.units))
	for i := range idx {
		idx[i] = i
	}
	switch order {
	case "bottom-up":
		for i, j := 0, len(idx)-1; i < j; i, j = i+1, j-1 {
			idx[i], idx[j] = idx[j], idx[i]
		}
	case "shuffled":
		idx = perm
	}
	for _, i := range idx {
		out = append(out, sim.CtrlCmd{Dst: ctrlPort(x.units[i]), Command: cmd})
	}
	return out
}

func run(b kit.Batch, r *kit.R) {
	var p params
	b.P(&p)
	r.ForEach(b.N, func(c *kit.Case) { oneCase(c, p) })
}

func oneCase(c *kit.Case, p params) {
	r := c.R
	rng := c.Rng
	var cfg sim.StackCfg
	var xc *xlatCfg
	nUnits := 5
	if p.Xlat {
		xc = randomXlatCfg(rng, p.NumReqs)
		cfg = xc.stackCfg()
	} else {
		opts := sim.GenOpts{NumReqs: p.NumReqs, AllowDRAM: rng.Intn(3) == 0, AllowBanked: true, MaxDrivers: 3, RspStall: true}
		backPressured := rng.Intn(4) == 0 // a quarter of the hierarchies: slow requesters throughout, so resets meet units whose Top port is full
		if backPressured {
			opts.MemKind = []string{"banked", "banked", "ideal", "dram"}[rng.Intn(4)]
			opts.NoLevels = rng.Intn(2) == 0 // the slow requesters sit directly on the memory
		}
		cfg = sim.RandomStackCfg(rng, opts)
		if backPressured {
			for i := range cfg.Drivers {
				cfg.Drivers[i].RspStallPct = 60 + 10*rng.Intn(4)
				if cfg.Drivers[i].MaxInflight < 16 {
					cfg.Drivers[i].MaxInflight = 16 // enough outstanding requests to fill the small port buffers
				}
			}
			cfg.PortBuf = 1 + rng.Intn(2)
			r.Count("cases_with_slow_requesters_throughout", 1)
		}
		cfg.WithCtrl = true
		cfg.Tracing = rng.Intn(2) == 0
		nUnits = len(cfg.Levels) + max(cfg.Mem.Count, 1)
	}
	// control history
	var eps []episode
	nEp := []int{0, 1, 1, 2, 2, 3}[rng.Intn(6)]
	at := 0
	for i := 0; i < nEp; i++ {
		at += 10 + rng.Intn(p.NumReqs/(nEp+1))
		e := episode{At: at, Kind: []string{"hot-reset", "hot-reset", "pause-reset", "drain-reset", "pause-enable"}[rng.Intn(5)],
			Order: []string{"top-down", "bottom-up", "shuffled"}[rng.Intn(3)]}
		if e.Order == "shuffled" {
			e.Perm = rng.Perm(nUnits)
		}
		eps = append(eps, e)
	}
	desc := map[string]any{"cfg": cfg, "history": eps}
	var s *sim.Stack
	if p.Xlat {
		desc = map[string]any{"translation_stack": xc, "history": eps}
		c.Desc(desc)
		s = buildXlat(xc, r.WorkDir)
	} else {
		c.Desc(desc)
		s = sim.BuildStack(cfg, r.WorkDir)
	}
	defer s.Close()
	x := &runner{c: c, s: s, desc: desc}
	x.units = append(x.units, s.Levels...)
	x.units = append(x.units, s.Mems...)
	kindOf := compKindFn(cfg)

	// recording tracer on every component; reset markers on every Control port
	st := &stream{}
	for _, comp := range s.Sim.Components() {
		d, ok := comp.(tracing.NamedHookable)
		if !ok {
			r.Count("components_that_cannot_be_traced", 1)
			continue
		}
		tracing.CollectTrace(d, &compTracer{s: st, comp: comp.Name()})
		r.Count("components_traced", 1)
	}
	mk := &resetMarker{s: st, now: s.Engine.CurrentTime}
	for _, u := range x.units {
		u.GetPortByName("Control").AcceptHook(mk)
	}

	judged := 0
	quiescent := true // false: the stream stalled, so open tasks are expected and not judged
	judge := func(final bool, phase string) bool {
		a := analyse(st.recs, quiescent, kindOf)
		if path := os.Getenv("C32_DUMP"); path != "" { // debugging aid for replays
			var sb strings.Builder
			for i, q := range st.recs {
				fmt.Fprintf(&sb, "#%d t=%d %c %s id=%d parent=%d kind=%s what=%s loc=%s\n", i, q.Time, q.Op, q.Comp, q.ID, q.Parent, q.Kind, q.What, q.Loc)
			}
			os.WriteFile(path, []byte(sb.String()), 0o644)
		}
		judged++
		r.Count("quiescent_points_judged", 1)
		for _, pr := range a.Problems {
			pr.Witness["phase"] = phase
			pr.Witness["case"] = desc
			c.Fail(pr.Key, pr.Witness)
		}
		if final {
			for k, v := range a.Counts {
				r.Count(k, v)
			}
			for k := range a.Kinds {
				r.Distinct("task_kinds", k)
			}
			r.Max("max_tasks_in_one_run", a.Counts["tasks_started"])
		}
		return len(a.Problems) == 0
	}

	total := 0
	next := 0 // next episode
	trigger := false
	armed := true // an episode may start only while traffic is running, not during the later steps of the previous one
	inflightAtTrigger := 0
	firstN := 0
	for _, d := range s.Drivers {
		d.OnRsp = func(sim.RspEvent) {
			total++
			if armed && next < len(eps) && total >= eps[next].At {
				trigger, armed = true, false
				for _, q := range s.Drivers {
					q.State.Halt = true
					inflightAtTrigger += len(q.State.Inflight)
				}
				// the first step of the episode starts right now, with requests, fills and evictions in flight
				e := eps[next]
				var first []sim.CtrlCmd
				switch e.Kind {
				case "hot-reset":
					first = x.all(memcontrolprotocol.CmdReset, e.Order, e.Perm)
				case "pause-reset", "pause-enable":
					first = x.all(memcontrolprotocol.CmdPause, e.Order, e.Perm)
				case "drain-reset":
					first = x.all(memcontrolprotocol.CmdDrain, "top-down", nil)[:1]
				}
				firstN = len(first)
				for _, cmd := range first {
					s.Ctrl.Send(cmd)
				}
			}
		}
	}
	s.Start()
	hadReset, trafficAfterReset := false, false
	ok := true
	for ok {
		nAcks := len(s.Ctrl.Acks)
		if err := s.Engine.Run(); err != nil {
			c.Failf("trace/engine-error", "%v", err)
			return
		}
		if !trigger {
			break // the stream finished (or stalled) without reaching the next episode
		}
		trigger = false
		e := eps[next]
		next++
		if len(s.Ctrl.Acks) != nAcks+firstN {
			r.Count("control_commands_not_acknowledged(case_not_judged_further)", 1)
			return
		}
		r.Count("episodes/"+e.Kind, 1)
		if inflightAtTrigger > 0 {
			r.Count("episodes_started_with_requests_in_flight", 1)
			if e.Kind == "hot-reset" || e.Kind == "pause-reset" {
				r.Count("resets_acknowledged_with_requests_in_flight", 1)
			}
		}
		inflightAtTrigger = 0
		switch e.Kind {
		case "drain-reset":
			// the lower levels are drained one at a time, top-down, so each can still complete the work of the level above
			ok = x.send(x.all(memcontrolprotocol.CmdDrain, "top-down", nil)[1:], true) &&
				x.send(x.all(memcontrolprotocol.CmdReset, e.Order, e.Perm), false)
		case "pause-reset":
			ok = x.send(x.all(memcontrolprotocol.CmdReset, e.Order, e.Perm), false)
		case "pause-enable":
			ok = x.send(x.all(memcontrolprotocol.CmdEnable, e.Order, e.Perm), false)
		}
		if !ok {
			return
		}
		if e.Kind != "pause-enable" {
			hadReset = true
			// settle: nothing may be left waiting for a neighbour that dropped its request
			if !x.send(x.all(memcontrolprotocol.CmdReset, "bottom-up", nil), true) {
				return
			}
			if !judge(false, fmt.Sprintf("after episode %d (%s)", next, e.Kind)) {
				return
			}
			for _, d := range s.Drivers {
				d.State.Inflight = nil // cancelled by the Reset
			}
		}
		armed = true
		for _, d := range s.Drivers {
			d.State.Halt = false
			d.TickLater()
			if hadReset && d.State.Issued < d.Spec().NumReqs {
				trafficAfterReset = true
			}
		}
	}
	done := true
	for _, d := range s.Drivers {
		if !d.Done() {
			done = false
		}
		r.Count("driver_responses", int64(d.State.Completed))
	}
	if !done {
		// not this property's subject (C16/C18 judge liveness); the open tasks of a stalled hierarchy are not a tracing defect
		r.Count("runs_that_did_not_finish_their_stream(open_tasks_not_judged)", 1)
		quiescent = false
		judge(true, "end of run (stream not finished)")
		return
	}
	good := judge(true, "end of run")
	if trafficAfterReset {
		r.Count("runs_with_traffic_after_a_reset", 1)
	}
	var kinds []string
	for _, l := range cfg.Levels {
		kinds = append(kinds, l.Kind)
	}
	shape := strings.Join(kinds, ">") + ">" + cfg.Mem.Kind
	if p.Xlat {
		shape = "at>(tlb>mmu)+ideal"
		if xc.MMUCacheInPath {
			shape = "at>(tlb>mmucache>mmu)+ideal"
		}
	}
	r.Distinct("stack_shapes", shape)
	var hk []string
	for _, e := range eps {
		hk = append(hk, e.Kind)
	}
	sort.Strings(hk)
	r.Distinct("history_shapes", strings.Join(hk, "+"))
	a := analyse(st.recs, true, kindOf)
	if good && a.Counts["tasks_started"] >= 200 && (!hadReset || a.Counts["tasks_ended_by_reset_teardown"] > 0) {
		j, _ := json.Marshal(desc)
		c.Nontrivial(string(j))
	}
	c.Sample(map[string]any{"shape": shape, "history": eps, "case": desc, "tasks": a.Counts["tasks_started"], "milestones": a.Counts["milestones"], "tags": a.Counts["tags"],
		"ended_by_reset_teardown": a.Counts["tasks_ended_by_reset_teardown"], "end_time_ps": s.Engine.CurrentTime()})
}
