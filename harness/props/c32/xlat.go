package main

import (
	"math/rand"

	"verifharness/kit/sim"

	"github.com/sarchlab/akita/v5/mem"
	"github.com/sarchlab/akita/v5/mem/idealmemcontroller"
	"github.com/sarchlab/akita/v5/mem/vm/addresstranslator"
	"github.com/sarchlab/akita/v5/mem/vm/mmu"
	"github.com/sarchlab/akita/v5/mem/vm/mmuCache"
	"github.com/sarchlab/akita/v5/mem/vm/tlb"
	"github.com/sarchlab/akita/v5/messaging"
	"github.com/sarchlab/akita/v5/modeling"
	"github.com/sarchlab/akita/v5/noc/directconnection"
	"github.com/sarchlab/akita/v5/timing"
)

// xlatCfg describes a translation stack: drivers -> address translator; the
// translator asks a TLB backed by an MMU with auto page allocation (directly or
// through an MMU cache) and forwards the translated request to an ideal memory.
type xlatCfg struct {
	ATReqPerCycle  int              `json:"at_req_per_cycle"`
	TLBSets        int              `json:"tlb_sets"`
	TLBWays        int              `json:"tlb_ways"`
	TLBMSHR        int              `json:"tlb_mshr"`
	TLBLatency     int              `json:"tlb_latency"`
	TLBReqPerCycle int              `json:"tlb_req_per_cycle"`
	MMULatency     int              `json:"mmu_latency"`
	MMUInflight    int              `json:"mmu_inflight"`
	MMUCacheInPath bool             `json:"mmu_cache_in_path"` // TLB -> MMU cache -> MMU; otherwise the MMU cache is idle
	MCBlocks       int              `json:"mmu_cache_blocks"`
	MCLevels       int              `json:"mmu_cache_levels"`
	MCLatency      int              `json:"mmu_cache_latency_per_level"`
	MemLatency     int              `json:"mem_latency"`
	PortBuf        int              `json:"port_buf"`
	Tracing        bool             `json:"tracing"`
	Drivers        []sim.DriverSpec `json:"drivers"`
}

func pickInt(rng *rand.Rand, xs ...int) int { return xs[rng.Intn(len(xs))] }

func randomXlatCfg(rng *rand.Rand, nreq int) *xlatCfg {
	x := &xlatCfg{
		ATReqPerCycle: 1 + rng.Intn(4),
		TLBSets:       pickInt(rng, 1, 2, 4), TLBWays: 1 + rng.Intn(4), TLBMSHR: 1 + rng.Intn(4), TLBLatency: 1 + rng.Intn(5), TLBReqPerCycle: 1 + rng.Intn(4),
		MMULatency: pickInt(rng, 0, 1, 5, 20, 60), MMUInflight: 1 + rng.Intn(8),
		MMUCacheInPath: rng.Intn(2) == 0, MCBlocks: 1 + rng.Intn(4), MCLevels: 2 + rng.Intn(4), MCLatency: pickInt(rng, 1, 10, 100),
		MemLatency: 1 + rng.Intn(20), PortBuf: pickInt(rng, 1, 2, 4, 8), Tracing: rng.Intn(2) == 0,
	}
	nd := 1 + rng.Intn(2)
	for i := 0; i < nd; i++ {
		x.Drivers = append(x.Drivers, sim.DriverSpec{
			Seed: uint64(rng.Int63()), NumReqs: nreq / nd, MaxInflight: pickInt(rng, 1, 2, 4, 8, 16), IssuePerTick: 1 + rng.Intn(3),
			LineSize: 64, NumLines: uint64(pickInt(rng, 64, 256, 1024)), // 1, 4 or 16 pages of 4 KiB per process
			AddrBase: uint64(i) << 24, NumPIDs: 2, PIDStride: 1 << 20, SendPID: true,
			ReadPct: pickInt(rng, 30, 50, 70), FullPct: 20, MaskPct: pickInt(rng, 0, 20), IdlePct: pickInt(rng, 0, 0, 20, 60),
		})
	}
	return x
}

// stackCfg is the stand-in the shared case logic uses for naming.
func (x *xlatCfg) stackCfg() sim.StackCfg {
	return sim.StackCfg{Mem: sim.MemCfg{Kind: "ideal", Count: 1}, Tracing: x.Tracing, WithCtrl: true, PortBuf: x.PortBuf,
		Levels: []sim.LevelCfg{{Kind: "at"}, {Kind: "tlb"}, {Kind: "mmucache"}, {Kind: "mmu"}}}
}

func ports(reg modeling.Registrar, comp messaging.Component, buf int, names ...string) {
	for _, n := range names {
		p := modeling.MakePortBuilder().WithRegistrar(reg).WithComponent(comp).WithSpec(modeling.PortSpec{BufSize: buf}).Build(n)
		comp.AssignPort(n, p)
	}
}

func buildXlat(x *xlatCfg, dir string) *sim.Stack {
	s := &sim.Stack{Cfg: x.stackCfg(), Dir: dir}
	s.Sim = sim.NewSim(dir, x.Tracing)
	s.Engine = s.Sim.GetEngine().(*timing.SerialEngine)
	reg := s.Sim
	pb := x.PortBuf

	msp := idealmemcontroller.DefaultSpec()
	msp.Latency = x.MemLatency
	msp.Capacity = 1 << 32
	memc := idealmemcontroller.MakeBuilder().WithRegistrar(reg).WithSpec(msp).Build("Mem0")
	ports(reg, memc, pb, "Top", "Control")
	s.Mems = append(s.Mems, memc)
	s.Storages = append(s.Storages, memc.Resources().Storage)

	usp := mmu.DefaultSpec()
	usp.Latency = x.MMULatency
	usp.MaxRequestsInFlight = x.MMUInflight
	usp.AutoPageAllocation = true
	mmuc := mmu.MakeBuilder().WithRegistrar(reg).WithSpec(usp).Build("L3mmu")
	ports(reg, mmuc, pb, "Top", "Control")

	// the TLB's misses go to the MMU directly, or through the MMU cache
	tlbBottom := messaging.RemotePort("L1tlb.Bottom")
	csp := mmuCache.DefaultSpec()
	csp.NumBlocks, csp.NumLevels, csp.LatencyPerLevel = x.MCBlocks, x.MCLevels, uint64(x.MCLatency)
	mcc := mmuCache.MakeBuilder().WithRegistrar(reg).WithSpec(csp).
		WithResources(mmuCache.Resources{LowModulePort: mmuc.GetPortByName("Top").AsRemote(), UpModulePort: tlbBottom}).Build("L2mmucache")
	ports(reg, mcc, pb, "Top", "Bottom", "Control")
	walker := mmuc.GetPortByName("Top").AsRemote()
	if x.MMUCacheInPath {
		walker = mcc.GetPortByName("Top").AsRemote()
	}

	tsp := tlb.DefaultSpec()
	tsp.NumSets, tsp.NumWays, tsp.MSHRSize, tsp.Latency, tsp.NumReqPerCycle = x.TLBSets, x.TLBWays, x.TLBMSHR, x.TLBLatency, x.TLBReqPerCycle
	tlbc := tlb.MakeBuilder().WithRegistrar(reg).WithSpec(tsp).
		WithResources(tlb.Resources{TranslationProviderMapper: &mem.SinglePortMapper{Port: walker}}).Build("L1tlb")
	ports(reg, tlbc, pb, "Top", "Bottom", "Control")
	if tlbc.GetPortByName("Bottom").AsRemote() != tlbBottom {
		panic("unexpected TLB port name " + string(tlbc.GetPortByName("Bottom").AsRemote()))
	}

	asp := addresstranslator.DefaultSpec()
	asp.NumReqPerCycle = x.ATReqPerCycle
	atc := addresstranslator.MakeBuilder().WithRegistrar(reg).WithSpec(asp).WithResources(addresstranslator.Resources{
		MemProviderMapper:         &mem.SinglePortMapper{Port: memc.GetPortByName("Top").AsRemote()},
		TranslationProviderMapper: &mem.SinglePortMapper{Port: tlbc.GetPortByName("Top").AsRemote()},
	}).Build("L0at")
	ports(reg, atc, pb, "Top", "Bottom", "Translation", "Control")
	// top-down order of the translation path; an MMU cache outside the path is idle and only takes part in the control history
	s.Levels = []messaging.Component{atc, tlbc, mcc, mmuc}

	for i, ds := range x.Drivers {
		ds.Dsts = []string{string(atc.GetPortByName("Top").AsRemote())}
		ds.Interleave = 4096
		ds.Freq = 1 * timing.GHz
		s.Drivers = append(s.Drivers, sim.BuildDriver(reg, "Driver"+string(rune('0'+i)), ds, pb))
	}
	conn := func(name string, ps ...messaging.Port) {
		c := directconnection.MakeBuilder().WithRegistrar(reg).Build(name)
		for _, p := range ps {
			c.PlugIn(p)
		}
		s.Conns = append(s.Conns, c)
	}
	top := []messaging.Port{atc.GetPortByName("Top")}
	for _, d := range s.Drivers {
		top = append(top, d.GetPortByName("Mem"))
	}
	conn("ConnTop", top...)
	conn("ConnXlat", atc.GetPortByName("Translation"), tlbc.GetPortByName("Top"))
	if x.MMUCacheInPath {
		conn("ConnWalk", tlbc.GetPortByName("Bottom"), mcc.GetPortByName("Top"))
		conn("ConnWalk2", mcc.GetPortByName("Bottom"), mmuc.GetPortByName("Top"))
	} else {
		conn("ConnWalk", tlbc.GetPortByName("Bottom"), mmuc.GetPortByName("Top"))
		conn("ConnIdle", mcc.GetPortByName("Top"), mcc.GetPortByName("Bottom"))
	}
	conn("ConnMem", atc.GetPortByName("Bottom"), memc.GetPortByName("Top"))
	s.Ctrl = sim.BuildCtrlDriver(reg, "CtrlDriver", pb)
	conn("CtrlConn", s.Ctrl.GetPortByName("Ctrl"), atc.GetPortByName("Control"), tlbc.GetPortByName("Control"), mmuc.GetPortByName("Control"), mcc.GetPortByName("Control"), memc.GetPortByName("Control"))
	return s
}
