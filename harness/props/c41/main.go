// C41 Generated IDs are unique (also under concurrency); the sequential generator is
// reproducible across processes and continues exactly after a checkpoint restore.
//
// The generator is a process global, so every scenario lives in its own child
// batch (= its own process); cross-process claims (same sequence in every run,
// restore into a freshly built process) re-execute this binary in "helper" mode.
package main

import (
	"bytes"
	"encoding/json"
	"fmt"
	"io"
	"os"
	"os/exec"
	"strings"
	"sync"

	"verifharness/kit"

	"github.com/sarchlab/akita/v5/timing"
)

type params struct {
	Scenario string `json:"scenario"` // conc | lazy | repro | ckpt
	Kind     string `json:"kind"`     // parallel | sequential | default
	PerCase  int    `json:"per_case"` // target ids per case
}

type checkpointable interface {
	SaveCheckpoint(w io.Writer) error
	LoadCheckpoint(r io.Reader) error
}

// ---- helper mode: a fresh process that prints the ids it draws -------------

type helperReq struct {
	Use  string `json:"use"`  // explicit | default
	Ckpt string `json:"ckpt"` // checkpoint payload to load first ("" = none)
	Pre  int    `json:"pre"`  // ids drawn (and discarded) before loading the checkpoint
	N    int    `json:"n"`    // ids to draw and print
}

type helperRsp struct {
	IDs []uint64 `json:"ids"`
	Err string   `json:"err,omitempty"`
}

func helperMain(arg string) {
	var q helperReq
	if err := json.Unmarshal([]byte(arg), &q); err != nil {
		fmt.Println(`{"err":"bad helper request"}`)
		os.Exit(0)
	}
	if q.Use == "explicit" {
		timing.UseSequentialIDGenerator()
	}
	g := timing.GetIDGenerator()
	for i := 0; i < q.Pre; i++ {
		g.Generate()
	}
	var rsp helperRsp
	if q.Ckpt != "" {
		if err := g.(checkpointable).LoadCheckpoint(strings.NewReader(q.Ckpt)); err != nil {
			rsp.Err = err.Error()
		}
	}
	for i := 0; i < q.N; i++ {
		rsp.IDs = append(rsp.IDs, timing.GetIDGenerator().Generate())
	}
	d, _ := json.Marshal(rsp)
	os.Stdout.Write(d)
	os.Exit(0)
}

func runHelper(q helperReq, gomaxprocs int) (helperRsp, error) {
	self, _ := os.Executable()
	d, _ := json.Marshal(q)
	cmd := exec.Command(self)
	// the race runtime sleeps 1 s at exit by default; the helper is single-threaded
	cmd.Env = append(os.Environ(), "C41_HELPER="+string(d), fmt.Sprintf("GOMAXPROCS=%d", gomaxprocs),
		"GORACE="+strings.TrimSpace(os.Getenv("GORACE")+" atexit_sleep_ms=0"))
	var out, errb bytes.Buffer
	cmd.Stdout = &out
	cmd.Stderr = &errb
	if err := cmd.Run(); err != nil {
		return helperRsp{}, fmt.Errorf("helper failed: %v: %s", err, errb.String())
	}
	var rsp helperRsp
	if err := json.Unmarshal(out.Bytes(), &rsp); err != nil {
		return helperRsp{}, fmt.Errorf("helper output unreadable: %v: %q / %s", err, out.String(), errb.String())
	}
	return rsp, nil
}

// ---------------------------------------------------------------------------

func main() {
	if h := os.Getenv("C41_HELPER"); h != "" {
		helperMain(h)
		return
	}
	kit.Main(kit.Prop{
		ID:    "C41",
		Level: "exploration",
		Rule: "one process per (scenario, generator kind); conc: every case starts G∈[1,64] goroutines that each draw n ids through timing.GetIDGenerator().Generate() " +
			"(shapes: equal shares, one hog + many small, staggered starts); every returned id is kept and the exact sorted list of the whole process is checked for 0 and duplicates; " +
			"lazy: the generator is first touched by G goroutines at once; repro: two fresh processes draw N ids and the sequences are compared; " +
			"ckpt: draw k (serially or concurrently), SaveCheckpoint, draw m, LoadCheckpoint (same process and a fresh process), draw m, compare. " +
			"A conc case is non-trivial when ≥2 goroutines drew ids and their id ranges interleaved; distinct by (kind,G,n,shape,first id)",
		Assumptions: []string{
			"'same simulation' = one process between ResetIDGenerator calls; ids handed out again after a checkpoint restore are the intended replay, not duplicates",
			"the sequence of the sequential generator is compared between runs, not against a fixed 1..N (1..N is only counted)",
			"the parallel generator refuses checkpointing by documented design; only counted",
		},
		Plan: plan,
		Run:  run,
		RaceKey: func(rep string) (string, bool) {
			// Unsynchronised first use: GetIDGenerator reads idGeneratorInstantiated/idGenerator without the
			// mutex; the only akita frames are GetIDGenerator itself (the generator object published that way
			// is then raced on by the caller's atomic add).
			if sig := kit.RaceSignature(rep); sig == "timing.GetIDGenerator" || sig == "timing.GetIDGenerator|timing.GetIDGenerator" {
				return "idgen/race-lazy-first-use", true
			}
			return "race:" + kit.RaceSignature(rep), true
		},
		MustObserve: []string{"ids_checked", "conc_cases_with_interleaving", "ckpt_restores_same_process", "ckpt_restores_fresh_process", "repro_process_pairs", "lazy_first_use_cases"},
	})
}

func plan(tier string, seed int64) []kit.Batch {
	var bs []kit.Batch
	add := func(name string, n int, p params, env ...string) {
		bs = append(bs, kit.Batch{Name: name, Seed: seed*1000 + int64(len(bs)), N: n, Params: kit.MkParams(p), Env: env})
	}
	// Starting a race-instrumented process costs ~1 s, so the scenarios that re-execute the binary
	// (repro, ckpt) are spread over several small batches that run in parallel.
	per, nconc, nck, nrep, split := 100000, 10, 24, 2, 2
	rep := 1
	if tier == "thorough" {
		per, nconc, nck, nrep, split = 1500000, 12, 1000, 25, 3
		rep = 2
	}
	for r := 0; r < rep; r++ {
		for i, mp := range []int{2, 4, 8, 16} {
			add(fmt.Sprintf("conc-parallel-%d-%d", r, i), nconc, params{"conc", "parallel", per}, fmt.Sprintf("GOMAXPROCS=%d", mp))
			add(fmt.Sprintf("conc-sequential-%d-%d", r, i), nconc, params{"conc", "sequential", per}, fmt.Sprintf("GOMAXPROCS=%d", mp))
		}
		add(fmt.Sprintf("conc-default-%d", r), nconc, params{"conc", "default", per}, "GOMAXPROCS=8")
		add(fmt.Sprintf("lazy-%d", r), nconc*4, params{"lazy", "default", per / 20}, "GOMAXPROCS=8")
		for i := 0; i < split; i++ {
			add(fmt.Sprintf("repro-explicit-%d-%d", r, i), nrep, params{"repro", "sequential", 0})
			add(fmt.Sprintf("repro-default-%d-%d", r, i), nrep, params{"repro", "default", 0})
			add(fmt.Sprintf("ckpt-explicit-%d-%d", r, i), nck, params{"ckpt", "sequential", 0}, "GOMAXPROCS=4")
			add(fmt.Sprintf("ckpt-default-%d-%d", r, i), nck, params{"ckpt", "default", 0}, "GOMAXPROCS=4")
		}
		add(fmt.Sprintf("ckpt-parallel-%d", r), 3, params{"ckpt", "parallel", 0})
	}
	return bs
}

func setup(kind string) {
	switch kind {
	case "parallel":
		timing.UseParallelIDGenerator()
	case "sequential":
		timing.UseSequentialIDGenerator()
	case "default":
		timing.GetIDGenerator()
	}
}

func run(b kit.Batch, r *kit.R) {
	var p params
	b.P(&p)
	switch p.Scenario {
	case "conc":
		setup(p.Kind)
		runConc(b, r, p, false)
	case "lazy":
		runConc(b, r, p, true)
	case "repro":
		runRepro(b, r, p)
	case "ckpt":
		setup(p.Kind)
		runCkpt(b, r, p)
	}
}

// arena is reused by every case of the process: under the race detector fresh
// memory is what costs time (shadow pages), not the atomic add.
var arena []uint64

// draw starts the goroutines described by shares and returns what each drew
// (sub-slices of the arena, valid until the next draw).
func draw(shares []int, stagger bool, cached bool) [][]uint64 {
	if t := sum(shares); t > len(arena) {
		arena = make([]uint64, t+t/2)
	}
	out := make([][]uint64, len(shares))
	var wg sync.WaitGroup
	start := make(chan struct{})
	off := 0
	for g, n := range shares {
		out[g] = arena[off : off+n : off+n]
		off += n
		wg.Add(1)
		go func(g, n int) {
			defer wg.Done()
			if !stagger || g%2 == 0 {
				<-start
			}
			dst := out[g]
			if cached && g%3 == 0 {
				gen := timing.GetIDGenerator()
				for i := 0; i < n; i++ {
					dst[i] = gen.Generate()
				}
				return
			}
			for i := 0; i < n; i++ {
				dst[i] = timing.GetIDGenerator().Generate()
			}
		}(g, n)
	}
	close(start)
	wg.Wait()
	return out
}

// idSet is an exact set of uint64: a bitmap for the dense low range, a map above it.
type idSet struct {
	bits []uint64
	big  map[uint64]struct{}
	n    int
}

const bitmapLimit = 1 << 31

// add reports whether id was already present.
func (s *idSet) add(id uint64) bool {
	s.n++
	if id < bitmapLimit {
		w := int(id >> 6)
		if w >= len(s.bits) {
			nb := make([]uint64, (w+1)*2)
			copy(nb, s.bits)
			s.bits = nb
		}
		m := uint64(1) << (id & 63)
		if s.bits[w]&m != 0 {
			return true
		}
		s.bits[w] |= m
		return false
	}
	if s.big == nil {
		s.big = map[uint64]struct{}{}
	}
	if _, ok := s.big[id]; ok {
		return true
	}
	s.big[id] = struct{}{}
	return false
}

func runConc(b kit.Batch, r *kit.R, p params, lazy bool) {
	seen := &idSet{} // every id handed out in this process so far
	r.ForEach(b.N, func(c *kit.Case) {
		rng := c.Rng
		G := 1 + rng.Intn(64)
		switch rng.Intn(6) {
		case 0:
			G = 64
		case 1:
			G = 2 + rng.Intn(3)
		}
		if lazy && G < 2 {
			G = 2
		}
		shape := []string{"equal", "hog", "ragged"}[rng.Intn(3)]
		shares := make([]int, G)
		total := p.PerCase/2 + rng.Intn(p.PerCase)
		for g := range shares {
			switch shape {
			case "equal":
				shares[g] = total / G
			case "hog":
				if g == 0 {
					shares[g] = total / 2
				} else {
					shares[g] = total / (2 * G)
				}
			default:
				shares[g] = rng.Intn(2*total/G + 1)
			}
			if shares[g] == 0 {
				shares[g] = 1
			}
		}
		stagger := rng.Intn(3) == 0
		c.Desc(map[string]any{"scenario": p.Scenario, "kind": p.Kind, "goroutines": G, "shape": shape, "stagger": stagger, "ids": sum(shares)})
		if lazy {
			// a new "simulation": the generator does not exist until the goroutines ask for it
			timing.ResetIDGenerator()
			seen = &idSet{}
			r.Count("lazy_first_use_cases", 1)
		}
		got := draw(shares, stagger, true)

		interleaved := false
		total, dups, zeros := 0, 0, 0
		smallest, largest := ^uint64(0), uint64(0)
		for _, ids := range got {
			lo, hi := ^uint64(0), uint64(0)
			for _, id := range ids {
				if id < lo {
					lo = id
				}
				if id > hi {
					hi = id
				}
				if id == 0 {
					zeros++
					if zeros == 1 {
						c.Failf("idgen/zero-id", "generator (%s) handed out id 0 (G=%d)", p.Kind, G)
					}
				}
				// exact: against every id handed out in this process so far (this case and earlier ones)
				if seen.add(id) {
					dups++
					if dups == 1 {
						c.Failf("idgen/duplicate-id", "id %d handed out twice in one process (kind=%s, G=%d, shape=%s, case draws %d ids, %d handed out before)",
							id, p.Kind, G, shape, sum(shares), seen.n-1)
					}
				}
			}
			if len(ids) > 0 && hi-lo+1 > uint64(len(ids)) {
				interleaved = true
			}
			if lo < smallest {
				smallest = lo
			}
			if hi > largest {
				largest = hi
			}
			total += len(ids)
		}
		if dups > 0 {
			r.Count("duplicate_ids", int64(dups))
		}
		r.Count("ids_checked", int64(total))
		r.Count("ids_checked_"+p.Kind, int64(total))
		r.Max("max_goroutines", int64(G))
		r.Max("max_ids_alive_in_one_process", int64(seen.n))
		if smallest == 1 && largest == uint64(total) && dups == 0 && !lazy && c.Index == 0 {
			r.Count("first_case_ids_are_exactly_1..N", 1)
		}
		if G >= 2 && interleaved {
			r.Count("conc_cases_with_interleaving", 1)
			c.Nontrivial(fmt.Sprintf("%s/%s/%d/%s/%d/%d", p.Scenario, p.Kind, G, shape, sum(shares), smallest))
		}
		c.Sample(map[string]any{"scenario": p.Scenario, "kind": p.Kind, "goroutines": G, "shares_first8": head(shares, 8), "ids": total,
			"smallest": smallest, "largest": largest, "interleaved": interleaved})
	})
}

func runRepro(b kit.Batch, r *kit.R, p params) {
	use := "explicit"
	if p.Kind == "default" {
		use = "default"
	}
	r.ForEach(b.N, func(c *kit.Case) {
		rng := c.Rng
		n := 1 + rng.Intn(2000)
		mpA, mpB := 1+rng.Intn(8), 1+rng.Intn(8)
		c.Desc(map[string]any{"scenario": "repro", "use": use, "n": n, "gomaxprocs": []int{mpA, mpB}})
		a, err := runHelper(helperReq{Use: use, N: n}, mpA)
		if err != nil {
			panic(err)
		}
		bb, err := runHelper(helperReq{Use: use, N: n}, mpB)
		if err != nil {
			panic(err)
		}
		if len(a.IDs) != n || len(bb.IDs) != n {
			panic(fmt.Sprintf("helper returned %d/%d ids, want %d", len(a.IDs), len(bb.IDs), n))
		}
		for i := range a.IDs {
			if a.IDs[i] != bb.IDs[i] {
				c.Failf("idgen/sequence-not-reproducible", "two fresh processes (%s sequential generator) disagree at draw %d: %d vs %d", use, i, a.IDs[i], bb.IDs[i])
				break
			}
		}
		checkSet(c, a.IDs, "fresh process")
		is1N := true
		for i, id := range a.IDs {
			if id != uint64(i+1) {
				is1N = false
			}
		}
		if is1N {
			r.Count("repro_sequences_equal_to_1..N", 1)
		}
		r.Count("repro_process_pairs", 1)
		r.Count("ids_checked", int64(2*n))
		c.Nontrivial(fmt.Sprintf("repro/%s/%d/%d/%d", use, n, mpA, mpB))
		c.Sample(map[string]any{"scenario": "repro", "use": use, "n": n, "first": head64(a.IDs, 5), "other_process_first": head64(bb.IDs, 5)})
	})
}

// checkSet: ids of one uninterrupted stretch are non-zero and pairwise distinct.
func checkSet(c *kit.Case, ids []uint64, what string) {
	var s idSet
	for _, id := range ids {
		if id == 0 {
			c.Failf("idgen/zero-id", "id 0 handed out (%s)", what)
			return
		}
		if s.add(id) {
			c.Failf("idgen/duplicate-id", "id %d handed out twice (%s)", id, what)
			return
		}
	}
}

func serial(n int) []uint64 {
	out := make([]uint64, n)
	for i := range out {
		out[i] = timing.GetIDGenerator().Generate()
	}
	return out
}

func runCkpt(b kit.Batch, r *kit.R, p params) {
	use := "explicit"
	if p.Kind == "default" {
		use = "default"
	}
	type saved struct {
		payload string
		after   []uint64
	}
	var old []saved // earlier checkpoints of this process, with what followed them
	r.ForEach(b.N, func(c *kit.Case) {
		rng := c.Rng
		cp, ok := timing.GetIDGenerator().(checkpointable)
		if !ok {
			c.Failf("idgen/not-checkpointable", "generator %T has no SaveCheckpoint/LoadCheckpoint", timing.GetIDGenerator())
			return
		}
		if p.Kind == "parallel" {
			var buf bytes.Buffer
			err := cp.SaveCheckpoint(&buf)
			c.Desc(map[string]any{"scenario": "ckpt", "kind": "parallel"})
			if err != nil {
				r.Count("parallel_generator_refused_checkpoint", 1)
			} else {
				r.Count("parallel_generator_wrote_checkpoint", 1)
			}
			checkSet(c, serial(1000), "parallel generator, serial use")
			r.Count("ids_checked", 1000)
			return
		}
		// k draws before the cut: none, a few, many, or concurrent
		k := []int{0, 1, rng.Intn(10), rng.Intn(5000)}[rng.Intn(4)]
		concurrentPre := rng.Intn(3) == 0
		m := 1 + rng.Intn(400)
		c.Desc(map[string]any{"scenario": "ckpt", "use": use, "k": k, "m": m, "concurrent_pre": concurrentPre})
		var pre []uint64
		if concurrentPre && k > 4 {
			for _, ids := range draw([]int{k / 4, k / 4, k / 4, k - 3*(k/4)}, false, false) {
				pre = append(pre, ids...) // copied: the arena is reused
			}
		} else {
			pre = serial(k)
		}
		var buf bytes.Buffer
		if err := cp.SaveCheckpoint(&buf); err != nil {
			c.Failf("idgen/save-error", "SaveCheckpoint of the sequential generator failed: %v", err)
			return
		}
		payload := buf.String()
		a := serial(m)
		checkSet(c, append(append([]uint64(nil), pre...), a...), "before and after a save")

		// some unrelated draws, so that the counter is elsewhere when we restore
		serial(rng.Intn(50))

		restore := func(sv saved, how string) {
			if err := cp.LoadCheckpoint(strings.NewReader(sv.payload)); err != nil {
				c.Failf("idgen/load-error", "LoadCheckpoint failed: %v (payload %s)", err, sv.payload)
				return
			}
			got := serial(len(sv.after))
			for i := range got {
				if got[i] != sv.after[i] {
					c.Failf("idgen/restore-does-not-continue", "%s: after LoadCheckpoint(%s) draw %d returned %d, the original run returned %d",
						how, strings.TrimSpace(sv.payload), i, got[i], sv.after[i])
					break
				}
			}
			r.Count("ckpt_restores_same_process", 1)
			r.Count("ids_checked", int64(len(got)))
		}
		cur := saved{payload, a}
		restore(cur, "same process")
		if rng.Intn(2) == 0 {
			restore(cur, "same process, second restore of the same checkpoint")
		}
		if len(old) > 0 && rng.Intn(2) == 0 {
			restore(old[rng.Intn(len(old))], "same process, older checkpoint")
			r.Count("ckpt_restores_of_older_checkpoint", 1)
		}
		if len(old) < 50 {
			old = append(old, cur)
		}
		// a freshly built process (its generator may already have been used by setup code)
		if every := map[bool]int{false: 6, true: 10}[r.Tier == "thorough"]; c.Index%every == 0 {
			preFresh := []int{0, 0, rng.Intn(100)}[rng.Intn(3)]
			rsp, err := runHelper(helperReq{Use: use, Ckpt: payload, Pre: preFresh, N: m}, 1+rng.Intn(4))
			if err != nil {
				panic(err)
			}
			if rsp.Err != "" {
				c.Failf("idgen/load-error", "LoadCheckpoint in a fresh process failed: %s", rsp.Err)
			} else {
				for i := range a {
					if i >= len(rsp.IDs) || rsp.IDs[i] != a[i] {
						c.Failf("idgen/restore-does-not-continue", "fresh process: after LoadCheckpoint(%s) draw %d differs from the original run (%v vs %d)",
							strings.TrimSpace(payload), i, head64(rsp.IDs, i+1), a[i])
						break
					}
				}
			}
			r.Count("ckpt_restores_fresh_process", 1)
		}
		if k == 0 {
			r.Count("ckpt_cut_before_any_id", 1)
		}
		if concurrentPre && k > 4 {
			r.Count("ckpt_cut_after_concurrent_draws", 1)
		}
		c.Nontrivial(fmt.Sprintf("ckpt/%s/%d/%d/%v/%s", use, k, m, concurrentPre, strings.TrimSpace(payload)))
		c.Sample(map[string]any{"scenario": "ckpt", "use": use, "k": k, "m": m, "checkpoint": strings.TrimSpace(payload), "ids_after_cut_first5": head64(a, 5)})
	})
}

func sum(a []int) int {
	s := 0
	for _, v := range a {
		s += v
	}
	return s
}

func head(a []int, n int) []int {
	if len(a) > n {
		return a[:n]
	}
	return a
}

func head64(a []uint64, n int) []uint64 {
	if len(a) > n {
		return a[:n]
	}
	return a
}
