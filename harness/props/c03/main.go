// C03 Serial simulations are deterministic: the same configuration run in
// several fresh processes (and twice in one process) must give the same event
// trace, the same port message log including IDs, and the same final state.
package main

import (
	"encoding/json"
	"fmt"
	"path/filepath"
	"strings"

	"verifharness/kit"
	"verifharness/kit/sim"
)

type params struct {
	NumReqs int `json:"num_reqs"`
	Procs   int `json:"procs"`
	// Kind, when set, makes every case of the batch an assembly of that kind ("net" | "dm"); a quarter of the batches.
	Kind string `json:"kind,omitempty"`
	// NetMsgs / DMMoves size the workloads of the network and data-mover assemblies.
	NetMsgs int `json:"net_msgs,omitempty"`
	DMMoves int `json:"dm_moves,omitempty"`
}

func main() {
	sim.MaybeRunRole()
	kit.Main(kit.Prop{
		ID:    "C03",
		Level: "exploration",
		Rule: "each case is a PRNG-drawn assembly (memory hierarchies with caches/ROB/ideal/banked/DRAM, 1-3 drivers, interleaved modules; translation stacks with TLBs/MMU cache/GMMU/MMU, several processes sharing virtual addresses) executed in several fresh OS processes, the last of them as the second simulation of its process (after timing.ResetIDGenerator); write-back hierarchies get a mid-stream drain + address-filtered flush + enable " +
			"a quarter of the batches use networks-on-chip built with the library connectors (2D/3D meshes with holes and shared tiles, PCIe trees, generic switch trees; 2-9 traffic agents with 1-3 device ports that send PRNG-drawn metadata messages and stall their receive side) " +
			"and data movers (one mover between 1-2 interleaved ideal controllers per side, a requester that sends a script of single and queued moves with sizes that are multiples of both/one/neither granule) " +
			"(Go randomises map iteration per process and per range statement); the running hash of the BeforeEvent trace, the running hash of every port event with full message metadata (IDs included), " +
			"every entity's final checkpoint payload, end time and ID counter must coincide across executions. Non-trivial: the run handled >= 1000 events and has a cache or several memory modules; distinct by configuration",
		Assumptions: []string{"nondeterminism that needs a different binary, GC timing or wall-clock dependence not reachable in a few executions is out of reach"},
		Plan: func(tier string, seed int64) []kit.Batch {
			nb, n := 16, 2
			p := params{NumReqs: 300, Procs: 3, NetMsgs: 300, DMMoves: 30}
			if tier == "thorough" {
				nb, n, p = 32, 20, params{NumReqs: 800, Procs: 5, NetMsgs: 800, DMMoves: 80}
			}
			var bs []kit.Batch
			for i := 0; i < nb; i++ {
				q, name := p, fmt.Sprintf("det%d", i)
				switch i % 8 { // a quarter of the batches: network and data-mover assemblies
				case 3:
					q.Kind, name = "net", fmt.Sprintf("net%d", i)
				case 7:
					q.Kind, name = "dm", fmt.Sprintf("dm%d", i)
				}
				bs = append(bs, kit.Batch{Name: name, Seed: seed*6151 + int64(i), N: n, Params: kit.MkParams(q)})
			}
			return bs
		},
		Run: run,
		MustObserve: []string{"executions", "port_events_hashed", "executions_as_second_run_in_one_process", "assemblies/with-mid-stream-filtered-flush",
			"assemblies/network", "assemblies/data-mover"},
	})
}

func run(b kit.Batch, r *kit.R) {
	var p params
	b.P(&p)
	r.ForEach(b.N, func(c *kit.Case) {
		switch p.Kind {
		case "net":
			cfg := sim.RandomNetCfg(c.Rng, p.NetMsgs)
			c.Desc(cfg)
			r.Count("assemblies/network", 1)
			r.Count("assemblies/network/"+cfg.Family, 1)
			Compare(c, "net", cfg, p)
			return
		case "dm":
			cfg := sim.RandomDMCfg(c.Rng, p.DMMoves)
			c.Desc(cfg)
			r.Count("assemblies/data-mover", 1)
			Compare(c, "dm", cfg, p)
			return
		}
		if c.Rng.Intn(3) == 0 {
			cfg := sim.RandomVMCfg(c.Rng, p.NumReqs)
			c.Desc(cfg)
			r.Count("assemblies/translation-stack", 1)
			Compare(c, "vm", cfg, p)
			return
		}
		cfg := sim.RandomStackCfg(c.Rng, sim.GenOpts{NumReqs: p.NumReqs, AllowDRAM: true, AllowBanked: true, MaxDrivers: 3, ForceWB: c.Rng.Intn(2) == 0})
		for _, l := range cfg.Levels {
			if l.Kind == "wb" {
				// a filtered flush of several lines in the middle of the stream
				cfg.WithCtrl, cfg.FlushAt, cfg.FlushLines = true, 50+c.Rng.Intn(400), 2+c.Rng.Intn(10) // FlushAt is a cycle number
				r.Count("assemblies/with-mid-stream-filtered-flush", 1)
				break
			}
		}
		c.Desc(cfg)
		r.Count("assemblies/memory-hierarchy", 1)
		Compare(c, "stack", cfg, p)
	})
}

// Compare runs the configuration p.Procs times and compares digests.
func Compare(c *kit.Case, kind string, cfg any, p params) {
	r := c.R
	cfgJSON, _ := json.Marshal(cfg)
	dir := filepath.Join(r.WorkDir, fmt.Sprintf("case%d", c.Index))
	limit := uint64(p.NumReqs) * 200000 * 1000
	var first sim.RoleRes
	for i := 0; i < p.Procs; i++ {
		// the last execution is the second simulation run inside one process (same or different process, as the property says)
		again := i == p.Procs-1
		if again {
			r.Count("executions_as_second_run_in_one_process", 1)
		}
		res, err := sim.CallRole(sim.RoleReq{Role: "ref", Kind: kind, Cfg: cfgJSON, Dir: dir, Limit: limit, Again: again})
		if err != nil || res.Err != "" {
			c.Fail("det/run-error", map[string]any{"err": fmt.Sprint(err, res.Err), "cfg": cfg})
			return
		}
		r.Count("executions", 1)
		if i == 0 {
			first = res
			var n int64
			fmt.Sscan(res.Extra["msg_count"], &n)
			r.Count("port_events_hashed", n)
			r.Count("events_hashed", int64(res.Events))
			continue
		}
		var diffs []string
		if res.TraceHash != first.TraceHash || res.Events != first.Events {
			diffs = append(diffs, fmt.Sprintf("event trace: %d events hash %s vs %d events hash %s", first.Events, first.TraceHash, res.Events, res.TraceHash))
		}
		if res.Extra["msg_hash"] != first.Extra["msg_hash"] {
			diffs = append(diffs, "port message log (IDs included): "+first.Extra["msg_hash"]+" vs "+res.Extra["msg_hash"])
		}
		if d := sim.DiffPayloads(first.Payloads, res.Payloads); len(d) > 0 {
			diffs = append(diffs, "final entity payloads: "+strings.Join(d, ","))
		}
		if res.EndTime != first.EndTime || res.NextID != first.NextID {
			diffs = append(diffs, fmt.Sprintf("end time/ID counter: %d/%d vs %d/%d", first.EndTime, first.NextID, res.EndTime, res.NextID))
		}
		if len(diffs) > 0 {
			c.Fail("det/executions-differ", map[string]any{"execution": i, "differences": diffs, "cfg": cfg})
			return
		}
	}
	if first.Events >= 1000 && (strings.Contains(string(cfgJSON), `"kind":"w`) || strings.Contains(string(cfgJSON), `"count":2`) ||
		strings.Contains(string(cfgJSON), `"count":3`) || strings.Contains(string(cfgJSON), `"count":4`) || kind == "vm" || kind == "net" || kind == "dm") {
		c.Nontrivial(string(cfgJSON))
	}
	c.Sample(map[string]any{"cfg": cfg, "events": first.Events, "trace_hash": first.TraceHash, "msg_hash": first.Extra["msg_hash"], "executions": p.Procs})
}
