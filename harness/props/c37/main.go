// C37 The trace query tool cannot modify the trace.
//
// Every child records a realistic trace with the real recorder (DBTracer over
// datarecording), opens the replay server on a private copy through hook H5 and
// then feeds the data_query tool generated SQL. Around every case the check
// compares: SHA-256 of the main file and of the -wal, the recursive directory
// listing of the private work dir, and a logical dump (schema + header pragmas +
// every row of every table) read through an independent read-only connection.
// Tool output is held to the documented caps and the server's pool is probed
// (SELECT works, PRAGMA query_only reads 0 on every pooled connection).
package main

import (
	"context"
	"crypto/sha256"
	"database/sql"
	"encoding/base64"
	"encoding/hex"
	"fmt"
	"io"
	"io/fs"
	"math/rand"
	"os"
	"path/filepath"
	"regexp"
	"sort"
	"strings"
	"sync"
	"time"

	"verifharness/kit"

	"github.com/sarchlab/akita/v5/daisen2/verifshim"
	"github.com/sarchlab/akita/v5/datarecording"
	"github.com/sarchlab/akita/v5/sourcefs"
	"github.com/sarchlab/akita/v5/timing"
	"github.com/sarchlab/akita/v5/tracing"
)

type params struct {
	Tasks    int `json:"tasks"`    // tasks recorded into the trace
	Timeouts int `json:"timeouts"` // queries allowed to run into the tool's own 15 s timeout
}

func main() {
	kit.Main(kit.Prop{
		ID:    "C37",
		Level: "exploration",
		Rule: "queries are drawn from a corpus+grammar (legitimate reads, huge results, direct writes, CTE-smuggled writes with and without a LIMIT token, " +
			"multi-statement text, PRAGMA/ATTACH/VACUUM, prefix/comment/case tricks, NUL bytes, 70-300 KB inputs, cancelled and timed-out queries) and mutated; " +
			"a case (1-3 concurrent queries) is non-trivial when at least one query reached the SQL engine (passed the text filter) or attempted a write; distinct by query text",
		Assumptions: []string{
			"the -shm wal-index file is not hashed (readers legitimately update read marks in it)",
			"error strings returned by the tool are not held to the byte cap (only successful results are)",
			"baseline is taken after the server opened the file (the server itself switches it to WAL)",
		},
		Plan: func(tier string, seed int64) []kit.Batch {
			nb, n, timeouts := 12, 110, 1
			if tier == "thorough" {
				nb, n, timeouts = 32, 2000, 4
			}
			var bs []kit.Batch
			for i := 0; i < nb; i++ {
				p := params{Tasks: 600 + 400*(i%4)}
				if i%4 == 0 {
					p.Timeouts = timeouts
				}
				bs = append(bs, kit.Batch{Name: fmt.Sprintf("q%d", i), Seed: seed*1000 + int64(i), N: n, Params: kit.MkParams(p)})
			}
			return bs
		},
		Run: run,
		MustObserve: []string{
			"queries_ok_with_rows", "rejected_by_text_filter", "rejected_by_engine_readonly",
			"cte_write_reached_engine", "results_truncated", "cancelled_or_timed_out", "pool_conns_probed",
		},
	})
}

// ------------------------------------------------------------------ trace

type clock struct{ t timing.VTimeInPicoSec }

func (c *clock) CurrentTime() timing.VTimeInPicoSec { return c.t }

type sourceRow struct {
	Root    string
	Format  string
	Content string
}

// buildTrace records a trace with the real recorder and returns the file name.
func buildTrace(dir string, rng *rand.Rand, tasks int) string {
	base := filepath.Join(dir, "rec")
	rec := datarecording.NewDataRecorder(base)
	clk := &clock{}
	tr := tracing.NewDBTracer(clk, rec)
	tr.StartTracing()
	comps := []string{"GPU[0].CU[0]", "GPU[0].CU[1]", "GPU[0].L1VCache[0]", "GPU[0].L2Cache[0]", "GPU[0].L2Cache[1]", "GPU[0].DRAM", "GPU[0].TLB", "Driver"}
	kinds := []string{"req_in", "req_out", "pipeline", "inst", "wavefront"}
	whats := []string{"*mem.ReadReq", "*mem.WriteReq", "*vm.TranslationReq", "v_add_f32", "s_waitcnt", "kernel, launch"}
	var open []uint64
	id := uint64(0)
	mid := uint64(1 << 32)
	for i := 0; i < tasks; i++ {
		clk.t += timing.VTimeInPicoSec(rng.Intn(2000))
		id++
		parent := uint64(0)
		if len(open) > 0 && rng.Intn(3) > 0 {
			parent = open[rng.Intn(len(open))]
		}
		k := kinds[rng.Intn(len(kinds))]
		tr.StartTask(tracing.TaskStart{ID: id, ParentID: parent, Kind: k, What: whats[rng.Intn(len(whats))],
			Location: comps[rng.Intn(len(comps))] + "." + k, Time: clk.t})
		open = append(open, id)
		for j := rng.Intn(3); j > 0; j-- {
			mid++
			clk.t += timing.VTimeInPicoSec(1 + rng.Intn(500))
			tr.AddMilestone(tracing.Milestone{ID: mid, TaskID: id, Time: clk.t,
				Kind: []tracing.MilestoneKind{tracing.MilestoneKindQueue, tracing.MilestoneKindData, tracing.MilestoneKindHardwareResource}[rng.Intn(3)],
				What: []string{"buffer full", "data ready", "MSHR", "bank,busy"}[rng.Intn(4)]})
		}
		if rng.Intn(3) == 0 {
			mid++
			tr.AddTaskTag(tracing.TaskTag{ID: mid, TaskID: id, What: []string{"read-hit", "read-miss", "write-hit"}[rng.Intn(3)], Time: clk.t})
		}
		for len(open) > 0 && (len(open) > 6 || rng.Intn(2) == 0) {
			j := rng.Intn(len(open))
			clk.t += timing.VTimeInPicoSec(rng.Intn(800))
			tr.EndTask(tracing.TaskEnd{ID: open[j], Time: clk.t})
			open = append(open[:j], open[j+1:]...)
		}
	}
	for _, o := range open {
		clk.t += 10
		tr.EndTask(tracing.TaskEnd{ID: o, Time: clk.t})
	}
	// recorded source, as simulation.recordSourceArchives stores it
	files := map[string][]byte{
		"go.mod":        []byte("module example.com/sim\n"),
		"mem/cache.go":  []byte("package mem\n\n// Cache is a cache.\ntype Cache struct{}\n"),
		"mem/dram.go":   []byte("package mem\n\nfunc tick() bool { return true }\n"),
		"core/cu/cu.go": []byte(strings.Repeat("// line of source\n", 200)),
	}
	var sb strings.Builder
	if err := sourcefs.WriteArchive(&sb, files); err != nil {
		panic(err)
	}
	rec.CreateTable("source", sourceRow{})
	rec.InsertData("source", sourceRow{Root: "example.com/sim", Format: "tar.gz;base64",
		Content: base64.StdEncoding.EncodeToString([]byte(sb.String()))})
	tr.Terminate()
	if err := rec.Close(); err != nil {
		panic(err)
	}
	return base + ".sqlite3"
}

// ------------------------------------------------------------------ observation

type snapshot struct {
	mainHash, walHash string
	listing           string
	logical           string
}

func hashFile(p string) string {
	f, err := os.Open(p)
	if err != nil {
		return "absent"
	}
	defer f.Close()
	h := sha256.New()
	n, _ := io.Copy(h, f)
	return fmt.Sprintf("%d:%s", n, hex.EncodeToString(h.Sum(nil)[:12]))
}

func listTree(root string) string {
	var out []string
	filepath.WalkDir(root, func(p string, d fs.DirEntry, err error) error {
		if err != nil {
			return nil
		}
		rel, _ := filepath.Rel(root, p)
		sz := int64(-1)
		if !d.IsDir() && !strings.HasSuffix(p, "-shm") {
			if fi, err := d.Info(); err == nil {
				sz = fi.Size()
			}
		}
		out = append(out, fmt.Sprintf("%s(%d)", rel, sz))
		return nil
	})
	sort.Strings(out)
	return strings.Join(out, "\n")
}

// logicalDump hashes schema, header pragmas and all rows of all tables through
// the independent read-only connection.
func logicalDump(ro *sql.DB) (string, int, error) {
	h := sha256.New()
	rowsN := 0
	for _, p := range []string{"user_version", "application_id", "schema_version", "page_count", "freelist_count", "journal_mode", "encoding", "auto_vacuum"} {
		var v any
		if err := ro.QueryRow("PRAGMA " + p).Scan(&v); err != nil {
			return "", 0, fmt.Errorf("pragma %s: %w", p, err)
		}
		fmt.Fprintf(h, "P:%s=%v\n", p, v)
	}
	type obj struct{ typ, name, tbl, sqlText string }
	var objs []obj
	rs, err := ro.Query("SELECT type, name, tbl_name, coalesce(sql,'') FROM sqlite_master ORDER BY type, name")
	if err != nil {
		return "", 0, err
	}
	for rs.Next() {
		var o obj
		if err := rs.Scan(&o.typ, &o.name, &o.tbl, &o.sqlText); err != nil {
			rs.Close()
			return "", 0, err
		}
		objs = append(objs, o)
		fmt.Fprintf(h, "S:%s|%s|%s|%s\n", o.typ, o.name, o.tbl, o.sqlText)
	}
	rs.Close()
	if err := rs.Err(); err != nil {
		return "", 0, err
	}
	for _, o := range objs {
		if o.typ != "table" {
			continue
		}
		q := fmt.Sprintf(`SELECT * FROM "%s" ORDER BY rowid`, strings.ReplaceAll(o.name, `"`, `""`))
		rows, err := ro.Query(q)
		if err != nil {
			return "", 0, fmt.Errorf("%s: %w", q, err)
		}
		cols, _ := rows.Columns()
		vals := make([]any, len(cols))
		ptrs := make([]any, len(cols))
		for i := range vals {
			ptrs[i] = &vals[i]
		}
		for rows.Next() {
			if err := rows.Scan(ptrs...); err != nil {
				rows.Close()
				return "", 0, err
			}
			rowsN++
			fmt.Fprintf(h, "R:%s", o.name)
			for _, v := range vals {
				switch t := v.(type) {
				case []byte:
					fmt.Fprintf(h, "|b%d:%s", len(t), t)
				default:
					fmt.Fprintf(h, "|%T:%v", v, v)
				}
			}
			h.Write([]byte{'\n'})
		}
		rows.Close()
		if err := rows.Err(); err != nil {
			return "", 0, err
		}
	}
	return hex.EncodeToString(h.Sum(nil)[:16]), rowsN, nil
}

// ------------------------------------------------------------------ generator

type query struct {
	Class string `json:"class"`
	SQL   string `json:"sql"`
	CtxMs int    `json:"ctx_ms,omitempty"` // caller-side deadline (0 = none)
	Write bool   `json:"write,omitempty"`  // text asks for a modification
}

var tables = []string{"trace", "location", "milestone", "tag", `"daisen$segments"`, "source"}

func legit(rng *rand.Rand, nTasks int) string {
	id := 1 + rng.Intn(nTasks)
	switch rng.Intn(16) {
	case 0:
		return "SELECT COUNT(*) FROM " + tables[rng.Intn(len(tables))]
	case 1:
		return "SELECT Kind, COUNT(*) AS n, AVG(EndTime-StartTime) FROM trace GROUP BY Kind ORDER BY n DESC"
	case 2:
		return "SELECT l.Locale, COUNT(*) FROM trace t JOIN location l ON t.Location = l.ID GROUP BY l.Locale ORDER BY 2 DESC"
	case 3:
		return fmt.Sprintf("SELECT * FROM trace WHERE ID = %d", id)
	case 4:
		return fmt.Sprintf("SELECT ID, What, StartTime FROM trace ORDER BY StartTime DESC LIMIT %d", 1+rng.Intn(50))
	case 5:
		return "WITH d AS (SELECT ID, EndTime-StartTime AS dur FROM trace) SELECT MAX(dur), MIN(dur), AVG(dur) FROM d"
	case 6:
		return "SELECT * FROM milestone WHERE TaskID IN (SELECT ID FROM trace WHERE Kind='req_in' LIMIT 5)"
	case 7:
		return "SELECT type, name, sql FROM sqlite_master"
	case 8:
		return `SELECT * FROM "daisen$segments"`
	case 9:
		return "SELECT * FROM pragma_table_info('trace')"
	case 10:
		return "SELECT Root, Format, length(Content) FROM source"
	case 11:
		return fmt.Sprintf("WITH RECURSIVE up(id, depth) AS (SELECT %d, 0 UNION ALL SELECT t.ParentID, depth+1 FROM trace t JOIN up ON t.ID = up.id WHERE t.ParentID <> 0) SELECT * FROM up", id)
	case 12:
		return "SELECT m.Kind, m.What, COUNT(*) FROM milestone m JOIN trace t ON m.TaskID = t.ID WHERE t.Kind = 'req_in' GROUP BY 1, 2"
	case 13:
		return "SELECT What, COUNT(*) FROM tag GROUP BY What"
	case 14:
		return fmt.Sprintf("SELECT ID, ParentID, Kind FROM trace WHERE ParentID = %d", id)
	default:
		return "SELECT journal_mode FROM pragma_journal_mode"
	}
}

func huge(rng *rand.Rand) string {
	n := 1001 + rng.Intn(200000)
	switch rng.Intn(12) {
	case 0:
		return "SELECT * FROM " + tables[rng.Intn(4)]
	case 1:
		return "SELECT * FROM trace a, trace b"
	case 2:
		return fmt.Sprintf("WITH RECURSIVE c(x) AS (SELECT 1 UNION ALL SELECT x+1 FROM c LIMIT %d) SELECT x FROM c", n)
	case 3:
		return fmt.Sprintf("SELECT hex(zeroblob(%d))", 1+rng.Intn(16<<20))
	case 4:
		return fmt.Sprintf("SELECT zeroblob(%d), 'tail'", 1+rng.Intn(8<<20))
	case 5:
		return "SELECT *,*,*,*,*,*,*,* FROM trace"
	case 6:
		return fmt.Sprintf("WITH RECURSIVE c(x) AS (SELECT 1 UNION ALL SELECT x+1 FROM c LIMIT %d) SELECT hex(zeroblob(%d)), x FROM c", n, 500+rng.Intn(6000))
	case 7:
		return "SELECT group_concat(What, '|') FROM trace"
	case 8:
		return "SELECT 'limit 5', * FROM trace"
	case 9:
		return "SELECT * FROM trace /* limit 1 */"
	case 10:
		return "SELECT * FROM trace -- limit 3"
	default:
		return fmt.Sprintf("SELECT printf('%%.*c', %d, 'x'), * FROM trace", 1+rng.Intn(200000))
	}
}

func directWrite(rng *rand.Rand, nTasks int) string {
	id := 1 + rng.Intn(nTasks)
	w := []string{
		fmt.Sprintf("DELETE FROM trace WHERE ID = %d", id),
		"DELETE FROM trace", "DROP TABLE trace", "DROP TABLE source",
		fmt.Sprintf("INSERT INTO trace VALUES (%d,0,'k','w',1,0,1)", 900000+id),
		fmt.Sprintf("UPDATE trace SET What='pwned' WHERE ID = %d", id),
		"UPDATE location SET Locale = 'pwned'", "REPLACE INTO location VALUES (1,'pwned')",
		"CREATE TABLE pwn(x)", "CREATE INDEX pwn_i ON trace(What)", "CREATE VIEW pwn_v AS SELECT 1",
		"CREATE TRIGGER pwn_t AFTER INSERT ON trace BEGIN SELECT 1; END", "CREATE TEMP TABLE pwn_tmp(x)",
		"ALTER TABLE trace ADD COLUMN pwn", "ALTER TABLE trace RENAME TO t2", "REINDEX", "ANALYZE",
		"VACUUM", "VACUUM INTO 'vacuumed.db'", "VACUUM main INTO '/tmp/c37-vac.db'",
		"ATTACH DATABASE 'attached.db' AS a", "ATTACH 'file:attached2.db?mode=rwc' AS b", "DETACH DATABASE main",
		"PRAGMA journal_mode=DELETE", "PRAGMA user_version = 7", "PRAGMA query_only = OFF", "PRAGMA writable_schema = ON",
		"PRAGMA wal_checkpoint(TRUNCATE)", "PRAGMA application_id = 99", "PRAGMA auto_vacuum = 1", "PRAGMA incremental_vacuum",
		"BEGIN IMMEDIATE", "COMMIT", "SAVEPOINT s", "ROLLBACK", "EXPLAIN DELETE FROM trace",
	}
	return w[rng.Intn(len(w))]
}

// cteWrite smuggles a write behind a WITH prefix. withLimit puts a LIMIT token
// into the text so the filter does not append its own (which would turn the DML
// into a syntax error before query_only is ever consulted).
func cteWrite(rng *rand.Rand, nTasks int, withLimit bool) string {
	id := 1 + rng.Intn(nTasks)
	cte := "WITH x(a) AS (SELECT 1)"
	if withLimit {
		cte = []string{"WITH x(a) AS (SELECT 1 LIMIT 1)", "WITH x(a) AS (SELECT 1 limit 9)", "WITH RECURSIVE x(a) AS (SELECT 1 UNION ALL SELECT a+1 FROM x LIMIT 3)"}[rng.Intn(3)]
	}
	dml := []string{
		fmt.Sprintf("DELETE FROM trace WHERE ID = %d", id), "DELETE FROM trace", "DELETE FROM source", "DELETE FROM location WHERE ID IN (SELECT a FROM x)",
		fmt.Sprintf("INSERT INTO trace(ID,ParentID,Kind,What,Location,StartTime,EndTime) VALUES (%d,0,'k','w',1,0,1)", 900000+id),
		"INSERT INTO location SELECT a+1000, 'pwned' FROM x", "INSERT OR REPLACE INTO location VALUES (1,'pwned')",
		fmt.Sprintf("UPDATE trace SET What = 'pwned' WHERE ID = %d", id), "UPDATE location SET Locale = 'pwned'",
		"UPDATE source SET Content = ''", "REPLACE INTO location VALUES (1,'pwned')",
		"INSERT INTO location VALUES (1,'dup') ON CONFLICT DO NOTHING",
	}[rng.Intn(12)]
	ret := []string{"", " RETURNING *", " RETURNING 1"}[rng.Intn(3)]
	return cte + " " + dml + ret
}

func multi(rng *rand.Rand) string {
	m := []string{
		"SELECT 1; DELETE FROM trace", "SELECT 1;DROP TABLE trace;", "SELECT ';'; DELETE FROM trace", "SELECT 1 /* ; */; UPDATE location SET Locale='x'",
		"SELECT 1 -- c\n; DELETE FROM trace", "SELECT 1;\nPRAGMA query_only=OFF;\nDELETE FROM trace", "WITH x AS (SELECT 1) SELECT * FROM x; VACUUM",
		"SELECT ';' AS semi", "SELECT 1 -- ; just a comment", "SELECT 1; ; ;", ";SELECT 1", "SELECT 1;ATTACH 'm.db' AS m",
	}
	if rng.Intn(3) == 0 {
		return m[rng.Intn(len(m))]
	}
	// Composed: a harmless head whose comments / quoted identifiers / literals contain quote characters, separators
	// and comment openers (whatever a home-made tokenizer might mis-scan), then a separator, optionally switching
	// query_only off, then a write, then a tail that re-balances stray quotes. The text may mention "limit 1" so
	// that no LIMIT needs to be appended.
	heads := []string{
		"SELECT 1 /* don't add limit 1 */", "SELECT 1 -- it's fine limit 2\n", `SELECT 1 AS "it's"`, "SELECT 1 AS [it's]", "SELECT 1 AS `it's`",
		"SELECT ';' AS a, '--' AS b", `SELECT "a;b" FROM (SELECT 1 AS "a;b")`, "SELECT 'x''y;' /* ' */", "SELECT 1 /* \" */ AS z", "SELECT 1 /*;*/ LIMIT 1",
		"SELECT '/*' AS c", "SELECT 1 --'\n", "SELECT 1 /* '' ' */", "SELECT count(*) FROM trace WHERE What <> 'a;b''c' LIMIT 3",
	}
	mids := []string{"", "", " PRAGMA query_only = OFF;", " PRAGMA query_only=0;", " PRAGMA writable_schema = ON;"}
	writes := []string{
		" DELETE FROM trace", " UPDATE trace SET What = 'x'", " DROP TABLE trace", " INSERT INTO location VALUES (99, 'zz')", " CREATE TABLE pwn(x)",
		" VACUUM INTO 'copy.db'", " ATTACH 'm.db' AS m", " ALTER TABLE trace RENAME TO t2", " REINDEX", " DELETE FROM trace WHERE ID IN (SELECT ID FROM trace LIMIT 1)",
	}
	tails := []string{"", " --'", " /* ' */", " --\"", " -- limit 5", ";", " ; --'"}
	return heads[rng.Intn(len(heads))] + ";" + mids[rng.Intn(len(mids))] + writes[rng.Intn(len(writes))] + tails[rng.Intn(len(tails))]
}

func nulQuery(rng *rand.Rand) string {
	m := []string{
		"SELECT COUNT(*) FROM trace\x00 DELETE FROM trace", "SELECT 1\x00; DROP TABLE trace", "\x00SELECT 1", "SELECT '\x00' , COUNT(*) FROM trace",
		"SELECT 1 \x00 LIMIT 1 DELETE FROM trace", "WITH x AS (SELECT 1 LIMIT 1)\x00 DELETE FROM trace",
	}
	return m[rng.Intn(len(m))]
}

func longQuery(rng *rand.Rand) string {
	n := 70000 + rng.Intn(230000)
	switch rng.Intn(5) {
	case 0: // very long column alias
		return `SELECT 1 AS "` + strings.Repeat("a", n) + `"`
	case 1: // very long literal; its text also becomes the column name
		return "SELECT '" + strings.Repeat("z", n) + "'"
	case 2: // long IN list
		var sb strings.Builder
		sb.WriteString("SELECT COUNT(*) FROM trace WHERE ID IN (0")
		for sb.Len() < n {
			fmt.Fprintf(&sb, ",%d", rng.Intn(5000))
		}
		sb.WriteString(")")
		return sb.String()
	case 3: // many long-named columns (SQLite allows 2000 result columns)
		var sb strings.Builder
		sb.WriteString("SELECT ")
		cols := 200 + rng.Intn(1700)
		w := n/cols + 1
		for i := 0; i < cols; i++ {
			if i > 0 {
				sb.WriteString(",")
			}
			fmt.Fprintf(&sb, "%d AS c%d_%s", i, i, strings.Repeat("n", w))
		}
		sb.WriteString(" FROM trace")
		return sb.String()
	default: // long comment then a write
		return "SELECT 1 /*" + strings.Repeat("c", n) + "*/"
	}
}

// slowQuery returns a query that runs for seconds when nothing stops it. With
// bounded=true it is finite: the cgo driver's cancellation is racy (an interrupt
// that lands before sqlite3_step starts is lost and the driver then waits for the
// statement to finish), so a cancelled *infinite* query could hang the check.
func slowQuery(rng *rand.Rand, bounded bool) string {
	if !bounded {
		return "WITH RECURSIVE c(x) AS (SELECT 1 UNION ALL SELECT x+1 FROM c) SELECT COUNT(*) FROM c"
	}
	switch rng.Intn(3) {
	case 0:
		return fmt.Sprintf("WITH RECURSIVE c(x) AS (SELECT 1 UNION ALL SELECT x+1 FROM c LIMIT %d) SELECT COUNT(*) FROM c", 3000000+rng.Intn(3000000))
	case 1:
		return "SELECT COUNT(*) FROM trace a, trace b WHERE a.What < b.What AND a.Kind <> b.Kind"
	default:
		return fmt.Sprintf("WITH RECURSIVE c(x) AS (SELECT 1 UNION ALL SELECT x+1 FROM c LIMIT %d) SELECT x FROM c WHERE x < 0", 3000000+rng.Intn(3000000))
	}
}

var reWord = regexp.MustCompile(`\s+`)

// mutate applies surface tricks that a text filter might mishandle.
func mutate(rng *rand.Rand, q string) string {
	for k := rng.Intn(3); k > 0; k-- {
		switch rng.Intn(9) {
		case 0: // random case
			b := []byte(q)
			for i := range b {
				if rng.Intn(2) == 0 {
					if b[i] >= 'a' && b[i] <= 'z' {
						b[i] -= 32
					} else if b[i] >= 'A' && b[i] <= 'Z' {
						b[i] += 32
					}
				}
			}
			if !strings.Contains(q, "'") { // do not alter string literals/identifiers semantics much
				q = string(b)
			}
		case 1:
			q = []string{" ", "\t\n", "\r\n  ", "((", "( ", "\n(\t("}[rng.Intn(6)] + q
		case 2:
			q = q + []string{";", " ; ", ";;\n", " \t", ";\r\n;"}[rng.Intn(5)]
		case 3:
			q = "/* c */ " + q
		case 4:
			q = "-- c\n" + q
		case 5: // comments instead of blanks
			if len(q) < 4000 {
				q = reWord.ReplaceAllString(q, "/**/")
			}
		case 6:
			q = q + " -- limit 1"
		case 7:
			q = q + " /* LIMIT 2 */"
		case 8:
			q = "SELECT 1 UNION ALL " + q
		}
	}
	return q
}

func genQuery(rng *rand.Rand, nTasks int, allowTimeout *int) query {
	var q query
	switch x := rng.Intn(100); {
	case x < 22:
		q = query{Class: "legit", SQL: legit(rng, nTasks)}
	case x < 38:
		q = query{Class: "huge", SQL: huge(rng)}
	case x < 52:
		q = query{Class: "direct_write", SQL: directWrite(rng, nTasks), Write: true}
	case x < 72:
		q = query{Class: "cte_write", SQL: cteWrite(rng, nTasks, rng.Intn(4) > 0), Write: true}
	case x < 79:
		q = query{Class: "multi", SQL: multi(rng), Write: true}
	case x < 83:
		q = query{Class: "nul", SQL: nulQuery(rng), Write: true}
	case x < 88:
		return query{Class: "long", SQL: longQuery(rng)}
	default:
		if *allowTimeout > 0 && rng.Intn(8) == 0 {
			*allowTimeout--
			return query{Class: "timeout", SQL: slowQuery(rng, false)}
		}
		return query{Class: "cancel", SQL: slowQuery(rng, true), CtxMs: 1 + rng.Intn(60)}
	}
	if rng.Intn(3) == 0 {
		q.SQL = mutate(rng, q.SQL)
	}
	return q
}

// ------------------------------------------------------------------ run

var reSummary = regexp.MustCompile(`^\[(\d+) rows( shown; result truncated[^\]]*)?\]$`)

type outcome struct {
	q        query
	out      string
	err      error
	filtered bool // rejected by the text filter, never reached the engine
}

func clipS(s string, n int) string {
	if len(s) <= n {
		return s
	}
	return fmt.Sprintf("%s…(%d bytes)", s[:n], len(s))
}

func run(b kit.Batch, r *kit.R) {
	var p params
	b.P(&p)
	setup := rand.New(rand.NewSource(b.Seed))
	recDir := filepath.Join(r.WorkDir, "rec")
	os.MkdirAll(recDir, 0o755)
	recorded := buildTrace(recDir, setup, p.Tasks)

	// private copy in an otherwise empty directory; the recorder's files are removed
	// so that the work dir only holds what the server creates.
	traceDir := filepath.Join(r.WorkDir, "trace")
	os.MkdirAll(traceDir, 0o755)
	traceFile := filepath.Join(traceDir, "trace.sqlite3")
	data, err := os.ReadFile(recorded)
	if err != nil {
		panic(err)
	}
	if err := os.WriteFile(traceFile, data, 0o644); err != nil {
		panic(err)
	}
	os.RemoveAll(recDir)

	srv := verifshim.OpenReplayServer(traceFile)
	reader := verifshim.TraceReaderOf(srv)
	if srv.CodeSource().IsEmpty() {
		panic("harness: recorded source not visible to the server")
	}
	ro, err := sql.Open("sqlite3", "file:"+traceFile+"?mode=ro")
	if err != nil {
		panic(err)
	}
	ro.SetMaxOpenConns(1)
	defer ro.Close()

	snap := func() snapshot {
		l, _, err := logicalDump(ro)
		if err != nil {
			l = "dump-error: " + err.Error()
		}
		return snapshot{mainHash: hashFile(traceFile), walHash: hashFile(traceFile + "-wal"), listing: listTree(r.WorkDir), logical: l}
	}
	var baseCount int64
	if err := reader.DB.QueryRow("SELECT COUNT(*) FROM trace").Scan(&baseCount); err != nil {
		panic(err)
	}
	base := snap()
	_, nRows, _ := logicalDump(ro)
	r.Max("trace_rows_in_logical_dump", int64(nRows))
	if strings.HasPrefix(base.logical, "dump-error") || baseCount < int64(p.Tasks)/2 {
		panic("harness: baseline unusable: " + base.logical)
	}
	timeoutsLeft := p.Timeouts

	r.ForEach(b.N, func(c *kit.Case) {
		rng := c.Rng
		k := 1
		if rng.Intn(5) == 0 {
			k = 2 + rng.Intn(2)
		}
		qs := make([]query, k)
		for i := range qs {
			qs[i] = genQuery(rng, p.Tasks, &timeoutsLeft)
		}
		desc := make([]map[string]any, k)
		for i, q := range qs {
			desc[i] = map[string]any{"class": q.Class, "sql": clipS(q.SQL, 400), "ctx_ms": q.CtxMs}
		}
		c.Desc(desc)

		outs := make([]outcome, k)
		var wg sync.WaitGroup
		for i := range qs {
			wg.Add(1)
			go func(i int) {
				defer wg.Done()
				q := qs[i]
				ctx := context.Background()
				if q.CtxMs > 0 {
					var cancel context.CancelFunc
					ctx, cancel = context.WithTimeout(ctx, time.Duration(q.CtxMs)*time.Millisecond)
					defer cancel()
				}
				o := outcome{q: q}
				if _, ferr := verifshim.SanitizeReadonlySQL(q.SQL, verifshim.DataQueryRowCap); ferr != nil {
					o.filtered = true
				}
				// drive the tool exactly as the agent loop does
				o.out, o.err = verifshim.DataQueryTool(ctx, reader, map[string]interface{}{"reason": "verif", "sql": q.SQL})
				outs[i] = o
			}(i)
		}
		wg.Wait()

		nontrivial := false
		for _, o := range outs {
			q := o.q
			r.Count("queries_"+q.Class, 1)
			r.Max("max_query_bytes", int64(len(q.SQL)))
			if !o.filtered || q.Write {
				nontrivial = true
			}
			if o.err != nil {
				msg := o.err.Error()
				r.Max("max_error_bytes", int64(len(msg)))
				switch {
				case o.filtered:
					r.Count("rejected_by_text_filter", 1)
				case strings.Contains(msg, "readonly database"):
					r.Count("rejected_by_engine_readonly", 1)
					if q.Class == "cte_write" {
						r.Count("cte_write_reached_engine", 1)
					}
				case strings.Contains(msg, "deadline exceeded") || strings.Contains(msg, "interrupted") || strings.Contains(msg, "context canceled"):
					r.Count("cancelled_or_timed_out", 1)
					if q.Class == "timeout" {
						r.Count("ran_into_tool_timeout_15s", 1)
					}
				default:
					r.Count("rejected_by_engine_other", 1)
					r.Distinct("engine_errors", kit.NormalizeMsg(msg))
				}
				continue
			}
			// successful result: caps
			nl := strings.IndexByte(o.out, '\n')
			if nl < 0 {
				c.Failf("c37/malformed-output", "no summary line in %q", clipS(o.out, 200))
				continue
			}
			summary, body := o.out[:nl], o.out[nl+1:]
			m := reSummary.FindStringSubmatch(summary)
			if m == nil {
				c.Failf("c37/malformed-output", "summary line %q", clipS(summary, 200))
				continue
			}
			var n int
			fmt.Sscan(m[1], &n)
			r.Max("max_rows_returned", int64(n))
			r.Max("max_result_body_bytes", int64(len(body)))
			if n > 0 {
				r.Count("queries_ok_with_rows", 1)
			}
			if m[2] != "" {
				r.Count("results_truncated", 1)
			}
			if n > verifshim.DataQueryRowCap {
				c.Failf("c37/row-cap-exceeded", "%d rows reported for %s", n, clipS(q.SQL, 300))
			}
			if len(body) > verifshim.DataQueryByteCap {
				header := body
				if i := strings.IndexByte(body, '\n'); i >= 0 && !strings.Contains(q.SQL, "\n") {
					header = body[:i]
				}
				key := "c37/byte-cap-exceeded"
				if len(header)+1 > verifshim.DataQueryByteCap || n == 0 {
					key = "c37/byte-cap-exceeded-by-header-line" // column names are not counted against the cap
				}
				c.Failf(key, "result body is %d bytes (cap %d, %d rows, first line %d bytes) for %s query %s",
					len(body), verifshim.DataQueryByteCap, n, len(header), q.Class, clipS(q.SQL, 200))
			}
			// header + one line per row; cells and column names may legitimately hold
			// newlines (sqlite_master.sql does), so equality is only demanded without them
			lq := strings.ToLower(q.SQL)
			lines := strings.Count(body, "\n")
			exact := !strings.ContainsAny(q.SQL, "\n\r") && !strings.Contains(lq, "char(") && !strings.Contains(lq, "sqlite_master") && !strings.Contains(lq, "source")
			if lines < n+1 || (exact && lines != n+1) {
				c.Failf("c37/summary-disagrees-with-body", "summary says %d rows, body has %d lines: %s", n, lines, clipS(q.SQL, 300))
			}
			if q.Write && strings.Contains(strings.ToUpper(q.SQL), "RETURNING") && n > 0 && q.Class == "cte_write" {
				r.Count("write_statement_returned_rows", 1) // decided by the snapshot below
			}
		}
		if nontrivial {
			h := sha256.New()
			for _, q := range qs {
				h.Write([]byte(q.SQL))
				h.Write([]byte{0})
			}
			c.Nontrivial(hex.EncodeToString(h.Sum(nil)[:12]))
		}

		// the trace and its surroundings
		after := snap()
		if after.mainHash != base.mainHash {
			c.Failf("c37/db-file-changed", "main file %s -> %s", base.mainHash, after.mainHash)
		}
		if after.walHash != base.walHash {
			c.Failf("c37/wal-changed", "-wal %s -> %s", base.walHash, after.walHash)
		}
		if after.logical != base.logical {
			c.Failf("c37/logical-content-changed", "logical dump %s -> %s", base.logical, after.logical)
		}
		if after.listing != base.listing {
			c.Failf("c37/file-created-or-removed", "listing before:\n%s\nafter:\n%s", base.listing, after.listing)
		}
		for _, stray := range []string{"/tmp/c37-vac.db"} {
			if _, err := os.Stat(stray); err == nil {
				os.Remove(stray)
				c.Failf("c37/file-created-or-removed", "%s was created", stray)
			}
		}
		r.Count("snapshots_compared", 1)

		// the server's own pool
		var cnt int64
		pctx, cancel := context.WithTimeout(context.Background(), 20*time.Second)
		if err := reader.DB.QueryRowContext(pctx, "SELECT COUNT(*) FROM trace").Scan(&cnt); err != nil {
			c.Failf("c37/pool-unusable", "SELECT through the server's pool failed after the case: %v", err)
		} else if cnt != baseCount {
			c.Failf("c37/logical-content-changed", "COUNT(*) through the server's pool %d -> %d", baseCount, cnt)
		}
		open := reader.DB.Stats().OpenConnections
		r.Max("max_pooled_connections", int64(open))
		var conns []*sql.Conn
		for i := 0; i < open; i++ {
			cn, err := reader.DB.Conn(pctx)
			if err != nil {
				c.Failf("c37/pool-unusable", "cannot take pooled connection %d/%d: %v", i, open, err)
				break
			}
			conns = append(conns, cn)
		}
		for _, cn := range conns {
			var qo int64
			if err := cn.QueryRowContext(pctx, "PRAGMA query_only").Scan(&qo); err != nil {
				c.Failf("c37/pool-unusable", "PRAGMA query_only on a pooled connection: %v", err)
			} else if qo != 0 {
				c.Failf("c37/pool-connection-left-query-only", "a connection returned to the server's pool has query_only=%d after %v", qo, desc)
			}
			r.Count("pool_conns_probed", 1)
		}
		for _, cn := range conns {
			cn.Close()
		}
		cancel()

		o := outs[0]
		res := "ok"
		if o.err != nil {
			res = "error: " + clipS(o.err.Error(), 160)
		}
		c.Sample(map[string]any{"class": o.q.Class, "sql": clipS(o.q.SQL, 300), "result": res, "output_bytes": len(o.out),
			"main_file": after.mainHash, "wal": after.walHash, "logical_dump": after.logical})
	})
}
