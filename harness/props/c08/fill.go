package main

import (
	"encoding/json"
	"fmt"
	"math"
	"math/rand"
	"reflect"
	"strings"

	"github.com/sarchlab/akita/v5/mem/vm/lruset"
	"github.com/sarchlab/akita/v5/queueing"
)

// filler writes hostile values into exported fields by reflection and builds the
// encapsulated containers (queueing.Buffer, queueing.Pipeline, lruset.Set)
// through their own APIs with random operation sequences.
type filler struct {
	rng   *rand.Rand
	count func(name string, d int64)
	// bufferOf maps an element type to the queueing.Buffer instantiation for it
	// (needed as the Sink of a Pipeline of the same element type).
	bufferOf map[reflect.Type]reflect.Type
	depth    int
	fail     func(key, msg string)
}

var strPool = []string{"", "a", "Comp.Top", `"quoted"`, "back\\slash", "line\nbreak\ttab", "\x00nul", "  ", "<script>&amp;</script>", "日本語", "😀", "null", "[]", "{}", "  ", "\u007f\u0080", "*ptr", "a.b[3].c"}

func (g *filler) str() string {
	if g.rng.Intn(3) > 0 {
		return strPool[g.rng.Intn(len(strPool))]
	}
	n := g.rng.Intn(12)
	rs := make([]rune, n)
	for i := range rs {
		switch g.rng.Intn(4) {
		case 0:
			rs[i] = rune(g.rng.Intn(0x80))
		case 1:
			rs[i] = rune(0x80 + g.rng.Intn(0x700))
		case 2:
			rs[i] = rune(0x800 + g.rng.Intn(0xD000-0x800))
		default:
			rs[i] = rune(0x10000 + g.rng.Intn(0x10000))
		}
	}
	return string(rs)
}

func (g *filler) i64(bits int) int64 {
	lo, hi := int64(-1)<<(bits-1), int64(1)<<(bits-1)-1
	switch g.rng.Intn(6) {
	case 0:
		return 0
	case 1:
		return lo
	case 2:
		return hi
	case 3:
		return int64(g.rng.Intn(5)) - 2
	default:
		x := int64(g.rng.Uint64())
		if bits < 64 {
			x = x >> (64 - bits)
		}
		return x
	}
}

func (g *filler) u64(bits int) uint64 {
	max := ^uint64(0) >> (64 - bits)
	switch g.rng.Intn(6) {
	case 0:
		return 0
	case 1:
		return max
	case 2:
		return max - 1
	case 3:
		return uint64(g.rng.Intn(3))
	case 4:
		return (uint64(1)<<53 + uint64(g.rng.Intn(3))) & max // beyond float64's exact range
	default:
		return g.rng.Uint64() & max
	}
}

func (g *filler) f64(bits int) float64 {
	var f float64
	switch g.rng.Intn(7) {
	case 0:
		f = 0
	case 1:
		f = math.MaxFloat64
	case 2:
		f = math.SmallestNonzeroFloat64
	case 3:
		f = -float64(g.rng.Intn(1000)) / 7
	case 4:
		f = 0.1 + 0.2
	default:
		f = math.Float64frombits(g.rng.Uint64())
	}
	if math.IsNaN(f) || math.IsInf(f, 0) {
		f = 1.5
	}
	if bits == 32 {
		f = float64(float32(f))
		if math.IsInf(f, 0) {
			f = math.MaxFloat32
		}
	}
	return f
}

func isQueueing(t reflect.Type, prefix string) bool {
	return t.Kind() == reflect.Struct && strings.HasSuffix(t.PkgPath(), "akita/v5/queueing") && strings.HasPrefix(t.Name(), prefix+"[")
}

var setType = reflect.TypeOf(lruset.Set{})

// registerBuffers records every queueing.Buffer instantiation reachable from t.
func (g *filler) registerBuffers(t reflect.Type, seen map[reflect.Type]bool) {
	if seen[t] {
		return
	}
	seen[t] = true
	switch t.Kind() {
	case reflect.Struct:
		if isQueueing(t, "Buffer") {
			m, _ := reflect.PointerTo(t).MethodByName("PushTyped")
			g.bufferOf[m.Type.In(1)] = t
			return
		}
		for i := 0; i < t.NumField(); i++ {
			g.registerBuffers(t.Field(i).Type, seen)
		}
	case reflect.Slice, reflect.Array, reflect.Ptr, reflect.Map:
		g.registerBuffers(t.Elem(), seen)
	}
}

// fill sets v (addressable, reached through exported fields only).
func (g *filler) fill(v reflect.Value) {
	t := v.Type()
	g.depth++
	defer func() { g.depth-- }()
	switch {
	case t == setType:
		v.Set(reflect.ValueOf(g.buildSet()))
		return
	case isQueueing(t, "Buffer"):
		v.Set(g.buildBuffer(t, -1).Elem())
		return
	case isQueueing(t, "Pipeline"):
		v.Set(g.buildPipeline(t).Elem())
		return
	}
	short := g.depth > 6
	switch t.Kind() {
	case reflect.Bool:
		v.SetBool(g.rng.Intn(2) == 0)
	case reflect.Int, reflect.Int64:
		v.SetInt(g.i64(64))
	case reflect.Int8:
		v.SetInt(g.i64(8))
	case reflect.Int16:
		v.SetInt(g.i64(16))
	case reflect.Int32:
		v.SetInt(g.i64(32))
	case reflect.Uint, reflect.Uint64:
		v.SetUint(g.u64(64))
	case reflect.Uint8:
		v.SetUint(g.u64(8))
	case reflect.Uint16:
		v.SetUint(g.u64(16))
	case reflect.Uint32:
		v.SetUint(g.u64(32))
	case reflect.Float32:
		v.SetFloat(g.f64(32))
	case reflect.Float64:
		v.SetFloat(g.f64(64))
	case reflect.String:
		v.SetString(g.str())
	case reflect.Slice:
		switch r := g.rng.Intn(8); {
		case r == 0:
			v.Set(reflect.Zero(t))
			g.count("filled_nil_slices", 1)
		case r <= 2:
			v.Set(reflect.MakeSlice(t, 0, 0))
			g.count("filled_empty_slices", 1)
		default:
			n := 1 + g.rng.Intn(3)
			if short {
				n = 1
			}
			s := reflect.MakeSlice(t, n, n)
			for i := 0; i < n; i++ {
				g.fill(s.Index(i))
			}
			v.Set(s)
		}
	case reflect.Array:
		for i := 0; i < v.Len(); i++ {
			g.fill(v.Index(i))
		}
	case reflect.Map:
		switch r := g.rng.Intn(8); {
		case r == 0:
			v.Set(reflect.Zero(t))
			g.count("filled_nil_maps", 1)
		case r <= 2:
			v.Set(reflect.MakeMap(t))
			g.count("filled_empty_maps", 1)
		default:
			m := reflect.MakeMap(t)
			n := 1 + g.rng.Intn(3)
			if short {
				n = 1
			}
			for i := 0; i < n; i++ {
				k := reflect.New(t.Key()).Elem()
				g.fill(k)
				e := reflect.New(t.Elem()).Elem()
				g.fill(e)
				m.SetMapIndex(k, e)
			}
			v.Set(m)
		}
	case reflect.Struct:
		for i := 0; i < t.NumField(); i++ {
			f := t.Field(i)
			if f.PkgPath != "" {
				// not reachable through the API; whether such a type may be a State at all is C43's question
				g.count("unexported_fields_left_zero", 1)
				continue
			}
			if f.Tag.Get("json") == "-" {
				// documented as not checkpointed (e.g. Info any `json:"-"`)
				g.count("json_dash_fields_left_zero", 1)
				continue
			}
			g.fill(v.Field(i))
		}
	case reflect.Ptr:
		if g.rng.Intn(3) > 0 {
			p := reflect.New(t.Elem())
			g.fill(p.Elem())
			v.Set(p)
		}
	case reflect.Interface:
		// left nil: a checkpointed interface field has no type tag to come back with
		g.count("interface_fields_left_nil", 1)
	}
}

// initFromJSON names/sizes a container through its UnmarshalJSON and checks, through MarshalJSON,
// that the geometry it was given is the geometry it reports (JSON -> value -> JSON).
func (g *filler) initFromJSON(ptr reflect.Value, js string) {
	if err := ptr.Interface().(json.Unmarshaler).UnmarshalJSON([]byte(js)); err != nil {
		panic(fmt.Sprintf("harness: cannot initialise %s from %s: %v", ptr.Type(), js, err))
	}
	out, err := ptr.Elem().Interface().(json.Marshaler).MarshalJSON()
	var want, got map[string]any
	if err == nil {
		err = json.Unmarshal(out, &got)
	}
	json.Unmarshal([]byte(js), &want)
	if err != nil || !reflect.DeepEqual(want, got) {
		name := ptr.Type().Elem().Name()
		if i := strings.IndexByte(name, '['); i > 0 {
			name = name[:i]
		}
		g.fail("roundtrip/container/"+name+":json-value-json-mismatch",
			fmt.Sprintf("%s: UnmarshalJSON(%s) followed by MarshalJSON gives %s (err %v)", ptr.Type().Elem(), js, out, err))
	}
	g.count("containers_initialised_through_UnmarshalJSON", 1)
}

// buildBuffer returns a *Buffer[X]: named and sized (the only API that can do that for an
// element type that cannot be named here is UnmarshalJSON), then driven by PushTyped/Pop/Clear.
func (g *filler) buildBuffer(t reflect.Type, capacity int) reflect.Value {
	p := reflect.New(t)
	if capacity < 0 {
		capacity = []int{0, 1, 2, 4, 16}[g.rng.Intn(5)]
	}
	bufName := g.str()
	if t == reflect.TypeOf(queueing.Buffer[int]{}) {
		// the element type can be named here: use the real constructor
		b := queueing.NewBuffer[int](bufName, capacity)
		p = reflect.ValueOf(&b)
		g.count("containers_built_by_constructor", 1)
	} else {
		name, _ := json.Marshal(bufName)
		g.initFromJSON(p, fmt.Sprintf(`{"name":%s,"cap":%d,"elements":null}`, name, capacity))
		if got := p.MethodByName("Name").Call(nil)[0].String(); got != bufName {
			g.fail("roundtrip/container/Buffer:name-not-restored", fmt.Sprintf("Buffer.UnmarshalJSON: name %q became %q", bufName, got))
		}
		if got := p.MethodByName("Capacity").Call(nil)[0].Int(); got != int64(capacity) {
			g.fail("roundtrip/container/Buffer:capacity-not-restored", fmt.Sprintf("Buffer.UnmarshalJSON: capacity %d became %d", capacity, got))
		}
	}
	push := p.MethodByName("PushTyped")
	elemT := push.Type().In(0)
	ops := g.rng.Intn(3 * (capacity + 1))
	for i := 0; i < ops; i++ {
		switch r := g.rng.Intn(10); {
		case r < 6:
			if p.MethodByName("CanPush").Call(nil)[0].Bool() {
				e := reflect.New(elemT).Elem()
				g.fill(e)
				push.Call([]reflect.Value{e})
				g.count("container_ops_buffer_push", 1)
			}
		case r < 9:
			p.MethodByName("Pop").Call(nil)
			g.count("container_ops_buffer_pop", 1)
		default:
			p.MethodByName("Clear").Call(nil)
		}
	}
	size := p.MethodByName("Size").Call(nil)[0].Int()
	if size > 0 {
		g.count("buffers_nonempty", 1)
	}
	if size == int64(capacity) && capacity > 0 {
		g.count("buffers_full", 1)
	}
	return p
}

// buildPipeline returns a *Pipeline[X] driven by Accept/AcceptWithDelay/Tick.
func (g *filler) buildPipeline(t reflect.Type) reflect.Value {
	p := reflect.New(t)
	width, stages := 1+g.rng.Intn(4), 1+g.rng.Intn(5)
	if t == reflect.TypeOf(queueing.Pipeline[int]{}) {
		pl := queueing.NewPipeline[int](width, stages)
		p = reflect.ValueOf(&pl)
		g.count("containers_built_by_constructor", 1)
	} else {
		g.initFromJSON(p, fmt.Sprintf(`{"width":%d,"num_stages":%d,"stages":null}`, width, stages))
	}
	accept := p.MethodByName("Accept")
	elemT := accept.Type().In(0)
	var sink reflect.Value
	if bt, ok := g.bufferOf[elemT]; ok {
		sink = g.buildBuffer(bt, []int{0, 1, 64}[g.rng.Intn(3)])
		for sink.MethodByName("Size").Call(nil)[0].Int() > 0 {
			sink.MethodByName("Pop").Call(nil)
		}
	}
	ops := g.rng.Intn(4 * stages)
	for i := 0; i < ops; i++ {
		switch r := g.rng.Intn(10); {
		case r < 5:
			if p.MethodByName("CanAccept").Call(nil)[0].Bool() {
				e := reflect.New(elemT).Elem()
				g.fill(e)
				if g.rng.Intn(2) == 0 {
					accept.Call([]reflect.Value{e})
				} else {
					p.MethodByName("AcceptWithDelay").Call([]reflect.Value{e, reflect.ValueOf(g.rng.Intn(3))})
				}
				g.count("container_ops_pipeline_accept", 1)
			}
		case r < 9:
			if sink.IsValid() {
				p.MethodByName("Tick").Call([]reflect.Value{sink})
				g.count("container_ops_pipeline_tick", 1)
			}
		default:
			if g.rng.Intn(4) == 0 {
				p.MethodByName("Clear").Call(nil)
			}
		}
	}
	if n := len(reflectLenOf(p.MethodByName("Stages").Call(nil)[0])); n > 0 {
		g.count("pipelines_occupied", 1)
	}
	return p
}

func reflectLenOf(v reflect.Value) []struct{} { return make([]struct{}, v.Len()) }

func (g *filler) buildSet() lruset.Set {
	ways := g.rng.Intn(9)
	s := lruset.NewSet(ways)
	keys := []string{}
	ops := g.rng.Intn(4 * (ways + 1))
	for i := 0; i < ops && ways > 0; i++ {
		switch r := g.rng.Intn(10); {
		case r < 4:
			s.Visit(g.rng.Intn(ways))
		case r < 7:
			k := lruset.KeyString(g.u64(32), g.u64(64))
			if g.rng.Intn(4) == 0 {
				k = g.str()
			}
			old := ""
			if len(keys) > 0 && g.rng.Intn(2) == 0 {
				old = keys[g.rng.Intn(len(keys))]
			}
			s.UpdateKey(g.rng.Intn(ways), old, k)
			keys = append(keys, k)
		case r < 8:
			if len(keys) > 0 {
				s.Remove(keys[g.rng.Intn(len(keys))])
			}
		default:
			if w, ok := s.Evict(); ok && g.rng.Intn(2) == 0 {
				s.Visit(w)
			}
		}
		g.count("container_ops_lruset", 1)
	}
	g.count("lrusets_built", 1)
	return s
}
