package main

import (
	"bytes"
	"fmt"
	"reflect"

	"verifharness/kit"

	"github.com/sarchlab/akita/v5/mem"
	"github.com/sarchlab/akita/v5/mem/idealmemcontroller"
	"github.com/sarchlab/akita/v5/mem/memprotocol"
	"github.com/sarchlab/akita/v5/mem/rob"
	"github.com/sarchlab/akita/v5/messaging"
	"github.com/sarchlab/akita/v5/modeling"
	"github.com/sarchlab/akita/v5/naming"
	"github.com/sarchlab/akita/v5/noc/directconnection"
	"github.com/sarchlab/akita/v5/timing"
)

// "live" scenario: States and port buffers reached by a real workload
// (driver -> reorder buffer -> ideal memory controller over two direct
// connections), cut with RunUntil at a drawn time. Every component and port of
// the cut simulation is checkpointed into its twin of a freshly built
// simulation and compared.

type liveReg struct {
	engine *timing.SerialEngine
	comps  []naming.Named
	ports  []naming.Named
}

func (r *liveReg) GetEngine() timing.Engine          { return r.engine }
func (r *liveReg) RegisterComponent(c naming.Named)  { r.comps = append(r.comps, c) }
func (r *liveReg) RegisterConnection(c naming.Named) {}
func (r *liveReg) RegisterResource(c naming.Named)   {}
func (r *liveReg) RegisterPort(p naming.Named)       { r.ports = append(r.ports, p) }

type op struct {
	Write bool
	Addr  uint64
	Size  int
	Mask  int // 0 nil, 1 empty-or-partial mask
}

type liveSpec struct {
	NumOps int `json:"num_ops"`
}

type liveState struct {
	Sent     int            `json:"sent"`
	Acked    int            `json:"acked"`
	Pending  map[uint64]int `json:"pending"`
	LastData []byte         `json:"last_data"`
}

type liveDriver struct {
	*modeling.Component[liveSpec, liveState, modeling.None]
	ops []op
	dst messaging.RemotePort
}

type liveMW struct{ d *liveDriver }

func (m *liveMW) Tick() bool {
	d := m.d
	port := d.GetPortByName("Mem")
	progress := false
	if msg := port.RetrieveIncoming(); msg != nil {
		if rsp, ok := msg.(memprotocol.DataReadyRsp); ok {
			d.State.LastData = rsp.Data
		}
		delete(d.State.Pending, msg.Meta().RspTo)
		d.State.Acked++
		progress = true
	}
	if d.State.Sent < len(d.ops) && port.CanSend() {
		o := d.ops[d.State.Sent]
		meta := messaging.MsgMeta{ID: timing.GetIDGenerator().Generate(), Src: port.AsRemote(), Dst: d.dst, TrafficBytes: 12 + o.Size, TrafficClass: "mem"}
		if o.Write {
			data := make([]byte, o.Size)
			for i := range data {
				data[i] = byte(o.Addr) + byte(i)
			}
			req := memprotocol.WriteReq{MsgMeta: meta, Address: o.Addr, Data: data, PID: 1}
			if o.Mask == 1 {
				req.DirtyMask = make([]bool, o.Size)
				for i := range req.DirtyMask {
					req.DirtyMask[i] = i%2 == 0
				}
			}
			port.Send(req)
		} else {
			port.Send(memprotocol.ReadReq{MsgMeta: meta, Address: o.Addr, AccessByteSize: uint64(o.Size), PID: 1})
		}
		d.State.Pending[meta.ID] = d.State.Sent
		d.State.Sent++
		progress = true
	}
	return progress
}

type liveSim struct {
	reg    *liveReg
	driver *liveDriver
}

func buildLive(ops []op, latency, robSize, bufSize int) *liveSim {
	reg := &liveReg{engine: timing.NewSerialEngine()}
	mkPort := func(c messaging.Component, name string, n int) messaging.Port {
		return modeling.MakePortBuilder().WithRegistrar(reg).WithComponent(c).WithSpec(modeling.PortSpec{BufSize: n}).Build(name)
	}
	mspec := idealmemcontroller.DefaultSpec()
	mspec.Capacity = 1 * mem.MB
	mspec.Latency = latency
	memc := idealmemcontroller.MakeBuilder().WithRegistrar(reg).WithSpec(mspec).Build("Mem")
	memTop := mkPort(memc, "Top", bufSize)
	memc.AssignPort("Top", memTop)
	memc.AssignPort("Control", mkPort(memc, "Control", 1))

	rspec := rob.DefaultSpec()
	rspec.BufferSize = robSize
	rspec.BottomUnit = memTop.AsRemote()
	r := rob.MakeBuilder().WithRegistrar(reg).WithSpec(rspec).Build("ROB")
	robTop, robBottom := mkPort(r, "Top", bufSize), mkPort(r, "Bottom", bufSize)
	r.AssignPort("Top", robTop)
	r.AssignPort("Bottom", robBottom)
	r.AssignPort("Control", mkPort(r, "Control", 1))

	dc := modeling.NewBuilder[liveSpec, liveState, modeling.None]().WithEngine(reg.engine).WithFreq(1 * timing.GHz).
		WithSpec(liveSpec{NumOps: len(ops)}).Build("Driver")
	dc.State = liveState{Pending: map[uint64]int{}}
	dc.DeclarePort("Mem")
	d := &liveDriver{Component: dc, ops: ops, dst: robTop.AsRemote()}
	dc.AddMiddleware(&liveMW{d})
	reg.RegisterComponent(d)
	dPort := mkPort(d, "Mem", bufSize)
	d.AssignPort("Mem", dPort)

	c1 := directconnection.MakeBuilder().WithRegistrar(reg).Build("Conn1")
	c1.PlugIn(dPort)
	c1.PlugIn(robTop)
	c2 := directconnection.MakeBuilder().WithRegistrar(reg).Build("Conn2")
	c2.PlugIn(robBottom)
	c2.PlugIn(memTop)
	return &liveSim{reg, d}
}

func stateOf(comp any) reflect.Value {
	v := reflect.ValueOf(comp)
	for v.Kind() == reflect.Ptr {
		v = v.Elem()
	}
	return v.FieldByName("State")
}

func drain(p messaging.Port) (in, out []messaging.Msg) {
	for m := p.RetrieveIncoming(); m != nil; m = p.RetrieveIncoming() {
		in = append(in, m)
	}
	for m := p.RetrieveOutgoing(); m != nil; m = p.RetrieveOutgoing() {
		out = append(out, m)
	}
	return
}

func runLive(b kit.Batch, r *kit.R) {
	timing.UseSequentialIDGenerator()
	r.ForEach(b.N, func(c *kit.Case) {
		rng := c.Rng
		n := 1 + rng.Intn(40)
		ops := make([]op, n)
		zeroLen := rng.Intn(3) == 0
		for i := range ops {
			size := []int{1, 4, 8, 64}[rng.Intn(4)]
			if zeroLen && rng.Intn(4) == 0 {
				size = 0
			}
			ops[i] = op{Write: rng.Intn(2) == 0, Addr: uint64(rng.Intn(64)) * 64, Size: size, Mask: rng.Intn(2)}
		}
		latency, robSize, bufSize := rng.Intn(30), 1+rng.Intn(8), 1+rng.Intn(4)
		cut := timing.VTimeInPicoSec(rng.Intn(1000 * (20 + n*2)))
		c.Desc(map[string]any{"path": "live", "ops": n, "zero_length_ops": zeroLen, "latency": latency, "rob": robSize, "buf": bufSize, "cut_ps": uint64(cut)})
		a := buildLive(ops, latency, robSize, bufSize)
		a.driver.TickLater()
		a.reg.engine.RunUntil(cut)
		twin := buildLive(ops, latency, robSize, bufSize)

		busy := false
		for i, comp := range a.reg.comps {
			cp, ok := comp.(checkpointable)
			if !ok {
				continue
			}
			var buf bytes.Buffer
			if err := cp.SaveCheckpoint(&buf); err != nil {
				c.Fail("roundtrip/live/"+comp.Name()+":save-error", map[string]any{"error": err.Error()})
				continue
			}
			js := buf.String()
			other := twin.reg.comps[i]
			if err := other.(checkpointable).LoadCheckpoint(&buf); err != nil {
				c.Fail("roundtrip/live/"+comp.Name()+":load-error", map[string]any{"error": err.Error(), "checkpoint": clip(js, 1200)})
				continue
			}
			want, got := stateOf(comp), stateOf(other)
			if !isZero(want) {
				busy = true
			}
			if report(c, "state", want.Type(), want, got, map[string]any{"component": comp.Name(), "reached_by": "workload", "checkpoint": clip(js, 600)}) {
				r.Count("live_states_round_tripped", 1)
				if want.Kind() == reflect.Struct && want.NumField() > 0 && want.Field(0).Kind() == reflect.Slice && want.Field(0).Len() > 0 {
					r.Count("live_states_with_inflight_transactions", 1)
				}
			}
		}
		for i, p := range a.reg.ports {
			port := p.(messaging.Port)
			var buf bytes.Buffer
			if err := p.(checkpointable).SaveCheckpoint(&buf); err != nil {
				c.Fail("roundtrip/live/port:save-error", map[string]any{"error": err.Error(), "port": p.Name()})
				continue
			}
			js := buf.String()
			other := twin.reg.ports[i].(messaging.Port)
			if err := other.(checkpointable).LoadCheckpoint(&buf); err != nil {
				c.Fail("roundtrip/live/port:load-error", map[string]any{"error": err.Error(), "port": p.Name(), "checkpoint": clip(js, 1200)})
				continue
			}
			wi, wo := drain(port)
			gi, go_ := drain(other)
			cmp := func(dir string, w, g []messaging.Msg) {
				if len(w) != len(g) {
					c.Failf("roundtrip/msg/count-changed", "port %s %s: %d messages before, %d after", p.Name(), dir, len(w), len(g))
					return
				}
				for k := range w {
					if report(c, "msg", reflect.TypeOf(w[k]), reflect.ValueOf(w[k]), reflect.ValueOf(g[k]), map[string]any{"port": p.Name(), "buffer": dir, "reached_by": "workload", "checkpoint": clip(js, 600)}) {
						r.Count("live_msgs_round_tripped", 1)
						busy = true
					}
				}
			}
			cmp("incoming", wi, gi)
			cmp("outgoing", wo, go_)
		}
		r.Count("live_cuts", 1)
		if a.driver.State.Sent > a.driver.State.Acked {
			r.Count("live_cuts_with_requests_in_flight", 1)
		}
		if busy {
			c.Nontrivial(fmt.Sprintf("live/%d", c.Seed))
		}
		c.Sample(map[string]any{"path": "live", "ops": n, "cut_ps": uint64(cut), "sent": a.driver.State.Sent, "acked": a.driver.State.Acked})
	})
}
