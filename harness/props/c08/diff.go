package main

import (
	"fmt"
	"reflect"
	"strings"
)

// diffInfo describes the first place where two values of the same type differ.
// It reads unexported fields through reflect's read-only accessors only.
type diffInfo struct {
	Path  string // field path with indices/keys stripped
	Class string // empty-became-nil | nil-became-empty | len-changed | value-changed | type-changed | map-key-lost | nil-changed
	Want  string
	Got   string
	// Owner is the outermost struct on the path that is left through an *unexported* field (nil if none):
	// encoding/json never looks below that field.
	Owner            reflect.Type
	OwnerHasExported bool
	// Collision: before any unexported field, the path goes through an exported field whose JSON name
	// is also claimed by a sibling (encoding/json then drops it silently).
	Collision bool

	emit func()
	// Named is the innermost named (non-builtin) type on the path that has methods.
	Named reflect.Type
}

// jsonName is the name encoding/json uses for an exported field.
func jsonName(f reflect.StructField) string {
	if n := strings.Split(f.Tag.Get("json"), ",")[0]; n != "" {
		return n
	}
	return f.Name
}

// collides: another exported field of the same struct answers to the same JSON name.
func collides(st reflect.Type, i int) bool {
	if st.Field(i).PkgPath != "" || st.Field(i).Tag.Get("json") == "-" {
		return false
	}
	for j := 0; j < st.NumField(); j++ {
		if j != i && st.Field(j).PkgPath == "" && st.Field(j).Tag.Get("json") != "-" && jsonName(st.Field(j)) == jsonName(st.Field(i)) {
			return true
		}
	}
	return false
}

func show(v reflect.Value) string {
	s := fmt.Sprintf("%#v", v)
	if len(s) > 160 {
		s = s[:160] + "…"
	}
	return s
}

// allDiffs lists (up to 32) places where a and b differ.
func allDiffs(a, b reflect.Value) []diffInfo {
	var out []diffInfo
	var d diffInfo
	d.emit = func() {
		if len(out) < 32 {
			c := d
			c.emit = nil
			out = append(out, c)
		}
	}
	walkDiff(a, b, "", &d)
	return out
}

// firstDiff fills d with the first difference and reports whether there is one.
func firstDiff(a, b reflect.Value, path string, d *diffInfo) bool {
	ds := allDiffs(a, b)
	if len(ds) == 0 {
		return false
	}
	*d = ds[0]
	return true
}

// walkDiff calls d.emit() at every difference; it returns true if it emitted.
func walkDiff(a, b reflect.Value, path string, d *diffInfo) bool {
	if a.IsValid() != b.IsValid() {
		d.Path, d.Class, d.Want, d.Got = path, "nil-changed", fmt.Sprint(a.IsValid()), fmt.Sprint(b.IsValid())
		d.emit()
		return true
	}
	if !a.IsValid() {
		return false
	}
	if a.Type() != b.Type() {
		d.Path, d.Class, d.Want, d.Got = path, "type-changed", a.Type().String(), b.Type().String()
		d.emit()
		return true
	}
	t := a.Type()
	savedNamed := d.Named
	if t.PkgPath() != "" && t.NumMethod()+reflect.PointerTo(t).NumMethod() > 0 {
		d.Named = t
	}
	differ := func() bool {
		found := false
		switch t.Kind() {
		case reflect.Struct:
			for i := 0; i < t.NumField(); i++ {
				f := t.Field(i)
				so, sh := d.Owner, d.OwnerHasExported
				sc := d.Collision
				if f.PkgPath == "" && d.Owner == nil && collides(t, i) {
					d.Collision = true
				}
				if f.PkgPath != "" && d.Owner == nil && !d.Collision {
					d.Owner = t
					d.OwnerHasExported = false
					for j := 0; j < t.NumField(); j++ {
						if t.Field(j).PkgPath == "" {
							d.OwnerHasExported = true
						}
					}
				}
				if walkDiff(a.Field(i), b.Field(i), path+"."+f.Name, d) {
					found = true
				}
				d.Owner, d.OwnerHasExported = so, sh
				d.Collision = sc
			}
			return found
		case reflect.Slice:
			if a.IsNil() != b.IsNil() {
				d.Path, d.Want, d.Got = path, show(a), show(b)
				switch {
				case a.Len() != b.Len():
					d.Class = "len-changed"
				case a.IsNil():
					d.Class = "nil-became-empty"
				default:
					d.Class = "empty-became-nil"
				}
				d.emit()
				return true
			}
			fallthrough
		case reflect.Array:
			if a.Len() != b.Len() {
				d.Path, d.Class, d.Want, d.Got = path, "len-changed", show(a), show(b)
				d.emit()
				return true
			}
			for i := 0; i < a.Len(); i++ {
				if walkDiff(a.Index(i), b.Index(i), path+"[]", d) {
					found = true
				}
			}
			return found
		case reflect.Map:
			if a.IsNil() != b.IsNil() {
				d.Path, d.Want, d.Got = path, show(a), show(b)
				switch {
				case a.Len() != b.Len():
					d.Class = "len-changed"
				case a.IsNil():
					d.Class = "nil-became-empty"
				default:
					d.Class = "empty-became-nil"
				}
				d.emit()
				return true
			}
			if a.Len() != b.Len() {
				d.Path, d.Class, d.Want, d.Got = path, "len-changed", show(a), show(b)
				d.emit()
				return true
			}
			for _, k := range a.MapKeys() {
				bv := b.MapIndex(k)
				if !bv.IsValid() {
					d.Path, d.Class, d.Want, d.Got = path, "map-key-lost", show(k), show(b)
					d.emit()
					found = true
					continue
				}
				if walkDiff(a.MapIndex(k), bv, path+"[k]", d) {
					found = true
				}
			}
			return found
		case reflect.Ptr, reflect.Interface:
			if a.IsNil() != b.IsNil() {
				d.Path, d.Class, d.Want, d.Got = path, "nil-changed", show(a), show(b)
				d.emit()
				return true
			}
			if a.IsNil() {
				return false
			}
			return walkDiff(a.Elem(), b.Elem(), path, d)
		case reflect.Bool:
			if a.Bool() != b.Bool() {
				d.Path, d.Class, d.Want, d.Got = path, "value-changed", show(a), show(b)
				d.emit()
				return true
			}
		case reflect.Int, reflect.Int8, reflect.Int16, reflect.Int32, reflect.Int64:
			if a.Int() != b.Int() {
				d.Path, d.Class, d.Want, d.Got = path, "value-changed", show(a), show(b)
				d.emit()
				return true
			}
		case reflect.Uint, reflect.Uint8, reflect.Uint16, reflect.Uint32, reflect.Uint64, reflect.Uintptr:
			if a.Uint() != b.Uint() {
				d.Path, d.Class, d.Want, d.Got = path, "value-changed", show(a), show(b)
				d.emit()
				return true
			}
		case reflect.Float32, reflect.Float64:
			if a.Float() != b.Float() {
				d.Path, d.Class, d.Want, d.Got = path, "value-changed", show(a), show(b)
				d.emit()
				return true
			}
		case reflect.Complex64, reflect.Complex128:
			if a.Complex() != b.Complex() {
				d.Path, d.Class, d.Want, d.Got = path, "value-changed", show(a), show(b)
				d.emit()
				return true
			}
		case reflect.String:
			if a.String() != b.String() {
				d.Path, d.Class, d.Want, d.Got = path, "value-changed", show(a), show(b)
				d.emit()
				return true
			}
		case reflect.Chan, reflect.Func, reflect.UnsafePointer:
			if a.IsNil() != b.IsNil() {
				d.Path, d.Class, d.Want, d.Got = path, "nil-changed", show(a), show(b)
				d.emit()
				return true
			}
		}
		return false
	}()
	d.Named = savedNamed
	return differ
}
