// C08 Runtime values survive serialisation unchanged.
//
// Values are pushed through the REAL checkpoint paths:
//   - protocol messages: Deliver/Send into a port -> port.SaveCheckpoint -> fresh
//     port.LoadCheckpoint -> RetrieveIncoming/RetrieveOutgoing;
//   - events: Schedule on a SerialEngine -> SaveCheckpoint -> fresh engine
//     LoadCheckpoint -> Run, captured by the registered handlers;
//   - component State: modeling.Component (and EventDrivenComponent)
//     SaveCheckpoint -> freshly built component LoadCheckpoint.
//
// and must come back reflect.DeepEqual with the same concrete type.
package main

import (
	"bytes"
	"fmt"
	"io"
	"reflect"
	"sort"
	"strings"

	"verifharness/kit"

	"github.com/sarchlab/akita/v5/hooking"
	"github.com/sarchlab/akita/v5/mem/cache/writeback"
	"github.com/sarchlab/akita/v5/mem/cache/writethroughcache"
	"github.com/sarchlab/akita/v5/mem/datamover"
	"github.com/sarchlab/akita/v5/mem/datamoverprotocol"
	"github.com/sarchlab/akita/v5/mem/dram"
	"github.com/sarchlab/akita/v5/mem/idealmemcontroller"
	"github.com/sarchlab/akita/v5/mem/memcontrolprotocol"
	"github.com/sarchlab/akita/v5/mem/memprotocol"
	"github.com/sarchlab/akita/v5/mem/rob"
	"github.com/sarchlab/akita/v5/mem/simplebankedmemory"
	"github.com/sarchlab/akita/v5/mem/vm/addresstranslator"
	"github.com/sarchlab/akita/v5/mem/vm/gmmu"
	"github.com/sarchlab/akita/v5/mem/vm/mmu"
	"github.com/sarchlab/akita/v5/mem/vm/mmuCache"
	"github.com/sarchlab/akita/v5/mem/vm/tlb"
	"github.com/sarchlab/akita/v5/mem/vm/vmprotocol"
	"github.com/sarchlab/akita/v5/messaging"
	"github.com/sarchlab/akita/v5/modeling"
	"github.com/sarchlab/akita/v5/noc/acceptance"
	"github.com/sarchlab/akita/v5/noc/directconnection"
	"github.com/sarchlab/akita/v5/noc/networking/switching/endpoint"
	"github.com/sarchlab/akita/v5/noc/networking/switching/switches"
	"github.com/sarchlab/akita/v5/noc/packetization"
	"github.com/sarchlab/akita/v5/timing"
)

type params struct {
	Kind string `json:"kind"` // msg | event | state
}

type checkpointable interface {
	SaveCheckpoint(w io.Writer) error
	LoadCheckpoint(r io.Reader) error
}

// the library protocols (+ the NoC acceptance traffic protocol, also non-test library code)
var protocols = []*messaging.Protocol{memprotocol.Protocol, datamoverprotocol.Protocol, vmprotocol.Protocol,
	memcontrolprotocol.Protocol, packetization.Protocol, acceptance.Protocol}

func main() {
	kit.Main(kit.Prop{
		ID:    "C08",
		Level: "exploration",
		Rule: "msg: every case puts 1–12 messages, types drawn from Protocol.Messages() of the 6 library protocols, into the incoming (Deliver) and outgoing (Send) buffers of a port whose name and " +
			"capacities are also drawn, checkpoints the port and restores it into a fresh port; event: 1–40 events of the registered types (EventBase, TickEvent, TimerFiredEvent; primary and secondary; " +
			"times up to 2^64-1; optionally after RunUntil consumed a prefix) through SerialEngine checkpoint; state: one of the 15 library State types (+memaccessagent) through Component / " +
			"EventDrivenComponent checkpoint. All exported fields are filled by reflection (nil vs empty vs short slices/maps, zero, extreme ints, beyond-2^53 ints, valid UTF-8 with quotes/controls/U+2028, " +
			"arbitrary bytes); live: a driver -> reorder buffer -> ideal memory controller simulation is cut with RunUntil at a drawn time and every component State and port buffer reached by the workload is checkpointed into the twin of a freshly built simulation; Buffer/Pipeline/lruset.Set members are built through their own APIs with random op sequences. A case is non-trivial when at least one value differed from its zero value; " +
			"distinct by (path, types, seed-derived content hash)",
		Assumptions: []string{
			"strings are valid UTF-8 and floats finite (encoding/json cannot represent anything else)",
			"fields tagged json:\"-\" (Info any) are documented as not checkpointed and are left zero; interface-typed fields are left nil",
			"Buffer[int]/Pipeline[int] are built with NewBuffer/NewPipeline; those of an element type that cannot be named outside its package are named and sized through their own UnmarshalJSON (there is no other API; the geometry is read back through MarshalJSON/Name/Capacity), then all are driven through PushTyped/Pop/Accept/Tick",
			"equality is reflect.DeepEqual, which also looks at the unexported fields of the containers; these were reached through the containers' APIs only",
		},
		Plan: func(tier string, seed int64) []kit.Batch {
			nm, ne, ns := 500, 300, 260
			rep := 1
			if tier == "thorough" {
				nm, ne, ns = 20000, 12000, 8000
				rep = 8
			}
			var bs []kit.Batch
			add := func(kind string, n int) {
				bs = append(bs, kit.Batch{Name: fmt.Sprintf("%s%d", kind, len(bs)), Seed: seed*1000 + int64(len(bs)), N: n, Params: kit.MkParams(params{kind})})
			}
			for r := 0; r < rep; r++ {
				for i := 0; i < 4; i++ {
					add("msg", nm)
				}
				for i := 0; i < 3; i++ {
					add("event", ne)
				}
				for i := 0; i < 8; i++ {
					add("state", ns)
				}
				add("live", ns)
			}
			return bs
		},
		Run: run,
		MustObserve: []string{"msgs_round_tripped", "events_round_tripped", "states_round_tripped", "filled_empty_slices", "filled_nil_slices",
			"buffers_nonempty", "pipelines_occupied", "lrusets_built", "containers_built_by_constructor", "containers_initialised_through_UnmarshalJSON", "msg_types", "state_types", "event_types", "events_restored_after_partial_run",
			"live_states_round_tripped", "live_msgs_round_tripped", "live_cuts_with_requests_in_flight", "live_states_with_inflight_transactions"},
	})
}

func run(b kit.Batch, r *kit.R) {
	var p params
	b.P(&p)
	switch p.Kind {
	case "msg":
		runMsgs(b, r)
	case "event":
		runEvents(b, r)
	case "state":
		runStates(b, r)
	case "live":
		runLive(b, r)
	}
}

func newFiller(c *kit.Case, r *kit.R) *filler {
	return &filler{rng: c.Rng, count: r.Count, bufferOf: map[reflect.Type]reflect.Type{},
		fail: func(key, msg string) { c.Failf(key, "%s", msg) }}
}

func shortType(t reflect.Type) string {
	s := t.String()
	return strings.TrimPrefix(s, "*")
}

// report compares want/got and files one violation per distinct (path, class).
func report(c *kit.Case, kind string, t reflect.Type, want, got reflect.Value, extra map[string]any) bool {
	if want.Type() != got.Type() {
		c.Fail(fmt.Sprintf("roundtrip/%s/%s:type-changed", kind, shortType(t)), map[string]any{"want_type": want.Type().String(), "got_type": got.Type().String(), "extra": extra})
		return false
	}
	if reflect.DeepEqual(want.Interface(), got.Interface()) {
		return true
	}
	ds := allDiffs(want, got)
	if len(ds) == 0 {
		ds = []diffInfo{{Class: "unclassified"}}
	}
	seen := map[string]bool{}
	for _, d := range ds {
		key := fmt.Sprintf("roundtrip/%s/%s:%s:%s", kind, shortType(t), d.Path, d.Class)
		if seen[key] {
			continue
		}
		seen[key] = true
		c.Fail(key, map[string]any{"type": t.String(), "at": d.Path, "class": d.Class, "before": d.Want, "after": d.Got, "extra": extra})
	}
	return false
}

func isZero(v reflect.Value) bool {
	return reflect.DeepEqual(v.Interface(), reflect.Zero(v.Type()).Interface())
}

func clip(s string, n int) string {
	if len(s) > n {
		return s[:n] + "…"
	}
	return s
}

// ------------------------------------------------------------------ messages

type stubConn struct {
	hooking.HookableBase
	notified int
}

func (s *stubConn) Name() string                   { return "StubConn" }
func (s *stubConn) PlugIn(messaging.Port)          {}
func (s *stubConn) Unplug(messaging.Port)          {}
func (s *stubConn) NotifyAvailable(messaging.Port) { s.notified++ }
func (s *stubConn) NotifySend()                    { s.notified++ }

type stubComp struct {
	hooking.HookableBase
	notified int
}

func (s *stubComp) Name() string                           { return "StubComp" }
func (s *stubComp) DeclarePort(string, ...*messaging.Role) {}
func (s *stubComp) AssignPort(string, messaging.Port)      {}
func (s *stubComp) GetPortByName(string) messaging.Port    { return nil }
func (s *stubComp) Ports() []messaging.Port                { return nil }
func (s *stubComp) NotifyRecv(messaging.Port)              { s.notified++ }
func (s *stubComp) NotifyPortFree(messaging.Port)          { s.notified++ }

func newPort(name string, in, out int) messaging.Port {
	p := messaging.NewPort(&stubComp{}, in, out, name)
	p.SetConnection(&stubConn{})
	return p
}

var metaType = reflect.TypeOf(messaging.MsgMeta{})

// setMeta overwrites Src/Dst of the embedded (or carried) MsgMeta so that Port.Send accepts the message.
func setSrcDst(v reflect.Value, src, dst messaging.RemotePort) {
	f := v.FieldByName("MsgMeta")
	f.FieldByName("Src").SetString(string(src))
	f.FieldByName("Dst").SetString(string(dst))
}

func runMsgs(b kit.Batch, r *kit.R) {
	var zeros []messaging.Msg
	for _, p := range protocols {
		zeros = append(zeros, p.Messages()...)
	}
	r.ForEach(b.N, func(c *kit.Case) {
		g := newFiller(c, r)
		rng := c.Rng
		name := g.str()
		if name == "" || rng.Intn(2) == 0 {
			name = "Comp" + fmt.Sprint(rng.Intn(100)) + ".Top"
		}
		nIn, nOut := rng.Intn(13), rng.Intn(13)
		if nIn+nOut == 0 {
			nIn = 1
		}
		capIn, capOut := nIn+rng.Intn(3), nOut+rng.Intn(3)
		a := newPort(name, capIn, capOut)
		var wantIn, wantOut []messaging.Msg
		var typeNames []string
		mk := func(outgoing bool) messaging.Msg {
			zero := zeros[rng.Intn(len(zeros))]
			v := reflect.New(reflect.TypeOf(zero)).Elem()
			if rng.Intn(12) > 0 { // sometimes the zero message
				g.fill(v)
			}
			if outgoing { // Port.Send insists on Src == port name, Dst non-empty and different
				dst := messaging.RemotePort(g.str())
				if dst == "" || string(dst) == name {
					dst = "Other.Port"
				}
				setSrcDst(v, messaging.RemotePort(name), dst)
			}
			typeNames = append(typeNames, v.Type().String())
			r.Distinct("msg_types", v.Type().String())
			return v.Interface().(messaging.Msg)
		}
		for i := 0; i < nIn; i++ {
			m := mk(false)
			a.Deliver(m)
			wantIn = append(wantIn, m)
		}
		for i := 0; i < nOut; i++ {
			m := mk(true)
			a.Send(m)
			wantOut = append(wantOut, m)
		}
		// some traffic before the cut, so that the buffers are not freshly allocated
		for i := rng.Intn(3); i > 0 && len(wantIn) > 1; i-- {
			a.RetrieveIncoming()
			wantIn = wantIn[1:]
		}
		c.Desc(map[string]any{"path": "port", "port": name, "incoming": len(wantIn), "outgoing": len(wantOut), "cap": []int{capIn, capOut}, "types": typeNames})
		var buf bytes.Buffer
		if err := a.(checkpointable).SaveCheckpoint(&buf); err != nil {
			c.Fail("roundtrip/msg/save-error:"+kit.NormalizeMsg(err.Error()), map[string]any{"error": err.Error(), "types": typeNames})
			return
		}
		js := buf.String()
		bp := newPort(name, capIn, capOut)
		if err := bp.(checkpointable).LoadCheckpoint(&buf); err != nil {
			c.Fail("roundtrip/msg/load-error:"+kit.NormalizeMsg(err.Error()), map[string]any{"error": err.Error(), "checkpoint": clip(js, 1500)})
			return
		}
		check := func(dir string, want []messaging.Msg, n int, next func() messaging.Msg) {
			if n != len(want) {
				c.Failf("roundtrip/msg/count-changed", "%s buffer of port %q held %d messages before the checkpoint and %d after", dir, name, len(want), n)
			}
			for i := 0; i < len(want); i++ {
				got := next()
				if got == nil {
					c.Failf("roundtrip/msg/count-changed", "%s buffer ran dry at message %d of %d", dir, i, len(want))
					return
				}
				t := reflect.TypeOf(want[i])
				if report(c, "msg", t, reflect.ValueOf(want[i]), reflect.ValueOf(got), map[string]any{"buffer": dir, "index": i, "checkpoint": clip(js, 800)}) {
					r.Count("msgs_round_tripped", 1)
					r.Count("msgs_round_tripped_"+dir, 1)
				}
			}
		}
		check("incoming", wantIn, bp.NumIncoming(), bp.RetrieveIncoming)
		check("outgoing", wantOut, bp.NumOutgoing(), bp.RetrieveOutgoing)
		nz := false
		for _, m := range append(append([]messaging.Msg{}, wantIn...), wantOut...) {
			if !isZero(reflect.ValueOf(m)) {
				nz = true
			}
		}
		if nz {
			c.Nontrivial(fmt.Sprintf("msg/%v/%d", typeNames, c.Seed))
		}
		r.Max("max_msgs_in_one_port_checkpoint", int64(len(wantIn)+len(wantOut)))
		c.Sample(map[string]any{"path": "port checkpoint", "port": name, "types": typeNames, "checkpoint": clip(js, 700)})
	})
}

// -------------------------------------------------------------------- events

type capture struct{ got []timing.Event }

func (h *capture) Handle(e timing.Event) error {
	h.got = append(h.got, e)
	return nil
}

func eventID(e timing.Event) uint64 { return reflect.ValueOf(e).FieldByName("ID").Uint() }

func runEvents(b kit.Batch, r *kit.R) {
	evTypes := []reflect.Type{reflect.TypeOf(timing.EventBase{}), reflect.TypeOf(modeling.TickEvent{}), reflect.TypeOf(modeling.TimerFiredEvent{})}
	r.ForEach(b.N, func(c *kit.Case) {
		g := newFiller(c, r)
		rng := c.Rng
		handlers := []string{"H"}
		for i := rng.Intn(4); i > 0; i-- {
			handlers = append(handlers, g.str())
		}
		n := 1 + rng.Intn(40)
		partial := rng.Intn(3) == 0
		var cut timing.VTimeInPicoSec
		if partial {
			cut = timing.VTimeInPicoSec(g.u64(64) >> uint(rng.Intn(64)))
		}
		a := timing.NewSerialEngine()
		capA := &capture{}
		for _, h := range handlers {
			a.RegisterHandler(h, capA)
		}
		want := map[uint64]timing.Event{}
		var typeNames []string
		for i := 0; i < n; i++ {
			t := evTypes[rng.Intn(len(evTypes))]
			v := reflect.New(t).Elem()
			g.fill(v)
			base := v
			if t != evTypes[0] {
				base = v.FieldByName("EventBase")
			}
			base.FieldByName("HandlerID_").SetString(handlers[rng.Intn(len(handlers))])
			if rng.Intn(3) == 0 { // clustered times: same-instant events
				base.FieldByName("Time_").SetUint(uint64(cut) + uint64(rng.Intn(3)))
			}
			for {
				if _, dup := want[base.FieldByName("ID").Uint()]; !dup {
					break
				}
				base.FieldByName("ID").SetUint(g.rng.Uint64())
			}
			e := v.Interface().(timing.Event)
			want[eventID(e)] = e
			a.Schedule(e)
			typeNames = append(typeNames, t.String())
			r.Distinct("event_types", t.String())
		}
		c.Desc(map[string]any{"path": "engine", "events": n, "handlers": handlers, "partial_run_until": fmt.Sprint(cut), "partial": partial})
		if partial {
			a.RunUntil(cut)
		}
		var buf bytes.Buffer
		if err := a.SaveCheckpoint(&buf); err != nil {
			c.Fail("roundtrip/event/save-error:"+kit.NormalizeMsg(err.Error()), map[string]any{"error": err.Error()})
			return
		}
		js := buf.String()
		bEng := timing.NewSerialEngine()
		capB := &capture{}
		for _, h := range handlers {
			bEng.RegisterHandler(h, capB)
		}
		if err := bEng.LoadCheckpoint(&buf); err != nil {
			c.Fail("roundtrip/event/load-error:"+kit.NormalizeMsg(err.Error()), map[string]any{"error": err.Error(), "checkpoint": clip(js, 1500)})
			return
		}
		bEng.Run()
		if partial && len(capA.got) > 0 && len(capB.got) > 0 {
			r.Count("events_restored_after_partial_run", int64(len(capB.got)))
		}
		seen := map[uint64]bool{}
		for _, e := range capA.got { // handled before the cut: never serialised
			seen[eventID(e)] = true
		}
		for _, e := range capB.got {
			id := eventID(e)
			w, ok := want[id]
			if !ok {
				c.Failf("roundtrip/event/unknown-event", "the restored engine dispatched an event (%T id %d) that was never scheduled", e, id)
				continue
			}
			if seen[id] {
				c.Failf("roundtrip/event/duplicated", "event id %d was dispatched twice across the checkpoint", id)
				continue
			}
			seen[id] = true
			if report(c, "event", reflect.TypeOf(w), reflect.ValueOf(w), reflect.ValueOf(e), map[string]any{"checkpoint": clip(js, 800)}) {
				r.Count("events_round_tripped", 1)
				if w.IsSecondary() {
					r.Count("events_round_tripped_secondary", 1)
				}
			}
		}
		if len(seen) != len(want) {
			c.Failf("roundtrip/event/lost", "%d events scheduled, %d dispatched across the checkpoint", len(want), len(seen))
		}
		c.Nontrivial(fmt.Sprintf("event/%v/%d", typeNames, c.Seed))
		c.Sample(map[string]any{"path": "engine checkpoint", "events": n, "handled_before_cut": len(capA.got), "checkpoint": clip(js, 700)})
	})
}

// -------------------------------------------------------------------- states

type nopProcessor[S, T, R any] struct{}

func (nopProcessor[S, T, R]) Process(*modeling.EventDrivenComponent[S, T, R], timing.VTimeInPicoSec) bool {
	return false
}

// stateCase pushes a State value of type T through the component checkpoint. S is the
// component's real Spec type; Resources are not part of a checkpoint.
func stateCase[S, T any](c *kit.Case, r *kit.R) {
	g := newFiller(c, r)
	var zero T
	t := reflect.TypeOf(zero)
	g.registerBuffers(t, map[reflect.Type]bool{})
	eventDriven := c.Rng.Intn(5) == 0
	c.Desc(map[string]any{"path": "component", "state": t.String(), "event_driven_component": eventDriven})
	r.Distinct("state_types", t.String())
	var spec S
	var want T
	if c.Rng.Intn(15) > 0 {
		g.fill(reflect.ValueOf(&want).Elem())
	}
	var save, load checkpointable
	var back func() T
	if eventDriven {
		mk := func() *modeling.EventDrivenComponent[S, T, modeling.None] {
			return modeling.NewEventDrivenBuilder[S, T, modeling.None]().WithEngine(timing.NewSerialEngine()).WithSpec(spec).
				WithProcessor(nopProcessor[S, T, modeling.None]{}).Build("Comp")
		}
		a, bb := mk(), mk()
		a.State = want
		save, load, back = a, bb, func() T { return bb.State }
	} else {
		mk := func() *modeling.Component[S, T, modeling.None] {
			return modeling.NewBuilder[S, T, modeling.None]().WithEngine(timing.NewSerialEngine()).WithFreq(1000000000).WithSpec(spec).Build("Comp")
		}
		a, bb := mk(), mk()
		a.State = want
		save, load, back = a, bb, func() T { return bb.State }
	}
	// In a third of the cases the receiving component is not pristine: it already holds another
	// (generated) state, as in a roll-back inside one process. The loaded state must still equal the saved one.
	if c.Rng.Intn(3) == 0 {
		var other T
		g.fill(reflect.ValueOf(&other).Elem())
		switch x := load.(type) {
		case *modeling.Component[S, T, modeling.None]:
			x.State = other
		case *modeling.EventDrivenComponent[S, T, modeling.None]:
			x.State = other
		}
		r.Count("states_loaded_into_a_used_component", 1)
	}
	var buf bytes.Buffer
	if err := save.SaveCheckpoint(&buf); err != nil {
		c.Fail(fmt.Sprintf("roundtrip/state/%s:save-error:%s", t, kit.NormalizeMsg(err.Error())), map[string]any{"error": err.Error()})
		return
	}
	js := buf.String()
	if err := load.LoadCheckpoint(&buf); err != nil {
		c.Fail(fmt.Sprintf("roundtrip/state/%s:load-error:%s", t, kit.NormalizeMsg(err.Error())), map[string]any{"error": err.Error(), "checkpoint": clip(js, 1500)})
		return
	}
	got := back()
	if report(c, "state", t, reflect.ValueOf(&want).Elem(), reflect.ValueOf(&got).Elem(), map[string]any{"checkpoint": clip(js, 600)}) {
		r.Count("states_round_tripped", 1)
	}
	r.Count("states_checked", 1)
	r.Max("max_state_checkpoint_bytes", int64(len(js)))
	if !isZero(reflect.ValueOf(want)) {
		c.Nontrivial(fmt.Sprintf("state/%s/%d", t, c.Seed))
	}
	if c.Index%16 == 0 {
		c.Sample(map[string]any{"path": "component checkpoint", "state": t.String(), "checkpoint": clip(js, 700)})
	}
}

func runStates(b kit.Batch, r *kit.R) {
	runners := map[string]func(*kit.Case, *kit.R){
		"writeback":          stateCase[writeback.Spec, writeback.State],
		"writethroughcache":  stateCase[writethroughcache.Spec, writethroughcache.State],
		"datamover":          stateCase[datamover.Spec, datamover.State],
		"dram":               stateCase[dram.Spec, dram.State],
		"idealmemcontroller": stateCase[idealmemcontroller.Spec, idealmemcontroller.State],
		"rob":                stateCase[rob.Spec, rob.State],
		"simplebankedmemory": stateCase[simplebankedmemory.Spec, simplebankedmemory.State],
		"addresstranslator":  stateCase[addresstranslator.Spec, addresstranslator.State],
		"gmmu":               stateCase[gmmu.Spec, gmmu.State],
		"mmu":                stateCase[mmu.Spec, mmu.State],
		"mmuCache":           stateCase[mmuCache.Spec, mmuCache.State],
		"tlb":                stateCase[tlb.Spec, tlb.State],
		"directconnection":   stateCase[directconnection.Spec, directconnection.State],
		"endpoint":           stateCase[endpoint.Spec, endpoint.State],
		"switches":           stateCase[switches.Spec, switches.State],
	}
	var names []string
	for n := range runners {
		names = append(names, n)
	}
	sort.Strings(names)
	r.ForEach(b.N, func(c *kit.Case) {
		runners[names[c.Index%len(names)]](c, r)
	})
}
