// C11 Ports are bounded FIFO channels with accurate capacity and notifications.
//
// Model-based monitor: random histories of Send / Deliver / RetrieveIncoming /
// RetrieveOutgoing / Peek* / Can* / Num* on real messaging ports (one to three
// ports sharing a stub owner and a stub connection) are replayed against two
// bounded FIFOs per port. Every return value and every observer is compared
// after every operation, and the edge notifications the statement requires
// are checked per operation.
package main

import (
	"fmt"
	"reflect"
	"strings"

	"verifharness/kit"

	"github.com/sarchlab/akita/v5/hooking"
	"github.com/sarchlab/akita/v5/messaging"
)

type payloadMsg struct {
	messaging.MsgMeta
	Seq     int
	Payload []byte
}

// note is one notification received by a stub.
type note struct {
	kind string // recv | portfree | available | send
	port messaging.Port
	// size of the relevant buffer as visible from inside the callback, -1
	// when it cannot be read there (callback runs under the port lock).
	visible int
}

type stubComp struct {
	hooking.HookableBase
	*messaging.PortOwnerBase
	notes *[]note
}

func (s *stubComp) Name() string { return "Owner" }
func (s *stubComp) NotifyRecv(p messaging.Port) {
	// Deliver notifies after releasing the port lock, so the port is readable.
	*s.notes = append(*s.notes, note{kind: "recv", port: p, visible: p.NumIncoming()})
}
func (s *stubComp) NotifyPortFree(p messaging.Port) {
	*s.notes = append(*s.notes, note{kind: "portfree", port: p, visible: -1})
}

type stubConn struct {
	hooking.HookableBase
	notes *[]note
	ports []messaging.Port
}

func (s *stubConn) Name() string             { return "Conn" }
func (s *stubConn) PlugIn(messaging.Port)    {}
func (s *stubConn) Unplug(messaging.Port)    {}
func (s *stubConn) NotifyAvailable(p messaging.Port) {
	*s.notes = append(*s.notes, note{kind: "available", port: p, visible: -1})
}
func (s *stubConn) NotifySend() {
	// Send notifies after releasing the port lock. The sender is not named,
	// so report the total number of outgoing messages over all ports.
	n := 0
	for _, p := range s.ports {
		n += p.NumOutgoing()
	}
	*s.notes = append(*s.notes, note{kind: "send", visible: n})
}

type hookCounter struct{ n map[string]int }

func (h *hookCounter) Func(ctx hooking.HookCtx) { h.n[ctx.Pos.Name]++ }

type model struct {
	inCap, outCap int
	in, out       []payloadMsg
}

func main() {
	kit.Main(kit.Prop{
		ID:    "C11",
		Level: "exploration",
		Rule: "a case is a history of 60-400 port operations on 1-3 ports (incoming/outgoing capacities drawn independently from 1-6, sometimes 0 or 16) " +
			"with a phase-biased operation mix (fill, drain, mixed, ping-pong at the full/empty edge); every result is compared with two bounded FIFO models per port " +
			"and the four required edge notifications are checked per operation; non-trivial when the history reached full and empty on both buffers of a port " +
			"and exercised all four edge notifications; distinct by the hash of the operation string",
		Assumptions: []string{
			"single-goroutine histories (the statement quantifies over histories, not interleavings)",
			"the port owner and the connection are stubs that only record notifications",
			"extra notifications beyond the required edges are recorded, not failed",
		},
		Plan: func(tier string, seed int64) []kit.Batch {
			nb, n := 16, 600
			if tier == "thorough" {
				nb, n = 32, 12000
			}
			var bs []kit.Batch
			for i := 0; i < nb; i++ {
				bs = append(bs, kit.Batch{Name: fmt.Sprintf("hist%d", i), Seed: seed*1000 + int64(i), N: n})
			}
			// ports are shared between the connection's and the owner's goroutine under the parallel engine
			for i, g := range []string{"2", "4", "16"} {
				bs = append(bs, kit.Batch{Name: "concurrent" + g, Seed: seed*1000 + 500 + int64(i), N: n / 15, Env: []string{"GOMAXPROCS=" + g}})
			}
			return bs
		},
		Run: run,
		MustObserve: []string{"edge_recv_on_empty", "edge_portfree_on_full", "edge_available_on_full", "edge_send_on_empty",
			"refused_send_when_full", "refused_deliver_when_full", "incoming_full_reached", "outgoing_full_reached", "concurrent_histories_with_several_wakeups"},
	})
}

func pickCap(c *kit.Case) int {
	switch c.Rng.Intn(12) {
	case 0:
		return 16
	case 1:
		if c.Rng.Intn(3) == 0 {
			return 0
		}
		return 1
	default:
		return 1 + c.Rng.Intn(6)
	}
}

// callRefused runs f and reports whether it panicked.
func callRefused(f func()) (refused bool, msg string) {
	defer func() {
		if e := recover(); e != nil {
			refused, msg = true, fmt.Sprint(e)
		}
	}()
	f()
	return false, ""
}

func run(b kit.Batch, r *kit.R) {
	if strings.HasPrefix(b.Name, "concurrent") {
		runConcurrent(b, r)
		return
	}
	r.ForEach(b.N, func(c *kit.Case) {
		rng := c.Rng
		var notes []note
		owner := &stubComp{PortOwnerBase: messaging.NewPortOwnerBase(), notes: &notes}
		conn := &stubConn{notes: &notes}
		nPorts := 1 + rng.Intn(3)
		ports := make([]messaging.Port, nPorts)
		models := make([]*model, nPorts)
		hooks := &hookCounter{n: map[string]int{}}
		var caps []string
		for i := range ports {
			m := &model{inCap: pickCap(c), outCap: pickCap(c)}
			models[i] = m
			ports[i] = messaging.NewPort(owner, m.inCap, m.outCap, fmt.Sprintf("Owner.P%d", i))
			ports[i].SetConnection(conn)
			ports[i].AcceptHook(hooks)
			caps = append(caps, fmt.Sprintf("%d/%d", m.inCap, m.outCap))
		}
		conn.ports = ports
		nOps := 60 + rng.Intn(341)
		c.Desc(map[string]any{"ports_in/out_caps": caps, "ops": nOps})

		var hist strings.Builder
		seq := 0
		failed := false
		fail := func(key, format string, a ...any) {
			if failed {
				return
			}
			failed = true
			h := hist.String()
			if len(h) > 600 {
				h = "…" + h[len(h)-600:]
			}
			c.Fail(key, map[string]any{"msg": fmt.Sprintf(format, a...), "caps_in/out": caps, "history_tail": h})
		}
		mk := func(pi int) payloadMsg {
			seq++
			pl := make([]byte, rng.Intn(5))
			rng.Read(pl)
			return payloadMsg{
				MsgMeta: messaging.MsgMeta{ID: uint64(seq), Src: ports[pi].AsRemote(), Dst: "Elsewhere.Port",
					TrafficBytes: rng.Intn(100), TrafficClass: "c"},
				Seq: seq, Payload: pl,
			}
		}
		// inbound messages come from elsewhere and are addressed to the port
		mkIn := func(pi int) payloadMsg {
			m := mk(pi)
			m.Src, m.Dst = "Elsewhere.Port", ports[pi].AsRemote()
			return m
		}
		same := func(got messaging.Msg, want payloadMsg) bool {
			g, ok := got.(payloadMsg)
			return ok && reflect.DeepEqual(g, want)
		}
		// per-case coverage
		var inFull, inEmptyAgain, outFull, outEmptyAgain bool
		edges := map[string]bool{}
		countNotes := func(kind string, p messaging.Port) (n int, vis int) {
			vis = -1
			for _, nt := range notes {
				if nt.kind == kind && (nt.port == p || kind == "send") {
					n++
					vis = nt.visible
				}
			}
			return
		}
		observeAll := func(pi int) {
			p, m := ports[pi], models[pi]
			if g := p.NumIncoming(); g != len(m.in) {
				fail("size/NumIncoming", "P%d NumIncoming=%d, model %d", pi, g, len(m.in))
			}
			if g := p.NumOutgoing(); g != len(m.out) {
				fail("size/NumOutgoing", "P%d NumOutgoing=%d, model %d", pi, g, len(m.out))
			}
			if len(m.in) > m.inCap || p.NumIncoming() > m.inCap {
				fail("bound/incoming", "P%d incoming holds %d > capacity %d", pi, p.NumIncoming(), m.inCap)
			}
			if len(m.out) > m.outCap || p.NumOutgoing() > m.outCap {
				fail("bound/outgoing", "P%d outgoing holds %d > capacity %d", pi, p.NumOutgoing(), m.outCap)
			}
			if g, w := p.CanDeliver(), len(m.in) < m.inCap; g != w {
				fail("can/CanDeliver", "P%d CanDeliver=%v with %d/%d", pi, g, len(m.in), m.inCap)
			}
			if g, w := p.CanSend(), len(m.out) < m.outCap; g != w {
				fail("can/CanSend", "P%d CanSend=%v with %d/%d", pi, g, len(m.out), m.outCap)
			}
			if g := p.PeekIncoming(); (len(m.in) == 0) != (g == nil) || (g != nil && !same(g, m.in[0])) {
				fail("fifo/PeekIncoming", "P%d PeekIncoming=%+v, model head %+v (len %d)", pi, g, head(m.in), len(m.in))
			}
			if g := p.PeekOutgoing(); (len(m.out) == 0) != (g == nil) || (g != nil && !same(g, m.out[0])) {
				fail("fifo/PeekOutgoing", "P%d PeekOutgoing=%+v, model head %+v (len %d)", pi, g, head(m.out), len(m.out))
			}
		}

		phase, phaseLeft := 0, 0
		for op := 0; op < nOps && !failed; op++ {
			if phaseLeft == 0 {
				phase, phaseLeft = rng.Intn(5), 5+rng.Intn(40)
			}
			phaseLeft--
			pi := rng.Intn(nPorts)
			p, m := ports[pi], models[pi]
			// operation kind: 0 send 1 deliver 2 retrIn 3 retrOut
			var k int
			switch phase {
			case 0: // fill
				k = []int{0, 0, 0, 1, 1, 1, 2, 3}[rng.Intn(8)]
			case 1: // drain
				k = []int{2, 2, 2, 3, 3, 3, 0, 1}[rng.Intn(8)]
			case 2: // incoming ping-pong
				k = []int{1, 2, 1, 2, 0, 3}[rng.Intn(6)]
			case 3: // outgoing ping-pong
				k = []int{0, 3, 0, 3, 1, 2}[rng.Intn(6)]
			default:
				k = rng.Intn(4)
			}
			notes = notes[:0]
			switch k {
			case 0:
				msg := mk(pi)
				wasEmpty, full := len(m.out) == 0, len(m.out) >= m.outCap
				fmt.Fprintf(&hist, "S%d ", pi)
				refused, pmsg := callRefused(func() { p.Send(msg) })
				if full {
					r.Count("refused_send_when_full", 1)
					if !refused {
						fail("refuse/Send-on-full", "P%d Send accepted with outgoing %d/%d", pi, len(m.out), m.outCap)
					}
				} else {
					if refused {
						fail("refuse/Send-spurious", "P%d Send refused (%s) with outgoing %d/%d", pi, pmsg, len(m.out), m.outCap)
						break
					}
					m.out = append(m.out, msg)
					n, vis := countNotes("send", p)
					if wasEmpty {
						r.Count("edge_send_on_empty", 1)
						edges["send"] = true
						if n == 0 {
							fail("notify/conn-NotifySend-missing", "P%d Send into an empty outgoing buffer did not notify the connection", pi)
						} else if vis < 1 {
							fail("notify/conn-NotifySend-before-push", "P%d connection notified of a send while no outgoing message was visible", pi)
						}
					} else if n > 0 {
						r.Count("extra_notify_send", int64(n))
					}
				}
			case 1:
				msg := mkIn(pi)
				wasEmpty, full := len(m.in) == 0, len(m.in) >= m.inCap
				fmt.Fprintf(&hist, "D%d ", pi)
				refused, pmsg := callRefused(func() { p.Deliver(msg) })
				if full {
					r.Count("refused_deliver_when_full", 1)
					if !refused {
						fail("refuse/Deliver-on-full", "P%d Deliver accepted with incoming %d/%d", pi, len(m.in), m.inCap)
					}
				} else {
					if refused {
						fail("refuse/Deliver-spurious", "P%d Deliver refused (%s) with incoming %d/%d", pi, pmsg, len(m.in), m.inCap)
						break
					}
					m.in = append(m.in, msg)
					n, vis := countNotes("recv", p)
					if wasEmpty {
						r.Count("edge_recv_on_empty", 1)
						edges["recv"] = true
						if n == 0 {
							fail("notify/owner-NotifyRecv-missing", "P%d Deliver into an empty incoming buffer did not notify the owner", pi)
						} else if vis < 1 {
							fail("notify/owner-NotifyRecv-before-push", "P%d owner notified of a receive while the incoming buffer was still empty", pi)
						}
					} else if n > 0 {
						r.Count("extra_notify_recv", int64(n))
					}
				}
			case 2:
				wasFull := len(m.in) >= m.inCap && m.inCap > 0
				fmt.Fprintf(&hist, "i%d ", pi)
				got := p.RetrieveIncoming()
				if len(m.in) == 0 {
					r.Count("retrieve_on_empty", 1)
					if got != nil {
						fail("fifo/RetrieveIncoming-on-empty", "P%d RetrieveIncoming on empty returned %+v", pi, got)
					}
				} else {
					want := m.in[0]
					m.in = m.in[1:]
					if !same(got, want) {
						fail("fifo/RetrieveIncoming", "P%d RetrieveIncoming=%+v, model head %+v", pi, got, want)
					}
					n, _ := countNotes("available", p)
					if wasFull {
						r.Count("edge_available_on_full", 1)
						edges["available"] = true
						if n == 0 {
							fail("notify/conn-NotifyAvailable-missing", "P%d RetrieveIncoming from a full incoming buffer (cap %d) did not notify the connection", pi, m.inCap)
						}
					} else if n > 0 {
						r.Count("extra_notify_available", int64(n))
					}
				}
			case 3:
				wasFull := len(m.out) >= m.outCap && m.outCap > 0
				fmt.Fprintf(&hist, "o%d ", pi)
				got := p.RetrieveOutgoing()
				if len(m.out) == 0 {
					r.Count("retrieve_on_empty", 1)
					if got != nil {
						fail("fifo/RetrieveOutgoing-on-empty", "P%d RetrieveOutgoing on empty returned %+v", pi, got)
					}
				} else {
					want := m.out[0]
					m.out = m.out[1:]
					if !same(got, want) {
						fail("fifo/RetrieveOutgoing", "P%d RetrieveOutgoing=%+v, model head %+v", pi, got, want)
					}
					n, _ := countNotes("portfree", p)
					if wasFull {
						r.Count("edge_portfree_on_full", 1)
						edges["portfree"] = true
						if n == 0 {
							fail("notify/owner-NotifyPortFree-missing", "P%d RetrieveOutgoing from a full outgoing buffer (cap %d) did not notify the owner", pi, m.outCap)
						}
					} else if n > 0 {
						r.Count("extra_notify_portfree", int64(n))
					}
				}
			}
			// a notification for another port of the same owner is never required; record it
			for _, nt := range notes {
				if nt.port != nil && nt.port != p {
					fail("notify/wrong-port", "operation on P%d produced a %s notification naming %s", pi, nt.kind, nt.port.Name())
				}
			}
			r.Count("operations", 1)
			for i := range ports { // all ports: an operation must not disturb its neighbours
				observeAll(i)
			}
			if len(m.in) >= m.inCap && m.inCap > 0 {
				if !inFull {
					r.Count("incoming_full_reached", 1)
				}
				inFull = true
			}
			if inFull && len(m.in) == 0 {
				inEmptyAgain = true
			}
			if len(m.out) >= m.outCap && m.outCap > 0 {
				if !outFull {
					r.Count("outgoing_full_reached", 1)
				}
				outFull = true
			}
			if outFull && len(m.out) == 0 {
				outEmptyAgain = true
			}
			r.Max("max_incoming_size", int64(len(m.in)))
			r.Max("max_outgoing_size", int64(len(m.out)))
		}
		// drain: contents must equal the model, in order
		for pi, p := range ports {
			m := models[pi]
			for _, want := range m.in {
				if got := p.RetrieveIncoming(); !same(got, want) {
					fail("fifo/final-drain-incoming", "P%d drain got %+v want %+v", pi, got, want)
				}
			}
			for _, want := range m.out {
				if got := p.RetrieveOutgoing(); !same(got, want) {
					fail("fifo/final-drain-outgoing", "P%d drain got %+v want %+v", pi, got, want)
				}
			}
			if p.RetrieveIncoming() != nil || p.RetrieveOutgoing() != nil || p.NumIncoming() != 0 || p.NumOutgoing() != 0 {
				fail("size/final-not-empty", "P%d holds more than the model after draining", pi)
			}
		}
		for name, n := range hooks.n {
			r.Count("port_hook/"+name, int64(n))
		}
		if inFull && inEmptyAgain && outFull && outEmptyAgain && len(edges) == 4 {
			c.Nontrivial(hist.String())
		}
		h := hist.String()
		if len(h) > 240 {
			h = h[:240] + "…"
		}
		c.Sample(map[string]any{"caps_in/out": caps, "ops": nOps,
			"history(S=Send D=Deliver i=RetrieveIncoming o=RetrieveOutgoing, digit=port)": h})
	})
}

func head(q []payloadMsg) any {
	if len(q) == 0 {
		return nil
	}
	return q[0]
}
