package main

import (
	"fmt"
	"runtime"
	"sync"
	"sync/atomic"

	"verifharness/kit"

	"github.com/sarchlab/akita/v5/hooking"
	"github.com/sarchlab/akita/v5/messaging"
)

// Concurrent half: ports are used from two goroutines by the parallel engine (the connection delivers, the
// owner retrieves). One deliverer and one owner goroutine share a port; the owner sleeps until NotifyRecv and
// then drains. A notification lost on the empty->non-empty edge leaves the owner asleep with a message in the
// buffer; the deliverer recognises that state logically (owner waiting, no token pending, no delivery in
// progress, buffer non-empty) — no clock is involved.

type cMsg struct {
	messaging.MsgMeta
	Seq int
}

type cOwner struct {
	hooking.HookableBase
	*messaging.PortOwnerBase
	ch chan struct{}
	n  atomic.Int64
}

func (o *cOwner) Name() string { return "COwner" }
func (o *cOwner) NotifyRecv(messaging.Port) {
	o.n.Add(1)
	select {
	case o.ch <- struct{}{}:
	default:
	}
}
func (o *cOwner) NotifyPortFree(messaging.Port) {}

type cConn struct {
	hooking.HookableBase
	avail atomic.Int64
}

func (c *cConn) Name() string                     { return "CConn" }
func (c *cConn) PlugIn(messaging.Port)            {}
func (c *cConn) Unplug(messaging.Port)            {}
func (c *cConn) NotifyAvailable(messaging.Port)   { c.avail.Add(1) }
func (c *cConn) NotifySend()                      {}

type yieldHook struct{ k int }

func (h yieldHook) Func(hooking.HookCtx) {
	for i := 0; i < h.k; i++ {
		runtime.Gosched()
	}
}

func runConcurrent(b kit.Batch, r *kit.R) {
	r.ForEach(b.N, func(c *kit.Case) {
		rng := c.Rng
		capIn := 1 + rng.Intn(4)
		total := 300 + rng.Intn(1200)
		yields := rng.Intn(3)
		c.Desc(map[string]any{"family": "concurrent deliver/retrieve", "incoming_capacity": capIn, "messages": total, "hook_yields": yields})
		owner := &cOwner{PortOwnerBase: messaging.NewPortOwnerBase(), ch: make(chan struct{}, 1)}
		port := messaging.NewPort(owner, capIn, 1, "COwner.P")
		port.SetConnection(&cConn{})
		if yields > 0 {
			port.AcceptHook(yieldHook{k: yields}) // a legitimate hook: it never touches the port
		}
		// pending: notifications issued (by the deliverer, inside Deliver). The owner snapshots it BEFORE a drain
		// (seen) and publishes the snapshot AFTER the drain found the buffer empty (drainedSeen).
		var drainedSeen atomic.Int64
		var consumed atomic.Int64
		var got []int
		stop := make(chan struct{})
		var stopped atomic.Bool
		var wg sync.WaitGroup
		wg.Add(1)
		go func() {
			defer wg.Done()
			seen := int64(0)
			for !stopped.Load() {
				p := owner.n.Load()
				if p == seen {
					runtime.Gosched() // asleep: nothing new was announced
					continue
				}
				seen = p
				for {
					m := port.RetrieveIncoming()
					if m == nil {
						break
					}
					got = append(got, m.(cMsg).Seq)
					consumed.Add(1)
				}
				drainedSeen.Store(seen)
			}
		}()
		lost := false
		sent := 0
		for sent < total || consumed.Load() < int64(total) {
			if sent < total && port.CanDeliver() {
				m := cMsg{Seq: sent}
				m.ID, m.Src, m.Dst = uint64(sent+1), "X.Out", "COwner.P"
				port.Deliver(m)
				sent++
				continue
			}
			// Not inside Deliver, so no notification is in flight and owner.n cannot change during this test. If the
			// owner finished a drain that began after the last notification and the buffer is non-empty, then some
			// message entered an empty buffer without a notification: the owner sleeps forever.
			if owner.n.Load() == drainedSeen.Load() && port.NumIncoming() > 0 {
				lost = true
				break
			}
			runtime.Gosched()
		}
		stopped.Store(true)
		close(stop)
		wg.Wait()
		r.Count("concurrent_messages_delivered", int64(sent))
		r.Count("concurrent_notifications", owner.n.Load())
		if lost {
			c.Fail("port/concurrent/lost-notify-recv", map[string]any{"incoming_capacity": capIn, "delivered": sent, "consumed": consumed.Load(),
				"left_in_buffer": port.NumIncoming(), "notifications": owner.n.Load(),
				"what": "owner asleep waiting for NotifyRecv, no notification pending, no delivery in progress, incoming buffer non-empty"})
			return
		}
		for i, s := range got {
			if s != i {
				c.Fail("port/concurrent/order", map[string]any{"position": i, "got": s})
				break
			}
		}
		if owner.n.Load() > 1 {
			c.Nontrivial(fmt.Sprintf("conc/%d", c.Seed))
			r.Count("concurrent_histories_with_several_wakeups", 1)
		}
	})
}
