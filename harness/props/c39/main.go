// C39 Source tools only serve the recorded source, within bounds.
//
// Three kinds of batches:
//   - tools: code_ls / code_read / code_search (hook H5) and the /api/code/ls and
//     /api/code/read handlers over recorded trees held in a MapFS, opened from a
//     real `source` table (OpenTraceSource), on disk behind os.DirFS, and on disk
//     behind a deliberately unvalidating fs.FS, the latter two with canary files
//     outside the root. Every reply is compared with the harness's own model of
//     the tree (exact lines / entries / matches), and must not contain canary bytes.
//   - arch: WriteArchive determinism (within and across processes), ReadArchive∘
//     WriteArchive identity, hostile archives (archive/tar-built, then damaged) and
//     hostile `source` rows through OpenTraceSource.
//   - big: archives around and far above the documented 8 MiB / 96 MiB limits,
//     with the child's peak RSS (VmHWM) held to a bound derived from the limits.
package main

import (
	"fmt"
	"os"

	"verifharness/kit"
)

type params struct {
	Kind string `json:"kind"`
	Reqs int    `json:"reqs,omitempty"`
}

func main() {
	if os.Getenv("C39_WORKER") == "archhash" {
		archiveWorker()
		return
	}
	kit.Main(kit.Prop{
		ID:    "C39",
		Level: "exploration",
		Rule: "tools: a case is one generated source tree (MapFS / real source table / os.DirFS / unvalidating on-disk FS with canaries outside the root) plus 40+ requests " +
			"(recorded, decorated, unknown, ../-escaping, absolute, encoded, NUL, very long paths; line windows; regexes and filters); non-trivial when at least one escaping or absolute path was requested; " +
			"arch: a case is one file set or one hostile archive/source table; non-trivial when the archive was well-formed enough to be compared entry by entry; big: one archive around/above the limits",
		Assumptions: []string{
			"symlinks inside an on-disk root are not planted (os.DirFS documents that it follows them)",
			"a traversal name inside an archive that normalises to a valid path under another recorded root is not judged (only fs.ValidPath keys and recorded bytes are demanded)",
			"for damaged (truncated/bit-flipped) archives only absence of panic and the size limits are judged",
		},
		Plan: func(tier string, seed int64) []kit.Batch {
			nTools, nSrc, reqs, nArch, archN, nBig, bigN := 8, 12, 40, 3, 90, 1, 8
			if tier == "thorough" {
				nTools, nSrc, reqs, nArch, archN, nBig, bigN = 32, 150, 45, 16, 400, 2, 11
			}
			var bs []kit.Batch
			for i := 0; i < nBig; i++ {
				bs = append(bs, kit.Batch{Name: fmt.Sprintf("big%d", i), Seed: seed*1000 + 900 + int64(i), N: bigN, Params: kit.MkParams(params{Kind: "big"})})
			}
			for i := 0; i < nTools; i++ {
				bs = append(bs, kit.Batch{Name: fmt.Sprintf("tools%d", i), Seed: seed*1000 + int64(i), N: nSrc, Params: kit.MkParams(params{Kind: "tools", Reqs: reqs})})
			}
			for i := 0; i < nArch; i++ {
				bs = append(bs, kit.Batch{Name: fmt.Sprintf("arch%d", i), Seed: seed*1000 + 500 + int64(i), N: archN, Params: kit.MkParams(params{Kind: "arch"})})
			}
			return bs
		},
		Run: func(b kit.Batch, r *kit.R) {
			var p params
			b.P(&p)
			switch p.Kind {
			case "tools":
				runTools(b, r, p.Reqs)
			case "arch":
				runArchives(b, r)
			case "big":
				runBig(b, r)
			}
		},
		MustObserve: []string{
			"plain_recorded_paths_served", "escaping_paths_refused", "escaping_paths_against_on_disk_root_with_canaries",
			"escaping_paths_against_unvalidating_fs", "search_with_matches", "search_replies_truncated_by_cap", "ls_replies_truncated_by_cap",
			"http_read_too_large_413", "roundtrips", "archives_compared_across_processes", "archives_rejected", "non_regular_entries_skipped",
			"recorded_entries_with_invalid_names_dropped", "oversized_archives_rejected", "sources_trace",
		},
	})
}
