package main

import (
	"archive/tar"
	"bufio"
	"bytes"
	"compress/gzip"
	"crypto/sha256"
	"encoding/base64"
	"encoding/hex"
	"fmt"
	"io/fs"
	"math/rand"
	"os"
	"os/exec"
	"path"
	"runtime"
	"sort"
	"strconv"
	"strings"

	"verifharness/kit"

	"github.com/sarchlab/akita/v5/sourcefs"
)

const (
	maxFile  = 8 << 20  // documented per-file limit of ReadArchive
	maxTotal = 96 << 20 // documented total limit
)

func sum(b []byte) string {
	h := sha256.Sum256(b)
	return hex.EncodeToString(h[:12])
}

// genValidFiles: a path set WriteArchive is specified for (fs.ValidPath keys).
func genValidFiles(rng *rand.Rand) map[string][]byte {
	m := genModel(rng, 1+rng.Intn(80))
	files := map[string][]byte{}
	for k, v := range m.files {
		files[k] = v
	}
	switch rng.Intn(6) {
	case 0: // binary and larger contents
		for i := 0; i < 3; i++ {
			b := make([]byte, rng.Intn(300000))
			rng.Read(b)
			files[fmt.Sprintf("bin/blob%d.go", i)] = b
		}
	case 1: // names that need PAX records
		files[strings.Repeat("d/", 60)+strings.Repeat("n", 120)+".go"] = []byte("long\n")
		files["unicode/名前/файл.go"] = []byte("u\n")
	}
	return files
}

func writeArchive(files map[string][]byte) []byte {
	var buf bytes.Buffer
	if err := sourcefs.WriteArchive(&buf, files); err != nil {
		panic(fmt.Sprintf("WriteArchive: %v", err))
	}
	return buf.Bytes()
}

// archiveWorker (separate process): for each seed on stdin print the hash of
// WriteArchive(genValidFiles(seed)).
func archiveWorker() {
	sc := bufio.NewScanner(os.Stdin)
	for sc.Scan() {
		seed, err := strconv.ParseInt(strings.TrimSpace(sc.Text()), 10, 64)
		if err != nil {
			continue
		}
		fmt.Println(sum(writeArchive(genValidFiles(rand.New(rand.NewSource(seed))))))
	}
}

// ------------------------------------------------------------------ hostile archives

type entry struct {
	Name string
	Type byte
	Data []byte
	Link string
}

func hostileName(rng *rand.Rand) string {
	return pick(rng, []string{
		"../escape.go", "../../etc/passwd", "a/../../escape.go", "/abs/path.go", "/etc/passwd", "..", ".", "./", "a//b.go", "a/./b.go", "dir/",
		"a/../b.go", "..\\win.go", "nul\x00byte.go", strings.Repeat("../", 40) + "x.go", "ok/../../../x", "//double", "a/b/../../../c.go", "\xff\xfe.go", " ", "a/..",
	})
}

func genEntries(rng *rand.Rand) []entry {
	var es []entry
	n := 1 + rng.Intn(25)
	for i := 0; i < n; i++ {
		e := entry{Type: tar.TypeReg}
		switch x := rng.Intn(20); {
		case x < 8:
			e.Name = fmt.Sprintf("%s/f%d.go", dirNames[rng.Intn(len(dirNames))], rng.Intn(30))
		case x < 13:
			e.Name = hostileName(rng)
		case x < 15 && len(es) > 0: // duplicate name
			e.Name = es[rng.Intn(len(es))].Name
		default:
			e.Name = fmt.Sprintf("g%d.go", rng.Intn(10))
		}
		e.Data = genContent(rng)
		switch rng.Intn(14) {
		case 0:
			e.Type, e.Link, e.Data = tar.TypeSymlink, pick(rng, []string{"/etc/passwd", "../../secret", "g1.go"}), nil
		case 1:
			e.Type, e.Link, e.Data = tar.TypeLink, pick(rng, []string{"/etc/passwd", "g1.go"}), nil
		case 2:
			e.Type, e.Data = tar.TypeDir, nil
			e.Name = strings.TrimSuffix(e.Name, "/") + "/"
		case 3:
			e.Type, e.Data = pick2(rng, []byte{tar.TypeChar, tar.TypeBlock, tar.TypeFifo}), nil
		}
		es = append(es, e)
	}
	return es
}

func pick2(rng *rand.Rand, xs []byte) byte { return xs[rng.Intn(len(xs))] }

// buildTar writes entries with archive/tar; entries the writer refuses (e.g. a
// NUL in the name) are dropped and reported back so the expectation matches.
func buildTar(es []entry) ([]byte, []entry) {
	var buf bytes.Buffer
	tw := tar.NewWriter(&buf)
	var kept []entry
	for _, e := range es {
		h := &tar.Header{Name: e.Name, Typeflag: e.Type, Mode: 0o644, Size: int64(len(e.Data)), Linkname: e.Link}
		if e.Type != tar.TypeReg {
			h.Size = 0
		}
		if err := tw.WriteHeader(h); err != nil {
			// a failed WriteHeader poisons the writer: start over without this entry
			rest := make([]entry, 0, len(es))
			for _, x := range es {
				if x.Name != e.Name {
					rest = append(rest, x)
				}
			}
			return buildTar(rest)
		}
		if e.Type == tar.TypeReg {
			if _, err := tw.Write(e.Data); err != nil {
				panic(err)
			}
		}
		kept = append(kept, e)
	}
	tw.Close()
	return buf.Bytes(), kept
}

func gz(b []byte) []byte {
	var buf bytes.Buffer
	w := gzip.NewWriter(&buf)
	w.Write(b)
	w.Close()
	return buf.Bytes()
}

// expectation of ReadArchive on a clean archive: regular entries, last wins.
func expectFiles(es []entry) map[string][]byte {
	out := map[string][]byte{}
	for _, e := range es {
		if e.Type == tar.TypeReg {
			out[e.Name] = e.Data
		}
	}
	return out
}

func sameFiles(a, b map[string][]byte) string {
	for k, v := range a {
		w, ok := b[k]
		if !ok {
			return fmt.Sprintf("entry %q missing", k)
		}
		if !bytes.Equal(v, w) {
			return fmt.Sprintf("entry %q differs (%d vs %d bytes)", k, len(v), len(w))
		}
	}
	for k := range b {
		if _, ok := a[k]; !ok {
			return fmt.Sprintf("unexpected entry %q", k)
		}
	}
	return ""
}

func withinLimits(files map[string][]byte) string {
	total := 0
	for k, v := range files {
		if len(v) > maxFile {
			return fmt.Sprintf("entry %q has %d bytes (> %d)", k, len(v), maxFile)
		}
		total += len(v)
	}
	if total > maxTotal {
		return fmt.Sprintf("total %d bytes (> %d)", total, maxTotal)
	}
	return ""
}

func runArchives(b kit.Batch, r *kit.R) {
	var wsSeeds []int64
	var wsHashes []string
	r.ForEach(b.N, func(c *kit.Case) {
		rng := c.Rng
		switch x := rng.Intn(10); {
		case x < 3: // (a) determinism and round trip
			files := genValidFiles(rand.New(rand.NewSource(c.Seed)))
			c.Desc(map[string]any{"kind": "write/read round trip", "files": len(files)})
			a1 := writeArchive(files)
			// same content, map rebuilt in another insertion order
			keys := make([]string, 0, len(files))
			for k := range files {
				keys = append(keys, k)
			}
			rng.Shuffle(len(keys), func(i, j int) { keys[i], keys[j] = keys[j], keys[i] })
			again := map[string][]byte{}
			for _, k := range keys {
				again[k] = append([]byte(nil), files[k]...)
			}
			a2 := writeArchive(again)
			if !bytes.Equal(a1, a2) {
				c.Failf("c39/archive-not-deterministic", "two WriteArchive calls on the same %d files gave %s and %s", len(files), sum(a1), sum(a2))
			}
			wsSeeds = append(wsSeeds, c.Seed)
			wsHashes = append(wsHashes, sum(a1))
			back, err := sourcefs.ReadArchive(a1)
			if err != nil {
				c.Failf("c39/roundtrip-read-failed", "ReadArchive(WriteArchive(%d files)): %v", len(files), err)
			} else if d := sameFiles(files, back); d != "" {
				c.Failf("c39/roundtrip-not-identity", "ReadArchive(WriteArchive(files)): %s", d)
			}
			r.Count("roundtrips", 1)
			r.Max("max_files_in_roundtrip", int64(len(files)))
			c.Nontrivial("rt/" + sum(a1))
			c.Sample(map[string]any{"kind": "roundtrip", "files": len(files), "archive_bytes": len(a1), "archive_sha": sum(a1)})
		case x < 7: // (b) hostile archive into ReadArchive
			es := genEntries(rng)
			raw, kept := buildTar(es)
			damage := "clean"
			arch := gz(raw)
			switch rng.Intn(9) {
			case 0:
				damage, arch = "truncated", arch[:rng.Intn(len(arch)+1)]
			case 1:
				damage = "bytes flipped"
				arch = append([]byte(nil), arch...)
				for k := 1 + rng.Intn(4); k > 0 && len(arch) > 0; k-- {
					arch[rng.Intn(len(arch))] ^= byte(1 + rng.Intn(255))
				}
			case 2:
				damage, arch = "tar truncated before gzip", gz(raw[:rng.Intn(len(raw)+1)])
			case 3:
				damage, arch = "not gzip", raw
			case 4:
				damage, arch = "trailing garbage", append(arch, []byte("garbage after the stream")...)
			case 5:
				damage, arch = "empty input", nil
			}
			c.Desc(map[string]any{"kind": "hostile archive", "entries": len(kept), "damage": damage})
			files, err := sourcefs.ReadArchive(arch)
			r.Count("hostile_archives_read", 1)
			r.Count("damage_"+strings.ReplaceAll(damage, " ", "_"), 1)
			if err != nil {
				r.Count("archives_rejected", 1)
				if damage == "clean" {
					c.Failf("c39/clean-archive-rejected", "ReadArchive of a well-formed tar.gz with %d entries: %v", len(kept), err)
				}
				return
			}
			if d := withinLimits(files); d != "" {
				c.Failf("c39/archive-limit-exceeded", "%s", d)
			}
			exp := expectFiles(kept)
			if damage == "clean" || damage == "trailing garbage" {
				if d := sameFiles(exp, files); d != "" {
					c.Failf("c39/archive-content-wrong", "ReadArchive(%s archive): %s", damage, d)
				}
				for _, e := range kept {
					if e.Type != tar.TypeReg {
						r.Count("non_regular_entries_skipped", 1)
					}
				}
				c.Nontrivial("h/" + sum(arch))
			}
		default: // (b') hostile rows through OpenTraceSource
			runTraceSourceCase(c, r)
		}
	})
	// across processes: the same inputs archived by another process
	if len(wsSeeds) > 0 {
		self, _ := os.Executable()
		cmd := exec.Command(self)
		cmd.Env = append(os.Environ(), "C39_WORKER=archhash")
		var in bytes.Buffer
		for _, s := range wsSeeds {
			fmt.Fprintln(&in, s)
		}
		cmd.Stdin = &in
		out, err := cmd.Output()
		if err != nil {
			panic(fmt.Sprintf("harness: archive worker: %v", err))
		}
		got := strings.Fields(string(out))
		if len(got) != len(wsHashes) {
			panic(fmt.Sprintf("harness: archive worker returned %d hashes for %d inputs", len(got), len(wsHashes)))
		}
		r.ForEach(1, func(c *kit.Case) {
			for i := range got {
				r.Count("archives_compared_across_processes", 1)
				if got[i] != wsHashes[i] {
					c.Failf("c39/archive-not-deterministic", "input seed %d archived as %s here and %s in another process", wsSeeds[i], wsHashes[i], got[i])
				}
			}
		})
	}
}

// runTraceSourceCase stores hostile roots/archives in a source table and opens
// it with OpenTraceSource.
func runTraceSourceCase(c *kit.Case, r *kit.R) {
	rng := c.Rng
	db := memDB()
	defer db.Close()
	cols := pick(rng, []string{"Root TEXT, Format TEXT, Content TEXT", "Root, Format, Content", "Content TEXT, Root TEXT"})
	if _, err := db.Exec("CREATE TABLE source (" + cols + ")"); err != nil {
		panic(err)
	}
	type cand struct{ key string; data []byte }
	var cands []cand
	clean := true
	nrows := 1 + rng.Intn(3)
	var rootsUsed []string
	for i := 0; i < nrows; i++ {
		root := pick(rng, []string{"example.com/m", "github.com/sarchlab/akita/v5", "m", "", ".", "..", "/abs", "a/../..", "../up", "m/", "a b", "./m"})
		es := genEntries(rng)
		raw, kept := buildTar(es)
		content := base64.StdEncoding.EncodeToString(gz(raw))
		switch rng.Intn(12) {
		case 0:
			content, clean = "!!!not base64!!!", false
		case 1:
			content, clean = base64.StdEncoding.EncodeToString(gz(raw)[:10]), false
		case 2:
			content, clean = "", false
		}
		if _, err := db.Exec("INSERT INTO source (Root, Content) VALUES (?,?)", root, content); err != nil {
			panic(err)
		}
		rootsUsed = append(rootsUsed, root)
		for _, e := range kept {
			if e.Type == tar.TypeReg {
				cands = append(cands, cand{path.Join(root, e.Name), e.Data})
			}
		}
	}
	c.Desc(map[string]any{"kind": "hostile source rows", "roots": rootsUsed, "clean": clean})
	src, err := sourcefs.OpenTraceSource(db)
	r.Count("trace_sources_opened", 1)
	if err != nil {
		r.Count("trace_sources_rejected", 1)
		if clean {
			c.Failf("c39/clean-source-table-rejected", "OpenTraceSource with roots %q: %v", rootsUsed, err)
		}
		return
	}
	if !clean {
		return // a damaged row was tolerated; nothing promised about what is exposed beyond the checks of clean rows
	}
	if src.FS() == nil {
		if len(cands) > 0 {
			c.Failf("c39/source-content-wrong", "no file tree although %d regular entries were recorded", len(cands))
		}
		return
	}
	walked := 0
	werr := fs.WalkDir(src.FS(), ".", func(p string, d fs.DirEntry, err error) error {
		if err != nil {
			return err
		}
		if !fs.ValidPath(p) {
			c.Failf("c39/invalid-path-exposed", "walk yields %q (roots %q)", p, rootsUsed)
		}
		if d.IsDir() {
			return nil
		}
		walked++
		data, rerr := fs.ReadFile(src.FS(), p)
		if rerr != nil {
			c.Failf("c39/source-content-wrong", "cannot read exposed file %q: %v", p, rerr)
			return nil
		}
		okc := false
		for _, cd := range cands {
			if cd.key == p && bytes.Equal(cd.data, data) {
				okc = true
				break
			}
		}
		if !okc {
			c.Failf("c39/source-content-wrong", "exposed file %q (%d bytes) is not a recorded entry under that name (roots %q)", p, len(data), rootsUsed)
		}
		return nil
	})
	if werr != nil {
		c.Failf("c39/source-walk-failed", "walking the opened source: %v (roots %q)", werr, rootsUsed)
	}
	// every recorded entry with a valid, unshadowed name must be there
	valid := map[string]bool{}
	for _, cd := range cands {
		if fs.ValidPath(cd.key) {
			valid[cd.key] = true
		} else {
			r.Count("recorded_entries_with_invalid_names_dropped", 1)
		}
	}
	keys := make([]string, 0, len(valid))
	for k := range valid {
		keys = append(keys, k)
	}
	sort.Strings(keys)
	shadow := valid["."]
	for _, k := range keys {
		for q := k; strings.Contains(q, "/"); {
			q = q[:strings.LastIndexByte(q, '/')]
			if valid[q] {
				shadow = true // a file that is also a directory prefix: not judged
			}
		}
	}
	if !shadow && walked != len(keys) {
		c.Failf("c39/source-content-wrong", "%d files exposed, %d recorded entries have valid names (roots %q): %q", walked, len(keys), rootsUsed, keys)
	}
	if !shadow && src.Files != len(keys) {
		c.Failf("c39/source-file-count-wrong", "Files=%d, %d recorded entries have valid names", src.Files, len(keys))
	}
	c.Nontrivial(fmt.Sprintf("ts/%d/%v", c.Seed, rootsUsed))
}

// ------------------------------------------------------------------ oversized archives

// zeroTarGz streams a tar.gz with n regular entries of size bytes each (zeros)
// without holding the payload in memory.
func zeroTarGz(sizes []int64) []byte {
	var buf bytes.Buffer
	zw := gzip.NewWriter(&buf)
	tw := tar.NewWriter(zw)
	chunk := make([]byte, 1<<20)
	for i, sz := range sizes {
		if err := tw.WriteHeader(&tar.Header{Name: fmt.Sprintf("big/f%03d.go", i), Typeflag: tar.TypeReg, Mode: 0o644, Size: sz}); err != nil {
			panic(err)
		}
		for left := sz; left > 0; {
			n := int64(len(chunk))
			if left < n {
				n = left
			}
			tw.Write(chunk[:n])
			left -= n
		}
	}
	tw.Close()
	zw.Close()
	return buf.Bytes()
}

func vmHWM() int64 {
	d, err := os.ReadFile("/proc/self/status")
	if err != nil {
		return -1
	}
	for _, l := range strings.Split(string(d), "\n") {
		if strings.HasPrefix(l, "VmHWM:") {
			f := strings.Fields(l)
			if len(f) >= 2 {
				kb, _ := strconv.ParseInt(f[1], 10, 64)
				return kb << 10
			}
		}
	}
	return -1
}

// rssBound: the documented limits allow 96 MiB of results plus one 8 MiB entry
// in flight; a collector running at GOGC=100 may let the heap reach twice the
// live size, and the runtime, binary and harness need some tens of MiB.
const rssBound = 2*(maxTotal+2*maxFile) + (96 << 20)

func runBig(b kit.Batch, r *kit.R) {
	type bigCase struct {
		name    string
		sizes   []int64
		mustErr bool
	}
	rep := func(n int, sz int64) []int64 {
		s := make([]int64, n)
		for i := range s {
			s[i] = sz
		}
		return s
	}
	cases := []bigCase{
		{"one entry of 8 MiB (at the limit)", []int64{maxFile}, false},
		{"one entry of 8 MiB + 1", []int64{maxFile + 1}, true},
		{"one entry of 64 MiB", []int64{64 << 20}, true},
		{"gzip bomb: one entry of 512 MiB", []int64{512 << 20}, true},
		{"12 entries of 8 MiB (total at the limit)", rep(12, maxFile), false},
		{"13 entries of 8 MiB (total above the limit)", rep(13, maxFile), true},
		{"200 entries of 1 MiB (total above the limit)", rep(200, 1<<20), true},
		{"small entry then 8 MiB + 1", []int64{10, maxFile + 1}, true},
	}
	if r.Tier == "thorough" {
		cases = append(cases, bigCase{"gzip bomb: 40 entries of 100 MiB", rep(40, 100<<20), true},
			bigCase{"97 entries of 1 MiB", rep(97, 1<<20), true}, bigCase{"96 entries of 1 MiB", rep(96, 1<<20), false})
	}
	r.ForEach(b.N, func(c *kit.Case) {
		bc := cases[c.Index%len(cases)]
		c.Desc(map[string]any{"kind": "oversized archive", "archive": bc.name})
		arch := zeroTarGz(bc.sizes)
		files, err := sourcefs.ReadArchive(arch)
		r.Count("oversized_archives_read", 1)
		r.Max("max_compressed_archive_bytes", int64(len(arch)))
		if err != nil {
			r.Count("oversized_archives_rejected", 1)
			if !bc.mustErr {
				c.Failf("c39/archive-at-limit-rejected", "%s: %v", bc.name, err)
			}
		} else {
			if d := withinLimits(files); d != "" {
				c.Failf("c39/archive-limit-exceeded", "%s accepted: %s", bc.name, d)
			} else if bc.mustErr {
				c.Failf("c39/archive-limit-exceeded", "%s accepted with %d entries", bc.name, len(files))
			}
			total := 0
			for _, v := range files {
				total += len(v)
			}
			r.Max("max_accepted_total_bytes", int64(total))
		}
		files = nil
		runtime.GC()
		hwm := vmHWM()
		r.Max("peak_rss_bytes", hwm)
		if hwm > rssBound {
			c.Failf("c39/archive-memory-bound-exceeded", "peak RSS %d MiB after %s (bound %d MiB from the documented 8 MiB/96 MiB limits)", hwm>>20, bc.name, int64(rssBound)>>20)
		}
		c.Nontrivial("big/" + bc.name)
		c.Sample(map[string]any{"archive": bc.name, "compressed_bytes": len(arch), "error": fmt.Sprint(err), "peak_rss_mib": hwm >> 20})
	})
}
