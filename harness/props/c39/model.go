package main

import (
	"bytes"
	"fmt"
	"math/rand"
	"sort"
	"strings"
)

// model is the harness's own picture of a recorded source tree.
type model struct {
	files map[string][]byte // slash path -> content
	roots []string
}

func (m *model) isDir(p string) bool {
	if p == "." {
		return true
	}
	pre := p + "/"
	for k := range m.files {
		if strings.HasPrefix(k, pre) {
			return true
		}
	}
	return false
}

// children returns the sorted immediate sub-directories and files of dir.
func (m *model) children(dir string) (dirs, files []string) {
	pre := dir + "/"
	if dir == "." {
		pre = ""
	}
	ds := map[string]bool{}
	for k := range m.files {
		if !strings.HasPrefix(k, pre) {
			continue
		}
		rest := k[len(pre):]
		if i := strings.IndexByte(rest, '/'); i >= 0 {
			ds[rest[:i]] = true
		} else {
			files = append(files, rest)
		}
	}
	for d := range ds {
		dirs = append(dirs, d)
	}
	sort.Strings(dirs)
	sort.Strings(files)
	return
}

func (m *model) sortedPaths() []string {
	ps := make([]string, 0, len(m.files))
	for k := range m.files {
		ps = append(ps, k)
	}
	sort.Strings(ps)
	return ps
}

// resolve is an independent lexical resolution of a request path against the
// root of the recorded tree: ok=false when the path is empty, absolute, or steps
// above the root at any point after normalisation.
func resolve(req string) (string, bool) {
	if req == "" || strings.HasPrefix(req, "/") {
		return "", false
	}
	var st []string
	for _, seg := range strings.Split(req, "/") {
		switch seg {
		case "", ".":
		case "..":
			if len(st) == 0 {
				return "", false
			}
			st = st[:len(st)-1]
		default:
			st = append(st, seg)
		}
	}
	if len(st) == 0 {
		return ".", true
	}
	return strings.Join(st, "/"), true
}

// splitLines: lines of a file; a trailing newline does not add a line.
func splitLines(data []byte) []string {
	if len(data) == 0 {
		return nil
	}
	ls := strings.Split(string(data), "\n")
	if ls[len(ls)-1] == "" {
		ls = ls[:len(ls)-1]
	}
	return ls
}

func countLines(data []byte) int { return len(splitLines(data)) }

func humanBytes(n int) string {
	switch {
	case n >= 1<<20:
		return fmt.Sprintf("%.1f MB", float64(n)/(1<<20))
	case n >= 1<<10:
		return fmt.Sprintf("%.1f KB", float64(n)/(1<<10))
	default:
		return fmt.Sprintf("%d B", n)
	}
}

// ------------------------------------------------------------------ generators

var (
	dirNames  = []string{"mem", "mem/cache", "mem/cache/writeback", "core", "core/cu", "noc", "a b", "ünï", "x.y", "sim", "deep/er/and/deeper"}
	fileNames = []string{"cache.go", "go.mod", "README", "dram.go", "builder.go", "z.go", "a.go", "comp state.go", "réq.go", "doc.txt"}
	words     = []string{"func", "ReadReq", "WriteReq", "Kind", "milestone", "type", "struct", "return", "tick()", "*mem.ReadReq", "// TODO", "package", "mem", "if err != nil {", "}", "\t", "  ", "héllo", "a,b", "x:y: z"}
)

func genContent(rng *rand.Rand) []byte {
	var b bytes.Buffer
	switch rng.Intn(12) {
	case 0:
		return []byte{}
	case 1:
		return []byte("\n")
	case 2: // many lines
		n := 300 + rng.Intn(1500)
		for i := 0; i < n; i++ {
			fmt.Fprintf(&b, "line %d %s\n", i, words[rng.Intn(len(words))])
		}
		return b.Bytes()
	case 3: // long lines
		for i := 0; i < 3+rng.Intn(10); i++ {
			b.WriteString(strings.Repeat(words[rng.Intn(len(words))]+" ", 50+rng.Intn(3000)))
			b.WriteByte('\n')
		}
		return b.Bytes()
	case 4: // CRLF
		for i := 0; i < 1+rng.Intn(20); i++ {
			fmt.Fprintf(&b, "%s %s\r\n", words[rng.Intn(len(words))], words[rng.Intn(len(words))])
		}
		return b.Bytes()
	}
	n := 1 + rng.Intn(60)
	for i := 0; i < n; i++ {
		for j := rng.Intn(6); j >= 0; j-- {
			b.WriteString(words[rng.Intn(len(words))])
			b.WriteByte(' ')
		}
		if i < n-1 || rng.Intn(3) > 0 {
			b.WriteByte('\n')
		}
	}
	return b.Bytes()
}

// genModel draws a tree of nFiles files under 1-2 roots. Paths never contain
// ':' or newlines (the search reply is line and colon delimited).
func genModel(rng *rand.Rand, nFiles int) *model {
	roots := [][]string{{"github.com/sarchlab/akita/v5"}, {"example.com/sim", "github.com/sarchlab/akita/v5"}, {"m"}, {"example.com/a b/ü"}}[rng.Intn(4)]
	m := &model{files: map[string][]byte{}, roots: append([]string(nil), roots...)}
	for i := 0; i < nFiles; i++ {
		p := roots[rng.Intn(len(roots))]
		if rng.Intn(4) > 0 {
			p += "/" + dirNames[rng.Intn(len(dirNames))]
		}
		name := fileNames[rng.Intn(len(fileNames))]
		if rng.Intn(3) == 0 {
			name = fmt.Sprintf("f%d_%s", rng.Intn(400), name)
		}
		p += "/" + name
		// a path must not be both a file and a directory
		if m.isDir(p) {
			continue
		}
		conflict := false
		for q := p; strings.Contains(q, "/"); {
			q = q[:strings.LastIndexByte(q, '/')]
			if _, ok := m.files[q]; ok {
				conflict = true
			}
		}
		if conflict {
			continue
		}
		m.files[p] = genContent(rng)
	}
	if len(m.files) == 0 {
		m.files[roots[0]+"/go.mod"] = []byte("module m\n")
	}
	sort.Strings(m.roots)
	return m
}
