package main

import (
	"bytes"
	"database/sql"
	"encoding/base64"
	"encoding/json"
	"fmt"
	"io/fs"
	"math/rand"
	"net/http/httptest"
	"net/url"
	"os"
	"path/filepath"
	"regexp"
	"strconv"
	"strings"
	"testing/fstest"
	"unicode/utf8"

	"verifharness/kit"

	"github.com/sarchlab/akita/v5/daisen2/verifshim"
	"github.com/sarchlab/akita/v5/sourcefs"
)

const canary = "C39-CANARY-7f3a91-DO-NOT-SERVE"

// naiveFS is an on-disk fs.FS that does NOT validate names (the kind of
// "future on-disk override" sourcefs.Source.FS mentions, written carelessly).
// Behind it only the tools' own path checks keep a request inside the root.
type naiveFS struct{ root string }

func (n naiveFS) Open(name string) (fs.File, error) {
	return os.Open(filepath.Join(n.root, filepath.FromSlash(name)))
}

type builtSource struct {
	kind   string
	src    *sourcefs.Source
	m      *model
	onDisk bool
	absCan string // absolute path of a canary file (on-disk kinds)
}

func writeTree(dir string, m *model) {
	for k, v := range m.files {
		p := filepath.Join(dir, filepath.FromSlash(k))
		if err := os.MkdirAll(filepath.Dir(p), 0o755); err != nil {
			panic(err)
		}
		if err := os.WriteFile(p, v, 0o644); err != nil {
			panic(err)
		}
	}
}

func memDB() *sql.DB {
	db, err := sql.Open("sqlite3", ":memory:")
	if err != nil {
		panic(err)
	}
	db.SetMaxOpenConns(1)
	return db
}

// sourceViaTrace stores the model the way the simulation records it (one
// gzip+tar+base64 row per root) and opens it with the real OpenTraceSource.
func sourceViaTrace(m *model) (*sourcefs.Source, error) {
	db := memDB()
	defer db.Close()
	if _, err := db.Exec("CREATE TABLE source (Root TEXT, Format TEXT, Content TEXT)"); err != nil {
		panic(err)
	}
	for _, root := range m.roots {
		files := map[string][]byte{}
		for k, v := range m.files {
			if strings.HasPrefix(k, root+"/") {
				files[k[len(root)+1:]] = v
			}
		}
		var buf bytes.Buffer
		if err := sourcefs.WriteArchive(&buf, files); err != nil {
			return nil, err
		}
		if _, err := db.Exec("INSERT INTO source VALUES (?,?,?)", root, "tar.gz;base64", base64.StdEncoding.EncodeToString(buf.Bytes())); err != nil {
			panic(err)
		}
	}
	return sourcefs.OpenTraceSource(db)
}

func buildSource(rng *rand.Rand, workDir string, idx int) builtSource {
	kind := []string{"mapfs", "trace", "dirfs", "naivefs", "mapfs", "trace"}[rng.Intn(6)]
	n := 5 + rng.Intn(60)
	if rng.Intn(8) == 0 {
		n = 350 + rng.Intn(200) // directories above the listing cap
	}
	if kind == "dirfs" || kind == "naivefs" {
		n = 5 + rng.Intn(40)
	}
	m := genModel(rng, n)
	if rng.Intn(5) == 0 { // one directory above the listing caps (300 entries / 16 KiB)
		d := m.roots[0] + "/" + dirNames[rng.Intn(len(dirNames))] + "/wide"
		for i := 320 + rng.Intn(200); i > 0; i-- {
			m.files[fmt.Sprintf("%s/file_with_a_rather_long_name_%04d_%s", d, i, fileNames[rng.Intn(len(fileNames))])] = []byte("package wide\n")
		}
		for i := rng.Intn(30); i > 0; i-- {
			m.files[fmt.Sprintf("%s/sub%02d/x.go", d, i)] = []byte("package sub\n")
		}
	}
	if rng.Intn(6) == 0 { // one file above the HTTP read limit (4 MiB)
		big := bytes.Repeat([]byte("0123456789abcdef0123456789abcde\n"), (4<<20)/32+1+rng.Intn(3))
		m.files[m.roots[0]+"/big_generated.go"] = big
	}
	bs := builtSource{kind: kind, m: m}
	var err error
	switch kind {
	case "mapfs":
		mfs := fstest.MapFS{}
		for k, v := range m.files {
			mfs[k] = &fstest.MapFile{Data: v}
		}
		bs.src, err = sourcefs.NewSource(mfs, m.roots)
	case "trace":
		bs.src, err = sourceViaTrace(m)
	default:
		base := filepath.Join(workDir, fmt.Sprintf("src%d", idx))
		root := filepath.Join(base, "root")
		os.RemoveAll(base)
		writeTree(root, m)
		os.MkdirAll(filepath.Join(base, "outside"), 0o755)
		bs.absCan = filepath.Join(base, "CANARY.txt")
		for _, p := range []string{bs.absCan, filepath.Join(base, "outside", "secret.go"), filepath.Join(base, "root.go")} {
			if err := os.WriteFile(p, []byte("package secret\n// "+canary+"\nvar Key = \"ReadReq Kind func\"\n"), 0o644); err != nil {
				panic(err)
			}
		}
		bs.onDisk = true
		if kind == "dirfs" {
			bs.src, err = sourcefs.NewSource(os.DirFS(root), m.roots)
		} else {
			bs.src, err = sourcefs.NewSource(naiveFS{root}, m.roots)
		}
	}
	if err != nil {
		panic(fmt.Sprintf("harness: building %s source: %v", kind, err))
	}
	return bs
}

// ------------------------------------------------------------------ requests

func pick(rng *rand.Rand, xs []string) string { return xs[rng.Intn(len(xs))] }

// genPath returns a request path and whether it is a plain existing file/dir key.
func genPath(rng *rand.Rand, bs builtSource, wantDir bool) (req string, plain bool) {
	m := bs.m
	paths := m.sortedPaths()
	p := pick(rng, paths)
	if _, ok := m.files[m.roots[0]+"/big_generated.go"]; ok && rng.Intn(8) == 0 {
		p = m.roots[0] + "/big_generated.go"
	}
	if rng.Intn(6) == 0 { // favour the widest directory
		best, bestN := p, 0
		cnt := map[string]int{}
		for _, q := range paths {
			d := q[:strings.LastIndexByte(q, '/')]
			cnt[d]++
			if cnt[d] > bestN {
				best, bestN = q, cnt[d]
			}
		}
		p = best
	}
	dir := "."
	if i := strings.LastIndexByte(p, '/'); i >= 0 {
		dir = p[:i]
	}
	if wantDir || rng.Intn(5) == 0 {
		p = dir
		for rng.Intn(3) == 0 && strings.Contains(p, "/") {
			p = p[:strings.LastIndexByte(p, '/')]
		}
	}
	depth := strings.Count(p, "/") + 1
	ups := func(k int) string { return strings.Repeat("../", k) }
	can := "CANARY.txt"
	switch x := rng.Intn(100); {
	case x < 30:
		return p, true
	case x < 38: // harmless decoration that still denotes p
		return pick(rng, []string{"./" + p, p + "/", " " + p + " ", strings.Replace(p, "/", "//", 1), strings.Replace(p, "/", "/./", 1),
			strings.SplitN(p, "/", 2)[0] + "/../" + p, "\t" + p + "\n"}), false
	case x < 46: // not recorded
		return pick(rng, []string{p + ".orig", p + "x", "nosuch/" + p, strings.ToUpper(p), p + "/nosuch.go", "go.mod", "etc/passwd"}), false
	case x < 70: // relative escapes
		return pick(rng, []string{
			ups(1) + can, ups(2) + can, ups(1) + "outside/secret.go", ups(1) + "root.go", "..", "../", "../.", "./../" + can, " ../" + can,
			p + strings.Repeat("/..", depth+1) + "/" + can, p + strings.Repeat("/..", depth+1), p + "/" + ups(depth+1) + "outside/secret.go",
			ups(depth+3) + can, "a/" + ups(2) + can, "./" + ups(1) + "root/" + p, ups(1) + "root/" + p,
			"....//" + can, ".../" + can, "..\\" + can, "%2e%2e/" + can, "%2e%2e%2f" + can, "..%2f" + can, "\x00../" + can, "../" + can + "\x00.go",
			p + "/../../../../../../../../../../etc/passwd", ups(12) + "etc/passwd", ups(12) + "proc/self/environ",
		}), false
	case x < 84: // absolute
		abs := bs.absCan
		if abs == "" {
			abs = "/etc/passwd"
		}
		return pick(rng, []string{abs, "/" + abs, "//" + abs, "/etc/passwd", "/", "/" + p, "file://" + abs, "/proc/self/environ", " " + abs, "./" + abs, "C:\\Windows\\win.ini"}), false
	case x < 90:
		return pick(rng, []string{"", ".", "./", " ", "\t", "/.", "./."}), false
	default: // long / odd bytes
		return pick(rng, []string{strings.Repeat("a/", 3000) + "x", strings.Repeat("../", 3000) + can, p + strings.Repeat("/.", 2000), "\xff\xfe" + p, p + "\r\n", strings.Repeat("é", 5000)}), false
	}
}

func genRegex(rng *rand.Rand) string {
	switch x := rng.Intn(20); {
	case x < 8:
		return regexp.QuoteMeta(strings.TrimSpace(words[rng.Intn(len(words))]))
	case x < 10:
		return pick(rng, []string{".", "^", "$", ".*", "(?s).*", "^$", "\\S"})
	case x < 12:
		return pick(rng, []string{"CANARY", canary, "secret", "package secret", "Key ="})
	case x < 14:
		return pick(rng, []string{"(", "[a-", "(?P<n", "\\", "*", "a{2,1}", "(?<!x)y"})
	case x < 15:
		return pick(rng, []string{"", " ", "\t\n"})
	case x < 17:
		return pick(rng, []string{"line \\d+", "^line 1\\d\\d ", "(?i)readreq", "Read|Write", "\\bfunc\\b", "[[:upper:]]{2}", "é", "\\t"})
	default:
		return pick(rng, []string{"(a|aa|aaa)*b", "(.*)*x", strings.Repeat("a?", 200) + strings.Repeat("a", 200), "^.{5000,}$", "\\x00"})
	}
}

// ------------------------------------------------------------------ oracles

type verdict struct{ key, msg string }

func bad(key, f string, a ...any) *verdict { return &verdict{key, fmt.Sprintf(f, a...)} }

var (
	reReadHdr = regexp.MustCompile(`^(?s)(.*) \(lines (\d+)-(\d+) of (\d+)\):$`)
	rePastEnd = regexp.MustCompile(`^(?s)(.*) has (\d+) lines; start_line (-?\d+) is past the end\.$`)
	reLsHdr   = regexp.MustCompile(`^(?s)(.*) — (\d+) dir\(s\), (\d+) file\(s\):$`)
	reMatches = regexp.MustCompile(`^(\d+) match\(es\):$`)
)

const noSource = "No simulator source is recorded in this trace"

func firstLine(s string) (string, string) {
	if i := strings.IndexByte(s, '\n'); i >= 0 {
		return s[:i], s[i+1:]
	}
	return s, ""
}

func checkRead(bs builtSource, req string, plain bool, start, end int, out string, err error) *verdict {
	m := bs.m
	if strings.Contains(out, canary) || (err != nil && strings.Contains(err.Error(), canary)) {
		return bad("c39/canary-served-by-read", "code_read(%q) returned bytes of a file outside the recorded root", req)
	}
	want, ok := resolve(strings.TrimSpace(req))
	content, recorded := m.files[want]
	recorded = recorded && ok
	if err != nil || strings.HasPrefix(out, "File not found: ") {
		if plain && recorded {
			return bad("c39/recorded-file-not-served", "code_read(%q) of a recorded file answered %q / %v", req, clip(out, 120), err)
		}
		return nil
	}
	if strings.HasPrefix(out, noSource) {
		return bad("c39/non-empty-source-reported-empty", "code_read(%q) says no source is recorded", req)
	}
	servedOther := func(p string) *verdict {
		return bad("c39/read-served-other-path", "code_read(%q) answered for %q; the request denotes %q (ok=%v recorded=%v)", req, p, want, ok, recorded)
	}
	if p, found := strings.CutSuffix(out, " is empty (0 lines)."); found {
		if !recorded || p != want || len(content) != 0 {
			return servedOther(p)
		}
		return nil
	}
	lines := splitLines(content)
	if mm := rePastEnd.FindStringSubmatch(out); mm != nil {
		n, _ := strconv.Atoi(mm[2])
		if !recorded || mm[1] != want {
			return servedOther(mm[1])
		}
		if n != len(lines) || start <= len(lines) {
			return bad("c39/read-content-mismatch", "code_read(%q,%d,%d): %q but the recorded file has %d lines", req, start, end, out, len(lines))
		}
		return nil
	}
	hdr, rest := firstLine(out)
	mm := reReadHdr.FindStringSubmatch(hdr)
	if mm == nil {
		return bad("c39/read-unrecognised-reply", "code_read(%q): %q", req, clip(out, 200))
	}
	if !recorded || mm[1] != want {
		return servedOther(mm[1])
	}
	from, _ := strconv.Atoi(mm[2])
	to, _ := strconv.Atoi(mm[3])
	total, _ := strconv.Atoi(mm[4])
	if total != len(lines) || from < 1 || to > total || from > to || to-from+1 > verifshim.CodeReadMaxLines ||
		(start > 0 && from != start) || (end > 0 && end >= from && to > end) || (start <= 0 && end <= 0 && to > verifshim.CodeReadDefaultLines) {
		return bad("c39/read-window-wrong", "code_read(%q,%d,%d): window %d-%d of %d, recorded file has %d lines", req, start, end, from, to, total, len(lines))
	}
	width := len(strconv.Itoa(to))
	i := from
	used := len(hdr) + 1
	for ; i <= to; i++ {
		row := fmt.Sprintf("%*d\t%s\n", width, i, lines[i-1])
		if !strings.HasPrefix(rest, row) {
			break
		}
		rest = rest[len(row):]
		used += len(row)
	}
	if used > verifshim.CodeReadMaxBytes {
		return bad("c39/read-byte-cap-exceeded", "code_read(%q,%d,%d): %d bytes of header+rows (cap %d)", req, start, end, used, verifshim.CodeReadMaxBytes)
	}
	switch {
	case i <= to && rest == "[output truncated — narrow the line range]\n":
	case i > to && rest == "":
	case i > to && to < total && rest == fmt.Sprintf("[%d more lines; pass start_line/end_line to read further]\n", total-to):
	default:
		return bad("c39/read-content-mismatch", "code_read(%q,%d,%d): after %d matching rows the reply continues with %q; recorded line %d is %q",
			req, start, end, i-from, clip(rest, 160), i, clip(lineOr(lines, i), 160))
	}
	return nil
}

func lineOr(lines []string, i int) string {
	if i >= 1 && i <= len(lines) {
		return lines[i-1]
	}
	return "<none>"
}

func clip(s string, n int) string {
	if len(s) <= n {
		return s
	}
	return fmt.Sprintf("%s…(%d bytes)", s[:n], len(s))
}

func expectedListing(m *model, dir string) (all []string, nd, nf int) {
	ds, fsn := m.children(dir)
	for _, d := range ds {
		all = append(all, d+"/\n")
	}
	for _, f := range fsn {
		k := f
		if dir != "." {
			k = dir + "/" + f
		}
		c := m.files[k]
		all = append(all, fmt.Sprintf("%s\t%d lines, %s\n", f, countLines(c), humanBytes(len(c))))
	}
	return all, len(ds), len(fsn)
}

func checkLs(bs builtSource, req string, plain bool, out string, err error) *verdict {
	m := bs.m
	if strings.Contains(out, canary) || (err != nil && strings.Contains(err.Error(), canary)) {
		return bad("c39/canary-served-by-ls", "code_ls(%q) returned bytes of a file outside the recorded root", req)
	}
	p := strings.TrimSpace(req)
	want, ok := resolve(p)
	if p == "" {
		want, ok = ".", true
	}
	_, isFile := m.files[want]
	isDir := ok && m.isDir(want)
	if err != nil || strings.HasPrefix(out, "Directory not found: ") {
		if plain && isDir {
			return bad("c39/recorded-dir-not-listed", "code_ls(%q) of a recorded directory answered %q / %v", req, clip(out, 120), err)
		}
		return nil
	}
	if strings.HasPrefix(out, noSource) {
		return bad("c39/non-empty-source-reported-empty", "code_ls(%q) says no source is recorded", req)
	}
	if strings.HasPrefix(out, "Recorded module root(s) — ") {
		exp := fmt.Sprintf("Recorded module root(s) — %d; pass one as the path to browse it:\n", len(m.roots))
		for _, r := range m.roots {
			exp += r + "/\n"
		}
		// the list of recorded roots is recorded information whatever the request
		// was ("/" and "./" are answered with it too); only its content is judged
		if out != exp {
			return bad("c39/ls-root-listing-wrong", "code_ls(%q) = %q, recorded roots %v", req, clip(out, 200), m.roots)
		}
		return nil
	}
	if f, found := strings.CutSuffix(out, " is a file, not a directory. Use code_read to read it."); found {
		if !ok || !isFile || f != want {
			return bad("c39/ls-served-other-path", "code_ls(%q) answered about file %q; the request denotes %q", req, f, want)
		}
		return nil
	}
	hdr, rest := firstLine(out)
	mm := reLsHdr.FindStringSubmatch(hdr)
	if mm == nil {
		return bad("c39/ls-unrecognised-reply", "code_ls(%q): %q", req, clip(out, 200))
	}
	label := mm[1]
	if label == "(root)" {
		label = "."
	}
	if !isDir || label != want {
		return bad("c39/ls-served-other-path", "code_ls(%q) lists %q; the request denotes %q (dir=%v)", req, label, want, isDir)
	}
	all, nd, nf := expectedListing(m, want)
	if mm[2] != strconv.Itoa(nd) || mm[3] != strconv.Itoa(nf) {
		return bad("c39/ls-content-mismatch", "code_ls(%q): header %q, recorded tree has %d dirs %d files", req, hdr, nd, nf)
	}
	shown, used := 0, 0
	for _, e := range all {
		if !strings.HasPrefix(rest, e) {
			break
		}
		rest = rest[len(e):]
		used += len(e)
		shown++
	}
	if shown > verifshim.CodeLsMaxEntries || used > verifshim.CodeLsMaxBytes {
		return bad("c39/ls-cap-exceeded", "code_ls(%q): %d entries, %d bytes", req, shown, used)
	}
	if (shown == len(all) && rest == "") || (shown < len(all) && rest == "[truncated — list a sub-directory to narrow]\n") {
		return nil
	}
	return bad("c39/ls-content-mismatch", "code_ls(%q): after %d matching entries the reply continues with %q; next recorded entry %q",
		req, shown, clip(rest, 160), clip(entryOr(all, shown), 160))
}

func entryOr(all []string, i int) string {
	if i < len(all) {
		return all[i]
	}
	return "<none>"
}

func clipLine(s string) string {
	if len(s) > verifshim.CodeSearchMaxLineBytes {
		return s[:verifshim.CodeSearchMaxLineBytes] + "…"
	}
	return s
}

func checkSearch(bs builtSource, query, filter string, out string, err error) *verdict {
	m := bs.m
	if strings.Contains(out, canary) && !strings.Contains(query, "CANARY") {
		return bad("c39/canary-served-by-search", "code_search(%q,%q) returned bytes of a file outside the recorded root", query, filter)
	}
	re, cerr := regexp.Compile(query)
	if err != nil {
		if strings.TrimSpace(query) == "" || cerr != nil {
			return nil
		}
		return bad("c39/search-refused-valid-query", "code_search(%q,%q): %v", query, filter, err)
	}
	if cerr != nil || strings.TrimSpace(query) == "" {
		return bad("c39/search-accepted-invalid-query", "code_search(%q) = %q", query, clip(out, 120))
	}
	var exp []string
	for _, p := range m.sortedPaths() {
		if filter != "" && !strings.Contains(p, filter) {
			continue
		}
		for i, l := range splitLines(m.files[p]) {
			l = strings.TrimSuffix(l, "\r")
			if re.MatchString(l) {
				exp = append(exp, fmt.Sprintf("%s:%d: %s\n", p, i+1, clipLine(strings.TrimSpace(l))))
			}
		}
	}
	if strings.HasPrefix(out, "No matches for ") {
		if len(exp) > 0 {
			return bad("c39/search-content-mismatch", "code_search(%q,%q) found nothing; the recorded source has %d matching lines, first %q", query, filter, len(exp), clip(exp[0], 160))
		}
		return nil
	}
	hdr, rest := firstLine(out)
	mm := reMatches.FindStringSubmatch(hdr)
	if mm == nil {
		return bad("c39/search-unrecognised-reply", "code_search(%q): %q", query, clip(out, 200))
	}
	shown, used := 0, 0
	for _, e := range exp {
		if !strings.HasPrefix(rest, e) {
			break
		}
		rest = rest[len(e):]
		used += len(e)
		shown++
	}
	// a line that is not the next recorded match (other file, other text, wrong
	// filter, canary) stops the prefix walk and is reported here
	okTail := (shown == len(exp) && rest == "") || (shown < len(exp) && rest == "[truncated — refine the query or pass path_contains]\n")
	if !okTail || mm[1] != strconv.Itoa(shown) {
		return bad("c39/search-content-mismatch", "code_search(%q,%q): header %q, %d entries agree with the recorded source, then the reply continues with %q; next recorded match %q",
			query, filter, hdr, shown, clip(rest, 160), clip(entryOr(exp, shown), 160))
	}
	if shown > verifshim.CodeSearchMaxMatches || used > verifshim.CodeSearchMaxBytes {
		return bad("c39/search-cap-exceeded", "code_search(%q): %d matches, %d bytes", query, shown, used)
	}
	return nil
}

type httpRead struct {
	Path    string `json:"path"`
	Content string `json:"content"`
	Lines   int    `json:"lines"`
}

type httpLs struct {
	Path    string   `json:"path"`
	Roots   []string `json:"roots"`
	Entries []struct {
		Name  string `json:"name"`
		IsDir bool   `json:"is_dir"`
		Size  int64  `json:"size"`
	} `json:"entries"`
}

func checkHTTPRead(bs builtSource, req string, plain bool, code int, body []byte) *verdict {
	m := bs.m
	if bytes.Contains(body, []byte(canary)) {
		return bad("c39/canary-served-by-http-read", "GET /api/code/read?path=%q returned bytes of a file outside the recorded root", req)
	}
	want, ok := resolve(req)
	content, recorded := m.files[want]
	recorded = recorded && ok && req != ""
	if code != 200 {
		if plain && recorded && len(content) <= verifshim.MaxCodeReadBytes {
			return bad("c39/recorded-file-not-served", "GET /api/code/read?path=%q -> %d", req, code)
		}
		return nil
	}
	var rr httpRead
	if err := json.Unmarshal(body, &rr); err != nil {
		return bad("c39/http-unrecognised-reply", "read %q: %v", req, err)
	}
	if !recorded || rr.Path != want {
		return bad("c39/read-served-other-path", "GET /api/code/read?path=%q answered for %q; the request denotes %q (recorded=%v)", req, rr.Path, want, recorded)
	}
	if len(content) > verifshim.MaxCodeReadBytes {
		return bad("c39/http-read-size-cap-exceeded", "GET /api/code/read?path=%q served %d bytes (cap %d)", req, len(content), verifshim.MaxCodeReadBytes)
	}
	if utf8.Valid(content) && (rr.Content != string(content) || rr.Lines != countLines(content)) {
		return bad("c39/read-content-mismatch", "GET /api/code/read?path=%q: %d bytes/%d lines served, recorded %d bytes/%d lines", req, len(rr.Content), rr.Lines, len(content), countLines(content))
	}
	return nil
}

func checkHTTPLs(bs builtSource, req string, plain bool, code int, body []byte) *verdict {
	m := bs.m
	if bytes.Contains(body, []byte(canary)) {
		return bad("c39/canary-served-by-http-ls", "GET /api/code/ls?path=%q returned bytes of a file outside the recorded root", req)
	}
	want, ok := resolve(req)
	isDir := ok && m.isDir(want)
	if code != 200 {
		if plain && isDir {
			return bad("c39/recorded-dir-not-listed", "GET /api/code/ls?path=%q -> %d", req, code)
		}
		return nil
	}
	var lr httpLs
	if err := json.Unmarshal(body, &lr); err != nil {
		return bad("c39/http-unrecognised-reply", "ls %q: %v", req, err)
	}
	var got []string
	for _, e := range lr.Entries {
		got = append(got, fmt.Sprintf("%s|%v|%d", e.Name, e.IsDir, e.Size))
	}
	var exp []string
	if req == "" || req == "." {
		for _, r := range m.roots {
			exp = append(exp, fmt.Sprintf("%s|true|0", r))
		}
	} else {
		if !isDir {
			return bad("c39/ls-served-other-path", "GET /api/code/ls?path=%q listed %d entries; the request denotes %q which is no recorded directory", req, len(got), want)
		}
		ds, fsn := m.children(want)
		for _, d := range ds {
			exp = append(exp, fmt.Sprintf("%s|true|0", d))
		}
		for _, f := range fsn {
			k := f
			if want != "." {
				k = want + "/" + f
			}
			exp = append(exp, fmt.Sprintf("%s|false|%d", f, len(m.files[k])))
		}
	}
	if strings.Join(got, "\n") != strings.Join(exp, "\n") {
		return bad("c39/ls-content-mismatch", "GET /api/code/ls?path=%q: entries %q, recorded %q", req, clip(strings.Join(got, ","), 300), clip(strings.Join(exp, ","), 300))
	}
	return nil
}

// ------------------------------------------------------------------ the batch

func runTools(b kit.Batch, r *kit.R, reqsPerSource int) {
	r.ForEach(b.N, func(c *kit.Case) {
		rng := c.Rng
		bs := buildSource(rng, r.WorkDir, c.Index)
		if bs.onDisk {
			defer os.RemoveAll(filepath.Join(r.WorkDir, fmt.Sprintf("src%d", c.Index)))
		}
		r.Count("sources_"+bs.kind, 1)
		r.Max("max_files_in_source", int64(len(bs.m.files)))
		if bs.src.IsEmpty() || bs.src.Files != len(bs.m.files) {
			c.Failf("c39/source-file-count-wrong", "%s source reports %d files, %d were recorded", bs.kind, bs.src.Files, len(bs.m.files))
			return
		}
		h := verifshim.CodeHTTPHandler(bs.src)
		c.Desc(map[string]any{"source": bs.kind, "files": len(bs.m.files), "roots": bs.m.roots})
		fail := func(v *verdict, what string) {
			if v != nil {
				c.Fail(v.key, map[string]any{"msg": v.msg, "request": what, "source": bs.kind, "roots": bs.m.roots, "files": len(bs.m.files)})
			}
		}
		escapes := 0
		for q := 0; q < reqsPerSource; q++ {
			switch rng.Intn(6) {
			case 0, 1: // code_read
				req, plain := genPath(rng, bs, false)
				start, end := 0, 0
				switch rng.Intn(5) {
				case 0:
					start = 1 + rng.Intn(300)
				case 1:
					start, end = 1+rng.Intn(100), rng.Intn(700)
				case 2:
					start, end = rng.Intn(5000)-100, rng.Intn(5000)-100
				}
				out, err := verifshim.RunCodeRead(bs.src, req, start, end)
				fail(checkRead(bs, req, plain, start, end, out, err), fmt.Sprintf("code_read(%s,%d,%d)", clip(req, 200), start, end))
				observe(r, bs, "read", req, plain, err != nil || strings.HasPrefix(out, "File not found"), &escapes)
				if q == 0 {
					c.Sample(map[string]any{"tool": "code_read", "source": bs.kind, "path": clip(req, 120), "start": start, "end": end, "reply": clip(out, 160), "error": fmt.Sprint(err)})
				}
			case 2: // code_ls
				req, plain := genPath(rng, bs, true)
				out, err := verifshim.RunCodeLs(bs.src, req)
				fail(checkLs(bs, req, plain, out, err), fmt.Sprintf("code_ls(%s)", clip(req, 200)))
				observe(r, bs, "ls", req, plain, err != nil || strings.HasPrefix(out, "Directory not found"), &escapes)
				if strings.Contains(out, "[truncated") {
					r.Count("ls_replies_truncated_by_cap", 1)
				}
			case 3: // code_search
				query := genRegex(rng)
				filter := ""
				if rng.Intn(3) == 0 {
					filter = pick(rng, []string{"mem", "cache", "go.mod", "..", "/", "core/cu", "nosuch", "../CANARY", "é", bs.m.roots[0]})
				}
				out, err := verifshim.RunCodeSearch(bs.src, query, filter)
				fail(checkSearch(bs, query, filter, out, err), fmt.Sprintf("code_search(%s,%s)", clip(query, 200), filter))
				r.Count("search_requests", 1)
				if strings.HasPrefix(out, "No matches") {
					r.Count("search_no_match", 1)
				} else if err == nil {
					r.Count("search_with_matches", 1)
				}
				if strings.Contains(out, "[truncated") {
					r.Count("search_replies_truncated_by_cap", 1)
				}
			case 4: // GET /api/code/read
				req, plain := genPath(rng, bs, false)
				rec := httptest.NewRecorder()
				h.ServeHTTP(rec, httptest.NewRequest("GET", "/api/code/read?path="+url.QueryEscape(req), nil))
				fail(checkHTTPRead(bs, req, plain, rec.Code, rec.Body.Bytes()), fmt.Sprintf("GET /api/code/read?path=%s", clip(req, 200)))
				observe(r, bs, "http_read", req, plain, rec.Code != 200, &escapes)
				if rec.Code == 413 {
					r.Count("http_read_too_large_413", 1)
				}
			default: // GET /api/code/ls
				req, plain := genPath(rng, bs, true)
				rec := httptest.NewRecorder()
				h.ServeHTTP(rec, httptest.NewRequest("GET", "/api/code/ls?path="+url.QueryEscape(req), nil))
				fail(checkHTTPLs(bs, req, plain, rec.Code, rec.Body.Bytes()), fmt.Sprintf("GET /api/code/ls?path=%s", clip(req, 200)))
				observe(r, bs, "http_ls", req, plain, rec.Code != 200, &escapes)
			}
		}
		if escapes > 0 {
			c.Nontrivial(fmt.Sprintf("%s/%d/%d", bs.kind, c.Seed, escapes))
		}
	})
}

// observe keeps the counters that show which situations were exercised.
func observe(r *kit.R, bs builtSource, tool, req string, plain, refused bool, escapes *int) {
	r.Count(tool+"_requests", 1)
	_, inside := resolve(strings.TrimSpace(req))
	switch {
	case strings.Trim(strings.TrimSpace(req), "./") == "":
		r.Count("root_or_blank_requests", 1)
	case plain && !refused:
		r.Count("plain_recorded_paths_served", 1)
	case !inside:
		*escapes++
		r.Count("escaping_or_absolute_paths_requested", 1)
		if refused {
			r.Count("escaping_paths_refused", 1)
		}
		if bs.onDisk {
			r.Count("escaping_paths_against_on_disk_root_with_canaries", 1)
			if bs.kind == "naivefs" {
				r.Count("escaping_paths_against_unvalidating_fs", 1)
			}
		}
	}
}
