// C26 Page tables behave as a per-process map with deterministic lookups:
// model-based oracle + replay of the same history on several fresh tables
// (with and without checkpoint save/load) whose answer logs must coincide.
package main

import (
	"bytes"
	"fmt"
	"hash/fnv"
	"io"
	"math/rand"

	"verifharness/kit"

	"github.com/sarchlab/akita/v5/mem/vm"
)

type opKind int

const (
	opInsert opKind = iota
	opUpdate
	opRemove
	opFind
	opReverse
	opCheckpoint
	opDupInsert    // insert of an existing (pid, vaddr): documented/tested refusal (panic)
	opRemoveAbsent // remove of an absent page: performed, outcome not judged
)

var kindName = map[opKind]string{opInsert: "insert", opUpdate: "update", opRemove: "remove", opFind: "find",
	opReverse: "reverse-lookup", opCheckpoint: "checkpoint", opDupInsert: "duplicate-insert", opRemoveAbsent: "remove-absent"}

type op struct {
	Kind  opKind
	Page  vm.Page // insert/update
	PID   vm.PID
	Addr  uint64 // remove/find: virtual address; reverse: physical address
	Share int    // reverse: number of distinct PIDs holding a page with that PAddr (from the model)
}

type pkey struct {
	pid vm.PID
	va  uint64
}

type checkpointer interface {
	SaveCheckpoint(w io.Writer) error
	LoadCheckpoint(r io.Reader) error
}

func main() {
	kit.Main(kit.Prop{
		ID:    "C26",
		Level: "exploration",
		Rule: "a case = one PRNG history of 30-150 page-table operations (insert/update/remove/find/reverse lookup/checkpoint, plus refused duplicate inserts) over 2-7 processes, " +
			"a small pool of page-aligned virtual pages per process and a small pool of physical pages shared between processes; the history is executed on a fresh table and judged against a map model, " +
			"then replayed on 2 more fresh tables and on 2 tables that go through checkpoint save/load at the checkpoint operations; all answer logs must be identical; " +
			"a case is non-trivial when a reverse lookup hit a physical page held by >= 2 processes and a find hit after an update or remove; distinct by hash of the operation list",
		Assumptions: []string{
			"virtual addresses given to Insert/Update/Remove are page-aligned; Find is also called with unaligned addresses (documented: page that contains the address)",
			"duplicate Insert must panic (asserted by the package's own unit test); Remove of an absent page is performed but not judged",
			"cross-run determinism is decided by in-process replay on fresh tables: Go randomises map iteration per range statement and per map, so map-order dependence shows up without separate processes",
			"which of several sharing pages ReverseLookup returns is not prescribed, only that it is a current page with that PAddr and always the same one",
		},
		Plan: func(tier string, seed int64) []kit.Batch {
			nb, n := 16, 120
			if tier == "thorough" {
				nb, n = 32, 5000
			}
			var bs []kit.Batch
			for i := 0; i < nb; i++ {
				bs = append(bs, kit.Batch{Name: fmt.Sprintf("hist%d", i), Seed: seed*1000 + int64(i), N: n})
			}
			return bs
		},
		Run: run,
		MustObserve: []string{
			"finds_hit", "finds_miss", "finds_unaligned", "updates", "removes", "reverse_lookups_hit", "reverse_lookups_miss",
			"reverse_lookups_on_paddr_shared_by_several_pids", "reverse_lookups_on_paddr_twice_in_one_pid",
			"checkpoints_restored", "replica_logs_compared", "duplicate_inserts_refused",
		},
	})
}

func run(b kit.Batch, r *kit.R) {
	r.ForEach(b.N, func(c *kit.Case) { oneCase(c, r) })
}

// genHistory draws the operation list, keeping a model so that operations are legal.
func genHistory(rng *rand.Rand) (log2 uint64, ops []op) {
	log2 = 12
	if rng.Intn(3) == 0 {
		log2 = uint64(10 + rng.Intn(12))
	}
	ps := uint64(1) << log2
	nPID := 2 + rng.Intn(6)
	pids := make([]vm.PID, nPID)
	for i := range pids {
		pids[i] = vm.PID(1 + i)
		if rng.Intn(6) == 0 {
			pids[i] = vm.PID(rng.Uint32())
		}
	}
	for i := range pids { // distinct
		for j := 0; j < i; j++ {
			if pids[i] == pids[j] {
				pids[i] = vm.PID(1000 + i)
			}
		}
	}
	nV, nP := 3+rng.Intn(10), 2+rng.Intn(7)
	vpool := make([]uint64, nV)
	for i := range vpool {
		vpool[i] = uint64(i) * ps
		if rng.Intn(4) == 0 {
			vpool[i] = (rng.Uint64() >> log2) << log2
		}
	}
	for i := range vpool {
		for j := 0; j < i; j++ {
			if vpool[i] == vpool[j] {
				vpool[i] = uint64(1000+i) * ps
			}
		}
	}
	ppool := make([]uint64, nP)
	for i := range ppool {
		ppool[i] = uint64(0x100+i) * ps
		if rng.Intn(4) == 0 {
			ppool[i] = (rng.Uint64() >> log2) << log2 // up to the top of the 64-bit range
		}
	}
	model := map[pkey]vm.Page{}
	var keys []pkey // insertion-ordered list of present keys
	mkPage := func(pid vm.PID, va uint64) vm.Page {
		p := vm.Page{PID: pid, VAddr: va, PAddr: ppool[rng.Intn(nP)], PageSize: ps,
			Valid: rng.Intn(4) != 0, DeviceID: uint64(rng.Intn(4)), Unified: rng.Intn(2) == 0,
			IsMigrating: rng.Intn(4) == 0, IsPinned: rng.Intn(4) == 0}
		if rng.Intn(8) == 0 {
			p.DeviceID = rng.Uint64()
		}
		return p
	}
	del := func(k pkey) {
		delete(model, k)
		for i, x := range keys {
			if x == k {
				keys = append(keys[:i], keys[i+1:]...)
				return
			}
		}
	}
	share := func(pa uint64) int {
		seen := map[vm.PID]bool{}
		for _, p := range model {
			if p.PAddr == pa {
				seen[p.PID] = true
			}
		}
		return len(seen)
	}
	n := 30 + rng.Intn(121)
	for len(ops) < n {
		pid := pids[rng.Intn(nPID)]
		va := vpool[rng.Intn(nV)]
		k := pkey{pid, va}
		_, present := model[k]
		switch x := rng.Intn(100); {
		case x < 30: // insert (or a refused duplicate)
			pg := mkPage(pid, va)
			if present {
				if rng.Intn(4) == 0 {
					ops = append(ops, op{Kind: opDupInsert, Page: pg})
				}
				continue
			}
			model[k] = pg
			keys = append(keys, k)
			ops = append(ops, op{Kind: opInsert, Page: pg})
		case x < 42: // update an existing page (often moving it to another physical page)
			if len(keys) == 0 {
				continue
			}
			k = keys[rng.Intn(len(keys))]
			pg := mkPage(k.pid, k.va)
			if rng.Intn(3) == 0 {
				pg.PAddr = model[k].PAddr
			}
			model[k] = pg
			ops = append(ops, op{Kind: opUpdate, Page: pg})
		case x < 52: // remove
			if len(keys) == 0 || rng.Intn(10) == 0 {
				if !present {
					ops = append(ops, op{Kind: opRemoveAbsent, PID: pid, Addr: va})
				}
				continue
			}
			k = keys[rng.Intn(len(keys))]
			del(k)
			ops = append(ops, op{Kind: opRemove, PID: k.pid, Addr: k.va})
		case x < 72: // find, aligned or inside the page
			a := va
			if rng.Intn(3) == 0 {
				a += uint64(rng.Int63n(int64(ps)))
			}
			ops = append(ops, op{Kind: opFind, PID: pid, Addr: a})
		case x < 96: // reverse lookup
			pa := ppool[rng.Intn(nP)]
			if rng.Intn(10) == 0 {
				pa += ps * 7919 // most likely nobody's page
			}
			ops = append(ops, op{Kind: opReverse, Addr: pa, Share: share(pa)})
		default:
			ops = append(ops, op{Kind: opCheckpoint})
		}
	}
	// closing sweep: every (pid, virtual page) and every physical page
	for _, pid := range pids {
		for _, va := range vpool {
			ops = append(ops, op{Kind: opFind, PID: pid, Addr: va})
		}
	}
	for _, pa := range ppool {
		ops = append(ops, op{Kind: opReverse, Addr: pa, Share: share(pa)})
	}
	return log2, ops
}

func refused(f func()) (p bool) {
	defer func() {
		if e := recover(); e != nil {
			p = true
		}
	}()
	f()
	return false
}

// play executes the history on a fresh table and returns one answer string per operation.
// With doCkpt the table is saved and reloaded into a fresh one at every checkpoint operation.
func play(log2 uint64, ops []op, doCkpt bool) (answers []string, owners []vm.PID, ckptErr error, ckpts int) {
	pt := vm.NewPageTable(log2)
	answers = make([]string, len(ops))
	owners = make([]vm.PID, len(ops)) // PID of the page a reverse lookup returned
	for i, o := range ops {
		switch o.Kind {
		case opInsert:
			pt.Insert(o.Page)
		case opDupInsert:
			answers[i] = fmt.Sprint("refused=", refused(func() { pt.Insert(o.Page) }))
		case opUpdate:
			pt.Update(o.Page)
		case opRemove:
			pt.Remove(o.PID, o.Addr)
		case opRemoveAbsent:
			refused(func() { pt.Remove(o.PID, o.Addr) })
		case opFind:
			pg, ok := pt.Find(o.PID, o.Addr)
			answers[i] = fmt.Sprintf("%v %+v", ok, pg)
		case opReverse:
			pg, ok := pt.ReverseLookup(o.Addr)
			answers[i] = fmt.Sprintf("%v %+v", ok, pg)
			owners[i] = pg.PID
		case opCheckpoint:
			if !doCkpt {
				continue
			}
			var buf bytes.Buffer
			if err := pt.(checkpointer).SaveCheckpoint(&buf); err != nil {
				return answers, owners, fmt.Errorf("save: %w", err), ckpts
			}
			fresh := vm.NewPageTable(log2)
			if err := fresh.(checkpointer).LoadCheckpoint(bytes.NewReader(buf.Bytes())); err != nil {
				return answers, owners, fmt.Errorf("load: %w", err), ckpts
			}
			pt = fresh
			ckpts++
		}
	}
	return answers, owners, nil, ckpts
}

func oneCase(c *kit.Case, r *kit.R) {
	log2, ops := genHistory(c.Rng)
	h := fnv.New64a()
	var first []string
	for i, o := range ops {
		line := fmt.Sprintf("%s pid=%d addr=%#x page=%+v", kindName[o.Kind], o.PID, o.Addr, o.Page)
		fmt.Fprintln(h, line)
		if i < 10 {
			first = append(first, line)
		}
	}
	c.Desc(map[string]any{"log2_page_size": log2, "ops": len(ops), "history_hash": fmt.Sprintf("%x", h.Sum64())})

	// 1. model-based judgement of the first execution, operation by operation
	pt := vm.NewPageTable(log2)
	model := map[pkey]vm.Page{}
	dirty := map[pkey]bool{} // updated or removed at least once
	align := func(a uint64) uint64 { return (a >> log2) << log2 }
	sharedHit, findAfterChange := false, false
	for _, o := range ops {
		switch o.Kind {
		case opInsert:
			pt.Insert(o.Page)
			model[pkey{o.Page.PID, o.Page.VAddr}] = o.Page
			r.Count("inserts", 1)
		case opDupInsert:
			if refused(func() { pt.Insert(o.Page) }) {
				r.Count("duplicate_inserts_refused", 1)
			} else {
				c.Failf("pt/duplicate-insert-accepted", "Insert of an existing page pid=%d vaddr=%#x did not panic", o.Page.PID, o.Page.VAddr)
				return
			}
		case opUpdate:
			pt.Update(o.Page)
			k := pkey{o.Page.PID, o.Page.VAddr}
			model[k] = o.Page
			dirty[k] = true
			r.Count("updates", 1)
		case opRemove:
			pt.Remove(o.PID, o.Addr)
			delete(model, pkey{o.PID, o.Addr})
			dirty[pkey{o.PID, o.Addr}] = true
			r.Count("removes", 1)
		case opRemoveAbsent:
			refused(func() { pt.Remove(o.PID, o.Addr) })
			r.Count("remove_of_absent_page_not_judged", 1)
		case opFind:
			k := pkey{o.PID, align(o.Addr)}
			want, present := model[k]
			got, ok := pt.Find(o.PID, o.Addr)
			key := "pt/find-mismatch"
			if o.Addr != k.va {
				key = "pt/find-unaligned-mismatch"
				r.Count("finds_unaligned", 1)
			}
			if ok != present || (present && got != want) {
				c.Failf(key, "Find(pid=%d, %#x) = (%+v, %v); the map holds (%+v, %v)", o.PID, o.Addr, got, ok, want, present)
				return
			}
			if present {
				r.Count("finds_hit", 1)
				if dirty[k] {
					findAfterChange = true
				}
			} else {
				r.Count("finds_miss", 1)
				if dirty[k] {
					findAfterChange = true
				}
			}
		case opReverse:
			perPID := map[vm.PID]int{}
			for _, p := range model {
				if p.PAddr == o.Addr {
					perPID[p.PID]++
				}
			}
			got, ok := pt.ReverseLookup(o.Addr)
			switch {
			case len(perPID) == 0 && ok:
				c.Failf("pt/reverse-lookup-phantom", "ReverseLookup(%#x) returned %+v although no page has that physical address", o.Addr, got)
				return
			case len(perPID) > 0 && !ok:
				c.Failf("pt/reverse-lookup-missed", "ReverseLookup(%#x) found nothing although %d processes hold such a page", o.Addr, len(perPID))
				return
			case ok:
				cur, present := model[pkey{got.PID, got.VAddr}]
				if got.PAddr != o.Addr || !present || cur != got {
					c.Failf("pt/reverse-lookup-wrong-page", "ReverseLookup(%#x) returned %+v, which is not a current page with that physical address (map holds %+v, %v)", o.Addr, got, cur, present)
					return
				}
				r.Count("reverse_lookups_hit", 1)
				if len(perPID) >= 2 {
					r.Count("reverse_lookups_on_paddr_shared_by_several_pids", 1)
					r.Max("pids_sharing_one_physical_page_max", int64(len(perPID)))
					sharedHit = true
				}
				for _, cnt := range perPID {
					if cnt >= 2 {
						r.Count("reverse_lookups_on_paddr_twice_in_one_pid", 1)
						break
					}
				}
			default:
				r.Count("reverse_lookups_miss", 1)
			}
		}
	}
	r.Count("operations", int64(len(ops)))
	r.Max("pages_in_table_max", int64(len(model)))

	// 2. determinism: the same history on fresh tables, plain and through checkpoints
	ref, refOwners, _, _ := play(log2, ops, false)
	for rep := 1; rep < 5; rep++ {
		withCkpt := rep >= 3
		ans, owners, err, ck := play(log2, ops, withCkpt)
		if err != nil {
			c.Failf("pt/checkpoint-error", "checkpoint %v", err)
			return
		}
		r.Count("checkpoints_restored", int64(ck))
		r.Count("replica_logs_compared", 1)
		for i := range ops {
			if ans[i] == ref[i] {
				continue
			}
			o := ops[i]
			key := "pt/nondeterministic/" + kindName[o.Kind]
			what := "a second fresh table"
			if withCkpt {
				key = "pt/checkpoint-changes-answer/" + kindName[o.Kind]
				what = "a table that went through checkpoint save/load"
			}
			if o.Kind == opReverse && o.Share >= 2 && owners[i] != refOwners[i] {
				// several processes hold the physical page and the two answers come from different processes:
				// the answer depends on the order in which the process tables are visited
				key = "pt/reverse-lookup-depends-on-process-map-order"
			}
			r.Count("replicas_diverging_from_first_execution", 1)
			c.Failf(key, "operation %d %s(pid=%d, %#x) answered %q on the first table and %q on %s (same history; %d processes share the physical page)",
				i, kindName[o.Kind], o.PID, o.Addr, ref[i], ans[i], what, o.Share)
			break
		}
	}
	if sharedHit && findAfterChange {
		c.Nontrivial(fmt.Sprintf("%d/%x", log2, h.Sum64()))
	}
	c.Sample(map[string]any{"log2_page_size": log2, "ops": len(ops), "first_ops": first})
}
