// C38 Outbound LLM connections never reach internal addresses.
//
// The code under test runs in a worker process (worker.go) started under
// `strace -f -e trace=socket,connect`. Deciding monitors:
//
//	(1) strace: no connect() of the worker to a loopback / private / link-local /
//	    unspecified sockaddr, except to the worker's own fake DNS server and HTTP
//	    proxy (by exact ip:port), the case markers, and the resolver's RFC 6724
//	    source-address probes (SOCK_DGRAM connect to port 53, which send nothing).
//	(2) proxy log: every target the proxy was asked to reach must be a public
//	    literal or a name whose last answers received by the worker's resolver
//	    before that request held no internal address.
//	(3) return values of guardLLMURL / CheckRedirect / guardedDialContext against
//	    the DNS answers actually served during the call (a predicate has no
//	    network effect of its own to observe).
package main

import (
	"bufio"
	"encoding/json"
	"fmt"
	"math/rand"
	"net"
	"net/netip"
	"net/url"
	"os"
	"os/exec"
	"path/filepath"
	"regexp"
	"strconv"
	"strings"

	"verifharness/kit"
)

type params struct {
	Mode string `json:"mode"` // direct | proxy | proxyname | httpsproxy | noproxy | allow
}

func main() {
	if os.Getenv("C38_WORKER") != "" {
		workerMain()
		return
	}
	kit.Main(kit.Prop{
		ID:    "C38",
		Level: "exploration",
		Rule: "cases are guardLLMURL / CheckRedirect / guardedDialContext calls and full requests through the guarded client (with and without the handlers' up-front guard) " +
			"over host literals in every address class and encoding, names served by a fake DNS (single, multi-record mixed, IPv4-mapped, rebinding public->internal between lookups), " +
			"/etc/hosts names, odd literal forms and URL shapes, in direct, proxied, proxy-by-name, https-proxy-only and NO_PROXY environments, the proxy answering with redirects to internal targets; " +
			"a case is non-trivial when its destination is or resolves (at some lookup) to an internal address; distinct by (mode, kind, url/addr, dns plan)",
		Assumptions: []string{
			"judged classes: loopback 127/8 ::1, private 10/8 172.16/12 192.168/16 fc00::/7, link-local 169.254/16 fe80::/10, unspecified 0.0.0.0 ::, and their IPv4-mapped forms; CGNAT, multicast, NAT64, site-local, IPv4-compatible forms are exercised but not judged",
			"no public address is routable in the sandbox: the allowed side is observed up to the connect() attempt",
			"for proxied requests a rebind after the server's last check is not judged (the server documents that it cannot pin proxied targets)",
			"DAISEN_ALLOW_PRIVATE_LLM_URL is unset except in the 'allow' batch, which only proves that the strace monitor sees internal connects",
		},
		Plan: func(tier string, seed int64) []kit.Batch {
			modes := []string{"direct", "direct", "direct", "proxy", "proxy", "proxy", "httpsproxy", "noproxy", "proxyname", "allow"}
			n := 70
			if tier == "thorough" {
				n = 4000
				modes = append(modes, "direct", "proxy", "direct", "proxy", "httpsproxy", "noproxy")
			}
			var bs []kit.Batch
			for i, m := range modes {
				k := n
				if m == "allow" {
					k = 12
				}
				bs = append(bs, kit.Batch{Name: fmt.Sprintf("%s%d", m, i), Seed: seed*1000 + int64(i), N: k, Params: kit.MkParams(params{Mode: m})})
			}
			return bs
		},
		Run: run,
		MustObserve: []string{
			"strace_tcp_connects_to_public_addresses", "strace_connects_to_fake_dns", "strace_connects_to_proxy", "strace_markers_seen",
			"allow_mode_internal_tcp_connects_seen", "guard_refused_internal", "guard_allowed_public", "dial_refused_internal", "redirect_refused_internal",
			"rebinding_refused_after_public_first_answer", "proxied_requests_logged", "proxy_redirects_to_internal_refused", "ipv4_mapped_refused", "do_refused_internal",
		},
	})
}

// ------------------------------------------------------------------ address classes

var internalPrefixes = func() []netip.Prefix {
	var ps []netip.Prefix
	for _, s := range []string{"127.0.0.0/8", "10.0.0.0/8", "172.16.0.0/12", "192.168.0.0/16", "169.254.0.0/16", "0.0.0.0/32", "::1/128", "::/128", "fc00::/7", "fe80::/10"} {
		ps = append(ps, netip.MustParsePrefix(s))
	}
	return ps
}()

// isInternal is the check's own classification (prefix table, after unmapping
// IPv4-mapped IPv6).
func isInternal(a netip.Addr) bool {
	a = a.WithZone("").Unmap()
	for _, p := range internalPrefixes {
		if p.Contains(a) {
			return true
		}
	}
	return false
}

func parseAddr(s string) (netip.Addr, bool) {
	if i := strings.IndexByte(s, '%'); i >= 0 {
		s = s[:i]
	}
	a, err := netip.ParseAddr(s)
	return a, err == nil
}

var (
	internal4 = []string{"127.0.0.1", "127.8.9.10", "127.255.255.254", "10.0.0.1", "10.255.255.255", "172.16.0.1", "172.31.255.254", "192.168.0.5", "192.168.255.1", "169.254.169.254", "169.254.0.1", "0.0.0.0"}
	internal6 = []string{"::1", "::", "fe80::1", "febf::abcd", "fc00::1", "fd12:3456:789a::1", "fdff:ffff::1"}
	mapped    = []string{"::ffff:127.0.0.1", "::ffff:10.0.0.1", "::ffff:169.254.169.254", "::ffff:192.168.1.1", "::ffff:0.0.0.0", "::ffff:172.20.1.1", "0:0:0:0:0:ffff:7f00:1", "::ffff:7f00:1", "::ffff:a9fe:a9fe"}
	public4   = []string{"93.184.216.34", "8.8.8.8", "1.1.1.1", "172.15.255.255", "172.32.0.1", "192.167.1.1", "169.253.1.1", "169.255.0.1", "11.0.0.1", "9.255.255.255", "126.255.255.255", "128.0.0.1", "192.169.0.1"}
	public6   = []string{"2001:4860:4860::8888", "2606:4700:4700::1111", "::ffff:8.8.8.8", "fbff::1", "fe7f::1"}
	unjudged  = []string{"100.64.0.1", "224.0.0.251", "239.255.255.250", "64:ff9b::7f00:1", "fec0::1", "::7f00:1", "255.255.255.255", "0.1.2.3", "ff02::1", "192.0.0.8", "198.18.0.1", "240.0.0.1", "2002:7f00:1::1"}
	oddForms  = []string{"2130706433", "0x7f000001", "0177.0.0.1", "127.1", "0", "0x7f.0.0.1", "127.0.0.1.", "017700000001", "0x7f.1", "127.000.000.001", "1.1", "①②⑦.0.0.1", "127。0。0。1", "[::1", "::1", "localhost.localdomain"}
	hostsFile = []string{"localhost", "LOCALHOST", "LocalHost", "localhost.", "vm", "runsc"}
)

func pick(rng *rand.Rand, xs []string) string { return xs[rng.Intn(len(xs))] }

// target is a destination host for a case.
type target struct {
	host     string // as it goes into a URL (brackets added by urlFor)
	dns      [][]string
	class    string // internal | public | rebind | mixed | unjudged | odd | hostsfile | nxdomain
	isName   bool
	internal bool // is, or at some lookup resolves to, an internal address
}

func genTarget(rng *rand.Rand, idx int, tag string) target {
	name := fmt.Sprintf("c%d-%s%d.c38.test", idx, tag, rng.Intn(1000))
	int4or6 := func() string {
		switch rng.Intn(3) {
		case 0:
			return pick(rng, internal6)
		case 1:
			return pick(rng, mapped)
		}
		return pick(rng, internal4)
	}
	pub := func() string {
		if rng.Intn(8) == 0 { // rarer: a connect() to a global IPv6 address hangs in the sandbox until the case's deadline
			return pick(rng, public6)
		}
		return pick(rng, public4)
	}
	switch x := rng.Intn(100); {
	case x < 14:
		return target{host: pick(rng, internal4), class: "internal", internal: true}
	case x < 22:
		return target{host: pick(rng, internal6), class: "internal", internal: true}
	case x < 30:
		return target{host: pick(rng, mapped), class: "internal-mapped", internal: true}
	case x < 38:
		return target{host: pub(), class: "public"}
	case x < 46: // name -> single internal
		return target{host: name, isName: true, dns: [][]string{{int4or6()}}, class: "internal", internal: true}
	case x < 53: // name -> public
		return target{host: name, isName: true, dns: [][]string{{pub()}}, class: "public"}
	case x < 63: // multi-record mixing public and internal
		set := []string{pub(), int4or6(), pub()}
		rng.Shuffle(len(set), func(i, j int) { set[i], set[j] = set[j], set[i] })
		return target{host: name, isName: true, dns: [][]string{set}, class: "mixed", internal: true}
	case x < 78: // rebinding: public for the first k lookups, then internal
		k := 1 + rng.Intn(3)
		var rounds [][]string
		p := pub()
		extra := rng.Intn(3) // 0-2 more public records in the vetted answers (multi-address hosts take other dial paths)
		for i := 0; i < k; i++ {
			ans := []string{p}
			for e := 0; e < extra; e++ {
				ans = append(ans, pub())
			}
			rounds = append(rounds, ans)
		}
		rounds = append(rounds, []string{int4or6()})
		return target{host: name, isName: true, dns: rounds, class: "rebind", internal: true}
	case x < 82:
		return target{host: pick(rng, hostsFile), isName: true, class: "hostsfile", internal: true}
	case x < 87:
		return target{host: pick(rng, unjudged), class: "unjudged"}
	case x < 90:
		return target{host: name, isName: true, dns: [][]string{{pick(rng, unjudged)}}, class: "unjudged"}
	case x < 96:
		return target{host: pick(rng, oddForms), class: "odd"}
	default:
		return target{host: "nx-" + name, isName: true, class: "nxdomain"}
	}
}

func bracket(h string) string {
	if strings.Contains(h, ":") && !strings.HasPrefix(h, "[") {
		return "[" + strings.ReplaceAll(h, "%", "%25") + "]"
	}
	return h
}

func urlFor(rng *rand.Rand, t target, plainHTTP bool) string {
	h := bracket(t.host)
	if t.host == "fe80::1" && rng.Intn(2) == 0 {
		h = "[fe80::1%25lo]"
	}
	scheme := "http"
	if !plainHTTP && rng.Intn(3) == 0 {
		scheme = "https"
	}
	switch rng.Intn(9) {
	case 0:
		return scheme + "://" + h + "/v1/chat/completions"
	case 1:
		return fmt.Sprintf("%s://%s:%d/v1/models?api-version=1", scheme, h, []int{80, 443, 8080, 11434, 22, 6379}[rng.Intn(6)])
	case 2:
		return scheme + "://user:pw@" + h + "/"
	case 3:
		return scheme + "://8.8.8.8@" + h + "/x"
	case 4:
		return strings.ToUpper(scheme) + "://" + h
	case 5:
		return scheme + "://" + h + "/#@8.8.8.8/"
	case 6:
		return scheme + "://" + h + "?u=http://8.8.8.8/"
	case 7:
		return scheme + "://" + h + ":80/a/../b"
	default:
		return scheme + "://" + h + "/"
	}
}

func genCases(rng *rand.Rand, mode string, n int, seedTag int64) []tcase {
	var cs []tcase
	for i := 0; i < n; i++ {
		idx := int(seedTag%9000)*1000 + i
		t := genTarget(rng, idx, "t")
		c := tcase{I: i, DNS: map[string][][]string{}, Note: t.class}
		if t.dns != nil {
			c.DNS[strings.ToLower(t.host)] = t.dns
		}
		proxied := mode == "proxy" || mode == "proxyname"
		x := rng.Intn(100)
		if mode == "allow" {
			c.Kind = []string{"dial", "do", "request"}[i%3]
			c.Addr = fmt.Sprintf("127.0.0.1:%d", 9+i)
			c.URL = fmt.Sprintf("http://127.0.0.%d:%d/", 1+i, 9)
			c.Note = "allow"
			cs = append(cs, c)
			continue
		}
		switch {
		case x < 18:
			c.Kind, c.URL = "guard", urlFor(rng, t, false)
			if rng.Intn(12) == 0 {
				c.URL = pick(rng, []string{"ftp://" + bracket(t.host) + "/", "file:///etc/passwd", "gopher://127.0.0.1:70/", "//" + bracket(t.host) + "/", bracket(t.host), "http://", "http:///x", "http://%31%32%37.0.0.1/", "http://127.0.0.1\\@8.8.8.8/", " http://127.0.0.1/"})
				c.Note = "odd-url"
			}
		case x < 30:
			c.Kind, c.URL, c.Via = "redirect", urlFor(rng, t, false), rng.Intn(12)
		case x < 48:
			c.Kind = "dial"
			c.Addr = net.JoinHostPort(t.host, strconv.Itoa([]int{80, 443, 8080, 22}[rng.Intn(4)]))
			if (proxied || mode == "httpsproxy" || mode == "noproxy") && rng.Intn(6) == 0 {
				// the proxy's own host on another port is not the proxy
				c.Addr, c.Note = "PROXYHOST:"+strconv.Itoa(9+rng.Intn(3)), "proxy-host-other-port"
			}
		case x < 78:
			c.Kind, c.URL = "request", urlFor(rng, t, proxied || rng.Intn(2) == 0)
		default:
			c.Kind, c.URL = "do", urlFor(rng, t, proxied || rng.Intn(2) == 0)
		}
		// in proxied modes give http requests to public names a redirect chain
		if proxied && (c.Kind == "request" || c.Kind == "do") && strings.HasPrefix(strings.ToLower(c.URL), "http://") && rng.Intn(3) > 0 {
			c.Redirects = map[string]string{}
			prev := strings.ToLower(t.host)
			for hop := 0; hop < 1+rng.Intn(3); hop++ {
				nt := genTarget(rng, idx, fmt.Sprintf("r%d", hop))
				if nt.dns != nil {
					c.DNS[strings.ToLower(nt.host)] = nt.dns
				}
				c.Redirects[strings.TrimSuffix(prev, ".")] = urlFor(rng, nt, true)
				prev = strings.ToLower(nt.host)
				c.Note += ">" + nt.class
				if nt.internal || nt.class != "public" {
					break
				}
			}
		}
		cs = append(cs, c)
	}
	return cs
}

// ------------------------------------------------------------------ strace

type sconn struct {
	caseI  int
	stream bool
	known  bool // socket type known
	addr   netip.Addr
	port   int
	line   string
}

var (
	reSocket  = regexp.MustCompile(`^(\d+)\s+socket\((\w+), (\w+)[^)]*\)\s+= (\d+)`)
	reSockUnf = regexp.MustCompile(`^(\d+)\s+socket\((\w+), (\w+).*<unfinished`)
	reSockRes = regexp.MustCompile(`^(\d+)\s+<\.\.\. socket resumed>.*= (\d+)`)
	reConn    = regexp.MustCompile(`^(\d+)\s+connect\((\d+), \{sa_family=(\w+), (.*)`)
	reV4      = regexp.MustCompile(`sin_port=htons\((\d+)\), sin_addr=inet_addr\("([^"]+)"\)`)
	reV6      = regexp.MustCompile(`sin6_port=htons\((\d+)\).*inet_pton\(AF_INET6, "([^"]+)"`)
)

func parseStrace(path string) ([]sconn, int, error) {
	f, err := os.Open(path)
	if err != nil {
		return nil, 0, err
	}
	defer f.Close()
	fdType := map[int]string{}
	pending := map[string]string{}
	var out []sconn
	cur, markers := -1, 0
	sc := bufio.NewScanner(f)
	sc.Buffer(make([]byte, 1<<20), 1<<24)
	for sc.Scan() {
		l := sc.Text()
		if m := reSocket.FindStringSubmatch(l); m != nil {
			fd, _ := strconv.Atoi(m[4])
			fdType[fd] = m[3]
			continue
		}
		if m := reSockUnf.FindStringSubmatch(l); m != nil {
			pending[m[1]] = m[3]
			continue
		}
		if m := reSockRes.FindStringSubmatch(l); m != nil {
			fd, _ := strconv.Atoi(m[2])
			fdType[fd] = pending[m[1]]
			delete(pending, m[1])
			continue
		}
		m := reConn.FindStringSubmatch(l)
		if m == nil {
			continue
		}
		fd, _ := strconv.Atoi(m[2])
		var as, ps string
		switch m[3] {
		case "AF_INET":
			if a := reV4.FindStringSubmatch(m[4]); a != nil {
				ps, as = a[1], a[2]
			}
		case "AF_INET6":
			if a := reV6.FindStringSubmatch(m[4]); a != nil {
				ps, as = a[1], a[2]
			}
		default:
			continue // AF_UNIX, AF_NETLINK, AF_UNSPEC: not IP
		}
		addr, ok := parseAddr(as)
		if !ok {
			return nil, 0, fmt.Errorf("unparsed sockaddr in %q", l)
		}
		port, _ := strconv.Atoi(ps)
		t, known := fdType[fd]
		stream := !known || strings.HasPrefix(t, "SOCK_STREAM")
		if !stream && addr.Is4() && addr.As4()[0] == 127 && addr.As4()[1] == 254 {
			b := addr.As4()
			cur = (port-1)<<16 | int(b[2])<<8 | int(b[3])
			markers++
			continue
		}
		out = append(out, sconn{caseI: cur, stream: stream, known: known, addr: addr, port: port, line: l})
	}
	return out, markers, sc.Err()
}

// ------------------------------------------------------------------ run

func run(b kit.Batch, r *kit.R) {
	var p params
	b.P(&p)
	rng := rand.New(rand.NewSource(b.Seed))
	cases := genCases(rng, p.Mode, b.N, b.Seed)

	casesFile := filepath.Join(r.WorkDir, "cases.json")
	outFile := filepath.Join(r.WorkDir, "results.jsonl")
	traceFile := filepath.Join(r.WorkDir, "strace.txt")

	// PROXYHOST placeholders need the proxy address, which only the worker knows;
	// the loopback literal is the proxy's host in every mode but proxyname.
	proxyHost := "127.0.0.1"
	if p.Mode == "proxyname" {
		proxyHost = "proxy.c38.test"
	}
	for i := range cases {
		cases[i].Addr = strings.Replace(cases[i].Addr, "PROXYHOST", proxyHost, 1)
	}
	d, _ := json.Marshal(cases)
	if err := os.WriteFile(casesFile, d, 0o644); err != nil {
		panic(err)
	}
	self, _ := os.Executable()
	cmd := exec.Command("/usr/bin/strace", "-f", "-qq", "-e", "trace=socket,connect", "-e", "signal=none", "-s", "200", "-o", traceFile, self)
	cmd.Env = append(os.Environ(), "C38_WORKER=1", "C38_CASES="+casesFile, "C38_OUT="+outFile, "C38_MODE="+p.Mode)
	cmd.Stdout, cmd.Stderr = os.Stderr, os.Stderr
	if err := cmd.Run(); err != nil {
		if d, rerr := os.ReadFile(outFile); rerr != nil || !strings.Contains(string(d), `"hello"`) {
			// strace could not start or attach (no ptrace permission): nothing was
			// observed, the MustObserve counters make the run inconclusive
			fmt.Fprintf(os.Stderr, "C38: worker did not start under strace: %v\n", err)
			return
		}
		panic(fmt.Sprintf("harness: worker under strace failed: %v", err))
	}

	// worker results
	results := map[int]caseResult{}
	var hello struct{ DNS, Proxy string }
	rf, err := os.Open(outFile)
	if err != nil {
		panic(err)
	}
	sc := bufio.NewScanner(rf)
	sc.Buffer(make([]byte, 1<<20), 1<<26)
	first := true
	for sc.Scan() {
		if first {
			json.Unmarshal(sc.Bytes(), &hello)
			first = false
			continue
		}
		var cr caseResult
		if err := json.Unmarshal(sc.Bytes(), &cr); err == nil {
			results[cr.I] = cr
		}
	}
	rf.Close()
	if len(results) != len(cases) {
		panic(fmt.Sprintf("harness: worker reported %d of %d cases", len(results), len(cases)))
	}
	dnsAP, _ := netip.ParseAddrPort(hello.DNS)
	proxyAP, _ := netip.ParseAddrPort(hello.Proxy)

	conns, markers, err := parseStrace(traceFile)
	if err != nil {
		panic("harness: " + err.Error())
	}
	r.Count("strace_markers_seen", int64(markers))
	if markers != len(cases)+1 {
		panic(fmt.Sprintf("harness: %d case markers in the strace log, expected %d", markers, len(cases)+1))
	}
	byCase := map[int][]sconn{}
	for _, c := range conns {
		byCase[c.caseI] = append(byCase[c.caseI], c)
	}
	proxied := p.Mode == "proxy" || p.Mode == "proxyname"
	hasProxyEnv := proxied || p.Mode == "httpsproxy" || p.Mode == "noproxy"

	r.ForEach(len(cases), func(c *kit.Case) {
		tc := cases[c.Index]
		res := results[tc.I]
		c.Desc(map[string]any{"mode": p.Mode, "case": tc})
		r.Count("cases_"+tc.Kind, 1)
		if strings.Contains(tc.Note, "internal") || strings.Contains(tc.Note, "rebind") || strings.Contains(tc.Note, "mixed") || strings.Contains(tc.Note, "hostsfile") || tc.Note == "proxy-host-other-port" {
			c.Nontrivial(fmt.Sprintf("%s/%s/%s%s/%v", p.Mode, tc.Kind, tc.URL, tc.Addr, tc.DNS))
		}
		r.Distinct("target_classes", p.Mode+"/"+tc.Kind+"/"+tc.Note)

		// ---- monitor (1): connect() calls of the worker during this case
		for _, sc := range byCase[tc.I] {
			ap := netip.AddrPortFrom(sc.addr.Unmap(), uint16(sc.port))
			switch {
			case ap == dnsAP:
				r.Count("strace_connects_to_fake_dns", 1)
			case !sc.stream && sc.port == 53:
				// net/addrselect.go srcAddrs: the resolver connect()s a UDP socket to every
				// candidate address (port 53) to learn the source address; no packet is sent
				r.Count("strace_udp_rfc6724_source_address_probes", 1)
			case ap == proxyAP && sc.stream && p.Mode != "direct" && p.Mode != "allow":
				r.Count("strace_connects_to_proxy", 1)
			case !isInternal(sc.addr):
				if sc.stream {
					r.Count("strace_tcp_connects_to_public_addresses", 1)
				} else {
					r.Count("strace_udp_connects_to_other_addresses", 1)
				}
			case p.Mode == "allow":
				if sc.stream {
					r.Count("allow_mode_internal_tcp_connects_seen", 1)
				}
			default:
				key := "c38/connect-to-internal-address"
				if hasProxyEnv && sc.stream && sc.addr.Unmap() == proxyAP.Addr() {
					// same host as the configured proxy, but not the proxy's port
					key = "c38/connect-to-proxy-host-on-another-port"
				}
				c.Fail(key, map[string]any{"msg": fmt.Sprintf("the server process called connect() to %s (stream=%v) during this case", ap, sc.stream),
					"strace": sc.line, "mode": p.Mode, "case": tc, "calls": res.Calls})
			}
		}

		// ---- monitor (2): what the proxy was asked for
		for _, pe := range res.Proxy {
			r.Count("proxied_requests_logged", 1)
			host := pe.Target
			if h, _, err := net.SplitHostPort(pe.Target); err == nil {
				host = h
			}
			host = strings.Trim(host, "[]")
			if a, ok := parseAddr(host); ok {
				if isInternal(a) {
					c.Fail("c38/proxied-request-for-internal-literal", map[string]any{"msg": "the proxy was asked to reach " + pe.Target, "case": tc, "calls": res.Calls})
				}
				continue
			}
			bad := ""
			for _, s := range append(append([]string{}, pe.LastA...), pe.Last6...) {
				if a, ok := parseAddr(s); ok && isInternal(a) {
					bad = s
				}
			}
			switch {
			case bad != "":
				c.Fail("c38/proxied-request-after-internal-answer", map[string]any{"msg": fmt.Sprintf("the proxy was asked to reach %s although the last answers the server received for it were A=%v AAAA=%v", pe.Target, pe.LastA, pe.Last6),
					"case": tc, "calls": res.Calls})
			case !pe.Asked:
				c.Fail("c38/proxied-request-without-lookup", map[string]any{"msg": "the proxy was asked to reach " + pe.Target + " which the server never resolved", "case": tc, "calls": res.Calls})
			}
		}

		// ---- monitor (3): verdicts of the guards against what they were told
		for _, call := range res.Calls {
			dest := call.Arg
			var host string
			if call.What == "dial" {
				host, _, _ = net.SplitHostPort(dest)
			} else if u, err := url.Parse(dest); err == nil {
				host = u.Hostname()
			} else {
				r.Count("unparseable_urls", 1)
				continue
			}
			var seen []netip.Addr
			if a, ok := parseAddr(host); ok {
				seen = append(seen, a)
			}
			for _, ev := range call.DNS {
				if strings.EqualFold(strings.TrimSuffix(ev.Host, "."), strings.TrimSuffix(host, ".")) {
					for _, s := range ev.Addrs {
						if a, ok := parseAddr(s); ok {
							seen = append(seen, a)
						}
					}
				}
			}
			for _, hf := range hostsFile {
				if host == hf {
					seen = append(seen, netip.MustParseAddr("127.0.0.1"))
				}
			}
			sawInternal, sawMapped := false, false
			for _, a := range seen {
				if isInternal(a) {
					sawInternal = true
					if a.Is4In6() {
						sawMapped = true
					}
				}
			}
			if p.Mode == "allow" {
				continue
			}
			if call.What == "do" {
				// decided by monitors (1) and (2); here only counted
				if sawInternal && !call.OK {
					r.Count("do_refused_internal", 1)
				}
				if call.Code != 0 {
					r.Count("do_got_a_response_through_proxy", 1)
				}
				continue
			}
			if tc.Note == "proxy-host-other-port" {
				continue // decided by monitor (1) under its own key
			}
			switch {
			case sawInternal && call.OK:
				c.Fail("c38/"+call.What+"-accepted-internal-address", map[string]any{
					"msg":  fmt.Sprintf("%s(%q) returned nil although the host is / was answered as %v", call.What, dest, seen),
					"case": tc, "dns_served_during_call": call.DNS})
			case sawInternal:
				r.Count(call.What+"_refused_internal", 1)
				if sawMapped {
					r.Count("ipv4_mapped_refused", 1)
				}
			case len(seen) > 0 && call.OK:
				r.Count(call.What+"_allowed_public", 1)
			case len(seen) > 0:
				r.Count(call.What+"_refused_or_failed_non_internal", 1)
			default:
				r.Count(call.What+"_unresolvable_host", 1)
			}
		}
		// rebinding bookkeeping: a guard said yes on a public first answer and the
		// later stage refused after an internal answer
		if strings.HasPrefix(tc.Note, "rebind") && len(res.Calls) == 2 && res.Calls[0].OK && !res.Calls[1].OK {
			r.Count("rebinding_refused_after_public_first_answer", 1)
		}
		if proxied && len(res.Proxy) > 0 && len(tc.Redirects) > 0 && len(res.Calls) > 0 && !res.Calls[len(res.Calls)-1].OK &&
			(strings.Contains(tc.Note, ">internal") || strings.Contains(tc.Note, ">rebind") || strings.Contains(tc.Note, ">mixed") || strings.Contains(tc.Note, ">hostsfile")) {
			r.Count("proxy_redirects_to_internal_refused", 1)
		}
		if c.Index < 2 {
			c.Sample(map[string]any{"mode": p.Mode, "case": tc, "calls": res.Calls, "proxy_log": res.Proxy, "connects_seen_by_strace": len(byCase[tc.I])})
		}
	})
}
