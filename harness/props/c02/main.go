// C02 RunUntil boundaries are invisible.
//
// The same handler program (prog.go) is executed twice on fresh engines
// (runner.go): A with a single Run per phase, B with a sorted list of
// RunUntil boundaries followed by Run. The dispatch sequences must be equal,
// and after every RunUntil(t) the monitors check: nothing later than t was
// handled, nothing at or before t is left, the clock is at the last handled
// event.
package main

import (
	"fmt"
	"io"
	"log"
	"math/rand"
	"sort"

	"verifharness/kit"

	"github.com/sarchlab/akita/v5/timing"
)

func main() {
	kit.Main(kit.Prop{
		ID:    "C02",
		Level: "exploration",
		Rule: "handler programs as in C01 (7 flavours, 1-3 phases); per phase 1-12 boundaries drawn at / one below / one above / between event times of the single-Run execution, " +
			"before the first and beyond the last event, 0, 2^64-1 and repeats, sorted; hooks attached independently to either run; " +
			"a case is non-trivial when the program has >= 20 events, some boundary coincided with an event time and some RunUntil call handled part of what was queued and left the rest; " +
			"distinct by (dispatch sequence, boundary list)",
		Assumptions: []string{
			"boundary lists are non-decreasing within a phase (the quantifier of the property); a boundary may lie before the current time (then nothing may run)",
			"the single-Run execution is the specification; its own order is C01's concern",
		},
		Plan: func(tier string, seed int64) []kit.Batch {
			nb, n, budget := 16, 600, 600
			if tier == "thorough" {
				nb, n, budget = 64, 500, 5000
			}
			var bs []kit.Batch
			for i := 0; i < nb; i++ {
				bn, bb := n, budget
				if tier != "thorough" && i%8 == 7 {
					// two batches of few but big programs: thousands of events pending at once
					// (queue growth / shrink paths), which the small-program batches never reach
					bn, bb = n/12, 6000
				}
				bs = append(bs, kit.Batch{Name: fmt.Sprintf("prog%d", i), Seed: seed*1000 + int64(i), N: bn,
					Params: kit.MkParams(map[string]int{"budget": bb})})
			}
			return bs
		},
		Run: run,
		MustObserve: []string{"rununtil_calls", "boundaries_at_an_event_time", "boundaries_between_event_times", "boundaries_beyond_last_event",
			"boundaries_repeated", "calls_handling_some_and_leaving_some", "calls_handling_nothing",
			"events_scheduled_and_handled_within_one_rununtil", "events_left_queued_across_a_boundary"},
	})
}

type boundary struct {
	T    uint64 `json:"t"`
	Kind string `json:"kind"`
}

// genBoundaries draws a sorted boundary list around the event times ts
// (non-decreasing, from the single-Run execution of the phase).
func genBoundaries(rng *rand.Rand, ts []uint64) []boundary {
	n := 1 + rng.Intn(12)
	var bs []boundary
	for i := 0; i < n; i++ {
		var b boundary
		k := rng.Intn(10)
		if len(ts) == 0 && k < 6 {
			k = 8
		}
		switch k {
		case 0, 1:
			b = boundary{ts[rng.Intn(len(ts))], "at"}
		case 2:
			t := ts[rng.Intn(len(ts))]
			if t > 0 {
				t--
			}
			b = boundary{t, "below"}
		case 3:
			b = boundary{addT(ts[rng.Intn(len(ts))], 1), "above"}
		case 4:
			j := rng.Intn(len(ts))
			lo, hi := ts[j], ts[len(ts)-1]
			if j+1 < len(ts) {
				hi = ts[j+1]
			}
			b = boundary{lo + (hi-lo)/2, "between"}
		case 5:
			b = boundary{addT(ts[len(ts)-1], 1+uint64(rng.Intn(1000))), "beyond"}
		case 6:
			b = boundary{0, "zero"}
		case 7:
			b = boundary{maxT, "max"}
		case 8:
			b = boundary{rng.Uint64() >> uint(rng.Intn(64)), "random"}
		default:
			if len(bs) > 0 {
				b = boundary{bs[rng.Intn(len(bs))].T, "repeat"}
			} else {
				b = boundary{uint64(rng.Intn(50)), "random"}
			}
		}
		bs = append(bs, b)
	}
	sort.SliceStable(bs, func(i, j int) bool { return bs[i].T < bs[j].T })
	return bs
}

func flush(c *kit.Case, rr *runner, tag string) {
	seen := map[string]bool{}
	for _, f := range rr.fails {
		if !seen[f.key] {
			seen[f.key] = true
			c.Failf(f.key, "run %s: %s", tag, f.msg)
		}
	}
}

func run(b kit.Batch, r *kit.R) {
	log.SetOutput(io.Discard)
	var prm struct {
		Budget int `json:"budget"`
	}
	b.P(&prm)
	r.ForEach(b.N, func(c *kit.Case) {
		p := genProgram(c.Rng, prm.Budget)
		p.ProbePast = false // C01's business
		hookA, hookB := c.Rng.Intn(2) == 0, c.Rng.Intn(2) == 0
		A, B := newRunner(p, hookA), newRunner(p, hookB)
		var allBounds [][]boundary
		desc := map[string]any{"program": p, "hooks_single_run": hookA, "hooks_rununtil": hookB}
		c.Desc(desc)
		defer func() { flush(c, A, "A(single Run)"); flush(c, B, "B(RunUntil)") }()

		atEvent, split, sawBetween := false, false, false
		for ph := range p.Phases {
			// A: single Run
			a0 := len(A.steps)
			A.scheduleRoots(ph)
			if err := A.eng.Run(); err != nil {
				A.fail("serial/run-error", "Run returned %v", err)
			}
			var ts []uint64
			for _, s := range A.steps[a0:] {
				ts = append(ts, s.t)
			}
			bounds := genBoundaries(c.Rng, ts)
			allBounds = append(allBounds, bounds)
			desc[fmt.Sprintf("boundaries_phase%d", ph)] = bounds

			// B: boundaries, then Run
			B.scheduleRoots(ph)
			for bi, bd := range bounds {
				n0, sched0 := len(B.steps), B.nSched
				clock0 := uint64(B.eng.CurrentTime())
				pend0 := B.pending
				if err := B.eng.RunUntil(timing.VTimeInPicoSec(bd.T)); err != nil {
					B.fail("rununtil/error", "RunUntil(%d) returned %v", bd.T, err)
				}
				clock := uint64(B.eng.CurrentTime())
				handled := B.steps[n0:]
				for _, s := range handled {
					if s.t > bd.T {
						B.fail("rununtil/handled-beyond-boundary", "phase %d: RunUntil(%d) [%s, #%d] handled event %x at %d", ph, bd.T, bd.Kind, bi, s.uid, s.t)
						break
					}
				}
				if e, left := B.pendingAtOrBefore(bd.T); left {
					B.fail("rununtil/left-event-at-or-before-boundary", "phase %d: RunUntil(%d) [%s, #%d] returned with event %x @%d (secondary=%v) still queued; %d handled in the call",
						ph, bd.T, bd.Kind, bi, e.uid, e.t, e.sec, len(handled))
				}
				wantClock := clock0
				if len(handled) > 0 {
					wantClock = handled[len(handled)-1].t
				}
				if clock != wantClock {
					B.fail("rununtil/clock", "phase %d: after RunUntil(%d) [%s] CurrentTime()=%d, want %d (%d handled in the call, clock before %d)",
						ph, bd.T, bd.Kind, clock, wantClock, len(handled), clock0)
				}
				// observations
				r.Count("rununtil_calls", 1)
				switch bd.Kind {
				case "at":
					r.Count("boundaries_at_an_event_time", 1)
					atEvent = true
				case "between", "below", "above":
					r.Count("boundaries_between_event_times", 1)
					sawBetween = true
				case "beyond", "max":
					r.Count("boundaries_beyond_last_event", 1)
				case "repeat":
					r.Count("boundaries_repeated", 1)
				case "zero":
					r.Count("boundaries_zero", 1)
				}
				if bd.T < clock0 {
					r.Count("boundaries_before_current_time", 1)
				}
				if len(handled) == 0 {
					r.Count("calls_handling_nothing", 1)
				} else if B.pending > 0 {
					r.Count("calls_handling_some_and_leaving_some", 1)
					r.Count("events_left_queued_across_a_boundary", int64(B.pending))
					split = true
				}
				if len(handled) > 0 && len(handled) >= pend0 && B.pending == 0 {
					r.Count("calls_draining_the_queue", 1)
				}
				for _, s := range handled {
					if B.info[s.uid].schedIdx >= sched0 {
						r.Count("events_scheduled_and_handled_within_one_rununtil", 1)
					}
				}
			}
			if err := B.eng.Run(); err != nil {
				B.fail("serial/run-error", "Run returned %v", err)
			}
			if len(A.steps) != len(B.steps) {
				B.fail("rununtil/order-differs-from-single-run", "end of phase %d: single Run handled %d events, RunUntil sequence %d", ph, len(A.steps), len(B.steps))
			}
			if A.eng.CurrentTime() != B.eng.CurrentTime() {
				B.fail("rununtil/clock", "end of phase %d: clocks differ, single Run %d, RunUntil sequence %d", ph, A.eng.CurrentTime(), B.eng.CurrentTime())
			}
		}
		A.checkComplete("single Run")
		B.checkComplete("RunUntil sequence")
		if i := firstDiff(B.steps, A.steps); i >= 0 {
			B.fail("rununtil/order-differs-from-single-run", "dispatch sequences differ at step %d: with RunUntil %v, single Run %v; boundaries %v",
				i, window(B.steps, i), window(A.steps, i), allBounds)
		}

		r.Count("events_handled_per_run", int64(len(A.steps)))
		r.Count("programs", 1)
		if hookA != hookB {
			r.Count("programs_with_hooks_on_one_side_only", 1)
		}
		if len(p.Phases) > 1 {
			r.Count("programs_with_several_phases", 1)
		}
		r.Max("max_events_in_one_program", int64(len(A.steps)))
		r.Max("max_pending_events", int64(B.maxPending))
		bh := uint64(7)
		for _, bs := range allBounds {
			for _, x := range bs {
				bh = mix(bh ^ x.T)
			}
			bh = mix(bh)
		}
		r.Distinct("dispatch_order_hashes", fmt.Sprintf("%x", seqHash(A.steps)))
		nontrivial := len(A.steps) >= 20 && atEvent && split
		_ = sawBetween
		if nontrivial {
			c.Nontrivial(fmt.Sprintf("%x/%x", seqHash(A.steps), bh))
		}
		if nontrivial && len(A.steps) <= 40 {
			var seq []string
			for _, s := range A.steps {
				e := A.info[s.uid].e
				cls := "P"
				if e.sec {
					cls = "S"
				}
				seq = append(seq, fmt.Sprintf("%s@%d", cls, e.t))
			}
			c.Sample(map[string]any{"program": p, "boundaries_per_phase": allBounds, "dispatch(class@time)": seq})
		}
	})
}
