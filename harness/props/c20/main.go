// C20 Storage is a bounded flat byte array: model-based monitoring of
// mem.Storage against a sparse zero-default byte map with a capacity.
package main

import (
	"bytes"
	"fmt"
	"hash/fnv"
	"math/rand"

	"verifharness/kit"

	"github.com/sarchlab/akita/v5/mem"
)

const top = ^uint64(0)

type shape struct {
	Cap  uint64
	Unit uint64
}

func pickUnit(rng *rand.Rand) uint64 {
	switch rng.Intn(6) {
	case 0:
		return uint64(1) << uint(rng.Intn(14)) // 1..8192
	case 1:
		return []uint64{3, 5, 7, 10, 24, 100, 1000, 4095, 4097, 6000, 8191}[rng.Intn(11)]
	case 2:
		return 4096
	case 3:
		return 1 + uint64(rng.Intn(16))
	default:
		return 1 + uint64(rng.Intn(8192))
	}
}

func pickCap(rng *rand.Rand, unit uint64) uint64 {
	switch rng.Intn(10) {
	case 0: // tiny, including 0
		return uint64(rng.Intn(65))
	case 1, 2: // a few units plus a remainder (not a multiple of the unit)
		return unit*uint64(1+rng.Intn(6)) + uint64(rng.Int63n(int64(unit)))
	case 3: // exact multiple of the unit
		return unit * uint64(1+rng.Intn(8))
	case 4: // smaller than one unit
		return 1 + uint64(rng.Int63n(int64(unit)))
	case 5: // mid-sized
		return 1 + uint64(rng.Int63n(1<<40))
	case 6: // the largest capacity there is
		return top
	case 7: // within a few bytes / units of 2^64
		return top - uint64(rng.Intn(40))
	case 8:
		return top - uint64(rng.Int63n(int64(4*unit+2)))
	default:
		return (uint64(1) << 63) + uint64(rng.Intn(5)) - 2
	}
}

// model is the reference: a sparse, zero-default byte array (256-byte chunks) with a capacity.
type model struct {
	cap    uint64
	chunks map[uint64]*[256]byte
}

func (m *model) valid(addr, n uint64) bool {
	return n == 0 || (addr < m.cap && n <= m.cap-addr)
}

func (m *model) read(addr, n uint64) []byte {
	out := make([]byte, n)
	for i := uint64(0); i < n; i++ {
		a := addr + i
		if ch := m.chunks[a>>8]; ch != nil {
			out[i] = ch[a&255]
		}
	}
	return out
}

func (m *model) write(addr uint64, d []byte) {
	for i, b := range d {
		a := addr + uint64(i)
		ch := m.chunks[a>>8]
		if ch == nil {
			ch = new([256]byte)
			m.chunks[a>>8] = ch
		}
		ch[a&255] = b
	}
}

// oobClass names the way a range [addr, addr+n) with n>0 leaves the capacity.
func oobClass(cap, addr, n uint64) string {
	switch {
	case addr+n < addr || addr+n == 0 && n > 0: // end is 2^64 or beyond
		return "wraparound"
	case addr == cap:
		return "start-at-capacity"
	case addr > cap:
		return "start-beyond-capacity"
	default:
		return "overrun-past-capacity"
	}
}

type interval struct{ a, n uint64 }

// inRangeParts returns the parts of the (possibly wrapping) byte range
// [addr-pad, addr+n+pad) that lie inside [0, cap).
func inRangeParts(cap, addr, n, pad uint64) []interval {
	var segs []interval
	lo := addr - pad
	if addr < pad {
		lo = 0
	}
	span := n + pad + (addr - lo)
	if lo+span < lo { // wraps: [lo, 2^64) and [0, rest)
		segs = append(segs, interval{lo, top - lo}) // up to 2^64-2; byte 2^64-1 is never in range
		segs = append(segs, interval{0, lo + span})
	} else {
		segs = append(segs, interval{lo, span})
	}
	var out []interval
	for _, s := range segs {
		if s.a >= cap || s.n == 0 {
			continue
		}
		if s.n > cap-s.a {
			s.n = cap - s.a
		}
		out = append(out, s)
	}
	return out
}

func main() {
	kit.Main(kit.Prop{
		ID:    "C20",
		Level: "exploration",
		Rule: "a case = one storage shape (capacity: 0, tiny, sub-unit, multiple and non-multiple of the unit, mid, 2^63, within a few units of 2^64, 2^64-1; " +
			"unit 1..8192 incl. non-powers of two) and a PRNG history of 40-160 Read/Write/zero-length/checkpoint operations whose addresses cluster on a few hot bases, " +
			"on unit boundaries, on capacity-k..capacity+k and on 2^64-k; every operation is compared with a sparse zero-default byte-map model with a capacity; " +
			"a case is non-trivial when a read returned previously written non-zero bytes and at least one out-of-range access was judged; distinct by (shape, hash of the operation list)",
		Assumptions: []string{
			"unit size >= 1; single-threaded use",
			"zero-length accesses are performed but their result is not judged",
			"checkpoints are loaded into a fresh storage of the same capacity and unit size",
		},
		Plan: func(tier string, seed int64) []kit.Batch {
			nb, n := 16, 150
			if tier == "thorough" {
				nb, n = 32, 3000
			}
			var bs []kit.Batch
			for i := 0; i < nb; i++ {
				bs = append(bs, kit.Batch{Name: fmt.Sprintf("hist%d", i), Seed: seed*1000 + int64(i), N: n})
			}
			return bs
		},
		Run: run,
		MustObserve: []string{
			"oob_judged_wraparound", "oob_judged_start-at-capacity", "oob_judged_overrun-past-capacity",
			"oob_judged_start-beyond-capacity", "valid_access_ending_exactly_at_capacity",
			"valid_access_spanning_units", "reads_returning_written_bytes", "checkpoints_verified",
			"neighbourhood_readbacks_after_refusal",
		},
	})
}

func run(b kit.Batch, r *kit.R) {
	r.ForEach(b.N, func(c *kit.Case) { oneCase(c, r) })
}

func oneCase(c *kit.Case, r *kit.R) {
	rng := c.Rng
	unit := pickUnit(rng)
	sh := shape{Cap: pickCap(rng, unit), Unit: unit}
	nOps := 40 + rng.Intn(121)
	c.Desc(map[string]any{"capacity": fmt.Sprint(sh.Cap), "unit": sh.Unit, "ops": nOps})
	s := mem.NewStorageWithUnitSize(sh.Cap, sh.Unit)
	m := &model{cap: sh.Cap, chunks: map[uint64]*[256]byte{}}
	if s.Capacity() != sh.Cap {
		c.Failf("storage/capacity-accessor", "Capacity()=%d, built with %d", s.Capacity(), sh.Cap)
	}

	// hot bases make reads meet earlier writes
	var hot []uint64
	hot = append(hot, 0)
	if sh.Cap > 0 {
		hot = append(hot, sh.Cap-1-uint64(rng.Int63n(int64(min64(sh.Cap, 2*unit+1)))))
		hot = append(hot, uint64(rng.Int63n(int64(min64(sh.Cap, 1<<62)))))
		hot = append(hot, (sh.Cap-1)/unit*unit) // base of the last unit
		if sh.Cap > unit {
			hot = append(hot, unit*uint64(1+rng.Int63n(int64(min64((sh.Cap-1)/unit, 6)))))
		}
	}
	var touched []interval
	opHash := fnv.New64a()
	sawWritten, oobJudged := false, 0
	var trace []string
	note := func(format string, a ...any) {
		line := fmt.Sprintf(format, a...)
		fmt.Fprint(opHash, line, ";")
		if len(trace) < 12 {
			trace = append(trace, line)
		}
	}

	pickLen := func() uint64 {
		switch rng.Intn(6) {
		case 0:
			return 1
		case 1, 2:
			return 1 + uint64(rng.Intn(16))
		case 3:
			return uint64(max64(1, int64(unit)+int64(rng.Intn(5))-2))
		case 4:
			return 1 + uint64(rng.Int63n(int64(3*unit+4)))
		default:
			return 1 + uint64(rng.Int63n(int64(unit)))
		}
	}
	pickAddr := func(n uint64) uint64 {
		switch rng.Intn(12) {
		case 0, 1, 2, 3: // around a hot base
			h := hot[rng.Intn(len(hot))]
			return h + uint64(rng.Int63n(int64(unit+8))) - uint64(rng.Intn(4))
		case 4: // ends exactly at the capacity (valid when it fits)
			return sh.Cap - n
		case 5: // straddles or touches the capacity
			return sh.Cap - uint64(rng.Int63n(int64(n+2)))
		case 6: // at or just beyond the capacity
			return sh.Cap + uint64(rng.Intn(3))*uint64(rng.Intn(int(unit)+1))
		case 7: // top of the address space: ends at or wraps past 2^64
			return top - uint64(rng.Int63n(int64(n+2)))
		case 8: // unit boundary
			h := hot[rng.Intn(len(hot))]
			return h/unit*unit + unit - uint64(rng.Int63n(int64(min64(n+1, unit+1))))
		case 9: // far beyond the capacity
			return sh.Cap + uint64(rng.Int63n(1<<40))
		default:
			if sh.Cap == 0 {
				return 0
			}
			return uint64(rng.Int63n(int64(min64(sh.Cap, 1<<62))))
		}
	}

	// verify compares the in-range parts with the model.
	verify := func(st *mem.Storage, parts []interval, key, why string) bool {
		ok := true
		for _, p := range parts {
			got, err := st.Read(p.a, p.n)
			if err != nil {
				c.Failf("storage/inrange-read-error", "%s: Read(%d,%d) on capacity %d unit %d: %v", why, p.a, p.n, sh.Cap, sh.Unit, err)
				return false
			}
			want := m.read(p.a, p.n)
			if !bytes.Equal(got, want) {
				i := firstDiff(got, want)
				c.Failf(key, "%s: byte at %d is %d, model says %d (capacity %d unit %d; range %d+%d)",
					why, p.a+uint64(i), at(got, i), at(want, i), sh.Cap, sh.Unit, p.a, p.n)
				ok = false
			}
		}
		return ok
	}
	heal := func(parts []interval) bool {
		for _, p := range parts {
			if err := s.Write(p.a, m.read(p.a, p.n)); err != nil {
				return false
			}
		}
		return true
	}

	for op := 0; op < nOps; op++ {
		kind := rng.Intn(40)
		switch {
		case kind == 0: // zero-length access: performed, not judged
			addr := pickAddr(0)
			func() {
				defer func() { recover() }()
				if rng.Intn(2) == 0 {
					s.Read(addr, 0)
				} else {
					s.Write(addr, nil)
				}
			}()
			r.Count("zero_length_accesses_not_judged", 1)
			note("z@%d", addr)

		case kind == 1: // checkpoint into a same-shape storage, continue on the copy
			var buf bytes.Buffer
			if err := s.SaveCheckpoint(&buf); err != nil {
				c.Failf("storage/checkpoint-save-error", "SaveCheckpoint: %v", err)
				return
			}
			s2 := mem.NewStorageWithUnitSize(sh.Cap, sh.Unit)
			var scribbled []interval
			if rng.Intn(2) == 0 && sh.Cap > 0 {
				// the receiving storage is not pristine (a roll-back inside one process): scribble over it first,
				// both at places the checkpoint holds and at places it does not
				for k := 0; k < 6; k++ {
					a := uint64(rng.Int63n(int64(min64(sh.Cap, 1<<62))))
					if k%2 == 0 && len(touched) > 0 {
						a = touched[rng.Intn(len(touched))].a
					}
					n := uint64(1 + rng.Intn(24))
					if a < sh.Cap && n <= sh.Cap-a {
						junk := make([]byte, n)
						for i := range junk {
							junk[i] = 0xA5
						}
						s2.Write(a, junk)
						scribbled = append(scribbled, interval{a, n})
					}
				}
				r.Count("checkpoints_loaded_into_a_used_storage", 1)
			}
			if err := s2.LoadCheckpoint(bytes.NewReader(buf.Bytes())); err != nil {
				c.Failf("storage/checkpoint-load-error", "LoadCheckpoint into same shape (capacity %d unit %d): %v", sh.Cap, sh.Unit, err)
				return
			}
			ok := true
			for _, t := range scribbled {
				if !verify(s2, []interval{t}, "storage/checkpoint-load-keeps-old-contents", "after checkpoint load into a used storage") {
					ok = false
					break
				}
			}
			for _, t := range touched {
				if !ok {
					break
				}
				if !verify(s2, []interval{t}, "storage/checkpoint-contents-differ", "after checkpoint load") {
					ok = false
					break
				}
			}
			// an untouched place must still read as zero
			if sh.Cap > 0 {
				a := uint64(rng.Int63n(int64(min64(sh.Cap, 1<<62))))
				ok = verify(s2, inRangeParts(sh.Cap, a, 1, 0), "storage/checkpoint-contents-differ", "after checkpoint load (random probe)") && ok
			}
			if !ok {
				return
			}
			r.Count("checkpoints_verified", 1)
			r.Max("checkpoint_bytes_max", int64(buf.Len()))
			s = s2
			note("ckpt")

		case kind < 21: // write
			n := pickLen()
			addr := pickAddr(n)
			data := make([]byte, n)
			for i := range data {
				data[i] = byte(1 + rng.Intn(255))
			}
			note("w@%d+%d", addr, n)
			var parts []interval
			if !m.valid(addr, n) { // the neighbourhood must agree with the model before the refused access ...
				parts = inRangeParts(sh.Cap, addr, n, 8)
				if !verify(s, parts, "storage/read-data-mismatch", "before an out-of-range write") {
					return
				}
			}
			err := s.Write(addr, data)
			if m.valid(addr, n) {
				r.Count("valid_writes", 1)
				if err != nil {
					c.Failf("storage/inrange-write-error", "Write(%d, %d bytes) on capacity %d unit %d: %v", addr, n, sh.Cap, sh.Unit, err)
					return
				}
				m.write(addr, data)
				if len(touched) < 256 {
					touched = append(touched, interval{addr, n})
				}
				countValid(r, sh, addr, n)
				continue
			}
			cls := oobClass(sh.Cap, addr, n)
			r.Count("oob_judged_"+cls, 1)
			oobJudged++
			if err == nil {
				c.Failf("storage/oob-accepted/"+cls, "Write(%d, %d bytes) on capacity %d unit %d returned no error", addr, n, sh.Cap, sh.Unit)
			}
			r.Count("neighbourhood_readbacks_after_refusal", int64(len(parts))) // ... and after it
			key := "storage/refused-write-changed-contents"
			if err == nil {
				key = "storage/oob-accepted/" + cls // consequence of the acceptance, same defect
			}
			if !verify(s, parts, key, fmt.Sprintf("after out-of-range Write(%d, %d bytes) (err=%v)", addr, n, err)) {
				if !heal(parts) {
					return
				}
				r.Count("storage_healed_after_violation", 1)
			}

		default: // read
			n := pickLen()
			addr := pickAddr(n)
			note("r@%d+%d", addr, n)
			var parts []interval
			if !m.valid(addr, n) {
				parts = inRangeParts(sh.Cap, addr, n, 8)
				if !verify(s, parts, "storage/read-data-mismatch", "before an out-of-range read") {
					return
				}
			}
			got, err := s.Read(addr, n)
			if m.valid(addr, n) {
				r.Count("valid_reads", 1)
				if err != nil {
					c.Failf("storage/inrange-read-error", "Read(%d,%d) on capacity %d unit %d: %v", addr, n, sh.Cap, sh.Unit, err)
					return
				}
				want := m.read(addr, n)
				if !bytes.Equal(got, want) {
					i := firstDiff(got, want)
					c.Failf("storage/read-data-mismatch", "Read(%d,%d) capacity %d unit %d: len %d (want %d); first difference at +%d: got %d want %d",
						addr, n, sh.Cap, sh.Unit, len(got), n, i, at(got, i), at(want, i))
					return
				}
				for _, x := range want {
					if x != 0 {
						sawWritten = true
						r.Count("reads_returning_written_bytes", 1)
						break
					}
				}
				countValid(r, sh, addr, n)
				continue
			}
			cls := oobClass(sh.Cap, addr, n)
			r.Count("oob_judged_"+cls, 1)
			oobJudged++
			if err == nil {
				c.Failf("storage/oob-accepted/"+cls, "Read(%d,%d) on capacity %d unit %d returned %d bytes and no error", addr, n, sh.Cap, sh.Unit, len(got))
			}
			r.Count("neighbourhood_readbacks_after_refusal", int64(len(parts)))
			verify(s, parts, "storage/refused-read-changed-contents", fmt.Sprintf("after out-of-range Read(%d,%d)", addr, n))
		}
	}
	// final sweep over everything written
	for _, t := range touched {
		if !verify(s, []interval{t}, "storage/final-contents-differ", "final sweep") {
			break
		}
	}
	r.Count("operations", int64(nOps))
	r.Distinct("unit_sizes", fmt.Sprint(sh.Unit))
	r.Distinct("capacity_mod_unit", fmt.Sprint(sh.Cap%sh.Unit))
	if sh.Cap >= top-uint64(8*8192) {
		r.Count("storages_with_capacity_near_2^64", 1)
	}
	if sawWritten && oobJudged > 0 {
		c.Nontrivial(fmt.Sprintf("%d/%d/%x", sh.Cap, sh.Unit, opHash.Sum64()))
	}
	c.Sample(map[string]any{"capacity": fmt.Sprint(sh.Cap), "unit": sh.Unit, "ops": nOps, "first_ops": trace, "oob_judged": oobJudged})
}

func countValid(r *kit.R, sh shape, addr, n uint64) {
	if addr+n == sh.Cap {
		r.Count("valid_access_ending_exactly_at_capacity", 1)
	}
	if addr/sh.Unit != (addr+n-1)/sh.Unit {
		r.Count("valid_access_spanning_units", 1)
	}
}

func firstDiff(a, b []byte) int {
	for i := 0; i < len(a) && i < len(b); i++ {
		if a[i] != b[i] {
			return i
		}
	}
	if len(a) < len(b) {
		return len(a)
	}
	return len(b)
}

func at(a []byte, i int) int {
	if i < len(a) {
		return int(a[i])
	}
	return -1
}

func min64(a, b uint64) uint64 {
	if a < b {
		return a
	}
	return b
}

func max64(a, b int64) int64 {
	if a > b {
		return a
	}
	return b
}
