// C19 Cache directories stay well-formed.
//
// An AfterEvent engine hook walks the directory of every cache after each of
// its events; a tagged source hook (cache.VerifRetag) reports every block at
// the moment it is given a new identity, with its lock/reader state.
package main

import (
	"encoding/json"
	"fmt"
	"hash/fnv"

	"verifharness/kit"
	"verifharness/kit/sim"

	"github.com/sarchlab/akita/v5/hooking"
	"github.com/sarchlab/akita/v5/mem/cache"
	"github.com/sarchlab/akita/v5/timing"
)

type params struct {
	NumReqs int `json:"num_reqs"`
}

func main() {
	kit.Main(kit.Prop{
		ID:    "C19",
		Level: "exploration",
		Rule: "each case is a PRNG-drawn hierarchy containing at least one cache (write-back and the three write-through policies, 1-8 sets, 1-4 ways, 1-4 MSHRs) driven by a random read/write stream; " +
			"after every event handled by a cache its whole directory is walked (recency order is a permutation of the ways, valid blocks unique by line+process, every valid block in the set its line maps to, reader counts >= 0) and every re-tag of a block " +
			"is checked against its lock/reader state at that moment. Non-trivial: at least one replacement of a valid block was observed; distinct by configuration",
		Assumptions: []string{"the re-tag hook sits at all six sites that assign BlockState.Tag (three in the write-back directory stage, three in the write-through cache)"},
		Plan: func(tier string, seed int64) []kit.Batch {
			nb, n, nreq := 16, 4, 400
			if tier == "thorough" {
				nb, n, nreq = 48, 60, 2000
			}
			var bs []kit.Batch
			for i := 0; i < nb; i++ {
				bs = append(bs, kit.Batch{Name: fmt.Sprintf("dir%d", i), Seed: seed*7877 + int64(i), N: n, Params: kit.MkParams(params{NumReqs: nreq})})
			}
			return bs
		},
		Run:         run,
		MustObserve: []string{"directory_snapshots_checked", "retags_observed", "replacements_of_valid_blocks", "retag_while_other_way_locked"},
	})
}

type dirInfo struct {
	state     func() *cache.DirectoryState
	blockSize int
	numSets   int
	ways      int
}

type walker struct {
	c    *kit.Case
	cfg  sim.StackCfg
	dirs map[string]dirInfo
}

func (w *walker) Func(ctx hooking.HookCtx) {
	if ctx.Pos != timing.HookPosAfterEvent {
		return
	}
	e, ok := ctx.Item.(timing.Event)
	if !ok {
		return
	}
	d, ok := w.dirs[e.HandlerID()]
	if !ok {
		return
	}
	w.walk(e.HandlerID(), d, e.Time())
}

func (w *walker) walk(name string, d dirInfo, now timing.VTimeInPicoSec) {
	r := w.c.R
	ds := d.state()
	r.Count("directory_snapshots_checked", 1)
	h := fnv.New64a()
	seen := map[[2]uint64][2]int{}
	for si, set := range ds.Sets {
		// recency order is a permutation of the ways
		if len(set.LRUOrder) != len(set.Blocks) {
			w.c.Fail("dir/lru-not-permutation", map[string]any{"cache": name, "set": si, "lru": set.LRUOrder, "ways": len(set.Blocks), "t": now, "cfg": w.cfg})
		} else {
			mark := make([]bool, len(set.Blocks))
			for _, way := range set.LRUOrder {
				if way < 0 || way >= len(mark) || mark[way] {
					w.c.Fail("dir/lru-not-permutation", map[string]any{"cache": name, "set": si, "lru": set.LRUOrder, "t": now, "cfg": w.cfg})
					break
				}
				mark[way] = true
			}
		}
		for wi, b := range set.Blocks {
			if b.ReadCount < 0 {
				w.c.Fail("dir/negative-read-count", map[string]any{"cache": name, "set": si, "way": wi, "block": b, "t": now, "cfg": w.cfg})
			}
			if !b.IsValid {
				continue
			}
			k := [2]uint64{b.Tag, uint64(b.PID)}
			if prev, dup := seen[k]; dup {
				w.c.Fail("dir/duplicate-valid-line", map[string]any{"cache": name, "tag": b.Tag, "pid": b.PID, "at": [][2]int{prev, {si, wi}}, "t": now, "cfg": w.cfg})
			}
			seen[k] = [2]int{si, wi}
			if want := cache.DirectorySetID(b.Tag, d.blockSize, d.numSets); want != si {
				w.c.Fail("dir/block-in-wrong-set", map[string]any{"cache": name, "tag": b.Tag, "set": si, "maps_to": want, "t": now, "cfg": w.cfg})
			}
			fmt.Fprintf(h, "%d.%d.%d.%v.%v.%d|", si, wi, b.Tag, b.IsDirty, b.IsLocked, b.ReadCount)
		}
		fmt.Fprint(h, set.LRUOrder)
	}
	r.Distinct("directory_states", fmt.Sprintf("%s/%x", name, h.Sum64()))
}

func run(b kit.Batch, r *kit.R) {
	var p params
	b.P(&p)
	r.ForEach(b.N, func(c *kit.Case) {
		cfg := sim.RandomStackCfg(c.Rng, sim.GenOpts{NumReqs: p.NumReqs, AllowDRAM: false, AllowBanked: true, MaxDrivers: 3, ForceCache: true, RspStall: true})
		c.Desc(cfg)
		s := sim.BuildStack(cfg, r.WorkDir)
		defer s.Close()
		w := &walker{c: c, cfg: cfg, dirs: map[string]dirInfo{}}
		for _, x := range s.WB {
			x := x
			sp := x.Spec()
			w.dirs[x.Name()] = dirInfo{state: func() *cache.DirectoryState { return &x.State.DirectoryState }, blockSize: 1 << sp.Log2BlockSize, numSets: sp.NumSets, ways: sp.WayAssociativity}
		}
		for _, x := range s.WT {
			x := x
			sp := x.Spec()
			w.dirs[x.Name()] = dirInfo{state: func() *cache.DirectoryState { return &x.State.DirectoryState }, blockSize: 1 << sp.Log2BlockSize, numSets: sp.NumSets, ways: sp.WayAssociativity}
		}
		s.Engine.AcceptHook(w)
		replaced := 0
		cache.VerifRetagObserver = func(old cache.BlockState, newTag uint64, newPID uint32) {
			r.Count("retags_observed", 1)
			changes := !old.IsValid || old.Tag != newTag || old.PID != newPID
			if !changes {
				r.Count("retags_same_line(write_hit)", 1)
				return
			}
			if old.IsValid {
				replaced++
				r.Count("replacements_of_valid_blocks", 1)
				if old.IsDirty {
					r.Count("replacements_of_dirty_blocks", 1)
				}
			}
			if old.IsLocked || old.ReadCount != 0 {
				c.Fail("dir/replaced-busy-block", map[string]any{"old_block": old, "new_tag": newTag, "new_pid": newPID, "t": s.Engine.CurrentTime(), "cfg": cfg})
			}
			// was another way of that set busy at this moment? (shows the victim choice had to skip it)
			for _, d := range w.dirs {
				ds := d.state()
				if old.SetID < len(ds.Sets) {
					for wi, ob := range ds.Sets[old.SetID].Blocks {
						if wi != old.WayID && (ob.IsLocked || ob.ReadCount > 0) {
							r.Count("retag_while_other_way_locked", 1)
							return
						}
					}
				}
			}
		}
		defer func() { cache.VerifRetagObserver = nil }()
		total := 0
		for _, d := range s.Drivers {
			total += d.Spec().NumReqs
		}
		s.Start()
		s.Engine.RunUntil(timing.VTimeInPicoSec(total) * 200000 * 1000)
		for _, d := range s.Drivers {
			if !d.Done() || d.State.ErrCount > 0 {
				r.Count("runs_not_clean(C16_judges_them)", 1)
			}
		}
		if replaced > 0 {
			j, _ := json.Marshal(cfg)
			c.Nontrivial(string(j))
		}
		c.Sample(map[string]any{"cfg": cfg, "replacements": replaced})
	})
}
