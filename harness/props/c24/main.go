// C24 Interleaved address conversion is consistent and order-preserving:
// relational + closed-form oracle over the set of addresses owned by an element.
package main

import (
	"fmt"
	"io"
	"log"
	"math/rand"

	"verifharness/kit"

	"github.com/sarchlab/akita/v5/mem"
	"github.com/sarchlab/akita/v5/messaging"
)

const top = ^uint64(0)

type cfg struct {
	Size, Off uint64
	N         int
}

func pickSize(rng *rand.Rand) uint64 {
	switch rng.Intn(6) {
	case 0:
		return uint64(1) << uint(rng.Intn(13)) // 1..4096
	case 1:
		return []uint64{64, 128, 256, 4096}[rng.Intn(4)]
	case 2:
		return []uint64{3, 6, 48, 100, 192, 1000, 4097}[rng.Intn(7)]
	case 3:
		return uint64(1) << uint(12+rng.Intn(21)) // up to 2^32
	default:
		return 1 + uint64(rng.Intn(10000))
	}
}

func pickOff(rng *rand.Rand, size, round uint64) (uint64, string) {
	switch rng.Intn(8) {
	case 0:
		return 0, "zero"
	case 1:
		return round * uint64(rng.Int63n(1<<16)), "multiple-of-round"
	case 2:
		return size * uint64(rng.Int63n(1<<16)), "multiple-of-size"
	case 3:
		return uint64(rng.Int63n(int64(size))), "below-size"
	case 4:
		return size*uint64(rng.Int63n(1<<16)) + uint64(rng.Int63n(int64(size))), "unaligned"
	case 5:
		return (uint64(1) << 63) + uint64(rng.Int63n(1<<20)), "around-2^63"
	case 6:
		return round*uint64(rng.Int63n(1<<10)) + 16, "round-multiple-plus-16"
	default:
		return uint64(rng.Int63n(1 << 40)), "random"
	}
}

// call runs f and reports whether it was refused by a panic.
func call(f func() uint64) (v uint64, refused bool) {
	defer func() {
		if e := recover(); e != nil {
			refused = true
		}
	}()
	return f(), false
}

func main() {
	kit.Main(kit.Prop{
		ID:    "C24",
		Level: "exploration",
		Rule: "a case = one configuration (interleaving size: powers of two 1..2^32 and non-powers; 1..16 elements; offset 0, multiple of the round, multiple of the size only, unaligned, around 2^63) " +
			"and 48 addresses (first stripes, stripe edges, random stripes, within a round of 2^64); ownership is defined independently as ((a-off)/size) mod n; " +
			"for the owner, InterleavingConverter and ConvertAddress must accept, agree, equal the rank of a in the owned set, step by 1 inside a stripe, continue at the next own stripe, map the smallest owned address to 0 and preserve order; " +
			"every other element must refuse; the port mapper must pick the owner when the offset is a multiple of the round; a case is non-trivial when n>1 and at least one point had a non-zero round; distinct by (size,n,offset,first address)",
		Assumptions: []string{
			"size*n does not overflow (size <= 2^32, n <= 16); address >= offset (smaller addresses are not judged)",
			"refusal is observed as a panic (log.Panic), as the converters document no error return",
			"the port mapper has no offset input, so it is compared only for offsets that are multiples of size*n",
		},
		Plan: func(tier string, seed int64) []kit.Batch {
			nb, n := 16, 600
			if tier == "thorough" {
				nb, n = 32, 30000
			}
			var bs []kit.Batch
			for i := 0; i < nb; i++ {
				bs = append(bs, kit.Batch{Name: fmt.Sprintf("cfg%d", i), Seed: seed*1000 + int64(i), N: n})
			}
			return bs
		},
		Run: run,
		MustObserve: []string{
			"owner_conversions_judged", "foreign_refusals_judged", "in_stripe_steps_judged", "next_stripe_steps_judged",
			"smallest_owned_judged", "order_pairs_judged", "mapper_points_judged", "points_with_unaligned_offset",
			"points_within_a_round_of_2^64", "mapper_out_of_window_judged",
		},
	})
}

func run(b kit.Batch, r *kit.R) {
	log.SetOutput(io.Discard) // refusals are log.Panic calls; keep the child's stderr small
	r.ForEach(b.N, func(c *kit.Case) { oneCase(c, r) })
}

func oneCase(c *kit.Case, r *kit.R) {
	rng := c.Rng
	size := pickSize(rng)
	n := 1 + rng.Intn(16)
	if rng.Intn(4) == 0 {
		n = []int{1, 2, 4, 8, 16}[rng.Intn(5)]
	}
	round := size * uint64(n)
	off, offKind := pickOff(rng, size, round)
	k := cfg{Size: size, Off: off, N: n}
	c.Desc(map[string]any{"size": size, "n": n, "offset": fmt.Sprint(off), "offset_kind": offKind})
	align := "aligned-offset"
	if off%size != 0 {
		align = "unaligned-offset"
	}
	key := func(what string) string { return "conv/" + align + "/" + what }

	conv := func(e int, a uint64) (uint64, bool, bool) { // value, refused, the two implementations agree
		v1, p1 := call(func() uint64 {
			return mem.InterleavingConverter{InterleavingSize: size, TotalNumOfElements: n, CurrentElementIndex: e, Offset: off}.
				ConvertExternalToInternal(a)
		})
		v2, p2 := call(func() uint64 { return mem.ConvertAddress("interleaving", off, size, n, e, a) })
		return v1, p1, p1 == p2 && (p1 || v1 == v2)
	}
	owner := func(a uint64) (e int, rank uint64) {
		rel := a - off
		stripe := rel / size
		return int(stripe % uint64(n)), stripe/uint64(n)*size + rel%size
	}
	// f is the owner's conversion of an owned address, judged against the rank.
	f := func(a uint64, what string) (uint64, bool) {
		e, rank := owner(a)
		v, refused, agree := conv(e, a)
		r.Count("owner_conversions_judged", 1)
		if !agree {
			c.Failf("conv/implementations-disagree", "size %d n %d offset %d element %d address %d: InterleavingConverter and ConvertAddress differ", size, n, off, e, a)
		}
		if refused {
			c.Failf(key("owner-refused"), "size %d n %d offset %d: element %d refuses its own address %d (%s)", size, n, off, e, a, what)
			return 0, false
		}
		if v != rank {
			c.Failf(key("rank"), "size %d n %d offset %d element %d: f(%d)=%d, but the address is number %d of the element's addresses (%s)", size, n, off, e, a, v, rank, what)
		}
		return v, true
	}

	// the mapper for this configuration
	mapper := mem.NewInterleavedAddressPortMapper(size)
	for i := 0; i < n; i++ {
		mapper.LowModules = append(mapper.LowModules, messaging.RemotePort(fmt.Sprintf("M%d", i)))
	}
	limited := &mem.InterleavedAddressPortMapper{UseAddressSpaceLimitation: true, InterleavingSize: size,
		LowModules: mapper.LowModules, ModuleForOtherAddresses: "OTHER",
		LowAddress: off, HighAddress: off + round*uint64(1+rng.Intn(8))}
	if limited.HighAddress < off {
		limited.HighAddress = top
	}

	maxStripe := (top - off) / size // stripes 0..maxStripe start inside the address space
	nontrivial := false
	var first uint64
	var sample []string
	for p := 0; p < 48; p++ {
		var stripe uint64
		switch rng.Intn(6) {
		case 0:
			stripe = uint64(rng.Intn(2*n + 1))
		case 1:
			stripe = maxStripe - uint64(rng.Int63n(int64(min64(maxStripe, uint64(2*n))+1)))
		case 2:
			stripe = uint64(rng.Int63n(1 << 20))
		default:
			stripe = rng.Uint64()
			if maxStripe != top {
				stripe %= maxStripe + 1
			}
		}
		var low uint64
		switch rng.Intn(4) {
		case 0:
			low = 0
		case 1:
			low = size - 1
		default:
			low = uint64(rng.Int63n(int64(size)))
		}
		base := off + stripe*size
		if top-base < low { // last, partial stripe
			low = uint64(rng.Int63n(int64(min64(top-base, 1<<62) + 1)))
		}
		a := base + low
		if p == 0 {
			first = a
		}
		e, rank := owner(a)
		if off%size != 0 {
			r.Count("points_with_unaligned_offset", 1)
		}
		if top-a < round {
			r.Count("points_within_a_round_of_2^64", 1)
		}
		if n > 1 && rank >= size {
			nontrivial = true
		}
		fa, ok := f(a, "point")
		if len(sample) < 4 {
			sample = append(sample, fmt.Sprintf("a=%d owner=%d rank=%d got=%d", a, e, rank, fa))
		}

		// every other element refuses
		if n > 1 {
			o := (e + 1 + rng.Intn(n-1)) % n
			v, refused, agree := conv(o, a)
			r.Count("foreign_refusals_judged", 1)
			if !agree {
				c.Failf("conv/implementations-disagree", "size %d n %d offset %d element %d address %d (foreign)", size, n, off, o, a)
			}
			if !refused {
				c.Failf("conv/foreign-address-accepted", "size %d n %d offset %d: element %d accepts address %d owned by element %d (returns %d)", size, n, off, o, a, e, v)
			}
		}
		if !ok {
			continue
		}
		// contiguity inside the stripe
		if low+1 < size && a != top {
			if fb, ok := f(a+1, "successor in stripe"); ok {
				r.Count("in_stripe_steps_judged", 1)
				if fb != fa+1 {
					c.Failf(key("contiguity-in-stripe"), "size %d n %d offset %d element %d: f(%d)=%d but f(%d)=%d", size, n, off, e, a, fa, a+1, fb)
				}
			}
		}
		// the element's next stripe continues where this one ends
		last := base + (size - 1)
		if maxStripe >= uint64(n) && stripe <= maxStripe-uint64(n) && last >= base {
			next := off + (stripe+uint64(n))*size
			fl, ok1 := f(last, "last of stripe")
			fn, ok2 := f(next, "first of next own stripe")
			if ok1 && ok2 {
				r.Count("next_stripe_steps_judged", 1)
				if fn != fl+1 {
					c.Failf(key("next-stripe-continues"), "size %d n %d offset %d element %d: f(last=%d)=%d but f(next=%d)=%d", size, n, off, e, last, fl, next, fn)
				}
			}
		}
		// smallest owned address maps to 0
		if uint64(e) <= maxStripe {
			small := off + uint64(e)*size
			if fs, ok := f(small, "smallest owned"); ok {
				r.Count("smallest_owned_judged", 1)
				if fs != 0 {
					c.Failf(key("smallest-owned-not-0"), "size %d n %d offset %d element %d: smallest owned address %d maps to %d", size, n, off, e, small, fs)
				}
			}
		}
		// order against another owned address of the same element
		{
			un := uint64(n)
			ownRound := stripe / un
			maxRound := (maxStripe - uint64(e)) / un // own stripes 0..maxRound start inside the address space
			r2 := ownRound                           // same stripe, other low bits
			switch rng.Intn(4) {
			case 0:
				r2 = rng.Uint64()
				if maxRound != top {
					r2 %= maxRound + 1
				}
			case 1:
				if d := uint64(1 + rng.Intn(2)); d <= maxRound-ownRound {
					r2 = ownRound + d
				}
			case 2:
				if d := uint64(1 + rng.Intn(2)); ownRound >= d {
					r2 = ownRound - d
				}
			}
			b2 := off + (uint64(e)+r2*un)*size
			l2 := uint64(rng.Int63n(int64(size)))
			if top-b2 < l2 {
				l2 = 0
			}
			bb := b2 + l2
			if bb != a {
				if fb, ok := f(bb, "order partner"); ok {
					r.Count("order_pairs_judged", 1)
					if (a < bb) != (fa < fb) {
						c.Failf(key("order"), "size %d n %d offset %d element %d: %d vs %d map to %d vs %d", size, n, off, e, a, bb, fa, fb)
					}
				}
			}
		}
		// the port mapper agrees with the converter's ownership
		if off%round == 0 {
			r.Count("mapper_points_judged", 1)
			if got := mapper.Find(a); got != mapper.LowModules[e] {
				c.Failf("mapper/disagrees-with-converter", "size %d n %d offset %d: mapper sends %d to %s, converter ownership says element %d", size, n, off, a, got, e)
			}
			want := mapper.LowModules[e]
			if a >= limited.HighAddress {
				want = "OTHER"
				r.Count("mapper_out_of_window_judged", 1)
			}
			if got := limited.Find(a); got != want {
				c.Failf("mapper/window", "size %d n %d window [%d,%d): mapper sends %d to %s, want %s", size, n, limited.LowAddress, limited.HighAddress, a, got, want)
			}
			if off > 0 {
				r.Count("mapper_out_of_window_judged", 1)
				if got := limited.Find(off - 1); got != "OTHER" {
					c.Failf("mapper/window", "size %d n %d window [%d,%d): mapper sends %d to %s, want OTHER", size, n, limited.LowAddress, limited.HighAddress, off-1, got)
				}
			}
		}
		// the empty kind is the identity
		if v := mem.ConvertAddress("", off, size, n, e, a); v != a {
			c.Failf("conv/empty-kind-not-identity", "ConvertAddress(\"\", ..., %d) = %d", a, v)
		}
	}
	r.Distinct("interleaving_sizes", fmt.Sprint(size))
	r.Distinct("element_counts", fmt.Sprint(n))
	r.Distinct("offset_kinds", offKind)
	r.Count("configurations", 1)
	if nontrivial {
		c.Nontrivial(fmt.Sprintf("%d/%d/%d/%d", size, n, off, first))
	}
	c.Sample(map[string]any{"config": map[string]any{"size": k.Size, "n": k.N, "offset": fmt.Sprint(k.Off), "offset_kind": offKind}, "points": sample})
}

func min64(a, b uint64) uint64 {
	if a < b {
		return a
	}
	return b
}
