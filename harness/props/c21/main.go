// C21 Reorder buffers release responses in arrival order.
//
// An isolated rob.Comp sits between 1-3 scripted requesters and a stub lower
// unit (both defined here) that completes requests in adversarial order. Port
// taps on the ROB's Top and Bottom ports give the acceptance order, the
// shadow-request order and the release order; the oracle is a pure ordering /
// identity check over that log.
package main

import (
	"encoding/json"
	"fmt"
	"math/rand"

	"verifharness/kit"
	"verifharness/kit/sim"

	"github.com/sarchlab/akita/v5/mem/memprotocol"
	"github.com/sarchlab/akita/v5/mem/rob"
	"github.com/sarchlab/akita/v5/messaging"
	"github.com/sarchlab/akita/v5/modeling"
	"github.com/sarchlab/akita/v5/noc/directconnection"
	"github.com/sarchlab/akita/v5/timing"
)

type none = modeling.None

type fmw struct{ f func() bool }

func (m *fmw) Tick() bool { return m.f() }

// agent is a ticking component with one port whose behaviour is a closure.
func newAgent(reg modeling.Registrar, name, port string, freq timing.Freq, buf int, tick func() bool) (*modeling.Component[none, none, none], messaging.Port) {
	c := modeling.NewBuilder[none, none, none]().WithEngine(reg.GetEngine()).WithFreq(freq).Build(name)
	c.DeclarePort(port)
	c.AddMiddleware(&fmw{f: tick})
	reg.RegisterComponent(c)
	p := modeling.MakePortBuilder().WithRegistrar(reg).WithComponent(c).WithSpec(modeling.PortSpec{BufSize: buf}).Build(port)
	c.AssignPort(port, p)
	return c, p
}

type cfg struct {
	Seed         int64  `json:"seed"`
	BufferSize   int    `json:"rob_buffer_size"`
	ReqPerCycle  int    `json:"rob_req_per_cycle"`
	RobPortBuf   int    `json:"rob_port_buf"`
	RobMHz       int    `json:"rob_mhz"`
	Requesters   int    `json:"requesters"`
	ReqPortBuf   int    `json:"requester_port_buf"`
	ReqsEach     int    `json:"reqs_each"`
	ReadPct      int    `json:"read_pct"`
	NumAddrs     int    `json:"num_addrs"`
	IdlePct      int    `json:"requester_idle_pct"`
	RspStallPct  int    `json:"requester_rsp_stall_pct"` // back-pressure on Top
	StubMHz      int    `json:"stub_mhz"`
	StubPortBuf  int    `json:"stub_port_buf"`
	StubPolicy   string `json:"stub_policy"` // random | lifo | hold_oldest | fifo
	StubMaxDelay int    `json:"stub_max_delay"`
	StubStallPct int    `json:"stub_accept_stall_pct"`
	StubWidth    int    `json:"stub_width"`
	SharedConn   bool   `json:"shared_conn"`
}

func drawCfg(rng *rand.Rand, reqs int) cfg {
	pick := func(v ...int) int { return v[rng.Intn(len(v))] }
	c := cfg{
		Seed:         rng.Int63(),
		BufferSize:   1 + rng.Intn(16),
		ReqPerCycle:  1 + rng.Intn(4),
		RobPortBuf:   pick(1, 1, 2, 4, 8),
		RobMHz:       pick(1000, 1000, 500, 1500),
		Requesters:   1 + rng.Intn(3),
		ReqPortBuf:   pick(1, 2, 4, 8),
		ReadPct:      pick(0, 30, 50, 70, 100),
		NumAddrs:     pick(1, 2, 4, 64),
		IdlePct:      pick(0, 0, 20, 60),
		RspStallPct:  pick(0, 0, 30, 70, 90),
		StubMHz:      pick(1000, 1000, 700, 2000),
		StubPortBuf:  pick(1, 2, 4, 8),
		StubPolicy:   []string{"random", "random", "lifo", "lifo", "hold_oldest", "hold_oldest", "fifo"}[rng.Intn(7)],
		StubMaxDelay: pick(0, 3, 10, 40),
		StubStallPct: pick(0, 0, 30, 60),
		StubWidth:    1 + rng.Intn(4),
		SharedConn:   rng.Intn(3) == 0,
	}
	c.ReqsEach = reqs/c.Requesters + rng.Intn(reqs/4+1)
	return c
}

type script struct {
	isRead bool
	addr   uint64
	size   uint64
	data   []byte
}

type requester struct {
	port    messaging.Port
	script  []script
	next    int
	ids     []uint64 // issued request ids, by script index
	got     []messaging.Msg
	stalled int64
}

type pending struct {
	id     uint64
	isRead bool
	size   uint64
	src    messaging.RemotePort
	delay  int
	seq    int
}

type stub struct {
	port     messaging.Port
	pend     []pending
	nAcc     int
	sentData map[uint64][]byte // shadow id -> data answered ("" for writes)
	sentKind map[uint64]bool   // shadow id -> answered as read
	ooo      int64
	maxPend  int
}

func stubData(id, n uint64) []byte {
	d := make([]byte, n)
	x := id*0x9E3779B97F4A7C15 + 0x1234567
	for i := range d {
		x ^= x >> 13
		x *= 0xff51afd7ed558ccd
		d[i] = byte(x >> 40)
	}
	return d
}

func main() {
	kit.Main(kit.Prop{
		ID:    "C21",
		Level: "exploration",
		Rule: "each case is a PRNG-drawn isolated reorder buffer (BufferSize 1-16, 1-4 requests per cycle, port buffers 1-8, mixed clocks) between 1-3 scripted requesters " +
			"(read/write mixes over 1-64 addresses, idle gaps, stalls in draining responses = back-pressure on Top) and a stub lower unit that answers in random / newest-first / " +
			"oldest-held-back / in-order fashion with delays 0-40 cycles and accept stalls. Non-trivial: the stub completed at least one request before an older one and >= 10 responses " +
			"were released; distinct by configuration JSON",
		Assumptions: []string{
			"the lower unit answers every shadow request exactly once (RspTo = shadow id); no control traffic (Pause/Drain/Reset) during the run",
			"acceptance order = order of RetrieveIncoming on the ROB's Top port; release order = order of Send on the Top port",
		},
		Plan: func(tier string, seed int64) []kit.Batch {
			nb, n, reqs := 16, 40, 120
			if tier == "thorough" {
				nb, n, reqs = 48, 600, 300
			}
			var bs []kit.Batch
			for i := 0; i < nb; i++ {
				bs = append(bs, kit.Batch{Name: fmt.Sprintf("rob%d", i), Seed: seed*104729 + int64(i), N: n,
					Params: kit.MkParams(map[string]int{"reqs": reqs})})
			}
			return bs
		},
		Run: run,
		MustObserve: []string{"responses_released_and_checked", "lower_unit_out_of_order_completions", "releases_held_behind_older_request",
			"cases_rob_filled_to_capacity", "cases_with_top_backpressure"},
	})
}

func run(b kit.Batch, r *kit.R) {
	var p map[string]int
	b.P(&p)
	r.ForEach(b.N, func(c *kit.Case) {
		cf := drawCfg(c.Rng, p["reqs"])
		c.Desc(cf)
		runCase(c, cf)
	})
}

func mhz(v int) timing.Freq { return timing.Freq(v) * timing.MHz }

func runCase(c *kit.Case, cf cfg) {
	r := c.R
	rng := rand.New(rand.NewSource(cf.Seed))
	engine := timing.NewSerialEngine()
	reg := modeling.NewStandaloneRegistrar(engine)

	// stub lower unit
	st := &stub{sentData: map[uint64][]byte{}, sentKind: map[uint64]bool{}}
	var stubComp *modeling.Component[none, none, none]
	stubComp, st.port = newAgent(reg, "Stub", "Top", mhz(cf.StubMHz), cf.StubPortBuf, func() bool { return st.tick(cf, rng) })
	_ = stubComp

	// the reorder buffer under test
	spec := rob.DefaultSpec()
	spec.Freq = mhz(cf.RobMHz)
	spec.BufferSize = cf.BufferSize
	spec.NumReqPerCycle = cf.ReqPerCycle
	spec.BottomUnit = st.port.AsRemote()
	rb := rob.MakeBuilder().WithRegistrar(reg).WithSpec(spec).Build("ROB")
	for _, n := range []string{"Top", "Bottom", "Control"} {
		rb.AssignPort(n, modeling.MakePortBuilder().WithRegistrar(reg).WithComponent(rb).
			WithSpec(modeling.PortSpec{BufSize: cf.RobPortBuf}).Build(n))
	}
	top, bottom := rb.GetPortByName("Top"), rb.GetPortByName("Bottom")

	// requesters
	var reqs []*requester
	var comps []*modeling.Component[none, none, none]
	total := 0
	for i := 0; i < cf.Requesters; i++ {
		q := &requester{}
		n := cf.ReqsEach
		for k := 0; k < n; k++ {
			s := script{isRead: rng.Intn(100) < cf.ReadPct, addr: uint64(rng.Intn(cf.NumAddrs)) * 64, size: 1 + uint64(rng.Intn(64))}
			if !s.isRead {
				s.data = make([]byte, s.size)
				rng.Read(s.data)
			}
			q.script = append(q.script, s)
		}
		total += n
		var comp *modeling.Component[none, none, none]
		comp, q.port = newAgent(reg, fmt.Sprintf("Req%d", i), "Mem", timing.GHz, cf.ReqPortBuf, func() bool { return q.tick(cf, rng, top.AsRemote()) })
		reqs = append(reqs, q)
		comps = append(comps, comp)
	}

	connTop := directconnection.MakeBuilder().WithRegistrar(reg).Build("ConnTop")
	connBot := connTop
	if !cf.SharedConn {
		connBot = directconnection.MakeBuilder().WithRegistrar(reg).Build("ConnBottom")
	}
	connTop.PlugIn(top)
	for _, q := range reqs {
		connTop.PlugIn(q.port)
	}
	connBot.PlugIn(bottom)
	connBot.PlugIn(st.port)

	tap := sim.AttachTap([]messaging.Port{top, bottom, st.port}, engine.CurrentTime, true)
	tap.Filter = func(pos, port string) bool {
		return (port == top.Name() && (pos == "retr_in" || pos == "send")) ||
			(port == bottom.Name() && pos == "send") || (port == st.port.Name() && pos == "send")
	}

	for _, cmp := range comps {
		cmp.TickLater()
	}
	limit := timing.VTimeInPicoSec(total+10) * 2000 * 1000 * 1000 // 2000 ns per request
	if err := engine.RunUntil(limit); err != nil {
		c.Failf("rob/engine-error", "%v", err)
	}

	// ---- oracle ----
	type acc struct {
		msg messaging.Msg
		idx int // position in the tap log
	}
	var accepted, shadows, released []acc
	stubRspAt := map[uint64]int{} // shadow id -> log index of the stub's answer
	for i, rec := range tap.Recs {
		switch {
		case rec.Port == top.Name() && rec.Pos == "retr_in":
			accepted = append(accepted, acc{rec.Msg, i})
		case rec.Port == top.Name() && rec.Pos == "send":
			released = append(released, acc{rec.Msg, i})
		case rec.Port == bottom.Name():
			shadows = append(shadows, acc{rec.Msg, i})
		case rec.Port == st.port.Name():
			stubRspAt[rec.Msg.Meta().RspTo] = i
		}
	}
	accIndex := map[uint64]int{}
	for k, a := range accepted {
		accIndex[a.msg.Meta().ID] = k
	}
	wit := func(msg string, k int) map[string]any {
		w := map[string]any{"msg": msg, "cfg": cf, "position": k}
		if k < len(accepted) {
			w["accepted_k"] = fmt.Sprintf("%+v", accepted[k].msg.Meta())
		}
		if k < len(released) {
			w["released_k"] = fmt.Sprintf("%+v", released[k].msg.Meta())
		}
		return w
	}

	// shadows mirror accepted requests one for one, in order
	for k := 0; k < len(shadows) && k < len(accepted); k++ {
		if d := sameRequest(accepted[k].msg, shadows[k].msg); d != "" {
			c.Fail("rob/shadow-differs-from-request", wit("shadow request #"+fmt.Sprint(k)+" "+d, k))
			break
		}
		sm := shadows[k].msg.Meta()
		if sm.Src != bottom.AsRemote() || sm.Dst != st.port.AsRemote() {
			c.Fail("rob/shadow-misrouted", wit(fmt.Sprintf("shadow #%d Src=%s Dst=%s", k, sm.Src, sm.Dst), k))
			break
		}
	}
	if len(shadows) != len(accepted) {
		c.Fail("rob/shadow-count", wit(fmt.Sprintf("%d requests accepted, %d shadow requests issued", len(accepted), len(shadows)), 0))
	}

	held := int64(0)
	for k, rel := range released {
		m := rel.msg.Meta()
		if k >= len(accepted) {
			c.Fail("rob/extra-response", wit(fmt.Sprintf("release #%d (RspTo=%d) but only %d requests were accepted", k, m.RspTo, len(accepted)), k))
			break
		}
		want := accepted[k].msg.Meta()
		if m.RspTo != want.ID {
			if j, ok := accIndex[m.RspTo]; ok {
				c.Fail("rob/release-order", wit(fmt.Sprintf("release #%d answers the request accepted as #%d (id %d); #%d (id %d) was due", k, j, m.RspTo, k, want.ID), k))
			} else {
				c.Fail("rob/rspto-not-a-request-id", wit(fmt.Sprintf("release #%d has RspTo=%d which is no accepted request id (due: %d)", k, m.RspTo, want.ID), k))
			}
			break // everything after the first misordering is a consequence
		}
		if m.Dst != want.Src {
			c.Fail("rob/response-wrong-dst", wit(fmt.Sprintf("release #%d Dst=%s, requester was %s", k, m.Dst, want.Src), k))
		}
		if m.Src != top.AsRemote() {
			c.Fail("rob/response-wrong-src", wit(fmt.Sprintf("release #%d Src=%s", k, m.Src), k))
		}
		if k >= len(shadows) {
			continue
		}
		sid := shadows[k].msg.Meta().ID
		at, answered := stubRspAt[sid]
		if !answered || at > rel.idx {
			c.Fail("rob/released-before-lower-unit-answered", wit(fmt.Sprintf("release #%d precedes the lower unit's answer to shadow %d", k, sid), k))
		}
		_, isRead := accepted[k].msg.(memprotocol.ReadReq)
		switch rsp := rel.msg.(type) {
		case memprotocol.DataReadyRsp:
			if !isRead {
				c.Fail("rob/response-wrong-kind", wit(fmt.Sprintf("write #%d answered with DataReadyRsp", k), k))
			} else if string(rsp.Data) != string(st.sentData[sid]) {
				c.Fail("rob/read-data-not-lower-units", wit(fmt.Sprintf("release #%d carries %x, the lower unit answered shadow %d with %x", k, rsp.Data, sid, st.sentData[sid]), k))
			}
		case memprotocol.WriteDoneRsp:
			if isRead {
				c.Fail("rob/response-wrong-kind", wit(fmt.Sprintf("read #%d answered with WriteDoneRsp", k), k))
			}
		default:
			c.Fail("rob/response-wrong-kind", wit(fmt.Sprintf("release #%d is a %T", k, rel.msg), k))
		}
		// coverage: was a younger request already answered below when this one was released late?
		if answered {
			for j := k + 1; j < len(shadows) && j <= k+16; j++ {
				if a2, ok := stubRspAt[shadows[j].msg.Meta().ID]; ok && a2 < at {
					held++
					break
				}
			}
		}
		r.Count("responses_released_and_checked", 1)
	}
	if len(accepted) != total || len(released) != len(accepted) {
		c.Fail("rob/unanswered", wit(fmt.Sprintf("%d requests scripted, %d accepted, %d released at t=%d ps (limit %d; stub still holds %d)",
			total, len(accepted), len(released), engine.CurrentTime(), limit, len(st.pend)), len(released)))
	}
	// every requester got exactly its own answers, in its own issue order
	for i, q := range reqs {
		if len(q.got) != q.next {
			c.Fail("rob/requester-response-count", wit(fmt.Sprintf("requester %d issued %d requests and received %d responses", i, q.next, len(q.got)), 0))
			continue
		}
		for k, g := range q.got {
			if g.Meta().RspTo != q.ids[k] {
				c.Fail("rob/requester-sees-wrong-order", wit(fmt.Sprintf("requester %d: response #%d has RspTo=%d, its request #%d has id %d", i, k, g.Meta().RspTo, k, q.ids[k]), 0))
				break
			}
		}
	}

	// coverage
	occ, maxOcc := 0, 0
	for _, rec := range tap.Recs {
		if rec.Port == top.Name() {
			if rec.Pos == "retr_in" {
				occ++
			} else {
				occ--
			}
			if occ > maxOcc {
				maxOcc = occ
			}
		}
	}
	stalls := int64(0)
	for _, q := range reqs {
		stalls += q.stalled
	}
	r.Count("requests_accepted", int64(len(accepted)))
	r.Count("lower_unit_out_of_order_completions", st.ooo)
	r.Count("releases_held_behind_older_request", held)
	r.Count("requester_stall_ticks_with_response_waiting", stalls)
	if maxOcc >= cf.BufferSize {
		r.Count("cases_rob_filled_to_capacity", 1)
	}
	if maxOcc > cf.BufferSize {
		c.Fail("rob/over-capacity", wit(fmt.Sprintf("%d transactions in flight with BufferSize %d", maxOcc, cf.BufferSize), 0))
	}
	if stalls > 0 && cf.RspStallPct >= 70 {
		r.Count("cases_with_top_backpressure", 1)
	}
	r.Max("max_rob_occupancy", int64(maxOcc))
	r.Max("max_pending_in_lower_unit", int64(st.maxPend))
	r.Distinct("stub_policy/buffer_size", fmt.Sprintf("%s/%d", cf.StubPolicy, cf.BufferSize))
	if st.ooo > 0 && len(released) >= 10 {
		j, _ := json.Marshal(cf)
		c.Nontrivial(string(j))
	}
	c.Sample(map[string]any{"cfg": cf, "accepted": len(accepted), "released": len(released), "out_of_order_completions_below": st.ooo,
		"max_occupancy": maxOcc, "end_time_ps": engine.CurrentTime()})
}

// sameRequest describes how a shadow differs from the original ("" = same).
func sameRequest(orig, shadow messaging.Msg) string {
	switch o := orig.(type) {
	case memprotocol.ReadReq:
		s, ok := shadow.(memprotocol.ReadReq)
		if !ok {
			return fmt.Sprintf("is a %T for a ReadReq", shadow)
		}
		if s.Address != o.Address || s.AccessByteSize != o.AccessByteSize || s.PID != o.PID {
			return fmt.Sprintf("reads %#x+%d pid %d, the request reads %#x+%d pid %d", s.Address, s.AccessByteSize, s.PID, o.Address, o.AccessByteSize, o.PID)
		}
	case memprotocol.WriteReq:
		s, ok := shadow.(memprotocol.WriteReq)
		if !ok {
			return fmt.Sprintf("is a %T for a WriteReq", shadow)
		}
		if s.Address != o.Address || string(s.Data) != string(o.Data) || fmt.Sprint(s.DirtyMask) != fmt.Sprint(o.DirtyMask) || s.PID != o.PID {
			return fmt.Sprintf("writes %#x %x, the request writes %#x %x", s.Address, s.Data, o.Address, o.Data)
		}
	}
	return ""
}

func (q *requester) tick(cf cfg, rng *rand.Rand, dst messaging.RemotePort) bool {
	progress := false
	if q.port.PeekIncoming() != nil {
		if rng.Intn(100) < cf.RspStallPct {
			q.stalled++
			progress = true // come back next cycle
		} else {
			for i := 0; i < 2; i++ {
				m := q.port.RetrieveIncoming()
				if m == nil {
					break
				}
				q.got = append(q.got, m)
				progress = true
			}
		}
	}
	if q.next < len(q.script) {
		if rng.Intn(100) < cf.IdlePct {
			return true
		}
		if q.port.CanSend() {
			s := q.script[q.next]
			id := timing.GetIDGenerator().Generate()
			var msg messaging.Msg
			if s.isRead {
				m := memprotocol.ReadReq{Address: s.addr, AccessByteSize: s.size, PID: 1}
				m.ID, m.Src, m.Dst, m.TrafficBytes, m.TrafficClass = id, q.port.AsRemote(), dst, 12, "memprotocol.ReadReq"
				msg = m
			} else {
				m := memprotocol.WriteReq{Address: s.addr, Data: s.data, PID: 1}
				if len(s.data) > 2 && s.data[0]&1 == 1 {
					m.DirtyMask = make([]bool, len(s.data))
					for i := range m.DirtyMask {
						m.DirtyMask[i] = s.data[i]&2 != 0
					}
				}
				m.ID, m.Src, m.Dst, m.TrafficBytes, m.TrafficClass = id, q.port.AsRemote(), dst, len(s.data)+12, "memprotocol.WriteReq"
				msg = m
			}
			q.port.Send(msg)
			q.ids = append(q.ids, id)
			q.next++
			progress = true
		}
	}
	return progress
}

func (s *stub) tick(cf cfg, rng *rand.Rand) bool {
	progress := false
	for i := range s.pend {
		if s.pend[i].delay > 0 {
			s.pend[i].delay--
			progress = true
		}
	}
	// answer
	for w := 0; w < cf.StubWidth; w++ {
		var ready []int
		for i, p := range s.pend {
			if p.delay == 0 {
				ready = append(ready, i)
			}
		}
		if len(ready) == 0 || !s.port.CanSend() {
			break
		}
		pickIdx := ready[0]
		switch cf.StubPolicy {
		case "random":
			pickIdx = ready[rng.Intn(len(ready))]
		case "lifo":
			pickIdx = ready[len(ready)-1]
		case "hold_oldest":
			// the oldest outstanding request is answered only when nothing else is
			// left to answer, and then only reluctantly
			if ready[0] == 0 {
				if len(ready) > 1 {
					pickIdx = ready[1+rng.Intn(len(ready)-1)]
				} else if rng.Intn(6) != 0 {
					pickIdx = -1
				}
			}
		}
		if pickIdx < 0 {
			progress = true
			break
		}
		p := s.pend[pickIdx]
		if pickIdx > 0 {
			s.ooo++
		}
		id := timing.GetIDGenerator().Generate()
		var msg messaging.Msg
		if p.isRead {
			m := memprotocol.DataReadyRsp{Data: stubData(p.id, p.size)}
			m.ID, m.Src, m.Dst, m.RspTo, m.TrafficBytes, m.TrafficClass = id, s.port.AsRemote(), p.src, p.id, int(p.size)+4, "memprotocol.DataReadyRsp"
			s.sentData[p.id] = m.Data
			msg = m
		} else {
			m := memprotocol.WriteDoneRsp{}
			m.ID, m.Src, m.Dst, m.RspTo, m.TrafficBytes, m.TrafficClass = id, s.port.AsRemote(), p.src, p.id, 4, "memprotocol.WriteDoneRsp"
			msg = m
		}
		s.sentKind[p.id] = p.isRead
		s.port.Send(msg)
		s.pend = append(s.pend[:pickIdx], s.pend[pickIdx+1:]...)
		progress = true
	}
	// accept
	if s.port.PeekIncoming() != nil {
		if rng.Intn(100) < cf.StubStallPct {
			progress = true
		} else {
			for w := 0; w < cf.StubWidth; w++ {
				m := s.port.RetrieveIncoming()
				if m == nil {
					break
				}
				p := pending{id: m.Meta().ID, src: m.Meta().Src, seq: s.nAcc}
				s.nAcc++
				if rd, ok := m.(memprotocol.ReadReq); ok {
					p.isRead, p.size = true, rd.AccessByteSize
				}
				if cf.StubMaxDelay > 0 {
					p.delay = rng.Intn(cf.StubMaxDelay + 1)
				}
				s.pend = append(s.pend, p)
				if len(s.pend) > s.maxPend {
					s.maxPend = len(s.pend)
				}
				progress = true
			}
		}
	}
	return progress || len(s.pend) > 0
}
