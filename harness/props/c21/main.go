// C21 Reorder buffers release responses in arrival order.
//
// An isolated rob.Comp sits between 1-3 scripted requesters and a stub lower
// unit (both defined here) that completes requests in adversarial order. Port
// taps on the ROB's Top and Bottom ports give the acceptance order, the
// shadow-request order and the release order; the oracle is a pure ordering /
// identity check over that log.
//
// A scripted controller sends control episodes (Reset, Pause..Enable,
// Drain..Enable, Pause..Reset, Drain with a Reset queued behind it) to the
// ROB's Control port at PRNG-chosen points of the traffic. The stub keeps
// answering every shadow request it ever received, so after a Reset its answers
// to dropped shadow requests arrive late, while new requests are in flight. The
// acknowledgement of a Reset (Send on the Control port) closes an epoch; every
// oracle is applied per epoch.
package main

import (
	"encoding/json"
	"fmt"
	"math/rand"
	"sort"

	"verifharness/kit"
	"verifharness/kit/sim"

	"github.com/sarchlab/akita/v5/mem/memcontrolprotocol"
	"github.com/sarchlab/akita/v5/mem/memprotocol"
	"github.com/sarchlab/akita/v5/mem/rob"
	"github.com/sarchlab/akita/v5/messaging"
	"github.com/sarchlab/akita/v5/modeling"
	"github.com/sarchlab/akita/v5/noc/directconnection"
	"github.com/sarchlab/akita/v5/timing"
)

type none = modeling.None

type fmw struct{ f func() bool }

func (m *fmw) Tick() bool { return m.f() }

// agent is a ticking component with one port whose behaviour is a closure.
func newAgent(reg modeling.Registrar, name, port string, freq timing.Freq, buf int, tick func() bool) (*modeling.Component[none, none, none], messaging.Port) {
	c := modeling.NewBuilder[none, none, none]().WithEngine(reg.GetEngine()).WithFreq(freq).Build(name)
	c.DeclarePort(port)
	c.AddMiddleware(&fmw{f: tick})
	reg.RegisterComponent(c)
	p := modeling.MakePortBuilder().WithRegistrar(reg).WithComponent(c).WithSpec(modeling.PortSpec{BufSize: buf}).Build(port)
	c.AssignPort(port, p)
	return c, p
}

type cfg struct {
	Seed         int64     `json:"seed"`
	BufferSize   int       `json:"rob_buffer_size"`
	ReqPerCycle  int       `json:"rob_req_per_cycle"`
	RobPortBuf   int       `json:"rob_port_buf"`
	RobMHz       int       `json:"rob_mhz"`
	Requesters   int       `json:"requesters"`
	ReqPortBuf   int       `json:"requester_port_buf"`
	ReqsEach     int       `json:"reqs_each"`
	ReadPct      int       `json:"read_pct"`
	NumAddrs     int       `json:"num_addrs"`
	IdlePct      int       `json:"requester_idle_pct"`
	RspStallPct  int       `json:"requester_rsp_stall_pct"` // back-pressure on Top
	StubMHz      int       `json:"stub_mhz"`
	StubPortBuf  int       `json:"stub_port_buf"`
	StubPolicy   string    `json:"stub_policy"` // random | lifo | hold_oldest | fifo
	StubMaxDelay int       `json:"stub_max_delay"`
	StubStallPct int       `json:"stub_accept_stall_pct"`
	StubWidth    int       `json:"stub_width"`
	SharedConn   bool      `json:"shared_conn"`
	Episodes     []episode `json:"control_episodes"`
}

// episode is one control episode. It starts when the requesters together have
// issued AfterIssued requests.
//
//	reset        Reset
//	pause_enable Pause, Hold cycles after its ack Enable
//	drain_enable Drain, Hold cycles after its ack Enable
//	pause_reset  Pause, Hold cycles after its ack Reset ("Pause -> Reset" of the protocol document)
//	drain_reset  Drain and, without waiting, Reset (queued behind the Drain on the Control port)
type episode struct {
	AfterIssued int    `json:"after_issued"`
	Kind        string `json:"kind"`
	Hold        int    `json:"hold_cycles"`
}

func drawCfg(rng *rand.Rand, reqs int) cfg {
	pick := func(v ...int) int { return v[rng.Intn(len(v))] }
	c := cfg{
		Seed:         rng.Int63(),
		BufferSize:   1 + rng.Intn(16),
		ReqPerCycle:  1 + rng.Intn(4),
		RobPortBuf:   pick(1, 1, 2, 4, 8),
		RobMHz:       pick(1000, 1000, 500, 1500),
		Requesters:   1 + rng.Intn(3),
		ReqPortBuf:   pick(1, 2, 4, 8),
		ReadPct:      pick(0, 30, 50, 70, 100),
		NumAddrs:     pick(1, 2, 4, 64),
		IdlePct:      pick(0, 0, 20, 60),
		RspStallPct:  pick(0, 0, 30, 70, 90),
		StubMHz:      pick(1000, 1000, 700, 2000),
		StubPortBuf:  pick(1, 2, 4, 8),
		StubPolicy:   []string{"random", "random", "lifo", "lifo", "hold_oldest", "hold_oldest", "fifo"}[rng.Intn(7)],
		StubMaxDelay: pick(0, 3, 10, 40),
		StubStallPct: pick(0, 0, 30, 60),
		StubWidth:    1 + rng.Intn(4),
		SharedConn:   rng.Intn(3) == 0,
	}
	c.ReqsEach = reqs/c.Requesters + rng.Intn(reqs/4+1)
	// control episodes in the middle of the traffic; one case in six has none
	if rng.Intn(6) != 0 {
		total := c.ReqsEach * c.Requesters
		n := 1 + rng.Intn(4)
		at := map[int]bool{}
		for len(at) < n {
			at[2+rng.Intn(total*9/10)] = true
		}
		var pts []int
		for a := range at {
			pts = append(pts, a)
		}
		sort.Ints(pts)
		kinds := []string{"reset", "reset", "reset", "reset", "pause_enable", "drain_enable", "pause_reset", "drain_reset"}
		for _, a := range pts {
			c.Episodes = append(c.Episodes, episode{AfterIssued: a, Kind: kinds[rng.Intn(len(kinds))], Hold: pick(0, 2, 10, 50, 200)})
		}
	}
	return c
}

type script struct {
	isRead bool
	addr   uint64
	size   uint64
	data   []byte
}

type requester struct {
	port    messaging.Port
	script  []script
	next    int
	ids     []uint64 // issued request ids, by script index
	got     []messaging.Msg
	stalled int64
}

type pending struct {
	id     uint64
	isRead bool
	size   uint64
	src    messaging.RemotePort
	delay  int
	seq    int
}

type stub struct {
	port     messaging.Port
	pend     []pending
	nAcc     int
	sentData map[uint64][]byte // shadow id -> data answered ("" for writes)
	sentKind map[uint64]bool   // shadow id -> answered as read
	ooo      int64
	maxPend  int
}

func stubData(id, n uint64) []byte {
	d := make([]byte, n)
	x := id*0x9E3779B97F4A7C15 + 0x1234567
	for i := range d {
		x ^= x >> 13
		x *= 0xff51afd7ed558ccd
		d[i] = byte(x >> 40)
	}
	return d
}

func main() {
	kit.Main(kit.Prop{
		ID:    "C21",
		Level: "exploration",
		Rule: "each case is a PRNG-drawn isolated reorder buffer (BufferSize 1-16, 1-4 requests per cycle, port buffers 1-8, mixed clocks) between 1-3 scripted requesters " +
			"(read/write mixes over 1-64 addresses, idle gaps, stalls in draining responses = back-pressure on Top) and a stub lower unit that answers in random / newest-first / " +
			"oldest-held-back / in-order fashion with delays 0-40 cycles and accept stalls. Five cases in six also contain 1-4 control episodes sent to the ROB's Control port when the " +
			"requesters have issued a PRNG-chosen number of requests: Reset, Pause..Enable, Drain..Enable, Pause..Reset, or Drain with a Reset queued behind it (hold 0-200 cycles); the stub " +
			"keeps answering shadow requests a Reset dropped, so their answers arrive late, among the answers to new requests. Non-trivial: the stub completed at least one request before " +
			"an older one and >= 10 responses were released; distinct by configuration JSON",
		Assumptions: []string{
			"the lower unit answers every shadow request exactly once (RspTo = shadow id), also those the ROB dropped at a Reset",
			"acceptance order = order of RetrieveIncoming on the ROB's Top port; release order = order of Send on the Top port",
			"mem/CONTROL_PROTOCOL.md: Reset is acknowledged in the tick that performs it, drops in-flight transactions and drains the Top/Bottom queues; hence the Send of a successful Reset Rsp " +
				"on the Control port closes an epoch: requests accepted before it are answered before it or never, requests taken off Top without a shadow request at that instant are discarded",
			"Pause/Drain/Enable do not change what is owed: order and completeness are judged across them",
		},
		Plan: func(tier string, seed int64) []kit.Batch {
			nb, n, reqs := 16, 40, 120
			if tier == "thorough" {
				nb, n, reqs = 48, 600, 300
			}
			var bs []kit.Batch
			for i := 0; i < nb; i++ {
				bs = append(bs, kit.Batch{Name: fmt.Sprintf("rob%d", i), Seed: seed*104729 + int64(i), N: n,
					Params: kit.MkParams(map[string]int{"reqs": reqs})})
			}
			return bs
		},
		Run: run,
		MustObserve: []string{"responses_released_and_checked", "lower_unit_out_of_order_completions", "releases_held_behind_older_request",
			"cases_rob_filled_to_capacity", "cases_with_top_backpressure",
			"resets_with_requests_in_flight", "late_lower_unit_answers_to_dropped_shadows_after_reset", "late_answers_arriving_while_new_requests_in_flight",
			"pauses_with_requests_in_flight", "drains_with_requests_in_flight", "cases_without_control_traffic"},
	})
}

func run(b kit.Batch, r *kit.R) {
	var p map[string]int
	b.P(&p)
	r.ForEach(b.N, func(c *kit.Case) {
		cf := drawCfg(c.Rng, p["reqs"])
		c.Desc(cf)
		runCase(c, cf)
	})
}

func mhz(v int) timing.Freq { return timing.Freq(v) * timing.MHz }

func runCase(c *kit.Case, cf cfg) {
	r := c.R
	rng := rand.New(rand.NewSource(cf.Seed))
	engine := timing.NewSerialEngine()
	reg := modeling.NewStandaloneRegistrar(engine)

	// stub lower unit
	st := &stub{sentData: map[uint64][]byte{}, sentKind: map[uint64]bool{}}
	_, st.port = newAgent(reg, "Stub", "Top", mhz(cf.StubMHz), cf.StubPortBuf, func() bool { return st.tick(cf, rng) })

	// the reorder buffer under test
	spec := rob.DefaultSpec()
	spec.Freq = mhz(cf.RobMHz)
	spec.BufferSize = cf.BufferSize
	spec.NumReqPerCycle = cf.ReqPerCycle
	spec.BottomUnit = st.port.AsRemote()
	rb := rob.MakeBuilder().WithRegistrar(reg).WithSpec(spec).Build("ROB")
	for _, n := range []string{"Top", "Bottom", "Control"} {
		rb.AssignPort(n, modeling.MakePortBuilder().WithRegistrar(reg).WithComponent(rb).
			WithSpec(modeling.PortSpec{BufSize: cf.RobPortBuf}).Build(n))
	}
	top, bottom, control := rb.GetPortByName("Top"), rb.GetPortByName("Bottom"), rb.GetPortByName("Control")

	// requesters
	var reqs []*requester
	var comps []*modeling.Component[none, none, none]
	total := 0
	for i := 0; i < cf.Requesters; i++ {
		q := &requester{}
		n := cf.ReqsEach
		for k := 0; k < n; k++ {
			s := script{isRead: rng.Intn(100) < cf.ReadPct, addr: uint64(rng.Intn(cf.NumAddrs)) * 64, size: 1 + uint64(rng.Intn(64))}
			if !s.isRead {
				s.data = make([]byte, s.size)
				rng.Read(s.data)
			}
			q.script = append(q.script, s)
		}
		total += n
		var comp *modeling.Component[none, none, none]
		comp, q.port = newAgent(reg, fmt.Sprintf("Req%d", i), "Mem", timing.GHz, cf.ReqPortBuf, func() bool { return q.tick(cf, rng, top.AsRemote()) })
		reqs = append(reqs, q)
		comps = append(comps, comp)
	}

	// controller
	ctl := &controller{eps: cf.Episodes, dst: control.AsRemote(), sent: map[string]int{}, issued: func() int {
		n := 0
		for _, q := range reqs {
			n += q.next
		}
		return n
	}}
	var ctlComp *modeling.Component[none, none, none]
	ctlComp, ctl.port = newAgent(reg, "Ctl", "Ctrl", timing.GHz, 2, ctl.tick)
	comps = append(comps, ctlComp)

	connTop := directconnection.MakeBuilder().WithRegistrar(reg).Build("ConnTop")
	connBot := connTop
	if !cf.SharedConn {
		connBot = directconnection.MakeBuilder().WithRegistrar(reg).Build("ConnBottom")
	}
	connTop.PlugIn(top)
	for _, q := range reqs {
		connTop.PlugIn(q.port)
	}
	connBot.PlugIn(bottom)
	connBot.PlugIn(st.port)
	connCtl := directconnection.MakeBuilder().WithRegistrar(reg).Build("ConnCtl")
	connCtl.PlugIn(control)
	connCtl.PlugIn(ctl.port)

	tap := sim.AttachTap([]messaging.Port{top, bottom, control, st.port}, engine.CurrentTime, true)
	tap.Filter = func(pos, port string) bool {
		return (port == top.Name() && (pos == "retr_in" || pos == "send")) ||
			(port == bottom.Name() && (pos == "send" || pos == "recv")) ||
			(port == control.Name() && (pos == "send" || pos == "retr_in")) ||
			(port == st.port.Name() && pos == "send")
	}

	for _, cmp := range comps {
		cmp.TickLater()
	}
	limit := timing.VTimeInPicoSec(total+10) * 2000 * 1000 * 1000 // 2000 ns per request
	// Run in slices. A ROB that answers without end (duplicates) is cut off once
	// the log is longer than any correct run can make it (a request causes at
	// most 5 logged port events, a control command 2). A run in which no port
	// of the ROB or of the stub saw any event for 20 us (>= 10000 ROB cycles;
	// the longest scripted silence is a 200-cycle pause) is at rest or hung for
	// good: what is unanswered then stays unanswered.
	runaway, idleSlices := 8*total+64, 0
	for t := timing.VTimeInPicoSec(0); t < limit && len(tap.Recs) <= runaway && idleSlices < 2; {
		t += 10 * 1000 * 1000 // 10 us
		before := len(tap.Recs)
		if err := engine.RunUntil(t); err != nil {
			c.Failf("rob/engine-error", "%v", err)
			break
		}
		if len(tap.Recs) == before {
			idleSlices++
		} else {
			idleSlices = 0
		}
	}

	// ---- oracle ----
	// The log is cut into epochs at every acknowledgement of a Reset (Send of
	// the Rsp on the ROB's Control port). Reset "drops in-flight" and "drains
	// the Top/Bottom queues": the requests the ROB takes off its Top port while
	// it handles the Reset are discarded, not accepted.
	type acc struct {
		msg messaging.Msg
		idx int // position in the tap log
	}
	type epoch struct {
		accepted, shadows, released []acc
		discarded                   []acc // taken off Top by the Reset that opens this epoch
		maxOcc                      int
		reset                       bool // closed by a Reset (false: the last epoch)
	}
	type where struct{ ep, k int }
	eps := []*epoch{{}}
	cur := eps[0]
	stubRspAt := map[uint64]int{}     // shadow id -> log index of the stub's answer
	shadowAt := map[uint64]where{}    // shadow id -> epoch, position
	accIndex := map[uint64]where{}    // request id -> epoch, position
	cancelled := map[uint64]bool{}    // request ids dropped by a Reset
	lateAnswered := map[uint64]bool{} // dropped shadow ids whose answer reached Bottom after the Reset
	ctlAcks := map[memcontrolprotocol.Command]int{}
	var resets, resetsInFlight, dropped, discardedAtReset, late, lateBusy, pausesInFlight, drainsInFlight, ctlFailed int64
	inDiscardRun, ackTime := false, timing.VTimeInPicoSec(0)
	for i, rec := range tap.Recs {
		isTopRetr := rec.Port == top.Name() && rec.Pos == "retr_in"
		if isTopRetr && inDiscardRun && rec.Time == ackTime {
			cur.discarded = append(cur.discarded, acc{rec.Msg, i})
			cancelled[rec.Msg.Meta().ID] = true
			continue
		}
		inDiscardRun = false
		switch {
		case isTopRetr:
			accIndex[rec.Msg.Meta().ID] = where{len(eps) - 1, len(cur.accepted)}
			cur.accepted = append(cur.accepted, acc{rec.Msg, i})
			if o := len(cur.accepted) - len(cur.released); o > cur.maxOcc {
				cur.maxOcc = o
			}
		case rec.Port == top.Name():
			cur.released = append(cur.released, acc{rec.Msg, i})
		case rec.Port == bottom.Name() && rec.Pos == "send":
			shadowAt[rec.Msg.Meta().ID] = where{len(eps) - 1, len(cur.shadows)}
			cur.shadows = append(cur.shadows, acc{rec.Msg, i})
		case rec.Port == bottom.Name(): // an answer of the lower unit reaches the ROB
			if w, ok := shadowAt[rec.Msg.Meta().RspTo]; ok && w.ep < len(eps)-1 {
				late++
				lateAnswered[rec.Msg.Meta().RspTo] = true
				if len(cur.accepted) > len(cur.released) {
					lateBusy++
				}
			}
		case rec.Port == st.port.Name():
			stubRspAt[rec.Msg.Meta().RspTo] = i
		case rec.Port == control.Name() && rec.Pos == "retr_in":
			if q, ok := rec.Msg.(memcontrolprotocol.Req); ok && len(cur.accepted) > len(cur.released) {
				switch q.Command {
				case memcontrolprotocol.CmdPause:
					pausesInFlight++
				case memcontrolprotocol.CmdDrain:
					drainsInFlight++
				}
			}
		case rec.Port == control.Name():
			rsp, ok := rec.Msg.(memcontrolprotocol.Rsp)
			if !ok {
				break
			}
			ctlAcks[rsp.Command]++
			if !rsp.Success {
				ctlFailed++
			}
			if rsp.Command != memcontrolprotocol.CmdReset || !rsp.Success {
				break
			}
			// requests taken off Top at this very instant without a shadow request belong to the Reset's clean-up,
			// whichever side of the acknowledgement they are logged on
			for n := len(cur.accepted); n > len(cur.shadows) && tap.Recs[cur.accepted[n-1].idx].Time == rec.Time; n = len(cur.accepted) {
				a := cur.accepted[n-1]
				cur.accepted = cur.accepted[:n-1]
				delete(accIndex, a.msg.Meta().ID)
				cancelled[a.msg.Meta().ID] = true
				discardedAtReset++
			}
			resets++
			if n := len(cur.accepted) - len(cur.released); n > 0 {
				resetsInFlight++
				dropped += int64(n)
				for _, a := range cur.accepted[len(cur.released):] {
					cancelled[a.msg.Meta().ID] = true
				}
			}
			cur.reset = true
			cur = &epoch{}
			eps = append(eps, cur)
			inDiscardRun, ackTime = true, rec.Time
		}
	}
	for _, e := range eps {
		discardedAtReset += int64(len(e.discarded))
	}

	held, maxOcc, nAcc, nRel := int64(0), 0, 0, 0
	for ei, e := range eps {
		accepted, shadows, released := e.accepted, e.shadows, e.released
		nAcc += len(accepted)
		nRel += len(released)
		wit := func(msg string, k int) map[string]any {
			w := map[string]any{"msg": msg, "cfg": cf, "position": k, "epoch": ei, "epochs": len(eps),
				"epoch_accepted": len(accepted), "epoch_released": len(released)}
			if k < len(accepted) {
				w["accepted_k"] = fmt.Sprintf("%+v", accepted[k].msg.Meta())
			}
			if k < len(released) {
				w["released_k"] = fmt.Sprintf("%+v", released[k].msg.Meta())
			}
			return w
		}

		// shadows mirror accepted requests one for one, in order
		for k := 0; k < len(shadows) && k < len(accepted); k++ {
			if d := sameRequest(accepted[k].msg, shadows[k].msg); d != "" {
				c.Fail("rob/shadow-differs-from-request", wit("shadow request #"+fmt.Sprint(k)+" "+d, k))
				break
			}
			sm := shadows[k].msg.Meta()
			if sm.Src != bottom.AsRemote() || sm.Dst != st.port.AsRemote() {
				c.Fail("rob/shadow-misrouted", wit(fmt.Sprintf("shadow #%d Src=%s Dst=%s", k, sm.Src, sm.Dst), k))
				break
			}
		}
		if len(shadows) != len(accepted) {
			c.Fail("rob/shadow-count", wit(fmt.Sprintf("%d requests accepted, %d shadow requests issued", len(accepted), len(shadows)), 0))
		}

		for k, rel := range released {
			m := rel.msg.Meta()
			var want messaging.MsgMeta
			if k < len(accepted) {
				want = accepted[k].msg.Meta()
			}
			if k >= len(accepted) || m.RspTo != want.ID {
				due := "none: every accepted request of this epoch is answered"
				if k < len(accepted) {
					due = fmt.Sprintf("#%d (id %d)", k, want.ID)
				}
				if w, ok := accIndex[m.RspTo]; ok && w.ep < ei {
					c.Fail("rob/response-to-request-dropped-by-reset", wit(fmt.Sprintf("release #%d after Reset #%d answers request id %d, accepted as #%d before that Reset (epoch %d); due: %s",
						k, ei, m.RspTo, w.k, w.ep, due), k))
				} else if cancelled[m.RspTo] {
					c.Fail("rob/response-to-request-dropped-by-reset", wit(fmt.Sprintf("release #%d answers request id %d, which a Reset took off the Top port and discarded; due: %s", k, m.RspTo, due), k))
				} else if ok && k >= len(accepted) {
					c.Fail("rob/extra-response", wit(fmt.Sprintf("release #%d (RspTo=%d, accepted as #%d) but only %d requests were accepted", k, m.RspTo, w.k, len(accepted)), k))
				} else if ok {
					c.Fail("rob/release-order", wit(fmt.Sprintf("release #%d answers the request accepted as #%d (id %d); %s was due", k, w.k, m.RspTo, due), k))
				} else {
					c.Fail("rob/rspto-not-a-request-id", wit(fmt.Sprintf("release #%d has RspTo=%d which is no accepted request id (due: %s)", k, m.RspTo, due), k))
				}
				break // everything after the first misordering is a consequence
			}
			if m.Dst != want.Src {
				c.Fail("rob/response-wrong-dst", wit(fmt.Sprintf("release #%d Dst=%s, requester was %s", k, m.Dst, want.Src), k))
			}
			if m.Src != top.AsRemote() {
				c.Fail("rob/response-wrong-src", wit(fmt.Sprintf("release #%d Src=%s", k, m.Src), k))
			}
			if k >= len(shadows) {
				continue
			}
			sid := shadows[k].msg.Meta().ID
			at, answered := stubRspAt[sid]
			if !answered || at > rel.idx {
				c.Fail("rob/released-before-lower-unit-answered", wit(fmt.Sprintf("release #%d precedes the lower unit's answer to its shadow %d (Resets so far: %d)", k, sid, ei), k))
			}
			_, isRead := accepted[k].msg.(memprotocol.ReadReq)
			switch rsp := rel.msg.(type) {
			case memprotocol.DataReadyRsp:
				if !isRead {
					c.Fail("rob/response-wrong-kind", wit(fmt.Sprintf("write #%d answered with DataReadyRsp", k), k))
				} else if string(rsp.Data) != string(st.sentData[sid]) {
					c.Fail("rob/read-data-not-lower-units", wit(fmt.Sprintf("release #%d carries %x, the lower unit answered shadow %d with %x (Resets so far: %d)", k, rsp.Data, sid, st.sentData[sid], ei), k))
				}
			case memprotocol.WriteDoneRsp:
				if isRead {
					c.Fail("rob/response-wrong-kind", wit(fmt.Sprintf("read #%d answered with WriteDoneRsp", k), k))
				}
			default:
				c.Fail("rob/response-wrong-kind", wit(fmt.Sprintf("release #%d is a %T", k, rel.msg), k))
			}
			// coverage: was a younger request already answered below when this one was released late?
			if answered {
				for j := k + 1; j < len(shadows) && j <= k+16; j++ {
					if a2, ok := stubRspAt[shadows[j].msg.Meta().ID]; ok && a2 < at {
						held++
						break
					}
				}
			}
			r.Count("responses_released_and_checked", 1)
		}
		if e.maxOcc > maxOcc {
			maxOcc = e.maxOcc
		}
		if e.maxOcc > cf.BufferSize {
			c.Fail("rob/over-capacity", wit(fmt.Sprintf("%d transactions in flight with BufferSize %d", e.maxOcc, cf.BufferSize), 0))
		}
		if !e.reset && len(released) != len(accepted) {
			c.Fail("rob/unanswered", wit(fmt.Sprintf("after the last Reset %d requests were accepted and %d released at t=%d ps (limit %d; stub still holds %d; controller at episode %d/%d step %d)",
				len(accepted), len(released), engine.CurrentTime(), limit, len(st.pend), ctl.cur, len(ctl.eps), ctl.step), len(released)))
		}
	}
	if nAcc+int(discardedAtReset) != total {
		c.Fail("rob/unanswered", map[string]any{"cfg": cf, "msg": fmt.Sprintf("%d requests scripted, %d accepted and %d discarded by Resets at t=%d ps (limit %d; controller at episode %d/%d step %d)",
			total, nAcc, discardedAtReset, engine.CurrentTime(), limit, ctl.cur, len(ctl.eps), ctl.step)})
	}

	// Every requester got its own answers in its own issue order. An answer may
	// be missing only for a request a Reset dropped, or for one of the last
	// answers before a Reset (they may still have been in the Top port's
	// outgoing buffer, which "drains Top/Bottom queues" may or may not cover).
	mayMiss := func(id uint64) bool {
		if cancelled[id] {
			return true
		}
		w, ok := accIndex[id]
		return ok && eps[w.ep].reset && w.k >= len(eps[w.ep].released)-cf.RobPortBuf
	}
	gotAfterCancel := int64(0)
	for i, q := range reqs {
		k := 0
		for n, g := range q.got {
			id := g.Meta().RspTo
			j := k
			for j < q.next && q.ids[j] != id {
				j++
			}
			if j == q.next {
				c.Fail("rob/requester-sees-wrong-order", map[string]any{"cfg": cf, "msg": fmt.Sprintf("requester %d: response #%d has RspTo=%d, which is not one of its requests still unanswered (next unanswered: #%d)", i, n, id, k)})
				break
			}
			for ; k < j; k++ {
				if !mayMiss(q.ids[k]) {
					c.Fail("rob/requester-response-missing", map[string]any{"cfg": cf, "msg": fmt.Sprintf("requester %d: request #%d (id %d) was skipped: response #%d answers its request #%d", i, k, q.ids[k], n, j)})
				}
			}
			if cancelled[id] {
				gotAfterCancel++
			}
			k = j + 1
		}
		for ; k < q.next; k++ {
			if !mayMiss(q.ids[k]) {
				c.Fail("rob/requester-response-missing", map[string]any{"cfg": cf, "msg": fmt.Sprintf("requester %d issued %d requests; #%d (id %d) was never answered and no Reset dropped it", i, q.next, k, q.ids[k])})
				break
			}
		}
	}
	if gotAfterCancel > 0 { // a cancelled request is by definition one the ROB did not release
		c.Fail("rob/response-to-request-dropped-by-reset", map[string]any{"cfg": cf, "msg": fmt.Sprintf("%d responses reached requesters for requests a Reset had dropped", gotAfterCancel)})
	}

	// coverage
	stalls := int64(0)
	for _, q := range reqs {
		stalls += q.stalled
	}
	r.Count("requests_accepted", int64(nAcc))
	r.Count("lower_unit_out_of_order_completions", st.ooo)
	r.Count("releases_held_behind_older_request", held)
	r.Count("requester_stall_ticks_with_response_waiting", stalls)
	r.Count("resets_acknowledged", resets)
	r.Count("resets_with_requests_in_flight", resetsInFlight)
	r.Count("requests_in_flight_dropped_by_reset", dropped)
	r.Count("requests_discarded_from_top_queue_by_reset", discardedAtReset)
	r.Count("late_lower_unit_answers_to_dropped_shadows_after_reset", late)
	r.Count("late_answers_arriving_while_new_requests_in_flight", lateBusy)
	r.Count("pauses_with_requests_in_flight", pausesInFlight)
	r.Count("drains_with_requests_in_flight", drainsInFlight)
	r.Count("control_acks_pause", int64(ctlAcks[memcontrolprotocol.CmdPause]))
	r.Count("control_acks_drain", int64(ctlAcks[memcontrolprotocol.CmdDrain]))
	r.Count("control_acks_enable", int64(ctlAcks[memcontrolprotocol.CmdEnable]))
	r.Count("control_acks_unsuccessful", ctlFailed)
	if len(cf.Episodes) == 0 {
		r.Count("cases_without_control_traffic", 1)
	}
	if ctl.cur < len(ctl.eps) {
		r.Count("cases_with_unfinished_control_script", 1)
	}
	if maxOcc >= cf.BufferSize {
		r.Count("cases_rob_filled_to_capacity", 1)
	}
	if stalls > 0 && cf.RspStallPct >= 70 {
		r.Count("cases_with_top_backpressure", 1)
	}
	r.Max("max_rob_occupancy", int64(maxOcc))
	r.Max("max_pending_in_lower_unit", int64(st.maxPend))
	r.Max("max_resets_in_one_case", resets)
	r.Distinct("stub_policy/buffer_size", fmt.Sprintf("%s/%d", cf.StubPolicy, cf.BufferSize))
	for _, e := range cf.Episodes {
		r.Distinct("episode_kind/hold", fmt.Sprintf("%s/%d", e.Kind, e.Hold))
	}
	if st.ooo > 0 && nRel >= 10 {
		j, _ := json.Marshal(cf)
		c.Nontrivial(string(j))
	}
	c.Sample(map[string]any{"cfg": cf, "accepted": nAcc, "released": nRel, "out_of_order_completions_below": st.ooo,
		"resets": resets, "dropped_by_reset": dropped, "discarded_from_top_queue": discardedAtReset, "late_answers_after_reset": late,
		"max_occupancy": maxOcc, "end_time_ps": engine.CurrentTime()})
}

// sameRequest describes how a shadow differs from the original ("" = same).
func sameRequest(orig, shadow messaging.Msg) string {
	switch o := orig.(type) {
	case memprotocol.ReadReq:
		s, ok := shadow.(memprotocol.ReadReq)
		if !ok {
			return fmt.Sprintf("is a %T for a ReadReq", shadow)
		}
		if s.Address != o.Address || s.AccessByteSize != o.AccessByteSize || s.PID != o.PID {
			return fmt.Sprintf("reads %#x+%d pid %d, the request reads %#x+%d pid %d", s.Address, s.AccessByteSize, s.PID, o.Address, o.AccessByteSize, o.PID)
		}
	case memprotocol.WriteReq:
		s, ok := shadow.(memprotocol.WriteReq)
		if !ok {
			return fmt.Sprintf("is a %T for a WriteReq", shadow)
		}
		if s.Address != o.Address || string(s.Data) != string(o.Data) || fmt.Sprint(s.DirtyMask) != fmt.Sprint(o.DirtyMask) || s.PID != o.PID {
			return fmt.Sprintf("writes %#x %x, the request writes %#x %x", s.Address, s.Data, o.Address, o.Data)
		}
	}
	return ""
}

func (q *requester) tick(cf cfg, rng *rand.Rand, dst messaging.RemotePort) bool {
	progress := false
	if q.port.PeekIncoming() != nil {
		if rng.Intn(100) < cf.RspStallPct {
			q.stalled++
			progress = true // come back next cycle
		} else {
			for i := 0; i < 2; i++ {
				m := q.port.RetrieveIncoming()
				if m == nil {
					break
				}
				q.got = append(q.got, m)
				progress = true
			}
		}
	}
	if q.next < len(q.script) {
		if rng.Intn(100) < cf.IdlePct {
			return true
		}
		if q.port.CanSend() {
			s := q.script[q.next]
			id := timing.GetIDGenerator().Generate()
			var msg messaging.Msg
			if s.isRead {
				m := memprotocol.ReadReq{Address: s.addr, AccessByteSize: s.size, PID: 1}
				m.ID, m.Src, m.Dst, m.TrafficBytes, m.TrafficClass = id, q.port.AsRemote(), dst, 12, "memprotocol.ReadReq"
				msg = m
			} else {
				m := memprotocol.WriteReq{Address: s.addr, Data: s.data, PID: 1}
				if len(s.data) > 2 && s.data[0]&1 == 1 {
					m.DirtyMask = make([]bool, len(s.data))
					for i := range m.DirtyMask {
						m.DirtyMask[i] = s.data[i]&2 != 0
					}
				}
				m.ID, m.Src, m.Dst, m.TrafficBytes, m.TrafficClass = id, q.port.AsRemote(), dst, len(s.data)+12, "memprotocol.WriteReq"
				msg = m
			}
			q.port.Send(msg)
			q.ids = append(q.ids, id)
			q.next++
			progress = true
		}
	}
	return progress
}

// controller runs the control episodes of the case against the ROB's Control port.
type controller struct {
	port    messaging.Port
	dst     messaging.RemotePort
	eps     []episode
	cur     int // current episode
	step    int // 0 waiting for the trigger, 1 first command(s) sent, 2 holding, 3 last command sent
	hold    int
	waitAck int
	queue   []memcontrolprotocol.Command
	issued  func() int
	sent    map[string]int
	acks    []memcontrolprotocol.Rsp
}

func (k *controller) cmd(c memcontrolprotocol.Command) {
	k.queue = append(k.queue, c)
	k.waitAck++
}

func (k *controller) flush() {
	for len(k.queue) > 0 && k.port.CanSend() {
		req := memcontrolprotocol.Req{Command: k.queue[0]}
		req.ID = timing.GetIDGenerator().Generate()
		req.Src, req.Dst = k.port.AsRemote(), k.dst
		req.TrafficBytes, req.TrafficClass = 8, "memcontrolprotocol.Req"
		k.port.Send(req)
		k.queue = k.queue[1:]
	}
}

func (k *controller) tick() bool {
	for {
		m := k.port.RetrieveIncoming()
		if m == nil {
			break
		}
		if rsp, ok := m.(memcontrolprotocol.Rsp); ok {
			k.acks = append(k.acks, rsp)
			k.waitAck--
		}
	}
	k.flush()
	if k.cur >= len(k.eps) {
		return false
	}
	e := k.eps[k.cur]
	settled := k.waitAck == 0 && len(k.queue) == 0
	switch k.step {
	case 0:
		if k.issued() < e.AfterIssued {
			break
		}
		switch e.Kind {
		case "reset":
			k.cmd(memcontrolprotocol.CmdReset)
		case "pause_enable", "pause_reset":
			k.cmd(memcontrolprotocol.CmdPause)
		case "drain_enable":
			k.cmd(memcontrolprotocol.CmdDrain)
		case "drain_reset":
			k.cmd(memcontrolprotocol.CmdDrain)
			k.cmd(memcontrolprotocol.CmdReset)
		}
		k.step = 1
	case 1:
		if !settled {
			break
		}
		if e.Kind == "reset" || e.Kind == "drain_reset" {
			k.cur, k.step = k.cur+1, 0
		} else {
			k.hold, k.step = e.Hold, 2
		}
	case 2:
		if k.hold > 0 {
			k.hold--
			break
		}
		if e.Kind == "pause_reset" {
			k.cmd(memcontrolprotocol.CmdReset)
		} else {
			k.cmd(memcontrolprotocol.CmdEnable)
		}
		k.step = 3
	case 3:
		if settled {
			k.cur, k.step = k.cur+1, 0
		}
	}
	k.flush()
	return true
}

func (s *stub) tick(cf cfg, rng *rand.Rand) bool {
	progress := false
	for i := range s.pend {
		if s.pend[i].delay > 0 {
			s.pend[i].delay--
			progress = true
		}
	}
	// answer
	for w := 0; w < cf.StubWidth; w++ {
		var ready []int
		for i, p := range s.pend {
			if p.delay == 0 {
				ready = append(ready, i)
			}
		}
		if len(ready) == 0 || !s.port.CanSend() {
			break
		}
		pickIdx := ready[0]
		switch cf.StubPolicy {
		case "random":
			pickIdx = ready[rng.Intn(len(ready))]
		case "lifo":
			pickIdx = ready[len(ready)-1]
		case "hold_oldest":
			// the oldest outstanding request is answered only when nothing else is
			// left to answer, and then only reluctantly
			if ready[0] == 0 {
				if len(ready) > 1 {
					pickIdx = ready[1+rng.Intn(len(ready)-1)]
				} else if rng.Intn(6) != 0 {
					pickIdx = -1
				}
			}
		}
		if pickIdx < 0 {
			progress = true
			break
		}
		p := s.pend[pickIdx]
		if pickIdx > 0 {
			s.ooo++
		}
		id := timing.GetIDGenerator().Generate()
		var msg messaging.Msg
		if p.isRead {
			m := memprotocol.DataReadyRsp{Data: stubData(p.id, p.size)}
			m.ID, m.Src, m.Dst, m.RspTo, m.TrafficBytes, m.TrafficClass = id, s.port.AsRemote(), p.src, p.id, int(p.size)+4, "memprotocol.DataReadyRsp"
			s.sentData[p.id] = m.Data
			msg = m
		} else {
			m := memprotocol.WriteDoneRsp{}
			m.ID, m.Src, m.Dst, m.RspTo, m.TrafficBytes, m.TrafficClass = id, s.port.AsRemote(), p.src, p.id, 4, "memprotocol.WriteDoneRsp"
			msg = m
		}
		s.sentKind[p.id] = p.isRead
		s.port.Send(msg)
		s.pend = append(s.pend[:pickIdx], s.pend[pickIdx+1:]...)
		progress = true
	}
	// accept
	if s.port.PeekIncoming() != nil {
		if rng.Intn(100) < cf.StubStallPct {
			progress = true
		} else {
			for w := 0; w < cf.StubWidth; w++ {
				m := s.port.RetrieveIncoming()
				if m == nil {
					break
				}
				p := pending{id: m.Meta().ID, src: m.Meta().Src, seq: s.nAcc}
				s.nAcc++
				if rd, ok := m.(memprotocol.ReadReq); ok {
					p.isRead, p.size = true, rd.AccessByteSize
				}
				if cf.StubMaxDelay > 0 {
					p.delay = rng.Intn(cf.StubMaxDelay + 1)
				}
				s.pend = append(s.pend, p)
				if len(s.pend) > s.maxPend {
					s.maxPend = len(s.pend)
				}
				progress = true
			}
		}
	}
	return progress || len(s.pend) > 0
}
