// C14 Buffers behave as bounded FIFO queues: long mixed operation histories on
// queueing.Buffer[T] against a slice model; copies made by snapshot/restore and
// by JSON round trips keep executing the same history and must stay equal.
package main

import (
	"encoding/json"
	"fmt"
	"io"
	"log"
	"math/rand"
	"strings"

	"verifharness/kit"

	"github.com/sarchlab/akita/v5/hooking"
	"github.com/sarchlab/akita/v5/queueing"
)

type rec struct {
	ID   int    `json:"id"`
	Tag  string `json:"tag"`
	Flag bool   `json:"flag"`
}

type params struct {
	Ops int `json:"ops"`
}

func main() {
	kit.Main(kit.Prop{
		ID:    "C14",
		Level: "exploration",
		Rule: "a case is one PRNG-drawn history (element type int/string/struct, capacity 0..8 or occasionally 9..40, push bias per case) of " +
			"CanPush/PushTyped/Pop/Peek/UpdateFront/Clear/Elements/Restore/snapshot-restore/JSON-round-trip operations executed on the real buffer(s) and on a slice model; " +
			"every result and the whole observable state (Name, Capacity, Size, CanPush, Peek, Elements) of every live copy is compared after every operation; " +
			"non-trivial when the history had an accepted push, a pop of a real element and at least one boundary event (push refused at capacity, or pop/peek on empty); " +
			"distinct by (type, capacity, operation/result trace)",
		Assumptions: []string{
			"capacity >= 0 (negative capacities are not constructed)",
			"PushTyped beyond capacity and Restore of more elements than the capacity are documented to panic: the check requires the panic and an unchanged buffer",
			"element types int, string and a flat struct with exported fields (JSON-faithful types)",
			"hooks are attached in half of the cases only to exercise that path; hook delivery itself is not judged",
		},
		Plan: func(tier string, seed int64) []kit.Batch {
			nb, n, ops := 12, 2500, 120
			if tier == "thorough" {
				nb, n, ops = 32, 20000, 300
			}
			var bs []kit.Batch
			for i := 0; i < nb; i++ {
				bs = append(bs, kit.Batch{Name: fmt.Sprintf("hist%d", i), Seed: seed*1000 + int64(i), N: n,
					Params: kit.MkParams(params{Ops: ops})})
			}
			return bs
		},
		Run: run,
		MustObserve: []string{
			"push_refused_at_capacity", "push_panic_at_capacity_confirmed", "pop_on_empty", "peek_on_empty",
			"pop_real_element", "update_front_applied", "update_front_on_empty", "clear_nonempty",
			"restore_applied", "restore_overflow_refused", "snapshot_restore_copies", "json_roundtrips_nonempty",
			"capacity_zero_push_refused", "buffer_full_states", "elements_copy_mutated",
		},
	})
}

func run(b kit.Batch, r *kit.R) {
	log.SetOutput(io.Discard) // log.Panic of the documented refusals
	var p params
	b.P(&p)
	r.ForEach(b.N, func(c *kit.Case) {
		switch c.Rng.Intn(3) {
		case 0:
			runCase(c, r, p.Ops, "int", func(rng *rand.Rand, id int) int { return id })
		case 1:
			runCase(c, r, p.Ops, "string", func(rng *rand.Rand, id int) string {
				if rng.Intn(10) == 0 {
					return "" // the zero value as a real element
				}
				return fmt.Sprintf("s%d\"\\u00e9", id)
			})
		default:
			runCase(c, r, p.Ops, "struct", func(rng *rand.Rand, id int) rec {
				if rng.Intn(12) == 0 {
					return rec{} // the zero value as a real element
				}
				return rec{ID: id, Tag: fmt.Sprintf("t%d", id%7), Flag: id%2 == 0}
			})
		}
	})
}

type countHook struct{ push, pop int }

func (h *countHook) Func(ctx hooking.HookCtx) {
	switch ctx.Pos {
	case queueing.HookPosBufPush:
		h.push++
	case queueing.HookPosBufPop:
		h.pop++
	}
}

type subject[T comparable] struct {
	b     *queueing.Buffer[T]
	label string
}

// panics reports whether f panicked.
func panics(f func()) (p bool) {
	defer func() {
		if e := recover(); e != nil {
			p = true
		}
	}()
	f()
	return false
}

type holder[T any] struct {
	Pad int                `json:"pad"`
	B   queueing.Buffer[T] `json:"b"`
}

func runCase[T comparable](c *kit.Case, r *kit.R, nOps int, typ string, gen func(*rand.Rand, int) T) {
	rng := c.Rng
	capacity := rng.Intn(9)
	if rng.Intn(12) == 0 {
		capacity = 9 + rng.Intn(32)
	}
	name := fmt.Sprintf("Buf[%d].%s", c.Index, typ)
	pushBias := []int{25, 45, 60, 80}[rng.Intn(4)]
	withHook := rng.Intn(2) == 0
	c.Desc(map[string]any{"type": typ, "capacity": capacity, "push_bias_pct": pushBias, "hook": withHook, "ops": nOps})

	var zero T
	var model []T
	nb := queueing.NewBuffer[T](name, capacity)
	subs := []*subject[T]{{b: &nb, label: "original"}}
	hook := &countHook{}
	if withHook {
		nb.AcceptHook(hook)
	}
	nextID := 1
	var trace strings.Builder
	fmt.Fprintf(&trace, "%s/%d:", typ, capacity)
	var written []string
	note := func(format string, a ...any) {
		s := fmt.Sprintf(format, a...)
		trace.WriteString(s)
		trace.WriteByte(';')
		if len(written) < 40 {
			written = append(written, s)
		}
	}
	failed := false
	fail := func(key, format string, a ...any) {
		failed = true
		c.Fail(key, map[string]any{"msg": fmt.Sprintf(format, a...), "desc": map[string]any{"type": typ, "capacity": capacity},
			"history_prefix": written, "model": fmt.Sprint(model)})
	}
	eq := func(a, b []T) bool {
		if len(a) != len(b) {
			return false
		}
		for i := range a {
			if a[i] != b[i] {
				return false
			}
		}
		return true
	}
	checkState := func(after string) {
		for _, s := range subs {
			if s.b.Name() != name || s.b.Capacity() != capacity {
				fail("buffer/meta", "after %s on %s: Name/Capacity = %q/%d want %q/%d", after, s.label, s.b.Name(), s.b.Capacity(), name, capacity)
			}
			if s.b.Size() != len(model) {
				fail("buffer/size", "after %s on %s: Size=%d model=%d", after, s.label, s.b.Size(), len(model))
			}
			if s.b.CanPush() != (len(model) < capacity) {
				fail("buffer/canpush", "after %s on %s: CanPush=%v with %d/%d elements", after, s.label, s.b.CanPush(), len(model), capacity)
			}
			if got := s.b.Elements(); !eq(got, model) {
				fail("buffer/contents", "after %s on %s: Elements=%v model=%v", after, s.label, got, model)
			}
			want := zero
			if len(model) > 0 {
				want = model[0]
			}
			if got := s.b.Peek(); got != want {
				fail("buffer/peek", "after %s on %s: Peek=%v want %v", after, s.label, got, want)
			}
		}
	}
	addSubject := func(s *subject[T]) {
		if len(subs) < 4 {
			subs = append(subs, s)
		} else {
			subs[1+rng.Intn(3)] = s
		}
	}

	var acceptedPush, realPop, boundary int
	for op := 0; op < nOps && !failed; op++ {
		k := rng.Intn(100)
		switch {
		case k < pushBias*6/10: // push
			e := gen(rng, nextID)
			nextID++
			if len(model) < capacity {
				for _, s := range subs {
					if !s.b.CanPush() {
						fail("buffer/canpush", "CanPush false on %s with %d/%d elements", s.label, len(model), capacity)
						continue
					}
					s.b.PushTyped(e)
				}
				model = append(model, e)
				acceptedPush++
				r.Count("push_accepted", 1)
				note("push(%v)", e)
				if len(model) == capacity {
					r.Count("buffer_full_states", 1)
				}
			} else {
				boundary++
				r.Count("push_refused_at_capacity", 1)
				if capacity == 0 {
					r.Count("capacity_zero_push_refused", 1)
				}
				note("push(%v)->refused", e)
				for _, s := range subs {
					if s.b.CanPush() {
						fail("buffer/canpush", "CanPush true on %s with %d/%d elements", s.label, len(model), capacity)
					}
					if rng.Intn(2) == 0 {
						if !panics(func() { s.b.PushTyped(e) }) {
							fail("buffer/push-beyond-capacity", "PushTyped(%v) on %s with %d/%d elements did not panic", e, s.label, len(model), capacity)
						} else {
							r.Count("push_panic_at_capacity_confirmed", 1)
						}
					}
				}
			}
		case k < pushBias*6/10+(100-pushBias)*6/10: // pop
			want := zero
			if len(model) > 0 {
				want = model[0]
				model = model[1:]
				realPop++
				r.Count("pop_real_element", 1)
			} else {
				boundary++
				r.Count("pop_on_empty", 1)
			}
			note("pop->%v", want)
			for _, s := range subs {
				if got := s.b.Pop(); got != want {
					fail("buffer/pop", "Pop on %s = %v want %v", s.label, got, want)
				}
			}
		case k < 66: // peek (also done by checkState, here counted as an operation)
			if len(model) == 0 {
				boundary++
				r.Count("peek_on_empty", 1)
			} else {
				r.Count("peek_nonempty", 1)
			}
			note("peek")
		case k < 74: // UpdateFront
			e := gen(rng, nextID)
			nextID++
			if len(model) > 0 {
				model = append([]T(nil), model...) // keep the model free of aliasing
				model[0] = e
				r.Count("update_front_applied", 1)
			} else {
				r.Count("update_front_on_empty", 1)
			}
			note("updateFront(%v)", e)
			for _, s := range subs {
				s.b.UpdateFront(e)
			}
		case k < 78: // Clear
			if len(model) > 0 {
				r.Count("clear_nonempty", 1)
			} else {
				r.Count("clear_empty", 1)
			}
			model = nil
			note("clear")
			for _, s := range subs {
				s.b.Clear()
			}
		case k < 83: // Elements returns a copy
			note("elements+mutate")
			for _, s := range subs {
				got := s.b.Elements()
				if !eq(got, model) {
					fail("buffer/contents", "Elements on %s = %v model=%v", s.label, got, model)
				}
				if len(got) > 0 {
					for i := range got {
						got[i] = gen(rng, -1-i)
					}
					got = append(got[:0], got[len(got)-1])
					_ = got
					r.Count("elements_copy_mutated", 1)
					if now := s.b.Elements(); !eq(now, model) {
						fail("buffer/elements-alias", "mutating the slice returned by Elements changed %s: %v model=%v", s.label, now, model)
					}
				}
			}
		case k < 89: // Restore(list)
			n := rng.Intn(capacity + 3)
			list := make([]T, n, n+rng.Intn(3))
			for i := range list {
				list[i] = gen(rng, nextID)
				nextID++
			}
			if n <= capacity {
				model = append([]T(nil), list...)
				r.Count("restore_applied", 1)
				note("restore(%v)", list)
				for _, s := range subs {
					arg := append(make([]T, 0, cap(list)), list...)
					s.b.Restore(arg)
					for i := range arg { // the buffer must not alias its argument
						arg[i] = gen(rng, -100-i)
					}
					_ = append(arg, zero)
					if n > 0 {
						r.Count("restore_argument_mutated", 1)
					}
					if now := s.b.Elements(); !eq(now, model) {
						fail("buffer/restore", "after Restore(%v) (+ mutation of the argument) %s holds %v", list, s.label, now)
					}
				}
			} else {
				r.Count("restore_overflow_refused", 1)
				note("restore(%d elements)->refused", n)
				for _, s := range subs {
					if !panics(func() { s.b.Restore(list) }) {
						fail("buffer/restore-overflow", "Restore of %d elements into capacity %d on %s did not panic", n, capacity, s.label)
					}
				}
			}
		case k < 94: // snapshot (Elements) + Restore into a new buffer
			src := subs[rng.Intn(len(subs))]
			cp := queueing.NewBuffer[T](src.b.Name(), src.b.Capacity())
			cp.Restore(src.b.Elements())
			addSubject(&subject[T]{b: &cp, label: fmt.Sprintf("snapshot-of-%s@%d", src.label, op)})
			r.Count("snapshot_restore_copies", 1)
			note("snapshot-restore")
		default: // JSON round trip
			src := subs[rng.Intn(len(subs))]
			form := rng.Intn(3)
			var data []byte
			var err error
			switch form {
			case 0:
				data, err = json.Marshal(src.b)
			case 1:
				data, err = json.Marshal(*src.b) //nolint:govet // value receiver form is the documented use
			default:
				data, err = json.Marshal(holder[T]{Pad: 7, B: *src.b})
			}
			if err != nil {
				fail("buffer/json-error", "Marshal(%s): %v", src.label, err)
				break
			}
			var dst *queueing.Buffer[T]
			dirty := rng.Intn(2) == 0
			mk := func() *queueing.Buffer[T] {
				if !dirty {
					return new(queueing.Buffer[T])
				}
				d := queueing.NewBuffer[T]("dirty", capacity+3)
				for i := 0; i < capacity+2; i++ {
					d.PushTyped(gen(rng, -1000-i))
				}
				return &d
			}
			if form == 2 {
				h := holder[T]{B: *mk()}
				err = json.Unmarshal(data, &h)
				dst = &h.B
				if err == nil && h.Pad != 7 {
					fail("buffer/json-contents", "holder field lost around the buffer: %s", data)
				}
			} else {
				dst = mk()
				err = json.Unmarshal(data, dst)
			}
			if err != nil {
				fail("buffer/json-error", "Unmarshal(%s): %v", data, err)
				break
			}
			r.Count("json_roundtrips", 1)
			if len(model) > 0 {
				r.Count("json_roundtrips_nonempty", 1)
			}
			if dirty {
				r.Count("json_into_dirty_buffer", 1)
			}
			if dst.Name() != name {
				fail("buffer/json-name", "name after round trip %q want %q (%s)", dst.Name(), name, data)
			}
			if dst.Capacity() != capacity {
				fail("buffer/json-cap", "capacity after round trip %d want %d (%s)", dst.Capacity(), capacity, data)
			}
			if got := dst.Elements(); !eq(got, model) {
				fail("buffer/json-contents", "contents after round trip %v want %v (%s)", got, model, data)
			}
			addSubject(&subject[T]{b: dst, label: fmt.Sprintf("json%d-of-%s@%d", form, src.label, op)})
			note("json-roundtrip(form %d, dirty %v)", form, dirty)
		}
		if !failed {
			checkState(fmt.Sprintf("op %d", op))
		}
		r.Count("operations", 1)
		r.Max("max_occupancy", int64(len(model)))
		r.Max("max_live_copies", int64(len(subs)))
	}
	if withHook {
		r.Count("hook_push_events_seen", int64(hook.push))
		r.Count("hook_pop_events_seen", int64(hook.pop))
	}
	r.Distinct("capacities", fmt.Sprint(capacity))
	if acceptedPush > 0 && realPop > 0 && boundary > 0 {
		c.Nontrivial(trace.String())
	}
	c.Sample(map[string]any{"type": typ, "capacity": capacity, "name": name, "first_operations": written,
		"final_contents": fmt.Sprint(model), "copies_alive": len(subs)})
}
