// C35 The data recorder persists every entry exactly once: generated table
// shapes (reflect.StructOf), values and insert/flush histories -- sequential and
// from several goroutines -- are written through the real recorder; the SQLite
// file is read back with database/sql and compared as a multiset.
package main

import (
	"context"
	"database/sql"
	"fmt"
	"math"
	"math/rand"
	"os"
	"reflect"
	"regexp"
	"sort"
	"strings"
	"sync"

	"verifharness/kit"

	"github.com/sarchlab/akita/v5/datarecording"
)

// ---------------------------------------------------------------- shapes

type fieldSpec struct {
	Name string
	Kind string // Go kind name, or "ign:<type>" for ignored exotic types
	Tag  string // "", ignore, index, unique, location
}

type tableSpec struct {
	Name   string
	Fields []fieldSpec
	typ    reflect.Type
	rows   []reflect.Value
	uniq   int
	made   bool // CreateTable succeeded
}

var kindTypes = map[string]reflect.Type{
	"bool": reflect.TypeOf(false), "int": reflect.TypeOf(int(0)), "int8": reflect.TypeOf(int8(0)),
	"int16": reflect.TypeOf(int16(0)), "int32": reflect.TypeOf(int32(0)), "int64": reflect.TypeOf(int64(0)),
	"uint": reflect.TypeOf(uint(0)), "uint8": reflect.TypeOf(uint8(0)), "uint16": reflect.TypeOf(uint16(0)),
	"uint32": reflect.TypeOf(uint32(0)), "uint64": reflect.TypeOf(uint64(0)),
	"float32": reflect.TypeOf(float32(0)), "float64": reflect.TypeOf(float64(0)), "string": reflect.TypeOf(""),
	"complex64": reflect.TypeOf(complex64(0)), "complex128": reflect.TypeOf(complex128(0)),
	"ign:slice": reflect.TypeOf([]int(nil)), "ign:ptr": reflect.TypeOf((*int)(nil)), "ign:map": reflect.TypeOf(map[string]int(nil)),
}

var plainKinds = []string{"bool", "int", "int8", "int16", "int32", "int64", "uint", "uint8", "uint16", "uint32", "uint64",
	"float32", "float64", "string", "string", "int", "uint64", "float64"}

func (t *tableSpec) build() {
	var sf []reflect.StructField
	for _, f := range t.Fields {
		x := reflect.StructField{Name: f.Name, Type: kindTypes[f.Kind]}
		if f.Tag != "" {
			x.Tag = reflect.StructTag(`akita_data:"` + f.Tag + `"`)
		}
		sf = append(sf, x)
	}
	t.typ = reflect.StructOf(sf)
}

func genTable(rng *rand.Rand, name string, flavor string) *tableSpec {
	t := &tableSpec{Name: name}
	nf := 1 + rng.Intn(8)
	for i := 0; i < nf; i++ {
		f := fieldSpec{Name: fmt.Sprintf("F%d", i), Kind: plainKinds[rng.Intn(len(plainKinds))]}
		switch rng.Intn(10) {
		case 0:
			f.Tag = "ignore"
			if rng.Intn(2) == 0 {
				f.Kind = []string{"ign:slice", "ign:ptr", "ign:map"}[rng.Intn(3)]
			}
		case 1:
			f.Tag = "index"
		case 2:
			if f.Kind == "int64" || f.Kind == "string" || f.Kind == "int" {
				f.Tag = "unique"
			}
		case 3, 4:
			f.Kind, f.Tag = "string", "location"
		}
		t.Fields = append(t.Fields, f)
	}
	// make sure at least one field is stored
	stored := false
	for _, f := range t.Fields {
		if f.Tag != "ignore" {
			stored = true
		}
	}
	if !stored {
		t.Fields = append(t.Fields, fieldSpec{Name: "Seq", Kind: "int64"})
	}
	switch flavor {
	case "hb64":
		t.Fields = append(t.Fields, fieldSpec{Name: "Big", Kind: "uint64"})
	case "hbuint":
		t.Fields = append(t.Fields, fieldSpec{Name: "Big", Kind: "uint"})
	case "complex":
		t.Fields = append(t.Fields, fieldSpec{Name: "Cx", Kind: []string{"complex64", "complex128"}[rng.Intn(2)]})
	}
	t.build()
	return t
}

// ---------------------------------------------------------------- values

var strPool = []string{"", "a", "O'Reilly", `say "hi"`, "semi;colon -- DROP TABLE t0;", "naïve ☃ 𝄞 日本語", "nul\x00mid", "line\nbreak\ttab",
	"123", "1e5", " pad ", "NULL", "%s %d", "\\back\\slash", "?", "''", "x'00'"}

func genString(rng *rand.Rand) string {
	switch rng.Intn(5) {
	case 0, 1:
		return strPool[rng.Intn(len(strPool))]
	case 2:
		n := rng.Intn(12)
		b := make([]byte, n)
		for i := range b {
			b[i] = byte(32 + rng.Intn(95))
		}
		return string(b)
	case 3:
		rs := []rune("abcé☃𝄞'\"\x00;% ")
		n := rng.Intn(10)
		out := make([]rune, n)
		for i := range out {
			out[i] = rs[rng.Intn(len(rs))]
		}
		return string(out)
	default:
		return strings.Repeat("long'", 1+rng.Intn(400))
	}
}

func genInt(rng *rand.Rand, bits int) int64 {
	minv, maxv := int64(-1)<<(bits-1), int64(1)<<(bits-1)-1
	switch rng.Intn(6) {
	case 0:
		return minv
	case 1:
		return maxv
	case 2:
		return int64(rng.Intn(5)) - 2
	default:
		v := rng.Int63() >> uint(64-bits)
		if rng.Intn(2) == 0 {
			v = -v - 1
		}
		return v
	}
}

func genUint(rng *rand.Rand, bits int, high bool) uint64 {
	if bits == 64 {
		if high {
			return []uint64{1 << 63, math.MaxUint64, 1<<63 + uint64(rng.Int63())}[rng.Intn(3)]
		}
		switch rng.Intn(5) {
		case 0:
			return 1<<63 - 1
		case 1:
			return uint64(rng.Intn(3))
		default:
			return uint64(rng.Int63())
		}
	}
	maxv := uint64(1)<<bits - 1
	switch rng.Intn(5) {
	case 0:
		return maxv
	case 1:
		return 0
	default:
		return rng.Uint64() & maxv
	}
}

func genFloat(rng *rand.Rand, bits int) float64 {
	var pool []float64
	if bits == 32 {
		pool = []float64{0, 1.5, -2.25, math.MaxFloat32, -math.MaxFloat32, math.SmallestNonzeroFloat32, math.Inf(1), math.Inf(-1), 3, 16777216, float64(float32(0.1))}
	} else {
		pool = []float64{0, 1.5, -2.25, math.MaxFloat64, -math.MaxFloat64, math.SmallestNonzeroFloat64, math.Inf(1), math.Inf(-1), 3, 1 << 53, 0.1, 1e300, -1e-300, 9007199254740993}
	}
	if rng.Intn(2) == 0 {
		return pool[rng.Intn(len(pool))]
	}
	if bits == 32 {
		return float64(float32(rng.NormFloat64() * 1e6))
	}
	return rng.NormFloat64() * math.Pow(10, float64(rng.Intn(40)-20))
}

func (t *tableSpec) genRow(rng *rand.Rand, locs []string, high bool) reflect.Value {
	v := reflect.New(t.typ).Elem()
	for i, f := range t.Fields {
		fv := v.Field(i)
		switch {
		case f.Tag == "unique":
			t.uniq++
			if f.Kind == "string" {
				fv.SetString(fmt.Sprintf("u%d'%s", t.uniq, genString(rng)))
			} else {
				fv.SetInt(int64(t.uniq) * 7)
			}
		case f.Tag == "location":
			fv.SetString(locs[rng.Intn(len(locs))])
		case f.Kind == "bool":
			fv.SetBool(rng.Intn(2) == 0)
		case strings.HasPrefix(f.Kind, "int"):
			fv.SetInt(genInt(rng, fv.Type().Bits()))
		case strings.HasPrefix(f.Kind, "uint"):
			fv.SetUint(genUint(rng, fv.Type().Bits(), high && f.Name == "Big" && rng.Intn(3) > 0))
		case strings.HasPrefix(f.Kind, "float"):
			fv.SetFloat(genFloat(rng, fv.Type().Bits()))
		case f.Kind == "string":
			fv.SetString(genString(rng))
		case strings.HasPrefix(f.Kind, "complex"):
			fv.SetComplex(complex(float64(rng.Intn(5)), float64(rng.Intn(5))))
		case f.Kind == "ign:slice":
			if rng.Intn(2) == 0 {
				fv.Set(reflect.ValueOf([]int{rng.Intn(9)}))
			}
		case f.Kind == "ign:ptr":
			if rng.Intn(2) == 0 {
				x := rng.Intn(9)
				fv.Set(reflect.ValueOf(&x))
			}
		case f.Kind == "ign:map":
			if rng.Intn(2) == 0 {
				fv.Set(reflect.ValueOf(map[string]int{"k": rng.Intn(9)}))
			}
		}
	}
	return v
}

// canonical text of what the database has to hold for a row
func normFloat(f float64) string {
	if f == 0 {
		f = 0 // -0 and +0 are the same number
	}
	return fmt.Sprintf("f:%x", f)
}

func (t *tableSpec) wantKey(v reflect.Value) string {
	var sb strings.Builder
	for i, f := range t.Fields {
		if f.Tag == "ignore" {
			continue
		}
		fv := v.Field(i)
		switch {
		case f.Kind == "bool":
			if fv.Bool() {
				sb.WriteString("i:1")
			} else {
				sb.WriteString("i:0")
			}
		case strings.HasPrefix(f.Kind, "int"):
			fmt.Fprintf(&sb, "i:%d", fv.Int())
		case strings.HasPrefix(f.Kind, "uint"):
			if fv.Uint() >= 1<<63 {
				fmt.Fprintf(&sb, "u:%d", fv.Uint())
			} else {
				fmt.Fprintf(&sb, "i:%d", fv.Uint())
			}
		case strings.HasPrefix(f.Kind, "float"):
			sb.WriteString(normFloat(fv.Float()))
		case f.Kind == "string":
			fmt.Fprintf(&sb, "s:%q", fv.String())
		case strings.HasPrefix(f.Kind, "complex"):
			fmt.Fprintf(&sb, "c:%v", fv.Complex())
		}
		sb.WriteByte('|')
	}
	return sb.String()
}

func gotKey(vals []any, isLoc []bool, loc map[int64]string) string {
	var sb strings.Builder
	for i, x := range vals {
		if isLoc[i] {
			id, ok := x.(int64)
			if !ok {
				fmt.Fprintf(&sb, "badloc:%T:%v", x, x)
			} else if s, ok := loc[id]; ok {
				fmt.Fprintf(&sb, "s:%q", s)
			} else {
				fmt.Fprintf(&sb, "danglingloc:%d", id)
			}
			sb.WriteByte('|')
			continue
		}
		switch v := x.(type) {
		case int64:
			fmt.Fprintf(&sb, "i:%d", v)
		case float64:
			sb.WriteString(normFloat(v))
		case string:
			fmt.Fprintf(&sb, "s:%q", v)
		case []byte:
			fmt.Fprintf(&sb, "b:%q", v)
		case bool:
			if v {
				sb.WriteString("i:1")
			} else {
				sb.WriteString("i:0")
			}
		case nil:
			sb.WriteString("null")
		default:
			fmt.Fprintf(&sb, "?%T:%v", x, x)
		}
		sb.WriteByte('|')
	}
	return sb.String()
}

// ---------------------------------------------------------------- read back

type readBack struct {
	rows   map[string]map[string]int // table -> key -> count
	locErr string
	nloc   int
}

func readDB(path string, tables []*tableSpec) (rb readBack, err error) {
	db, err := sql.Open("sqlite", path)
	if err != nil {
		return rb, err
	}
	defer db.Close()
	rb.rows = map[string]map[string]int{}
	loc := map[int64]string{}
	var hasLoc int
	if err = db.QueryRow(`SELECT COUNT(*) FROM sqlite_master WHERE type='table' AND name='location'`).Scan(&hasLoc); err != nil {
		return rb, err
	}
	if hasLoc > 0 {
		rs, err := db.Query(`SELECT ID, Locale FROM location`)
		if err != nil {
			return rb, err
		}
		seenStr := map[string]int64{}
		for rs.Next() {
			var id, s any
			if err := rs.Scan(&id, &s); err != nil {
				rs.Close()
				return rb, err
			}
			iid, ok1 := id.(int64)
			str, ok2 := s.(string)
			if !ok1 || !ok2 {
				rb.locErr = fmt.Sprintf("location row has types (%T,%T): (%v,%v)", id, s, id, s)
				continue
			}
			if prev, dup := loc[iid]; dup {
				rb.locErr = fmt.Sprintf("location id %d stored twice (%q and %q)", iid, prev, str)
			}
			if prev, dup := seenStr[str]; dup {
				rb.locErr = fmt.Sprintf("location string %q has two ids (%d and %d)", str, prev, iid)
			}
			loc[iid] = str
			seenStr[str] = iid
		}
		if err := rs.Err(); err != nil {
			return rb, err
		}
		rs.Close()
	}
	rb.nloc = len(loc)
	for _, t := range tables {
		if t.typ == nil || !t.made {
			continue
		}
		var names []string
		var isLoc []bool
		for _, f := range t.Fields {
			if f.Tag != "ignore" {
				names = append(names, f.Name)
				isLoc = append(isLoc, f.Tag == "location")
			}
		}
		m := map[string]int{}
		rb.rows[t.Name] = m
		rs, err := db.Query("SELECT " + strings.Join(names, ", ") + " FROM " + t.Name)
		if err != nil {
			return rb, fmt.Errorf("table %s: %w", t.Name, err)
		}
		for rs.Next() {
			vals := make([]any, len(names))
			ptrs := make([]any, len(names))
			for i := range vals {
				ptrs[i] = &vals[i]
			}
			if err := rs.Scan(ptrs...); err != nil {
				rs.Close()
				return rb, err
			}
			m[gotKey(vals, isLoc, loc)]++
		}
		if err := rs.Err(); err != nil {
			return rb, err
		}
		rs.Close()
	}
	return rb, nil
}

type diff struct {
	lost, dup, alien int
	sampleLost       string
	sampleAlien      string
	sampleDup        string
}

func compare(want, got map[string]int) (d diff) {
	for k, w := range want {
		g := got[k]
		if g < w {
			d.lost += w - g
			d.sampleLost = k
		} else if g > w {
			d.dup += g - w
			d.sampleDup = k
		}
	}
	for k, g := range got {
		if _, ok := want[k]; !ok {
			d.alien += g
			d.sampleAlien = k
		}
	}
	return d
}

func clip(s string) string {
	if len(s) > 400 {
		return s[:400] + "..."
	}
	return s
}

// ---------------------------------------------------------------- the check

type params struct {
	Mode string `json:"mode"` // seq | conc
}

func raceKey(rep string) (string, bool) {
	if !strings.Contains(rep, "akita/v5/datarecording.") {
		return "", false
	}
	// innermost datarecording function of each of the two conflicting stacks
	var fr []string
	for _, blk := range strings.Split(rep, "\n\n") {
		if m := reRecFrame.FindStringSubmatch(blk); m != nil {
			fr = append(fr, m[1])
		}
		if len(fr) == 2 {
			break
		}
	}
	sort.Strings(fr)
	return "recorder/race:" + strings.Join(fr, "|"), true
}

var reRecFrame = regexp.MustCompile(`(?m)^  github\.com/sarchlab/akita/v5/datarecording\.(\S+?)\(\)$`)

func main() {
	kit.Main(kit.Prop{
		ID:    "C35",
		Level: "exploration",
		Rule: "histories over 1..3 generated tables (reflect.StructOf shapes over every admitted field kind with ignore/index/unique/location tags), rows with hostile strings (quotes, NUL, unicode, SQL fragments) " +
			"and extreme integers/floats, batch size 1..50 set through the verif hook (or the default), explicit Flush calls and lazy CreateTable anywhere; " +
			"'conc' batches insert the same kind of rows from 2..16 goroutines (batch size 1..20, optionally one goroutine calling Flush) under the race detector. " +
			"After Close the SQLite file is read back with database/sql and, per table, compared as a multiset with the inserted rows; location ids must be a bijection. " +
			"Sequential histories are also read back through the package's own reader. A history is non-trivial when it has at least 2 rows and at least one flush before Close; distinct by tables+ops",
		Assumptions: []string{
			"NaN is not generated (SQLite stores NaN as NULL); -0.0 and +0.0 are taken as the same value",
			"unique-tagged fields get distinct values; field and table names are plain identifiers",
			"uint64/uint values >= 2^63 and complex kinds are generated only in dedicated histories (4 % each) whose failures are keyed recorder/uint64-high-bit, recorder/uint-high-bit, recorder/complex-kind",
			"Close is called after every inserting goroutine returned; the race detector only sees interleavings that actually occurred",
		},
		Plan: func(tier string, seed int64) []kit.Batch {
			nseq, ncon, n, nc := 8, 8, 20, 8
			if tier == "thorough" {
				nseq, ncon, n, nc = 24, 24, 800, 250
			}
			var bs []kit.Batch
			for i := 0; i < nseq; i++ {
				bs = append(bs, kit.Batch{Name: fmt.Sprintf("seq%d", i), Seed: seed*1000 + int64(i), N: n, Params: kit.MkParams(params{Mode: "seq"})})
			}
			for i := 0; i < ncon; i++ {
				bs = append(bs, kit.Batch{Name: fmt.Sprintf("conc%d", i), Seed: seed*1000 + 500 + int64(i), N: nc,
					Params: kit.MkParams(params{Mode: "conc"}), Env: []string{"GOMAXPROCS=8"}})
			}
			return bs
		},
		Run:         run,
		RaceKey:     raceKey,
		MustObserve: []string{"sequential_histories", "concurrent_histories", "batch_size_flushes_lower_bound", "concurrent_batch_size_flushes_lower_bound", "explicit_flushes", "rows_read_back", "location_rows_read_back"},
	})
}

type op struct {
	kind  int // 0 insert, 1 flush, 2 create
	table int
	row   int
}

func run(b kit.Batch, r *kit.R) {
	var p params
	b.P(&p)
	r.ForEach(b.N, func(c *kit.Case) {
		if p.Mode == "conc" {
			runCase(c, r, true)
		} else {
			runCase(c, r, false)
		}
	})
}

func recoverMsg(f func()) (msg string) {
	defer func() {
		if e := recover(); e != nil {
			msg = fmt.Sprint(e)
			if msg == "" {
				msg = "(empty panic)"
			}
		}
	}()
	f()
	return ""
}

func runCase(c *kit.Case, r *kit.R, conc bool) {
	rng := c.Rng
	flavor := "plain"
	if !conc {
		switch rng.Intn(25) {
		case 0:
			flavor = "hb64"
		case 1:
			flavor = "hbuint"
		case 2:
			flavor = "complex"
		}
	}
	nt := 1 + rng.Intn(3)
	var tables []*tableSpec
	for i := 0; i < nt; i++ {
		fl := "plain"
		if i == 0 {
			fl = flavor
		}
		tables = append(tables, genTable(rng, fmt.Sprintf("t%d", i), fl))
	}
	locs := []string{"GPU[0].L1VCache[3]", "Driver", "", "it's", "ünï", "a.b.c"}
	locs = locs[:1+rng.Intn(len(locs))]
	for i := rng.Intn(4); i > 0; i-- {
		locs = append(locs, genString(rng))
	}
	nrows := rng.Intn(60)
	if rng.Intn(4) == 0 {
		nrows = rng.Intn(300)
	}
	if conc {
		nrows = 20 + rng.Intn(300)
	}
	batch := []int{1, 2, 3, 5, 7, 10, 20, 50, 0}[rng.Intn(9)]
	if conc {
		batch = []int{1, 2, 3, 5, 8, 13, 20}[rng.Intn(7)]
	}
	flushP := []float64{0, 0.03, 0.3}[rng.Intn(3)]
	// keep the number of commits (each one is several fsyncs) per history bounded
	if batch > 0 && nrows/batch > 25 {
		nrows = batch*25 + rng.Intn(batch)
	}
	if nrows > 80 && flushP > 0.03 {
		flushP = 0.03
	}
	var ops []op
	for i := 0; i < nrows; i++ {
		ti := rng.Intn(nt)
		t := tables[ti]
		t.rows = append(t.rows, t.genRow(rng, locs, flavor != "plain"))
		ops = append(ops, op{kind: 0, table: ti, row: len(t.rows) - 1})
	}
	lazyCreate := rng.Intn(2) == 0 && !conc
	G := 1
	explicitFlusher := false
	if conc {
		G = 2 + rng.Intn(15)
		explicitFlusher = rng.Intn(3) == 0
	}

	var descTables []string
	for _, t := range tables {
		var fs []string
		for _, f := range t.Fields {
			s := f.Name + " " + f.Kind
			if f.Tag != "" {
				s += " `" + f.Tag + "`"
			}
			fs = append(fs, s)
		}
		descTables = append(descTables, t.Name+"("+strings.Join(fs, ", ")+")")
	}
	desc := map[string]any{"mode": map[bool]string{false: "sequential", true: "concurrent"}[conc], "flavor": flavor, "tables": descTables,
		"rows": nrows, "batch_size": batch, "flush_probability": flushP, "lazy_create": lazyCreate, "goroutines": G, "explicit_flusher": explicitFlusher}
	c.Desc(desc)

	prefix := "recorder/"
	if conc {
		prefix = "recorder/concurrent/"
	}
	special := func(key string) string { // failures of the dedicated histories get the dedicated key
		switch flavor {
		case "hb64":
			return "recorder/uint64-high-bit"
		case "hbuint":
			return "recorder/uint-high-bit"
		case "complex":
			return "recorder/complex-kind"
		}
		return key
	}

	path := fmt.Sprintf("%s/rec%d", r.WorkDir, c.Index)
	file := path + ".sqlite3"
	defer os.Remove(file)
	defer os.Remove(file + "-journal")

	// Three histories in four run on a connection with synchronous=off and an
	// in-memory journal (NewDataRecorderWithDB): same recorder logic, no fsyncs.
	// The fourth uses NewDataRecorder's own default connection.
	ownDB := rng.Intn(4) != 0
	desc["constructor"] = map[bool]string{true: "NewDataRecorderWithDB(synchronous=off)", false: "NewDataRecorder"}[ownDB]
	var rec datarecording.DataRecorder
	if msg := recoverMsg(func() {
		if ownDB {
			os.Remove(file)
			db, err := sql.Open("sqlite", "file:"+file+"?_pragma=synchronous(off)&_pragma=journal_mode(memory)")
			if err != nil {
				panic(err)
			}
			rec = datarecording.NewDataRecorderWithDB(db)
		} else {
			rec = datarecording.NewDataRecorder(path)
		}
	}); msg != "" {
		c.Failf(prefix+"panic:"+kit.NormalizeMsg(msg), "NewDataRecorder: %s", msg)
		return
	}
	closed := false
	defer func() {
		if !closed {
			recoverMsg(func() { rec.Close() })
		}
	}()
	if batch > 0 {
		datarecording.VerifSetBatchSize(rec, batch)
	}

	created := make([]bool, nt)
	create := func(ti int) bool {
		t := tables[ti]
		msg := recoverMsg(func() { rec.CreateTable(t.Name, reflect.New(t.typ).Elem().Interface()) })
		created[ti] = true
		if msg != "" {
			hasComplex := false
			for _, f := range t.Fields {
				if strings.HasPrefix(f.Kind, "complex") && f.Tag != "ignore" {
					hasComplex = true
				}
			}
			if hasComplex {
				// refusing a kind that cannot be stored is a legitimate answer
				r.Count("complex_kind_refused_at_CreateTable", 1)
				t.typ = nil
				if flavor == "complex" {
					flavor = "plain" // the rest of the history is an ordinary one
				}
				return false
			}
			c.Failf(special(prefix+"panic:"+kit.NormalizeMsg(msg)), "CreateTable(%s) panicked: %s", t.Name, msg)
			return false
		}
		t.made = true
		return true
	}
	if !lazyCreate {
		for ti := range tables {
			if !create(ti) && tables[ti].typ != nil {
				return
			}
		}
	}

	explicit, inserted := 0, 0
	if !conc {
		for _, o := range ops {
			t := tables[o.table]
			if !created[o.table] {
				if !create(o.table) && t.typ != nil {
					return
				}
			}
			if t.typ == nil {
				continue // refused table
			}
			msg := recoverMsg(func() { rec.InsertData(t.Name, t.rows[o.row].Interface()) })
			if msg != "" {
				c.Failf(special(prefix+"panic:"+kit.NormalizeMsg(msg)), "InsertData #%d into %s panicked: %s (row %s)", inserted, t.Name, msg, clip(t.wantKey(t.rows[o.row])))
				return
			}
			inserted++
			if rng.Float64() < flushP {
				explicit++
				if msg := recoverMsg(rec.Flush); msg != "" {
					c.Failf(special(prefix+"panic:"+kit.NormalizeMsg(msg)), "Flush after %d inserts panicked: %s", inserted, msg)
					return
				}
			}
		}
	} else {
		// deal the rows to G goroutines; all start together
		parts := make([][]op, G)
		for i, o := range ops {
			parts[i%G] = append(parts[i%G], o)
		}
		var insWG, flWG sync.WaitGroup
		var mu sync.Mutex
		firstPanic := ""
		start := make(chan struct{})
		done := make(chan struct{})
		poke := make(chan struct{}, 4)
		for g := 0; g < G; g++ {
			insWG.Add(1)
			go func(mine []op) {
				defer insWG.Done()
				<-start
				msg := recoverMsg(func() {
					for i, o := range mine {
						t := tables[o.table]
						rec.InsertData(t.Name, t.rows[o.row].Interface())
						if i%3 == 2 { // wake the explicit flusher (if any) without blocking
							select {
							case poke <- struct{}{}:
							default:
							}
						}
					}
				})
				if msg != "" {
					mu.Lock()
					if firstPanic == "" {
						firstPanic = msg
					}
					mu.Unlock()
				}
			}(parts[g])
		}
		nflush := 0
		if explicitFlusher {
			flWG.Add(1)
			go func() {
				defer flWG.Done()
				<-start
				msg := recoverMsg(func() {
					for {
						select {
						case <-done:
							return
						case <-poke:
						}
						rec.Flush()
						nflush++
					}
				})
				if msg != "" {
					mu.Lock()
					if firstPanic == "" {
						firstPanic = "explicit Flush: " + msg
					}
					mu.Unlock()
				}
			}()
		}
		close(start)
		insWG.Wait()
		close(done)
		flWG.Wait()
		explicit = nflush
		inserted = nrows
		if firstPanic != "" {
			c.Failf(prefix+"panic:"+kit.NormalizeMsg(firstPanic), "a goroutine panicked inside the recorder: %s", firstPanic)
			return
		}
	}

	if msg := recoverMsg(func() {
		if err := rec.Close(); err != nil {
			panic("Close returned " + err.Error())
		}
	}); msg != "" {
		closed = true
		c.Failf(special(prefix+"panic:"+kit.NormalizeMsg(msg)), "Close panicked after %d inserts: %s", inserted, msg)
		return
	}
	closed = true

	rb, err := readDB(file, tables)
	if err != nil {
		c.Failf(special(prefix+"unreadable"), "cannot read the database back: %v", err)
		return
	}
	if rb.locErr != "" {
		c.Failf(special(prefix+"location-not-bijective"), "%s", rb.locErr)
	}
	total := 0
	var opsKey strings.Builder
	for _, t := range tables {
		if t.typ == nil || !t.made {
			continue
		}
		want := map[string]int{}
		for _, row := range t.rows {
			k := t.wantKey(row)
			want[k]++
			opsKey.WriteString(k)
		}
		got := rb.rows[t.Name]
		for _, n := range got {
			total += n
		}
		d := compare(want, got)
		switch {
		case d.alien > 0 && d.lost > 0:
			c.Failf(special(prefix+"value-changed"), "table %s: %d inserted rows are missing and %d rows that were never inserted are present; e.g. inserted %s, found %s", t.Name, d.lost, d.alien, clip(d.sampleLost), clip(d.sampleAlien))
		case d.lost > 0:
			c.Failf(special(prefix+"rows-lost"), "table %s: %d of %d inserted rows are missing, e.g. %s", t.Name, d.lost, len(t.rows), clip(d.sampleLost))
		case d.dup > 0:
			c.Failf(special(prefix+"rows-duplicated"), "table %s: %d surplus copies of inserted rows, e.g. %s", t.Name, d.dup, clip(d.sampleDup))
		case d.alien > 0:
			c.Failf(special(prefix+"rows-unexpected"), "table %s: %d rows that were never inserted, e.g. %s", t.Name, d.alien, clip(d.sampleAlien))
		}
	}

	// the package's own reader has to give the same structs back
	if !conc && flavor == "plain" && rng.Intn(2) == 0 {
		checkReader(c, r, file, tables)
	}

	// what was observed
	r.Count("rows_read_back", int64(total))
	r.Count("location_rows_read_back", int64(rb.nloc))
	r.Count("rows_inserted", int64(inserted))
	r.Count("explicit_flushes", int64(explicit))
	r.Count("histories_"+flavor, 1)
	lb := 0
	if batch > 0 {
		lb = inserted / batch
	}
	if conc {
		r.Count("concurrent_histories", 1)
		r.Count("concurrent_batch_size_flushes_lower_bound", int64(lb))
		r.Max("max_goroutines", int64(G))
		if explicitFlusher {
			r.Count("concurrent_histories_with_explicit_flusher", 1)
		}
	} else {
		r.Count("sequential_histories", 1)
		r.Count("batch_size_flushes_lower_bound", int64(lb))
	}
	for _, t := range tables {
		for _, f := range t.Fields {
			r.Distinct("field_kind_x_tag", f.Kind+"/"+f.Tag)
		}
	}
	r.Max("max_rows_in_history", int64(inserted))
	if inserted >= 2 && (lb > 0 || explicit > 0) {
		c.Nontrivial(strings.Join(descTables, ";") + fmt.Sprintf("|%d|%d|%v|%d|", batch, G, lazyCreate, explicit) + opsKey.String())
	}
	if inserted >= 3 && inserted <= 8 {
		var rows []string
		for _, o := range ops {
			rows = append(rows, tables[o.table].Name+": "+clip(tables[o.table].wantKey(tables[o.table].rows[o.row])))
		}
		c.Sample(map[string]any{"history": desc, "inserted_rows_in_order": rows, "rows_read_back": total, "location_rows": rb.nloc})
	}
}

// checkReader reads every table through datarecording.NewReader and compares
// the returned structs (ignored fields zero) with the inserted ones.
func checkReader(c *kit.Case, r *kit.R, file string, tables []*tableSpec) {
	var results = map[string][]any{}
	msg := recoverMsg(func() {
		rd := datarecording.NewReader(file)
		defer rd.Close()
		for _, t := range tables {
			if t.typ == nil || !t.made {
				continue
			}
			rd.MapTable(t.Name, reflect.New(t.typ).Elem().Interface())
			res, n, err := rd.Query(context.Background(), t.Name, datarecording.QueryParams{})
			if err != nil {
				panic("Query error: " + err.Error())
			}
			if n != len(res) {
				panic(fmt.Sprintf("Query returned %d results but totalCount %d", len(res), n))
			}
			results[t.Name] = res
		}
	})
	if msg != "" {
		c.Failf("reader/panic:"+kit.NormalizeMsg(msg), "reading back through datarecording.NewReader failed: %s", msg)
		return
	}
	for _, t := range tables {
		if t.typ == nil || !t.made {
			continue
		}
		want := map[string]int{}
		for _, row := range t.rows {
			want[t.wantKey(row)]++
		}
		got := map[string]int{}
		for _, x := range results[t.Name] {
			v := reflect.ValueOf(x)
			if v.Kind() == reflect.Ptr {
				v = v.Elem()
			}
			if v.Type() != t.typ {
				c.Failf("reader/type", "reader returned %T for table %s", x, t.Name)
				return
			}
			got[t.wantKey(v)]++
		}
		d := compare(want, got)
		if d.lost+d.dup+d.alien > 0 {
			c.Failf("reader/roundtrip-mismatch", "table %s through the reader: %d missing, %d surplus, %d unknown rows; e.g. inserted %s, read %s", t.Name, d.lost, d.dup, d.alien, clip(d.sampleLost), clip(d.sampleAlien))
		}
		r.Count("rows_read_through_reader", int64(len(results[t.Name])))
	}
}
