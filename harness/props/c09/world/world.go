// Package world builds small akita topologies (ticking and event-driven
// nodes joined by direct connections) from a JSON-able Config and records, in
// engine order, everything observable at the API boundary: tick/wake events
// (engine BeforeEvent hook), node activations and their progress result,
// port sends / deliveries / retrievals (port hooks) and owner notifications
// (a forwarding tap installed as the ports' component). It is shared by the
// C09, C10 and C12 checks; each check has its own generator and oracle.
package world

import (
	"fmt"

	"github.com/sarchlab/akita/v5/hooking"
	"github.com/sarchlab/akita/v5/messaging"
	"github.com/sarchlab/akita/v5/modeling"
	"github.com/sarchlab/akita/v5/noc/directconnection"
	"github.com/sarchlab/akita/v5/timing"
)

// ---- configuration -------------------------------------------------------

type PortCfg struct {
	Conn int `json:"conn"`
	In   int `json:"in"`
	Out  int `json:"out"`
}

type NodeCfg struct {
	Kind   string    `json:"kind"` // "tick" | "ed"
	FreqHz uint64    `json:"freq_hz,omitempty"`
	Budget int       `json:"budget"`           // messages handled per activation
	Rewake uint64    `json:"rewake,omitempty"` // ed: 0 = wake again at the same instant, else after this many ps
	Ports  []PortCfg `json:"ports"`
	// Dwell (ticking nodes): after a tick that handled a message the node
	// reports progress for this many further ticks without touching a port.
	Dwell int `json:"dwell,omitempty"`
	// Stalls are [from,to) windows in which the node leaves its inputs alone.
	Stalls [][2]uint64 `json:"stalls,omitempty"`
}

type Hop struct {
	Node int `json:"n"`
	Via  int `json:"via"` // connection used to reach Node (unused for the first hop)
}

type InjCfg struct {
	At    uint64 `json:"at"`
	Route []Hop  `json:"route"`
	Len   int    `json:"len"`
}

type KickCfg struct {
	At   uint64 `json:"at"`
	Node int    `json:"node"`
	Now  bool   `json:"now,omitempty"` // TickNow instead of TickLater (ticking nodes)
	// Late: the request is issued after every primary event that was already
	// queued for that instant (the driver re-queues itself once).
	Late bool `json:"late,omitempty"`
}

type Config struct {
	ConnFreqHz []uint64  `json:"conn_freq_hz"`
	Nodes      []NodeCfg `json:"nodes"`
	Inj        []InjCfg  `json:"inj"`
	Kicks      []KickCfg `json:"kicks,omitempty"`
}

// ---- messages ------------------------------------------------------------

type Packet struct {
	messaging.MsgMeta
	Flow    int
	HopIdx  int // index into Route of the node this message is travelling to
	Route   []Hop
	Payload []byte
}

func (p Packet) clone() Packet {
	q := p
	q.Route = make([]Hop, len(p.Route))
	copy(q.Route, p.Route)
	q.Payload = make([]byte, len(p.Payload)) // never nil: DeepEqual tells nil from empty
	copy(q.Payload, p.Payload)
	return q
}

// ---- log -----------------------------------------------------------------

type Kind uint8

const (
	EvTick       Kind = iota // H = handler (node index, or NumNodes+conn index); B = secondary
	EvTickEnd                // same, from the AfterEvent hook
	EvWake                   // TimerFiredEvent of an event-driven node H
	EvStep                   // node H finished an activation; B = progress
	EvSend                   // P = port, M = msg id
	EvRecvd                  // delivered into the incoming buffer of port P
	EvRetrIn                 // owner retrieved from incoming buffer of P
	EvRetrOut                // connection retrieved from outgoing buffer of P
	EvNotifyRecv             // owner H notified, P = port
	EvNotifyFree             // owner H notified, P = port
	EvKick                   // driver asked node H to tick; B = TickNow
	EvConsume                // node H consumed message M (final hop)
)

type Ev struct {
	Seq int
	T   uint64
	K   Kind
	H   int
	P   int
	M   uint64
	B   bool
}

// ---- runtime objects -----------------------------------------------------

type Spec struct {
	Idx int `json:"idx"`
}
type State struct {
	X int `json:"x"`
}

// SeenMsg is a message value observed by a port hook.
type SeenMsg struct {
	Seq  int // log sequence number of the matching EvRecvd / EvRetrIn
	Port int
	Msg  messaging.Msg
}

type PortInfo struct {
	Idx, Node, Conn int
	Port            messaging.Port
}

type Node struct {
	w       *World
	Idx     int
	Cfg     NodeCfg
	Name    string
	Period  uint64 // 0 for event-driven nodes
	tick    *modeling.Component[Spec, State, modeling.None]
	ed      *modeling.EventDrivenComponent[Spec, State, modeling.None]
	Ports   []*PortInfo // one per Cfg.Ports entry
	byConn  map[int]*PortInfo
	pending []int // indexes into Config.Inj, in injection-time order
	rr      int
	dwell   int
	// Consumed lists the flows that ended here, in order.
	Consumed []int
}

type World struct {
	Cfg      Config
	Engine   *timing.SerialEngine
	Nodes    []*Node
	Conns    []*directconnection.Comp
	Ports    []*PortInfo
	PortByNm map[messaging.RemotePort]*PortInfo
	Log      []Ev
	// Sent holds a private deep copy of every message handed to Send, by id.
	Sent map[uint64]Packet
	// KeepMsgs makes the port hooks keep the message values they see at
	// delivery (Recvd) and at retrieval by the owner (RetrIn), in log order.
	KeepMsgs  bool
	Delivered []SeenMsg
	Retrieved []SeenMsg
	nextID uint64
	names  map[string]int
}

func (w *World) NumNodes() int { return len(w.Nodes) }

// HandlerPeriod returns the clock period of handler h (node or connection); 0
// for event-driven nodes.
func (w *World) HandlerPeriod(h int) uint64 {
	if h < len(w.Nodes) {
		return w.Nodes[h].Period
	}
	return 1_000_000_000_000 / w.Cfg.ConnFreqHz[h-len(w.Nodes)]
}

func (w *World) HandlerName(h int) string {
	if h < len(w.Nodes) {
		return w.Nodes[h].Name
	}
	return fmt.Sprintf("X%d", h-len(w.Nodes))
}

func (w *World) log(k Kind, h, p int, m uint64, b bool) {
	w.Log = append(w.Log, Ev{Seq: len(w.Log), T: uint64(w.Engine.CurrentTime()), K: k, H: h, P: p, M: m, B: b})
}

// tap forwards owner notifications to the real component after logging them.
type tap struct {
	messaging.Component
	w    *World
	node int
}

func (t *tap) NotifyRecv(p messaging.Port) {
	t.w.log(EvNotifyRecv, t.node, t.w.PortByNm[p.AsRemote()].Idx, 0, false)
	t.Component.NotifyRecv(p)
}

func (t *tap) NotifyPortFree(p messaging.Port) {
	t.w.log(EvNotifyFree, t.node, t.w.PortByNm[p.AsRemote()].Idx, 0, false)
	t.Component.NotifyPortFree(p)
}

type portHook struct {
	w *World
	p int
}

func (h *portHook) Func(ctx hooking.HookCtx) {
	msg, ok := ctx.Item.(messaging.Msg)
	if !ok {
		return
	}
	id := msg.Meta().ID
	switch ctx.Pos {
	case messaging.HookPosPortMsgSend:
		h.w.log(EvSend, -1, h.p, id, false)
	case messaging.HookPosPortMsgRecvd:
		if h.w.KeepMsgs {
			h.w.Delivered = append(h.w.Delivered, SeenMsg{Seq: len(h.w.Log), Port: h.p, Msg: msg})
		}
		h.w.log(EvRecvd, -1, h.p, id, false)
	case messaging.HookPosPortMsgRetrieveIncoming:
		if h.w.KeepMsgs {
			h.w.Retrieved = append(h.w.Retrieved, SeenMsg{Seq: len(h.w.Log), Port: h.p, Msg: msg})
		}
		h.w.log(EvRetrIn, -1, h.p, id, false)
	case messaging.HookPosPortMsgRetrieveOutgoing:
		h.w.log(EvRetrOut, -1, h.p, id, false)
	}
}

type engineHook struct{ w *World }

func (h *engineHook) Func(ctx hooking.HookCtx) {
	evt, ok := ctx.Item.(timing.Event)
	if !ok {
		return
	}
	idx, known := h.w.names[evt.HandlerID()]
	if !known {
		return
	}
	switch evt.(type) {
	case modeling.TickEvent:
		if ctx.Pos == timing.HookPosBeforeEvent {
			h.w.log(EvTick, idx, -1, 0, evt.IsSecondary())
		} else {
			h.w.log(EvTickEnd, idx, -1, 0, evt.IsSecondary())
		}
	case modeling.TimerFiredEvent:
		if ctx.Pos == timing.HookPosBeforeEvent {
			h.w.log(EvWake, idx, -1, 0, false)
		}
	}
}

type driverEvent struct {
	timing.EventBase
	Kind     string
	Idx      int
	Requeued bool
}

type driver struct{ w *World }

func (d *driver) Handle(e timing.Event) error {
	de := e.(driverEvent)
	w := d.w
	switch de.Kind {
	case "inject": // hand an injection to a ticking node and ask it to tick
		n := w.Nodes[w.Cfg.Inj[de.Idx].Route[0].Node]
		n.tick.TickLater()
	case "resume":
		n := w.Nodes[de.Idx]
		if n.tick != nil {
			n.tick.TickLater()
		} else {
			n.ed.ScheduleWakeNow()
		}
	case "kick":
		k := w.Cfg.Kicks[de.Idx]
		if k.Late && !de.Requeued {
			de.Requeued = true
			de.EventBase = timing.MakeEventBase(de.Time(), "Driver")
			w.Engine.Schedule(de)
			return nil
		}
		n := w.Nodes[k.Node]
		w.log(EvKick, k.Node, -1, 0, k.Now)
		if k.Now {
			n.tick.TickNow()
		} else {
			n.tick.TickLater()
		}
	}
	return nil
}

type tickMW struct{ n *Node }

func (m *tickMW) Tick() bool {
	p := m.n.step(uint64(m.n.w.Engine.CurrentTime()))
	if p {
		m.n.dwell = m.n.Cfg.Dwell
	} else if m.n.dwell > 0 {
		m.n.dwell--
		p = true
	}
	m.n.w.log(EvStep, m.n.Idx, -1, 0, p)
	return p
}

type edProc struct{ n *Node }

func (p *edProc) Process(c *modeling.EventDrivenComponent[Spec, State, modeling.None], now timing.VTimeInPicoSec) bool {
	n := p.n
	progress := n.step(uint64(now))
	n.w.log(EvStep, n.Idx, -1, 0, progress)
	// Self-scheduled wake-ups: the next injection that is still in the future,
	// and another round when this one made progress (there may be more to do).
	if len(n.pending) > 0 {
		if at := n.w.Cfg.Inj[n.pending[0]].At; at > uint64(now) {
			c.ScheduleWakeAt(timing.VTimeInPicoSec(at))
		}
	}
	if progress {
		if n.Cfg.Rewake == 0 {
			c.ScheduleWakeNow()
		} else {
			c.ScheduleWakeAt(now + timing.VTimeInPicoSec(n.Cfg.Rewake))
		}
	}
	return progress
}

// Stalled reports whether the node leaves its inputs alone at time t.
func (n *Node) Stalled(t uint64) bool {
	for _, s := range n.Cfg.Stalls {
		if t >= s[0] && t < s[1] {
			return true
		}
	}
	return false
}

// step is one activation of a node: send due injections, then handle input
// heads round-robin over the ports, at most Budget messages in total.
func (n *Node) step(now uint64) bool {
	w := n.w
	budget := n.Cfg.Budget
	progress := false
	for len(n.pending) > 0 && budget > 0 {
		inj := w.Cfg.Inj[n.pending[0]]
		if inj.At > now {
			break
		}
		out := n.byConn[inj.Route[1].Via]
		if !out.Port.CanSend() {
			break
		}
		pl := make([]byte, inj.Len)
		for i := range pl {
			pl[i] = byte(n.pending[0]*31 + i)
		}
		n.send(out, Packet{Flow: n.pending[0], HopIdx: 1, Route: inj.Route, Payload: pl})
		n.pending = n.pending[1:]
		budget--
		progress = true
	}
	if n.Stalled(now) {
		return progress
	}
	np := len(n.Ports)
	start := n.rr
	n.rr = (n.rr + 1) % np
	for i := 0; i < np; i++ {
		in := n.Ports[(start+i)%np]
		for budget > 0 {
			head := in.Port.PeekIncoming()
			if head == nil {
				break
			}
			pk := head.(Packet)
			if pk.HopIdx == len(pk.Route)-1 {
				in.Port.RetrieveIncoming()
				n.Consumed = append(n.Consumed, pk.Flow)
				w.log(EvConsume, n.Idx, in.Idx, pk.ID, false)
			} else {
				out := n.byConn[pk.Route[pk.HopIdx+1].Via]
				if !out.Port.CanSend() {
					break
				}
				in.Port.RetrieveIncoming()
				n.send(out, Packet{Flow: pk.Flow, HopIdx: pk.HopIdx + 1, Route: pk.Route, Payload: pk.Payload})
			}
			budget--
			progress = true
		}
	}
	return progress
}

func (n *Node) send(out *PortInfo, pk Packet) {
	w := n.w
	w.nextID++
	next := pk.Route[pk.HopIdx]
	dst := w.Nodes[next.Node].byConn[next.Via]
	pk.MsgMeta = messaging.MsgMeta{ID: w.nextID, Src: out.Port.AsRemote(), Dst: dst.Port.AsRemote(),
		TrafficBytes: len(pk.Payload) + 8, TrafficClass: "world.Packet"}
	w.Sent[pk.ID] = pk.clone()
	out.Port.Send(pk)
}

// NextHopOut returns the port on which node n would forward msg, or nil when
// the message ends at n.
func (n *Node) NextHopOut(pk Packet) *PortInfo {
	if pk.HopIdx == len(pk.Route)-1 {
		return nil
	}
	return n.byConn[pk.Route[pk.HopIdx+1].Via]
}

// PendingInjections reports the number of injections not yet sent.
func (n *Node) PendingInjections() int { return len(n.pending) }

// HeadInjectionSendable reports whether the oldest unsent injection is due
// and its outgoing port has room.
func (n *Node) HeadInjectionSendable() bool {
	if len(n.pending) == 0 {
		return false
	}
	inj := n.w.Cfg.Inj[n.pending[0]]
	return inj.At <= uint64(n.w.Engine.CurrentTime()) && n.byConn[inj.Route[1].Via].Port.CanSend()
}

// Build creates the topology. Nothing runs until Run.
func Build(cfg Config) *World {
	w := &World{Cfg: cfg, Engine: timing.NewSerialEngine(), Sent: map[uint64]Packet{},
		PortByNm: map[messaging.RemotePort]*PortInfo{}, names: map[string]int{}}
	reg := modeling.NewStandaloneRegistrar(w.Engine)
	for i, f := range cfg.ConnFreqHz {
		name := fmt.Sprintf("X%d", i)
		c := directconnection.MakeBuilder().WithRegistrar(reg).
			WithSpec(directconnection.Spec{Freq: timing.Freq(f)}).Build(name)
		w.Conns = append(w.Conns, c)
		w.names[name] = len(cfg.Nodes) + i
	}
	for i, nc := range cfg.Nodes {
		n := &Node{w: w, Idx: i, Cfg: nc, Name: fmt.Sprintf("N%d", i), byConn: map[int]*PortInfo{}}
		w.names[n.Name] = i
		var owner messaging.Component
		if nc.Kind == "tick" {
			n.Period = 1_000_000_000_000 / nc.FreqHz
			n.tick = modeling.NewBuilder[Spec, State, modeling.None]().WithEngine(w.Engine).
				WithFreq(timing.Freq(nc.FreqHz)).WithSpec(Spec{Idx: i}).Build(n.Name)
			n.tick.AddMiddleware(&tickMW{n: n})
			owner = n.tick
		} else {
			n.ed = modeling.NewEventDrivenBuilder[Spec, State, modeling.None]().WithEngine(w.Engine).
				WithSpec(Spec{Idx: i}).WithProcessor(&edProc{n: n}).Build(n.Name)
			owner = n.ed
		}
		t := &tap{Component: owner, w: w, node: i}
		for _, pc := range nc.Ports {
			pname := fmt.Sprintf("C%d", pc.Conn)
			port := messaging.NewPort(t, pc.In, pc.Out, n.Name+"."+pname)
			owner.DeclarePort(pname)
			owner.AssignPort(pname, port)
			pi := &PortInfo{Idx: len(w.Ports), Node: i, Conn: pc.Conn, Port: port}
			w.Ports = append(w.Ports, pi)
			w.PortByNm[port.AsRemote()] = pi
			n.Ports = append(n.Ports, pi)
			n.byConn[pc.Conn] = pi
			port.AcceptHook(&portHook{w: w, p: pi.Idx})
			w.Conns[pc.Conn].PlugIn(port)
		}
		w.Nodes = append(w.Nodes, n)
	}
	w.Engine.RegisterHandler("Driver", &driver{w: w})
	w.Engine.AcceptHook(&engineHook{w: w})
	sched := func(at uint64, kind string, idx int) {
		w.Engine.Schedule(driverEvent{EventBase: timing.MakeEventBase(timing.VTimeInPicoSec(at), "Driver"), Kind: kind, Idx: idx})
	}
	// injections must be listed in time order per source node
	for i, inj := range cfg.Inj {
		n := w.Nodes[inj.Route[0].Node]
		n.pending = append(n.pending, i)
		if n.tick != nil {
			sched(inj.At, "inject", i)
		}
	}
	for _, n := range w.Nodes {
		if n.ed != nil && len(n.pending) > 0 {
			n.ed.ScheduleWakeAt(timing.VTimeInPicoSec(cfg.Inj[n.pending[0]].At))
		}
		for _, s := range n.Cfg.Stalls {
			sched(s[1], "resume", n.Idx)
		}
	}
	for i, k := range cfg.Kicks {
		sched(k.At, "kick", i)
	}
	return w
}

// Run runs the engine until its queue is empty.
func (w *World) Run() {
	if err := w.Engine.Run(); err != nil {
		panic(err)
	}
}
