// C09 No lost wakeups: a simulation never stalls with deliverable messages.
//
// Random DAG-routed traffic over ticking and event-driven relays joined by 1-3
// direct connections runs until the engine's queue is empty. At that point no
// port may hold an outgoing head whose destination can accept it, and no node
// (all nodes drain their inputs) may hold an incoming head it could process.
package main

import (
	"encoding/json"
	"fmt"
	"math/rand"
	"sort"

	"verifharness/kit"
	"verifharness/props/c09/world"
)

type params struct {
	MaxNodes, MaxFlows int
}

func main() {
	kit.Main(kit.Prop{
		ID:    "C09",
		Level: "exploration",
		Rule: "a case is a topology of 3-8 nodes (ticking at 1 GHz/2 GHz/500 MHz/700 MHz/1.5 GHz, or event-driven with same-instant or delayed re-wake) on 1-3 direct connections, " +
			"port buffers 1-4, per-activation budgets 1-4, and 4-60 flows routed along increasing node index (so no protocol deadlock exists) injected at bursty edge-aligned or arbitrary times; " +
			"Run() must end with no deliverable outgoing head, no processable incoming head and every flow consumed; " +
			"non-trivial when some flow crossed two connections and some node was activated at an instant after a connection tick of that instant; distinct by the configuration",
		Assumptions: []string{
			"serial engine, Run() to an empty queue",
			"every node drains its inputs whenever activated (no stalls), routes follow increasing node index, so any residue at quiescence is a lost wake-up, not a protocol deadlock",
			"nodes are harness components built with modeling.NewBuilder / NewEventDrivenBuilder that rely only on the library's notifications for wake-ups",
		},
		Plan: func(tier string, seed int64) []kit.Batch {
			nb, n := 16, 100
			if tier == "thorough" {
				nb, n = 32, 3000
			}
			var bs []kit.Batch
			for i := 0; i < nb; i++ {
				p := params{MaxNodes: 5 + i%4, MaxFlows: 20 + 10*(i%5)}
				bs = append(bs, kit.Batch{Name: fmt.Sprintf("topo%d", i), Seed: seed*1000 + int64(i), N: n, Params: kit.MkParams(p)})
			}
			return bs
		},
		Run: run,
		MustObserve: []string{"send_at_instant_after_idle_conn_tick", "same_instant_chains", "flows_over_two_connections",
			"event_driven_relays", "ticking_relays", "backpressure_at_conn_tick"},
	})
}

var tickFreqs = []uint64{1e9, 1e9, 1e9, 2e9, 500e6, 700e6, 1500e6}

func gen(rng *rand.Rand, p params) world.Config {
	var cfg world.Config
	nConns := []int{1, 2, 2, 2, 3, 3}[rng.Intn(6)]
	mixedConn := rng.Intn(4) == 0
	for i := 0; i < nConns; i++ {
		f := uint64(1e9)
		if mixedConn {
			f = []uint64{1e9, 2e9, 500e6, 700e6}[rng.Intn(4)]
		}
		cfg.ConnFreqHz = append(cfg.ConnFreqHz, f)
	}
	nNodes := 3 + rng.Intn(p.MaxNodes-2)
	edBias := []float64{0.3, 0.6, 0.9}[rng.Intn(3)]
	for i := 0; i < nNodes; i++ {
		nc := world.NodeCfg{Kind: "tick", Budget: 1 + rng.Intn(4)}
		if rng.Float64() < edBias {
			nc.Kind = "ed"
			if rng.Intn(5) < 2 {
				nc.Rewake = []uint64{333, 500, 1000, 1500, 2000}[rng.Intn(5)]
			}
		} else {
			nc.FreqHz = tickFreqs[rng.Intn(len(tickFreqs))]
		}
		// attach to 1..min(3,nConns) connections
		k := 1 + rng.Intn(nConns)
		if k > 1 && rng.Intn(3) == 0 {
			k--
		}
		for _, c := range rng.Perm(nConns)[:k] {
			nc.Ports = append(nc.Ports, world.PortCfg{Conn: c, In: 1 + rng.Intn(4), Out: 1 + rng.Intn(4)})
		}
		sort.Slice(nc.Ports, func(a, b int) bool { return nc.Ports[a].Conn < nc.Ports[b].Conn })
		cfg.Nodes = append(cfg.Nodes, nc)
	}
	// every connection needs at least two nodes; the last node is on every connection (a universal sink)
	last := &cfg.Nodes[nNodes-1]
	last.Ports = nil
	for c := 0; c < nConns; c++ {
		last.Ports = append(last.Ports, world.PortCfg{Conn: c, In: 1 + rng.Intn(4), Out: 1 + rng.Intn(4)})
	}
	for c := 0; c < nConns; c++ {
		has := false
		for i := 0; i < nNodes-1; i++ {
			for _, pc := range cfg.Nodes[i].Ports {
				has = has || pc.Conn == c
			}
		}
		if !has {
			n := &cfg.Nodes[rng.Intn(nNodes-1)]
			n.Ports = append(n.Ports, world.PortCfg{Conn: c, In: 1 + rng.Intn(4), Out: 1 + rng.Intn(4)})
			sort.Slice(n.Ports, func(a, b int) bool { return n.Ports[a].Conn < n.Ports[b].Conn })
		}
	}
	shared := func(a, b int) []int {
		var s []int
		for _, pa := range cfg.Nodes[a].Ports {
			for _, pb := range cfg.Nodes[b].Ports {
				if pa.Conn == pb.Conn {
					s = append(s, pa.Conn)
				}
			}
		}
		return s
	}
	// flows
	nFlows := 4 + rng.Intn(p.MaxFlows-3)
	horizon := uint64(2+rng.Intn(30)) * 1000
	timeMode := rng.Intn(3) // 0 edge-aligned bursts, 1 arbitrary, 2 mixed
	stopP := 0.15 + 0.4*rng.Float64()
	for f := 0; f < nFlows; f++ {
		var at uint64
		switch {
		case timeMode == 0 || (timeMode == 2 && rng.Intn(2) == 0):
			at = uint64(rng.Int63n(int64(horizon/1000)+1)) * 1000
		default:
			at = uint64(rng.Int63n(int64(horizon) + 1))
		}
		cur := rng.Intn(nNodes - 1)
		route := []world.Hop{{Node: cur}}
		prevVia := -1
		for {
			// candidates with a higher index sharing a connection
			type cand struct{ n, via int }
			var cs []cand
			for j := cur + 1; j < nNodes; j++ {
				for _, v := range shared(cur, j) {
					cs = append(cs, cand{j, v})
				}
			}
			if len(cs) == 0 {
				break
			}
			// prefer changing connection: that is what makes chains across connections
			pick := cs[rng.Intn(len(cs))]
			if prevVia >= 0 {
				for try := 0; try < 3 && pick.via == prevVia; try++ {
					pick = cs[rng.Intn(len(cs))]
				}
			}
			route = append(route, world.Hop{Node: pick.n, Via: pick.via})
			cur, prevVia = pick.n, pick.via
			if rng.Float64() < stopP {
				break
			}
		}
		if len(route) < 2 {
			continue // cannot happen: the last node shares a connection with everybody
		}
		cfg.Inj = append(cfg.Inj, world.InjCfg{At: at, Route: route, Len: rng.Intn(6)})
	}
	sort.SliceStable(cfg.Inj, func(a, b int) bool { return cfg.Inj[a].At < cfg.Inj[b].At })
	return cfg
}

func run(b kit.Batch, r *kit.R) {
	var p params
	b.P(&p)
	r.ForEach(b.N, func(c *kit.Case) {
		cfg := gen(c.Rng, p)
		c.Desc(cfg)
		w := world.Build(cfg)
		w.Run()
		judge(c, r, w)
	})
}

func judge(c *kit.Case, r *kit.R, w *world.World) {
	cfg := w.Cfg
	nn := w.NumNodes()
	// ---- pass over the log: patterns observed --------------------------------
	type connState struct {
		lastTickT   uint64
		ticked      bool
		delivered   int // deliveries during the last tick
		inTick      bool
		lastReqT    uint64 // last wake request (NotifySend / NotifyAvailable condition) on one of its ports
		lastReqKind string
		// a wake request arrived at the instant of the last tick, after that
		// tick had ended without delivering anything
		reqAfterSpentTick bool
	}
	cs := make([]connState, len(w.Conns))
	secondaryAt := map[uint64]bool{} // instants at which some connection has ticked so far
	var sameInstantChains, dangerous, dangerousDrain, afterBusy int64
	relayed := map[int]bool{}
	nOut := make([]int, len(w.Ports)) // buffer occupancy reconstructed from the port hooks
	nIn := make([]int, len(w.Ports))
	for _, e := range w.Log {
		switch e.K {
		case world.EvTick:
			if e.H >= nn {
				s := &cs[e.H-nn]
				s.lastTickT, s.ticked, s.delivered, s.inTick, s.reqAfterSpentTick = e.T, true, 0, true, false
				secondaryAt[e.T] = true
			}
		case world.EvTickEnd:
			if e.H >= nn {
				cs[e.H-nn].inTick = false
			}
		case world.EvRecvd:
			nIn[e.P]++
			s := &cs[w.Ports[e.P].Conn]
			if s.inTick {
				s.delivered++
			}
		case world.EvRetrOut:
			nOut[e.P]--
		case world.EvStep:
			if secondaryAt[e.T] {
				sameInstantChains++
			}
		case world.EvSend, world.EvRetrIn:
			pi := w.Ports[e.P]
			s := &cs[pi.Conn]
			kind := "send into an empty outgoing buffer"
			isReq := false
			if e.K == world.EvSend {
				isReq = nOut[e.P] == 0
				nOut[e.P]++
				if pk := w.Sent[e.M]; pk.HopIdx >= 2 {
					relayed[pk.Flow] = true
				}
			} else {
				kind = "retrieval from a full incoming buffer"
				isReq = nIn[e.P] == cfg.Nodes[pi.Node].Ports[portSlot(w, pi)].In
				nIn[e.P]--
			}
			if !isReq {
				break
			}
			s.lastReqT, s.lastReqKind = e.T, kind
			if s.ticked && !s.inTick && s.lastTickT == e.T {
				if s.delivered == 0 {
					s.reqAfterSpentTick = true
					if e.K == world.EvSend {
						dangerous++
					} else {
						dangerousDrain++
					}
				} else {
					afterBusy++
				}
			}
		}
	}
	r.Count("send_at_instant_after_idle_conn_tick", dangerous)
	r.Count("drain_at_instant_after_idle_conn_tick", dangerousDrain)
	r.Count("request_at_instant_after_busy_conn_tick", afterBusy)
	r.Count("same_instant_chains", sameInstantChains)
	r.Count("log_events", int64(len(w.Log)))
	r.Count("messages_sent", int64(len(w.Sent)))
	r.Count("flows", int64(len(cfg.Inj)))
	twoConn := 0
	for _, inj := range cfg.Inj {
		vias := map[int]bool{}
		for _, h := range inj.Route[1:] {
			vias[h.Via] = true
		}
		if len(vias) >= 2 {
			twoConn++
		}
	}
	r.Count("flows_over_two_connections", int64(twoConn))
	r.Count("flows_relayed_at_least_once", int64(len(relayed)))
	edRelay, tickRelay := 0, 0
	relayNodes := map[int]bool{}
	for _, inj := range cfg.Inj {
		for _, h := range inj.Route[1 : len(inj.Route)-1] {
			relayNodes[h.Node] = true
		}
	}
	for n := range relayNodes {
		if cfg.Nodes[n].Kind == "ed" {
			edRelay++
		} else {
			tickRelay++
		}
	}
	r.Count("event_driven_relays", int64(edRelay))
	r.Count("ticking_relays", int64(tickRelay))
	r.Distinct("topology_shapes", fmt.Sprintf("%d conns %d nodes ed=%d tick=%d", len(w.Conns), nn, edRelay, tickRelay))
	// back-pressure seen during the run: a delivery attempt that had to wait shows
	// up as a message whose Recvd instant is later than the first connection tick
	// after its Send. Cheap proxy: count sends whose delivery happened at a later
	// connection tick than the first one following the send.
	r.Count("backpressure_at_conn_tick", countBackpressure(w))

	// ---- the oracle: state at quiescence --------------------------------------
	violated := false
	for _, pi := range w.Ports {
		head := pi.Port.PeekOutgoing()
		if head == nil {
			continue
		}
		dst := w.PortByNm[head.Meta().Dst]
		if !dst.Port.CanDeliver() {
			continue // blocked; the owner of dst is judged below
		}
		violated = true
		s := cs[pi.Conn]
		key := "c09/stalled-outgoing-deliverable"
		if s.reqAfterSpentTick {
			// the last wake request for this connection came at the instant of its
			// last tick, after that tick had run without delivering anything
			key = "c09/lost-wakeup/conn-request-after-spent-tick-of-same-instant"
		}
		c.Fail(key, map[string]any{
			"msg": fmt.Sprintf("queue empty at t=%d but %s holds %d outgoing message(s); head id %d for %s which can accept it; connection X%d last ticked at t=%d (delivered %d), last wake request (%s) on one of its ports at t=%d",
				uint64(w.Engine.CurrentTime()), pi.Port.Name(), pi.Port.NumOutgoing(), head.Meta().ID, head.Meta().Dst,
				pi.Conn, s.lastTickT, s.delivered, s.lastReqKind, s.lastReqT),
			"log_of_the_instant_of_the_last_tick": instant(w, s.lastTickT, 80), "config": cfg})
	}
	for _, n := range w.Nodes {
		for _, pi := range n.Ports {
			head := pi.Port.PeekIncoming()
			if head == nil {
				continue
			}
			pk := head.(world.Packet)
			out := n.NextHopOut(pk)
			if out != nil && !out.Port.CanSend() {
				continue // blocked on its own outgoing port
			}
			violated = true
			c.Fail("c09/stalled-incoming-processable/"+n.Cfg.Kind, map[string]any{
				"msg": fmt.Sprintf("queue empty at t=%d but %s node %s has %d unread message(s) on %s and could process the head (flow %d)",
					uint64(w.Engine.CurrentTime()), n.Cfg.Kind, n.Name, pi.Port.NumIncoming(), pi.Port.Name(), pk.Flow),
				"tail_of_log": tail(w, 40), "config": cfg})
		}
		if !violated && n.PendingInjections() > 0 && n.HeadInjectionSendable() {
			// Not one of the two conditions of the statement (an injection is not yet a
			// message in a port) but the same failure: a source that was asked to
			// tick / wake for a due injection and can send it was never activated again.
			c.Failf("c09/aux/due-injection-never-sent", "node %s still has %d due injections and its port can send", n.Name, n.PendingInjections())
			violated = true
		}
	}
	// conservation: every flow consumed exactly once at its last hop, in the absence of a stall
	consumed := map[int]int{}
	for _, n := range w.Nodes {
		for _, f := range n.Consumed {
			consumed[f]++
			if last := cfg.Inj[f].Route[len(cfg.Inj[f].Route)-1].Node; last != n.Idx {
				c.Failf("c09/consumed-at-wrong-node", "flow %d consumed at node %d, route ends at %d", f, n.Idx, last)
			}
		}
	}
	if !violated {
		for f := range cfg.Inj {
			if consumed[f] != 1 {
				c.Fail("c09/not-conserved-without-visible-stall", map[string]any{
					"msg":    fmt.Sprintf("flow %d consumed %d times although no port holds anything deliverable", f, consumed[f]),
					"config": cfg})
				break
			}
		}
	}
	if twoConn > 0 && sameInstantChains > 0 {
		d, _ := json.Marshal(cfg)
		c.Nontrivial(string(d))
	}
	c.Sample(map[string]any{"config": cfg, "events": len(w.Log), "messages": len(w.Sent),
		"sends_at_instant_after_idle_conn_tick": dangerous, "end_time_ps": uint64(w.Engine.CurrentTime())})
}

// countBackpressure counts messages that were still in their outgoing buffer
// when a tick of their connection ended (they had to wait for a full receiver
// or for a head-of-line message).
func countBackpressure(w *world.World) int64 {
	nn := w.NumNodes()
	inOut := map[uint64]int{} // msg id -> conn, while sitting in an outgoing buffer
	var n int64
	counted := map[uint64]bool{}
	for _, e := range w.Log {
		switch e.K {
		case world.EvSend:
			inOut[e.M] = w.Ports[e.P].Conn
		case world.EvRetrOut:
			delete(inOut, e.M)
		case world.EvTickEnd:
			if e.H >= nn {
				for id, cn := range inOut {
					if cn == e.H-nn && !counted[id] {
						counted[id] = true
						n++
					}
				}
			}
		}
	}
	return n
}

func portSlot(w *world.World, pi *world.PortInfo) int {
	for i, q := range w.Nodes[pi.Node].Ports {
		if q == pi {
			return i
		}
	}
	panic("port not found")
}

// instant returns the log lines of one instant (at most n).
func instant(w *world.World, t uint64, n int) []string {
	lo, hi := -1, -1
	for i, e := range w.Log {
		if e.T == t {
			if lo < 0 {
				lo = i
			}
			hi = i
		}
	}
	if lo < 0 {
		return nil
	}
	if hi-lo+1 > n {
		lo = hi + 1 - n
	}
	return render(w, w.Log[lo:hi+1])
}

func tail(w *world.World, n int) []string {
	lo := len(w.Log) - n
	if lo < 0 {
		lo = 0
	}
	return render(w, w.Log[lo:])
}

func render(w *world.World, evs []world.Ev) []string {
	names := map[world.Kind]string{world.EvTick: "tick", world.EvTickEnd: "tick-end", world.EvWake: "wake", world.EvStep: "step",
		world.EvSend: "send", world.EvRecvd: "recvd", world.EvRetrIn: "retr-in", world.EvRetrOut: "retr-out",
		world.EvNotifyRecv: "notify-recv", world.EvNotifyFree: "notify-free", world.EvKick: "kick", world.EvConsume: "consume"}
	var out []string
	for _, e := range evs {
		s := fmt.Sprintf("#%d t=%d %s", e.Seq, e.T, names[e.K])
		if e.H >= 0 {
			s += " " + w.HandlerName(e.H)
		}
		if e.P >= 0 {
			s += " " + w.Ports[e.P].Port.Name()
		}
		if e.M != 0 {
			s += fmt.Sprintf(" msg%d", e.M)
		}
		if e.K == world.EvStep {
			s += fmt.Sprintf(" progress=%v", e.B)
		}
		out = append(out, s)
	}
	return out
}
