// C13 Event-driven components wake no later than requested.
//
// One EventDrivenComponent on a SerialEngine, one real port connected through
// a direct connection to a peer port. A scripted stimulus handler (primary and
// secondary events) and the component's own processor issue ScheduleWakeAt /
// ScheduleWakeNow; NotifyRecv / NotifyPortFree arrive through the real port
// (observed by a forwarding wrapper set as the port's component) or are called
// directly. Every request, notification and processor run is appended to one
// history in engine order; offline, each request for t needs a later run at a
// time <= t, each notification at r a later run at r.
package main

import (
	"fmt"
	"io"
	"log"
	"math/rand"
	"strings"

	"verifharness/kit"

	"github.com/sarchlab/akita/v5/hooking"
	"github.com/sarchlab/akita/v5/messaging"
	"github.com/sarchlab/akita/v5/modeling"
	"github.com/sarchlab/akita/v5/noc/directconnection"
	"github.com/sarchlab/akita/v5/timing"
)

const maxT = ^uint64(0)

func mix(x uint64) uint64 {
	x += 0x9e3779b97f4a7c15
	x = (x ^ (x >> 30)) * 0xbf58476d1ce4e5b9
	x = (x ^ (x >> 27)) * 0x94d049bb133111eb
	return x ^ (x >> 31)
}

func addT(t, d uint64) uint64 {
	if t+d < t {
		return maxT
	}
	return t + d
}

type edSpec struct {
	N int `json:"n"`
}
type edState struct {
	Runs int `json:"runs"`
}
type edComp = modeling.EventDrivenComponent[edSpec, edState, modeling.None]

// ---------------------------------------------------------------- history

type entry struct {
	Kind   string `json:"kind"` // run | req | notif
	What   string `json:"what"`
	Now    uint64 `json:"now"`
	Target uint64 `json:"target"`
	Inside bool   `json:"inside_process"`
}

type world struct {
	sc        *script
	eng       *countingEngine
	comp      *edComp
	tap       *tapComp
	cport     messaging.Port
	pport     messaging.Port
	hist      []entry
	inProcess bool
	direct    bool // set while the harness calls NotifyRecv/NotifyPortFree itself
	runs      int
	procReqs  int
	msgID     uint64

	// harness-side model used only to classify requests for the evidence
	outstanding    uint64
	hasOutstanding bool
	classes        map[string]int
	procClockDiff  int
}

func (w *world) now() uint64 { return uint64(w.eng.CurrentTime()) }

func (w *world) classify(t uint64) {
	switch {
	case !w.hasOutstanding:
		w.classes["req_with_none_outstanding"]++
	case t < w.outstanding:
		w.classes["req_earlier_than_outstanding"]++
	case t == w.outstanding:
		w.classes["req_equal_to_outstanding"]++
	default:
		w.classes["req_later_than_outstanding"]++
	}
	if !w.hasOutstanding || t < w.outstanding {
		w.outstanding, w.hasOutstanding = t, true
	}
}

func (w *world) wakeAt(t uint64, what string) {
	w.hist = append(w.hist, entry{Kind: "req", What: what, Now: w.now(), Target: t, Inside: w.inProcess})
	w.classify(t)
	w.comp.ScheduleWakeAt(timing.VTimeInPicoSec(t))
}

func (w *world) wakeNow() {
	n := w.now()
	w.hist = append(w.hist, entry{Kind: "req", What: "ScheduleWakeNow", Now: n, Target: n, Inside: w.inProcess})
	w.classify(n)
	w.comp.ScheduleWakeNow()
}

// countingEngine counts the timer events the component really schedules, so
// the evidence can show how many requests the dedup guard absorbed.
type countingEngine struct {
	*timing.SerialEngine
	timers int
}

func (e *countingEngine) Schedule(evt timing.Event) {
	if _, ok := evt.(modeling.TimerFiredEvent); ok {
		e.timers++
	}
	e.SerialEngine.Schedule(evt)
}

// tapComp is what the port sees as its component: it logs the notification
// and forwards it to the real EventDrivenComponent.
type tapComp struct {
	*edComp
	w *world
}

func (t *tapComp) NotifyRecv(p messaging.Port) {
	n := t.w.now()
	what := "NotifyRecv(port delivery)"
	if t.w.direct {
		what = "NotifyRecv(direct call)"
	}
	t.w.hist = append(t.w.hist, entry{Kind: "notif", What: what, Now: n, Target: n, Inside: t.w.inProcess})
	t.w.classify(n)
	t.edComp.NotifyRecv(p)
}

func (t *tapComp) NotifyPortFree(p messaging.Port) {
	n := t.w.now()
	what := "NotifyPortFree(port)"
	if t.w.direct {
		what = "NotifyPortFree(direct call)"
	}
	t.w.hist = append(t.w.hist, entry{Kind: "notif", What: what, Now: n, Target: n, Inside: t.w.inProcess})
	t.w.classify(n)
	t.edComp.NotifyPortFree(p)
}

// peerComp owns the other port; it never reacts by itself.
type peerComp struct {
	hooking.HookableBase
	*messaging.PortOwnerBase
}

func (p *peerComp) Name() string                    { return "Peer" }
func (p *peerComp) NotifyRecv(_ messaging.Port)     {}
func (p *peerComp) NotifyPortFree(_ messaging.Port) {}

type msg struct{ messaging.MsgMeta }

// ---------------------------------------------------------------- script

type action struct {
	Op string `json:"op"` // wake_at | wake_now | wake_equal | wake_earlier | wake_later | direct_recv | direct_free | peer_send | peer_retrieve
	D  uint64 `json:"d,omitempty"`
}

type stim struct {
	T       uint64   `json:"t"`
	Sec     bool     `json:"secondary"`
	Actions []action `json:"actions"`
}

type script struct {
	Seed       uint64     `json:"seed"`
	Flavor     string     `json:"flavor"`
	Period     uint64     `json:"connection_period_ps"`
	InCap      int        `json:"comp_port_in"`
	OutCap     int        `json:"comp_port_out"`
	PeerIn     int        `json:"peer_port_in"`
	PeerOut    int        `json:"peer_port_out"`
	Phases     [][]stim   `json:"phases"`       // stimulus events per Run phase (times relative to the clock at phase start)
	Outside    [][]action `json:"outside"`      // actions issued from outside the engine before the Run of each phase
	Huge       bool       `json:"huge_targets"` // some targets in the upper half of the 64-bit range (only without port traffic)
	ProcBudget int        `json:"processor_request_budget"`
	PWake      int        `json:"pm_proc_wake"`
	PWakeNow   int        `json:"pm_proc_wake_now"`
	PNotif     int        `json:"pm_proc_self_notification"`
	PSend      int        `json:"pm_proc_send"`
	PRetrieve  int        `json:"pm_proc_retrieve"`
}

type stimEvent struct {
	t   uint64
	sec bool
	ph  int
	idx int
}

func (e stimEvent) Time() timing.VTimeInPicoSec { return timing.VTimeInPicoSec(e.t) }
func (e stimEvent) HandlerID() string           { return "Stim" }
func (e stimEvent) IsSecondary() bool           { return e.sec }

type stimHandler struct{ w *world }

func (h *stimHandler) Handle(e timing.Event) error {
	x := e.(stimEvent)
	for _, a := range h.w.sc.Phases[x.ph][x.idx].Actions {
		h.w.do(a)
	}
	return nil
}

func genDelta(rng *rand.Rand, period uint64, now uint64, huge bool) uint64 {
	if huge && rng.Intn(6) == 0 {
		switch rng.Intn(3) {
		case 0:
			return maxT // clamps to the largest time
		case 1:
			return 1<<63 + uint64(rng.Intn(3))
		default:
			return rng.Uint64() >> 1
		}
	}
	switch rng.Intn(7) {
	case 0:
		return 0
	case 1:
		return 1
	case 2:
		return uint64(rng.Intn(10))
	case 3: // up to a connection edge
		return (period - now%period) % period
	case 4:
		return period * uint64(1+rng.Intn(4))
	case 5:
		return uint64(rng.Int63n(int64(8 * period)))
	default:
		return uint64(rng.Int63n(1 << 30))
	}
}

func genAction(rng *rand.Rand, sc *script, now uint64, ports bool) action {
	n := 7
	if ports {
		n = 11
	}
	switch rng.Intn(n) {
	case 0, 1:
		return action{Op: "wake_at", D: genDelta(rng, sc.Period, now, sc.Huge)}
	case 2:
		return action{Op: "wake_now"}
	case 3:
		return action{Op: "wake_equal"}
	case 4:
		return action{Op: "wake_earlier"}
	case 5:
		return action{Op: "wake_later", D: 1 + genDelta(rng, sc.Period, now, sc.Huge)}
	case 6:
		if rng.Intn(2) == 0 {
			return action{Op: "direct_recv"}
		}
		return action{Op: "direct_free"}
	case 7, 8:
		return action{Op: "peer_send"}
	case 9:
		return action{Op: "peer_retrieve"}
	default:
		return action{Op: "wake_at", D: 0}
	}
}

func genScript(rng *rand.Rand) *script {
	sc := &script{Seed: rng.Uint64(), Period: 1000, InCap: 1 + rng.Intn(3), OutCap: 1 + rng.Intn(3),
		PeerIn: 1 + rng.Intn(3), PeerOut: 1 + rng.Intn(4),
		ProcBudget: rng.Intn(40), PWake: rng.Intn(700), PWakeNow: rng.Intn(200), PNotif: rng.Intn(150), PSend: rng.Intn(600), PRetrieve: 300 + rng.Intn(700)}
	if rng.Intn(3) == 0 {
		sc.Period = []uint64{1, 2, 500, 1000, 3000}[rng.Intn(5)]
	}
	ports := true
	nStim := 3 + rng.Intn(30)
	var timeOf func() uint64
	switch rng.Intn(5) {
	case 0: // everything inside very few instants
		sc.Flavor = "same-instant"
		nt := uint64(1 + rng.Intn(3))
		timeOf = func() uint64 { return sc.Period * uint64(rng.Int63n(int64(nt))) }
	case 1: // on connection edges
		sc.Flavor = "on-edges"
		timeOf = func() uint64 { return sc.Period * uint64(rng.Intn(12)) }
	case 2: // requests only, no ports
		sc.Flavor = "requests-only"
		ports = false
		sc.PSend = 0
		sc.Huge = rng.Intn(4) == 0
		timeOf = func() uint64 { return uint64(rng.Intn(60)) }
	case 3:
		sc.Flavor = "dense"
		timeOf = func() uint64 { return uint64(rng.Int63n(int64(6*sc.Period + 1))) }
	default:
		sc.Flavor = "mixed"
		timeOf = func() uint64 {
			if rng.Intn(2) == 0 {
				return sc.Period * uint64(rng.Intn(10))
			}
			return uint64(rng.Int63n(int64(10*sc.Period + 1)))
		}
	}
	nPh := 1
	if rng.Intn(3) == 0 {
		nPh = 2 + rng.Intn(2)
	}
	for ph := 0; ph < nPh; ph++ {
		var out []action
		for i := rng.Intn(4); i > 0; i-- {
			out = append(out, genAction(rng, sc, 0, ports))
		}
		sc.Outside = append(sc.Outside, out)
		var ss []stim
		for i := 0; i < nStim/nPh+1; i++ {
			s := stim{T: timeOf(), Sec: rng.Intn(3) == 0}
			for k := 1 + rng.Intn(3); k > 0; k-- {
				s.Actions = append(s.Actions, genAction(rng, sc, s.T, ports))
			}
			ss = append(ss, s)
		}
		sc.Phases = append(sc.Phases, ss)
	}
	return sc
}

// ---------------------------------------------------------------- execution

func (w *world) do(a action) {
	now := w.now()
	switch a.Op {
	case "wake_at":
		w.wakeAt(addT(now, a.D), "ScheduleWakeAt(now+d)")
	case "wake_now":
		w.wakeNow()
	case "wake_equal":
		if w.hasOutstanding && w.outstanding >= now {
			w.wakeAt(w.outstanding, "ScheduleWakeAt(equal to outstanding)")
		} else {
			w.wakeAt(now, "ScheduleWakeAt(now)")
		}
	case "wake_earlier":
		if w.hasOutstanding && w.outstanding > now {
			w.wakeAt(now+(w.outstanding-now)/2, "ScheduleWakeAt(earlier than outstanding)")
		} else {
			w.wakeAt(now, "ScheduleWakeAt(now)")
		}
	case "wake_later":
		base := now
		if w.hasOutstanding && w.outstanding > now {
			base = w.outstanding
		}
		w.wakeAt(addT(base, a.D), "ScheduleWakeAt(later than outstanding)")
	case "direct_recv":
		w.direct = true
		w.tap.NotifyRecv(w.cport)
		w.direct = false
	case "direct_free":
		w.direct = true
		w.tap.NotifyPortFree(w.cport)
		w.direct = false
	case "peer_send":
		if w.pport.CanSend() {
			w.msgID++
			w.pport.Send(msg{messaging.MsgMeta{ID: w.msgID, Src: w.pport.AsRemote(), Dst: w.cport.AsRemote()}})
		}
	case "peer_retrieve":
		w.pport.RetrieveIncoming()
	}
}

type processor struct{ w *world }

func (p *processor) Process(comp *edComp, now timing.VTimeInPicoSec) bool {
	w := p.w
	if uint64(now) != w.now() {
		w.procClockDiff++
	}
	w.hist = append(w.hist, entry{Kind: "run", Now: w.now(), Target: uint64(now)})
	w.hasOutstanding = false
	w.runs++
	w.inProcess = true
	defer func() { w.inProcess = false }()
	comp.State.Runs++
	s := mix(w.sc.Seed ^ uint64(w.runs))
	// drain some or all incoming messages
	if int(s%1000) < w.sc.PRetrieve {
		for k := 1 + int((s>>10)%3); k > 0 && w.cport.PeekIncoming() != nil; k-- {
			w.cport.RetrieveIncoming()
		}
	}
	s = mix(s)
	if int(s%1000) < w.sc.PSend && w.cport.CanSend() && w.msgID < 200 {
		w.msgID++
		w.cport.Send(msg{messaging.MsgMeta{ID: w.msgID, Src: w.cport.AsRemote(), Dst: w.pport.AsRemote()}})
	}
	if w.procReqs >= w.sc.ProcBudget {
		return true
	}
	s = mix(s)
	if int(s%1000) < w.sc.PWake {
		w.procReqs++
		var d uint64
		switch (s >> 12) % 5 {
		case 0:
			d = 1
		case 1:
			d = (s >> 20) % 10
		case 2:
			d = w.sc.Period - uint64(now)%w.sc.Period
		case 3:
			d = w.sc.Period * (1 + (s>>20)%3)
		default:
			d = (s >> 20) % (4 * w.sc.Period)
		}
		w.wakeAt(addT(uint64(now), d), "ScheduleWakeAt(now+d)")
		if (s>>40)%4 == 0 { // a second, different request in the same run
			w.procReqs++
			w.wakeAt(addT(uint64(now), (s>>44)%(2*w.sc.Period+1)), "ScheduleWakeAt(now+d)")
		}
	}
	s = mix(s)
	if int(s%1000) < w.sc.PWakeNow {
		w.procReqs++
		w.wakeNow()
	}
	s = mix(s)
	if int(s%1000) < w.sc.PNotif { // a notification that arrives while Process is running (e.g. a loop-back delivery)
		w.procReqs++
		w.direct = true
		if (s>>12)%2 == 0 {
			w.tap.NotifyRecv(w.cport)
		} else {
			w.tap.NotifyPortFree(w.cport)
		}
		w.direct = false
	}
	return true
}

func build(sc *script) *world {
	w := &world{sc: sc, classes: map[string]int{}}
	w.eng = &countingEngine{SerialEngine: timing.NewSerialEngine()}
	w.comp = modeling.NewEventDrivenBuilder[edSpec, edState, modeling.None]().
		WithEngine(w.eng).WithSpec(edSpec{N: 1}).WithProcessor(&processor{w}).Build("C")
	w.tap = &tapComp{edComp: w.comp, w: w}
	w.cport = messaging.NewPort(w.tap, sc.InCap, sc.OutCap, "C.Port")
	peer := &peerComp{PortOwnerBase: messaging.NewPortOwnerBase()}
	w.pport = messaging.NewPort(peer, sc.PeerIn, sc.PeerOut, "Peer.Port")
	conn := directconnection.MakeBuilder().
		WithRegistrar(modeling.NewStandaloneRegistrar(w.eng.SerialEngine)).
		WithSpec(directconnection.Spec{Freq: timing.Freq(1e12 / sc.Period)}).
		Build("Conn")
	conn.PlugIn(w.cport)
	conn.PlugIn(w.pport)
	w.eng.RegisterHandler("Stim", &stimHandler{w})
	return w
}

func main() {
	kit.Main(kit.Prop{
		ID:    "C13",
		Level: "exploration",
		Rule: "histories drawn from 5 flavours (same-instant, on connection edges, requests only, dense, mixed): 3-32 primary/secondary stimulus events with 1-3 actions each " +
			"(ScheduleWakeAt now+d / equal / earlier / later than the outstanding request, ScheduleWakeNow, direct NotifyRecv/NotifyPortFree, peer send, peer retrieve), " +
			"actions from outside the engine before each of 1-3 Run phases, and a processor that retrieves, sends, issues up to 40 further requests and receives direct NotifyRecv/NotifyPortFree calls inside Process; " +
			"a history is non-trivial when it has >= 3 processor runs, a request later than and one earlier than or equal to the outstanding one, and a request issued inside Process; " +
			"distinct by the hash of the history",
		Assumptions: []string{
			"serial engine, one goroutine (parallel family: parallel engine, notifications from other goroutines of the same round); requests are never in the past",
			"a request issued inside Process (also for the current instant) needs a run that starts after it",
			"the processor run time is the engine clock when Process is entered",
		},
		Plan: func(tier string, seed int64) []kit.Batch {
			nb, n := 16, 2500
			if tier == "thorough" {
				nb, n = 64, 60000
			}
			var bs []kit.Batch
			for i := 0; i < nb; i++ {
				bs = append(bs, kit.Batch{Name: fmt.Sprintf("hist%d", i), Seed: seed*1000 + int64(i), N: n})
			}
			// parallel-engine family (parallel.go): real goroutines, so the worker count is part of the plan
			np, pn := 4, 400
			if tier == "thorough" {
				np, pn = 16, 6000
			}
			for i := 0; i < np; i++ {
				bs = append(bs, kit.Batch{Name: fmt.Sprintf("par%d", i), Seed: seed*1000 + 500 + int64(i), N: pn,
					Env: []string{fmt.Sprintf("GOMAXPROCS=%d", []int{2, 4, 8, 16}[i%4])}})
			}
			return bs
		},
		Run: run,
		MustObserve: []string{"processor_runs", "req_earlier_than_outstanding", "req_later_than_outstanding", "req_equal_to_outstanding",
			"req_with_none_outstanding", "requests_inside_process", "requests_outside_process", "requests_from_outside_the_engine",
			"notif_recv_by_port_delivery", "notif_free_by_port", "requests_absorbed_by_dedup_guard", "requests_for_the_current_instant_inside_process", "notifications_during_process",
			"parallel_notifications_while_handle_running", "parallel_notifications_in_an_instant_with_a_timer_run"},
	})
}

func run(b kit.Batch, r *kit.R) {
	log.SetOutput(io.Discard)
	if strings.HasPrefix(b.Name, "par") {
		runParallel(r)
		return
	}
	r.ForEach(b.N, func(c *kit.Case) {
		sc := genScript(c.Rng)
		c.Desc(sc)
		w := build(sc)
		outsideReqs := 0
		for ph := range sc.Phases {
			base := w.now()
			for i, s := range sc.Phases[ph] {
				w.eng.Schedule(stimEvent{t: addT(base, s.T), sec: s.Sec, ph: ph, idx: i})
			}
			h0 := len(w.hist)
			for _, a := range sc.Outside[ph] {
				w.do(a)
			}
			outsideReqs += len(w.hist) - h0
			_ = w.eng.Run()
		}

		// ---- oracle: next run after each request / notification
		nextRun := -1 // index into hist of the closest later run
		type miss struct {
			i    int
			late bool
		}
		var misses []miss
		for i := len(w.hist) - 1; i >= 0; i-- {
			e := w.hist[i]
			if e.Kind == "run" {
				nextRun = i
				continue
			}
			if nextRun < 0 {
				misses = append(misses, miss{i, false})
			} else if w.hist[nextRun].Now > e.Target {
				misses = append(misses, miss{i, true})
			}
		}
		if len(misses) > 0 {
			m := misses[len(misses)-1] // earliest in the history
			e := w.hist[m.i]
			kind := "request"
			if e.Kind == "notif" {
				kind = "notification"
			}
			key := "eventdriven/" + kind + "-never-woken"
			detail := "no processor run follows it"
			if m.late {
				key = "eventdriven/" + kind + "-woken-late"
				detail = fmt.Sprintf("the next processor run is at %d", w.hist[nextRunAfter(w.hist, m.i)].Now)
			}
			lo := m.i - 6
			if lo < 0 {
				lo = 0
			}
			hi := m.i + 6
			if hi > len(w.hist) {
				hi = len(w.hist)
			}
			c.Fail(key, map[string]any{
				"msg":            fmt.Sprintf("history entry #%d: %s at time %d for time %d (inside Process: %v): %s; %d unmet in this history", m.i, e.What, e.Now, e.Target, e.Inside, detail, len(misses)),
				"history_window": w.hist[lo:hi], "window_starts_at": lo, "script": sc})
		}

		// ---- observations
		nReq, nNotif := 0, 0
		hh := uint64(3)
		for _, e := range w.hist {
			hh = mix(hh ^ e.Now ^ mix(e.Target) ^ uint64(len(e.What))<<56 ^ uint64(len(e.Kind))<<48)
			switch e.Kind {
			case "req":
				nReq++
				if e.Inside {
					r.Count("requests_inside_process", 1)
					if e.Target == e.Now {
						r.Count("requests_for_the_current_instant_inside_process", 1)
					}
				} else {
					r.Count("requests_outside_process", 1)
				}
			case "notif":
				nNotif++
				switch e.What {
				case "NotifyRecv(port delivery)":
					r.Count("notif_recv_by_port_delivery", 1)
				case "NotifyPortFree(port)":
					r.Count("notif_free_by_port", 1)
				default:
					r.Count("notif_direct_calls", 1)
				}
				if e.Inside {
					r.Count("notifications_during_process", 1)
				}
			}
		}
		r.Count("requests_from_outside_the_engine", int64(outsideReqs))
		r.Count("processor_runs", int64(w.runs))
		r.Count("requests", int64(nReq))
		r.Count("notifications", int64(nNotif))
		r.Count("timer_events_scheduled", int64(w.eng.timers))
		if d := nReq + nNotif - w.eng.timers; d > 0 {
			r.Count("requests_absorbed_by_dedup_guard", int64(d))
		}
		for k, v := range w.classes {
			r.Count(k, int64(v))
		}
		r.Count("process_time_argument_differs_from_engine_clock", int64(w.procClockDiff))
		r.Count("histories_flavor_"+sc.Flavor, 1)
		r.Max("max_history_length", int64(len(w.hist)))
		r.Max("max_processor_runs_in_a_history", int64(w.runs))
		r.Distinct("history_hashes", fmt.Sprintf("%x", hh))
		inside := false
		for _, e := range w.hist {
			if e.Kind == "req" && e.Inside {
				inside = true
			}
		}
		nontrivial := w.runs >= 3 && w.classes["req_later_than_outstanding"] > 0 &&
			w.classes["req_earlier_than_outstanding"]+w.classes["req_equal_to_outstanding"] > 0 && inside
		if nontrivial {
			c.Nontrivial(fmt.Sprintf("%x", hh))
		}
		if nontrivial && len(w.hist) <= 30 {
			c.Sample(map[string]any{"script": sc, "history": w.hist})
		}
	})
}

func nextRunAfter(h []entry, i int) int {
	for j := i + 1; j < len(h); j++ {
		if h[j].Kind == "run" {
			return j
		}
	}
	return i
}
