// Parallel-engine family of C13 ("schedules" in the quantifier).
//
// One EventDrivenComponent on a timing.ParallelEngine. The component keeps a
// timer on every stimulus instant; 2-4 stimulus handlers (distinct handler
// names, so the engine runs them on other goroutines in the same round as the
// component's Handle) deliver into the component's port the way a connection
// handler does, or call NotifyPortFree. Notifications are logged (under the
// monitor's own mutex) when the call is made, processor runs when Process is
// entered. Oracle as in the serial family: a notification made at instant r
// needs a processor run that is entered after it, at r.
package main

import (
	"fmt"
	"math/rand"
	"runtime"
	"sync"
	"sync/atomic"

	"verifharness/kit"

	"github.com/sarchlab/akita/v5/messaging"
	"github.com/sarchlab/akita/v5/modeling"
	"github.com/sarchlab/akita/v5/timing"
)

type pAction struct {
	Op   string `json:"op"` // deliver | free | none
	Spin int    `json:"spin"`
}

type pScript struct {
	Seed     uint64       `json:"seed"`
	Period   uint64       `json:"period"`
	Handlers int          `json:"handlers"`
	Instants [][]pAction  `json:"instants"` // [instant][handler]
	PTimer   int          `json:"pm_keep_timer_on_next_instant"`
	PExtra   int          `json:"pm_extra_request"`
	SpinPre  int          `json:"max_spin_before_poll"`
	SpinPost int          `json:"max_spin_after_poll"`
}

type pWorld struct {
	sc    *pScript
	eng   *timing.ParallelEngine
	comp  *edComp
	tap   *pTap
	cport messaging.Port

	mu       sync.Mutex // the monitor's own lock: history order is the order of these critical sections
	hist     []entry
	runs     int
	inHandle atomic.Int32
	msgID    atomic.Uint64
	sink     atomic.Uint64
}

func (w *pWorld) now() uint64 { return uint64(w.eng.CurrentTime()) }

func (w *pWorld) logEntry(e entry) {
	w.mu.Lock()
	w.hist = append(w.hist, e)
	w.mu.Unlock()
}

func (w *pWorld) spin(n int) {
	x := uint64(n)
	for i := 0; i < n; i++ {
		x = mix(x)
		if i%64 == 63 {
			runtime.Gosched()
		}
	}
	w.sink.Add(x & 1)
}

type pTap struct {
	*edComp
	w *pWorld
}

func (t *pTap) NotifyRecv(p messaging.Port) {
	n := t.w.now()
	t.w.logEntry(entry{Kind: "notif", What: "NotifyRecv(port delivery)", Now: n, Target: n, Inside: t.w.inHandle.Load() > 0})
	t.edComp.NotifyRecv(p)
}

func (t *pTap) NotifyPortFree(p messaging.Port) {
	n := t.w.now()
	t.w.logEntry(entry{Kind: "notif", What: "NotifyPortFree(direct call)", Now: n, Target: n, Inside: t.w.inHandle.Load() > 0})
	t.edComp.NotifyPortFree(p)
}

type pProcessor struct{ w *pWorld }

func (p *pProcessor) Process(comp *edComp, now timing.VTimeInPicoSec) bool {
	w := p.w
	w.inHandle.Add(1)
	defer w.inHandle.Add(-1)
	w.mu.Lock()
	w.hist = append(w.hist, entry{Kind: "run", Now: w.now(), Target: uint64(now)})
	w.runs++
	run := w.runs
	w.mu.Unlock()
	comp.State.Runs++
	s := mix(w.sc.Seed ^ uint64(run))
	if w.sc.SpinPre > 0 {
		w.spin(int(s>>8) % (w.sc.SpinPre + 1))
	}
	for w.cport.PeekIncoming() != nil {
		w.cport.RetrieveIncoming()
	}
	s = mix(s)
	if w.sc.SpinPost > 0 {
		w.spin(int(s>>8) % (w.sc.SpinPost + 1))
	}
	last := w.sc.Period * uint64(len(w.sc.Instants))
	s = mix(s)
	if int(s%1000) < w.sc.PTimer {
		next := (uint64(now)/w.sc.Period + 1) * w.sc.Period
		if next <= last {
			w.logEntry(entry{Kind: "req", What: "ScheduleWakeAt(next instant)", Now: w.now(), Target: next, Inside: true})
			comp.ScheduleWakeAt(timing.VTimeInPicoSec(next))
		}
	}
	s = mix(s)
	if int(s%1000) < w.sc.PExtra {
		t := uint64(now) + (s>>12)%(3*w.sc.Period)
		if t <= last {
			w.logEntry(entry{Kind: "req", What: "ScheduleWakeAt(now+d)", Now: w.now(), Target: t, Inside: true})
			comp.ScheduleWakeAt(timing.VTimeInPicoSec(t))
		}
	}
	return true
}

type pStimEvent struct {
	t       uint64
	handler string
	instant int
	idx     int
}

func (e pStimEvent) Time() timing.VTimeInPicoSec { return timing.VTimeInPicoSec(e.t) }
func (e pStimEvent) HandlerID() string           { return e.handler }
func (e pStimEvent) IsSecondary() bool           { return false }

type pStimHandler struct{ w *pWorld }

func (h *pStimHandler) Handle(e timing.Event) error {
	x := e.(pStimEvent)
	a := h.w.sc.Instants[x.instant][x.idx]
	h.w.spin(a.Spin)
	switch a.Op {
	case "deliver":
		id := h.w.msgID.Add(1)
		h.w.cport.Deliver(msg{messaging.MsgMeta{ID: id, Src: messaging.RemotePort(x.handler), Dst: h.w.cport.AsRemote()}})
	case "free":
		h.w.tap.NotifyPortFree(h.w.cport)
	}
	return nil
}

func genPScript(rng *rand.Rand) *pScript {
	sc := &pScript{Seed: rng.Uint64(), Period: 1000, Handlers: 2 + rng.Intn(3),
		PTimer: 600 + rng.Intn(401), PExtra: rng.Intn(300)}
	maxSpin := []int{0, 50, 400, 3000}[rng.Intn(4)]
	sc.SpinPre, sc.SpinPost = rng.Intn(maxSpin+1), rng.Intn(maxSpin+1)
	n := 8 + rng.Intn(40)
	pDeliver, pFree := 200+rng.Intn(700), rng.Intn(200)
	for i := 0; i < n; i++ {
		row := make([]pAction, sc.Handlers)
		for j := range row {
			a := pAction{Op: "none", Spin: rng.Intn(maxSpin + 1)}
			switch x := rng.Intn(1000); {
			case x < pDeliver:
				a.Op = "deliver"
			case x < pDeliver+pFree:
				a.Op = "free"
			}
			row[j] = a
		}
		sc.Instants = append(sc.Instants, row)
	}
	return sc
}

func buildP(sc *pScript) *pWorld {
	w := &pWorld{sc: sc}
	w.eng = timing.NewParallelEngine()
	w.comp = modeling.NewEventDrivenBuilder[edSpec, edState, modeling.None]().
		WithEngine(w.eng).WithSpec(edSpec{N: 1}).WithProcessor(&pProcessor{w}).Build("C")
	w.eng.RegisterHandler("C", w.comp)
	w.tap = &pTap{edComp: w.comp, w: w}
	w.cport = messaging.NewPort(w.tap, 1<<16, 4, "C.Port")
	for j := 0; j < sc.Handlers; j++ {
		w.eng.RegisterHandler(fmt.Sprintf("S%d", j), &pStimHandler{w})
	}
	return w
}

func runParallel(r *kit.R) {
	b := r.Batch()
	r.ForEach(b.N, func(c *kit.Case) {
		sc := genPScript(c.Rng)
		c.Desc(sc)
		w := buildP(sc)
		for i, row := range sc.Instants {
			for j := range row {
				w.eng.Schedule(pStimEvent{t: uint64(i+1) * sc.Period, handler: fmt.Sprintf("S%d", j), instant: i, idx: j})
			}
		}
		w.logEntry(entry{Kind: "req", What: "ScheduleWakeAt(first instant)", Now: 0, Target: sc.Period})
		w.comp.ScheduleWakeAt(timing.VTimeInPicoSec(sc.Period))
		_ = w.eng.Run()

		nextRun := -1
		firstMiss, late, nMiss := -1, false, 0
		for i := len(w.hist) - 1; i >= 0; i-- {
			e := w.hist[i]
			if e.Kind == "run" {
				nextRun = i
				continue
			}
			if nextRun < 0 {
				firstMiss, late = i, false
				nMiss++
			} else if w.hist[nextRun].Now > e.Target {
				firstMiss, late = i, true
				nMiss++
			}
		}
		if firstMiss >= 0 {
			e := w.hist[firstMiss]
			kind := "request"
			if e.Kind == "notif" {
				kind = "notification"
			}
			key, detail := "eventdriven/parallel/"+kind+"-never-woken", "no processor run is entered after it"
			if late {
				key = "eventdriven/parallel/" + kind + "-woken-late"
				detail = fmt.Sprintf("the next processor run is entered at %d", w.hist[nextRunAfter(w.hist, firstMiss)].Now)
			}
			lo, hi := firstMiss-8, firstMiss+8
			if lo < 0 {
				lo = 0
			}
			if hi > len(w.hist) {
				hi = len(w.hist)
			}
			c.Fail(key, map[string]any{
				"msg": fmt.Sprintf("history entry #%d: %s at time %d for time %d (made while Handle was running: %v): %s; %d unmet in this history",
					firstMiss, e.What, e.Now, e.Target, e.Inside, detail, nMiss),
				"history_window": w.hist[lo:hi], "window_starts_at": lo, "script": sc})
		}
		if left := w.cport.PeekIncoming(); left != nil {
			c.Fail("eventdriven/parallel/message-left-in-port", map[string]any{
				"msg": "the run ended with a delivered message still in the component's port: the notification for it never led to a processor run", "script": sc})
		}

		nNotif, during, sameInstant := 0, 0, 0
		hh := uint64(5)
		runAt := map[uint64]bool{}
		for _, e := range w.hist {
			hh = mix(hh ^ uint64(len(e.Kind)) ^ e.Now ^ e.Target<<1)
			switch e.Kind {
			case "run":
				runAt[e.Now] = true
			case "notif":
				nNotif++
				if e.Inside {
					during++
				}
			}
		}
		for _, e := range w.hist {
			if e.Kind == "notif" && runAt[e.Now] {
				sameInstant++
			}
		}
		r.Count("parallel_histories", 1)
		r.Count("parallel_processor_runs", int64(w.runs))
		r.Count("parallel_notifications", int64(nNotif))
		r.Count("parallel_notifications_while_handle_running", int64(during))
		r.Count("parallel_notifications_in_an_instant_with_a_timer_run", int64(sameInstant))
		r.Max("parallel_max_history_length", int64(len(w.hist)))
		r.Distinct("parallel_history_hashes", fmt.Sprintf("%x", hh))
		if during > 0 && w.runs >= 3 {
			c.Nontrivial(fmt.Sprintf("p%x", hh))
		}
	})
}
