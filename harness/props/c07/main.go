// C07 Checkpoint archives are canonical and mismatches are rejected.
package main

import (
	"archive/tar"
	"bytes"
	"compress/gzip"
	"encoding/binary"
	"encoding/json"
	"fmt"
	"os"
	"path/filepath"
	"regexp"
	"runtime/debug"
	"sort"
	"strings"
	"time"

	"verifharness/kit"
	"verifharness/kit/sim"
)

type params struct {
	NumReqs int `json:"num_reqs"`
	Cuts    int `json:"cuts"`
	Surgery int `json:"surgery"` // random payload edits per assembly
	Flips   int `json:"flips"`   // raw byte flips/truncations per assembly
	VM      bool `json:"vm"`     // translation-stack batch
}

func main() {
	sim.MaybeRunRole()
	kit.Main(kit.Prop{
		ID:    "C07",
		Level: "fault_enumeration",
		Rule: "per PRNG-drawn assembly: (a) for several cut times, save -> load in a fresh process -> save again must be byte-identical; (b) every single-point mutation of the rebuilt configuration from a fixed list " +
			"(build id, added/removed component, each component's spec, port capacity, connection spec, storage capacity) must make LoadCheckpoint return an error; (c) archive surgery from a fixed list of definite faults " +
			"(unknown handler, unknown event/message type tag, truncated payload, more buffered messages than capacity, storage header mismatch, huge unit count, spec-hash edit, entity removed/added/duplicated, build id edited/missing) must return an error, " +
			"and PRNG type-confusions, byte flips and truncations of the gzip stream may succeed or fail; nothing may panic or crash. Every attempt is one enumerated fault; non-trivial = the fault was applied to an archive with messages in flight; distinct by (configuration, fault)",
		Assumptions: []string{"memory-hierarchy assemblies for the archive surgery; translation-stack assemblies for the page-size and translation-component mismatches"},
		Plan: func(tier string, seed int64) []kit.Batch {
			nb, n := 16, 1
			p := params{NumReqs: 100, Cuts: 2, Surgery: 30, Flips: 30}
			if tier == "thorough" {
				nb, n, p = 32, 8, params{NumReqs: 200, Cuts: 4, Surgery: 300, Flips: 300}
			}
			var bs []kit.Batch
			for i := 0; i < nb; i++ {
				q := p
				q.VM = i%4 == 3
				bs = append(bs, kit.Batch{Name: fmt.Sprintf("arch%d", i), Seed: seed*15485863 + int64(i), N: n, Params: kit.MkParams(q)})
			}
			return bs
		},
		Run:         run,
		MustObserve: []string{"page_size_mismatches_tried", "resave_compared", "config_mutations_tried", "surgery_must_fail_tried", "flips_tried", "loads_rejected_with_error"},
	})
}

func run(b kit.Batch, r *kit.R) {
	var p params
	b.P(&p)
	r.ForEach(b.N, func(c *kit.Case) {
		if p.VM {
			vmCase(c, p)
			return
		}
		cfg := sim.RandomStackCfg(c.Rng, sim.GenOpts{NumReqs: p.NumReqs, AllowDRAM: true, AllowBanked: true, MaxDrivers: 2, ForceCache: c.Rng.Intn(3) > 0})
		c.Desc(cfg)
		one(c, cfg, p)
	})
}

func one(c *kit.Case, cfg sim.StackCfg, p params) {
	r := c.R
	cfgJSON, _ := json.Marshal(cfg)
	dir := filepath.Join(r.WorkDir, fmt.Sprintf("case%d", c.Index))
	os.MkdirAll(dir, 0o755)
	limit := uint64(p.NumReqs) * 200000 * 1000
	ref, err := sim.CallRole(sim.RoleReq{Role: "ref", Kind: "stack", Cfg: cfgJSON, Dir: dir, Limit: limit, KeepTrace: true})
	if err != nil || ref.Err != "" || !ref.Done {
		r.Count("reference_runs_not_clean(skipped)", 1)
		return
	}
	times := sim.DistinctTimes(&sim.EventTrace{Recs: ref.Trace})
	set := map[uint64]bool{}
	for i := 0; i < 4*p.Cuts && len(set) < p.Cuts; i++ {
		set[uint64(times[len(times)/8+c.Rng.Intn(len(times)*3/4)])] = true
	}
	var cuts []uint64
	for t := range set {
		cuts = append(cuts, t)
	}
	sort.Slice(cuts, func(i, j int) bool { return cuts[i] < cuts[j] })
	sv, err := sim.CallRole(sim.RoleReq{Role: "saves", Kind: "stack", Cfg: cfgJSON, Dir: dir, Limit: limit, Cuts: cuts})
	if err != nil || sv.Err != "" {
		c.Fail("archive/save-error", map[string]any{"err": fmt.Sprint(err, sv.Err), "cfg": cfg})
		return
	}
	// (a) canonical
	bestIdx := 0
	for i := range cuts {
		path := filepath.Join(dir, fmt.Sprintf("cut-%d.tar.gz", i))
		orig, _ := os.ReadFile(path)
		res, err := sim.CallRole(sim.RoleReq{Role: "resume", Kind: "stack", Cfg: cfgJSON, Dir: dir, Limit: limit, Path: path, Resave: true})
		if err != nil || res.Err != "" {
			c.Fail("archive/load-error-on-own-archive", map[string]any{"err": fmt.Sprint(err, res.Err), "cfg": cfg, "cut": cuts[i]})
			continue
		}
		r.Count("resave_compared", 1)
		if !bytes.Equal(orig, res.Resaved) {
			a, _ := sim.ReadTarGz(orig)
			b, _ := sim.ReadTarGz(res.Resaved)
			c.Fail("archive/not-canonical", map[string]any{"cfg": cfg, "cut": cuts[i], "entities_differ": sim.DiffPayloads(a, b), "len": []int{len(orig), len(res.Resaved)}})
		}
		if sv.InFlight[i] > sv.InFlight[bestIdx] {
			bestIdx = i
		}
	}
	archive, _ := os.ReadFile(filepath.Join(dir, fmt.Sprintf("cut-%d.tar.gz", bestIdx)))
	inflight := sv.InFlight[bestIdx] > 0
	members, err := sim.ReadTarGz(archive)
	if err != nil {
		c.Failf("archive/unreadable-own-archive", "%v", err)
		return
	}
	note := func(fault string) {
		if inflight {
			c.Nontrivial(string(cfgJSON) + "|" + fault)
		}
	}

	// tryLoad builds cfg2 fresh and loads raw with buildID; reports (error text, panicked).
	tryLoad := func(cfg2 sim.StackCfg, raw []byte, buildID string) (errText string, panicked string) {
		path := filepath.Join(dir, "attempt.tar.gz")
		os.WriteFile(path, raw, 0o644)
		defer os.Remove(path)
		sim.ResetIDs()
		var s *sim.Stack
		func() {
			defer func() {
				if e := recover(); e != nil {
					panicked = fmt.Sprintf("build panic: %v", e)
				}
			}()
			s = sim.BuildStack(cfg2, dir)
		}()
		if s == nil {
			return "", panicked
		}
		defer s.Close()
		func() {
			defer func() {
				if e := recover(); e != nil {
					panicked = fmt.Sprintf("%v\n%s", e, firstLines(string(debug.Stack()), 30))
				}
			}()
			if err := s.Sim.LoadCheckpoint(path, buildID); err != nil {
				errText = err.Error()
			}
		}()
		return
	}
	judge := func(fault string, mustFail bool, errText, panicked string, extra any) {
		if panicked != "" {
			c.Fail("archive/panic:"+faultClass(fault), map[string]any{"fault": fault, "panic": panicked, "cfg": cfg, "detail": extra})
			return
		}
		if errText != "" {
			r.Count("loads_rejected_with_error", 1)
		} else {
			r.Count("loads_accepted", 1)
			if mustFail {
				c.Fail("archive/accepted:"+faultClass(fault), map[string]any{"fault": fault, "cfg": cfg, "detail": extra})
			}
		}
	}
	// sanity: the untouched archive loads
	if e, p := tryLoad(cfg, archive, "verif"); e != "" || p != "" {
		c.Fail("archive/load-error-on-own-archive", map[string]any{"err": e, "panic": p, "cfg": cfg})
		return
	}

	// (b) single-point mutations of the rebuilt configuration
	type mut struct {
		name string
		f    func(*sim.StackCfg) bool
	}
	muts := []mut{
		{"port-capacity", func(x *sim.StackCfg) bool { x.PortBuf = orDef(x.PortBuf, 4) + 1; return true }},
		{"port-capacity-smaller", func(x *sim.StackCfg) bool {
			if orDef(x.PortBuf, 4) < 2 {
				return false
			}
			x.PortBuf = orDef(x.PortBuf, 4) - 1
			return true
		}},
		{"driver-spec", func(x *sim.StackCfg) bool { x.Drivers[0].NumReqs++; return true }},
		{"driver-removed", func(x *sim.StackCfg) bool {
			if len(x.Drivers) < 2 {
				return false
			}
			x.Drivers = x.Drivers[:len(x.Drivers)-1]
			return true
		}},
		{"driver-added", func(x *sim.StackCfg) bool { d := x.Drivers[0]; d.AddrBase += 1 << 20; x.Drivers = append(x.Drivers, d); return true }},
		{"mem-spec", func(x *sim.StackCfg) bool {
			if x.Mem.Kind == "dram" {
				x.Mem.ClosePage = !x.Mem.ClosePage
			} else {
				x.Mem.Latency = orDef(x.Mem.Latency, 5) + 1
			}
			return true
		}},
		{"mem-count", func(x *sim.StackCfg) bool {
			if len(x.Levels) > 0 && x.Levels[len(x.Levels)-1].Kind == "rob" {
				return false
			}
			x.Mem.Count = orDef(x.Mem.Count, 1) + 1
			return true
		}},
		{"storage-capacity", func(x *sim.StackCfg) bool {
			if x.Mem.Kind == "dram" {
				return false
			}
			x.Mem.Capacity = 1 << 31
			return true
		}},
		{"conn-spec", func(x *sim.StackCfg) bool { x.ConnFreqMHz = orDef(x.ConnFreqMHz, 1000) + 500; return true }},
		{"conn-set", func(x *sim.StackCfg) bool {
			if len(x.Levels) == 0 {
				return false
			}
			x.PerLinkConn = !x.PerLinkConn
			return true
		}},
	}
	for li := range cfg.Levels {
		li := li
		muts = append(muts, mut{fmt.Sprintf("level%d-spec", li), func(x *sim.StackCfg) bool {
			l := &x.Levels[li]
			if l.Kind == "rob" {
				l.ROBSize = orDef(l.ROBSize, 8) + 1
			} else {
				l.Ways = orDef(l.Ways, 2) + 1
			}
			return true
		}})
		muts = append(muts, mut{fmt.Sprintf("level%d-removed", li), func(x *sim.StackCfg) bool {
			if li == len(x.Levels)-1 && orDef(x.Mem.Count, 1) > 1 && li > 0 && x.Levels[li-1].Kind == "rob" {
				return false
			}
			x.Levels = append(append([]sim.LevelCfg{}, x.Levels[:li]...), x.Levels[li+1:]...)
			if len(x.Levels) > 0 && x.Levels[len(x.Levels)-1].Kind == "rob" {
				x.Mem.Count = 1
			}
			return true
		}})
	}
	for _, m := range muts {
		var x sim.StackCfg
		json.Unmarshal(cfgJSON, &x)
		if !m.f(&x) {
			continue
		}
		r.Count("config_mutations_tried", 1)
		note("cfg:" + m.name)
		e, pn := tryLoad(x, archive, "verif")
		judge("cfg:"+m.name, true, e, pn, nil)
	}
	r.Count("config_mutations_tried", 1)
	note("cfg:build-id")
	e, pn := tryLoad(cfg, archive, "another-build")
	judge("cfg:build-id", true, e, pn, nil)

	// (c) archive surgery with definite faults
	names := make([]string, 0, len(members))
	for n := range members {
		names = append(names, n)
	}
	sort.Strings(names)
	clone := func() map[string][]byte {
		m := map[string][]byte{}
		for k, v := range members {
			m[k] = append([]byte(nil), v...)
		}
		return m
	}
	surgery := func(fault string, mustFail bool, edit func(m map[string][]byte) (any, bool)) {
		m := clone()
		detail, ok := edit(m)
		if !ok {
			return
		}
		if mustFail {
			r.Count("surgery_must_fail_tried", 1)
		} else {
			r.Count("surgery_free_tried", 1)
		}
		note(fault)
		e, pn := tryLoad(cfg, pack(m, nil), "verif")
		judge(fault, mustFail, e, pn, detail)
	}
	reHandler := regexp.MustCompile(`"HandlerID_":"([^"]+)"`)
	surgery("engine:unknown-handler", true, func(m map[string][]byte) (any, bool) {
		p := m["entities/Engine"]
		loc := reHandler.FindSubmatchIndex(p)
		if loc == nil {
			return nil, false
		}
		m["entities/Engine"] = []byte(string(p[:loc[2]]) + "NoSuchHandler" + string(p[loc[3]:]))
		return "first queued event retargeted to NoSuchHandler", true
	})
	reType := regexp.MustCompile(`"type":"([^"]+)"`)
	surgery("engine:unknown-event-type", true, func(m map[string][]byte) (any, bool) {
		p := m["entities/Engine"]
		loc := reType.FindSubmatchIndex(p)
		if loc == nil {
			return nil, false
		}
		m["entities/Engine"] = []byte(string(p[:loc[2]]) + "no.such/pkg.Event" + string(p[loc[3]:]))
		return "first queued event's type tag replaced", true
	})
	// a port with at least one buffered message
	portWithMsg := ""
	for _, n := range names {
		if strings.Contains(string(members[n]), `"incoming"`) && reType.Match(members[n]) {
			portWithMsg = n
			break
		}
	}
	if portWithMsg != "" {
		r.Count("archives_with_buffered_messages", 1)
		surgery("port:unknown-message-type", true, func(m map[string][]byte) (any, bool) {
			p := m[portWithMsg]
			loc := reType.FindSubmatchIndex(p)
			m[portWithMsg] = []byte(string(p[:loc[2]]) + "no.such/pkg.Msg" + string(p[loc[3]:]))
			return portWithMsg, true
		})
		surgery("port:more-elements-than-capacity", true, func(m map[string][]byte) (any, bool) {
			var pc map[string]struct {
				Capacity int               `json:"capacity"`
				Elements []json.RawMessage `json:"elements"`
			}
			if json.Unmarshal(m[portWithMsg], &pc) != nil {
				return nil, false
			}
			for side, bc := range pc {
				if len(bc.Elements) > 0 {
					for len(bc.Elements) <= bc.Capacity {
						bc.Elements = append(bc.Elements, bc.Elements[0])
					}
					pc[side] = bc
					d, _ := json.Marshal(pc)
					m[portWithMsg] = append(d, '\n')
					return fmt.Sprintf("%s %s: %d elements, capacity %d", portWithMsg, side, len(bc.Elements), bc.Capacity), true
				}
			}
			return nil, false
		})
	}
	rePortCap := regexp.MustCompile(`"capacity":(\d+)`)
	surgery("port:capacity-edited", true, func(m map[string][]byte) (any, bool) {
		for _, n := range names {
			if loc := rePortCap.FindSubmatchIndex(m[n]); loc != nil && strings.Contains(string(m[n]), `"incoming"`) {
				p := m[n]
				m[n] = []byte(string(p[:loc[2]]) + "97" + string(p[loc[3]:]))
				return n, true
			}
		}
		return nil, false
	})
	storageName := ""
	for _, n := range names {
		if strings.HasSuffix(n, "Storage") {
			storageName = n
		}
	}
	if storageName != "" {
		surgery("storage:capacity-header", true, func(m map[string][]byte) (any, bool) {
			binary.LittleEndian.PutUint64(m[storageName][0:], 12345)
			return storageName, true
		})
		surgery("storage:unit-size-header", true, func(m map[string][]byte) (any, bool) {
			binary.LittleEndian.PutUint64(m[storageName][8:], 64)
			return storageName, true
		})
		surgery("storage:huge-unit-count", true, func(m map[string][]byte) (any, bool) {
			binary.LittleEndian.PutUint64(m[storageName][16:], 1<<40)
			return storageName, true
		})
		surgery("storage:truncated", true, func(m map[string][]byte) (any, bool) {
			if len(m[storageName]) <= 24 {
				m[storageName] = m[storageName][:20]
			} else {
				m[storageName] = m[storageName][:len(m[storageName])-5]
			}
			return storageName, true
		})
	}
	surgery("component:spec-hash", true, func(m map[string][]byte) (any, bool) {
		for _, n := range names {
			if i := bytes.Index(m[n], []byte(`"spec_hash":"`)); i >= 0 {
				m[n][i+14] ^= 1
				return n, true
			}
		}
		return nil, false
	})
	surgery("idgen:kind", true, func(m map[string][]byte) (any, bool) {
		m["entities/IDGenerator"] = bytes.Replace(m["entities/IDGenerator"], []byte("sequential"), []byte("parallel"), 1)
		return nil, true
	})
	surgery("set:entity-removed", true, func(m map[string][]byte) (any, bool) {
		n := names[c.Rng.Intn(len(names))]
		if n == "build_id" {
			n = "entities/Engine"
		}
		delete(m, n)
		return n, true
	})
	surgery("set:entity-added", true, func(m map[string][]byte) (any, bool) {
		m["entities/Ghost"] = []byte("{}\n")
		return nil, true
	})
	surgery("set:build-id-missing", true, func(m map[string][]byte) (any, bool) { delete(m, "build_id"); return nil, true })
	surgery("set:build-id-edited", true, func(m map[string][]byte) (any, bool) { m["build_id"] = []byte("verif2"); return nil, true })
	surgery("set:non-entity-member", true, func(m map[string][]byte) (any, bool) { m["stray/file"] = []byte("x"); return nil, true })
	// duplicate member (needs raw packing)
	{
		r.Count("surgery_must_fail_tried", 1)
		note("set:duplicate-entity")
		e, pn := tryLoad(cfg, pack(clone(), []string{"entities/Engine"}), "verif")
		judge("set:duplicate-entity", true, e, pn, nil)
	}
	// truncation of each JSON payload: must fail
	for _, n := range names {
		if n == "build_id" || strings.HasSuffix(n, "Storage") || len(members[n]) < 8 {
			continue
		}
		n := n
		surgery("payload:truncated", true, func(m map[string][]byte) (any, bool) {
			cut := 1 + c.Rng.Intn(len(m[n])-3)
			m[n] = m[n][:cut]
			return fmt.Sprintf("%s cut to %d bytes", n, cut), true
		})
	}
	// PRNG type confusions: no verdict on acceptance, only on panics
	reNum := regexp.MustCompile(`:(\d+|true|false|null|\[\]|"[^"]*")`)
	for i := 0; i < p.Surgery; i++ {
		n := names[c.Rng.Intn(len(names))]
		if n == "build_id" || strings.HasSuffix(n, "Storage") {
			continue
		}
		surgery("payload:type-confusion", false, func(m map[string][]byte) (any, bool) {
			locs := reNum.FindAllSubmatchIndex(m[n], -1)
			if len(locs) == 0 {
				return nil, false
			}
			loc := locs[c.Rng.Intn(len(locs))]
			repl := []string{`"x"`, `-1`, `[1,2]`, `{"a":1}`, `null`, `99999999999999999999`, `1.5`, `[]`, `true`}[c.Rng.Intn(9)]
			p := m[n]
			m[n] = []byte(string(p[:loc[2]]) + repl + string(p[loc[3]:]))
			return fmt.Sprintf("%s: %q -> %s", n, p[loc[2]:loc[3]], repl), true
		})
	}
	// raw flips / truncations of the gzip stream
	for i := 0; i < p.Flips; i++ {
		raw := append([]byte(nil), archive...)
		var fault string
		switch c.Rng.Intn(3) {
		case 0:
			k := c.Rng.Intn(len(raw))
			raw[k] ^= byte(1 << c.Rng.Intn(8))
			fault = "raw:bitflip"
		case 1:
			raw = raw[:c.Rng.Intn(len(raw))]
			fault = "raw:truncate"
		default:
			for j := 0; j < 8; j++ {
				raw[c.Rng.Intn(len(raw))] = byte(c.Rng.Intn(256))
			}
			fault = "raw:garbage"
		}
		r.Count("flips_tried", 1)
		note(fmt.Sprintf("%s#%d", fault, i))
		e, pn := tryLoad(cfg, raw, "verif")
		judge(fault, false, e, pn, nil)
	}
	c.Sample(map[string]any{"cfg": cfg, "archive_bytes": len(archive), "entities": len(members), "inflight_at_cut": sv.InFlight[bestIdx]})
}

// vmCase: translation stacks — canonical re-save and the page-size / translation-component mismatches.
func vmCase(c *kit.Case, p params) {
	r := c.R
	cfg := sim.RandomVMCfg(c.Rng, p.NumReqs)
	c.Desc(cfg)
	cfgJSON, _ := json.Marshal(cfg)
	dir := filepath.Join(r.WorkDir, fmt.Sprintf("case%d", c.Index))
	os.MkdirAll(dir, 0o755)
	limit := uint64(p.NumReqs) * 200000 * 1000
	ref, err := sim.CallRole(sim.RoleReq{Role: "ref", Kind: "vm", Cfg: cfgJSON, Dir: dir, Limit: limit, KeepTrace: true})
	if err != nil || ref.Err != "" || !ref.Done {
		r.Count("reference_runs_not_clean(skipped)", 1)
		return
	}
	times := sim.DistinctTimes(&sim.EventTrace{Recs: ref.Trace})
	cut := uint64(times[len(times)/4+c.Rng.Intn(len(times)/2)])
	sv, err := sim.CallRole(sim.RoleReq{Role: "saves", Kind: "vm", Cfg: cfgJSON, Dir: dir, Limit: limit, Cuts: []uint64{cut}})
	if err != nil || sv.Err != "" {
		c.Fail("archive/save-error", map[string]any{"err": fmt.Sprint(err, sv.Err), "cfg": cfg})
		return
	}
	path := filepath.Join(dir, "cut-0.tar.gz")
	orig, _ := os.ReadFile(path)
	res, err := sim.CallRole(sim.RoleReq{Role: "resume", Kind: "vm", Cfg: cfgJSON, Dir: dir, Limit: limit, Path: path, Resave: true})
	if err != nil || res.Err != "" {
		c.Fail("archive/load-error-on-own-archive", map[string]any{"err": fmt.Sprint(err, res.Err), "cfg": cfg, "cut": cut})
		return
	}
	r.Count("resave_compared", 1)
	if !bytes.Equal(orig, res.Resaved) {
		a, _ := sim.ReadTarGz(orig)
		b, _ := sim.ReadTarGz(res.Resaved)
		c.Fail("archive/not-canonical", map[string]any{"cfg": cfg, "cut": cut, "entities_differ": sim.DiffPayloads(a, b)})
	}
	type mut struct {
		name string
		f    func(*sim.VMCfg) bool
	}
	muts := []mut{
		{"page-size", func(x *sim.VMCfg) bool {
			if x.PageLog2 == 12 {
				x.PageLog2 = 16
			} else {
				x.PageLog2 = 12
			}
			return true
		}},
		{"mmu-spec", func(x *sim.VMCfg) bool { x.MMULat = orDef(x.MMULat, 3) + 1; return true }},
		{"tlb-spec", func(x *sim.VMCfg) bool {
			if len(x.TLBs) == 0 {
				return false
			}
			x.TLBs[0].Ways = orDef(x.TLBs[0].Ways, 2) + 1
			return true
		}},
		{"tlb-removed", func(x *sim.VMCfg) bool {
			if len(x.TLBs) == 0 {
				return false
			}
			x.TLBs = x.TLBs[1:]
			return true
		}},
		{"mmucache-toggled", func(x *sim.VMCfg) bool { x.MMUCache = !x.MMUCache; return true }},
		{"gmmu-toggled", func(x *sim.VMCfg) bool { x.GMMU = !x.GMMU; return true }},
		{"at-spec", func(x *sim.VMCfg) bool { x.ATReqs = orDef(x.ATReqs, 2) + 1; return true }},
	}
	for _, m := range muts {
		var x sim.VMCfg
		json.Unmarshal(cfgJSON, &x)
		if !m.f(&x) {
			continue
		}
		r.Count("config_mutations_tried", 1)
		if m.name == "page-size" {
			r.Count("page_size_mismatches_tried", 1)
		}
		if sv.InFlight[0] > 0 {
			c.Nontrivial(string(cfgJSON) + "|cfg:" + m.name)
		}
		sim.ResetIDs()
		var errText, panicked string
		func() {
			defer func() {
				if e := recover(); e != nil {
					panicked = fmt.Sprintf("%v\n%s", e, firstLines(string(debug.Stack()), 30))
				}
			}()
			s := sim.BuildVMStack(x, dir)
			defer s.Close()
			if err := s.Sim.LoadCheckpoint(path, "verif"); err != nil {
				errText = err.Error()
			}
		}()
		switch {
		case panicked != "":
			c.Fail("archive/panic:cfg:"+m.name, map[string]any{"panic": panicked, "cfg": cfg})
		case errText == "":
			r.Count("loads_accepted", 1)
			c.Fail("archive/accepted:cfg:"+m.name, map[string]any{"cfg": cfg, "mutation": m.name})
		default:
			r.Count("loads_rejected_with_error", 1)
		}
	}
	c.Sample(map[string]any{"vm_cfg": cfg, "cut": cut, "inflight_at_cut": sv.InFlight[0]})
}

func orDef(v, d int) int {
	if v <= 0 {
		return d
	}
	return v
}

func faultClass(f string) string {
	if i := strings.IndexByte(f, '#'); i >= 0 {
		return f[:i]
	}
	return f
}

func firstLines(s string, n int) string {
	l := strings.Split(s, "\n")
	if len(l) > n {
		l = l[:n]
	}
	return strings.Join(l, "\n")
}

// pack writes a tar.gz like akita's writer does; dup lists members to write twice.
func pack(m map[string][]byte, dup []string) []byte {
	var buf bytes.Buffer
	gz := gzip.NewWriter(&buf)
	gz.ModTime = time.Unix(0, 0)
	tw := tar.NewWriter(gz)
	names := make([]string, 0, len(m))
	for n := range m {
		names = append(names, n)
	}
	sort.Strings(names)
	// build_id first, as the real writer does
	write := func(n string) {
		tw.WriteHeader(&tar.Header{Name: n, Mode: 0o600, Size: int64(len(m[n])), ModTime: time.Unix(0, 0)})
		tw.Write(m[n])
	}
	if _, ok := m["build_id"]; ok {
		write("build_id")
	}
	for _, n := range names {
		if n != "build_id" {
			write(n)
		}
	}
	for _, n := range dup {
		write(n)
	}
	tw.Close()
	gz.Close()
	return buf.Bytes()
}
