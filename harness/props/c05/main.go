// C05 Pause is a quiescent point (both engines).
//
// A handler program runs on a real engine in one goroutine while a pauser
// goroutine calls Pause / Continue at PRNG-chosen moments. Handlers maintain
// atomic counters (in-handler, started, finished); while it holds the pause the
// pauser samples them repeatedly: none may be in a handler, none may start.
// The pauser also reads, with a plain load, a word every handler updates
// atomically, so the race detector reports a Pause that returns without a
// happens-before edge from the handlers before it (or a Continue without one to
// the handlers after it). After the last Continue every event of the program
// must have been handled exactly once.
package main

import (
	"fmt"
	"math/rand"
	"runtime"
	"strings"
	"sync"
	"sync/atomic"
	"time"

	"verifharness/kit"

	"github.com/sarchlab/akita/v5/hooking"
	"github.com/sarchlab/akita/v5/timing"
)

type params struct {
	Engine string `json:"engine"` // serial | parallel
	Budget int    `json:"budget"`
	Procs  int    `json:"procs"`
}

func main() {
	kit.Main(kit.Prop{
		ID:    "C05",
		Level: "exploration",
		Rule: "each case is a PRNG-drawn thread-safe handler program (6 flavours, handlers spin/yield an event-determined amount) run on a SerialEngine (Run or RunUntil) or ParallelEngine " +
			"under GOMAXPROCS 1/2/4/16, with engine hooks in half of the runs, while one pauser goroutine performs Pause / sample x N / Continue cycles separated by PRNG-chosen spins and yields " +
			"(also one cycle held across the start of Run and cycles after Run returned); a case is non-trivial when it handled >= 20 events, at least one Pause was requested while a handler was " +
			"running and at least one Continue was followed by further handling; distinct by (engine, program seed, sequence of started-counts seen at the pauses)",
		Assumptions: []string{
			"one pauser; Pause and Continue strictly alternate (ParallelEngine.Pause is a mutex Lock, a second Pause without Continue would deadlock by construction)",
			"handlers never call Pause on their own engine",
			"'no handler is executing' is judged on counters the handlers maintain at the first and last statement of Handle; engine hook invocations around Handle are not counted as handler execution",
			"a Run that never returns after the last Continue is caught by the watchdog only (reported inconclusive, never as held)",
		},
		Plan:        plan,
		Run:         run,
		MustObserve: []string{"pauses", "pauses_requested_while_a_handler_was_running", "pauses_while_run_active", "pauses_held_across_run_start", "pauses_after_run_returned", "continues_followed_by_more_handling", "samples_taken_under_pause", "events_handled", "second_concurrent_pause_requests_checked", "second_concurrent_pause_requests_while_a_handler_was_running"},
		RaceKey:     raceKey,
		BatchTimeout: func(tier string) time.Duration {
			if tier == "thorough" {
				return 40 * time.Minute
			}
			return 6 * time.Minute
		},
	})
}

func plan(tier string, seed int64) []kit.Batch {
	n, budget := 24, 300
	reps := 1
	if tier == "thorough" {
		n, budget, reps = 250, 1500, 3
	}
	var bs []kit.Batch
	for rep := 0; rep < reps; rep++ {
		for _, eng := range []string{"serial", "parallel"} {
			for _, procs := range []int{1, 2, 4, 16} {
				for k := 0; k < 2; k++ {
					bs = append(bs, kit.Batch{
						Name: fmt.Sprintf("%s-p%d-%d-%d", eng, procs, k, rep), Seed: seed*100003 + int64(len(bs)), N: n,
						Params: kit.MkParams(params{Engine: eng, Budget: budget, Procs: procs}),
						Env:    []string{fmt.Sprintf("GOMAXPROCS=%d", procs)},
					})
				}
			}
		}
	}
	return bs
}

// ---------------------------------------------------------------- race reports

// raceFrames returns, for each of the two access stacks of a race report, the
// function names from the innermost frame outwards (full names, pointer
// receivers kept).
func raceFrames(rep string) [][]string {
	var out [][]string
	for _, blk := range strings.Split(rep, "\n\n") {
		lines := strings.Split(blk, "\n")
		head := -1
		for i, l := range lines {
			if strings.Contains(l, " by goroutine ") || strings.Contains(l, " by main goroutine") {
				head = i
				break
			}
		}
		if head < 0 {
			continue
		}
		var fr []string
		for _, l := range lines[head+1:] {
			if strings.HasPrefix(l, "  ") && !strings.HasPrefix(l, "   ") {
				f := strings.TrimSpace(l)
				f = strings.TrimSuffix(f, "()")
				fr = append(fr, f)
			}
		}
		out = append(out, fr)
		if len(out) == 2 {
			break
		}
	}
	return out
}

const akitaPrefix = "github.com/sarchlab/akita/v5/"

func short(f string) string { // timing.(*SerialEngine).Pause
	if i := strings.LastIndex(f, "/"); i >= 0 {
		return f[i+1:]
	}
	return f
}

// firstOwn returns the innermost frame that is not the Go runtime / standard
// library: either code under test or the harness.
func firstOwn(fr []string) string {
	for _, f := range fr {
		if strings.HasPrefix(f, akitaPrefix) || strings.HasPrefix(f, "main.") || strings.HasPrefix(f, "verifharness/") {
			return f
		}
	}
	return ""
}

func has(fr []string, sub string) bool {
	for _, f := range fr {
		if strings.Contains(f, sub) {
			return true
		}
	}
	return false
}

func raceKey(rep string) (string, bool) {
	st := raceFrames(rep)
	for len(st) < 2 {
		st = append(st, nil)
	}
	a, b := firstOwn(st[0]), firstOwn(st[1])
	// (1) the inspection the pauser performs while it holds the pause raced
	// with a handler: Pause/Continue gave no happens-before edge.
	// (runner.state is written by handlers only, so the other side is a handler
	// whatever frames the race runtime managed to restore for it.)
	if has(st[0], "inspectUnderPause") || has(st[1], "inspectUnderPause") {
		eng := "unknown"
		switch {
		case has(st[0], "timing.(*SerialEngine)") || has(st[1], "timing.(*SerialEngine)"):
			eng = "serial"
		case has(st[0], "timing.(*ParallelEngine)") || has(st[1], "timing.(*ParallelEngine)"):
			eng = "parallel"
		}
		return "race:c05/" + eng + "/inspection-under-pause-races-with-handler", true
	}
	// (2) a data race whose innermost non-library frame is in package timing.
	inTiming := strings.HasPrefix(a, akitaPrefix+"timing.") || strings.HasPrefix(b, akitaPrefix+"timing.")
	if !inTiming {
		return "", false
	}
	x, y := short(a), short(b)
	if x == "" {
		x = "?"
	}
	if y == "" {
		y = "?"
	}
	if x > y {
		x, y = y, x
	}
	return "race:c05/timing/" + x + "|" + y, true
}

// ---------------------------------------------------------------- the run

type engine interface {
	timing.Engine
	RegisterHandler(name string, h timing.Handler)
}

type runner struct {
	p   *program
	eng engine

	inHandler atomic.Int64
	started   atomic.Int64
	finished  atomic.Int64
	hookBal   atomic.Int64 // BeforeEvent minus AfterEvent firings
	hookFired atomic.Int64

	// state is updated atomically by every handler and read with a plain load
	// by the pauser while it holds the pause.
	state int64

	mu      sync.Mutex
	handled map[uint64]int
}

func (r *runner) Handle(e timing.Event) error {
	r.inHandler.Add(1)
	r.started.Add(1)
	u := e.(ev)
	r.p.work(u)
	for _, c := range r.p.children(u) {
		r.eng.Schedule(c)
	}
	r.mu.Lock()
	r.handled[u.uid]++
	r.mu.Unlock()
	atomic.AddInt64(&r.state, int64(u.uid&0xff)+1)
	r.finished.Add(1)
	r.inHandler.Add(-1)
	return nil
}

func (r *runner) Func(ctx hooking.HookCtx) {
	switch ctx.Pos {
	case timing.HookPosBeforeEvent:
		r.hookBal.Add(1)
		r.hookFired.Add(1)
	case timing.HookPosAfterEvent:
		r.hookBal.Add(-1)
	}
}

// inspectUnderPause is what an inspector does once Pause has returned: it
// reads simulation state without further synchronisation. (The name is matched
// by raceKey.)
//
//go:noinline
func (r *runner) inspectUnderPause() int64 { return r.state }

func spin(n int) {
	x := uint64(n)
	for i := 0; i < n; i++ {
		x = x*6364136223846793005 + 1442695040888963407
	}
	if x == 42 {
		sink++
	}
}

type pauseObs struct {
	when       string // before-run | running | after-run
	midHandler bool   // a handler was running right before Pause was called
	startedAt  int64
}

func run(b kit.Batch, r *kit.R) {
	var prm params
	b.P(&prm)
	r.ForEach(b.N, func(c *kit.Case) {
		rng := c.Rng
		p := genProgram(rng, prm.Budget/2+rng.Intn(prm.Budget/2+1))
		mode := "Run"
		if prm.Engine == "serial" && rng.Intn(3) == 0 {
			mode = "RunUntil"
		}
		hooked := rng.Intn(2) == 0
		nSamples := 2 + rng.Intn(6)
		gapMax := []int{0, 200, 2000, 20000}[rng.Intn(4)]
		holdStart := rng.Intn(3) == 0
		c.Desc(map[string]any{"engine": prm.Engine, "mode": mode, "gomaxprocs": runtime.GOMAXPROCS(0), "hooks": hooked,
			"samples_per_pause": nSamples, "gap_spin_max": gapMax, "pause_held_across_run_start": holdStart, "program": p})

		rr := &runner{p: p, handled: map[uint64]int{}}
		var ser *timing.SerialEngine
		if prm.Engine == "serial" {
			ser = timing.NewSerialEngine()
			rr.eng = ser
		} else {
			rr.eng = timing.NewParallelEngine()
		}
		for i := 0; i < p.H; i++ {
			rr.eng.RegisterHandler(hnames[i], rr)
		}
		if hooked {
			rr.eng.AcceptHook(rr)
		}
		for i := range p.Roots {
			rr.eng.Schedule(p.rootEvent(i))
		}
		total := int64(p.totalEvents())

		fails := map[string]string{}
		fail := func(key, format string, a ...any) {
			if _, dup := fails[key]; !dup {
				fails[key] = fmt.Sprintf(format, a...)
			}
		}
		var obs []pauseObs
		var runCalled, runReturned atomic.Bool
		var runErr error
		done := make(chan struct{})
		startRun := func() {
			go func() {
				runCalled.Store(true)
				if mode == "RunUntil" {
					runErr = ser.RunUntil(^timing.VTimeInPicoSec(0))
				} else {
					runErr = rr.eng.Run()
				}
				runReturned.Store(true)
				close(done)
			}()
		}

		// one Pause / sample / Continue cycle; the verdict is the logical sample.
		cycle := func(when string, pre func()) {
			mid := rr.inHandler.Load() > 0
			// serial engine (Pause is a flag there; the parallel engine's Pause is a lock a second caller would
			// block on until the first Continue): in a third of the cycles a second goroutine requests a pause
			// at the same moment. Nobody calls Continue before both have sampled, so no handler may be
			// executing when either call returns.
			var second chan struct{}
			var in2, s2 int64
			if prm.Engine == "serial" && rng.Intn(3) == 0 {
				second = make(chan struct{})
				ready := make(chan struct{})
				go func() {
					close(ready)
					rr.eng.Pause()
					in2, s2 = rr.inHandler.Load(), rr.started.Load()
					close(second)
				}()
				<-ready
				if rng.Intn(2) == 0 {
					runtime.Gosched()
				}
			}
			rr.eng.Pause()
			in0, s0 := rr.inHandler.Load(), rr.started.Load()
			if in0 != 0 {
				fail("c05/"+prm.Engine+"/handler-running-when-pause-returned",
					"%s engine (%s, GOMAXPROCS=%d): right after Pause() returned %d handler(s) were still executing (started=%d finished=%d of %d events)",
					prm.Engine, mode, runtime.GOMAXPROCS(0), in0, s0, rr.finished.Load(), total)
			}
			if pre != nil {
				pre()
			}
			_ = rr.inspectUnderPause()
			for k := 0; k < nSamples; k++ {
				runtime.Gosched()
				spin(rng.Intn(300))
				in, s := rr.inHandler.Load(), rr.started.Load()
				r.Count("samples_taken_under_pause", 1)
				if s != s0 {
					fail("c05/"+prm.Engine+"/handler-started-while-paused",
						"%s engine (%s, GOMAXPROCS=%d): %d handler(s) started between Pause() returning and Continue() (started %d -> %d, in-handler now %d; pause %s)",
						prm.Engine, mode, runtime.GOMAXPROCS(0), s-s0, s0, s, in, when)
					break
				}
				if in0 == 0 && in != 0 {
					fail("c05/"+prm.Engine+"/handler-started-while-paused", "%s engine: in-handler count became %d under the pause", prm.Engine, in)
					break
				}
			}
			_ = rr.inspectUnderPause()
			obs = append(obs, pauseObs{when: when, midHandler: mid, startedAt: s0})
			if second != nil {
				<-second
				r.Count("second_concurrent_pause_requests_checked", 1)
				if mid {
					r.Count("second_concurrent_pause_requests_while_a_handler_was_running", 1)
				}
				if in2 != 0 {
					fail("c05/serial/handler-running-when-second-pause-returned",
						"serial engine (%s, GOMAXPROCS=%d): a second, concurrent Pause() returned while %d handler(s) were still executing (started=%d; pause %s)",
						mode, runtime.GOMAXPROCS(0), in2, s2, when)
				} else if now := rr.started.Load(); s2 != now {
					fail("c05/serial/handler-started-while-paused",
						"serial engine: %d handler(s) started after a second, concurrent Pause() had returned and before any Continue() (started %d -> %d)", now-s2, s2, now)
				}
			}
			rr.eng.Continue()
		}

		if holdStart {
			// Pause first, start Run under the pause: nothing may start.
			cycle("before-run", func() {
				startRun()
				for i := 0; i < 50 && !runCalled.Load(); i++ {
					runtime.Gosched()
				}
			})
			r.Count("pauses_held_across_run_start", 1)
		} else {
			startRun()
		}
		maxPauses := 40 + rng.Intn(40)
		for n := 0; n < maxPauses && !runReturned.Load(); n++ {
			if gapMax > 0 {
				spin(rng.Intn(gapMax))
			}
			for y := rng.Intn(4); y > 0; y-- {
				runtime.Gosched()
			}
			when := "running"
			if !runCalled.Load() {
				when = "before-run"
			}
			cycle(when, nil)
		}
		<-done
		for n := 1 + rng.Intn(2); n > 0; n-- {
			cycle("after-run", nil)
		}

		// the run proceeded and handled every event exactly once
		if runErr != nil {
			fail("c05/"+prm.Engine+"/run-error", "%s returned %v", mode, runErr)
		}
		rr.mu.Lock()
		nHandled := len(rr.handled)
		for uid, n := range rr.handled {
			if n != 1 {
				fail("c05/"+prm.Engine+"/event-handled-more-than-once", "event %x handled %d times", uid, n)
			}
		}
		rr.mu.Unlock()
		if int64(nHandled) != total || rr.finished.Load() != total {
			fail("c05/"+prm.Engine+"/event-lost-across-pause", "%s returned after the last Continue with %d of %d events handled (%d handler completions)",
				mode, nHandled, total, rr.finished.Load())
		}
		if hooked && rr.hookBal.Load() != 0 {
			fail("c05/"+prm.Engine+"/hook-imbalance", "BeforeEvent minus AfterEvent firings = %d at the end", rr.hookBal.Load())
		}
		for k, m := range fails {
			c.Failf(k, "%s", m)
		}

		// observations
		var nMid, nRun, nAfter, nProgress int
		var seq strings.Builder
		for i, o := range obs {
			if o.midHandler {
				nMid++
			}
			switch o.when {
			case "running":
				nRun++
			case "after-run":
				nAfter++
			}
			if i+1 < len(obs) && obs[i+1].startedAt > o.startedAt {
				nProgress++
			}
			fmt.Fprintf(&seq, "%d,", o.startedAt)
		}
		if n := len(obs); n > 0 && rr.started.Load() > obs[n-1].startedAt {
			nProgress++
		}
		r.Count("pauses", int64(len(obs)))
		r.Count("pauses_"+prm.Engine, int64(len(obs)))
		r.Count("pauses_requested_while_a_handler_was_running", int64(nMid))
		r.Count("pauses_requested_while_a_handler_was_running_"+prm.Engine, int64(nMid))
		r.Count("pauses_while_run_active", int64(nRun))
		r.Count("pauses_after_run_returned", int64(nAfter))
		r.Count("continues_followed_by_more_handling", int64(nProgress))
		r.Count("events_handled", int64(nHandled))
		r.Count("hook_firings", rr.hookFired.Load())
		r.Count("runs_"+prm.Engine+"_"+mode, 1)
		r.Max("max_pauses_in_one_run", int64(len(obs)))
		r.Distinct("pause_positions(engine,program,started-count)", fmt.Sprintf("%s/%x/%s", prm.Engine, p.Seed, seq.String()))
		if nHandled >= 20 && nMid > 0 && nProgress > 0 {
			c.Nontrivial(fmt.Sprintf("%s/%x/%s", prm.Engine, p.Seed, seq.String()))
			c.Sample(map[string]any{"engine": prm.Engine, "mode": mode, "gomaxprocs": runtime.GOMAXPROCS(0), "program": p, "events": total,
				"pauses": len(obs), "pauses_requested_mid_handler": nMid, "started_count_at_each_pause": strings.TrimSuffix(seq.String(), ",")})
		}
	})
}

var _ = rand.Int
