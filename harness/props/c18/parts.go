package main

import (
	"math/rand"

	"github.com/sarchlab/akita/v5/mem/memcontrolprotocol"
	"github.com/sarchlab/akita/v5/mem/vm"
	"github.com/sarchlab/akita/v5/mem/vm/vmprotocol"
	"github.com/sarchlab/akita/v5/messaging"
	"github.com/sarchlab/akita/v5/modeling"
	"github.com/sarchlab/akita/v5/timing"
)

type noSpec struct {
	Freq timing.Freq `json:"freq"`
}
type noState struct {
	N int `json:"n"`
}

type tickFn func() bool

func (f tickFn) Tick() bool { return f() }

type part = modeling.Component[noSpec, noState, modeling.None]

// newPart builds a ticking component with the given ports and tick function.
func newPart(reg modeling.Registrar, name string, freq timing.Freq, buf int, tick func() bool, ports ...string) *part {
	c := modeling.NewBuilder[noSpec, noState, modeling.None]().
		WithEngine(reg.GetEngine()).WithFreq(freq).WithSpec(noSpec{Freq: freq}).Build(name)
	c.AddMiddleware(tickFn(tick))
	for _, p := range ports {
		c.DeclarePort(p)
		c.AssignPort(p, modeling.MakePortBuilder().WithRegistrar(reg).WithComponent(c).
			WithSpec(modeling.PortSpec{BufSize: buf}).Build(p))
	}
	return c
}

func assignPorts(reg modeling.Registrar, comp messaging.Component, buf int, names ...string) {
	for _, n := range names {
		comp.AssignPort(n, modeling.MakePortBuilder().WithRegistrar(reg).WithComponent(comp).
			WithSpec(modeling.PortSpec{BufSize: buf}).Build(n))
	}
}

// ---- data requester ----

// genFn builds request number seq with the given metadata; what describes it,
// key (optional) is the alias key "pid/vaddr" of a translation request.
type genFn func(rng *rand.Rand, meta messaging.MsgMeta, seq int) (msg messaging.Msg, what, key string)

type requester struct {
	*part
	mon         *monitor
	rng         *rand.Rand
	dst         messaging.RemotePort
	gen         genFn
	maxInflight int
	maxGap      int
	burst       int
	stop        bool
	cool        int
	seq         int
	received    int
}

func newRequester(reg modeling.Registrar, mon *monitor, rng *rand.Rand, buf int, gen genFn) *requester {
	q := &requester{mon: mon, rng: rng, gen: gen, maxInflight: 1 + rng.Intn(12), maxGap: []int{0, 2, 6, 20}[rng.Intn(4)], burst: 1 + rng.Intn(3)}
	q.part = newPart(reg, "Req", 1*timing.GHz, buf, q.tick, "Mem")
	mon.reqPort = q.GetPortByName("Mem").AsRemote()
	return q
}

func (q *requester) tick() bool {
	port := q.GetPortByName("Mem")
	progress := false
	for port.RetrieveIncoming() != nil {
		q.received++
		progress = true
	}
	if q.stop {
		return progress
	}
	if q.cool > 0 {
		q.cool--
		return true
	}
	for i := 0; i < q.burst; i++ {
		if q.mon.live >= q.maxInflight || !port.CanSend() {
			break
		}
		meta := messaging.MsgMeta{ID: timing.GetIDGenerator().Generate(), Src: port.AsRemote(), Dst: q.dst}
		msg, what, key := q.gen(q.rng, meta, q.seq)
		port.Send(msg)
		q.mon.noteReqSent(msg, q.seq, what, key)
		q.seq++
	}
	if q.maxGap > 0 {
		q.cool = q.rng.Intn(q.maxGap + 1)
	}
	return true
}

// ---- control driver ----

type step struct {
	Cmd   int      `json:"cmd"`
	Addrs []uint64 `json:"addrs,omitempty"`
	PID   uint32   `json:"pid,omitempty"`
	Wait  bool     `json:"wait"` // wait for every acknowledgement before the next step
	Gap   int      `json:"gap"`  // cycles to wait before sending
}

type ctrlDriver struct {
	*part
	mon      *monitor
	req      *requester
	dst      messaging.RemotePort
	steps    []step
	i        int
	gapLeft  int
	sent     int
	acks     int
	waiting  bool
	waited   int
	tail     int
	done     bool
	timedOut bool
}

const ackTimeout = 60000 // cycles

func newCtrlDriver(reg modeling.Registrar, mon *monitor, req *requester, steps []step, tail, buf int) *ctrlDriver {
	d := &ctrlDriver{mon: mon, req: req, steps: steps, tail: tail}
	d.part = newPart(reg, "Ctl", 1*timing.GHz, buf, d.tick, "Ctrl")
	if len(steps) > 0 {
		d.gapLeft = steps[0].Gap
	}
	return d
}

func (d *ctrlDriver) tick() bool {
	port := d.GetPortByName("Ctrl")
	progress := false
	for {
		m := port.RetrieveIncoming()
		if m == nil {
			break
		}
		if _, ok := m.(memcontrolprotocol.Rsp); ok {
			d.acks++
		}
		progress = true
	}
	if d.done {
		return progress
	}
	if d.waiting {
		if d.acks < d.sent {
			d.waited++
			if d.waited > ackTimeout {
				d.timedOut, d.done, d.req.stop = true, true, true
			}
			return true
		}
		d.waiting = false
		d.waited = 0
	}
	if d.i >= len(d.steps) {
		if d.tail > 0 {
			d.tail--
			return true
		}
		d.done, d.req.stop = true, true
		return true
	}
	if d.gapLeft > 0 {
		d.gapLeft--
		return true
	}
	if !port.CanSend() {
		d.waited++
		if d.waited > ackTimeout {
			d.timedOut, d.done, d.req.stop = true, true, true
		}
		return true
	}
	st := d.steps[d.i]
	req := memcontrolprotocol.Req{Command: memcontrolprotocol.Command(st.Cmd), Addresses: st.Addrs, PID: vm.PID(st.PID)}
	req.ID = timing.GetIDGenerator().Generate()
	req.Src = port.AsRemote()
	req.Dst = d.dst
	req.TrafficClass = "memcontrolprotocol.Req"
	port.Send(req)
	d.mon.noteCtrlSent(req)
	d.sent++
	d.waiting = st.Wait
	d.waited = 0
	d.i++
	if d.i < len(d.steps) {
		d.gapLeft = d.steps[d.i].Gap
	}
	return true
}

// ---- stub translation provider (variable latency, out of order) ----

type transStub struct {
	*part
	rng      *rand.Rand
	maxLat   int
	log2Page uint64
	cycle    int
	pending  []pendingRsp
	served   int
	// devOf decides the DeviceID of the page (nil: echo the request's)
}

type pendingRsp struct {
	due int
	rsp vmprotocol.TranslationRsp
}

func physPage(pid vm.PID, vpn uint64) uint64 { return (vpn*7 + uint64(pid)*13) % (1 << 16) }

func newTransStub(reg modeling.Registrar, name string, rng *rand.Rand, log2Page uint64, buf int) *transStub {
	s := &transStub{rng: rng, maxLat: []int{1, 5, 30, 120}[rng.Intn(4)], log2Page: log2Page}
	s.part = newPart(reg, name, 1*timing.GHz, buf, s.tick, "Top")
	return s
}

func (s *transStub) tick() bool {
	port := s.GetPortByName("Top")
	progress := false
	s.cycle++
	for i := 0; i < 4; i++ {
		m := port.RetrieveIncoming()
		if m == nil {
			break
		}
		progress = true
		req, ok := m.(vmprotocol.TranslationReq)
		if !ok {
			continue
		}
		vpn := req.VAddr >> s.log2Page
		rsp := vmprotocol.TranslationRsp{Page: vm.Page{PID: req.PID, VAddr: vpn << s.log2Page, PAddr: physPage(req.PID, vpn) << s.log2Page,
			PageSize: 1 << s.log2Page, Valid: true, DeviceID: req.DeviceID, Unified: true}}
		rsp.ID = timing.GetIDGenerator().Generate()
		rsp.Src = port.AsRemote()
		rsp.Dst = req.Src
		rsp.RspTo = req.ID
		rsp.TrafficClass = "vmprotocol.TranslationRsp"
		s.pending = append(s.pending, pendingRsp{due: s.cycle + 1 + s.rng.Intn(s.maxLat), rsp: rsp})
	}
	rest := s.pending[:0]
	for _, p := range s.pending {
		if p.due <= s.cycle && port.CanSend() {
			port.Send(p.rsp)
			s.served++
			progress = true
		} else {
			rest = append(rest, p)
		}
	}
	s.pending = rest
	return progress || len(s.pending) > 0
}
