package main

import (
	"fmt"

	"github.com/sarchlab/akita/v5/hooking"
	"github.com/sarchlab/akita/v5/mem/datamoverprotocol"
	"github.com/sarchlab/akita/v5/mem/memcontrolprotocol"
	"github.com/sarchlab/akita/v5/mem/memprotocol"
	"github.com/sarchlab/akita/v5/mem/vm/vmprotocol"
	"github.com/sarchlab/akita/v5/messaging"
	"github.com/sarchlab/akita/v5/timing"
)

// ---- what mem/CONTROL_PROTOCOL.md says (transcribed from the document) ----

// Error strings, section "Per-component behavior":
//   "Unsupported verbs reply `Success: false, Error: "unsupported"`."
//   "Invalidate and Flush issued while running reply `Success: false,
//    Error: "must be paused or drained"`."
const (
	docErrUnsupported = "unsupported"
	docErrMustBePaused = "must be paused or drained"
)

// Support of the two conditional verbs, section "Support matrix (final state)".
// The four universal verbs are "✓" in every row.
const (
	supNo   = 0 // "—"  unsupported
	supNoop = 1 // "no-op" supported (verb succeeds) but does no work
	supYes  = 2 // "✓"
)

type docRow struct{ Invalidate, Flush int }

var docMatrix = map[string]docRow{
	"cache/writeback":         {supYes, supYes},
	"cache/writethroughcache": {supYes, supNoop},
	"vm/tlb":                  {supYes, supNo},
	"vm/mmuCache":             {supYes, supNo},
	"vm/mmu":                  {supNo, supNo},
	"vm/gmmu":                 {supNo, supNo},
	"vm/addresstranslator":    {supNo, supNo},
	"rob":                     {supNo, supNo},
	"idealmemcontroller":      {supNo, supNo},
	"dram":                    {supNo, supNo},
	"simplebankedmemory":      {supNo, supNo},
	"datamover":               {supNo, supNo},
}

var verbName = map[memcontrolprotocol.Command]string{
	memcontrolprotocol.CmdPause: "Pause", memcontrolprotocol.CmdDrain: "Drain", memcontrolprotocol.CmdEnable: "Enable",
	memcontrolprotocol.CmdReset: "Reset", memcontrolprotocol.CmdInvalidate: "Invalidate", memcontrolprotocol.CmdFlush: "Flush",
}

// model states reconstructed from the ack stream
const (
	stEnabled = iota
	stPaused  // after a Pause ack
	stDrained // after a Drain ack (paused and quiescent)
)

var stName = []string{"enabled", "paused", "drained"}

// ---- monitor ----

type dreq struct {
	id          uint64
	seq         int
	what        string
	sentAt      timing.VTimeInPicoSec
	retrieved   bool // the agent took it from its Top port
	answered    bool
	cancelled   bool // outstanding at a Reset: a response is no longer required
	forbidden   bool // ... and was already retrieved by the agent: a response is a violation
	sentInPause bool // issued while the agent was (by the model) paused
	retrInPause bool
}

type creq struct {
	id        uint64
	cmd       memcontrolprotocol.Command
	src       messaging.RemotePort
	taken     bool
	acked     bool
	pipelined bool // sent while an earlier command was still unacknowledged
	stateAt   int  // model state when it was handled
}

type viol struct {
	key   string
	msg   string
	trail []string // the events leading up to it
}

type monitor struct {
	agent string // row name of the document's matrix
	row   docRow
	now   func() timing.VTimeInPicoSec
	reqPort messaging.RemotePort // the data requester's port (expected Dst of data responses)

	reqs   map[uint64]*dreq
	order  []*dreq
	byKey  map[string]*dreq // translation requests by "pid/vaddr" (unique vaddrs) for alias resolution
	alias  map[uint64]*dreq // forwarded-request id / lower-response id -> top request (mmuCache, gmmu)
	useAlias bool

	ctrl     []*creq
	nextTake int
	nextAck  int

	st       int
	window   bool // "no data response" window open
	resetCut int  // index of a Reset whose second control event is still to come, or -1

	live int // requests that still must be answered

	viols    []viol
	trail    []string
	counters map[string]int64
	pairs    map[string]bool
}

func newMonitor(agent string, now func() timing.VTimeInPicoSec) *monitor {
	row, ok := docMatrix[agent]
	if !ok {
		panic("no matrix row for " + agent)
	}
	return &monitor{agent: agent, row: row, now: now, reqs: map[uint64]*dreq{}, byKey: map[string]*dreq{}, alias: map[uint64]*dreq{},
		resetCut: -1, counters: map[string]int64{}, pairs: map[string]bool{}}
}

func (m *monitor) count(name string) { m.counters[name]++ }

func (m *monitor) note(s string) {
	s = fmt.Sprintf("t=%d %s", m.now(), s)
	m.trail = append(m.trail, s)
	if len(m.trail) > 40 {
		m.trail = m.trail[len(m.trail)-40:]
	}
}

func (m *monitor) fail(key, format string, a ...any) {
	if len(m.viols) < 6 {
		m.viols = append(m.viols, viol{key: key, msg: fmt.Sprintf("t=%d ", m.now()) + fmt.Sprintf(format, a...), trail: append([]string(nil), m.trail...)})
	}
}

// called by the data requester right after it sent a request
func (m *monitor) noteReqSent(msg messaging.Msg, seq int, what, key string) {
	d := &dreq{id: msg.Meta().ID, seq: seq, what: what, sentAt: m.now(), sentInPause: m.st != stEnabled}
	m.reqs[d.id] = d
	m.order = append(m.order, d)
	if key != "" {
		m.byKey[key] = d
	}
	m.live++
	m.count("data_requests_sent")
	if d.sentInPause {
		m.count("data_requests_sent_while_paused")
	}
}

// called by the control driver right after it sent a command
func (m *monitor) noteCtrlSent(req memcontrolprotocol.Req) {
	c := &creq{id: req.ID, cmd: req.Command, src: req.Src, pipelined: m.nextAck < len(m.ctrl)}
	m.ctrl = append(m.ctrl, c)
	if c.pipelined {
		m.count("commands_sent_before_previous_ack(pipelined)")
	}
	if len(req.Addresses) > 0 || req.PID != 0 {
		m.count("commands_with_filter")
	}
}

func (m *monitor) owed() []*dreq {
	var out []*dreq
	for _, d := range m.order {
		if d.retrieved && !d.answered && !d.cancelled {
			out = append(out, d)
		}
	}
	return out
}

func describe(ds []*dreq) string {
	s := ""
	for i, d := range ds {
		if i == 6 {
			s += fmt.Sprintf(" …(%d in all)", len(ds))
			break
		}
		s += fmt.Sprintf(" [#%d id=%d %s sent@%d]", d.seq, d.id, d.what, d.sentAt)
	}
	return s
}

// closesWindow: the verbs after whose retrieval in-flight work may move again.
// Flush only where the matrix says "✓" (write-back): the document leaves open
// what a Flush after a bare Pause does with frozen in-flight work.
func (m *monitor) closesWindow(cmd memcontrolprotocol.Command) bool {
	switch cmd {
	case memcontrolprotocol.CmdEnable, memcontrolprotocol.CmdDrain, memcontrolprotocol.CmdReset:
		return true
	case memcontrolprotocol.CmdFlush:
		return m.row.Flush == supYes
	}
	return false
}

func (m *monitor) doResetCut() {
	n, nf := 0, 0
	for _, d := range m.order {
		if d.answered || d.cancelled {
			continue
		}
		d.cancelled = true
		m.live--
		n++
		if d.retrieved {
			d.forbidden = true
			nf++
		}
	}
	m.resetCut = -1
	if n > 0 {
		m.count("resets_with_requests_outstanding")
	}
	if nf > 0 {
		m.count("resets_with_work_inside_the_agent")
	}
	m.counters["requests_cancelled_by_reset"] += int64(n)
	m.note(fmt.Sprintf("RESET CUT: %d outstanding requests cancelled (%d already inside the agent)", n, nf))
}

func (m *monitor) onCtrlRetrieve(msg messaging.Msg) {
	req, ok := msg.(memcontrolprotocol.Req)
	if !ok {
		return
	}
	m.note(fmt.Sprintf("ctrl TAKE %s id=%d (model state %s)", verbName[req.Command], req.ID, stName[m.st]))
	if m.nextTake >= len(m.ctrl) || m.ctrl[m.nextTake].id != req.ID {
		m.fail("harness/control-request-retrieved-out-of-send-order", "agent retrieved control request id=%d, expected index %d", req.ID, m.nextTake)
		return
	}
	k := m.nextTake
	c := m.ctrl[k]
	c.taken = true
	m.nextTake++
	// one at a time: everything before k must have been acknowledged
	if m.nextAck < k {
		m.fail("ctrl/command-taken-before-previous-ack",
			"%s: took %s (id=%d) while %s (id=%d) has not been acknowledged. Document, Conventions 5: \"A component handles one control command at a time, to completion, before it dequeues the next.\"",
			m.agent, verbName[c.cmd], c.id, verbName[m.ctrl[m.nextAck].cmd], m.ctrl[m.nextAck].id)
	}
	if !c.acked {
		c.stateAt = m.st
		if len(m.owed()) > 0 {
			m.count(verbName[c.cmd] + "_taken_with_work_in_flight")
		}
	}
	if m.closesWindow(c.cmd) && !(c.cmd == memcontrolprotocol.CmdFlush && m.st == stEnabled) {
		m.window = false
	}
	if m.resetCut == k {
		m.doResetCut()
	}
}

func (m *monitor) onCtrlSend(msg messaging.Msg) {
	rsp, ok := msg.(memcontrolprotocol.Rsp)
	if !ok {
		m.fail("ctrl/non-response-on-control-port", "%T sent on the Control port", msg)
		return
	}
	m.note(fmt.Sprintf("ctrl ACK %s rspTo=%d success=%v err=%q", verbName[rsp.Command], rsp.RspTo, rsp.Success, rsp.Error))
	if m.nextAck >= len(m.ctrl) {
		m.fail("ctrl/extra-response", "%s: response (cmd %s, RspTo %d) but every request already has its response", m.agent, verbName[rsp.Command], rsp.RspTo)
		return
	}
	c := m.ctrl[m.nextAck]
	if rsp.RspTo != c.id {
		kind := "ctrl/response-with-unknown-rspto"
		for i, o := range m.ctrl {
			if o.id == rsp.RspTo {
				if o.acked {
					kind = "ctrl/duplicate-response"
				} else if i > m.nextAck {
					kind = "ctrl/response-out-of-request-order"
				}
			}
		}
		m.fail(kind, "%s: response RspTo=%d (cmd %s) but the oldest unanswered request is %s id=%d", m.agent, rsp.RspTo, verbName[rsp.Command], verbName[c.cmd], c.id)
		return
	}
	k := m.nextAck
	m.nextAck++
	c.acked = true
	if !c.taken { // synchronous verbs are acknowledged before they are dequeued
		c.stateAt = m.st
		if len(m.owed()) > 0 {
			m.count(verbName[c.cmd] + "_taken_with_work_in_flight")
		}
	}
	if rsp.Command != c.cmd {
		m.fail("ctrl/response-wrong-command", "%s: response to %s id=%d carries Command=%s", m.agent, verbName[c.cmd], c.id, verbName[rsp.Command])
	}
	if rsp.Dst != c.src {
		m.fail("ctrl/response-wrong-dst", "%s: response to id=%d addressed to %s, request came from %s", m.agent, c.id, rsp.Dst, c.src)
	}
	// expected outcome per the document
	sup := supYes
	if c.cmd == memcontrolprotocol.CmdInvalidate {
		sup = m.row.Invalidate
	} else if c.cmd == memcontrolprotocol.CmdFlush {
		sup = m.row.Flush
	}
	wantOK, wantErr := true, ""
	switch {
	case sup == supNo:
		wantOK, wantErr = false, docErrUnsupported
	case (c.cmd == memcontrolprotocol.CmdInvalidate || c.cmd == memcontrolprotocol.CmdFlush) && c.stateAt == stEnabled:
		wantOK, wantErr = false, docErrMustBePaused
	}
	pair := verbName[c.cmd] + "@" + stName[c.stateAt]
	m.pairs[pair] = true
	if c.pipelined {
		m.count("pipelined_commands_handled")
	}
	if rsp.Success != wantOK || rsp.Error != wantErr {
		key := "ctrl/wrong-outcome"
		quote := ""
		switch {
		case sup == supNo:
			key = "ctrl/unsupported-verb-not-refused"
			quote = "\"Unsupported verbs reply `Success: false, Error: \"unsupported\"`.\""
		case wantErr == docErrMustBePaused:
			key = "ctrl/illegal-state-verb-not-refused"
			quote = "\"Invalidate and Flush issued while running reply `Success: false, Error: \"must be paused or drained\"`.\""
		default:
			key = "ctrl/supported-verb-refused"
			quote = "matrix row " + m.agent + " lists the verb as supported; Conventions 7: \"Verbs are idempotent. Pause-when-Paused, Enable-when-Enabled, and Drain-when-Paused all succeed without side effects.\""
		}
		m.fail(key+":"+pair, "%s: %s handled in model state %s answered Success=%v Error=%q, document demands Success=%v Error=%q (%s)",
			m.agent, verbName[c.cmd], stName[c.stateAt], rsp.Success, rsp.Error, wantOK, wantErr, quote)
	}
	if !rsp.Success {
		m.count("refusals_checked")
		return
	}
	if m.closesWindow(c.cmd) {
		m.window = false
	}
	switch c.cmd {
	case memcontrolprotocol.CmdPause:
		if m.st == stEnabled {
			m.st = stPaused
		}
		m.window = true
		if n := len(m.owed()); n > 0 {
			m.count("pause_acks_with_work_frozen_inside")
		}
	case memcontrolprotocol.CmdDrain:
		if ow := m.owed(); len(ow) > 0 {
			m.fail("drain/ack-while-work-is-owed",
				"%s: Drain id=%d acknowledged while %d retrieved requests are unanswered:%s. Document, verb table: \"Drain: Stop accepting new traffic; let in-flight transactions finish; end in the paused state.\" and per-component behavior: \"Drain (async) stops accepting new traffic, lets in-flight work finish, and acks once the component is quiescent — landing in the paused state.\"",
				m.agent, c.id, len(ow), describe(ow))
		}
		m.st = stDrained
		m.window = true
		m.count("drain_acks_checked_for_quiescence")
	case memcontrolprotocol.CmdEnable:
		m.st = stEnabled
	case memcontrolprotocol.CmdReset:
		m.st = stEnabled
		if c.taken {
			m.doResetCut()
		} else {
			m.resetCut = k
		}
	case memcontrolprotocol.CmdFlush:
		if m.row.Flush == supYes {
			m.window = true // "Drain → Flush (stays paused)"
		}
	}
}

func (m *monitor) onTopRetrieve(msg messaging.Msg) {
	d := m.reqs[msg.Meta().ID]
	if d == nil {
		return
	}
	d.retrieved = true
	m.note(fmt.Sprintf("top TAKE #%d id=%d %s", d.seq, d.id, d.what))
	if m.st != stEnabled && m.resetCut < 0 {
		d.retrInPause = true
		m.count("top_requests_retrieved_while_model_paused(not judged)")
	}
}

func isDataRsp(msg messaging.Msg) bool {
	switch msg.(type) {
	case memprotocol.DataReadyRsp, memprotocol.WriteDoneRsp, vmprotocol.TranslationRsp, datamoverprotocol.DataMoveResponse:
		return true
	}
	return false
}

func (m *monitor) onTopSend(msg messaging.Msg) {
	meta := msg.Meta()
	if !isDataRsp(msg) {
		m.fail("data/non-response-sent-on-top", "%s: %T sent on Top", m.agent, msg)
		return
	}
	d := m.reqs[meta.RspTo]
	if d == nil && m.useAlias {
		if d = m.alias[meta.RspTo]; d != nil {
			m.count("data_responses_with_foreign_RspTo(C25's business, resolved through the forwarded request)")
		}
	}
	m.note(fmt.Sprintf("top RSP %T rspTo=%d window=%v", msg, meta.RspTo, m.window))
	if d == nil {
		m.fail("data/response-to-unknown-request", "%s: %T with RspTo=%d matches no request", m.agent, msg, meta.RspTo)
		return
	}
	m.count("data_responses_seen")
	if d.answered {
		m.fail("data/duplicate-response", "%s: second response to request #%d id=%d (%s)", m.agent, d.seq, d.id, d.what)
		return
	}
	if meta.Dst != m.reqPort {
		m.fail("data/response-wrong-dst", "%s: response to #%d addressed to %s, requester is %s", m.agent, d.seq, meta.Dst, m.reqPort)
	}
	d.answered = true
	if d.forbidden {
		m.fail("reset/response-to-pre-reset-request",
			"%s: request #%d id=%d (%s, retrieved by the agent before the Reset ack) answered after the Reset. Document: \"Reset (sync) is a hard reset: it discards in-flight transactions and internal queues and returns the component to its freshly-built shape.\"",
			m.agent, d.seq, d.id, d.what)
	} else if d.cancelled {
		m.count("responses_to_requests_that_were_on_the_wire_at_a_reset")
	} else {
		m.live--
		if d.sentInPause {
			m.count("requests_queued_during_pause_served_after_enable")
		}
	}
	if m.window {
		m.fail("pause/data-response-while-paused",
			"%s: %T to request #%d id=%d (%s) sent on Top while paused (model state %s, no Enable/Drain/Reset/Flush taken since the ack). Document: \"Pause (sync) sets the component to its paused state immediately; the data path stops accepting new traffic from its workload ports. In-flight work is frozen, not discarded.\"",
			m.agent, msg, d.seq, d.id, d.what, stName[m.st])
	}
}

func (m *monitor) onBottomSend(msg messaging.Msg) {
	if m.nextTake > m.nextAck && m.ctrl[m.nextAck].cmd == memcontrolprotocol.CmdFlush {
		if _, ok := msg.(memprotocol.WriteReq); ok {
			m.count("writebacks_sent_below_during_a_flush")
		}
	}
	if m.st != stEnabled && m.window {
		m.count("bottom_requests_sent_while_paused(not judged)")
	}
	if !m.useAlias {
		return
	}
	if tr, ok := msg.(vmprotocol.TranslationReq); ok {
		if d := m.byKey[fmt.Sprintf("%d/%d", tr.PID, tr.VAddr)]; d != nil {
			m.alias[tr.ID] = d
		}
	}
}

func (m *monitor) onBottomRetrieve(msg messaging.Msg) {
	if !m.useAlias {
		return
	}
	if d := m.alias[msg.Meta().RspTo]; d != nil {
		m.alias[msg.Meta().ID] = d
	}
}

// finish is called when the simulation went quiet after the final Enable.
func (m *monitor) finish(ctrlAcksReceived int, timedOut bool) {
	for i, c := range m.ctrl {
		if !c.acked {
			m.fail("ctrl/request-without-response", "%s: %s id=%d (command %d of %d) never acknowledged (driver timed out: %v); oldest unacked shown",
				m.agent, verbName[c.cmd], c.id, i, len(m.ctrl), timedOut)
			break
		}
	}
	if ctrlAcksReceived != m.nextAck {
		m.fail("ctrl/responses-not-delivered-to-requester", "%s: agent sent %d responses, the control requester received %d", m.agent, m.nextAck, ctrlAcksReceived)
	}
	if m.st != stEnabled || m.nextAck != len(m.ctrl) {
		return // the history did not reach its final Enable; already reported
	}
	var lost []*dreq
	queued := 0
	for _, d := range m.order {
		if !d.answered && !d.cancelled {
			lost = append(lost, d)
			if d.sentInPause || d.retrInPause {
				queued++
			}
		}
	}
	if len(lost) > 0 {
		m.fail("enable/request-never-served",
			"%s: after the final Enable and quiescence %d non-cancelled requests are unanswered (%d of them were issued while paused):%s. Document: \"Enable (sync) returns the component to its running state and resumes processing. Traffic that queued while paused is processed once the data path runs again, not discarded.\"",
			m.agent, len(lost), queued, describe(lost))
	}
}

// ---- tap ----

type tap struct {
	m    *monitor
	role map[string]string // port name -> ctrl | top | bot
}

func (t *tap) Func(ctx hooking.HookCtx) {
	if ctx.Pos != messaging.HookPosPortMsgSend && ctx.Pos != messaging.HookPosPortMsgRetrieveIncoming {
		return
	}
	msg, _ := ctx.Item.(messaging.Msg)
	if msg == nil {
		return
	}
	send := ctx.Pos == messaging.HookPosPortMsgSend
	switch t.role[ctx.Domain.(messaging.Port).Name()] {
	case "ctrl":
		if send {
			t.m.onCtrlSend(msg)
		} else {
			t.m.onCtrlRetrieve(msg)
		}
	case "top":
		if send {
			t.m.onTopSend(msg)
		} else {
			t.m.onTopRetrieve(msg)
		}
	case "bot":
		if send {
			t.m.onBottomSend(msg)
		} else {
			t.m.onBottomRetrieve(msg)
		}
	}
}
