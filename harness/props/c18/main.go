// C18 Memory agents follow the control protocol under any history.
//
// For each of the twelve memory agents a small assembly is built around the
// real component: a data requester on its Top port, a real lower memory or a
// stub translation provider with variable latency below it, and a control
// driver that plays a PRNG-drawn sequence of the six verbs (with Addresses/PID
// filters, partly pipelined without waiting for acknowledgements) while data
// traffic is flowing. Taps on the agent's OWN Control/Top/Bottom ports (Send
// and RetrieveIncoming) feed an online monitor (monitor.go) whose expectations
// are transcribed from mem/CONTROL_PROTOCOL.md.
package main

import (
	"encoding/json"
	"fmt"
	"math/rand"
	"runtime/debug"
	"sort"
	"strings"

	"verifharness/kit"

	"github.com/sarchlab/akita/v5/mem/memcontrolprotocol"
	"github.com/sarchlab/akita/v5/timing"
)

type params struct {
	Agent string `json:"agent"`
	Verbs int    `json:"verbs"`
}

func short(agent string) string { return agent[strings.LastIndex(agent, "/")+1:] }

func main() {
	must := []string{
		"data_responses_seen", "refusals_checked", "drain_acks_checked_for_quiescence", "pipelined_commands_handled",
		"pause_acks_with_work_frozen_inside", "Drain_taken_with_work_in_flight", "resets_with_work_inside_the_agent",
		"requests_queued_during_pause_served_after_enable", "commands_with_filter", "writebacks_sent_below_during_a_flush",
		"responses_to_requests_that_were_on_the_wire_at_a_reset",
	}
	for _, a := range agentNames {
		must = append(must, "all_18_verb_x_state_pairs_covered:"+short(a))
		must = append(must, "pause_acks_with_work_frozen_inside:"+short(a))
		must = append(must, "drains_that_had_to_wait_for_work:"+short(a))
		must = append(must, "resets_with_work_inside_the_agent:"+short(a))
	}
	kit.Main(kit.Prop{
		ID:    "C18",
		Level: "exploration",
		Rule: "a case is one history for one agent: a PRNG-drawn assembly (agent geometry, port buffers 1-8, control buffer 1-4, lower latency, one or several connections), " +
			"a PRNG-drawn requester (window 1-12, bursts, idle gaps) and a PRNG-drawn sequence of ~40 control verbs (all six, with Addresses/PID filters, ~30% sent without waiting for the previous ack, gaps 0-150 cycles) ending in Enable and a drain. " +
			"Non-trivial: >= 10 commands acknowledged, >= 5 data responses, and the agent was paused or drained at least once with traffic present (work frozen inside at a Pause ack, a Drain that found work, or a request issued while paused); distinct by agent + configuration + verb sequence",
		Assumptions: []string{
			"expectations (support matrix, error strings, serial handling, pause/drain/reset/enable semantics) are transcribed from mem/CONTROL_PROTOCOL.md",
			"the 'no data response while paused' window runs from the Pause/Drain ack sent on the agent's Control port to the agent taking the next Enable, Drain, Reset (or Flush, for the write-back cache only); a write-back Flush after a bare Pause is not judged",
			"requests outstanding at a Reset ack are cancelled: those the agent had already retrieved must never be answered afterwards, those still on the wire may or may not be",
			"data-path correctness (values, RspTo of mmuCache/gmmu forwarded responses) is C16/C25's business and is not judged here; such responses are resolved through the forwarded request",
			"a control request unanswered for 60000 cycles, or a data request unanswered 150000 cycles after the final Enable, is reported as never answered (bounded-progress restatement)",
		},
		Plan: func(tier string, seed int64) []kit.Batch {
			per, n, verbs := 2, 25, 40
			if tier == "thorough" {
				per, n = 8, 750
			}
			var bs []kit.Batch
			for ai, a := range agentNames {
				for j := 0; j < per; j++ {
					bs = append(bs, kit.Batch{Name: fmt.Sprintf("%s-%d", short(a), j), Seed: seed*104729 + int64(ai*97+j), N: n,
						Params: kit.MkParams(params{Agent: a, Verbs: verbs})})
				}
			}
			return bs
		},
		Run:         run,
		MustObserve: must,
	})
}

func mkSteps(nVerbs int) func(rng *rand.Rand, b *built) []step {
	return func(rng *rand.Rand, b *built) []step {
		n := nVerbs*6/10 + rng.Intn(nVerbs*8/10+1)
		gaps := []int{0, 0, 1, 3, 10, 40, 150}
		pipeProb := pick(rng, 0, 20, 30, 60)
		var out []step
		for i := 0; i < n; i++ {
			var cmd memcontrolprotocol.Command
			switch x := rng.Intn(100); {
			case x < 20:
				cmd = memcontrolprotocol.CmdPause
			case x < 40:
				cmd = memcontrolprotocol.CmdDrain
			case x < 62:
				cmd = memcontrolprotocol.CmdEnable
			case x < 73:
				cmd = memcontrolprotocol.CmdReset
			case x < 87:
				cmd = memcontrolprotocol.CmdInvalidate
			default:
				cmd = memcontrolprotocol.CmdFlush
			}
			s := step{Cmd: int(cmd), Gap: gaps[rng.Intn(len(gaps))], Wait: rng.Intn(100) >= pipeProb}
			filterP := 10
			if cmd == memcontrolprotocol.CmdInvalidate || cmd == memcontrolprotocol.CmdFlush {
				filterP = 60
			}
			if rng.Intn(100) < filterP {
				if rng.Intn(3) > 0 {
					if b.filterAddrs != nil {
						s.Addrs = b.filterAddrs(rng)
					} else {
						s.Addrs = []uint64{uint64(rng.Intn(1 << 16))}
					}
				}
				if rng.Intn(2) == 0 {
					s.PID = uint32(rng.Intn(3))
				}
			}
			out = append(out, s)
		}
		out = append(out, step{Cmd: int(memcontrolprotocol.CmdEnable), Wait: true, Gap: gaps[rng.Intn(len(gaps))]})
		return out
	}
}

const cycle = timing.VTimeInPicoSec(1000)

// runSlice advances the simulation; a panic raised by the code under test is
// reported under an agent-specific key (with the events that led to it).
func runSlice(c *kit.Case, rg *rig, sa string, desc any, t timing.VTimeInPicoSec) (ok bool) {
	defer func() {
		if e := recover(); e != nil {
			st := string(debug.Stack())
			if !kit.PanicInAkita(st) {
				panic(e)
			}
			lines := strings.Split(st, "\n")
			if len(lines) > 40 {
				lines = lines[:40]
			}
			c.Fail(sa+":panic:"+kit.NormalizeMsg(fmt.Sprint(e)), map[string]any{"panic": fmt.Sprint(e), "stack": strings.Join(lines, "\n"),
				"events_before": append([]string(nil), rg.mon.trail...), "desc": desc})
			ok = false
		}
	}()
	if err := rg.engine.RunUntil(t); err != nil {
		c.Failf(sa+":engine-error", "%v", err)
		return false
	}
	return true
}

func run(b kit.Batch, r *kit.R) {
	var p params
	b.P(&p)
	sa := short(p.Agent)
	batchPairs := map[string]bool{}
	r.ForEach(b.N, func(c *kit.Case) {
		rg := buildRig(p.Agent, c.Rng, mkSteps(p.Verbs))
		desc := map[string]any{"cfg": rg.cfg, "steps": rg.ctl.steps}
		c.Desc(desc)
		mon := rg.mon
		rg.req.TickLater()
		rg.ctl.TickLater()

		// run in slices; stop a while after the control driver is done
		t := timing.VTimeInPicoSec(0)
		var doneAt timing.VTimeInPicoSec
		quietSince := timing.VTimeInPicoSec(0)
		for {
			t += 500 * cycle
			if !runSlice(c, rg, sa, desc, t) {
				return
			}
			if !rg.ctl.done {
				continue
			}
			if doneAt == 0 {
				doneAt = t
			}
			if mon.live == 0 {
				if quietSince == 0 {
					quietSince = t
				}
				if t-quietSince >= 4000*cycle {
					break
				}
			} else {
				quietSince = 0
			}
			if t-doneAt > 150000*cycle {
				break
			}
		}
		mon.finish(rg.ctl.acks, rg.ctl.timedOut)

		for _, v := range mon.viols {
			c.Fail(sa+":"+v.key, map[string]any{"msg": v.msg, "events_before": v.trail, "desc": desc})
		}
		for name, v := range mon.counters {
			r.Count(name, v)
		}
		for _, name := range []string{"pause_acks_with_work_frozen_inside", "resets_with_work_inside_the_agent"} {
			r.Count(name+":"+sa, mon.counters[name])
		}
		r.Count("drains_that_had_to_wait_for_work:"+sa, mon.counters["Drain_taken_with_work_in_flight"])
		r.Count("histories:"+sa, 1)
		r.Count("control_commands_acknowledged", int64(mon.nextAck))
		r.Max("max_commands_in_one_history", int64(len(mon.ctrl)))
		for pr := range mon.pairs {
			batchPairs[pr] = true
			r.Distinct("verb_x_state_pairs:"+sa, pr)
			r.Distinct("agent_x_verb_x_state", sa+"/"+pr)
		}
		paused := mon.counters["pause_acks_with_work_frozen_inside"] + mon.counters["Drain_taken_with_work_in_flight"] + mon.counters["data_requests_sent_while_paused"]
		if mon.nextAck >= 10 && mon.counters["data_responses_seen"] >= 5 && paused > 0 {
			j, _ := json.Marshal(desc)
			c.Nontrivial(string(j))
		}
		var prs []string
		for pr := range mon.pairs {
			prs = append(prs, pr)
		}
		sort.Strings(prs)
		c.Sample(map[string]any{"agent": p.Agent, "cfg": rg.cfg, "steps": rg.ctl.steps, "end_time_ps": rg.engine.CurrentTime(),
			"counters": mon.counters, "pairs_covered": prs, "last_events": mon.trail})
	})
	if len(batchPairs) == 18 {
		r.Count("all_18_verb_x_state_pairs_covered:"+sa, 1)
	}
}
