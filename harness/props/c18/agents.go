package main

import (
	"fmt"
	"math/rand"

	"github.com/sarchlab/akita/v5/mem"
	"github.com/sarchlab/akita/v5/mem/cache/writeback"
	"github.com/sarchlab/akita/v5/mem/cache/writethroughcache"
	"github.com/sarchlab/akita/v5/mem/datamover"
	"github.com/sarchlab/akita/v5/mem/datamoverprotocol"
	"github.com/sarchlab/akita/v5/mem/dram"
	"github.com/sarchlab/akita/v5/mem/idealmemcontroller"
	"github.com/sarchlab/akita/v5/mem/memprotocol"
	"github.com/sarchlab/akita/v5/mem/rob"
	"github.com/sarchlab/akita/v5/mem/simplebankedmemory"
	"github.com/sarchlab/akita/v5/mem/vm"
	"github.com/sarchlab/akita/v5/mem/vm/addresstranslator"
	"github.com/sarchlab/akita/v5/mem/vm/gmmu"
	"github.com/sarchlab/akita/v5/mem/vm/mmu"
	"github.com/sarchlab/akita/v5/mem/vm/mmuCache"
	"github.com/sarchlab/akita/v5/mem/vm/tlb"
	"github.com/sarchlab/akita/v5/mem/vm/vmprotocol"
	"github.com/sarchlab/akita/v5/messaging"
	"github.com/sarchlab/akita/v5/modeling"
	"github.com/sarchlab/akita/v5/noc/directconnection"
	"github.com/sarchlab/akita/v5/timing"
)

var agentNames = []string{
	"idealmemcontroller", "cache/writeback", "vm/tlb", "rob",
	"dram", "simplebankedmemory", "cache/writethroughcache", "vm/mmuCache",
	"vm/mmu", "vm/gmmu", "vm/addresstranslator", "datamover",
}

// built is what an agent-specific builder returns.
type built struct {
	comp    messaging.Component
	bottoms []string              // the agent's own lower ports
	links   [][2]messaging.Port   // (agent lower port, neighbour port) pairs
	gen     genFn
	cfg     map[string]any
	alias   bool
	filterAddrs func(rng *rand.Rand) []uint64 // Addresses filter for Invalidate/Flush
}

type rig struct {
	agent  string
	engine *timing.SerialEngine
	mon    *monitor
	req    *requester
	ctl    *ctrlDriver
	b      built
	cfg    map[string]any
}

func pick[T any](rng *rand.Rand, xs ...T) T { return xs[rng.Intn(len(xs))] }

// ---- request generators ----

const lineSize = 64

func memGen(numLines int, numPIDs int) genFn {
	return func(rng *rand.Rand, meta messaging.MsgMeta, seq int) (messaging.Msg, string, string) {
		line := uint64(rng.Intn(numLines))
		off := uint64(rng.Intn(lineSize/4)) * 4
		n := uint64(4 * (1 + rng.Intn(int((lineSize-off)/4))))
		if rng.Intn(3) == 0 {
			off, n = 0, lineSize
		}
		pid := vm.PID(0)
		if numPIDs > 0 {
			pid = vm.PID(1 + rng.Intn(numPIDs))
		}
		addr := line*lineSize + off
		if rng.Intn(100) < 55 {
			r := memprotocol.ReadReq{MsgMeta: meta, Address: addr, AccessByteSize: n, PID: pid}
			r.TrafficBytes, r.TrafficClass = 12, "memprotocol.ReadReq"
			return r, fmt.Sprintf("read %#x+%d pid%d", addr, n, pid), ""
		}
		data := make([]byte, n)
		rng.Read(data)
		w := memprotocol.WriteReq{MsgMeta: meta, Address: addr, Data: data, PID: pid}
		if rng.Intn(4) == 0 {
			w.DirtyMask = make([]bool, n)
			for i := range w.DirtyMask {
				w.DirtyMask[i] = rng.Intn(2) == 0
			}
		}
		w.TrafficBytes, w.TrafficClass = int(n)+12, "memprotocol.WriteReq"
		return w, fmt.Sprintf("write %#x+%d pid%d", addr, n, pid), ""
	}
}

func memFilter(numLines int) func(rng *rand.Rand) []uint64 {
	return func(rng *rand.Rand) []uint64 {
		var out []uint64
		for i := 1 + rng.Intn(4); i > 0; i-- {
			out = append(out, uint64(rng.Intn(numLines))*lineSize+uint64(rng.Intn(lineSize)))
		}
		return out
	}
}

// transGen: aligned => page-aligned VAddr (TLB); otherwise every request has
// its own VAddr inside its page so that a forwarded request identifies it.
func transGen(numPages, numPIDs int, log2Page uint64, aligned bool, dev uint64) genFn {
	return func(rng *rand.Rand, meta messaging.MsgMeta, seq int) (messaging.Msg, string, string) {
		vpn := uint64(rng.Intn(numPages))
		pid := vm.PID(1 + rng.Intn(numPIDs))
		va := vpn << log2Page
		if !aligned {
			va += uint64(seq) % (1 << log2Page)
		}
		r := vmprotocol.TranslationReq{MsgMeta: meta, VAddr: va, PID: pid, DeviceID: dev}
		r.TrafficClass = "vmprotocol.TranslationReq"
		return r, fmt.Sprintf("translate pid%d va=%#x", pid, va), fmt.Sprintf("%d/%d", pid, va)
	}
}

func pageFilter(numPages int, log2Page uint64) func(rng *rand.Rand) []uint64 {
	return func(rng *rand.Rand) []uint64 {
		var out []uint64
		for i := 1 + rng.Intn(4); i > 0; i-- {
			out = append(out, uint64(rng.Intn(numPages))<<log2Page+uint64(rng.Intn(1<<log2Page)))
		}
		return out
	}
}

// ---- neighbours ----

func lowerMem(reg modeling.Registrar, rng *rand.Rand, name string, pb int) (*idealmemcontroller.Comp, map[string]any) {
	sp := idealmemcontroller.DefaultSpec()
	sp.Latency = pick(rng, 1, 3, 10, 40, 150)
	sp.Width = 1 + rng.Intn(4)
	c := idealmemcontroller.MakeBuilder().WithRegistrar(reg).WithSpec(sp).Build(name)
	assignPorts(reg, c, pb, "Top", "Control")
	return c, map[string]any{"lower": "idealmemcontroller", "latency": sp.Latency, "width": sp.Width}
}

// ---- the twelve agents ----

func buildAgent(agent string, reg modeling.Registrar, rng *rand.Rand, pb int, up messaging.RemotePort) built {
	name := "Agent"
	switch agent {
	case "idealmemcontroller":
		sp := idealmemcontroller.DefaultSpec()
		sp.Latency = pick(rng, 1, 2, 5, 20, 60)
		sp.Width = 1 + rng.Intn(4)
		c := idealmemcontroller.MakeBuilder().WithRegistrar(reg).WithSpec(sp).Build(name)
		return built{comp: c, gen: memGen(32, 0), cfg: map[string]any{"latency": sp.Latency, "width": sp.Width}}

	case "dram":
		preset := pick(rng, "DDR4", "DDR5", "HBM2", "GDDR6", "DDR3")
		sp := map[string]dram.Spec{"DDR4": dram.DDR4Spec, "DDR5": dram.DDR5Spec, "HBM2": dram.HBM2Spec, "GDDR6": dram.GDDR6Spec, "DDR3": dram.DefaultSpec()}[preset]
		sp.PagePolicy = pick(rng, dram.PagePolicyOpen, dram.PagePolicyClose)
		c := dram.MakeBuilder().WithRegistrar(reg).WithSpec(sp).Build(name)
		return built{comp: c, gen: memGen(64, 0), cfg: map[string]any{"preset": preset, "policy": sp.PagePolicy}}

	case "simplebankedmemory":
		sp := simplebankedmemory.DefaultSpec()
		sp.NumBanks = pick(rng, 1, 2, 4)
		sp.BankPipelineDepth = 1 + rng.Intn(3)
		sp.BankPipelineWidth = 1 + rng.Intn(2)
		sp.StageLatency = pick(rng, 1, 2, 5, 12)
		sp.PostPipelineBufSize = 1 + rng.Intn(3)
		c := simplebankedmemory.MakeBuilder().WithRegistrar(reg).WithSpec(sp).Build(name)
		return built{comp: c, gen: memGen(64, 0), cfg: map[string]any{"banks": sp.NumBanks, "depth": sp.BankPipelineDepth,
			"width": sp.BankPipelineWidth, "stage_latency": sp.StageLatency, "post_buf": sp.PostPipelineBufSize}}

	case "cache/writeback":
		low, lcfg := lowerMem(reg, rng, "Low", pb)
		sp := writeback.DefaultSpec()
		sp.Log2BlockSize = 6
		sp.WayAssociativity = 1 + rng.Intn(3)
		sets := pick(rng, 1, 2, 4)
		sp.TotalByteSize = uint64(sets*sp.WayAssociativity) << sp.Log2BlockSize
		sp.NumMSHREntry = 1 + rng.Intn(4)
		sp.NumBanks = 1 + rng.Intn(2)
		sp.BankLatency = 1 + rng.Intn(4)
		sp.DirLatency = rng.Intn(3)
		sp.NumReqPerCycle = 1 + rng.Intn(2)
		sp.WriteBufferCapacity = 1 + rng.Intn(4)
		sp.MaxInflightFetch = 1 + rng.Intn(4)
		sp.MaxInflightEviction = 1 + rng.Intn(4)
		c := writeback.MakeBuilder().WithRegistrar(reg).WithSpec(sp).
			WithResources(writeback.Resources{AddressToPortMapper: &mem.SinglePortMapper{Port: low.GetPortByName("Top").AsRemote()}}).Build(name)
		lcfg["ways"], lcfg["sets"], lcfg["mshr"], lcfg["banks"], lcfg["bank_lat"], lcfg["dir_lat"] = sp.WayAssociativity, sets, sp.NumMSHREntry, sp.NumBanks, sp.BankLatency, sp.DirLatency
		lcfg["write_buf"], lcfg["max_fetch"], lcfg["max_evict"], lcfg["req_per_cycle"] = sp.WriteBufferCapacity, sp.MaxInflightFetch, sp.MaxInflightEviction, sp.NumReqPerCycle
		return built{comp: c, bottoms: []string{"Bottom"}, links: [][2]messaging.Port{{nil, low.GetPortByName("Top")}}, gen: memGen(24, 2), cfg: lcfg, filterAddrs: memFilter(24)}

	case "cache/writethroughcache":
		low, lcfg := lowerMem(reg, rng, "Low", pb)
		sp := writethroughcache.DefaultSpec()
		sp.WritePolicyType = pick(rng, "write-around", "write-evict", "write-through")
		sp.Log2BlockSize = 6
		sp.WayAssociativity = 1 + rng.Intn(3)
		sets := pick(rng, 1, 2, 4)
		sp.TotalByteSize = uint64(sets*sp.WayAssociativity) << sp.Log2BlockSize
		sp.NumMSHREntry = 1 + rng.Intn(4)
		sp.NumBanks = 1 + rng.Intn(2)
		sp.BankLatency = 1 + rng.Intn(4)
		sp.DirLatency = 1 + rng.Intn(2)
		sp.NumReqPerCycle = 1 + rng.Intn(2)
		sp.MaxNumConcurrentTrans = 1 + rng.Intn(8)
		c := writethroughcache.MakeBuilder().WithRegistrar(reg).WithSpec(sp).
			WithResources(writethroughcache.Resources{AddressMapper: &mem.SinglePortMapper{Port: low.GetPortByName("Top").AsRemote()}}).Build(name)
		lcfg["policy"], lcfg["ways"], lcfg["sets"], lcfg["mshr"], lcfg["banks"], lcfg["bank_lat"], lcfg["dir_lat"] = sp.WritePolicyType, sp.WayAssociativity, sets, sp.NumMSHREntry, sp.NumBanks, sp.BankLatency, sp.DirLatency
		lcfg["max_trans"], lcfg["req_per_cycle"] = sp.MaxNumConcurrentTrans, sp.NumReqPerCycle
		return built{comp: c, bottoms: []string{"Bottom"}, links: [][2]messaging.Port{{nil, low.GetPortByName("Top")}}, gen: memGen(24, 2), cfg: lcfg, filterAddrs: memFilter(24)}

	case "rob":
		low, lcfg := lowerMem(reg, rng, "Low", pb)
		sp := rob.DefaultSpec()
		sp.BufferSize = pick(rng, 1, 2, 4, 16)
		sp.NumReqPerCycle = 1 + rng.Intn(4)
		sp.BottomUnit = low.GetPortByName("Top").AsRemote()
		c := rob.MakeBuilder().WithRegistrar(reg).WithSpec(sp).Build(name)
		lcfg["rob_size"], lcfg["req_per_cycle"] = sp.BufferSize, sp.NumReqPerCycle
		return built{comp: c, bottoms: []string{"Bottom"}, links: [][2]messaging.Port{{nil, low.GetPortByName("Top")}}, gen: memGen(32, 0), cfg: lcfg}

	case "vm/tlb":
		stub := newTransStub(reg, "Low", rng, 12, pb)
		sp := tlb.DefaultSpec()
		sp.NumSets = pick(rng, 1, 2, 4)
		sp.NumWays = 1 + rng.Intn(4)
		sp.MSHRSize = 1 + rng.Intn(4)
		sp.Latency = 1 + rng.Intn(5)
		sp.NumReqPerCycle = 1 + rng.Intn(4)
		c := tlb.MakeBuilder().WithRegistrar(reg).WithSpec(sp).
			WithResources(tlb.Resources{TranslationProviderMapper: &mem.SinglePortMapper{Port: stub.GetPortByName("Top").AsRemote()}}).Build(name)
		pages := pick(rng, 3, 8, 20)
		return built{comp: c, bottoms: []string{"Bottom"}, links: [][2]messaging.Port{{nil, stub.GetPortByName("Top")}}, gen: transGen(pages, 2, 12, true, 1),
			cfg:         map[string]any{"sets": sp.NumSets, "ways": sp.NumWays, "mshr": sp.MSHRSize, "latency": sp.Latency, "req_per_cycle": sp.NumReqPerCycle, "pages": pages, "lower_max_latency": stub.maxLat},
			filterAddrs: pageFilter(pages, 12)}

	case "vm/mmuCache":
		stub := newTransStub(reg, "Low", rng, 12, pb)
		sp := mmuCache.DefaultSpec()
		sp.NumBlocks = 1 + rng.Intn(4)
		sp.NumLevels = 2 + rng.Intn(4)
		sp.NumReqPerCycle = 1 + rng.Intn(4)
		sp.LatencyPerLevel = uint64(pick(rng, 1, 10, 100))
		c := mmuCache.MakeBuilder().WithRegistrar(reg).WithSpec(sp).
			WithResources(mmuCache.Resources{LowModulePort: stub.GetPortByName("Top").AsRemote(), UpModulePort: up}).Build(name)
		pages := pick(rng, 3, 8, 20)
		return built{comp: c, bottoms: []string{"Bottom"}, links: [][2]messaging.Port{{nil, stub.GetPortByName("Top")}}, gen: transGen(pages, 2, 12, false, 1), alias: true,
			cfg:         map[string]any{"blocks": sp.NumBlocks, "levels": sp.NumLevels, "req_per_cycle": sp.NumReqPerCycle, "pages": pages, "lower_max_latency": stub.maxLat},
			filterAddrs: pageFilter(pages, 12)}

	case "vm/mmu":
		sp := mmu.DefaultSpec()
		sp.Latency = pick(rng, 0, 1, 5, 20, 60)
		sp.MaxRequestsInFlight = 1 + rng.Intn(8)
		sp.AutoPageAllocation = true
		c := mmu.MakeBuilder().WithRegistrar(reg).WithSpec(sp).Build(name)
		return built{comp: c, gen: transGen(16, 2, 12, false, 1), cfg: map[string]any{"latency": sp.Latency, "max_inflight": sp.MaxRequestsInFlight}}

	case "vm/gmmu":
		stub := newTransStub(reg, "Low", rng, 12, pb)
		pt := vm.MakePageTableBuilder().WithLog2PageSize(12).Build("PT")
		pages := 16
		remote := 0
		for pid := 1; pid <= 2; pid++ {
			for vpn := 0; vpn < pages; vpn++ {
				dev := uint64(1)
				if rng.Intn(2) == 0 {
					dev = 2
					remote++
				}
				pt.Insert(vm.Page{PID: vm.PID(pid), VAddr: uint64(vpn) << 12, PAddr: uint64(pid*pages+vpn) << 12, PageSize: 4096, Valid: true, DeviceID: dev})
			}
		}
		sp := gmmu.DefaultSpec()
		sp.DeviceID = 1
		sp.Latency = pick(rng, 0, 1, 5, 20)
		sp.MaxRequestsInFlight = 1 + rng.Intn(8)
		sp.LowModule = stub.GetPortByName("Top").AsRemote()
		c := gmmu.MakeBuilder().WithRegistrar(reg).WithSpec(sp).WithResources(gmmu.Resources{PageTable: pt}).Build(name)
		return built{comp: c, bottoms: []string{"Bottom"}, links: [][2]messaging.Port{{nil, stub.GetPortByName("Top")}}, gen: transGen(pages, 2, 12, false, 1), alias: true,
			cfg: map[string]any{"latency": sp.Latency, "max_inflight": sp.MaxRequestsInFlight, "remote_pages": remote, "lower_max_latency": stub.maxLat}}

	case "vm/addresstranslator":
		low, lcfg := lowerMem(reg, rng, "Low", pb)
		stub := newTransStub(reg, "TP", rng, 12, pb)
		sp := addresstranslator.DefaultSpec()
		sp.NumReqPerCycle = 1 + rng.Intn(4)
		c := addresstranslator.MakeBuilder().WithRegistrar(reg).WithSpec(sp).WithResources(addresstranslator.Resources{
			MemProviderMapper:         &mem.SinglePortMapper{Port: low.GetPortByName("Top").AsRemote()},
			TranslationProviderMapper: &mem.SinglePortMapper{Port: stub.GetPortByName("Top").AsRemote()},
		}).Build(name)
		lcfg["req_per_cycle"], lcfg["translation_max_latency"] = sp.NumReqPerCycle, stub.maxLat
		// 4 KiB pages hold 64 lines; spread the lines over a few pages
		g := memGen(32, 2)
		gen := func(rng *rand.Rand, meta messaging.MsgMeta, seq int) (messaging.Msg, string, string) {
			m, what, _ := g(rng, meta, seq)
			page := uint64(rng.Intn(6)) << 12
			switch r := m.(type) {
			case memprotocol.ReadReq:
				r.Address += page
				return r, what + fmt.Sprintf(" page+%#x", page), ""
			case memprotocol.WriteReq:
				r.Address += page
				return r, what + fmt.Sprintf(" page+%#x", page), ""
			}
			return m, what, ""
		}
		return built{comp: c, bottoms: []string{"Bottom", "Translation"},
			links: [][2]messaging.Port{{nil, low.GetPortByName("Top")}, {nil, stub.GetPortByName("Top")}}, gen: gen, cfg: lcfg}

	case "datamover":
		in, icfg := lowerMem(reg, rng, "Inside", pb)
		out, ocfg := lowerMem(reg, rng, "Outside", pb)
		sp := datamover.DefaultSpec()
		sp.InsideByteGranularity = uint64(pick(rng, 8, 16, 64))
		sp.OutsideByteGranularity = uint64(pick(rng, 8, 16, 64))
		sp.BufferSize = uint64(pick(rng, 64, 128, 512))
		c := datamover.MakeBuilder().WithRegistrar(reg).WithSpec(sp).WithResources(datamover.Resources{
			InsideMapper:  &mem.SinglePortMapper{Port: in.GetPortByName("Top").AsRemote()},
			OutsideMapper: &mem.SinglePortMapper{Port: out.GetPortByName("Top").AsRemote()},
		}).Build(name)
		sameSide := rng.Intn(3) == 0
		gen := func(rng *rand.Rand, meta messaging.MsgMeta, seq int) (messaging.Msg, string, string) {
			sides := []datamoverprotocol.DataMovePort{"inside", "outside"}
			s := rng.Intn(2)
			d := 1 - s
			if sameSide && rng.Intn(3) == 0 {
				d = s
			}
			r := datamoverprotocol.DataMoveRequest{MsgMeta: meta, SrcAddress: uint64(rng.Intn(64)) * 64, DstAddress: uint64(64+rng.Intn(64)) * 64,
				ByteSize: uint64(1+rng.Intn(6)) * 64, SrcSide: sides[s], DstSide: sides[d]}
			r.TrafficClass = "datamoverprotocol.DataMoveRequest"
			return r, fmt.Sprintf("move %s:%#x -> %s:%#x %dB", r.SrcSide, r.SrcAddress, r.DstSide, r.DstAddress, r.ByteSize), ""
		}
		return built{comp: c, bottoms: []string{"Inside", "Outside"},
			links: [][2]messaging.Port{{nil, in.GetPortByName("Top")}, {nil, out.GetPortByName("Top")}}, gen: gen,
			cfg: map[string]any{"inside_gran": sp.InsideByteGranularity, "outside_gran": sp.OutsideByteGranularity, "buffer": sp.BufferSize,
				"inside": icfg, "outside": ocfg, "same_side_moves": sameSide}}
	}
	panic("unknown agent " + agent)
}

// buildRig assembles requester, control driver, the agent and its neighbours.
func buildRig(agent string, rng *rand.Rand, mkSteps func(rng *rand.Rand, b *built) []step) *rig {
	engine := timing.NewSerialEngine()
	reg := modeling.NewStandaloneRegistrar(engine)
	mon := newMonitor(agent, engine.CurrentTime)
	pb := pick(rng, 1, 2, 4, 8)
	ctrlBuf := pick(rng, 1, 2, 4)
	req := newRequester(reg, mon, rng, pb, nil)
	b := buildAgent(agent, reg, rng, pb, req.GetPortByName("Mem").AsRemote())
	req.gen = b.gen
	mon.useAlias = b.alias

	// the agent's own ports
	for _, n := range append([]string{"Top"}, b.bottoms...) {
		assignPorts(reg, b.comp, pb, n)
	}
	assignPorts(reg, b.comp, ctrlBuf, "Control")
	for i, n := range b.bottoms {
		b.links[i][0] = b.comp.GetPortByName(n)
	}
	req.dst = b.comp.GetPortByName("Top").AsRemote()

	steps := mkSteps(rng, &b)
	tail := pick(rng, 50, 300, 1500)
	ctl := newCtrlDriver(reg, mon, req, steps, tail, 4)
	ctl.dst = b.comp.GetPortByName("Control").AsRemote()

	links := append([][2]messaging.Port{
		{req.GetPortByName("Mem"), b.comp.GetPortByName("Top")},
		{ctl.GetPortByName("Ctrl"), b.comp.GetPortByName("Control")},
	}, b.links...)
	perLink := rng.Intn(2) == 0
	var one *directconnection.Comp
	for i, l := range links {
		c := one
		if perLink || c == nil {
			c = directconnection.MakeBuilder().WithRegistrar(reg).Build(fmt.Sprintf("Conn%d", i))
			one = c
		}
		c.PlugIn(l[0])
		c.PlugIn(l[1])
	}

	t := &tap{m: mon, role: map[string]string{}}
	t.role[b.comp.GetPortByName("Control").Name()] = "ctrl"
	t.role[b.comp.GetPortByName("Top").Name()] = "top"
	b.comp.GetPortByName("Control").AcceptHook(t)
	b.comp.GetPortByName("Top").AcceptHook(t)
	for _, n := range b.bottoms {
		t.role[b.comp.GetPortByName(n).Name()] = "bot"
		b.comp.GetPortByName(n).AcceptHook(t)
	}

	cfg := map[string]any{"agent": agent, "port_buf": pb, "ctrl_buf": ctrlBuf, "per_link_conn": perLink, "max_inflight": req.maxInflight,
		"req_max_gap": req.maxGap, "req_burst": req.burst, "tail": tail, "agent_cfg": b.cfg}
	return &rig{agent: agent, engine: engine, mon: mon, req: req, ctl: ctl, b: b, cfg: cfg}
}
