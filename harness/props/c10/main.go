// C10 Direct connections deliver exactly once, intact, in order, under
// back-pressure.
//
// 2-8 nodes share one real direct connection. Port hooks tap every Send at the
// source and every delivery (Recvd) / retrieval at the destination; the
// message values are kept. Offline the delivered multiset must equal the sent
// set, every delivery must be at the port named by Dst and deep-equal to a
// private copy taken before Send, and for each source port the deliveries of
// its messages must occur in send order.
package main

import (
	"encoding/json"
	"fmt"
	"math/rand"
	"reflect"
	"sort"

	"verifharness/kit"
	"verifharness/props/c09/world"
)

type params struct {
	MaxNodes, MaxFlows int
}

func main() {
	kit.Main(kit.Prop{
		ID:    "C10",
		Level: "exploration",
		Rule: "a case is one direct connection (1 GHz, sometimes 2 GHz/500 MHz/700 MHz) with 2-8 plugged ports owned by ticking nodes (1 GHz/1.5 GHz/700 MHz/3 GHz/333 MHz) and some event-driven nodes, " +
			"incoming/outgoing capacities 1-4, budgets 1-4, 10-150 single-hop messages between arbitrary pairs (optionally a many-to-one hot spot) sent in bursts at edge or arbitrary times, " +
			"and receivers that ignore their input during 0-3 long stall windows and resume from timer events; every Send/Recvd/Retrieve is tapped and judged offline; " +
			"non-trivial when at least three ports were active, a head-of-line message was held back by a full receiver at the end of a connection tick and a stalled receiver later drained; distinct by configuration",
		Assumptions: []string{
			"serial engine, Run() to an empty queue; all stall windows end, so every message must have been delivered at quiescence",
			"one connection per case, so the same-instant lost wake-up of TickScheduler.TickNow (C09) cannot occur here",
			"messages are value types; 'unmodified' is reflect.DeepEqual against a private deep copy taken before Send",
		},
		Plan: func(tier string, seed int64) []kit.Batch {
			nb, n := 16, 80
			if tier == "thorough" {
				nb, n = 32, 4000
			}
			var bs []kit.Batch
			for i := 0; i < nb; i++ {
				p := params{MaxNodes: 2 + i%7, MaxFlows: 40 + 30*(i%4)}
				bs = append(bs, kit.Batch{Name: fmt.Sprintf("dc%d", i), Seed: seed*1000 + int64(i), N: n, Params: kit.MkParams(p)})
			}
			return bs
		},
		Run: run,
		MustObserve: []string{"messages_delivered", "head_blocked_by_full_receiver_at_tick_end", "deliveries_to_previously_stalled_receiver",
			"messages_waited_behind_blocked_head", "hot_spot_runs", "connection_ticks"},
	})
}

var nodeFreqs = []uint64{1e9, 1e9, 1500e6, 700e6, 3e9, 333e6}

func gen(rng *rand.Rand, p params) world.Config {
	var cfg world.Config
	f := uint64(1e9)
	if rng.Intn(4) == 0 {
		f = []uint64{2e9, 500e6, 700e6}[rng.Intn(3)]
	}
	cfg.ConnFreqHz = []uint64{f}
	nNodes := 2 + rng.Intn(p.MaxNodes-1)
	horizon := uint64(5+rng.Intn(60)) * 1000
	for i := 0; i < nNodes; i++ {
		nc := world.NodeCfg{Kind: "tick", Budget: 1 + rng.Intn(4)}
		if rng.Intn(5) == 0 {
			nc.Kind = "ed"
			if rng.Intn(2) == 0 {
				nc.Rewake = []uint64{250, 1000, 1428, 3000}[rng.Intn(4)]
			}
		} else {
			nc.FreqHz = nodeFreqs[rng.Intn(len(nodeFreqs))]
		}
		nc.Ports = []world.PortCfg{{Conn: 0, In: 1 + rng.Intn(4), Out: 1 + rng.Intn(4)}}
		if rng.Intn(2) == 0 { // stalls: long compared with the traffic
			t := uint64(rng.Int63n(int64(horizon)))
			for k := 1 + rng.Intn(3); k > 0; k-- {
				d := uint64(1000 + rng.Int63n(int64(horizon)))
				nc.Stalls = append(nc.Stalls, [2]uint64{t, t + d})
				t += d + uint64(rng.Int63n(8000))
			}
		}
		cfg.Nodes = append(cfg.Nodes, nc)
	}
	nFlows := 10 + rng.Intn(p.MaxFlows-9)
	hot := -1
	if rng.Intn(3) == 0 {
		hot = rng.Intn(nNodes)
	}
	t := uint64(0)
	for fl := 0; fl < nFlows; fl++ {
		// bursts: mostly the same instant or the next few edges
		switch rng.Intn(6) {
		case 0:
			t = uint64(rng.Int63n(int64(horizon) + 1))
		case 1:
			t = uint64(rng.Int63n(int64(horizon/1000)+1)) * 1000
		case 2:
			t += uint64(rng.Intn(3)) * 1000
		case 3:
			t += uint64(rng.Intn(700))
		}
		src := rng.Intn(nNodes)
		dst := rng.Intn(nNodes - 1)
		if dst >= src {
			dst++
		}
		if hot >= 0 && rng.Intn(3) > 0 && src != hot {
			dst = hot
		}
		cfg.Inj = append(cfg.Inj, world.InjCfg{At: t, Route: []world.Hop{{Node: src}, {Node: dst, Via: 0}}, Len: rng.Intn(9)})
	}
	sort.SliceStable(cfg.Inj, func(a, b int) bool { return cfg.Inj[a].At < cfg.Inj[b].At })
	return cfg
}

func run(b kit.Batch, r *kit.R) {
	var p params
	b.P(&p)
	r.ForEach(b.N, func(c *kit.Case) {
		cfg := gen(c.Rng, p)
		c.Desc(cfg)
		w := world.Build(cfg)
		w.KeepMsgs = true
		w.Run()
		judge(c, r, w)
	})
}

func judge(c *kit.Case, r *kit.R, w *world.World) {
	cfg := w.Cfg
	nn := w.NumNodes()
	anyFail := false
	fail := func(key, format string, a ...any) {
		anyFail = true
		c.Fail(key, map[string]any{"msg": fmt.Sprintf(format, a...), "config": cfg})
	}
	seenBySeq := map[int]world.SeenMsg{}
	for _, d := range w.Delivered {
		seenBySeq[d.Seq] = d
	}
	retrBySeq := map[int]world.SeenMsg{}
	for _, d := range w.Retrieved {
		retrBySeq[d.Seq] = d
	}
	sendOrder := map[int][]uint64{}    // source port -> ids in send order
	arriveOrder := map[int][]uint64{}  // source port -> ids in delivery order
	delivered := map[uint64]int{}      // id -> deliveries
	outQ := make([][]uint64, len(w.Ports))
	nIn := make([]int, len(w.Ports))
	inCap := func(p int) int { return cfg.Nodes[w.Ports[p].Node].Ports[0].In }
	srcPort := map[uint64]int{}
	activePorts := map[int]bool{}
	waited := map[uint64]bool{}
	var blockedHeads, behindBlocked, toStalled, connTicks int64
	everFullWhileStalled := make([]bool, len(w.Ports))
	for _, e := range w.Log {
		switch e.K {
		case world.EvTick:
			if e.H >= nn {
				connTicks++
			}
		case world.EvSend:
			if _, ok := w.Sent[e.M]; !ok {
				fail("harness-c10/send-without-copy", "send of unknown message %d", e.M)
				continue
			}
			sendOrder[e.P] = append(sendOrder[e.P], e.M)
			srcPort[e.M] = e.P
			outQ[e.P] = append(outQ[e.P], e.M)
			activePorts[e.P] = true
		case world.EvRetrOut:
			if len(outQ[e.P]) > 0 && outQ[e.P][0] == e.M {
				outQ[e.P] = outQ[e.P][1:]
			}
		case world.EvRecvd:
			want, known := w.Sent[e.M]
			got := seenBySeq[e.Seq].Msg
			activePorts[e.P] = true
			if !known {
				fail("c10/delivered-message-never-sent", "port %s received message id %d = %+v that nobody sent", w.Ports[e.P].Port.Name(), e.M, got)
				continue
			}
			delivered[e.M]++
			nIn[e.P]++
			if delivered[e.M] > 1 {
				fail("c10/duplicate-delivery", "message %d (%s -> %s) delivered %d times, again at t=%d to %s", e.M, want.Src, want.Dst, delivered[e.M], e.T, w.Ports[e.P].Port.Name())
			}
			if string(want.Dst) != w.Ports[e.P].Port.Name() {
				fail("c10/delivered-to-wrong-port", "message %d addressed to %s was delivered to %s at t=%d", e.M, want.Dst, w.Ports[e.P].Port.Name(), e.T)
			}
			if !reflect.DeepEqual(got, messagingMsg(want)) {
				fail("c10/delivered-message-altered", "message %d sent as %+v was delivered as %+v", e.M, want, got)
			}
			arriveOrder[srcPort[e.M]] = append(arriveOrder[srcPort[e.M]], e.M)
			if everFullWhileStalled[e.P] {
				toStalled++
			}
			if waited[e.M] {
				r.Count("messages_delivered_after_waiting", 1)
			}
		case world.EvRetrIn:
			nIn[e.P]--
			if want, known := w.Sent[e.M]; known {
				if got := retrBySeq[e.Seq].Msg; !reflect.DeepEqual(got, messagingMsg(want)) {
					fail("c10/retrieved-message-altered", "message %d sent as %+v was retrieved as %+v", e.M, want, got)
				}
			}
		case world.EvTickEnd:
			if e.H < nn {
				continue
			}
			for p, q := range outQ {
				if len(q) == 0 {
					continue
				}
				dst := w.PortByNm[w.Sent[q[0]].Dst]
				if nIn[dst.Idx] >= inCap(dst.Idx) {
					blockedHeads++
					behindBlocked += int64(len(q) - 1)
					if w.Nodes[dst.Node].Stalled(e.T) {
						everFullWhileStalled[dst.Idx] = true
					}
				} else {
					r.Count("deliverable_head_left_at_tick_end(info)", 1)
				}
				for _, id := range q {
					waited[id] = true
				}
				_ = p
			}
		}
	}
	r.Count("connection_ticks", connTicks)
	r.Count("messages_sent", int64(len(w.Sent)))
	r.Count("head_blocked_by_full_receiver_at_tick_end", blockedHeads)
	r.Count("messages_waited_behind_blocked_head", behindBlocked)
	r.Count("deliveries_to_previously_stalled_receiver", toStalled)
	r.Max("max_ports_active", int64(len(activePorts)))
	r.Distinct("ports_on_connection", fmt.Sprint(len(w.Ports)))
	hot := false
	{
		perDst := map[int]int{}
		for _, inj := range cfg.Inj {
			perDst[inj.Route[1].Node]++
		}
		for _, n := range perDst {
			if nn > 2 && n*2 > len(cfg.Inj) {
				hot = true
			}
		}
	}
	if hot {
		r.Count("hot_spot_runs", 1)
	}
	// exactly once at quiescence
	var nDelivered int64
	for id, pk := range w.Sent {
		switch delivered[id] {
		case 1:
			nDelivered++
		case 0:
			fail("c10/undelivered-at-quiescence", "message %d (%s -> %s, flow %d) was sent but never delivered; the queue is empty at t=%d; source port still holds %d, destination holds %d/%d",
				id, pk.Src, pk.Dst, pk.Flow, uint64(w.Engine.CurrentTime()), w.PortByNm[pk.Src].Port.NumOutgoing(), w.PortByNm[pk.Dst].Port.NumIncoming(), inCap(w.PortByNm[pk.Dst].Idx))
		}
	}
	r.Count("messages_delivered", nDelivered)
	for _, pi := range w.Ports {
		if pi.Port.NumOutgoing() != 0 || pi.Port.NumIncoming() != 0 {
			fail("c10/residue-at-quiescence", "%s holds %d outgoing / %d incoming at quiescence", pi.Port.Name(), pi.Port.NumOutgoing(), pi.Port.NumIncoming())
		}
	}
	// order: per source port, deliveries in send order
	for p, sent := range sendOrder {
		arr := arriveOrder[p]
		if len(arr) == len(sent) {
			same := true
			for i := range sent {
				same = same && sent[i] == arr[i]
			}
			if same {
				continue
			}
		}
		// find out whether the order is already broken for one destination
		pos := map[uint64]int{}
		for i, id := range sent {
			pos[id] = i
		}
		lastPerDst := map[string]int{}
		pairBroken := false
		for _, id := range arr {
			d := string(w.Sent[id].Dst)
			if prev, ok := lastPerDst[d]; ok && pos[id] < prev {
				pairBroken = true
			}
			lastPerDst[d] = pos[id]
		}
		monotone := true
		for i := 1; i < len(arr); i++ {
			monotone = monotone && pos[arr[i]] > pos[arr[i-1]]
		}
		if pairBroken {
			fail("c10/reordered-between-one-pair", "messages of %s to one destination arrived out of send order: sent %v, arrived %v", w.Ports[p].Port.Name(), sent, arr)
		} else if !monotone {
			fail("c10/reordered-from-one-source", "messages of %s arrived out of send order (different destinations): sent %v, arrived %v", w.Ports[p].Port.Name(), sent, arr)
		}
	}
	// what each node consumed must be what was addressed to it, once
	consumed := map[int]int{}
	for _, n := range w.Nodes {
		for _, f := range n.Consumed {
			consumed[f]++
			if cfg.Inj[f].Route[1].Node != n.Idx {
				fail("c10/consumed-at-wrong-node", "flow %d for node %d consumed by node %d", f, cfg.Inj[f].Route[1].Node, n.Idx)
			}
		}
	}
	for f := range cfg.Inj {
		if consumed[f] > 1 {
			fail("c10/consumed-twice", "flow %d consumed %d times", f, consumed[f])
		}
	}
	if !anyFail && len(w.Sent) != len(cfg.Inj) {
		// with nothing else wrong every injection must have been sent (self-check of the harness)
		fail("harness-c10/not-all-injected", "%d of %d messages were sent", len(w.Sent), len(cfg.Inj))
	}
	if len(activePorts) >= 3 && blockedHeads > 0 && toStalled > 0 {
		d, _ := json.Marshal(cfg)
		c.Nontrivial(string(d))
	}
	c.Sample(map[string]any{"config": cfg, "events": len(w.Log), "connection_ticks": connTicks,
		"heads_blocked_at_tick_end": blockedHeads, "end_time_ps": uint64(w.Engine.CurrentTime())})
}

// messagingMsg boxes the packet the way the port sees it.
func messagingMsg(p world.Packet) any { return p }
