package main

import (
	"encoding/json"
	"reflect"

	"verifharness/kit"

	"github.com/sarchlab/akita/v5/modeling"
)

// Static families that reflect.StructOf cannot build: named types that print
// identically but are different types (declared in different scopes), validated
// one after the other in one process, and types whose only serializable-looking
// field is tagged json:"-".

func goodNamed() any {
	type State struct {
		Pending map[uint64]int
		Queue   []uint64
	}
	return State{Pending: map[uint64]int{4096: 3, 8192: 1}, Queue: []uint64{4096}}
}

func lossyNamedSameName() any {
	type State struct {
		pending map[uint64]int
		queue   []uint64
	}
	return State{pending: map[uint64]int{4096: 3, 8192: 1}, queue: []uint64{4096}}
}

type dashOnly struct {
	set     map[string]int
	order   []string
	Scratch bool `json:"-"`
}

type nestedDash struct {
	Name  string
	Inner dashOnly
}

// roundTrips reports whether v survives the checkpoint encoding of State (json by value into a new value of its type).
func roundTrips(v any) bool {
	d, err := json.Marshal(v)
	if err != nil {
		return false
	}
	p := reflect.New(reflect.TypeOf(v))
	if json.Unmarshal(d, p.Interface()) != nil {
		return false
	}
	return reflect.DeepEqual(p.Elem().Interface(), v)
}

func runStaticExtra(b kit.Batch, r *kit.R) {
	r.ForEach(b.N, func(c *kit.Case) {
		for _, validate := range []struct {
			name string
			f    func(any) error
		}{{"ValidateState", modeling.ValidateState}, {"ValidateSpec", modeling.ValidateSpec}} {
			// order matters: a verdict about one type must not leak to another type that merely prints the same
			good, lossy := goodNamed(), lossyNamedSameName()
			if reflect.TypeOf(good).String() != reflect.TypeOf(lossy).String() || reflect.TypeOf(good) == reflect.TypeOf(lossy) {
				c.Failf("harness-panic:static-family", "the two local State types must print alike and differ")
				return
			}
			if c.Index%2 == 0 {
				if err := validate.f(good); err != nil && validate.name == "ValidateState" {
					c.Failf("validate/lossless-type-rejected", "%s rejected %T: %v", validate.name, good, err)
				}
			}
			r.Count("same_name_pairs_validated", 1)
			if err := validate.f(lossy); err == nil && !roundTrips(lossy) {
				c.Fail("validate/unexported-only-type-accepted-after-a-same-named-type", map[string]any{"validator": validate.name,
					"type": reflect.TypeOf(lossy).String(), "first_validated": c.Index%2 == 0,
					"what": "a struct whose state is only in unexported fields was accepted; it checkpoints as {} and restores empty"})
			}
			for _, v := range []any{dashOnly{set: map[string]int{"a": 1}, order: []string{"a"}}, nestedDash{Name: "n", Inner: dashOnly{set: map[string]int{"b": 2}}}} {
				if validate.name == "ValidateSpec" && reflect.TypeOf(v).Name() == "nestedDash" {
					continue // specs do not allow nested structs anyway
				}
				r.Count("types_with_only_dash_tagged_exported_fields_validated", 1)
				if err := validate.f(v); err == nil && !roundTrips(v) {
					c.Fail("validate/serializes-to-empty-accepted", map[string]any{"validator": validate.name, "type": reflect.TypeOf(v).String(),
						"what": "all real state is unexported, the only exported field is tagged json:\"-\": every value checkpoints as {} but the type was accepted"})
				}
			}
		}
		c.Nontrivial("static-extra/" + string(rune('a'+c.Index%2)))
	})
}
