// C43 Spec/State validation admits only losslessly serialisable types.
//
// Types are generated at run time (reflect.StructOf) from primitives, slices,
// arrays, maps, nested structs, exported and unexported fields, plain json
// names, and a hand-written family of field types that carry JSON methods.
// For every type that modeling.ValidateState / ValidateSpec accepts, generated
// values (unexported fields are written through unsafe) must survive the
// checkpoint encoding of State (json.Marshal of the value, json.Unmarshal into
// a fresh value) reflect.DeepEqual. A static family of State types goes through
// the real Builder.Build + Component.SaveCheckpoint/LoadCheckpoint.
package main

import (
	"bytes"
	"encoding/json"
	"fmt"
	"math"
	"math/rand"
	"reflect"
	"strings"
	"unsafe"

	"verifharness/kit"

	"github.com/sarchlab/akita/v5/modeling"
	"github.com/sarchlab/akita/v5/timing"
)

type params struct {
	Mode   string `json:"mode"` // state | spec | component
	Values int    `json:"values"`
}

func main() {
	kit.Main(kit.Prop{
		ID:    "C43",
		Level: "exploration",
		Rule: "each case generates one struct type (reflect.StructOf; depth ≤3; 0–6 fields per struct; field kinds: all primitives, slices, arrays, maps with string/int keys, nested structs, " +
			"exported/unexported fields in all-exported / mixed / all-unexported proportions, plain json:\"name\" tags incl. occasional name collisions, a hand-written family of types with " +
			"faithful / marshal-only / pointer-receiver JSON methods, and a few kinds that must be refused: pointer, interface, chan, func, complex, bad map keys) and V values of it " +
			"(nil vs empty vs short collections, extreme ints, finite floats, valid UTF-8 with quotes/controls/U+2028); 'component' batches push static State types through Builder.Build and " +
			"Component.SaveCheckpoint/LoadCheckpoint. A case is non-trivial when the type was accepted, has at least one field and at least one generated value was non-zero; distinct by the type's structure",
		Assumptions: []string{
			"strings are valid UTF-8 and floats finite (encoding/json cannot represent anything else)",
			"tag options (omitempty, string, -) and embedded fields are outside the quantified space and not generated",
			"custom MarshalJSON/UnmarshalJSON pairs are faithful (the validator cannot and does not judge their bodies); what varies is which halves exist and on which receiver",
			"rejecting a type that would have been lossless is not a violation (only counted)",
		},
		Plan: func(tier string, seed int64) []kit.Batch {
			nb, n, v := 14, 400, 20
			if tier == "thorough" {
				nb, n, v = 48, 20000, 50
			}
			var bs []kit.Batch
			for i := 0; i < nb; i++ {
				mode := "state"
				if i%4 == 3 {
					mode = "spec"
				}
				bs = append(bs, kit.Batch{Name: fmt.Sprintf("%s%d", mode, i), Seed: seed*1000 + int64(i), N: n, Params: kit.MkParams(params{mode, v})})
			}
			nc := 2
			if tier == "thorough" {
				nc = 8
			}
			for i := 0; i < nc; i++ {
				bs = append(bs, kit.Batch{Name: fmt.Sprintf("component%d", i), Seed: seed*1000 + 500 + int64(i), N: n, Params: kit.MkParams(params{"component", v})})
			}
			bs = append(bs, kit.Batch{Name: "static-extra", Seed: seed*1000 + 900, N: 2})
			return bs
		},
		Run: run,
		MustObserve: []string{"types_accepted", "types_rejected", "values_round_tripped", "accepted_types_with_nested_struct", "accepted_types_with_custom_json_pair",
			"rejected:all-unexported-no-json", "rejected:marshal-without-unmarshal", "component_checkpoints_round_tripped", "component_build_refusals"},
	})
}

// ------------------------------------------------------------ type generator

type gen struct {
	rng     *rand.Rand
	spec    bool
	feat    map[string]bool // features of the type being generated
	nextTag int
}

var prims = []reflect.Type{
	reflect.TypeOf(false), reflect.TypeOf(int(0)), reflect.TypeOf(int8(0)), reflect.TypeOf(int16(0)), reflect.TypeOf(int32(0)), reflect.TypeOf(int64(0)),
	reflect.TypeOf(uint(0)), reflect.TypeOf(uint8(0)), reflect.TypeOf(uint16(0)), reflect.TypeOf(uint32(0)), reflect.TypeOf(uint64(0)),
	reflect.TypeOf(float32(0)), reflect.TypeOf(float64(0)), reflect.TypeOf(""),
}

var goodKeys = []reflect.Type{reflect.TypeOf(""), reflect.TypeOf(int(0)), reflect.TypeOf(int32(0)), reflect.TypeOf(int64(0)),
	reflect.TypeOf(uint(0)), reflect.TypeOf(uint32(0)), reflect.TypeOf(uint64(0)), reflect.TypeOf(PlainName("")), reflect.TypeOf(PlainID(0))}

// keys encoding/json cannot write, or cannot read back
var badKeys = []reflect.Type{reflect.TypeOf(false), reflect.TypeOf(float64(0)), reflect.TypeOf([2]int{}), reflect.TypeOf(PlainRec{})}

var badKinds = []reflect.Type{reflect.TypeOf((*int)(nil)), reflect.TypeOf((*PlainRec)(nil)), reflect.TypeOf((*any)(nil)).Elem(),
	reflect.TypeOf((chan int)(nil)), reflect.TypeOf((func())(nil)), reflect.TypeOf(complex128(0)), reflect.TypeOf((*json.Marshaler)(nil)).Elem()}

func (g *gen) fieldType(depth int) reflect.Type {
	r := g.rng.Intn(100)
	if depth <= 0 && r >= 55 {
		r = g.rng.Intn(55)
	}
	switch {
	case r < 42:
		return prims[g.rng.Intn(len(prims))]
	case r < 55:
		t := familyTypes[g.rng.Intn(len(familyTypes))]
		g.feat["family:"+t.Name()] = true
		return t
	case r < 68:
		g.feat["slice"] = true
		return reflect.SliceOf(g.fieldType(depth - 1))
	case r < 73:
		g.feat["array"] = true
		return reflect.ArrayOf(g.rng.Intn(4), g.fieldType(depth-1))
	case r < 84:
		g.feat["map"] = true
		k := goodKeys[g.rng.Intn(len(goodKeys))]
		if g.rng.Intn(25) == 0 {
			k = badKeys[g.rng.Intn(len(badKeys))]
			g.feat["bad-map-key"] = true
		}
		return reflect.MapOf(k, g.fieldType(depth-1))
	case r < 97:
		if g.spec && g.rng.Intn(4) != 0 {
			return prims[g.rng.Intn(len(prims))]
		}
		g.feat["nested-struct"] = true
		return g.structType(depth - 1)
	default:
		g.feat["bad-kind"] = true
		return badKinds[g.rng.Intn(len(badKinds))]
	}
}

func (g *gen) structType(depth int) reflect.Type {
	n := g.rng.Intn(7)
	style := g.rng.Intn(10) // 0-5 all exported, 6-7 mixed, 8 all unexported, 9 coin per field
	var fs []reflect.StructField
	for i := 0; i < n; i++ {
		exported := true
		switch {
		case style >= 6 && style <= 7:
			exported = i%2 == 0 != (style == 7)
		case style == 8:
			exported = false
		case style == 9:
			exported = g.rng.Intn(2) == 0
		}
		f := reflect.StructField{Type: g.fieldType(depth)}
		if exported {
			f.Name = fmt.Sprintf("F%d", i)
			if g.rng.Intn(5) < 2 {
				g.nextTag++
				f.Tag = reflect.StructTag(fmt.Sprintf(`json:"k%d"`, g.nextTag))
			}
		} else {
			f.Name = fmt.Sprintf("u%d", i)
			f.PkgPath = "main"
			g.feat["unexported-field"] = true
		}
		fs = append(fs, f)
	}
	// occasionally two exported fields answer to the same JSON name
	if len(fs) >= 2 && g.rng.Intn(30) == 0 {
		var ex []int
		for i, f := range fs {
			if f.PkgPath == "" {
				ex = append(ex, i)
			}
		}
		if len(ex) >= 2 {
			a, b := ex[0], ex[len(ex)-1]
			if g.rng.Intn(2) == 0 {
				fs[a].Tag, fs[b].Tag = `json:"same"`, `json:"same"`
			} else {
				fs[a].Tag = reflect.StructTag(fmt.Sprintf(`json:"%s"`, fs[b].Name))
				fs[b].Tag = ""
			}
			g.feat["json-name-collision"] = true
		}
	}
	return reflect.StructOf(fs)
}

// ----------------------------------------------------------- value generator

var strPool = []string{"", "a", "Akita", `"quoted"`, "back\\slash", "line\nbreak\ttab", "\x00nul", "  ", "<script>&amp;</script>", "日本語", "😀", "null", "[]", "{}", " ", "\u007f\u0080"}

func (g *gen) str() string {
	if g.rng.Intn(3) > 0 {
		return strPool[g.rng.Intn(len(strPool))]
	}
	n := g.rng.Intn(12)
	rs := make([]rune, n)
	for i := range rs {
		switch g.rng.Intn(4) {
		case 0:
			rs[i] = rune(g.rng.Intn(0x80))
		case 1:
			rs[i] = rune(0x80 + g.rng.Intn(0x700))
		case 2:
			rs[i] = rune(0x800 + g.rng.Intn(0xD000-0x800))
		default:
			rs[i] = rune(0x10000 + g.rng.Intn(0x10000))
		}
	}
	return string(rs)
}

func (g *gen) i64(bits int) int64 {
	lo, hi := int64(-1)<<(bits-1), int64(1)<<(bits-1)-1
	switch g.rng.Intn(6) {
	case 0:
		return 0
	case 1:
		return lo
	case 2:
		return hi
	case 3:
		return int64(g.rng.Intn(5)) - 2
	default:
		x := int64(g.rng.Uint64())
		if bits < 64 {
			x = x >> (64 - bits)
		}
		return x
	}
}

func (g *gen) u64(bits int) uint64 {
	max := ^uint64(0) >> (64 - bits)
	switch g.rng.Intn(6) {
	case 0:
		return 0
	case 1:
		return max
	case 2:
		return max - 1
	case 3:
		return uint64(g.rng.Intn(3))
	case 4:
		return (uint64(1)<<53 + uint64(g.rng.Intn(3))) & max // beyond float64's exact range
	default:
		return g.rng.Uint64() & max
	}
}

func (g *gen) f64(bits int) float64 {
	var f float64
	switch g.rng.Intn(8) {
	case 0:
		f = 0
	case 1:
		f = math.MaxFloat64
		if bits == 32 {
			f = math.MaxFloat32
		}
	case 2:
		f = math.SmallestNonzeroFloat64
		if bits == 32 {
			f = math.SmallestNonzeroFloat32
		}
	case 3:
		f = -float64(g.rng.Intn(1000)) / 7
	case 4:
		f = float64(g.rng.Int63())
	case 5:
		f = 0.1 + 0.2
	default:
		f = math.Float64frombits(g.rng.Uint64())
		if bits == 32 {
			f = float64(math.Float32frombits(g.rng.Uint32()))
		}
	}
	if math.IsNaN(f) || math.IsInf(f, 0) {
		f = 1.5
	}
	if bits == 32 {
		f = float64(float32(f))
		if math.IsInf(f, 0) {
			f = math.MaxFloat32
		}
	}
	return f
}

// settable returns v, or a writable alias of it when v was reached through an unexported field.
func settable(v reflect.Value) reflect.Value {
	if v.CanSet() {
		return v
	}
	return reflect.NewAt(v.Type(), unsafe.Pointer(v.UnsafeAddr())).Elem()
}

func (g *gen) fill(v reflect.Value, depth int) {
	v = settable(v)
	t := v.Type()
	switch t.Kind() {
	case reflect.Bool:
		v.SetBool(g.rng.Intn(2) == 0)
	case reflect.Int, reflect.Int64:
		v.SetInt(g.i64(64))
	case reflect.Int8:
		v.SetInt(g.i64(8))
	case reflect.Int16:
		v.SetInt(g.i64(16))
	case reflect.Int32:
		v.SetInt(g.i64(32))
	case reflect.Uint, reflect.Uint64:
		v.SetUint(g.u64(64))
	case reflect.Uint8:
		v.SetUint(g.u64(8))
	case reflect.Uint16:
		v.SetUint(g.u64(16))
	case reflect.Uint32:
		v.SetUint(g.u64(32))
	case reflect.Float32:
		v.SetFloat(g.f64(32))
	case reflect.Float64:
		v.SetFloat(g.f64(64))
	case reflect.Complex128:
		v.SetComplex(complex(1, 2))
	case reflect.String:
		v.SetString(g.str())
	case reflect.Slice:
		switch r := g.rng.Intn(7); {
		case r == 0:
			v.Set(reflect.Zero(t))
		case r == 1:
			v.Set(reflect.MakeSlice(t, 0, 0))
		default:
			n := 1 + g.rng.Intn(3)
			s := reflect.MakeSlice(t, n, n)
			for i := 0; i < n; i++ {
				g.fill(s.Index(i), depth+1)
			}
			v.Set(s)
		}
	case reflect.Array:
		for i := 0; i < v.Len(); i++ {
			g.fill(v.Index(i), depth+1)
		}
	case reflect.Map:
		switch r := g.rng.Intn(7); {
		case r == 0:
			v.Set(reflect.Zero(t))
		case r == 1:
			v.Set(reflect.MakeMap(t))
		default:
			m := reflect.MakeMap(t)
			for i, n := 0, 1+g.rng.Intn(3); i < n; i++ {
				k := reflect.New(t.Key()).Elem()
				g.fill(k, depth+1)
				e := reflect.New(t.Elem()).Elem()
				g.fill(e, depth+1)
				m.SetMapIndex(k, e)
			}
			v.Set(m)
		}
	case reflect.Struct:
		for i := 0; i < v.NumField(); i++ {
			g.fill(v.Field(i), depth+1)
		}
	case reflect.Ptr:
		if g.rng.Intn(3) == 0 {
			v.Set(reflect.Zero(t))
		} else {
			p := reflect.New(t.Elem())
			g.fill(p.Elem(), depth+1)
			v.Set(p)
		}
	case reflect.Interface:
		if t.NumMethod() == 0 {
			switch g.rng.Intn(4) {
			case 0:
				v.Set(reflect.Zero(t))
			case 1:
				v.Set(reflect.ValueOf(int(g.i64(32))))
			case 2:
				v.Set(reflect.ValueOf(g.str()))
			default:
				v.Set(reflect.ValueOf(PlainRec{A: 1, B: "x"}))
			}
		}
	}
}

// ---------------------------------------------------------------- the oracle

func rejectClass(err error) string {
	s := err.Error()
	switch {
	case strings.Contains(s, "serializes as {}"):
		return "all-unexported-no-json"
	case strings.Contains(s, "both serialize as"):
		return "json-name-collision"
	case strings.Contains(s, "pointer receiver"):
		return "pointer-receiver-marshaler"
	case strings.Contains(s, "has unexported field"):
		return "mixed-unexported-no-json"
	case strings.Contains(s, "no UnmarshalJSON"):
		return "marshal-without-unmarshal"
	case strings.Contains(s, "disallowed kind"):
		return "pointer-interface-chan-func"
	case strings.Contains(s, "map key"):
		return "map-key"
	case strings.Contains(s, "nested structs not allowed"):
		return "nested-struct-in-spec"
	case strings.Contains(s, "unsupported kind"):
		return "unsupported-kind"
	}
	return "other"
}

var marshalerT = reflect.TypeOf((*json.Marshaler)(nil)).Elem()

// familiesIn lists the family types reachable from t.
func familiesIn(t reflect.Type, out map[string]bool) map[string]bool {
	if isFamily(t) && t.Name() != "" && !strings.HasPrefix(t.Name(), "St") {
		out[t.Name()] = true
		return out
	}
	switch t.Kind() {
	case reflect.Struct:
		for i := 0; i < t.NumField(); i++ {
			familiesIn(t.Field(i).Type, out)
		}
	case reflect.Slice, reflect.Array, reflect.Ptr:
		familiesIn(t.Elem(), out)
	case reflect.Map:
		familiesIn(t.Key(), out)
		familiesIn(t.Elem(), out)
	}
	return out
}

// familyKey names the defect class a family type stands for.
func familyKey(name string) string {
	switch name {
	case "LevelMarshalOnly", "BitsMarshalOnly":
		return "validate/marshal-only-nonstruct-accepted"
	case "PtrPairExported", "PtrPairHidden":
		return "validate/pointer-receiver-marshaler-accepted"
	case "MarshalOnly":
		return "validate/marshal-only-struct-accepted"
	}
	return "validate/lossy-family/" + name
}

// classify turns an observed loss into a stable key naming the defect class.
func classify(d *diffInfo, t reflect.Type) string {
	switch {
	case d.Collision:
		return "validate/json-name-collision-accepted"
	case d.Owner != nil && !d.Owner.Implements(marshalerT) && d.OwnerHasExported:
		return "validate/mixed-unexported-accepted"
	case d.Owner != nil && !d.Owner.Implements(marshalerT) && !d.OwnerHasExported:
		return "validate/all-unexported-accepted"
	case d.Named != nil && isFamily(d.Named):
		return familyKey(d.Named.Name())
	}
	return "validate/lossy/" + d.Class
}

// errKey: an accepted type whose value cannot be written or read back.
func errKey(stage string, err error, t reflect.Type) string {
	s := err.Error()
	fams := familiesIn(t, map[string]bool{})
	for name := range fams {
		if strings.Contains(s, "main."+name) {
			return familyKey(name)
		}
	}
	// the pointer-receiver pair: saved with the default struct encoding, read with the custom decoder
	if fams["PtrPairExported"] && strings.Contains(s, "cannot unmarshal object into") && strings.Contains(s, "of type []int") {
		return familyKey("PtrPairExported")
	}
	return "validate/accepted-" + stage + "-error/" + kit.NormalizeMsg(s)
}

func isZero(v reflect.Value) bool {
	return reflect.DeepEqual(v.Interface(), reflect.Zero(v.Type()).Interface())
}

// roundTrip is the checkpoint encoding of a State: json.Marshal(value) and json.Unmarshal into a fresh value.
func roundTrip(c *kit.Case, r *kit.R, t reflect.Type, v reflect.Value, feat map[string]bool, how string) bool {
	data, err := json.Marshal(v.Interface())
	if err != nil {
		c.Fail(errKey("marshal", err, t), map[string]any{"type": t.String(), "error": err.Error(), "path": how})
		return false
	}
	back := reflect.New(t)
	if err := json.Unmarshal(data, back.Interface()); err != nil {
		c.Fail(errKey("unmarshal", err, t), map[string]any{"type": t.String(), "error": err.Error(), "json": string(data), "path": how})
		return false
	}
	return compare(c, t, v, back.Elem(), string(data), how)
}

func compare(c *kit.Case, t reflect.Type, want, got reflect.Value, js, how string) bool {
	if reflect.DeepEqual(want.Interface(), got.Interface()) {
		return true
	}
	ds := allDiffs(want, got)
	if len(ds) == 0 {
		ds = []diffInfo{{Class: "unclassified"}}
	}
	if len(js) > 600 {
		js = js[:600] + "…"
	}
	// every distinct defect class visible in this value is reported, so that a known one cannot mask another
	seen := map[string]bool{}
	for i := range ds {
		d := &ds[i]
		key := classify(d, t)
		if seen[key] {
			continue
		}
		seen[key] = true
		c.Fail(key, map[string]any{"type": t.String(), "lost_at": d.Path, "class": d.Class, "before": d.Want, "after": d.Got, "json": js, "path": how})
	}
	return false
}

func run(b kit.Batch, r *kit.R) {
	if b.Name == "static-extra" {
		runStaticExtra(b, r)
		return
	}
	var p params
	b.P(&p)
	if p.Mode == "component" {
		runComponent(b, r, p)
		return
	}
	validate := modeling.ValidateState
	if p.Mode == "spec" {
		validate = modeling.ValidateSpec
	}
	r.ForEach(b.N, func(c *kit.Case) {
		g := &gen{rng: c.Rng, spec: p.Mode == "spec", feat: map[string]bool{}}
		t := g.structType(2 + c.Rng.Intn(2))
		c.Desc(map[string]any{"mode": p.Mode, "type": t.String()})
		err := validate(reflect.Zero(t).Interface())
		for f := range g.feat {
			r.Count("generated_with:"+strings.SplitN(f, ":", 2)[0], 1)
		}
		if err != nil {
			r.Count("types_rejected", 1)
			r.Count("rejected:"+rejectClass(err), 1)
			// for the evidence only: would it have been lossless?
			lossless := true
			for i := 0; i < 3 && lossless; i++ {
				v := reflect.New(t).Elem()
				g.fill(v, 0)
				data, e1 := json.Marshal(v.Interface())
				back := reflect.New(t)
				if e1 != nil || json.Unmarshal(data, back.Interface()) != nil || !reflect.DeepEqual(v.Interface(), back.Elem().Interface()) {
					lossless = false
				}
			}
			if lossless {
				r.Count("rejected_although_3_values_round_tripped(not judged)", 1)
			}
			return
		}
		r.Count("types_accepted", 1)
		r.Count("types_accepted_"+p.Mode, 1)
		r.Distinct("accepted_type_shapes", t.String())
		if g.feat["nested-struct"] {
			r.Count("accepted_types_with_nested_struct", 1)
		}
		if g.feat["family:FaithfulPair"] || g.feat["family:LevelPair"] {
			r.Count("accepted_types_with_custom_json_pair", 1)
		}
		if g.feat["unexported-field"] {
			r.Count("accepted_types_with_unexported_field", 1)
		}
		nonzero := false
		for i := 0; i < p.Values; i++ {
			v := reflect.New(t).Elem()
			if i > 0 { // value 0 is the zero value
				g.fill(v, 0)
			}
			if !isZero(v) {
				nonzero = true
			}
			r.Count("values_round_tripped", 1)
			if !roundTrip(c, r, t, v, g.feat, "json.Marshal/json.Unmarshal") {
				r.Count("values_lost", 1)
				break
			}
			if i == 1 {
				data, _ := json.Marshal(v.Interface())
				s := string(data)
				if len(s) > 300 {
					s = s[:300] + "…"
				}
				c.Sample(map[string]any{"mode": p.Mode, "type": t.String(), "accepted": true, "value_json": s})
			}
		}
		if t.NumField() > 0 && nonzero {
			c.Nontrivial(p.Mode + "/" + t.String())
		}
	})
}

// ---------------------------------------------------- real component path

type compSpec struct {
	Width int `json:"width"`
}

func viaComponent[T any](c *kit.Case, r *kit.R, g *gen) {
	var zero T
	t := reflect.TypeOf(zero)
	c.Desc(map[string]any{"mode": "component", "type": t.String()})
	verr := modeling.ValidateState(zero)
	build := func(name string) (comp *modeling.Component[compSpec, T, modeling.None], refused any) {
		defer func() { refused = recover() }()
		comp = modeling.NewBuilder[compSpec, T, modeling.None]().
			WithEngine(timing.NewSerialEngine()).WithFreq(1000000000).WithSpec(compSpec{Width: 4}).Build(name)
		return comp, nil
	}
	a, refused := build("A")
	if (verr != nil) != (refused != nil) {
		c.Failf("validate/build-disagrees-with-ValidateState", "type %s: ValidateState says %v, Build says %v", t, verr, refused)
		return
	}
	if refused != nil {
		r.Count("component_build_refusals", 1)
		r.Count("rejected:"+rejectClass(verr), 1)
		return
	}
	r.Count("component_builds", 1)
	g.fill(reflect.ValueOf(&a.State).Elem(), 0)
	var buf bytes.Buffer
	if err := a.SaveCheckpoint(&buf); err != nil {
		c.Fail(errKey("marshal", err, t), map[string]any{"type": t.String(), "error": err.Error(), "path": "Component.SaveCheckpoint"})
		return
	}
	js := buf.String()
	bcomp, _ := build("A")
	if err := bcomp.LoadCheckpoint(&buf); err != nil {
		key := errKey("unmarshal", err, t)
		c.Fail(key, map[string]any{"type": t.String(), "error": err.Error(), "json": js, "path": "Component.LoadCheckpoint"})
		return
	}
	r.Count("component_checkpoints_round_tripped", 1)
	if compare(c, t, reflect.ValueOf(&a.State).Elem(), reflect.ValueOf(&bcomp.State).Elem(), js, "Component.SaveCheckpoint/LoadCheckpoint") {
		if !isZero(reflect.ValueOf(a.State)) {
			c.Nontrivial("component/" + t.String() + "/" + fmt.Sprint(c.Seed))
		}
	}
	if c.Index < 40 {
		if len(js) > 300 {
			js = js[:300] + "…"
		}
		c.Sample(map[string]any{"mode": "component", "type": t.String(), "checkpoint": js})
	}
}

func runComponent(b kit.Batch, r *kit.R, p params) {
	runners := []func(*kit.Case, *kit.R, *gen){
		viaComponent[StPlain], viaComponent[StMixed], viaComponent[StNestedMixed], viaComponent[StHidden], viaComponent[StWithHidden],
		viaComponent[StWithPair], viaComponent[StWithMarshalOnly], viaComponent[StWithPtrPair], viaComponent[StWithPtrPairInSlice],
		viaComponent[StWithLevelMarshalOnly], viaComponent[StWithBits], viaComponent[StCollision], viaComponent[StEmpty], viaComponent[StDeep],
		viaComponent[modeling.None], viaComponent[PlainRec], viaComponent[FaithfulPair],
	}
	r.ForEach(b.N*3, func(c *kit.Case) {
		g := &gen{rng: c.Rng, feat: map[string]bool{}}
		runners[c.Index%len(runners)](c, r, g)
	})
}
