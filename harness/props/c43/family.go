package main

import (
	"encoding/json"
	"fmt"
	"reflect"
	"strconv"
	"strings"
)

// Hand-written field types that carry methods (reflect.StructOf cannot make those).
// Every custom pair in this family is faithful by construction; what varies is
// which halves exist and on which receiver.

// FaithfulPair: state only in unexported fields, value-receiver MarshalJSON +
// pointer-receiver UnmarshalJSON. Must be accepted and lossless.
type FaithfulPair struct {
	vals []int
	tag  string
}

type faithfulDTO struct {
	Vals []int  `json:"vals"`
	Tag  string `json:"tag"`
}

func (f FaithfulPair) MarshalJSON() ([]byte, error) {
	return json.Marshal(faithfulDTO{f.vals, f.tag})
}
func (f *FaithfulPair) UnmarshalJSON(b []byte) error {
	var d faithfulDTO
	if err := json.Unmarshal(b, &d); err != nil {
		return err
	}
	f.vals, f.tag = d.Vals, d.Tag
	return nil
}

// MarshalOnly: the save half only (the class validate.go names explicitly).
type MarshalOnly struct {
	vals []int
}

func (m MarshalOnly) MarshalJSON() ([]byte, error) { return json.Marshal(m.vals) }

// Hidden: unexported only, no custom JSON.
type Hidden struct {
	vals []int
	n    uint64
}

// PtrPairExported: exported field, both halves on the pointer receiver. A State
// is marshalled by value, so a direct field of this type is written with the
// default struct encoding and read back with the custom decoder.
type PtrPairExported struct {
	V []int
}

func (p *PtrPairExported) MarshalJSON() ([]byte, error) { return json.Marshal(p.V) }
func (p *PtrPairExported) UnmarshalJSON(b []byte) error { return json.Unmarshal(b, &p.V) }

// PtrPairHidden: unexported field, both halves on the pointer receiver.
type PtrPairHidden struct {
	v []int
}

func (p *PtrPairHidden) MarshalJSON() ([]byte, error) { return json.Marshal(p.v) }
func (p *PtrPairHidden) UnmarshalJSON(b []byte) error { return json.Unmarshal(b, &p.v) }

// LevelPair: a named integer with a faithful pair (written as a string).
type LevelPair int

func (l LevelPair) MarshalJSON() ([]byte, error) { return json.Marshal("L" + strconv.Itoa(int(l))) }
func (l *LevelPair) UnmarshalJSON(b []byte) error {
	var s string
	if err := json.Unmarshal(b, &s); err != nil {
		return err
	}
	n, err := strconv.Atoi(strings.TrimPrefix(s, "L"))
	*l = LevelPair(n)
	return err
}

// LevelMarshalOnly: a named integer with the save half only.
type LevelMarshalOnly int

func (l LevelMarshalOnly) MarshalJSON() ([]byte, error) {
	return json.Marshal("L" + strconv.Itoa(int(l)))
}

// BitsMarshalOnly: a named slice with the save half only.
type BitsMarshalOnly []bool

func (b BitsMarshalOnly) MarshalJSON() ([]byte, error) {
	var sb strings.Builder
	for _, x := range b {
		if x {
			sb.WriteByte('1')
		} else {
			sb.WriteByte('0')
		}
	}
	return json.Marshal(sb.String())
}

// PlainNamed types without methods.
type PlainID uint64
type PlainName string
type PlainRec struct {
	A int    `json:"a"`
	B string `json:"b"`
}

var familyTypes = []reflect.Type{
	reflect.TypeOf(FaithfulPair{}),
	reflect.TypeOf(MarshalOnly{}),
	reflect.TypeOf(Hidden{}),
	reflect.TypeOf(PtrPairExported{}),
	reflect.TypeOf(PtrPairHidden{}),
	reflect.TypeOf(LevelPair(0)),
	reflect.TypeOf(LevelMarshalOnly(0)),
	reflect.TypeOf(BitsMarshalOnly(nil)),
	reflect.TypeOf(PlainID(0)),
	reflect.TypeOf(PlainName("")),
	reflect.TypeOf(PlainRec{}),
}

func isFamily(t reflect.Type) bool {
	return t.PkgPath() == "main" || strings.HasSuffix(t.PkgPath(), "/c43")
}

func familyName(t reflect.Type) string { return fmt.Sprint(t.Name()) }

// ---- static State types that go through the real Component checkpoint ----

type StPlain struct {
	Count int               `json:"count"`
	Names []string          `json:"names"`
	M     map[uint64][]byte `json:"m"`
	F     float64
	Arr   [3]int16
	Recs  []PlainRec
	ByKey map[string]PlainRec
}

type StMixed struct {
	Count   int `json:"count"`
	scratch []uint64
}

type StNestedMixed struct {
	Items []StMixed         `json:"items"`
	ByID  map[int32]StMixed `json:"by_id"`
}

type StHidden struct {
	a int
	b []string
}

type StWithHidden struct {
	N int
	H Hidden
}

type StWithPair struct {
	N     int
	P     FaithfulPair
	Ps    []FaithfulPair
	ByKey map[string]FaithfulPair
	L     LevelPair
}

type StWithMarshalOnly struct {
	N int
	M MarshalOnly
}

type StWithPtrPair struct {
	N int
	P PtrPairExported
}

type StWithPtrPairInSlice struct {
	N  int
	Ps []PtrPairExported
}

type StWithLevelMarshalOnly struct {
	N int
	L LevelMarshalOnly
}

type StWithBits struct {
	N    int
	Bits BitsMarshalOnly
}

type StCollision struct {
	A int `json:"x"`
	B int `json:"x"`
	C int
}

type StEmpty struct{}

type StDeep struct {
	L1 []map[string][2][]PlainRec
	L2 map[int64]map[string][]float32
	U8 []uint8
	B  [][]byte
	S  []PlainName
}
