// C36 The trace database records exactly the traced tasks: a call-order model
// of tracing windows and task lifetimes against the tables the real DBTracer
// writes through the real recorder into a SQLite file.
package main

import (
	"database/sql"
	"fmt"
	"os"
	"sort"
	"strings"

	"verifharness/kit"

	"github.com/sarchlab/akita/v5/datarecording"
	"github.com/sarchlab/akita/v5/timing"
	"github.com/sarchlab/akita/v5/tracing"
)

type clock struct{ now timing.VTimeInPicoSec }

func (c *clock) CurrentTime() timing.VTimeInPicoSec { return c.now }

type mTask struct {
	id, parent           uint64
	kind, what, loc      string
	start, end           uint64
	started, ended       bool
	traced               bool     // running at some moment while tracing was on
	markedAsPlaceholder  bool     // a window opened while the id was only mentioned (not started yet)
	tags                 []string // canonical rows
	milestones           []string
	msTimes              map[uint64]bool
	sameInstantMilestone bool
}

var (
	kinds = []string{"req_in", "req_out", "pipeline", "buffer", "it's"}
	whats = []string{"ReadReq", "WriteReq", "L2.bank", `q"uote`, "ünï☃"}
	locs  = []string{"GPU[0].L1VCache[3].req_in", "Driver.req_out", "GPU[1].L2.bank", "a'b", "DRAM"}
	tagWs = []string{"read-hit", "write-miss", "mshr-hit", ""}
	msKs  = []tracing.MilestoneKind{tracing.MilestoneKindQueue, tracing.MilestoneKindData, tracing.MilestoneKindWork, tracing.MilestoneKindSubTask, tracing.MilestoneKindOther}
)

func fl(v uint64) string { return fmt.Sprintf("%x", float64(v)) }

func main() {
	kit.Main(kit.Prop{
		ID:    "C36",
		Level: "exploration",
		Rule: "well-formed histories of 5..120 calls on one DBTracer: alternating StartTracing/StopTracing windows, task starts/ends (zero-length, spanning several windows, wholly outside windows, never ended), " +
			"tags and milestones (repeated instants, before the start and after the end of their task), clock advances, ending with Terminate inside or outside a window and Close of the real recorder; " +
			"the trace, tag, milestone, daisen$segments and location tables are read back from the SQLite file and compared with a call-order model. " +
			"A history is non-trivial when it has at least one window, one task recorded and one task that must not be recorded; distinct by the full call list",
		Assumptions: []string{
			"task, tag and milestone ids are unique and below 2^63; times are below 2^53 (stored as float64)",
			"each task id is started once and ended at most once after its start; windows alternate; nothing is called after Terminate",
			"a task first mentioned by a tag/milestone that is still unstarted when a window opens and then runs wholly outside any window is not judged (the code marks it, the statement is silent)",
		},
		Plan: func(tier string, seed int64) []kit.Batch {
			nb, n := 16, 40
			if tier == "thorough" {
				nb, n = 32, 3200
			}
			var bs []kit.Batch
			for i := 0; i < nb; i++ {
				bs = append(bs, kit.Batch{Name: fmt.Sprintf("hist%d", i), Seed: seed*1000 + int64(i), N: n})
			}
			return bs
		},
		Run: run,
		MustObserve: []string{"tasks_recorded_running_at_window_open", "tasks_recorded_started_in_window", "tasks_outside_windows_not_recorded",
			"tasks_unended_at_terminate", "milestones_dropped_same_instant", "segments", "terminate_inside_window", "tasks_spanning_two_windows"},
	})
}

func recoverMsg(f func()) (msg string) {
	defer func() {
		if e := recover(); e != nil {
			msg = fmt.Sprint(e)
		}
	}()
	f()
	return ""
}

func run(b kit.Batch, r *kit.R) {
	r.ForEach(b.N, func(c *kit.Case) {
		rng := c.Rng
		path := fmt.Sprintf("%s/tr%d", r.WorkDir, c.Index)
		file := path + ".sqlite3"
		os.Remove(file)
		defer os.Remove(file)
		defer os.Remove(file + "-journal")

		var calls []string
		c.Desc(map[string]any{"calls": &calls})
		ownDB := rng.Intn(4) != 0
		var rec datarecording.DataRecorder
		if ownDB {
			db, err := sql.Open("sqlite", "file:"+file+"?_pragma=synchronous(off)&_pragma=journal_mode(memory)")
			if err != nil {
				panic(err)
			}
			rec = datarecording.NewDataRecorderWithDB(db)
		} else {
			rec = datarecording.NewDataRecorder(path)
		}
		clk := &clock{}
		tr := tracing.NewDBTracer(clk, rec)

		scale := uint64([]int{1, 10, 1000, 1 << 30}[rng.Intn(4)])
		now := uint64(rng.Intn(3)) * scale
		clk.now = timing.VTimeInPicoSec(now)
		tracing_ := false
		winStart := uint64(0)
		windows := 0
		var segs []string
		tasks := map[uint64]*mTask{}
		var running, all []uint64
		nextID := uint64(1 + rng.Intn(5))
		newID := func() uint64 {
			nextID += 1 + uint64(rng.Intn(3))
			if rng.Intn(10) == 0 {
				nextID += uint64(rng.Int63n(1 << 40))
			}
			return nextID
		}
		aux := uint64(1 << 20)
		get := func(id uint64) *mTask {
			t := tasks[id]
			if t == nil {
				t = &mTask{id: id, msTimes: map[uint64]bool{}}
				tasks[id] = t
				all = append(all, id)
			}
			return t
		}
		openWindow := func() {
			tr.StartTracing()
			calls = append(calls, fmt.Sprintf("StartTracing@%d", now))
			tracing_ = true
			winStart = now
			windows++
			for _, id := range running {
				tasks[id].traced = true
			}
			for _, t := range tasks {
				if !t.started {
					t.markedAsPlaceholder = true
				}
			}
		}
		closeWindow := func(viaTerminate bool) {
			segs = append(segs, fl(winStart)+"|"+fl(now))
			tracing_ = false
			if !viaTerminate {
				tr.StopTracing()
				calls = append(calls, fmt.Sprintf("StopTracing@%d", now))
			}
		}
		pWindow := []int{3, 8, 20}[rng.Intn(3)]
		n := 5 + rng.Intn(60)
		if rng.Intn(5) == 0 {
			n = 60 + rng.Intn(60)
		}
		if rng.Intn(3) == 0 {
			openWindow() // tracing from the very start
		}
		for i := 0; i < n; i++ {
			if rng.Intn(3) == 0 {
				now += uint64(rng.Intn(4)) * scale
				clk.now = timing.VTimeInPicoSec(now)
			}
			x := rng.Intn(100)
			switch {
			case x < pWindow:
				if tracing_ {
					closeWindow(false)
				} else {
					openWindow()
				}
			case x < pWindow+30: // start a task
				var t *mTask
				// sometimes an id that was already mentioned by a tag/milestone
				var mentioned []uint64
				for _, id := range all {
					if !tasks[id].started && !tasks[id].ended {
						mentioned = append(mentioned, id)
					}
				}
				if len(mentioned) > 0 && rng.Intn(2) == 0 {
					t = tasks[mentioned[rng.Intn(len(mentioned))]]
				} else {
					t = get(newID())
				}
				t.kind, t.what, t.loc = kinds[rng.Intn(len(kinds))], whats[rng.Intn(len(whats))], locs[rng.Intn(len(locs))]
				if len(all) > 1 && rng.Intn(2) == 0 {
					t.parent = all[rng.Intn(len(all))]
				}
				t.start, t.started = now, true
				if tracing_ {
					t.traced = true
				}
				running = append(running, t.id)
				tr.StartTask(tracing.TaskStart{ID: t.id, ParentID: t.parent, Kind: t.kind, What: t.what, Location: t.loc, Time: timing.VTimeInPicoSec(now)})
				calls = append(calls, fmt.Sprintf("StartTask(id=%d,parent=%d,%s,%s,%s)@%d", t.id, t.parent, t.kind, t.what, t.loc, now))
			case x < pWindow+55: // end a task
				if len(running) == 0 {
					continue
				}
				k := rng.Intn(len(running))
				t := tasks[running[k]]
				running = append(running[:k], running[k+1:]...)
				t.end, t.ended = now, true
				tr.EndTask(tracing.TaskEnd{ID: t.id, Time: timing.VTimeInPicoSec(now)})
				calls = append(calls, fmt.Sprintf("EndTask(id=%d)@%d", t.id, now))
			default: // tag or milestone
				var id uint64
				y := rng.Intn(20)
				switch {
				case y == 0: // an id that has not started (may start later)
					id = newID()
				case y == 1 && len(all) > 0: // any id, possibly already ended
					id = all[rng.Intn(len(all))]
				case len(running) > 0:
					id = running[rng.Intn(len(running))]
				default:
					continue
				}
				t := get(id)
				aux++
				if rng.Intn(2) == 0 {
					w := tagWs[rng.Intn(len(tagWs))]
					tr.AddTaskTag(tracing.TaskTag{ID: aux, TaskID: id, What: w, Time: timing.VTimeInPicoSec(now)})
					calls = append(calls, fmt.Sprintf("AddTaskTag(id=%d,task=%d,%q)@%d", aux, id, w, now))
					if !t.ended {
						t.tags = append(t.tags, fmt.Sprintf("%d|%d|%s|%q", aux, id, fl(now), w))
					}
				} else {
					k, w := msKs[rng.Intn(len(msKs))], whats[rng.Intn(len(whats))]
					tr.AddMilestone(tracing.Milestone{ID: aux, TaskID: id, Time: timing.VTimeInPicoSec(now), Kind: k, What: w})
					calls = append(calls, fmt.Sprintf("AddMilestone(id=%d,task=%d,%s,%q)@%d", aux, id, k, w, now))
					if !t.ended {
						if t.msTimes[now] {
							t.sameInstantMilestone = true
						} else {
							t.msTimes[now] = true
							t.milestones = append(t.milestones, fmt.Sprintf("%d|%d|%s|%q|%q", aux, id, fl(now), string(k), w))
						}
					}
				}
			}
		}
		termInWindow := tracing_
		if tracing_ {
			closeWindow(true)
		}
		if msg := recoverMsg(tr.Terminate); msg != "" {
			c.Failf("dbtracer/panic:"+kit.NormalizeMsg(msg), "Terminate panicked: %s", msg)
			rec.Close()
			return
		}
		calls = append(calls, fmt.Sprintf("Terminate@%d", now))
		if err := rec.Close(); err != nil {
			c.Failf("dbtracer/close", "recorder Close: %v", err)
			return
		}

		// ---- expectations
		wantTask := map[uint64]string{}
		notJudged := map[uint64]bool{}
		var wantTags, wantMs []string
		var nOutside, nUnended, nDropped int64
		for _, id := range all {
			t := tasks[id]
			if t.sameInstantMilestone && t.ended && t.traced {
				nDropped++
			}
			if !t.started {
				continue
			}
			if !t.ended {
				nUnended++
				continue
			}
			if !t.traced {
				if t.markedAsPlaceholder {
					notJudged[id] = true
					continue
				}
				nOutside++
				continue
			}
			wantTask[id] = fmt.Sprintf("%d|%d|%q|%q|%q|%s|%s", t.id, t.parent, t.kind, t.what, t.loc, fl(t.start), fl(t.end))
			wantTags = append(wantTags, t.tags...)
			wantMs = append(wantMs, t.milestones...)
		}

		// ---- read back
		got, err := readTrace(file)
		if err != nil {
			c.Failf("dbtracer/unreadable", "cannot read the trace back: %v", err)
			return
		}
		for id, rows := range got.tasks {
			if notJudged[id] {
				continue
			}
			w, ok := wantTask[id]
			switch {
			case !ok:
				t := tasks[id]
				why := "unknown id"
				if t != nil {
					why = fmt.Sprintf("started=%v ended=%v running-while-tracing=%v", t.started, t.ended, t.traced)
				}
				c.Failf("dbtracer/task-unexpected", "task %d is in the trace table but must not be (%s): %s", id, why, rows[0])
			case len(rows) > 1:
				c.Failf("dbtracer/task-duplicated", "task %d recorded %d times", id, len(rows))
			case rows[0] != w:
				c.Failf("dbtracer/task-fields", "task %d recorded as %s, want %s", id, rows[0], w)
			}
		}
		for id, w := range wantTask {
			if _, ok := got.tasks[id]; !ok {
				c.Failf("dbtracer/task-missing", "task %d was running while tracing was on and ended before Terminate but is not in the trace table; want %s", id, w)
			}
		}
		filter := func(rows []string) []string { // drop rows of tasks that are not judged
			var out []string
			for _, s := range rows {
				var a, tid uint64
				fmt.Sscanf(s, "%d|%d|", &a, &tid)
				if !notJudged[tid] {
					out = append(out, s)
				}
			}
			return out
		}
		if d := diffMulti(wantTags, filter(got.tags)); d != "" {
			c.Failf("dbtracer/tags", "tag table differs from the tags of the recorded tasks (id|task|time|what): %s", d)
		}
		if d := diffMulti(wantMs, filter(got.milestones)); d != "" {
			c.Failf("dbtracer/milestones", "milestone table differs from the per-instant milestones of the recorded tasks (id|task|time|kind|what): %s", d)
		}
		if d := diffMulti(segs, got.segments); d != "" {
			c.Failf("dbtracer/segments", "segment table differs from the tracing windows (start|end): %s", d)
		}
		if got.locErr != "" {
			c.Failf("dbtracer/location", "%s", got.locErr)
		}

		// ---- what was observed
		r.Count("histories", 1)
		r.Count("calls", int64(len(calls)))
		r.Count("windows", int64(windows))
		r.Count("segments", int64(len(got.segments)))
		r.Count("tasks_recorded", int64(len(wantTask)))
		r.Count("tasks_outside_windows_not_recorded", nOutside)
		r.Count("tasks_unended_at_terminate", nUnended)
		r.Count("milestones_dropped_same_instant", nDropped)
		r.Count("tags_recorded", int64(len(wantTags)))
		r.Count("milestones_recorded", int64(len(wantMs)))
		r.Count("tasks_not_judged_prestart_mention", int64(len(notJudged)))
		if termInWindow {
			r.Count("terminate_inside_window", 1)
		}
		// classification of recorded tasks by replaying the call list
		cls := classify(calls)
		r.Count("tasks_recorded_started_in_window", cls.inWin)
		r.Count("tasks_recorded_running_at_window_open", cls.atOpen)
		r.Count("tasks_spanning_two_windows", cls.span2)
		r.Max("max_calls", int64(len(calls)))
		if windows > 0 && len(wantTask) > 0 && nOutside+nUnended > 0 {
			c.Nontrivial(strings.Join(calls, ";"))
			c.Sample(map[string]any{"calls": calls, "trace_rows": len(got.tasks), "tag_rows": len(got.tags), "milestone_rows": len(got.milestones), "segments": got.segments})
		}
	})
}

type cls struct{ inWin, atOpen, span2 int64 }

// classify replays the call list (strings) to count how recorded tasks came to
// be recorded; it only feeds the evidence counters.
func classify(calls []string) (c cls) {
	on := false
	type st struct {
		startedIn bool
		opens     int
		wins      int
	}
	run := map[string]*st{}
	for _, s := range calls {
		switch {
		case strings.HasPrefix(s, "StartTracing"):
			on = true
			for _, t := range run {
				t.opens++
				t.wins++
			}
		case strings.HasPrefix(s, "StopTracing"):
			on = false
		case strings.HasPrefix(s, "StartTask(id="):
			id := s[len("StartTask(id="):strings.Index(s, ",")]
			t := &st{startedIn: on}
			if on {
				t.wins = 1
			}
			run[id] = t
		case strings.HasPrefix(s, "EndTask(id="):
			id := s[len("EndTask(id="):strings.Index(s, ")")]
			if t := run[id]; t != nil {
				if t.startedIn {
					c.inWin++
				} else if t.opens > 0 {
					c.atOpen++
				}
				if t.wins >= 2 {
					c.span2++
				}
				delete(run, id)
			}
		}
	}
	return c
}

func diffMulti(want, got []string) string {
	w := map[string]int{}
	for _, s := range want {
		w[s]++
	}
	for _, s := range got {
		w[s]--
	}
	var missing, extra []string
	for s, n := range w {
		for ; n > 0; n-- {
			missing = append(missing, s)
		}
		for ; n < 0; n++ {
			extra = append(extra, s)
		}
	}
	if len(missing)+len(extra) == 0 {
		return ""
	}
	sort.Strings(missing)
	sort.Strings(extra)
	if len(missing) > 4 {
		missing = missing[:4]
	}
	if len(extra) > 4 {
		extra = extra[:4]
	}
	return fmt.Sprintf("missing %q, not expected %q", missing, extra)
}

type traceDB struct {
	tasks      map[uint64][]string
	tags       []string
	milestones []string
	segments   []string
	locErr     string
}

func num(x any) (uint64, bool) {
	switch v := x.(type) {
	case int64:
		return uint64(v), v >= 0
	}
	return 0, false
}

func flt(x any) string {
	switch v := x.(type) {
	case float64:
		return fmt.Sprintf("%x", v)
	case int64:
		return fmt.Sprintf("int:%d", v)
	}
	return fmt.Sprintf("?%T:%v", x, x)
}

func str(x any) string {
	if s, ok := x.(string); ok {
		return fmt.Sprintf("%q", s)
	}
	return fmt.Sprintf("?%T:%v", x, x)
}

func query(db *sql.DB, q string, ncol int, f func(v []any)) error {
	rs, err := db.Query(q)
	if err != nil {
		return fmt.Errorf("%s: %w", q, err)
	}
	defer rs.Close()
	for rs.Next() {
		v := make([]any, ncol)
		p := make([]any, ncol)
		for i := range v {
			p[i] = &v[i]
		}
		if err := rs.Scan(p...); err != nil {
			return err
		}
		f(v)
	}
	return rs.Err()
}

func readTrace(file string) (t traceDB, err error) {
	db, err := sql.Open("sqlite", file)
	if err != nil {
		return t, err
	}
	defer db.Close()
	t.tasks = map[uint64][]string{}
	loc := map[int64]string{}
	seen := map[string]bool{}
	var hasLoc int
	if err = db.QueryRow(`SELECT COUNT(*) FROM sqlite_master WHERE type='table' AND name='location'`).Scan(&hasLoc); err != nil {
		return t, err
	}
	if hasLoc > 0 {
		if err = query(db, `SELECT ID, Locale FROM location`, 2, func(v []any) {
			id, ok := v[0].(int64)
			s, ok2 := v[1].(string)
			if !ok || !ok2 {
				t.locErr = fmt.Sprintf("location row (%v,%v) has the wrong types", v[0], v[1])
				return
			}
			if _, dup := loc[id]; dup || seen[s] {
				t.locErr = fmt.Sprintf("location table is not one-to-one at (%d,%q)", id, s)
			}
			loc[id], seen[s] = s, true
		}); err != nil {
			return t, err
		}
	}
	if err = query(db, `SELECT ID, ParentID, Kind, What, Location, StartTime, EndTime FROM trace`, 7, func(v []any) {
		id, ok := num(v[0])
		par, ok2 := num(v[1])
		l := "?"
		if lid, ok3 := v[4].(int64); ok3 {
			if s, ok4 := loc[lid]; ok4 {
				l = fmt.Sprintf("%q", s)
			} else {
				l = fmt.Sprintf("dangling location id %d", lid)
			}
		}
		row := fmt.Sprintf("%d|%d|%s|%s|%s|%s|%s", id, par, str(v[2]), str(v[3]), l, flt(v[5]), flt(v[6]))
		if !ok || !ok2 {
			row = "bad id types: " + row
		}
		t.tasks[id] = append(t.tasks[id], row)
	}); err != nil {
		return t, err
	}
	if err = query(db, `SELECT ID, TaskID, Time, What FROM tag`, 4, func(v []any) {
		a, _ := num(v[0])
		b, _ := num(v[1])
		t.tags = append(t.tags, fmt.Sprintf("%d|%d|%s|%s", a, b, flt(v[2]), str(v[3])))
	}); err != nil {
		return t, err
	}
	if err = query(db, `SELECT ID, TaskID, Time, Kind, What FROM milestone`, 5, func(v []any) {
		a, _ := num(v[0])
		b, _ := num(v[1])
		t.milestones = append(t.milestones, fmt.Sprintf("%d|%d|%s|%s|%s", a, b, flt(v[2]), str(v[3]), str(v[4])))
	}); err != nil {
		return t, err
	}
	if err = query(db, `SELECT StartTime, EndTime FROM "daisen$segments"`, 2, func(v []any) {
		t.segments = append(t.segments, flt(v[0])+"|"+flt(v[1]))
	}); err != nil {
		return t, err
	}
	return t, nil
}
