// C40 Monitor requests never race with a running simulation.
//
// A PRNG-drawn memory hierarchy (library builders, scripted drivers) is run
// once without a monitor and once with a monitoring2.Monitor attached to its
// engine and components while client goroutines issue real HTTP requests
// (pause, continue, engine state, tick, component / field inspection,
// hangdetector buffers, progress, ...) in PRNG order against the running
// engine. The binary is race-instrumented: every race report with one access
// inside a Monitor HTTP handler and the other in event-handling code is a
// violation, keyed by handler and the pair of innermost akita functions. After
// a final continue the run must finish with the outcome of the unmonitored run.
package main

import (
	"encoding/json"
	"fmt"
	"io"
	"math/rand"
	"net/http"
	"net/url"
	"os"
	"runtime"
	"runtime/debug"
	"sort"
	"strings"
	"sync"
	"sync/atomic"
	"time"

	"verifharness/kit"
	"verifharness/kit/sim"

	"github.com/sarchlab/akita/v5/daisen2"
	"github.com/sarchlab/akita/v5/hooking"
	"github.com/sarchlab/akita/v5/messaging"
	"github.com/sarchlab/akita/v5/modeling"
	"github.com/sarchlab/akita/v5/monitoring2"
	"github.com/sarchlab/akita/v5/queueing"
	"github.com/sarchlab/akita/v5/timing"
)

type params struct {
	Profile string `json:"profile"`
	NumReqs int    `json:"num_reqs"`
	MaxHTTP int    `json:"max_http_per_client"`
}

// request kinds per profile (weights by repetition)
var profiles = map[string][]string{
	"mixed":    {"pause", "continue", "continue", "state", "tick", "tick", "component", "component", "field", "field", "buffers", "buffers", "progress", "progress", "list"},
	"control":  {"pause", "continue", "continue", "state", "list"},
	// pause/continue storm against inspection requests: aims at windows inside the control handlers themselves
	"ctrlrace": {"pause", "continue", "continue", "continue", "component", "field", "buffers", "now"},
	"inspect":  {"component", "component", "field", "field", "field", "pause", "continue", "continue", "state"},
	"tick":     {"tick", "tick", "tick", "state", "pause", "continue"},
	"buffers":  {"buffers", "buffers", "buffers", "state", "pause", "continue"},
	"progress": {"progress", "progress", "progress", "state", "pause", "continue"},
	"now":      {"now", "now", "state"},
}

func main() {
	kit.Main(kit.Prop{
		ID:    "C40",
		Level: "exploration",
		Rule: "each case is a PRNG-drawn memory hierarchy (0-3 ROB/cache levels, ideal/banked/DRAM memory, 1-2 scripted drivers, plus one ticking probe component that owns a top-level queueing.Buffer and " +
			"progress bars advanced by the drivers) run on a SerialEngine with a monitoring2.Monitor serving real HTTP on a loopback port, while 2-3 client goroutines issue requests drawn from a profile " +
			"(mixed = pause, continue, engine/state, tick/<comp>, component/<comp>, field/<path>[paged], hangdetector/buffers, progress, list_components; or one request family + pause/continue); " +
			"a case is non-trivial when >= 20 requests were answered while the engine's run loop was active, events were handled between requests, and the run completed; distinct by (profile, configuration, request-kind sequence hash)",
		Assumptions: []string{
			"serial engine only (kit/sim assemblies); the monitor is attached after the assembly is built exactly as simulation.Builder does (RegisterEngine, RegisterComponent per component, StartServer)",
			"the race detector decides 'concurrently': a report is attributed to the property when one access stack passes through a monitoring2.(*Monitor) HTTP handler and the other through SerialEngine.Run/RunUntil",
			"outcome = per-driver response log hash (order, kind, data, simulated time), request/response counts, driver data-check errors and the engine end time; when tick requests were issued only completion " +
				"and request counts are compared (an injected tick is an input: it may legitimately shift timing and the drivers' idle draws, hence the request stream)",
			"/api/now, /api/run, profiling, tracing and static endpoints are outside the statement's list; /api/now is exercised in its own batch and reported under its own key",
			"a request or a run that never returns is caught by the watchdog only (inconclusive)",
		},
		Plan:        plan,
		Run:         run,
		RaceKey:     raceKey,
		MustObserve: mustObserve(),
		BatchTimeout: func(tier string) time.Duration {
			if tier == "thorough" {
				return 40 * time.Minute
			}
			return 4 * time.Minute
		},
	})
}

func mustObserve() []string {
	out := []string{"runs_compared_with_unmonitored_run(full_outcome)", "runs_compared_with_unmonitored_run(completion_only)", "events_handled_between_consecutive_requests", "requests_answered_under_a_user_pause", "user_pause_hold_probes_with_run_active"}
	for _, k := range []string{"pause", "continue", "state", "tick", "component", "field", "buffers", "progress"} {
		out = append(out, "requests_while_run_active_"+k)
	}
	return out
}

func plan(tier string, seed int64) []kit.Batch {
	n, nreq, maxHTTP, reps := 4, 400, 150, 1
	if tier == "thorough" {
		n, nreq, maxHTTP, reps = 25, 1000, 500, 2
	}
	var bs []kit.Batch
	for rep := 0; rep < reps; rep++ {
		for _, pr := range []string{"mixed", "mixed", "mixed", "mixed", "mixed", "mixed", "inspect", "inspect", "tick", "tick", "buffers", "buffers", "progress", "progress", "control", "now"} {
			procs := []int{2, 4, 8, 16}[len(bs)%4]
			bs = append(bs, kit.Batch{Name: fmt.Sprintf("%s-%d", pr, len(bs)), Seed: seed*100003 + int64(len(bs)), N: n,
				Params: kit.MkParams(params{Profile: pr, NumReqs: nreq, MaxHTTP: maxHTTP}), Env: []string{fmt.Sprintf("GOMAXPROCS=%d", procs)}})
		}
		for _, procs := range []int{4, 16} {
			bs = append(bs, kit.Batch{Name: fmt.Sprintf("ctrlrace-%d", len(bs)), Seed: seed*100003 + int64(len(bs)), N: n,
				Params: kit.MkParams(params{Profile: "ctrlrace", NumReqs: nreq * 4, MaxHTTP: maxHTTP * 10}), Env: []string{fmt.Sprintf("GOMAXPROCS=%d", procs)}})
		}
	}
	return bs
}

// ---------------------------------------------------------------- race reports

func raceFrames(rep string) [][]string {
	var out [][]string
	for _, blk := range strings.Split(rep, "\n\n") {
		lines := strings.Split(blk, "\n")
		head := -1
		for i, l := range lines {
			if strings.Contains(l, " by goroutine ") || strings.Contains(l, " by main goroutine") {
				head = i
				break
			}
		}
		if head < 0 {
			continue
		}
		var fr []string
		for _, l := range lines[head+1:] {
			if strings.HasPrefix(l, "  ") && !strings.HasPrefix(l, "   ") {
				fr = append(fr, strings.TrimSuffix(strings.TrimSpace(l), "()"))
			}
		}
		out = append(out, fr)
		if len(out) == 2 {
			break
		}
	}
	return out
}

const akitaPrefix = "github.com/sarchlab/akita/v5/"
const monPrefix = akitaPrefix + "monitoring2.(*Monitor)."

func short(f string) string {
	if i := strings.LastIndex(f, "/"); i >= 0 {
		return f[i+1:]
	}
	return f
}

func innermostAkita(fr []string) string {
	for _, f := range fr {
		if strings.HasPrefix(f, akitaPrefix) {
			return short(f)
		}
	}
	return "?"
}

// handlerOf returns the Monitor method that net/http invoked (the outermost
// Monitor frame of the stack), "" when the stack is not an HTTP handler's.
func handlerOf(fr []string) string {
	isHTTP := false
	for _, f := range fr {
		if strings.HasPrefix(f, "net/http.") {
			isHTTP = true
		}
	}
	if !isHTTP {
		return ""
	}
	h := ""
	for _, f := range fr {
		if strings.HasPrefix(f, monPrefix) {
			h = strings.TrimSuffix(strings.TrimPrefix(f, monPrefix), "-fm") // method value wrapper
			if i := strings.Index(h, "."); i >= 0 { // closures: sortAndSelectBuffers.func1
				h = h[:i]
			}
		}
	}
	return h
}

func isSimSide(fr []string) bool {
	for _, f := range fr {
		if strings.HasPrefix(f, akitaPrefix+"timing.(*SerialEngine).Run") || strings.HasPrefix(f, akitaPrefix+"timing.(*SerialEngine).dispatchNext") ||
			strings.HasSuffix(f, "main.runEngine") {
			return true
		}
	}
	return false
}

// raceKey keeps reports with one stack in a Monitor HTTP handler and the
// other in event-handling code (or not restorable at all).
func raceKey(rep string) (string, bool) {
	st := raceFrames(rep)
	for len(st) < 2 {
		st = append(st, nil)
	}
	for i := 0; i < 2; i++ {
		h := handlerOf(st[i])
		if h == "" {
			continue
		}
		other := st[1-i]
		if len(other) > 0 && !isSimSide(other) {
			continue // e.g. two HTTP handlers racing on monitor-private state: not this property
		}
		return "race:c40/" + h + "/" + innermostAkita(st[i]) + "|" + innermostAkita(other), true
	}
	return "", false
}

// ---------------------------------------------------------------- assembly

// bufProbe is a ticking component with a value-embedded top-level
// queueing.Buffer, the shape Monitor.RegisterComponent picks up for the hang
// detector. It ticks on its own and touches nothing else.
type bufProbe struct {
	*modeling.TickingComponent
	Q    queueing.Buffer[int]
	Left int
	Seen int
}

func (p *bufProbe) Tick() bool {
	if p.Left <= 0 {
		return false
	}
	p.Left--
	p.Seen++
	if p.Q.CanPush() && p.Seen%3 != 0 {
		p.Q.PushTyped(p.Seen)
	} else if p.Q.Size() > 0 {
		p.Q.Pop()
	}
	return true
}

type assembly struct {
	*sim.Stack
	probe  *bufProbe
	events atomic.Int64 // handled events (engine hook)
}

func build(cfg sim.StackCfg, dir string, probeTicks int) *assembly {
	sim.ResetIDs()
	a := &assembly{Stack: sim.BuildStack(cfg, dir)}
	a.probe = &bufProbe{Q: queueing.NewBuffer[int]("Probe.Q", 5), Left: probeTicks}
	a.probe.TickingComponent = modeling.NewTickingComponent("Probe", a.Engine, 1*timing.GHz, a.probe)
	return a
}

type driverOut struct {
	Issued, Completed, Reads, Writes, ErrCount int
	RspHash, LastRspAt                         uint64
	Done                                       bool
	Errors                                     []string
}

type outcome struct {
	Drivers []driverOut
	EndTime uint64
	Probe   int
}

func (a *assembly) outcome() outcome {
	o := outcome{EndTime: uint64(a.Engine.CurrentTime()), Probe: a.probe.Seen}
	for _, d := range a.Drivers {
		s := d.State
		o.Drivers = append(o.Drivers, driverOut{Issued: s.Issued, Completed: s.Completed, Reads: s.Reads, Writes: s.Writes, ErrCount: s.ErrCount,
			RspHash: s.RspHash, LastRspAt: s.LastRspAt, Done: d.Done(), Errors: s.Errors})
	}
	return o
}

// weak drops everything an injected tick may legitimately change.
func (o outcome) weak() string {
	var sb strings.Builder
	for _, d := range o.Drivers {
		// Data-check errors are not compared here: a shifted request stream may
		// or may not run into a memory-hierarchy defect (C16's business).
		fmt.Fprintf(&sb, "[issued=%d completed=%d done=%v]", d.Issued, d.Completed, d.Done)
	}
	return sb.String()
}

func (o outcome) full() string { j, _ := json.Marshal(o); return string(j) }

// runEngine is the goroutine body of the monitored run (matched by raceKey).
//
//go:noinline
func runEngine(e *timing.SerialEngine, limit timing.VTimeInPicoSec) error { return e.RunUntil(limit) }

// ---------------------------------------------------------------- the case

type reqStat struct {
	total, active, underUserPause, non2xx int
}

func run(b kit.Batch, r *kit.R) {
	var prm params
	b.P(&prm)
	kinds := profiles[prm.Profile]
	r.ForEach(b.N, func(c *kit.Case) {
		rng := c.Rng
		cfg := sim.RandomStackCfg(rng, sim.GenOpts{NumReqs: prm.NumReqs, AllowBanked: true, AllowDRAM: rng.Intn(4) == 0, MaxDrivers: 2})
		probeTicks := 200 + rng.Intn(2000)
		nClients := 2 + rng.Intn(2)
		c.Desc(map[string]any{"profile": prm.Profile, "gomaxprocs": runtime.GOMAXPROCS(0), "clients": nClients, "probe_ticks": probeTicks, "cfg": cfg})
		total := 0
		for _, d := range cfg.Drivers {
			total += d.NumReqs
		}
		limit := timing.VTimeInPicoSec(total) * 200000 * 1000

		// ---- unmonitored reference
		ref := build(cfg, r.WorkDir, probeTicks)
		ref.Start()
		ref.probe.TickLater()
		if err := ref.Engine.RunUntil(limit); err != nil {
			c.Failf("harness/reference-run-error", "%v", err)
		}
		want := ref.outcome()
		ref.Close()

		// ---- monitored run
		a := build(cfg, r.WorkDir, probeTicks)
		defer a.Close()
		a.Engine.AcceptHook(evCounter{&a.events})
		mon, port := startMonitor(a, c.Index)
		defer mon.StopServer()
		bars := make([]*daisen2.ProgressBar, len(a.Drivers))
		for i, d := range a.Drivers {
			bar := mon.CreateProgressBar(d.Name(), uint64(d.Spec().NumReqs))
			bars[i] = bar
			d.OnIssue = func(sim.InflightReq, messaging.Msg) { bar.IncrementInProgress(1) }
			d.OnRsp = func(sim.RspEvent) { bar.MoveInProgressToFinished(1) }
		}
		var compNames []string
		for _, comp := range a.Sim.Components() {
			compNames = append(compNames, comp.Name())
		}
		compNames = append(compNames, "Probe")
		sort.Strings(compNames)

		var runActive, runEnded atomic.Bool
		var simPanic string
		var runErr error
		done := make(chan struct{})
		a.Start()
		a.probe.TickLater()
		go func() {
			defer close(done)
			defer runEnded.Store(true)
			defer func() {
				if e := recover(); e != nil {
					simPanic = fmt.Sprintf("%v\n%s", e, debug.Stack())
				}
			}()
			runActive.Store(true)
			runErr = runEngine(a.Engine, limit)
		}()

		base := fmt.Sprintf("http://127.0.0.1:%d", port)
		client := &http.Client{Transport: &http.Transport{MaxIdleConnsPerHost: 8}}
		var mu sync.Mutex
		stats := map[string]*reqStat{}
		var kindSeq []string
		var userPaused atomic.Bool // last answered pause/continue (approximate with several clients; evidence only)
		var progressed atomic.Int64
		var lastEvents atomic.Int64
		var httpErr atomic.Value
		var serializerAborts atomic.Int64
		// Single-client probe before the concurrent clients start: a user pause must hold across inspection
		// requests (C05/C40: once pause is acknowledged no handler starts until continue is requested).
		if inProfile(kinds, "pause") || len(kinds) > 0 {
			for spin := 0; spin < 200000 && a.events.Load() < 50 && !runEnded.Load(); spin++ {
				runtime.Gosched()
			}
			get := func(path string) bool {
				rsp, err := client.Get(base + path)
				if err != nil {
					return false
				}
				io.Copy(io.Discard, rsp.Body)
				rsp.Body.Close()
				return true
			}
			if !runEnded.Load() && get("/api/pause") {
				e1 := a.events.Load()
				active := !runEnded.Load()
				probes := []string{"/api/engine/state", "/api/now", "/api/hangdetector/buffers?sort=level&limit=5", "/api/progress", "/api/list_components"}
				for _, pth := range probes {
					get(pth)
					for y := 0; y < 200; y++ {
						runtime.Gosched()
					}
					if e2 := a.events.Load(); e2 != e1 {
						c.Fail("c40/user-pause-not-held-across-inspection", map[string]any{"after_request": pth, "events_before": e1, "events_after": e2, "cfg": cfg})
						break
					}
				}
				if active && !runEnded.Load() {
					r.Count("user_pause_hold_probes_with_run_active", 1)
				}
				get("/api/continue")
			}
		}
		var wg sync.WaitGroup
		for ci := 0; ci < nClients; ci++ {
			crng := rand.New(rand.NewSource(rng.Int63()))
			wg.Add(1)
			go func() {
				defer wg.Done()
				after := 0
				for n := 0; n < prm.MaxHTTP; n++ {
					if runEnded.Load() {
						if after++; after > 5 {
							return
						}
					}
					kind := kinds[crng.Intn(len(kinds))]
					u := base + reqPath(kind, crng, compNames, a)
					activeBefore := runActive.Load() && !runEnded.Load()
					paused := userPaused.Load()
					resp, err := client.Get(u)
					if err != nil {
						if kind == "component" || kind == "field" {
							// goseth refuses some kinds (func, ...) by panicking; net/http
							// aborts the request. Not this property's business.
							serializerAborts.Add(1)
							continue
						}
						httpErr.Store(fmt.Sprintf("%s %s: %v", kind, u, err))
						return
					}
					io.Copy(io.Discard, resp.Body)
					resp.Body.Close()
					activeAfter := !runEnded.Load()
					switch kind {
					case "pause":
						userPaused.Store(true)
					case "continue":
						userPaused.Store(false)
					}
					ev := a.events.Load()
					if prev := lastEvents.Swap(ev); ev > prev {
						progressed.Add(1)
					}
					mu.Lock()
					s := stats[kind]
					if s == nil {
						s = &reqStat{}
						stats[kind] = s
					}
					s.total++
					if activeBefore && activeAfter {
						s.active++
						if paused && kind != "pause" && kind != "continue" {
							s.underUserPause++
						}
					}
					if resp.StatusCode/100 != 2 && !(kind == "tick" && resp.StatusCode == 405) && !(kind == "field" && resp.StatusCode == 404) {
						s.non2xx++
					}
					if len(kindSeq) < 4000 {
						kindSeq = append(kindSeq, kind)
					}
					mu.Unlock()
					if kind == "pause" { // hold the user pause for a few requests, then let go
						for k := crng.Intn(4); k > 0; k-- {
							k2 := []string{"state", "component", "field", "buffers", "progress"}[crng.Intn(5)]
							if !inProfile(kinds, k2) {
								k2 = "state"
							}
							if rsp, err := client.Get(base + reqPath(k2, crng, compNames, a)); err == nil {
								io.Copy(io.Discard, rsp.Body)
								rsp.Body.Close()
								mu.Lock()
								if stats[k2] == nil {
									stats[k2] = &reqStat{}
								}
								stats[k2].total++
								if !runEnded.Load() {
									stats[k2].active++
									stats[k2].underUserPause++
								}
								mu.Unlock()
							}
						}
					}
					for y := crng.Intn(3); y > 0; y-- {
						runtime.Gosched()
					}
				}
			}()
		}
		wg.Wait()
		// leave it running
		for {
			resp, err := client.Get(base + "/api/continue")
			if err != nil {
				httpErr.Store(fmt.Sprintf("continue(final) %v", err))
				break
			}
			var st struct {
				Paused bool `json:"paused"`
			}
			json.NewDecoder(resp.Body).Decode(&st)
			resp.Body.Close()
			if !st.Paused {
				break
			}
		}
		<-done
		client.CloseIdleConnections()

		// ---- verdicts
		if e, _ := httpErr.Load().(string); e != "" {
			c.Failf("c40/request-aborted/"+strings.SplitN(e, " ", 2)[0]+"/"+prm.Profile, "%s", e)
		}
		r.Count("inspection_requests_aborted_by_the_serializer(unsupported_kind)", serializerAborts.Load())
		if simPanic != "" {
			c.Fail("c40/simulation-panicked-under-monitor-requests/"+prm.Profile, map[string]any{"panic": simPanic, "cfg": cfg})
		} else if runErr != nil {
			c.Failf("c40/run-error/"+prm.Profile, "%v", runErr)
		}
		got := a.outcome()
		ticked := stats["tick"] != nil && stats["tick"].total > 0
		if simPanic == "" {
			if ticked {
				if got.weak() != want.weak() {
					c.Fail("c40/outcome-differs-from-unmonitored-run/"+prm.Profile, map[string]any{"compared": "completion and request counts (tick requests were issued)",
						"monitored": got, "unmonitored": want, "cfg": cfg})
				}
				r.Count("runs_compared_with_unmonitored_run(completion_only)", 1)
			} else {
				if got.full() != want.full() {
					c.Fail("c40/outcome-differs-from-unmonitored-run/"+prm.Profile, map[string]any{"compared": "full outcome", "monitored": got, "unmonitored": want, "cfg": cfg})
				}
				r.Count("runs_compared_with_unmonitored_run(full_outcome)", 1)
			}
		}

		// ---- observations
		nActive, nTotal := 0, 0
		for k, s := range stats {
			r.Count("requests_"+k, int64(s.total))
			r.Count("requests_while_run_active_"+k, int64(s.active))
			r.Count("requests_answered_under_a_user_pause", int64(s.underUserPause))
			r.Count("responses_not_2xx", int64(s.non2xx))
			nActive += s.active
			nTotal += s.total
		}
		r.Count("events_handled_between_consecutive_requests", progressed.Load())
		r.Count("events_handled_in_monitored_runs", a.events.Load())
		r.Count("progress_bar_updates", int64(got.Drivers[0].Issued+got.Drivers[0].Completed))
		r.Max("max_requests_while_run_active_in_one_run", int64(nActive))
		r.Distinct("profiles", prm.Profile)
		allDone := true
		for _, d := range got.Drivers {
			allDone = allDone && d.Done
		}
		if allDone && nActive >= 20 && progressed.Load() > 0 {
			c.Nontrivial(fmt.Sprintf("%s/%s/%x", prm.Profile, mustJSON(cfg), hashStrings(kindSeq)))
			c.Sample(map[string]any{"profile": prm.Profile, "cfg": cfg, "requests": nTotal, "requests_while_run_active": nActive,
				"first_requests": first(kindSeq, 25), "events_handled": a.events.Load(), "end_time_ps": got.EndTime})
		}
	})
}

type evCounter struct{ n *atomic.Int64 }

func (h evCounter) Func(ctx hooking.HookCtx) {
	if ctx.Pos == timing.HookPosAfterEvent {
		h.n.Add(1)
	}
}

func inProfile(kinds []string, k string) bool {
	for _, x := range kinds {
		if x == k {
			return true
		}
	}
	return false
}

func first(s []string, n int) []string {
	if len(s) > n {
		return s[:n]
	}
	return s
}

func mustJSON(v any) string { j, _ := json.Marshal(v); return string(j) }

func hashStrings(s []string) uint64 {
	h := uint64(1469598103934665603)
	for _, x := range s {
		for i := 0; i < len(x); i++ {
			h = (h ^ uint64(x[i])) * 1099511628211
		}
		h = (h ^ 0xff) * 1099511628211
	}
	return h
}

// startMonitor attaches a monitor the way simulation.Builder does and starts
// its HTTP server on a free loopback port.
func startMonitor(a *assembly, idx int) (*monitoring2.Monitor, int) {
	for try := 0; try < 50; try++ {
		port := 20000 + (os.Getpid()*131+idx*17+try*7919)%30000
		mon, ok := func() (m *monitoring2.Monitor, ok bool) {
			defer func() {
				if recover() != nil { // port taken: findPort panics
					ok = false
				}
			}()
			m = monitoring2.NewMonitor().WithPortNumber(port)
			m.RegisterEngine(a.Engine)
			for _, comp := range a.Sim.Components() {
				m.RegisterComponent(comp)
			}
			m.RegisterComponent(a.probe)
			m.StartServer()
			return m, true
		}()
		if ok {
			return mon, port
		}
	}
	panic("harness: no free loopback port for the monitor")
}

var fieldPaths = []string{"State", "Spec", "Component.State", "Component.Spec", "Q", "Left", "TickScheduler", "State.Inflight", "State.Ref", "State.Errors", "Component"}

func reqPath(kind string, rng *rand.Rand, comps []string, a *assembly) string {
	comp := comps[rng.Intn(len(comps))]
	switch kind {
	case "pause":
		return "/api/pause"
	case "continue":
		return "/api/continue"
	case "state":
		return "/api/engine/state"
	case "now":
		return "/api/now"
	case "list":
		return "/api/list_components"
	case "tick":
		return "/api/tick/" + url.PathEscape(comp)
	case "component":
		for strings.HasPrefix(comp, "Driver") { // kit/sim drivers carry func-typed callback fields goseth cannot serialise
			comp = comps[rng.Intn(len(comps))]
		}
		return "/api/component/" + url.PathEscape(comp)
	case "field":
		if rng.Intn(3) == 0 {
			comp = a.Drivers[rng.Intn(len(a.Drivers))].Name()
		}
		j, _ := json.Marshal(map[string]string{"comp_name": comp, "field_name": fieldPaths[rng.Intn(len(fieldPaths))]})
		p := "/api/field/" + url.PathEscape(string(j))
		if rng.Intn(3) == 0 {
			p += fmt.Sprintf("?slice_offset=%d&slice_limit=%d", rng.Intn(4), 1+rng.Intn(20))
		}
		return p
	case "buffers":
		return fmt.Sprintf("/api/hangdetector/buffers?sort=%s&limit=%d&offset=%d", []string{"level", "percent"}[rng.Intn(2)], 1+rng.Intn(40), rng.Intn(3))
	case "progress":
		return "/api/progress"
	}
	panic("harness: unknown request kind " + kind)
}
