// C27 MMU auto page allocation never aliases physical memory.
//
// A real mmu.Comp with AutoPageAllocation over a pre-populated page table is
// driven by 1-2 scripted requesters. After the run the page table is
// enumerated through its checkpoint JSON and judged: one mapping per requested
// (pid, virtual page), every response for it carries that mapping, and no
// auto-allocated frame overlaps any other page.
package main

import (
	"bytes"
	"encoding/json"
	"fmt"
	"io"
	"math/rand"
	"sort"

	"verifharness/kit"
	"verifharness/kit/sim"

	"github.com/sarchlab/akita/v5/mem/vm"
	"github.com/sarchlab/akita/v5/mem/vm/mmu"
	"github.com/sarchlab/akita/v5/mem/vm/vmprotocol"
	"github.com/sarchlab/akita/v5/messaging"
	"github.com/sarchlab/akita/v5/modeling"
	"github.com/sarchlab/akita/v5/noc/directconnection"
	"github.com/sarchlab/akita/v5/timing"
)

type none = modeling.None

type fmw struct{ f func() bool }

func (m *fmw) Tick() bool { return m.f() }

type cfg struct {
	Seed         int64  `json:"seed"`
	Log2PageSize uint64 `json:"log2_page_size"`
	Latency      int    `json:"latency"`
	MaxInflight  int    `json:"max_requests_in_flight"`
	PortBuf      int    `json:"port_buf"`
	MMUMHz       int    `json:"mmu_mhz"`
	Requesters   int    `json:"requesters"`
	ReqsEach     int    `json:"reqs_each"`
	PIDs         int    `json:"pids"`
	VPages       int    `json:"vpages_per_pid"` // size of the virtual page pool per pid
	Frames       int    `json:"frame_window"`   // pre-inserted frames are drawn from cursor .. cursor+Frames
	PrePattern   string `json:"pre_pattern"`    // empty | sparse | dense | runs | every_other
	PreShare     bool   `json:"pre_pages_share_frames"`
	CursorPage   uint64 `json:"cursor_start_page"`
	CursorOff    uint64 `json:"cursor_start_offset"` // unaligned start cursor
	IdlePct      int    `json:"idle_pct"`
	RspStallPct  int    `json:"rsp_stall_pct"`
	BurstSame    bool   `json:"bursts_of_same_page"`
}

func drawCfg(rng *rand.Rand, reqs int) cfg {
	pick := func(v ...int) int { return v[rng.Intn(len(v))] }
	c := cfg{
		Seed:         rng.Int63(),
		Log2PageSize: uint64(pick(12, 12, 16, 21)),
		Latency:      pick(0, 1, 3, 10),
		MaxInflight:  pick(1, 2, 4, 8, 16),
		PortBuf:      pick(1, 2, 4, 8),
		MMUMHz:       pick(1000, 1000, 500, 1400),
		Requesters:   1 + rng.Intn(2),
		PIDs:         1 + rng.Intn(4),
		VPages:       pick(4, 16, 64),
		Frames:       pick(8, 32, 128),
		PrePattern:   []string{"empty", "sparse", "dense", "dense", "runs", "every_other"}[rng.Intn(6)],
		PreShare:     rng.Intn(3) == 0,
		IdlePct:      pick(0, 0, 40),
		RspStallPct:  pick(0, 0, 50, 85),
		BurstSame:    rng.Intn(2) == 0,
	}
	if rng.Intn(3) == 0 {
		c.CursorPage = uint64(rng.Intn(1 << 20))
		if rng.Intn(2) == 0 {
			c.CursorOff = uint64(rng.Intn(1 << 12))
		}
	}
	c.ReqsEach = reqs / c.Requesters
	return c
}

type pkey struct {
	pid   vm.PID
	vaddr uint64
}

type ptDump struct {
	Log2PageSize uint64 `json:"log2_page_size"`
	Tables       []struct {
		PID   vm.PID    `json:"pid"`
		Pages []vm.Page `json:"pages"`
	} `json:"tables"`
}

type sent struct {
	id    uint64
	pid   vm.PID
	vaddr uint64
}

type requester struct {
	port   messaging.Port
	script []sent
	next   int
	got    []vmprotocol.TranslationRsp
}

func main() {
	kit.Main(kit.Prop{
		ID:    "C27",
		Level: "exploration",
		Rule: "each case is a PRNG-drawn MMU with AutoPageAllocation (page sizes 4 KB/64 KB/2 MB, walk latency 0-10, 1-16 walks in flight, port buffers 1-8) over a page table pre-populated " +
			"in a window of frames starting at the allocation cursor (empty / sparse / dense / runs / every other frame, optionally sharing frames among pre-inserted pages, cursor at 0 or at a random, " +
			"possibly unaligned address) and 1-2 requesters streaming translation requests for 1-4 processes over small virtual page pools with unaligned addresses, repeated and back-to-back " +
			"requests for the same page. Non-trivial: at least 5 pages were auto-allocated and either the table was pre-populated or one page was requested while a walk for it was in flight; " +
			"distinct by configuration JSON",
		Assumptions: []string{
			"pre-inserted pages have page-aligned VAddr and PAddr and PageSize equal to the table's page size (they may share frames among themselves); nothing else modifies the page table during the run",
			"pages are enumerated from the page table's SaveCheckpoint JSON; the allocation cursor stays far below 2^64",
		},
		Plan: func(tier string, seed int64) []kit.Batch {
			nb, n, reqs := 16, 30, 150
			if tier == "thorough" {
				nb, n, reqs = 48, 1000, 300
			}
			var bs []kit.Batch
			for i := 0; i < nb; i++ {
				bs = append(bs, kit.Batch{Name: fmt.Sprintf("mmu%d", i), Seed: seed*32452843 + int64(i), N: n, Params: kit.MkParams(map[string]int{"reqs": reqs})})
			}
			return bs
		},
		Run: run,
		MustObserve: []string{"pages_auto_allocated", "auto_pages_checked_against_other_pages", "allocations_that_skipped_occupied_frames",
			"requests_for_a_page_with_walk_in_flight", "responses_checked", "requests_hitting_preinserted_pages"},
	})
}

func run(b kit.Batch, r *kit.R) {
	var p map[string]int
	b.P(&p)
	r.ForEach(b.N, func(c *kit.Case) {
		cf := drawCfg(c.Rng, p["reqs"])
		c.Desc(cf)
		runCase(c, cf)
	})
}

func runCase(c *kit.Case, cf cfg) {
	r := c.R
	rng := rand.New(rand.NewSource(cf.Seed))
	engine := timing.NewSerialEngine()
	reg := modeling.NewStandaloneRegistrar(engine)
	pageSize := uint64(1) << cf.Log2PageSize

	pt := vm.MakePageTableBuilder().WithLog2PageSize(cf.Log2PageSize).Build("PT")

	// pre-populate around the cursor
	pre := map[pkey]vm.Page{}
	occupied := map[uint64]bool{} // frames (PAddr) taken by pre-inserted pages
	var frames []uint64
	inRun := false
	for f := 0; f < cf.Frames; f++ {
		take := false
		switch cf.PrePattern {
		case "sparse":
			take = rng.Intn(10) == 0
		case "dense":
			take = rng.Intn(10) < 8
		case "runs":
			if rng.Intn(6) == 0 {
				inRun = !inRun
			}
			take = inRun
		case "every_other":
			take = f%2 == 0
		}
		if take {
			frames = append(frames, (cf.CursorPage+uint64(f))*pageSize)
		}
	}
	// pre-inserted virtual pages live partly inside the requested pool (hits) and partly outside it
	for i, pa := range frames {
		pid := vm.PID(1 + rng.Intn(cf.PIDs))
		var va uint64
		if rng.Intn(3) == 0 {
			va = uint64(rng.Intn(cf.VPages)) * pageSize
		} else {
			va = uint64(cf.VPages+i) * pageSize
		}
		k := pkey{pid, va}
		if _, dup := pre[k]; dup {
			continue
		}
		if cf.PreShare && i > 0 && rng.Intn(4) == 0 {
			pa = frames[rng.Intn(i)]
		}
		pg := vm.Page{PID: pid, VAddr: va, PAddr: pa, PageSize: pageSize, Valid: true, DeviceID: uint64(rng.Intn(3)), Unified: rng.Intn(2) == 0, IsPinned: rng.Intn(4) == 0}
		pt.Insert(pg)
		pre[k] = pg
		occupied[pa] = true
	}

	// page migration before the run (Find, change PAddr, Update — as mem/acceptancetests/pagemigration does): some
	// pre-inserted pages move to another frame of the window in front of the allocation cursor
	if rng.Intn(2) == 0 {
		keys := make([]pkey, 0, len(pre))
		for k := range pre {
			keys = append(keys, k)
		}
		sort.Slice(keys, func(i, j int) bool {
			if keys[i].pid != keys[j].pid {
				return keys[i].pid < keys[j].pid
			}
			return keys[i].vaddr < keys[j].vaddr
		})
		for _, k := range keys {
			if rng.Intn(3) != 0 {
				continue
			}
			nf := (cf.CursorPage + uint64(rng.Intn(cf.Frames+1))) * pageSize
			if occupied[nf] {
				continue
			}
			pg, found := pt.Find(k.pid, k.vaddr)
			if !found {
				continue
			}
			// the old frame stays occupied only if another pre-inserted page shares it
			old := pg.PAddr
			pg.PAddr = nf
			pt.Update(pg)
			pre[k] = pg
			occupied[nf] = true
			shared := false
			for k2, p2 := range pre {
				if k2 != k && p2.PAddr == old {
					shared = true
				}
			}
			if !shared {
				delete(occupied, old)
			}
			r.Count("pages_migrated_with_Update_before_the_run", 1)
		}
	}

	spec := mmu.DefaultSpec()
	spec.Freq = timing.Freq(cf.MMUMHz) * timing.MHz
	spec.Latency = cf.Latency
	spec.MaxRequestsInFlight = cf.MaxInflight
	spec.AutoPageAllocation = true
	spec.Log2PageSize = cf.Log2PageSize
	mm := mmu.MakeBuilder().WithRegistrar(reg).WithSpec(spec).WithResources(mmu.Resources{PageTable: pt}).Build("MMU")
	for _, n := range []string{"Top", "Control"} {
		mm.AssignPort(n, modeling.MakePortBuilder().WithRegistrar(reg).WithComponent(mm).WithSpec(modeling.PortSpec{BufSize: cf.PortBuf}).Build(n))
	}
	mm.State.NextPhysicalPage = cf.CursorPage*pageSize + cf.CursorOff%pageSize
	top := mm.GetPortByName("Top")

	conn := directconnection.MakeBuilder().WithRegistrar(reg).Build("Conn")
	conn.PlugIn(top)
	var reqs []*requester
	var comps []*modeling.Component[none, none, none]
	total := 0
	for i := 0; i < cf.Requesters; i++ {
		q := &requester{}
		var last sent
		for k := 0; k < cf.ReqsEach; k++ {
			s := sent{pid: vm.PID(1 + rng.Intn(cf.PIDs)), vaddr: uint64(rng.Intn(cf.VPages))*pageSize + uint64(rng.Int63n(int64(pageSize)))}
			if cf.BurstSame && k > 0 && rng.Intn(3) == 0 {
				s = sent{pid: last.pid, vaddr: (last.vaddr>>cf.Log2PageSize)<<cf.Log2PageSize + uint64(rng.Int63n(int64(pageSize)))}
			}
			last = s
			q.script = append(q.script, s)
		}
		total += cf.ReqsEach
		comp := modeling.NewBuilder[none, none, none]().WithEngine(engine).WithFreq(timing.GHz).Build(fmt.Sprintf("Req%d", i))
		comp.DeclarePort("Out")
		dev := uint64(i + 1)
		comp.AddMiddleware(&fmw{f: func() bool {
			progress := false
			if q.port.PeekIncoming() != nil {
				if rng.Intn(100) < cf.RspStallPct {
					progress = true
				} else {
					for {
						m := q.port.RetrieveIncoming()
						if m == nil {
							break
						}
						if rsp, ok := m.(vmprotocol.TranslationRsp); ok {
							q.got = append(q.got, rsp)
						}
						progress = true
					}
				}
			}
			if q.next < len(q.script) {
				if rng.Intn(100) < cf.IdlePct {
					return true
				}
				for n := 0; n < 2 && q.next < len(q.script) && q.port.CanSend(); n++ {
					s := &q.script[q.next]
					req := vmprotocol.TranslationReq{VAddr: s.vaddr, PID: s.pid, DeviceID: dev}
					req.ID, req.Src, req.Dst, req.TrafficClass = timing.GetIDGenerator().Generate(), q.port.AsRemote(), top.AsRemote(), "vmprotocol.TranslationReq"
					s.id = req.ID
					q.port.Send(req)
					q.next++
					progress = true
				}
			}
			return progress
		}})
		q.port = modeling.MakePortBuilder().WithRegistrar(reg).WithComponent(comp).WithSpec(modeling.PortSpec{BufSize: cf.PortBuf}).Build("Out")
		comp.AssignPort("Out", q.port)
		conn.PlugIn(q.port)
		reqs = append(reqs, q)
		comps = append(comps, comp)
	}

	tap := sim.AttachTap([]messaging.Port{top}, engine.CurrentTime, true)
	tap.Filter = func(pos, port string) bool { return pos == "retr_in" || pos == "send" }
	for _, cmp := range comps {
		cmp.TickLater()
	}
	limit := timing.VTimeInPicoSec(total+10) * 1000 * 1000 // 1 us per request
	if err := engine.RunUntil(limit); err != nil {
		c.Failf("mmu/engine-error", "%v", err)
	}

	// ---- enumerate the page table ----
	saver, ok := pt.(interface{ SaveCheckpoint(io.Writer) error })
	if !ok {
		panic("page table cannot be enumerated")
	}
	var buf bytes.Buffer
	if err := saver.SaveCheckpoint(&buf); err != nil {
		panic(err)
	}
	var dump ptDump
	if err := json.Unmarshal(buf.Bytes(), &dump); err != nil {
		panic(err)
	}
	wit := func(msg string) map[string]any { return map[string]any{"msg": msg, "cfg": cf} }
	var all []vm.Page
	byKey := map[pkey][]vm.Page{}
	for _, t := range dump.Tables {
		for _, pg := range t.Pages {
			if pg.PID != t.PID {
				c.Fail("mmu/page-in-wrong-process-table", wit(fmt.Sprintf("page %+v listed under pid %d", pg, t.PID)))
			}
			all = append(all, pg)
			byKey[pkey{pg.PID, pg.VAddr}] = append(byKey[pkey{pg.PID, pg.VAddr}], pg)
		}
	}

	// requested pages and their responses
	requested := map[pkey]bool{}
	reqByID := map[uint64]sent{}
	for _, q := range reqs {
		for _, s := range q.script[:q.next] {
			requested[pkey{s.pid, (s.vaddr >> cf.Log2PageSize) << cf.Log2PageSize}] = true
			reqByID[s.id] = s
		}
	}
	answered := 0
	for i, q := range reqs {
		seen := map[uint64]bool{}
		for _, rsp := range q.got {
			s, known := reqByID[rsp.RspTo]
			if !known || seen[rsp.RspTo] {
				c.Fail("mmu/stray-or-duplicate-response", wit(fmt.Sprintf("requester %d: response RspTo=%d (known request: %v, already answered: %v)", i, rsp.RspTo, known, seen[rsp.RspTo])))
				continue
			}
			seen[rsp.RspTo] = true
			answered++
			k := pkey{s.pid, (s.vaddr >> cf.Log2PageSize) << cf.Log2PageSize}
			pgs := byKey[k]
			if len(pgs) == 1 && rsp.Page != pgs[0] {
				c.Fail("mmu/response-differs-from-the-mapping", wit(fmt.Sprintf("request pid %d vaddr %#x answered with %+v, the table maps the page as %+v", s.pid, s.vaddr, rsp.Page, pgs[0])))
			}
			if rsp.Page.PID != k.pid || rsp.Page.VAddr != k.vaddr {
				c.Fail("mmu/response-for-another-page", wit(fmt.Sprintf("request pid %d vaddr %#x answered with page pid %d vaddr %#x", s.pid, s.vaddr, rsp.Page.PID, rsp.Page.VAddr)))
			}
			r.Count("responses_checked", 1)
		}
	}
	sentN := 0
	for _, q := range reqs {
		sentN += q.next
	}
	if answered != sentN || sentN != total {
		c.Fail("mmu/unanswered", wit(fmt.Sprintf("%d requests scripted, %d sent, %d answered at t=%d ps (limit %d)", total, sentN, answered, engine.CurrentTime(), limit)))
	}

	// one mapping per requested page; nothing unexpected in the table
	var auto []vm.Page
	keys := make([]pkey, 0, len(byKey))
	for k := range byKey {
		keys = append(keys, k)
	}
	sort.Slice(keys, func(i, j int) bool {
		if keys[i].pid != keys[j].pid {
			return keys[i].pid < keys[j].pid
		}
		return keys[i].vaddr < keys[j].vaddr
	})
	for _, k := range keys {
		pgs := byKey[k]
		if len(pgs) > 1 {
			c.Fail("mmu/several-mappings-for-one-page", wit(fmt.Sprintf("pid %d vaddr %#x has %d entries: %+v", k.pid, k.vaddr, len(pgs), pgs)))
		}
		if orig, isPre := pre[k]; isPre {
			if pgs[0] != orig {
				c.Fail("mmu/preinserted-mapping-changed", wit(fmt.Sprintf("pre-inserted %+v is now %+v", orig, pgs[0])))
			}
			if requested[k] {
				r.Count("requests_hitting_preinserted_pages", 1)
			}
			continue
		}
		if !requested[k] {
			c.Fail("mmu/page-nobody-asked-for", wit(fmt.Sprintf("the table holds %+v; no request touched pid %d page %#x (unaligned key?)", pgs[0], k.pid, k.vaddr)))
			continue
		}
		auto = append(auto, pgs...)
	}
	for k := range requested {
		if len(byKey[k]) == 0 && answered == sentN {
			c.Fail("mmu/requested-page-has-no-mapping", wit(fmt.Sprintf("pid %d page %#x was requested and answered but is not in the table", k.pid, k.vaddr)))
		}
	}
	for k := range pre {
		if len(byKey[k]) == 0 {
			c.Fail("mmu/preinserted-mapping-lost", wit(fmt.Sprintf("pre-inserted pid %d page %#x is gone", k.pid, k.vaddr)))
		}
	}

	// no auto-allocated frame overlaps any other page
	skipped := int64(0)
	for _, a := range auto {
		if a.PageSize != pageSize || a.PAddr%pageSize != 0 {
			r.Count("auto_pages_with_unusual_geometry", 1)
		}
		for _, o := range all {
			if o.PID == a.PID && o.VAddr == a.VAddr {
				continue
			}
			r.Count("auto_pages_checked_against_other_pages", 1)
			if a.PAddr < o.PAddr+o.PageSize && o.PAddr < a.PAddr+a.PageSize {
				_, oPre := pre[pkey{o.PID, o.VAddr}]
				kind := "auto-allocated"
				key := "mmu/alias/auto-with-auto"
				if oPre {
					kind, key = "pre-inserted", "mmu/alias/auto-with-preinserted"
				}
				c.Fail(key, wit(fmt.Sprintf("auto-allocated %+v overlaps %s %+v", a, kind, o)))
			}
		}
		// coverage: did the allocator have to step over occupied frames to get here?
		if a.PAddr >= pageSize && occupied[a.PAddr-pageSize] {
			skipped++
		}
	}
	// coverage: a request retrieved by the MMU while an earlier request for the same page was still unanswered
	inflight := map[pkey]int{}
	concurrent := int64(0)
	for _, rec := range tap.Recs {
		switch m := rec.Msg.(type) {
		case vmprotocol.TranslationReq:
			k := pkey{m.PID, (m.VAddr >> cf.Log2PageSize) << cf.Log2PageSize}
			if inflight[k] > 0 {
				concurrent++
			}
			inflight[k]++
		case vmprotocol.TranslationRsp:
			if s, ok := reqByID[m.RspTo]; ok {
				inflight[pkey{s.pid, (s.vaddr >> cf.Log2PageSize) << cf.Log2PageSize}]--
			}
		}
	}
	r.Count("pages_auto_allocated", int64(len(auto)))
	r.Count("pages_preinserted", int64(len(pre)))
	r.Count("allocations_that_skipped_occupied_frames", skipped)
	r.Count("requests_for_a_page_with_walk_in_flight", concurrent)
	r.Max("max_pages_in_table", int64(len(all)))
	r.Distinct("pre_pattern/page_size", fmt.Sprintf("%s/%d", cf.PrePattern, cf.Log2PageSize))
	if len(auto) >= 5 && (len(pre) > 0 || concurrent > 0) {
		j, _ := json.Marshal(cf)
		c.Nontrivial(string(j))
	}
	c.Sample(map[string]any{"cfg": cf, "preinserted": len(pre), "auto_allocated": len(auto), "requests": sentN, "answered": answered,
		"same_page_requests_while_walking": concurrent, "first_auto_pages": auto[:min(3, len(auto))]})
}
