// C06 Checkpoint/restore at any time boundary is invisible.
//
// Every run (reference, run-to-t-and-save, rebuild-load-resume) happens in its
// own fresh process, as a user restoring a checkpoint would do it; akita keeps
// process-global registries, so in-process rebuilding would not be faithful.
package main

import (
	"encoding/json"
	"fmt"
	"path/filepath"
	"sort"

	"verifharness/kit"
	"verifharness/kit/sim"

	"github.com/sarchlab/akita/v5/timing"
)

type params struct {
	NumReqs int `json:"num_reqs"`
	Cuts    int `json:"cuts"` // 0 = every distinct event time (capped by MaxCuts)
	MaxCuts int `json:"max_cuts"`
	// Kind, when set, makes every case of the batch an assembly of that kind ("net" | "dm"); a quarter of the batches.
	Kind    string `json:"kind,omitempty"`
	NetMsgs int    `json:"net_msgs,omitempty"`
	DMMoves int    `json:"dm_moves,omitempty"`
}

func main() {
	sim.MaybeRunRole()
	kit.Main(kit.Prop{
		ID:    "C06",
		Level: "fault_enumeration",
		Rule: "each evaluation is one assembly; inside it every selected (assembly, cut time t) pair is checked: the assembly is a PRNG-drawn memory hierarchy (caches, ROB, ideal/banked/DRAM memory) or translation stack (address translator, TLBs, MMU cache, GMMU, MMU, page table) with " +
			"serialisable scripted drivers), and in a quarter of the batches a network-on-chip built with the library connectors (2D/3D mesh, PCIe tree, generic switch tree; switches, endpoints, links and 2-9 serialisable traffic agents " +
			"whose receive side stalls) or a data mover between 1-2 interleaved ideal controllers per side with a serialisable requester (single and queued moves, sizes multiple and non-multiple of the granules); cut points are distinct event times of the uninterrupted reference run (first, last, one between two events, one beyond the end and PRNG-sampled ones in quick; " +
			"every one up to a cap in thorough). Run-to-t + save (one process), rebuild + load + run (a fresh process per cut) must reproduce the reference's remaining BeforeEvent trace and every entity's " +
			"final checkpoint payload, engine time and ID counter. A cut is non-trivial when messages sit in port buffers or requests are outstanding at t; distinct_nontrivial counts distinct (configuration, t) pairs",
		Assumptions: []string{"tracing off (vis tracing not started), as documented for checkpoints", "the ID generator is the default sequential one"},
		Plan: func(tier string, seed int64) []kit.Batch {
			nb, n := 16, 1
			p := params{NumReqs: 120, Cuts: 5, NetMsgs: 100, DMMoves: 10}
			if tier == "thorough" {
				nb, n = 32, 6
				p = params{NumReqs: 250, Cuts: 0, MaxCuts: 60, NetMsgs: 250, DMMoves: 25}
			}
			var bs []kit.Batch
			for i := 0; i < nb; i++ {
				q, name, cases := p, fmt.Sprintf("asm%d", i), n
				switch i % 8 { // a quarter of the batches: network and data-mover assemblies
				case 3:
					q.Kind, name = "net", fmt.Sprintf("net%d", i)
				case 7:
					q.Kind, name = "dm", fmt.Sprintf("dm%d", i)
				}
				if q.Kind != "" && tier != "thorough" {
					cases = 2 // their runs are short (few thousand events): two assemblies per batch cost about what one hierarchy does
				}
				bs = append(bs, kit.Batch{Name: name, Seed: seed*104729 + int64(i), N: cases, Params: kit.MkParams(q)})
			}
			return bs
		},
		Run: run,
		MustObserve: []string{"cuts_checked", "cuts_with_inflight_messages", "assemblies/network", "assemblies/data-mover",
			"cuts_with_inflight_messages/network", "cuts_with_inflight_messages/data-mover"},
	})
}

func run(b kit.Batch, r *kit.R) {
	var p params
	b.P(&p)
	r.ForEach(b.N, func(c *kit.Case) {
		switch p.Kind {
		case "net":
			cfg := sim.RandomNetCfg(c.Rng, p.NetMsgs)
			c.Desc(cfg)
			r.Count("assemblies/network", 1)
			r.Count("assemblies/network/"+cfg.Family, 1)
			CheckCuts(c, "net", cfg, p, p.NetMsgs)
			return
		case "dm":
			cfg := sim.RandomDMCfg(c.Rng, p.DMMoves)
			c.Desc(cfg)
			r.Count("assemblies/data-mover", 1)
			CheckCuts(c, "dm", cfg, p, 10*p.DMMoves)
			return
		}
		if c.Rng.Intn(3) == 0 {
			cfg := sim.RandomVMCfg(c.Rng, p.NumReqs)
			c.Desc(cfg)
			r.Count("assemblies/translation-stack", 1)
			CheckCuts(c, "vm", cfg, p, p.NumReqs)
			return
		}
		cfg := sim.RandomStackCfg(c.Rng, sim.GenOpts{NumReqs: p.NumReqs, AllowDRAM: true, AllowBanked: true, MaxDrivers: 2, ForceWB: c.Rng.Intn(3) == 0})
		for _, l := range cfg.Levels {
			if l.Kind == "wb" && c.Rng.Intn(2) == 0 {
				// a scripted drain + filtered flush + enable in the middle of the stream: cuts also land inside it
				cfg.WithCtrl, cfg.FlushAt, cfg.FlushLines = true, 30+c.Rng.Intn(200), 2+c.Rng.Intn(10)
				r.Count("assemblies/with-mid-stream-drain-flush-enable", 1)
				break
			}
		}
		c.Desc(cfg)
		r.Count("assemblies/memory-hierarchy", 1)
		CheckCuts(c, "stack", cfg, p, p.NumReqs)
	})
}

// CheckCuts runs the reference and every selected cut.
func CheckCuts(c *kit.Case, kind string, cfg any, p params, nreq int) {
	r := c.R
	limit := uint64(nreq) * 200000 * 1000
	cfgJSON, _ := json.Marshal(cfg)
	dir := filepath.Join(r.WorkDir, fmt.Sprintf("case%d", c.Index))
	ref, err := sim.CallRole(sim.RoleReq{Role: "ref", Kind: kind, Cfg: cfgJSON, Dir: dir, Limit: limit, KeepTrace: true})
	if err != nil || ref.Err != "" {
		c.Fail("ckpt/reference-run-error", map[string]any{"err": fmt.Sprint(err, ref.Err), "cfg": cfg})
		return
	}
	if !ref.Done || ref.ErrCount > 0 {
		r.Count("reference_runs_not_clean(skipped;C16_judges_them)", 1)
		return
	}
	tr := &sim.EventTrace{Recs: ref.Trace, N: ref.Events}
	times := sim.DistinctTimes(tr)
	r.Count("reference_events", int64(ref.Events))
	cutSet := map[uint64]bool{}
	if p.Cuts == 0 {
		idx := c.Rng.Perm(len(times))
		if p.MaxCuts > 0 && len(idx) > p.MaxCuts {
			idx = idx[:p.MaxCuts]
		}
		for _, i := range idx {
			cutSet[uint64(times[i])] = true
		}
	} else {
		cutSet[uint64(times[0])] = true
		cutSet[uint64(times[len(times)-1])] = true
		cutSet[uint64(times[len(times)/2])+1] = true
		cutSet[uint64(times[len(times)-1])+12345] = true
		for i := 0; len(cutSet) < p.Cuts+4 && i < 4*p.Cuts; i++ {
			cutSet[uint64(times[c.Rng.Intn(len(times))])] = true
		}
	}
	var cuts []uint64
	for t := range cutSet {
		cuts = append(cuts, t)
	}
	sort.Slice(cuts, func(i, j int) bool { return cuts[i] < cuts[j] })
	sv, err := sim.CallRole(sim.RoleReq{Role: "saves", Kind: kind, Cfg: cfgJSON, Dir: dir, Limit: limit, Cuts: cuts})
	if err != nil || sv.Err != "" {
		c.Fail("ckpt/save-error", map[string]any{"err": fmt.Sprint(err, sv.Err), "cfg": cfg, "cuts": cuts})
		return
	}
	for i, t := range cuts {
		r.Count("cuts_checked", 1)
		path := filepath.Join(dir, fmt.Sprintf("cut-%d.tar.gz", i))
		res, err := sim.CallRole(sim.RoleReq{Role: "resume", Kind: kind, Cfg: cfgJSON, Dir: dir, Limit: limit, Path: path, KeepTrace: true})
		if err != nil || res.Err != "" {
			c.Fail("ckpt/load-or-resume-error", map[string]any{"err": fmt.Sprint(err, res.Err), "cut": t, "cfg": cfg})
			continue
		}
		if sv.InFlight[i] > 0 {
			r.Count("cuts_with_inflight_messages", 1)
			r.Max("max_inflight_at_cut", int64(sv.InFlight[i]))
			switch kind {
			case "net":
				r.Count("cuts_with_inflight_messages/network", 1)
			case "dm":
				r.Count("cuts_with_inflight_messages/data-mover", 1)
			}
			c.Nontrivial(fmt.Sprintf("%s@%d", cfgJSON, t))
		}
		want := sim.SuffixAfter(tr, timing.VTimeInPicoSec(t))
		if k := sim.FirstTraceDiff(want, res.Trace); k >= 0 {
			w := map[string]any{"cut": t, "cfg": cfg, "first_diff_index": k, "want_len": len(want), "got_len": len(res.Trace)}
			if k < len(want) {
				w["want"] = want[k]
			}
			if k < len(res.Trace) {
				w["got"] = res.Trace[k]
			}
			c.Fail("ckpt/event-trace-differs", w)
			continue
		}
		if d := sim.DiffPayloads(ref.Payloads, res.Payloads); len(d) > 0 {
			n := d[0]
			c.Fail("ckpt/final-state-differs:"+entityClass(d), map[string]any{"cut": t, "inflight_at_cut": sv.InFlight[i], "cfg": cfg, "entities_differ": d,
				"ref_payload": clip(string(ref.Payloads[n])), "resumed_payload": clip(string(res.Payloads[n]))})
			continue
		}
		if res.EndTime != ref.EndTime || res.NextID != ref.NextID {
			c.Fail("ckpt/end-time-or-id-counter-differs", map[string]any{"cut": t, "cfg": cfg,
				"ref": []uint64{ref.EndTime, ref.NextID}, "got": []uint64{res.EndTime, res.NextID}})
		}
		r.Count("events_replayed_after_cuts", int64(len(res.Trace)))
	}
	c.Sample(map[string]any{"cfg": cfg, "reference_events": ref.Events, "distinct_event_times": len(times), "cuts": cuts[:min(len(cuts), 12)]})
}

// entityClass makes the violation key specific: which kind of entity diverged.
func entityClass(d []string) string {
	if len(d) == 1 && d[0] == "entities/IDGenerator" {
		return "only-id-counter"
	}
	return "entities"
}

func clip(s string) string {
	if len(s) > 3000 {
		return s[:3000] + "..."
	}
	return s
}
