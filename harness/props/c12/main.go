// C12 Ticking components tick on clock edges, once per instant, while busy.
//
// The engine's BeforeEvent hook records every TickEvent per handler, the
// nodes' middleware records the progress result of every tick and a tap on
// the ports records every NotifyRecv / NotifyPortFree. Offline the log must
// satisfy: tick times are multiples of the handler's period; no handler ticks
// twice at one instant; a progressing tick at t is followed by a tick at
// t+period; a notification at r is followed by a tick at a time > r.
package main

import (
	"encoding/json"
	"fmt"
	"math/rand"
	"sort"

	"verifharness/kit"
	"verifharness/props/c09/world"
)

type params struct {
	MaxNodes, MaxFlows, MaxKicks int
}

func main() {
	kit.Main(kit.Prop{
		ID:    "C12",
		Level: "exploration",
		Rule: "a case is 2-7 nodes, mostly ticking at 1 GHz, 1.5 GHz, 700 MHz, 3 GHz, 2 GHz, 333 MHz or 1 MHz (some event-driven senders that send at arbitrary picoseconds) " +
			"on 1-2 direct connections (1 GHz, sometimes 2 GHz/500 MHz/700 MHz), buffers 1-4, budgets 1-3, dwell 0-3 busy ticks, 3-50 flows, plus 0-30 external TickLater/TickNow requests " +
			"issued at edge and non-edge times, often several at one instant; the recorded tick/progress/notification log is judged offline; " +
			"non-trivial when a handler whose period does not divide (or is not divided by) a connection's period ticked, a notification arrived at a non-edge time of its owner, and a handler received two wake requests at one instant; distinct by configuration",
		Assumptions: []string{
			"serial engine, Run() to an empty queue",
			"clock edges are multiples of Freq.Period() (integer picoseconds), as timing.Freq defines them",
			"'ticked at a later clock edge' is judged as: some tick at a time strictly after the notification; whether it was the very next edge is counted, not judged",
			"external TickNow requests are used as a wake source only; what they must cause is not part of the statement and is not judged",
		},
		Plan: func(tier string, seed int64) []kit.Batch {
			nb, n := 16, 100
			if tier == "thorough" {
				nb, n = 32, 4000
			}
			var bs []kit.Batch
			for i := 0; i < nb; i++ {
				p := params{MaxNodes: 4 + i%4, MaxFlows: 15 + 10*(i%4), MaxKicks: 10 * (i % 4)}
				bs = append(bs, kit.Batch{Name: fmt.Sprintf("clk%d", i), Seed: seed*1000 + int64(i), N: n, Params: kit.MkParams(p)})
			}
			return bs
		},
		Run: run,
		MustObserve: []string{"ticks_checked", "progress_ticks", "notifications_checked", "notifications_at_non_edge_time",
			"same_instant_duplicate_wake_requests", "ticks_of_non_dividing_period", "connection_ticks_checked", "dwell_progress_ticks",
			"TickNow_after_the_tick_of_the_same_instant"},
	})
}

var nodeFreqs = []uint64{1e9, 1e9, 1500e6, 700e6, 3e9, 2e9, 333e6, 1e6}

func gen(rng *rand.Rand, p params) world.Config {
	var cfg world.Config
	nConns := 1 + rng.Intn(2)
	for i := 0; i < nConns; i++ {
		f := uint64(1e9)
		if rng.Intn(4) == 0 {
			f = []uint64{2e9, 500e6, 700e6}[rng.Intn(3)]
		}
		cfg.ConnFreqHz = append(cfg.ConnFreqHz, f)
	}
	nNodes := 2 + rng.Intn(p.MaxNodes-1)
	for i := 0; i < nNodes; i++ {
		nc := world.NodeCfg{Kind: "tick", Budget: 1 + rng.Intn(3)}
		if i < nNodes-1 && rng.Intn(5) == 0 {
			nc.Kind = "ed"
			if rng.Intn(2) == 0 {
				nc.Rewake = []uint64{250, 333, 1000, 1428}[rng.Intn(4)]
			}
		} else {
			nc.FreqHz = nodeFreqs[rng.Intn(len(nodeFreqs))]
			if rng.Intn(3) == 0 {
				nc.Dwell = 1 + rng.Intn(3)
			}
		}
		k := 1 + rng.Intn(nConns)
		for _, c := range rng.Perm(nConns)[:k] {
			nc.Ports = append(nc.Ports, world.PortCfg{Conn: c, In: 1 + rng.Intn(4), Out: 1 + rng.Intn(4)})
		}
		sort.Slice(nc.Ports, func(a, b int) bool { return nc.Ports[a].Conn < nc.Ports[b].Conn })
		cfg.Nodes = append(cfg.Nodes, nc)
	}
	last := &cfg.Nodes[nNodes-1]
	last.Ports = nil
	for c := 0; c < nConns; c++ {
		last.Ports = append(last.Ports, world.PortCfg{Conn: c, In: 1 + rng.Intn(4), Out: 1 + rng.Intn(4)})
	}
	for c := 0; c < nConns; c++ {
		has := false
		for i := 0; i < nNodes-1; i++ {
			for _, pc := range cfg.Nodes[i].Ports {
				has = has || pc.Conn == c
			}
		}
		if !has {
			n := &cfg.Nodes[rng.Intn(nNodes-1)]
			n.Ports = append(n.Ports, world.PortCfg{Conn: c, In: 1 + rng.Intn(4), Out: 1 + rng.Intn(4)})
			sort.Slice(n.Ports, func(a, b int) bool { return n.Ports[a].Conn < n.Ports[b].Conn })
		}
	}
	shared := func(a, b int) []int {
		var s []int
		for _, pa := range cfg.Nodes[a].Ports {
			for _, pb := range cfg.Nodes[b].Ports {
				if pa.Conn == pb.Conn {
					s = append(s, pa.Conn)
				}
			}
		}
		return s
	}
	horizon := uint64(3+rng.Intn(40)) * 1000
	pickTime := func(node int) uint64 {
		switch rng.Intn(3) {
		case 0: // on an edge of the node's own clock (or of 1 GHz for event-driven nodes)
			per := uint64(1000)
			if cfg.Nodes[node].Kind == "tick" {
				per = 1_000_000_000_000 / cfg.Nodes[node].FreqHz
			}
			return uint64(rng.Int63n(int64(horizon/per)+2)) * per
		case 1:
			return uint64(rng.Int63n(int64(horizon/1000)+1)) * 1000
		default:
			return uint64(rng.Int63n(int64(horizon) + 1))
		}
	}
	nFlows := 3 + rng.Intn(p.MaxFlows-2)
	for f := 0; f < nFlows; f++ {
		cur := rng.Intn(nNodes - 1)
		at := pickTime(cur)
		route := []world.Hop{{Node: cur}}
		for {
			type cand struct{ n, via int }
			var cs []cand
			for j := cur + 1; j < nNodes; j++ {
				for _, v := range shared(cur, j) {
					cs = append(cs, cand{j, v})
				}
			}
			if len(cs) == 0 {
				break
			}
			pick := cs[rng.Intn(len(cs))]
			route = append(route, world.Hop{Node: pick.n, Via: pick.via})
			cur = pick.n
			if rng.Intn(2) == 0 {
				break
			}
		}
		if len(route) < 2 {
			continue
		}
		cfg.Inj = append(cfg.Inj, world.InjCfg{At: at, Route: route, Len: rng.Intn(4)})
	}
	sort.SliceStable(cfg.Inj, func(a, b int) bool { return cfg.Inj[a].At < cfg.Inj[b].At })
	var tickNodes []int
	for i, n := range cfg.Nodes {
		if n.Kind == "tick" {
			tickNodes = append(tickNodes, i)
		}
	}
	if p.MaxKicks > 0 {
		nk := rng.Intn(p.MaxKicks + 1)
		for k := 0; k < nk; k++ {
			node := tickNodes[rng.Intn(len(tickNodes))]
			kc := world.KickCfg{At: pickTime(node), Node: node, Now: rng.Intn(3) == 0, Late: rng.Intn(2) == 0}
			cfg.Kicks = append(cfg.Kicks, kc)
			for rng.Intn(3) == 0 { // the same request again at the same instant
				kc.Now = rng.Intn(3) == 0
				cfg.Kicks = append(cfg.Kicks, kc)
				k++
			}
		}
	}
	return cfg
}

func run(b kit.Batch, r *kit.R) {
	var p params
	b.P(&p)
	r.ForEach(b.N, func(c *kit.Case) {
		cfg := gen(c.Rng, p)
		c.Desc(cfg)
		w := world.Build(cfg)
		w.Run()
		judge(c, r, w)
	})
}

type tickRec struct {
	t        uint64
	progress bool
	known    bool // progress result known
}

func judge(c *kit.Case, r *kit.R, w *world.World) {
	cfg := w.Cfg
	nn := w.NumNodes()
	nh := nn + len(w.Conns)
	ticks := make([][]tickRec, nh)
	tickAt := make([]map[uint64]int, nh)
	for i := range tickAt {
		tickAt[i] = map[uint64]int{}
	}
	isTicker := func(h int) bool { return h >= nn || cfg.Nodes[h].Kind == "tick" }
	fail := func(key, format string, a ...any) {
		c.Fail(key, map[string]any{"msg": fmt.Sprintf(format, a...), "config": cfg})
	}
	// wake requests per (handler, instant): notifications, kicks
	type hi struct {
		h int
		t uint64
	}
	reqs := map[hi]int{}
	type notif struct {
		h    int
		t    uint64
		kind string
	}
	var notifs []notif
	inConnTick := -1
	connDelivered := 0
	dwellTicks := int64(0)
	lastStepPorts := make([]int, nn) // number of port events since the node's tick began
	for _, e := range w.Log {
		switch e.K {
		case world.EvTick:
			ticks[e.H] = append(ticks[e.H], tickRec{t: e.T})
			tickAt[e.H][e.T]++
			if e.H >= nn {
				inConnTick, connDelivered = e.H, 0
				if !e.B {
					fail("c12/connection-tick-not-secondary", "connection %s ticked with a primary event at t=%d", w.HandlerName(e.H), e.T)
				}
			} else {
				lastStepPorts[e.H] = 0
			}
		case world.EvTickEnd:
			if e.H >= nn && inConnTick == e.H {
				tr := &ticks[e.H][len(ticks[e.H])-1]
				tr.progress, tr.known = connDelivered > 0, true
				inConnTick = -1
			}
		case world.EvRecvd:
			if inConnTick >= 0 {
				connDelivered++
			}
		case world.EvSend, world.EvRetrIn:
			lastStepPorts[w.Ports[e.P].Node]++
		case world.EvStep:
			if e.H < nn && cfg.Nodes[e.H].Kind == "tick" && len(ticks[e.H]) > 0 {
				tr := &ticks[e.H][len(ticks[e.H])-1]
				tr.progress, tr.known = e.B, true
				if e.B && lastStepPorts[e.H] == 0 {
					dwellTicks++
				}
			}
		case world.EvNotifyRecv, world.EvNotifyFree:
			if isTicker(e.H) {
				kind := "NotifyRecv"
				if e.K == world.EvNotifyFree {
					kind = "NotifyPortFree"
				}
				notifs = append(notifs, notif{e.H, e.T, kind})
				reqs[hi{e.H, e.T}]++
			}
		case world.EvKick:
			reqs[hi{e.H, e.T}]++
			if ts := ticks[e.H]; len(ts) > 0 && ts[len(ts)-1].t == e.T {
				if e.B {
					r.Count("TickNow_after_the_tick_of_the_same_instant", 1)
				} else {
					r.Count("TickLater_after_the_tick_of_the_same_instant", 1)
				}
			}
			if e.B {
				r.Count("external_TickNow_requests", 1)
			} else {
				r.Count("external_TickLater_requests", 1)
				notifs = append(notifs, notif{e.H, e.T, "TickLater"})
			}
		}
	}
	nonDividing := false
	for h := 0; h < nh; h++ {
		if !isTicker(h) {
			continue
		}
		per := w.HandlerPeriod(h)
		nd := false
		for ci := range w.Conns {
			cp := w.HandlerPeriod(nn + ci)
			if h != nn+ci && cp%per != 0 && per%cp != 0 {
				nd = true
			}
		}
		r.Distinct("periods_ps", fmt.Sprint(per))
		for i, tr := range ticks[h] {
			r.Count("ticks_checked", 1)
			if h >= nn {
				r.Count("connection_ticks_checked", 1)
			}
			if nd {
				r.Count("ticks_of_non_dividing_period", 1)
				nonDividing = true
			}
			if tr.t%per != 0 {
				fail("c12/tick-off-edge", "%s (period %d ps) ticked at t=%d = %d*period + %d", w.HandlerName(h), per, tr.t, tr.t/per, tr.t%per)
			}
			if i > 0 && ticks[h][i-1].t == tr.t {
				fail("c12/two-ticks-at-one-instant", "%s ticked twice at t=%d", w.HandlerName(h), tr.t)
			}
			if tr.known && tr.progress {
				r.Count("progress_ticks", 1)
				if tickAt[h][tr.t+per] == 0 {
					key := "c12/no-tick-at-next-edge-after-progress"
					if h >= nn {
						key += "/connection"
					}
					fail(key, "%s made progress in its tick at t=%d but was not ticked at t=%d; its later ticks: %v", w.HandlerName(h), tr.t, tr.t+per, later(ticks[h], tr.t))
				}
			}
		}
	}
	r.Count("dwell_progress_ticks", dwellTicks)
	nonEdgeNotif := false
	for _, nf := range notifs {
		per := w.HandlerPeriod(nf.h)
		r.Count("notifications_checked", 1)
		if nf.t%per != 0 {
			r.Count("notifications_at_non_edge_time", 1)
			nonEdgeNotif = true
		}
		// first tick strictly after nf.t
		ts := ticks[nf.h]
		i := sort.Search(len(ts), func(i int) bool { return ts[i].t > nf.t })
		if i == len(ts) {
			fail("c12/no-later-tick-after-"+nf.kind, "%s got %s at t=%d and was never ticked afterwards (last tick %v)", w.HandlerName(nf.h), nf.kind, nf.t, lastTick(ts))
			continue
		}
		next := (nf.t/per + 1) * per
		if ts[i].t == next {
			r.Count("woken_at_the_very_next_edge", 1)
		} else {
			r.Count("woken_later_than_the_next_edge", 1)
			r.Max("max_wake_delay_in_periods", int64((ts[i].t-next)/per))
		}
	}
	dup := false
	for k, n := range reqs {
		if n >= 2 {
			r.Count("same_instant_duplicate_wake_requests", 1)
			dup = true
			_ = k
		}
	}
	if nonDividing && nonEdgeNotif && dup {
		d, _ := json.Marshal(cfg)
		c.Nontrivial(string(d))
	}
	c.Sample(map[string]any{"config": cfg, "events": len(w.Log), "end_time_ps": uint64(w.Engine.CurrentTime())})
}

func later(ts []tickRec, t uint64) []uint64 {
	var out []uint64
	for _, x := range ts {
		if x.t > t && len(out) < 5 {
			out = append(out, x.t)
		}
	}
	return out
}

func lastTick(ts []tickRec) any {
	if len(ts) == 0 {
		return "none"
	}
	return ts[len(ts)-1].t
}
