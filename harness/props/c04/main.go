// C04 Parallel engine preserves time order and phase order, exactly once.
//
// Thread-safe handler programs (prog.go) run on the real ParallelEngine under
// several GOMAXPROCS values. One monitor mutex guards the set of unfinished
// events: an event enters the set before it is handed to Schedule and leaves
// it at the last statement of its handler, so the shadow state is never behind
// what it shadows. At handler entry the monitor decides, on logical state
// only, that no unfinished event has an earlier time and, for a secondary
// event, that no primary event of the same instant is unfinished. Exactly-once
// is decided by uid against the program's complete event set. The binary is
// race-instrumented: every report whose innermost frame is in package timing
// is a violation too.
package main

import (
	"fmt"
	"runtime"
	"strings"
	"sync"
	"time"

	"verifharness/kit"

	"github.com/sarchlab/akita/v5/hooking"
	"github.com/sarchlab/akita/v5/timing"
)

type params struct {
	Budget  int `json:"budget"`
	Repeats int `json:"repeats"`
}

func main() {
	kit.Main(kit.Prop{
		ID:    "C04",
		Level: "exploration",
		Rule: "each case is a PRNG-drawn thread-safe handler program (6 flavours: generic, wide equal-time fronts, same-instant chains, secondary-heavy, sparse, lock-step; 1-8 handlers; " +
			"children at delta 0/1/small, primary or secondary; handlers spin and yield an event-determined amount) executed several times on fresh ParallelEngines under GOMAXPROCS 1/2/4/16, " +
			"half of the runs with engine hooks; a program is non-trivial when it handled >= 20 events of both classes, had at least one handler entered while another was running and " +
			"contained a same-instant child; distinct by (GOMAXPROCS, program seed)",
		Assumptions: []string{
			"all events are scheduled before Run or from inside handlers, at times >= the handler's event time; in a third of the runs a driver goroutine also schedules primaries for CurrentTime() while it holds Pause",
			"a primary scheduled by a secondary at the secondary's own instant cannot precede the secondaries of that instant that already started (no engine can do that); it is exempt from the phase rule but not from the time rule nor from exactly-once",
			"'unfinished' = handed to Schedule (or about to be) and its handler has not reached its last statement",
		},
		Plan: func(tier string, seed int64) []kit.Batch {
			n, budget, reps, per := 20, 400, 3, 1
			if tier == "thorough" {
				n, budget, reps, per = 150, 1500, 4, 4
			}
			var bs []kit.Batch
			for k := 0; k < per; k++ {
				for _, procs := range []int{1, 2, 4, 16} {
					for j := 0; j < 4; j++ {
						bs = append(bs, kit.Batch{Name: fmt.Sprintf("par-p%d-%d-%d", procs, j, k), Seed: seed*100003 + int64(len(bs)), N: n,
							Params: kit.MkParams(params{Budget: budget, Repeats: reps}), Env: []string{fmt.Sprintf("GOMAXPROCS=%d", procs)}})
					}
				}
			}
			return bs
		},
		Run:         run,
		RaceKey:     raceKey,
		MustObserve: []string{"events_handled", "handler_entries_while_another_handler_was_running", "secondary_entries_checked_against_primaries", "same_instant_children", "late_primaries(scheduled_by_a_secondary_of_the_instant)", "programs_with_several_entry_orders", "runs_with_hooks", "secondaries_scheduled_after_a_late_primary_of_their_instant", "primaries_injected_under_pause_at_current_time"},
		BatchTimeout: func(tier string) time.Duration {
			if tier == "thorough" {
				return 40 * time.Minute
			}
			return 6 * time.Minute
		},
	})
}

// ---------------------------------------------------------------- race reports

func raceFrames(rep string) [][]string {
	var out [][]string
	for _, blk := range strings.Split(rep, "\n\n") {
		lines := strings.Split(blk, "\n")
		head := -1
		for i, l := range lines {
			if strings.Contains(l, " by goroutine ") || strings.Contains(l, " by main goroutine") {
				head = i
				break
			}
		}
		if head < 0 {
			continue
		}
		var fr []string
		for _, l := range lines[head+1:] {
			if strings.HasPrefix(l, "  ") && !strings.HasPrefix(l, "   ") {
				fr = append(fr, strings.TrimSuffix(strings.TrimSpace(l), "()"))
			}
		}
		out = append(out, fr)
		if len(out) == 2 {
			break
		}
	}
	return out
}

const akitaPrefix = "github.com/sarchlab/akita/v5/"

func short(f string) string {
	if i := strings.LastIndex(f, "/"); i >= 0 {
		return f[i+1:]
	}
	return f
}

func firstOwn(fr []string) string {
	for _, f := range fr {
		if strings.HasPrefix(f, akitaPrefix) || strings.HasPrefix(f, "main.") || strings.HasPrefix(f, "verifharness/") {
			return f
		}
	}
	return ""
}

// raceKey keeps reports whose innermost non-library frame (of either access)
// is in package timing, keyed by the pair of innermost functions.
func raceKey(rep string) (string, bool) {
	st := raceFrames(rep)
	for len(st) < 2 {
		st = append(st, nil)
	}
	a, b := firstOwn(st[0]), firstOwn(st[1])
	if !strings.HasPrefix(a, akitaPrefix+"timing.") && !strings.HasPrefix(b, akitaPrefix+"timing.") {
		return "", false
	}
	x, y := short(a), short(b)
	if x == "" {
		x = "?"
	}
	if y == "" {
		y = "?"
	}
	if x > y {
		x, y = y, x
	}
	return "race:c04/timing/" + x + "|" + y, true
}

// ---------------------------------------------------------------- monitor

type tcount struct{ all, pri int }

type monitor struct {
	p   *program
	eng *timing.ParallelEngine

	mu         sync.Mutex
	unfinished map[uint64]ev
	seqOf      map[uint64]uint64 // order in which events were handed to Schedule (under mu)
	seq        uint64
	lateThenSec int
	byTime     map[uint64]*tcount // unfinished per time: all / primaries bound by the phase rule
	handled    map[uint64]int
	inflight   int
	maxInfl    int
	overlap    int
	secChecked int
	zeroKids   int
	lateKids   int
	nSec       int
	orderHash  uint64
	hookBefore map[uint64]int
	hookAfter  map[uint64]int
	fails      map[string]string
}

func (m *monitor) failLocked(key, format string, a ...any) {
	if _, dup := m.fails[key]; !dup {
		m.fails[key] = fmt.Sprintf(format, a...)
	}
}

func (m *monitor) addLocked(e ev) {
	m.unfinished[e.uid] = e
	m.seq++
	m.seqOf[e.uid] = m.seq
	c := m.byTime[e.t]
	if c == nil {
		c = &tcount{}
		m.byTime[e.t] = c
	}
	c.all++
	if !e.sec && !e.late {
		c.pri++
	}
}

func (m *monitor) Handle(evt timing.Event) error {
	e := evt.(ev)
	m.mu.Lock()
	m.handled[e.uid]++
	if n := m.handled[e.uid]; n > 1 {
		m.failLocked("par/event-handled-more-than-once", "event %x @%d handled %d times", e.uid, e.t, n)
	}
	if _, ok := m.unfinished[e.uid]; !ok && m.handled[e.uid] == 1 {
		m.failLocked("par/handled-event-not-pending", "event %x @%d entered its handler but is not in the pending set", e.uid, e.t)
	}
	for t, c := range m.byTime {
		if t < e.t && c.all > 0 {
			var w ev
			for _, u := range m.unfinished {
				if u.t == t {
					w = u
					break
				}
			}
			m.failLocked("par/event-started-while-earlier-event-unfinished",
				"GOMAXPROCS=%d: event %x @%d (secondary=%v) entered its handler while %d event(s) of time %d were unfinished, e.g. %x (secondary=%v); %d handler(s) in flight",
				runtime.GOMAXPROCS(0), e.uid, e.t, e.sec, c.all, t, w.uid, w.sec, m.inflight)
			break
		}
	}
	if e.sec {
		m.nSec++
		m.secChecked++
		if c := m.byTime[e.t]; c != nil && c.pri > 0 {
			var w ev
			for _, u := range m.unfinished {
				if u.t == e.t && !u.sec && !u.late {
					w = u
					break
				}
			}
			m.failLocked("par/secondary-started-before-primaries-of-the-instant-finished",
				"GOMAXPROCS=%d: secondary event %x @%d entered its handler while %d primary event(s) of the same instant were unfinished, e.g. %x; %d handler(s) in flight",
				runtime.GOMAXPROCS(0), e.uid, e.t, c.pri, w.uid, m.inflight)
		}
	}
	if e.sec {
		// A primary that a secondary of this instant scheduled ("late") cannot precede the secondaries that existed
		// before it, but a secondary handed to Schedule AFTER that primary must wait for it like for any other primary.
		for _, u := range m.unfinished {
			if u.t == e.t && !u.sec && u.late && m.seqOf[u.uid] < m.seqOf[e.uid] {
				m.failLocked("par/secondary-started-before-an-earlier-scheduled-primary-of-the-instant",
					"GOMAXPROCS=%d: secondary event %x @%d entered its handler while primary %x of the same instant, handed to Schedule before it, was unfinished; %d handler(s) in flight",
					runtime.GOMAXPROCS(0), e.uid, e.t, u.uid, m.inflight)
				break
			}
		}
	}
	if m.inflight > 0 {
		m.overlap++
	}
	m.inflight++
	if m.inflight > m.maxInfl {
		m.maxInfl = m.inflight
	}
	m.orderHash = h2(m.orderHash, e.uid)
	m.mu.Unlock()

	m.p.work(e)
	sawLate := false
	for _, c := range m.p.children(e) {
		m.mu.Lock()
		m.addLocked(c)
		if c.late {
			sawLate = true
		} else if sawLate && c.sec && c.t == e.t {
			m.lateThenSec++
		}
		if c.t == e.t {
			m.zeroKids++
		}
		if c.late {
			m.lateKids++
		}
		m.mu.Unlock()
		m.eng.Schedule(c)
	}

	m.mu.Lock()
	if _, ok := m.unfinished[e.uid]; ok {
		delete(m.unfinished, e.uid)
		c := m.byTime[e.t]
		c.all--
		if !e.sec && !e.late {
			c.pri--
		}
		if c.all == 0 {
			delete(m.byTime, e.t)
		}
	}
	m.inflight--
	m.mu.Unlock()
	return nil
}

func (m *monitor) Func(ctx hooking.HookCtx) {
	e, ok := ctx.Item.(ev)
	if !ok {
		return
	}
	m.mu.Lock()
	switch ctx.Pos {
	case timing.HookPosBeforeEvent:
		m.hookBefore[e.uid]++
		if m.handled[e.uid] != 0 {
			m.failLocked("par/hook-order", "BeforeEvent hook of %x fired after its handler started", e.uid)
		}
	case timing.HookPosAfterEvent:
		m.hookAfter[e.uid]++
		if _, pending := m.unfinished[e.uid]; pending || m.handled[e.uid] == 0 {
			m.failLocked("par/hook-order", "AfterEvent hook of %x fired before its handler finished", e.uid)
		}
	}
	m.mu.Unlock()
}

func run(b kit.Batch, r *kit.R) {
	var prm params
	b.P(&prm)
	r.ForEach(b.N, func(c *kit.Case) {
		rng := c.Rng
		p := genProgram(rng, prm.Budget/2+rng.Intn(prm.Budget/2+1))
		hookedFirst := rng.Intn(2)
		c.Desc(map[string]any{"gomaxprocs": runtime.GOMAXPROCS(0), "repeats": prm.Repeats, "program": p})
		total := p.totalEvents()
		orders := map[uint64]bool{}
		var nSec, zero, late, overlap, maxInfl int
		failed := false
		for rep := 0; rep < prm.Repeats; rep++ {
			hooked := (rep+hookedFirst)%2 == 0
			total := total
			m := &monitor{p: p, eng: timing.NewParallelEngine(), unfinished: map[uint64]ev{}, seqOf: map[uint64]uint64{}, byTime: map[uint64]*tcount{},
				handled: map[uint64]int{}, hookBefore: map[uint64]int{}, hookAfter: map[uint64]int{}, fails: map[string]string{}}
			for i := 0; i < p.H; i++ {
				m.eng.RegisterHandler(hnames[i], m)
			}
			if hooked {
				m.eng.AcceptHook(m)
				r.Count("runs_with_hooks", 1)
			} else {
				r.Count("runs_without_hooks", 1)
			}
			for i := range p.Roots {
				e := p.rootEvent(i)
				m.mu.Lock()
				m.addLocked(e)
				m.mu.Unlock()
				m.eng.Schedule(e)
			}
			// In a third of the runs a driver goroutine does what the live monitor's tick endpoint does: Pause,
			// schedule a primary event for CurrentTime(), Continue. No round is in progress under a pause, so
			// such an event is an ordinary primary of its instant for the time rule and the phase rule.
			inject := rng.Intn(3) == 0
			nInj := 0
			var err error
			if !inject {
				err = m.eng.Run()
			} else {
				done := make(chan error, 1)
				go func() { done <- m.eng.Run() }()
				finished := false
				gap := []int{0, 50, 500, 5000}[rng.Intn(4)]
				for k := 0; k < 60 && !finished; k++ {
					for y := rng.Intn(3); y > 0; y-- {
						runtime.Gosched()
					}
					if gap > 0 {
						for i, n := 0, rng.Intn(gap); i < n; i++ {
							sink += uint64(i)
						}
					}
					select {
					case err = <-done:
						finished = true
						continue
					default:
					}
					m.eng.Pause()
					e := ev{uid: h2(0x1ec7ed, uint64(k)), t: uint64(m.eng.CurrentTime()), h: k % p.H, fuel: 1}
					m.mu.Lock()
					m.addLocked(e)
					m.mu.Unlock()
					m.eng.Schedule(e)
					m.eng.Continue()
					nInj++
				}
				if !finished {
					err = <-done
				}
				// an event injected after the run loop had found its queues empty belongs to the next Run
				m.mu.Lock()
				left := len(m.unfinished)
				m.mu.Unlock()
				if left > 0 && err == nil {
					r.Count("further_runs_for_events_injected_as_the_run_ended", 1)
					err = m.eng.Run()
				}
				total += nInj
				r.Count("runs_with_a_pausing_injector", 1)
				r.Count("primaries_injected_under_pause_at_current_time", int64(nInj))
			}

			m.mu.Lock()
			if err != nil {
				m.failLocked("par/run-error", "Run returned %v", err)
			}
			if len(m.unfinished) > 0 || len(m.handled) != total {
				var w ev
				for _, u := range m.unfinished {
					w = u
					break
				}
				m.failLocked("par/run-returned-with-events-unhandled", "GOMAXPROCS=%d: Run returned with %d of %d events handled; %d still pending or running, e.g. %x @%d (secondary=%v)",
					runtime.GOMAXPROCS(0), len(m.handled), total, len(m.unfinished), w.uid, w.t, w.sec)
			}
			if hooked {
				for uid := range m.handled {
					if m.hookBefore[uid] != 1 || m.hookAfter[uid] != 1 {
						m.failLocked("par/hook-count", "event %x: BeforeEvent fired %d times, AfterEvent %d times", uid, m.hookBefore[uid], m.hookAfter[uid])
						break
					}
				}
			}
			for k, msg := range m.fails {
				c.Failf(k, "%s", msg)
				failed = true
			}
			orders[m.orderHash] = true
			nSec, zero, late = m.nSec, m.zeroKids, m.lateKids
			overlap += m.overlap
			if m.maxInfl > maxInfl {
				maxInfl = m.maxInfl
			}
			r.Count("events_handled", int64(len(m.handled)))
			r.Count("secondary_entries_checked_against_primaries", int64(m.secChecked))
			r.Count("handler_entries_while_another_handler_was_running", int64(m.overlap))
			r.Count("same_instant_children", int64(m.zeroKids))
			r.Count("late_primaries(scheduled_by_a_secondary_of_the_instant)", int64(m.lateKids))
			r.Count("secondaries_scheduled_after_a_late_primary_of_their_instant", int64(m.lateThenSec))
			r.Distinct("entry_orders(gomaxprocs,program,order)", fmt.Sprintf("%d/%x/%x", runtime.GOMAXPROCS(0), p.Seed, m.orderHash))
			m.mu.Unlock()
		}
		r.Count("programs", 1)
		r.Count("programs_flavor_"+p.Flavor, 1)
		if len(orders) > 1 {
			r.Count("programs_with_several_entry_orders", 1)
		}
		r.Max("max_handlers_in_flight", int64(maxInfl))
		r.Max("max_events_in_one_program", int64(total))
		if !failed && total >= 20 && nSec > 0 && nSec < total && overlap > 0 && zero > 0 {
			c.Nontrivial(fmt.Sprintf("%d/%x", runtime.GOMAXPROCS(0), p.Seed))
			c.Sample(map[string]any{"gomaxprocs": runtime.GOMAXPROCS(0), "program": p, "events": total, "secondary_events": nSec, "same_instant_children": zero,
				"late_primaries": late, "max_handlers_in_flight": maxInfl, "distinct_entry_orders_in_repeats": len(orders)})
		}
	})
}
