// Thread-safe handler programs for the engine concurrency checks.
//
// This file is duplicated verbatim in props/c04 and props/c05.
//
// A program is a pure description: handling event u yields children that are a
// function of (program seed, u.uid) only, never of the order or the goroutine
// in which events were handled, so the complete set of events of a program is
// known in advance (exactly-once can be decided by uid) and handlers need no
// shared mutable state of their own.
package main

import (
	"math/rand"
	"runtime"

	"github.com/sarchlab/akita/v5/timing"
)

func mix(x uint64) uint64 { // splitmix64 finaliser
	x += 0x9e3779b97f4a7c15
	x = (x ^ (x >> 30)) * 0xbf58476d1ce4e5b9
	x = (x ^ (x >> 27)) * 0x94d049bb133111eb
	return x ^ (x >> 31)
}

func h2(a, b uint64) uint64 { return mix(mix(a) ^ (b + 0x632be59bd9b4e019)) }

var hnames = []string{"H0", "H1", "H2", "H3", "H4", "H5", "H6", "H7"}

// ev is the event type of handler programs.
type ev struct {
	uid  uint64
	t    uint64
	h    int
	sec  bool
	fuel int // number of events in the subtree rooted here (itself included)
	// late: a primary scheduled by a secondary of the same instant. No engine
	// can run it before the secondaries of that instant that already started.
	late bool
}

func (e ev) Time() timing.VTimeInPicoSec { return timing.VTimeInPicoSec(e.t) }
func (e ev) HandlerID() string           { return hnames[e.h] }
func (e ev) IsSecondary() bool           { return e.sec }

type root struct {
	T    uint64 `json:"t"`
	Sec  bool   `json:"sec"`
	H    int    `json:"h"`
	Fuel int    `json:"fuel"`
}

// program is the complete, serialisable description of a workload.
type program struct {
	Flavor  string `json:"flavor"`
	Seed    uint64 `json:"seed"`
	H       int    `json:"handlers"`
	PZero   int    `json:"pm_delta0"`    // per mille: child at the same instant
	POne    int    `json:"pm_delta1"`    // per mille: child one picosecond later
	PSec    int    `json:"pm_secondary"` // per mille: child is secondary
	MaxKids int    `json:"max_children"`
	Small   uint64 `json:"small"` // other children 1..Small later
	Roots   []root `json:"roots"`
	// handler work: spin 0..SpinMax iterations, yielding the processor with
	// probability YieldPm per mille before, in the middle and after
	SpinMax int `json:"spin_max"`
	YieldPm int `json:"pm_yield"`
}

func (p *program) rootEvent(i int) ev {
	r := p.Roots[i]
	return ev{uid: h2(h2(p.Seed, 1000), uint64(i)), t: r.T, h: r.H, sec: r.Sec, fuel: r.Fuel}
}

// children is the pure function (program, event) -> events it schedules.
func (p *program) children(e ev) []ev {
	if e.fuel <= 1 {
		return nil
	}
	s := h2(p.Seed, e.uid)
	rest := e.fuel - 1
	k := 1 + int(s%uint64(p.MaxKids))
	if k > rest {
		k = rest
	}
	out := make([]ev, 0, k)
	for i := 0; i < k; i++ {
		s = mix(s + uint64(i))
		f := rest
		if i < k-1 {
			f = 1 + int((s>>8)%uint64(rest-(k-1-i)))
		}
		rest -= f
		s2 := mix(s)
		var d uint64
		switch r := int((s >> 20) % 1000); {
		case r < p.PZero:
			d = 0
		case r < p.PZero+p.POne:
			d = 1
		default:
			d = 1 + s2%p.Small
		}
		c := ev{
			uid:  h2(h2(p.Seed, e.uid), uint64(i)+1),
			t:    e.t + d,
			h:    int((s2 >> 50) % uint64(p.H)),
			sec:  int((s2>>30)%1000) < p.PSec,
			fuel: f,
		}
		c.late = e.sec && !c.sec && c.t == e.t
		out = append(out, c)
	}
	return out
}

func (p *program) totalEvents() int {
	n := 0
	for _, r := range p.Roots {
		n += r.Fuel
	}
	return n
}

var sink uint64

// work is what a handler "computes": a spin whose length depends on the event
// only, with optional yields so that other goroutines (other handlers, a
// pauser) get to run in the middle of it even on one processor.
func (p *program) work(e ev) {
	s := h2(p.Seed^0x77aa, e.uid)
	y := func(k uint) {
		if int((s>>k)%1000) < p.YieldPm {
			runtime.Gosched()
		}
	}
	n := 0
	if p.SpinMax > 0 {
		n = int((s >> 3) % uint64(p.SpinMax+1))
	}
	y(13)
	x := s
	for i := 0; i < n/2; i++ {
		x = x*6364136223846793005 + 1442695040888963407
	}
	y(29)
	for i := n / 2; i < n; i++ {
		x = x*6364136223846793005 + 1442695040888963407
	}
	y(43)
	if x == 42 {
		sink++ // never (keeps the loop alive)
	}
}

func genProgram(rng *rand.Rand, budget int) *program {
	p := &program{Seed: rng.Uint64(), H: 1 + rng.Intn(8), MaxKids: 1 + rng.Intn(4), Small: 1 + uint64(rng.Intn(6))}
	flavors := []string{"generic", "wide-front", "same-instant-chains", "secondary-heavy", "sparse", "lockstep"}
	p.Flavor = flavors[rng.Intn(len(flavors))]
	nroots := 1 + rng.Intn(6)
	span := uint64(1 + rng.Intn(8))
	switch p.Flavor {
	case "generic":
		p.PZero, p.POne, p.PSec = rng.Intn(300), rng.Intn(300), rng.Intn(500)
	case "wide-front": // many events of one instant: real parallel rounds
		p.PZero, p.POne, p.PSec = 100+rng.Intn(200), 400+rng.Intn(400), rng.Intn(300)
		p.Small, p.MaxKids, nroots, span = 1+uint64(rng.Intn(2)), 3+rng.Intn(3), 4+rng.Intn(12), 1
	case "same-instant-chains":
		p.PZero, p.POne, p.PSec = 500+rng.Intn(400), rng.Intn(100), rng.Intn(500)
	case "secondary-heavy":
		p.PZero, p.POne, p.PSec = rng.Intn(500), rng.Intn(300), 500+rng.Intn(450)
	case "sparse":
		p.PZero, p.POne, p.PSec = rng.Intn(50), rng.Intn(50), rng.Intn(300)
		p.Small = 1 + uint64(rng.Intn(1000))
		span = 1000
	case "lockstep": // every child exactly one step later: full fronts at every instant
		p.PZero, p.POne, p.PSec = 0, 1000, rng.Intn(400)
		p.MaxKids, nroots, span = 2+rng.Intn(2), 2+rng.Intn(6), 1
	}
	if nroots > budget {
		nroots = budget
	}
	left := budget
	for i := 0; i < nroots; i++ {
		f := left
		if i < nroots-1 {
			f = 1 + rng.Intn(left-(nroots-1-i))
		}
		left -= f
		p.Roots = append(p.Roots, root{T: uint64(rng.Int63n(int64(span))), Sec: rng.Intn(1000) < p.PSec, H: rng.Intn(p.H), Fuel: f})
	}
	switch rng.Intn(4) {
	case 0:
		p.SpinMax = 0
	case 1:
		p.SpinMax = 50
	case 2:
		p.SpinMax = 500
	default:
		p.SpinMax = 3000
	}
	p.YieldPm = []int{0, 100, 400, 900}[rng.Intn(4)]
	return p
}
