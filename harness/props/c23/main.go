// C23 Data movers copy exactly the requested range.
//
// A real datamover.Comp sits between 1-2 scripted requesters and real ideal
// memory controllers on its Inside and Outside ports (1-2 interleaved
// controllers per side, each with its own storage filled with random bytes).
// A port hook logs the traffic on the mover's Top/Inside/Outside ports and
// takes a full snapshot of every storage at the instant an acknowledgment is
// sent; the oracle replays the moves on a reference memory in arrival order
// and compares whole memories.
package main

import (
	"encoding/json"
	"fmt"
	"math/rand"

	"verifharness/kit"

	"github.com/sarchlab/akita/v5/hooking"
	"github.com/sarchlab/akita/v5/mem"
	"github.com/sarchlab/akita/v5/mem/datamover"
	"github.com/sarchlab/akita/v5/mem/datamoverprotocol"
	"github.com/sarchlab/akita/v5/mem/idealmemcontroller"
	"github.com/sarchlab/akita/v5/mem/memprotocol"
	"github.com/sarchlab/akita/v5/messaging"
	"github.com/sarchlab/akita/v5/modeling"
	"github.com/sarchlab/akita/v5/noc/directconnection"
	"github.com/sarchlab/akita/v5/timing"
)

type none = modeling.None

type fmw struct{ f func() bool }

func (m *fmw) Tick() bool { return m.f() }

const capacity = 16 * 1024

type sideCfg struct {
	Granule    uint64 `json:"granule"`
	Ctrls      int    `json:"controllers"`
	Interleave uint64 `json:"interleave"`
	Latency    []int  `json:"latency"`
	Width      []int  `json:"width"`
	MHz        []int  `json:"mhz"`
}

type move struct {
	Burst   int    `json:"burst"`
	Req     int    `json:"requester"`
	SrcSide string `json:"src_side"`
	DstSide string `json:"dst_side"`
	Src     uint64 `json:"src"`
	Dst     uint64 `json:"dst"`
	Size    uint64 `json:"size"`
	Class   string `json:"size_class"`
}

type cfg struct {
	Seed       int64              `json:"seed"`
	Sides      map[string]sideCfg `json:"sides"`
	BufferSize uint64             `json:"buffer_size"`
	PortBuf    int                `json:"port_buf"`
	MemPortBuf int                `json:"mem_port_buf"`
	DMMHz      int                `json:"dm_mhz"`
	Requesters int                `json:"requesters"`
	IdlePct    int                `json:"idle_pct"`
	Moves      []move             `json:"moves"`
}

func roundUp(v, g uint64) uint64 { return (v + g - 1) / g * g }

func overlap(a, an, b, bn uint64) bool { return a < b+bn && b < a+an }

func drawCfg(rng *rand.Rand, nMoves int) cfg {
	pick := func(v ...int) int { return v[rng.Intn(len(v))] }
	gran := []uint64{16, 32, 64, 128, 256}
	if rng.Intn(4) == 0 { // granules that do not divide each other: destination writes straddle source chunks
		gran = []uint64{16, 24, 48, 64, 96, 160, 256}
	}
	c := cfg{Seed: rng.Int63(), Sides: map[string]sideCfg{}, PortBuf: pick(1, 2, 4, 8), MemPortBuf: pick(1, 2, 4, 8),
		DMMHz: pick(1000, 1000, 500, 1300), Requesters: 1 + rng.Intn(2), IdlePct: pick(0, 0, 30)}
	sameG := rng.Intn(4) == 0
	for _, s := range []string{"inside", "outside"} {
		sc := sideCfg{Granule: gran[rng.Intn(len(gran))], Ctrls: 1 + rng.Intn(2)}
		if sameG && s == "outside" {
			sc.Granule = c.Sides["inside"].Granule
		}
		sc.Interleave = sc.Granule << uint(rng.Intn(3))
		for i := 0; i < sc.Ctrls; i++ {
			sc.Latency = append(sc.Latency, pick(0, 1, 3, 10, 25))
			sc.Width = append(sc.Width, pick(1, 1, 2, 4))
			sc.MHz = append(sc.MHz, pick(1000, 1000, 600, 1700))
		}
		c.Sides[s] = sc
	}
	gi, go_ := c.Sides["inside"].Granule, c.Sides["outside"].Granule
	maxG := max(gi, go_)
	if maxG%min(gi, go_) != 0 {
		// a destination write can straddle two source chunks; the read window must be able to hold both
		maxG = gi + go_
	}
	c.BufferSize = maxG * uint64(pick(1, 1, 2, 3, 4, 8))
	if rng.Intn(4) == 0 {
		c.BufferSize += uint64(rng.Intn(int(maxG)))
	}
	sides := []string{"inside", "outside"}
	burst := 0
	for len(c.Moves) < nMoves {
		bl := pick(1, 1, 2, 3, 4)
		start := len(c.Moves)
		for k := 0; k < bl && len(c.Moves) < nMoves; k++ {
			for try := 0; try < 50; try++ {
				m := move{Burst: burst, Req: rng.Intn(c.Requesters), SrcSide: sides[rng.Intn(2)], DstSide: sides[rng.Intn(2)]}
				sg, dg := c.Sides[m.SrcSide].Granule, c.Sides[m.DstSide].Granule
				mg := max(sg, dg)
				switch rng.Intn(8) {
				case 0, 1:
					m.Class, m.Size = "multiple_of_both", mg*uint64(1+rng.Intn(6))
				case 2:
					m.Class, m.Size = "multiple_of_src_granule", sg*uint64(1+rng.Intn(12))
				case 3:
					m.Class, m.Size = "multiple_of_dst_granule", dg*uint64(1+rng.Intn(12))
				case 4:
					m.Class, m.Size = "below_one_granule", 1+uint64(rng.Intn(int(min(sg, dg))))
				case 5:
					m.Class, m.Size = "granule_multiple_plus_minus_few", mg*uint64(1+rng.Intn(5))+uint64(rng.Intn(7))-3
				default:
					m.Class, m.Size = "arbitrary", 1+uint64(rng.Intn(1500))
				}
				if rng.Intn(40) == 0 {
					m.Class, m.Size = "zero", 0
				}
				ext := max(roundUp(m.Size, sg), roundUp(m.Size, dg))
				if ext+mg > capacity {
					continue
				}
				m.Src = uint64(rng.Int63n(int64((capacity-ext)/sg+1))) * sg
				m.Dst = uint64(rng.Int63n(int64((capacity-ext)/dg+1))) * dg
				ok := !(m.SrcSide == m.DstSide && overlap(m.Src, ext, m.Dst, ext))
				// requests that may be queued together: nobody's source may be somebody else's destination
				for _, o := range c.Moves[start:] {
					oe := max(roundUp(o.Size, c.Sides[o.SrcSide].Granule), roundUp(o.Size, c.Sides[o.DstSide].Granule))
					if (o.DstSide == m.SrcSide && overlap(o.Dst, oe, m.Src, ext)) || (m.DstSide == o.SrcSide && overlap(m.Dst, ext, o.Src, oe)) {
						ok = false
					}
				}
				if ok {
					c.Moves = append(c.Moves, m)
					break
				}
			}
		}
		burst++
	}
	return c
}

// ---- port log ----

type rec struct {
	pos  string
	port string
	msg  messaging.Msg
	snap int // index into snaps for acknowledgments, else -1
}

type logger struct {
	topName string
	mems    map[string][]*mem.Storage
	recs    []rec
	snaps   []map[string][][]byte
}

func snapshot(mems map[string][]*mem.Storage) map[string][][]byte {
	out := map[string][][]byte{}
	for side, ss := range mems {
		for _, s := range ss {
			d, err := s.Read(0, capacity)
			if err != nil {
				panic(err)
			}
			out[side] = append(out[side], d)
		}
	}
	return out
}

func (l *logger) Func(ctx hooking.HookCtx) {
	pos := ""
	switch ctx.Pos {
	case messaging.HookPosPortMsgSend:
		pos = "send"
	case messaging.HookPosPortMsgRecvd:
		pos = "recv"
	case messaging.HookPosPortMsgRetrieveIncoming:
		pos = "retr_in"
	default:
		return
	}
	msg, _ := ctx.Item.(messaging.Msg)
	r := rec{pos: pos, port: ctx.Domain.(messaging.Port).Name(), msg: msg, snap: -1}
	if _, isAck := msg.(datamoverprotocol.DataMoveResponse); isAck && pos == "send" && r.port == l.topName {
		// only reads storages; never calls back into a port (the hook runs under the port lock)
		l.snaps = append(l.snaps, snapshot(l.mems))
		r.snap = len(l.snaps) - 1
	}
	l.recs = append(l.recs, r)
}

type requester struct {
	port  messaging.Port
	mine  []int // indexes into cfg.Moves, ascending
	next  int
	acked int
}

func main() {
	kit.Main(kit.Prop{
		ID:    "C23",
		Level: "exploration",
		Rule: "each case is a PRNG-drawn data mover (inside/outside granules 16-256, a quarter of the cases with granules that do not divide each other (24, 48, 96, 160), buffer size from the smallest live value (larger granule, or the sum when they do not divide) up to 8x, port buffers 1-8) over 1-2 interleaved ideal memory controllers per side " +
			"(own storages filled with random bytes, latencies 0-25, widths 1-4, mixed clocks) and a script of moves over all four side combinations with granule-aligned addresses and sizes that are " +
			"multiples of both / one / neither granule, below one granule, or zero, sent singly or in queued bursts by 1-2 requesters. Non-trivial: at least 3 moves were acknowledged and judged and one of them " +
			"had a size that is not a multiple of both granules or different granules on the two sides; distinct by configuration JSON",
		Assumptions: []string{
			"source and destination addresses are aligned to their side's granule (the mover refuses others by panic); BufferSize >= the larger granule when one granule divides the other, else >= their sum (a destination write that straddles two source chunks needs both inside the read window; smaller buffers stall and are not judged); interleaving size is a multiple of the side's granule",
			"source and destination ranges of one move do not overlap, and among requests that can be queued together nobody's source overlaps somebody else's destination (so 'held when requested' is well defined)",
			"ranges, rounded up to the larger granule, stay inside the storages; reading past the end of the source range (inside the last source granule) is not judged",
		},
		Plan: func(tier string, seed int64) []kit.Batch {
			nb, n, mv := 16, 25, 10
			if tier == "thorough" {
				nb, n, mv = 48, 800, 14
			}
			var bs []kit.Batch
			for i := 0; i < nb; i++ {
				bs = append(bs, kit.Batch{Name: fmt.Sprintf("dm%d", i), Seed: seed*15485863 + int64(i), N: n, Params: kit.MkParams(map[string]int{"moves": mv})})
			}
			return bs
		},
		Run: run,
		MustObserve: []string{"moves_acknowledged_and_memory_compared", "moves_size_not_multiple_of_dst_granule", "moves_dst_granule_larger_than_src",
			"moves_src_granule_larger_than_dst", "moves_queued_behind_a_move_in_service", "bytes_compared"},
	})
}

func run(b kit.Batch, r *kit.R) {
	var p map[string]int
	b.P(&p)
	r.ForEach(b.N, func(c *kit.Case) {
		cf := drawCfg(c.Rng, p["moves"])
		c.Desc(cf)
		runCase(c, cf)
	})
}

func mhz(v int) timing.Freq { return timing.Freq(v) * timing.MHz }

func mkPort(reg modeling.Registrar, comp messaging.Component, name string, buf int) messaging.Port {
	p := modeling.MakePortBuilder().WithRegistrar(reg).WithComponent(comp).WithSpec(modeling.PortSpec{BufSize: buf}).Build(name)
	comp.AssignPort(name, p)
	return p
}

func owner(sc sideCfg, addr uint64) int { return int(addr / sc.Interleave % uint64(sc.Ctrls)) }

func runCase(c *kit.Case, cf cfg) {
	r := c.R
	rng := rand.New(rand.NewSource(cf.Seed))
	engine := timing.NewSerialEngine()
	reg := modeling.NewStandaloneRegistrar(engine)

	mems := map[string][]*mem.Storage{}
	memPorts := map[string][]messaging.Port{}
	for _, side := range []string{"inside", "outside"} {
		sc := cf.Sides[side]
		for i := 0; i < sc.Ctrls; i++ {
			name := fmt.Sprintf("Mem%s%d", side, i)
			st := mem.MakeStorageBuilder().WithCapacity(capacity).Build(name + ".Storage")
			fill := make([]byte, capacity)
			rng.Read(fill)
			if err := st.Write(0, fill); err != nil {
				panic(err)
			}
			sp := idealmemcontroller.DefaultSpec()
			sp.Freq, sp.Latency, sp.Width, sp.Capacity = mhz(sc.MHz[i]), sc.Latency[i], sc.Width[i], capacity
			mc := idealmemcontroller.MakeBuilder().WithRegistrar(reg).WithSpec(sp).WithResources(idealmemcontroller.Resources{Storage: st}).Build(name)
			memPorts[side] = append(memPorts[side], mkPort(reg, mc, "Top", cf.MemPortBuf))
			mkPort(reg, mc, "Control", 1)
			mems[side] = append(mems[side], st)
		}
	}
	mapper := func(side string) mem.AddressToPortMapper {
		sc := cf.Sides[side]
		if sc.Ctrls == 1 {
			return &mem.SinglePortMapper{Port: memPorts[side][0].AsRemote()}
		}
		m := mem.NewInterleavedAddressPortMapper(sc.Interleave)
		for _, p := range memPorts[side] {
			m.LowModules = append(m.LowModules, p.AsRemote())
		}
		return m
	}
	spec := datamover.DefaultSpec()
	spec.Freq = mhz(cf.DMMHz)
	spec.BufferSize = cf.BufferSize
	spec.InsideByteGranularity = cf.Sides["inside"].Granule
	spec.OutsideByteGranularity = cf.Sides["outside"].Granule
	dm := datamover.MakeBuilder().WithRegistrar(reg).WithSpec(spec).
		WithResources(datamover.Resources{InsideMapper: mapper("inside"), OutsideMapper: mapper("outside")}).Build("DM")
	top := mkPort(reg, dm, "Top", cf.PortBuf)
	sidePort := map[string]messaging.Port{"inside": mkPort(reg, dm, "Inside", cf.PortBuf), "outside": mkPort(reg, dm, "Outside", cf.PortBuf)}
	mkPort(reg, dm, "Control", 1)

	// requesters
	ids := make([]uint64, len(cf.Moves)) // request id per move (0 = not sent)
	ackedMoves := 0                      // acknowledgments received by any requester
	burstEnd := map[int]int{}            // burst -> number of moves up to and including this burst
	for i, m := range cf.Moves {
		burstEnd[m.Burst] = i + 1
	}
	var reqs []*requester
	var comps []*modeling.Component[none, none, none]
	connTop := directconnection.MakeBuilder().WithRegistrar(reg).Build("ConnTop")
	connTop.PlugIn(top)
	for i := 0; i < cf.Requesters; i++ {
		q := &requester{}
		for k, m := range cf.Moves {
			if m.Req == i {
				q.mine = append(q.mine, k)
			}
		}
		comp := modeling.NewBuilder[none, none, none]().WithEngine(engine).WithFreq(timing.GHz).Build(fmt.Sprintf("Req%d", i))
		comp.DeclarePort("Out")
		comp.AddMiddleware(&fmw{f: func() bool {
			progress := false
			for {
				m := q.port.RetrieveIncoming()
				if m == nil {
					break
				}
				q.acked++
				ackedMoves++
				progress = true
				for _, o := range comps { // the other requester may be waiting for this burst to end
					o.TickLater()
				}
			}
			if q.next < len(q.mine) {
				k := q.mine[q.next]
				prevBurstDone := cf.Moves[k].Burst == 0 || ackedMoves >= burstEnd[cf.Moves[k].Burst-1]
				if !prevBurstDone {
					return progress // woken by whoever receives the awaited acknowledgment
				}
				if rng.Intn(100) < cf.IdlePct {
					return true
				}
				if q.port.CanSend() {
					mv := cf.Moves[k]
					req := datamoverprotocol.DataMoveRequest{SrcAddress: mv.Src, DstAddress: mv.Dst, ByteSize: mv.Size,
						SrcSide: datamoverprotocol.DataMovePort(mv.SrcSide), DstSide: datamoverprotocol.DataMovePort(mv.DstSide)}
					req.ID, req.Src, req.Dst, req.TrafficClass = timing.GetIDGenerator().Generate(), q.port.AsRemote(), top.AsRemote(), "datamoverprotocol.DataMoveRequest"
					q.port.Send(req)
					ids[k] = req.ID
					q.next++
					progress = true
				}
			}
			return progress
		}})
		q.port = mkPort(reg, comp, "Out", 4)
		connTop.PlugIn(q.port)
		reqs = append(reqs, q)
		comps = append(comps, comp)
	}
	for _, side := range []string{"inside", "outside"} {
		conn := directconnection.MakeBuilder().WithRegistrar(reg).Build("Conn" + side)
		conn.PlugIn(sidePort[side])
		for _, p := range memPorts[side] {
			conn.PlugIn(p)
		}
	}

	lg := &logger{topName: top.Name(), mems: mems}
	top.AcceptHook(lg)
	sidePort["inside"].AcceptHook(lg)
	sidePort["outside"].AcceptHook(lg)
	initial := snapshot(mems)

	for _, cmp := range comps {
		cmp.TickLater()
	}
	// The run normally ends by quiescence (empty event queue). The virtual-time
	// bound is a safety net: 100 us per move is > 50x the slowest legitimate move
	// here (1500 B in 16 B granules at 25 cycles).
	limit := timing.VTimeInPicoSec(len(cf.Moves)) * 100 * 1000 * 1000
	if err := engine.RunUntil(limit); err != nil {
		c.Failf("dm/engine-error", "%v", err)
	}

	// ---- oracle ----
	byID := map[uint64]int{}
	for k, id := range ids {
		if id != 0 {
			byID[id] = k
		}
	}
	wit := func(msg string, k int) map[string]any {
		w := map[string]any{"msg": msg, "cfg_without_moves": stripMoves(cf)}
		if k >= 0 {
			w["move_index"], w["move"] = k, cf.Moves[k]
			w["src_granule"], w["dst_granule"] = cf.Sides[cf.Moves[k].SrcSide].Granule, cf.Sides[cf.Moves[k].DstSide].Granule
		}
		return w
	}
	model := initial
	var arrivals []int // move indexes in arrival order at Top
	nAck := 0
	current := -1 // move being served (admitted, not yet acknowledged)
	ackCount := map[int]int{}
	judged, mixed := 0, false
	for _, rc := range lg.recs {
		switch {
		case rc.port == top.Name() && rc.pos == "recv":
			arrivals = append(arrivals, byID[rc.msg.Meta().ID])
			if current >= 0 {
				r.Count("moves_queued_behind_a_move_in_service", 1)
			}
		case rc.port == top.Name() && rc.pos == "retr_in":
			k := byID[rc.msg.Meta().ID]
			if current >= 0 {
				c.Fail("dm/admitted-while-another-move-in-service", wit(fmt.Sprintf("move %d admitted while move %d was not yet acknowledged", k, current), k))
			}
			current = k
		case rc.port == top.Name() && rc.pos == "send":
			meta := rc.msg.Meta()
			k, known := byID[meta.RspTo]
			if !known {
				c.Fail("dm/ack-rspto-unknown", wit(fmt.Sprintf("acknowledgment #%d has RspTo=%d, no request has this id", nAck, meta.RspTo), -1))
				nAck++
				current = -1
				continue
			}
			ackCount[k]++
			if ackCount[k] > 1 {
				c.Fail("dm/duplicate-ack", wit(fmt.Sprintf("move %d acknowledged %d times", k, ackCount[k]), k))
			}
			if nAck >= len(arrivals) || arrivals[nAck] != k {
				c.Fail("dm/ack-order", wit(fmt.Sprintf("acknowledgment #%d is for move %d; arrival order was %v", nAck, k, arrivals), k))
			}
			if k != current {
				c.Fail("dm/ack-for-move-not-in-service", wit(fmt.Sprintf("acknowledgment for move %d while move %d is in service", k, current), k))
			}
			if want := reqs[cf.Moves[k].Req].port.AsRemote(); meta.Dst != want || meta.Src != top.AsRemote() {
				c.Fail("dm/ack-misaddressed", wit(fmt.Sprintf("acknowledgment Src=%s Dst=%s, want Src=%s Dst=%s", meta.Src, meta.Dst, top.AsRemote(), want), k))
			}
			nAck++
			current = -1
			snap := lg.snaps[rc.snap]
			if ackCount[k] == 1 {
				judged++
				judgeMove(c, cf, k, model, snap, wit)
				mv := cf.Moves[k]
				sg, dg := cf.Sides[mv.SrcSide].Granule, cf.Sides[mv.DstSide].Granule
				r.Count("moves_acknowledged_and_memory_compared", 1)
				r.Count("moves_"+mv.SrcSide+"_to_"+mv.DstSide, 1)
				r.Count("size_class_"+mv.Class, 1)
				if mv.Size%dg != 0 {
					r.Count("moves_size_not_multiple_of_dst_granule", 1)
					mixed = true
				}
				if mv.Size%sg != 0 {
					r.Count("moves_size_not_multiple_of_src_granule", 1)
					mixed = true
				}
				if dg > sg {
					r.Count("moves_dst_granule_larger_than_src", 1)
					mixed = true
				}
				if sg > dg {
					r.Count("moves_src_granule_larger_than_dst", 1)
					mixed = true
				}
				r.Max("largest_move_bytes", int64(mv.Size))
			}
			model = snap // judge every move on its own
		case rc.pos == "send": // memory request on Inside/Outside
			side := "inside"
			if rc.port == sidePort["outside"].Name() {
				side = "outside"
			}
			if current < 0 {
				c.Fail("dm/memory-request-with-no-move-in-service", wit(fmt.Sprintf("%T sent on %s while no move is in service", rc.msg, rc.port), -1))
				continue
			}
			mv := cf.Moves[current]
			switch q := rc.msg.(type) {
			case memprotocol.WriteReq:
				r.Count("memory_writes_seen", 1)
				ext := max(roundUp(mv.Size, cf.Sides[mv.SrcSide].Granule), roundUp(mv.Size, cf.Sides[mv.DstSide].Granule))
				if side != mv.DstSide || q.Address < mv.Dst || q.Address+uint64(len(q.Data)) > mv.Dst+ext {
					c.Fail("dm/write-belongs-to-no-current-move", wit(fmt.Sprintf("write of %d bytes at %s:%#x while serving this move", len(q.Data), side, q.Address), current))
				}
			case memprotocol.ReadReq:
				r.Count("memory_reads_seen", 1)
				sg := cf.Sides[mv.SrcSide].Granule
				if side != mv.SrcSide || q.Address < mv.Src || q.Address+q.AccessByteSize > mv.Src+roundUp(mv.Size, sg) {
					c.Fail("dm/read-belongs-to-no-current-move", wit(fmt.Sprintf("read of %d bytes at %s:%#x while serving this move", q.AccessByteSize, side, q.Address), current))
				}
			}
		}
	}
	// every request acknowledged? Judge the move that blocks the queue: the one in
	// service, else the oldest arrival without an acknowledgment.
	sent, stuck := 0, -1
	for _, id := range ids {
		if id != 0 {
			sent++
		}
	}
	if current >= 0 && ackCount[current] == 0 {
		stuck = current
	} else {
		for _, k := range arrivals {
			if ackCount[k] == 0 {
				stuck = k
				break
			}
		}
	}
	if stuck >= 0 {
		mv := cf.Moves[stuck]
		sg, dg := cf.Sides[mv.SrcSide].Granule, cf.Sides[mv.DstSide].Granule
		where := fmt.Sprintf("move %d (%d bytes, src granule %d, dst granule %d) never acknowledged; t=%d ps, limit %d ps, in service: %d; %d of %d requests sent, %d acknowledged",
			stuck, mv.Size, sg, dg, engine.CurrentTime(), limit, current, sent, len(cf.Moves), nAck)
		if roundUp(mv.Size, dg) > roundUp(mv.Size, sg) {
			// the last destination granule extends past everything the mover reads
			c.Fail("dm/no-ack/last-dst-granule-never-filled", wit(where, stuck))
		} else {
			c.Fail("dm/no-ack", wit(where, stuck))
		}
	} else if sent != len(cf.Moves) || nAck < sent {
		c.Fail("dm/no-ack", wit(fmt.Sprintf("%d of %d requests sent, %d arrived, %d acknowledged, nothing in service at t=%d ps", sent, len(cf.Moves), len(arrivals), nAck, engine.CurrentTime()), -1))
	}
	for i, q := range reqs {
		if q.acked > q.next {
			c.Fail("dm/requester-got-extra-acks", wit(fmt.Sprintf("requester %d sent %d requests and received %d acknowledgments", i, q.next, q.acked), -1))
		}
	}
	r.Count("move_requests_sent", int64(sent))
	r.Distinct("granule_pairs(inside/outside)", fmt.Sprintf("%d/%d", cf.Sides["inside"].Granule, cf.Sides["outside"].Granule))
	if judged >= 3 && mixed {
		j, _ := json.Marshal(cf)
		c.Nontrivial(string(j))
	}
	c.Sample(map[string]any{"cfg": cf, "requests_sent": sent, "acknowledged": nAck, "memory_requests_logged": len(lg.recs), "end_time_ps": engine.CurrentTime()})
}

func stripMoves(cf cfg) cfg { cf.Moves = nil; return cf }

// judgeMove compares the memories at the acknowledgment of move k with the
// reference (memories at the previous acknowledgment with the move applied).
func judgeMove(c *kit.Case, cf cfg, k int, before, after map[string][][]byte, wit func(string, int) map[string]any) {
	mv := cf.Moves[k]
	ssc, dsc := cf.Sides[mv.SrcSide], cf.Sides[mv.DstSide]
	want := map[string][][]byte{}
	for side, ss := range before {
		for _, s := range ss {
			want[side] = append(want[side], append([]byte(nil), s...))
		}
	}
	for i := uint64(0); i < mv.Size; i++ {
		want[mv.DstSide][owner(dsc, mv.Dst+i)][mv.Dst+i] = before[mv.SrcSide][owner(ssc, mv.Src+i)][mv.Src+i]
	}
	type bucket struct {
		n     int
		first string
	}
	diffs := map[string]*bucket{}
	note := func(key, where string) {
		b := diffs[key]
		if b == nil {
			b = &bucket{first: where}
			diffs[key] = b
		}
		b.n++
	}
	dstEnd := mv.Dst + mv.Size
	for side, ss := range after {
		for j, s := range ss {
			c.R.Count("bytes_compared", int64(len(s)))
			for a := range s {
				if s[a] == want[side][j][a] {
					continue
				}
				addr := uint64(a)
				where := fmt.Sprintf("%s controller %d address %#x: holds %#02x, expected %#02x (before the move %#02x)", side, j, addr, s[a], want[side][j][a], before[side][j][a])
				inOwner := side == mv.DstSide && j == owner(cf.Sides[side], addr)
				switch {
				case inOwner && addr >= mv.Dst && addr < dstEnd:
					note("dm/destination-bytes-wrong", where)
				case inOwner && addr >= dstEnd && addr < roundUp(dstEnd-mv.Dst, dsc.Granule)+mv.Dst:
					// the last write is a whole destination granule although fewer bytes remain
					note("dm/overwrite-past-range/partial-last-granule", where)
				case inOwner && addr >= dstEnd && addr < mv.Dst+roundUp(mv.Size, ssc.Granule):
					// whole destination granules written after the range from the over-read tail of the last source granule
					note("dm/overwrite-past-range/extra-granules-after-end", where)
				default:
					note("dm/byte-outside-destination-changed", where)
				}
			}
		}
	}
	for key, b := range diffs {
		c.Fail(key, wit(fmt.Sprintf("%d bytes differ at the acknowledgment; first: %s", b.n, b.first), k))
	}
}
