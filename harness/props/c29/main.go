// C29 Networks deliver every message exactly once with metadata intact.
//
// Each case builds one or two networks with ONE connector (mesh, PCIe, NVLink
// hybrid, generic) on a serial engine, attaches PRNG traffic agents to every
// device port and lets them exchange a few hundred messages (uniform, hot-spot,
// pairwise, all-to-one; 0..several flits; traffic classes; RspTo values; twins)
// while receivers stall for long stretches and resume. The oracle sits on the
// device ports only: the Send hook of a device port records what entered the
// network, the Recv hook of every device port judges each delivery against the
// record with the same message id. For mesh / PCIe tree / acyclic hybrid /
// generic tree networks every message must have been delivered when the engine
// goes quiet (or a generous virtual-time budget runs out).
// Hooks on the ports minted by the connector (switch ports, endpoint network
// ports) only feed coverage counters: switches traversed per message, flits
// per message, flits held back in an output buffer.
package main

import (
	"fmt"
	"math/rand"
	"sort"
	"strings"

	"verifharness/kit"

	"github.com/sarchlab/akita/v5/hooking"
	"github.com/sarchlab/akita/v5/messaging"
	"github.com/sarchlab/akita/v5/modeling"
	"github.com/sarchlab/akita/v5/naming"
	"github.com/sarchlab/akita/v5/noc/packetization"
	"github.com/sarchlab/akita/v5/timing"
)

const period = 1000 // ps at 1 GHz; every component in a case runs at 1 GHz

// ---------------------------------------------------------------- registrar

type recReg struct {
	eng   *timing.SerialEngine
	ports []messaging.Port
}

func (r *recReg) GetEngine() timing.Engine          { return r.eng }
func (r *recReg) RegisterComponent(_ naming.Named)  {}
func (r *recReg) RegisterConnection(_ naming.Named) {}
func (r *recReg) RegisterResource(_ naming.Named)   {}
func (r *recReg) RegisterPort(p naming.Named) {
	if mp, ok := p.(messaging.Port); ok {
		r.ports = append(r.ports, mp)
	}
}

type fnHook struct{ f func(ctx hooking.HookCtx) }

func (h *fnHook) Func(ctx hooking.HookCtx) { h.f(ctx) }

// ---------------------------------------------------------------- world

type trafficMsg struct {
	messaging.MsgMeta
	Payload []byte
}

type msgRec struct {
	meta        messaging.MsgMeta
	net         int
	sent        bool
	sentAt      uint64
	delivered   int
	deliveredAt uint64
	retrieved   int
	switches    int // switches flit 0 went through (coverage only)
	flits       int // NumFlitInMsg as seen inside the network (coverage only)
	afterStall  bool
}

type viol struct{ key, msg string }

type world struct {
	reg    *recReg
	eng    *timing.SerialEngine
	agents []*agent
	owner  map[messaging.RemotePort]*agent
	msgs   map[uint64]*msgRec
	order  []*msgRec
	viols  []viol

	outstanding int // planned messages not yet retrieved by an agent

	// bounded progress: cycle of the last event at a device port (send accepted, delivery, retrieval)
	lastEvent, stallEnd, maxGap uint64

	sendBlocked, portFullStalled, heldFlits []int64 // per network
	portsUpTo                               []int   // reg.ports[:portsUpTo[k]] belong to networks 0..k
	stalledTicks, flitHops, twins           int64
	maxDwell                                uint64
}

func (w *world) now() uint64 { return uint64(w.eng.CurrentTime()) / period }

func (w *world) progress() {
	now := w.now()
	since := w.lastEvent
	if w.stallEnd > since {
		since = w.stallEnd
	}
	if now > since && now-since > w.maxGap {
		w.maxGap = now - since
	}
	w.lastEvent = now
}

func (w *world) fail(key, format string, a ...any) {
	if len(w.viols) < 50 {
		w.viols = append(w.viols, viol{key, fmt.Sprintf(format, a...)})
	}
}

// ---------------------------------------------------------------- agent

type agent struct {
	*modeling.TickingComponent
	w          *world
	net        int
	ports      []messaging.Port
	inCap      []int
	queue      [][]trafficMsg // per port
	sendPct    int
	burst      int
	drain      int
	stalls     [][2]uint64 // [from, to) in cycles
	rng        *rand.Rand
	wasStalled bool
}

func (w *world) newAgent(name string, nPorts int, rng *rand.Rand) *agent {
	a := &agent{w: w, rng: rand.New(rand.NewSource(rng.Int63()))}
	a.TickingComponent = modeling.NewTickingComponent(name, w.eng, 1*timing.GHz, a)
	a.sendPct = []int{15, 50, 100, 100}[rng.Intn(4)]
	a.burst = 1 + rng.Intn(3)
	a.drain = 1 + rng.Intn(3)
	for i := 0; i < nPorts; i++ {
		in, out := 1+rng.Intn(3), 1+rng.Intn(3)
		p := messaging.NewPort(a, in, out, fmt.Sprintf("%s.Port[%d]", name, i))
		a.ports = append(a.ports, p)
		a.inCap = append(a.inCap, in)
		w.owner[p.AsRemote()] = a
		w.tapDevicePort(p)
	}
	a.queue = make([][]trafficMsg, nPorts)
	w.agents = append(w.agents, a)
	return a
}

func (a *agent) stalled(now uint64) bool {
	for _, s := range a.stalls {
		if now >= s[0] && now < s[1] {
			return true
		}
	}
	return false
}

func (a *agent) Tick() bool {
	w := a.w
	progress, pending := false, false
	for pi, port := range a.ports {
		for n := 0; n < a.burst && len(a.queue[pi]) > 0; n++ {
			if a.rng.Intn(100) >= a.sendPct {
				break
			}
			if !port.CanSend() {
				w.sendBlocked[a.net]++
				break
			}
			port.Send(a.queue[pi][0])
			a.queue[pi] = a.queue[pi][1:]
			progress = true
		}
		pending = pending || len(a.queue[pi]) > 0
	}
	if a.stalled(w.now()) {
		a.wasStalled = true
		w.stalledTicks++
		for pi, port := range a.ports {
			if port.NumIncoming() >= a.inCap[pi] {
				w.portFullStalled[a.net]++
			}
		}
		return progress || pending || w.outstanding > 0
	}
	for _, port := range a.ports {
		for n := 0; n < a.drain; n++ {
			m := port.RetrieveIncoming()
			if m == nil {
				break
			}
			progress = true
			w.progress()
			w.outstanding--
			if rec := w.msgs[m.Meta().ID]; rec != nil {
				rec.retrieved++
				rec.afterStall = a.wasStalled
			}
		}
	}
	return progress || pending
}

// ---------------------------------------------------------------- the oracle: device-port taps

func diffMeta(got, want messaging.MsgMeta) string {
	var d []string
	if got.ID != want.ID {
		d = append(d, "ID")
	}
	if got.Src != want.Src {
		d = append(d, "Src")
	}
	if got.Dst != want.Dst {
		d = append(d, "Dst")
	}
	if got.RspTo != want.RspTo {
		d = append(d, "RspTo")
	}
	if got.TrafficClass != want.TrafficClass {
		d = append(d, "TrafficClass")
	}
	if got.TrafficBytes != want.TrafficBytes {
		d = append(d, "TrafficBytes")
	}
	return strings.Join(d, "+")
}

func (w *world) tapDevicePort(p messaging.Port) {
	name := messaging.RemotePort(p.Name())
	p.AcceptHook(&fnHook{func(ctx hooking.HookCtx) {
		m, ok := ctx.Item.(messaging.Msg)
		if !ok {
			return
		}
		meta := m.Meta()
		switch ctx.Pos {
		case messaging.HookPosPortMsgSend:
			rec := w.msgs[meta.ID]
			if rec == nil || rec.sent || rec.meta != meta {
				w.fail("harness/unplanned-send", "port %s sent %+v", name, meta)
				return
			}
			rec.sent, rec.sentAt = true, w.now()
			w.progress()
		case messaging.HookPosPortMsgRecvd:
			w.progress()
			rec := w.msgs[meta.ID]
			switch {
			case rec == nil:
				w.fail("safety/phantom-delivery", "port %s received %+v: no message with this id was ever planned", name, meta)
				return
			case !rec.sent:
				w.fail("safety/delivered-before-sent", "port %s received %+v before its sender put it on its port", name, meta)
			}
			if d := diffMeta(meta, rec.meta); d != "" {
				w.fail("safety/metadata-altered:"+d, "port %s received %+v, the sender sent %+v", name, meta, rec.meta)
			}
			if name != rec.meta.Dst {
				w.fail("safety/wrong-port", "message %+v was delivered at port %s", rec.meta, name)
			}
			rec.delivered++
			if rec.delivered > 1 {
				w.fail("safety/duplicate-delivery", "message %+v delivered %d times (first at cycle %d, again at %d on %s)", rec.meta, rec.delivered, rec.deliveredAt, w.now(), name)
			} else {
				rec.deliveredAt = w.now()
			}
		}
	}})
}

// tapNetworkPorts hooks the ports the connector minted. Coverage only.
func (w *world) tapNetworkPorts() {
	for i, p := range w.reg.ports {
		net := 0
		for i >= w.portsUpTo[net] {
			net++
		}
		isSwitch := !strings.HasSuffix(p.Name(), ".NetworkPort")
		var sendTimes []uint64 // FIFO like the outgoing buffer
		p.AcceptHook(&fnHook{func(ctx hooking.HookCtx) {
			switch ctx.Pos {
			case messaging.HookPosPortMsgRecvd:
				if f, ok := ctx.Item.(packetization.Flit); ok && isSwitch {
					w.flitHops++
					if rec := w.msgs[f.Msg.ID]; rec != nil && f.SeqID == 0 {
						rec.switches++
						rec.flits = f.NumFlitInMsg
					}
				}
			case messaging.HookPosPortMsgSend:
				sendTimes = append(sendTimes, w.now())
			case messaging.HookPosPortMsgRetrieveOutgoing:
				if len(sendTimes) > 0 {
					d := w.now() - sendTimes[0]
					sendTimes = sendTimes[1:]
					if d >= 2 { // the link forwards in the cycle of the send unless the far side is full
						w.heldFlits[net]++
					}
					if d > w.maxDwell {
						w.maxDwell = d
					}
				}
			}
		}})
	}
}

// ---------------------------------------------------------------- traffic

var classes = []string{"", "mem.ReadReq", "mem.WriteReq", "mem.DataReadyRsp", "trafficMsg", "x"}

func pickBytes(rng *rand.Rand, f, maxFlits int) int {
	var b int
	switch rng.Intn(8) {
	case 0:
		b = 0
	case 1:
		b = 1 + rng.Intn(3)
	case 2:
		b = f + rng.Intn(3) - 1
	case 3:
		b = (1+rng.Intn(maxFlits))*f + rng.Intn(3) - 1
	case 4:
		b = []int{4, 8, 12, 16, 32, 64, 100, 128, 256}[rng.Intn(9)]
	default:
		b = rng.Intn(maxFlits*f + 1)
	}
	if b > maxFlits*f {
		b = maxFlits * f
	}
	if b < 0 {
		b = 0
	}
	return b
}

type portRef struct {
	a  *agent
	pi int
}

func (w *world) genTraffic(rng *rand.Rand, ni *netInfo, netIdx, nMsgs, maxFlits int, used map[uint64]bool) (pattern string, planned int) {
	var all []portRef
	for _, a := range ni.agents {
		for pi := range a.ports {
			all = append(all, portRef{a, pi})
		}
	}
	if len(all) < 2 {
		return "none", 0
	}
	pattern = []string{"uniform", "uniform", "hotspot-port", "hotspot-device", "pairs", "all-to-one", "one-to-all"}[rng.Intn(7)]
	hot := all[rng.Intn(len(all))]
	partner := rng.Perm(len(all))
	var ids []uint64
	twins := 0
	idBase := uint64(1)<<40*uint64(netIdx+1) + uint64(rng.Intn(1000))
	for i := 0; i < nMsgs; i++ {
		si := rng.Intn(len(all))
		src := all[si]
		var dst portRef
		pick := func(ok func(p portRef) bool) {
			for t := 0; t < 64; t++ {
				if dst = all[rng.Intn(len(all))]; ok(dst) {
					return
				}
			}
			dst = all[(si+1)%len(all)]
		}
		other := func(p portRef) bool { return p != src }
		switch {
		case pattern == "hotspot-port" && rng.Intn(10) < 7, pattern == "all-to-one":
			dst = hot
		case pattern == "hotspot-device" && rng.Intn(10) < 7:
			pick(func(p portRef) bool { return p.a == hot.a && p != src })
		case pattern == "pairs":
			dst = all[partner[si]]
		case pattern == "one-to-all":
			src = hot
			pick(other)
		default:
			pick(other)
		}
		if dst == src {
			pick(other)
		}
		var id uint64
		for id == 0 || used[id] {
			switch rng.Intn(3) {
			case 0:
				idBase++
				id = idBase
			case 1:
				id = rng.Uint64() | 1<<63
			default:
				id = uint64(1 + rng.Intn(4096)) // small, dense
			}
		}
		used[id] = true
		meta := messaging.MsgMeta{ID: id, Src: src.a.ports[src.pi].AsRemote(), Dst: dst.a.ports[dst.pi].AsRemote(),
			TrafficClass: classes[rng.Intn(len(classes))], TrafficBytes: pickBytes(rng, ni.Flit, maxFlits)}
		switch rng.Intn(4) {
		case 0:
			if len(ids) > 0 {
				meta.RspTo = ids[rng.Intn(len(ids))] // answers an earlier message
			}
		case 1:
			meta.RspTo = rng.Uint64()
		}
		if i > 0 && rng.Intn(8) == 0 { // a twin of the previous message: everything but the id is equal
			prev := w.order[len(w.order)-1].meta
			meta.Src, meta.Dst, meta.RspTo, meta.TrafficClass, meta.TrafficBytes = prev.Src, prev.Dst, prev.RspTo, prev.TrafficClass, prev.TrafficBytes
			src = portRef{w.owner[prev.Src], 0}
			for pi, p := range src.a.ports {
				if p.AsRemote() == prev.Src {
					src.pi = pi
				}
			}
			twins++
		}
		ids = append(ids, id)
		rec := &msgRec{meta: meta, net: netIdx}
		w.msgs[id] = rec
		w.order = append(w.order, rec)
		src.a.queue[src.pi] = append(src.a.queue[src.pi], trafficMsg{MsgMeta: meta, Payload: make([]byte, 2)})
		w.outstanding++
	}
	w.twins += int64(twins)
	return pattern, nMsgs
}

// ---------------------------------------------------------------- one case

type params struct {
	Family  string `json:"family"`
	MaxMsgs int    `json:"max_msgs"`
	MeshMax [3]int `json:"mesh_max"`
	MaxSw   int    `json:"max_sw"`
}

func run(b kit.Batch, r *kit.R) {
	var pr params
	b.P(&pr)
	r.ForEach(b.N, func(c *kit.Case) {
		rng := c.Rng
		eng := timing.NewSerialEngine()
		w := &world{eng: eng, reg: &recReg{eng: eng}, owner: map[messaging.RemotePort]*agent{}, msgs: map[uint64]*msgRec{}}
		var fam family
		switch pr.Family {
		case "mesh":
			fam = newMeshFam(w, rng, pr.MeshMax)
		case "pcie":
			fam = newPCIeFam(w, rng)
		case "nvlink-acyclic":
			fam = newNVFam(w, rng, false)
		case "nvlink-cyclic":
			fam = newNVFam(w, rng, true)
		case "generic-tree":
			fam = newGenFam(w, rng, false, pr.MaxSw)
		default:
			fam = newGenFam(w, rng, true, pr.MaxSw)
		}
		nNets := 1
		if rng.Intn(4) == 0 {
			nNets = 2 // the connector is reused for a second network on the same engine
		}
		maxFlits := 1 + rng.Intn(6)
		var nets []*netInfo
		var patterns []string
		used := map[uint64]bool{}
		total := 0
		for k := 0; k < nNets; k++ {
			ni := fam.build(w, rng, k)
			for _, a := range ni.agents {
				a.net = k
				ni.NPorts += len(a.ports)
			}
			ni.NAgents = len(ni.agents)
			nets = append(nets, ni)
			n := 20 + rng.Intn(pr.MaxMsgs)
			if k < nNets-1 {
				n = 10 + rng.Intn(pr.MaxMsgs/4+1)
			}
			pat, n := w.genTraffic(rng, ni, k, n, maxFlits, used)
			total += n
			patterns = append(patterns, pat)
			w.portsUpTo = append(w.portsUpTo, len(w.reg.ports))
			w.sendBlocked, w.portFullStalled, w.heldFlits = append(w.sendBlocked, 0), append(w.portFullStalled, 0), append(w.heldFlits, 0)
		}
		// two ports with one name make the simulation meaningless (handlers and links are found by name)
		seen := map[string]bool{}
		var dup []string
		for _, p := range w.reg.ports {
			if seen[p.Name()] && len(dup) < 4 {
				dup = append(dup, p.Name())
			}
			seen[p.Name()] = true
		}
		if len(dup) > 0 {
			key := "build/duplicate-port-names:" + strings.SplitN(pr.Family, "-", 2)[0]
			if nNets > 1 {
				key += "/reused-connector"
			}
			c.Desc(map[string]any{"networks": nets})
			c.Failf(key, "the connector minted %d ports, several with the same name, e.g. %v; traffic not run", len(w.reg.ports), dup)
			r.Count("cases_not_run_duplicate_port_names", 1)
			return
		}
		w.tapNetworkPorts()

		// receivers stall and resume
		horizon := uint64(200 + total) // about as long as the traffic lasts
		for _, ni := range nets {
			horizon += 6 * uint64(ni.MaxLat)
		}
		stallMode := []string{"none", "some", "some", "most", "all-at-once"}[rng.Intn(5)]
		var stallEnd uint64
		for _, a := range w.agents {
			var k int
			switch stallMode {
			case "some":
				k = rng.Intn(3) * rng.Intn(2)
			case "most":
				k = 1 + rng.Intn(3)
			case "all-at-once":
				a.stalls = append(a.stalls, [2]uint64{uint64(rng.Intn(20)), horizon/2 + uint64(rng.Intn(int(horizon)))})
			}
			for ; k > 0; k-- {
				from := uint64(rng.Intn(int(horizon)))
				a.stalls = append(a.stalls, [2]uint64{from, from + 20 + uint64(rng.Intn(int(horizon)))})
			}
			for _, s := range a.stalls {
				if s[1] > stallEnd {
					stallEnd = s[1]
				}
			}
			a.TickLater()
		}
		desc := map[string]any{"networks": nets, "patterns": patterns, "messages": total, "max_flits": maxFlits, "stalls": stallMode}
		c.Desc(desc)

		// bounded progress: while messages are outstanding and every stall is over, some device port must see an
		// event (send accepted, delivery, retrieval) at least every `watchdog` cycles: ten times the time one
		// message of the largest size needs alone through every switch of the network. The overall budget (every
		// flit alone through every switch, one after the other, four times over) is only a cap.
		w.stallEnd = stallEnd
		var budget, watchdog uint64 = 20000 + stallEnd, 0
		for _, ni := range nets {
			alone := uint64(maxFlits+1) * uint64(ni.MaxSw+2) * uint64(ni.MaxLat+8)
			budget += 4 * uint64(total) * alone
			if wd := 5000 + 10*alone; wd > watchdog {
				watchdog = wd
			}
		}
		outcome := "quiet"
		for t := uint64(0); w.outstanding > 0; {
			t += watchdog / 2
			before := eng.CurrentTime()
			if err := eng.RunUntil(timing.VTimeInPicoSec(t * period)); err != nil {
				panic(err)
			}
			if eng.CurrentTime() == before && t > watchdog {
				break // nothing is scheduled any more
			}
			since := max(w.lastEvent, stallEnd)
			if w.now() > since+watchdog {
				outcome = fmt.Sprintf("still busy, but no device port has seen a send, delivery or retrieval since cycle %d (now %d, watchdog %d cycles)", since, w.now(), watchdog)
				break
			}
			if t > budget {
				outcome = fmt.Sprintf("still busy after the budget of %d cycles", budget)
				break
			}
		}
		end := w.now()

		// ---- judge
		for _, v := range w.viols {
			c.Failf(v.key, "%s", v.msg)
		}
		undel := make([]int, len(nets))
		var firstUndel []*msgRec
		delivered, multiHop, multiFlit, afterStall, sameDev := 0, 0, 0, 0, 0
		famCount := func(name string, rec *msgRec) { r.Count(name+"/"+nets[rec.net].Family, 1) }
		for _, rec := range w.order {
			if rec.delivered == 0 {
				undel[rec.net]++
				if len(firstUndel) < 3 && nets[rec.net].Live {
					firstUndel = append(firstUndel, rec)
				}
				continue
			}
			delivered++
			famCount("messages_delivered_exactly_once_intact", rec)
			if rec.switches >= 2 {
				multiHop++
				famCount("multi_hop_messages_delivered", rec)
			}
			if rec.flits >= 2 {
				multiFlit++
				famCount("multi_flit_messages_delivered", rec)
			}
			if rec.afterStall {
				afterStall++
				famCount("messages_retrieved_by_a_receiver_that_had_stalled", rec)
			}
			if w.owner[rec.meta.Src] == w.owner[rec.meta.Dst] {
				sameDev++
			}
			r.Max("max_switches_traversed/"+nets[rec.net].Family, int64(rec.switches))
			r.Max("max_flits_per_message", int64(rec.flits))
			r.Max("max_delivery_latency_cycles", int64(rec.deliveredAt-rec.sentAt))
			if rec.retrieved != rec.delivered {
				c.Failf("harness/retrieve-mismatch", "message %+v delivered %d times, retrieved %d times", rec.meta, rec.delivered, rec.retrieved)
			}
		}
		for k, ni := range nets {
			r.Count("networks/"+ni.Family, 1)
			if k > 0 {
				r.Count("networks_built_with_a_reused_connector/"+ni.Family, 1)
			}
			if undel[k] == 0 {
				r.Count("networks_fully_delivered/"+ni.Family, 1)
				continue
			}
			if !ni.Live {
				r.Count("cyclic_networks_with_undelivered_messages_not_judged", 1)
				r.Count("cyclic_undelivered_messages_not_judged", int64(undel[k]))
				continue
			}
			key, how := "liveness/undelivered-at-quiescence", fmt.Sprintf("the engine went quiet at cycle %d", end)
			if outcome != "quiet" {
				key, how = "liveness/no-progress-while-busy", outcome
			}
			if k > 0 {
				key += "/reused-connector"
			}
			var ex []string
			for _, rec := range firstUndel {
				if rec.net == k {
					ex = append(ex, fmt.Sprintf("%+v sent=%v at %d, switches seen %d", rec.meta, rec.sent, rec.sentAt, rec.switches))
				}
			}
			c.Failf(key+":"+ni.Family, "%d of the messages of network %d (%s) were never delivered although every agent drains its ports; %s; e.g. %v", undel[k], k, ni.Family, how, ex)
		}

		// ---- evidence
		r.Count("messages_planned", int64(total))
		r.Count("messages_between_ports_of_one_device", int64(sameDev))
		r.Count("twin_messages", w.twins)
		r.Count("flit_hops_observed", w.flitHops)
		var held, blocked int64
		for k, ni := range nets {
			held += w.heldFlits[k]
			blocked += w.sendBlocked[k]
			r.Count("backpressure_flits_held_2+_cycles_in_an_output_buffer/"+ni.Family, w.heldFlits[k])
			r.Count("backpressure_device_send_blocked/"+ni.Family, w.sendBlocked[k])
			r.Count("backpressure_stalled_receiver_port_full_ticks/"+ni.Family, w.portFullStalled[k])
		}
		r.Count("stalled_receiver_ticks", w.stalledTicks)
		r.Max("max_flit_dwell_in_output_buffer_cycles", int64(w.maxDwell))
		r.Max("max_budget_used_pct", int64(end*100/budget))
		r.Max("max_gap_between_device_port_events_cycles", int64(w.maxGap))
		r.Max("max_gap_between_device_port_events_pct_of_watchdog", int64(w.maxGap*100/watchdog))
		r.Max("max_agents", int64(len(w.agents)))
		for _, p := range patterns {
			r.Count("pattern/"+p, 1)
		}
		r.Count("stalls/"+stallMode, 1)
		for _, ni := range nets {
			r.Distinct("flit_size", fmt.Sprint(ni.Flit))
			r.Max("max_switches_in_a_network", int64(ni.MaxSw))
			if ni.Live {
				r.Count("networks_liveness_judged/"+ni.Family, 1)
			}
		}
		if multiHop > 0 {
			c.Nontrivial(fmt.Sprintf("%v/%d", desc, c.Seed))
		}
		var sample []map[string]any
		for i, rec := range w.order {
			if i < 5 {
				sample = append(sample, map[string]any{"meta": fmt.Sprintf("%+v", rec.meta), "sent_at": rec.sentAt, "delivered": rec.delivered,
					"delivered_at": rec.deliveredAt, "switches": rec.switches, "flits": rec.flits})
			}
		}
		c.Sample(map[string]any{"config": desc, "first_messages": sample, "delivered": delivered, "multi_hop": multiHop, "multi_flit": multiFlit,
			"held_flits": held, "send_blocked": blocked, "end_cycle": end, "budget": budget, "watchdog": watchdog, "max_gap": w.maxGap})
	})
}

func main() {
	fams := []string{"mesh", "pcie", "nvlink-acyclic", "nvlink-cyclic", "generic-tree", "generic-cyclic"}
	var must []string
	for _, f := range fams {
		must = append(must, "networks_fully_delivered/"+f, "multi_hop_messages_delivered/"+f, "multi_flit_messages_delivered/"+f,
			"backpressure_flits_held_2+_cycles_in_an_output_buffer/"+f, "backpressure_device_send_blocked/"+f,
			"backpressure_stalled_receiver_port_full_ticks/"+f, "messages_retrieved_by_a_receiver_that_had_stalled/"+f,
			"networks_built_with_a_reused_connector/"+f)
	}
	sort.Strings(must)
	kit.Main(kit.Prop{
		ID:    "C29",
		Level: "exploration",
		Rule: "one or two networks per case built with one connector: meshes up to 4x4x2 (holes, two devices on a tile, latency/flit size/transfers per cycle varied), PCIe trees (root complex, 0..4 switches in a random tree, 1..8 devices, " +
			"bandwidth and switch latency varied), NVLink hybrids (1..4 PCIe islands joined by NVLinks into a tree, plus extra NVLinks in the cyclic batches), generic graphs (path/star/tree and ring/clique/grid/random with parallel links; " +
			"buffer sizes, channel counts, latency, flit size, router varied); 20..MaxMsgs messages with uniform/hot-spot/pairs/all-to-one/one-to-all patterns, byte counts 0..6 flits, classes, RspTo, twins, receivers that stall and resume; " +
			"a case is non-trivial when at least one delivered message crossed two or more switches; distinct by configuration and seed",
		Assumptions: []string{
			"message ids are unique among the messages of a case (the id generator guarantees it in a simulation); device port names are unique",
			"the network carries metadata only: a delivery is judged by the MsgMeta of whatever message object arrives at the device port",
			"liveness is judged for mesh, PCIe, hybrids whose switch graph is a tree and generic trees; a receiver may stall for a bounded stretch and then drains again; in cyclic switch graphs only the safety half is judged",
			"bounded progress: with A = (max flits+1) x (switches+2) x (latency+8) cycles, once every stall is over and messages are outstanding some device port sees a send, delivery or retrieval every 5000 + 10 A cycles; overall cap 20000 + last stall + 4 x messages x A",
		},
		Plan: func(tier string, seed int64) []kit.Batch {
			n, reps, msgs := 40, 1, 400
			if tier == "thorough" {
				n, reps, msgs = 300, 4, 600
			}
			var bs []kit.Batch
			add := func(name string, n int, p params) {
				bs = append(bs, kit.Batch{Name: name, Seed: seed*1000 + int64(len(bs)), N: n, Params: kit.MkParams(p)})
			}
			for rep := 0; rep < reps; rep++ {
				for i := 0; i < 3; i++ {
					add(fmt.Sprintf("mesh%d.%d", rep, i), n, params{Family: "mesh", MaxMsgs: msgs, MeshMax: [3]int{4, 4, 2}})
				}
				add(fmt.Sprintf("mesh2d%d", rep), n, params{Family: "mesh", MaxMsgs: msgs, MeshMax: [3]int{4, 4, 1}})
				for i := 0; i < 2; i++ {
					add(fmt.Sprintf("pcie%d.%d", rep, i), n, params{Family: "pcie", MaxMsgs: msgs})
					add(fmt.Sprintf("nvtree%d.%d", rep, i), n, params{Family: "nvlink-acyclic", MaxMsgs: msgs})
					add(fmt.Sprintf("gentree%d.%d", rep, i), n, params{Family: "generic-tree", MaxMsgs: msgs, MaxSw: 8})
					add(fmt.Sprintf("gencyc%d.%d", rep, i), n, params{Family: "generic-cyclic", MaxMsgs: msgs, MaxSw: 9})
				}
				add(fmt.Sprintf("nvcyc%d", rep), n, params{Family: "nvlink-cyclic", MaxMsgs: msgs})
				add(fmt.Sprintf("gentree-big%d", rep), n/2, params{Family: "generic-tree", MaxMsgs: 2 * msgs, MaxSw: 14})
			}
			return bs
		},
		Run: run,
		MustObserve: append(must, "twin_messages", "messages_between_ports_of_one_device", "networks_liveness_judged/mesh", "networks_liveness_judged/pcie",
			"networks_liveness_judged/nvlink-acyclic", "networks_liveness_judged/generic-tree"),
	})
}
