package main

import (
	"fmt"
	"math"
	"math/rand"

	"github.com/sarchlab/akita/v5/noc/networking/mesh"
	"github.com/sarchlab/akita/v5/noc/networking/networkconnector"
	"github.com/sarchlab/akita/v5/noc/networking/nvlink"
	"github.com/sarchlab/akita/v5/noc/networking/pcie"
	"github.com/sarchlab/akita/v5/timing"
)

// A family builds 1..n networks with ONE connector on the case's engine.
// build returns the agents of the k-th network, whether the switch graph of
// that network is free of cycles under the family's routing (liveness is then
// judged), a written-out description, the flit size, a bound on the number of
// switches on a route and on the per-switch latency (both only feed the
// virtual-time budget).
type netInfo struct {
	Family  string         `json:"family"`
	Live    bool           `json:"liveness_judged"`
	Desc    map[string]any `json:"topology"`
	Flit    int            `json:"flit_bytes"`
	MaxSw   int            `json:"switches"`
	MaxLat  int            `json:"max_switch_latency"`
	agents  []*agent
	NAgents int `json:"agents"`
	NPorts  int `json:"device_ports"`
}

type family interface {
	build(w *world, rng *rand.Rand, k int) *netInfo
}

// ---------------------------------------------------------------- mesh

type meshFam struct {
	mc   *mesh.Connector
	lat  int
	flit int
	bw   float64
	max  [3]int
}

func newMeshFam(w *world, rng *rand.Rand, max [3]int) *meshFam {
	f := &meshFam{lat: rng.Intn(4), flit: 8 << rng.Intn(4), bw: []float64{1, 1, 1, 2, 1.5, 3}[rng.Intn(6)], max: max}
	f.mc = mesh.NewConnector().WithRegistrar(w.reg).WithFreq(1 * timing.GHz)
	if rng.Intn(4) == 0 { // the connector's defaults
		f.lat, f.flit, f.bw = 0, 16, 1
	} else {
		f.mc = f.mc.WithSwitchLatency(f.lat).WithFlitSize(f.flit).WithBandwidth(f.bw)
	}
	return f
}

func (f *meshFam) build(w *world, rng *rand.Rand, k int) *netInfo {
	net := fmt.Sprintf("Mesh%d", k)
	dim := [3]int{1 + rng.Intn(f.max[0]), 1 + rng.Intn(f.max[1]), 1 + rng.Intn(f.max[2])}
	if rng.Intn(3) == 0 {
		dim = f.max
	}
	ni := &netInfo{Family: "mesh", Live: true, Flit: f.flit, MaxLat: f.lat + 1, MaxSw: dim[0] * dim[1] * dim[2]}
	f.mc.CreateNetwork(net)
	type tl struct {
		loc [3]int
		a   *agent
	}
	var tiles []tl
	holes := 0
	for x := 0; x < dim[0]; x++ {
		for y := 0; y < dim[1]; y++ {
			for z := 0; z < dim[2]; z++ {
				far := x == dim[0]-1 && y == dim[1]-1 && z == dim[2]-1 // keeps the grid at its drawn size
				if !far && rng.Intn(6) == 0 {
					holes++
					continue // the switch exists, no device
				}
				a := w.newAgent(fmt.Sprintf("M%dT%d", k, len(tiles)), 1+rng.Intn(2), rng)
				tiles = append(tiles, tl{[3]int{x, y, z}, a})
			}
		}
	}
	merged := 0
	if len(tiles) < 2 || rng.Intn(3) == 0 { // a second device on an occupied tile (AddTile merges the ports)
		t := tiles[rng.Intn(len(tiles))]
		tiles = append(tiles, tl{t.loc, w.newAgent(fmt.Sprintf("M%dT%d", k, len(tiles)), 1, rng)})
		merged++
	}
	rng.Shuffle(len(tiles), func(i, j int) { tiles[i], tiles[j] = tiles[j], tiles[i] })
	for _, t := range tiles {
		f.mc.AddTile(t.loc, t.a.ports)
		ni.agents = append(ni.agents, t.a)
	}
	f.mc.EstablishNetwork()
	ni.Desc = map[string]any{"grid": dim, "holes": holes, "tiles_with_two_devices": merged,
		"switch_latency": f.lat, "transfers_per_cycle": f.bw}
	return ni
}

// ---------------------------------------------------------------- PCIe tree

type pcieFam struct {
	pc   *pcie.Connector
	lat  int
	flit int
	how  string
}

// pcieFlit mirrors the connectors' documented bandwidth table: bytes per cycle at 1 GHz.
func pcieFlit(version, width int) int {
	bw := float64(uint64(2<<30)<<(version-1)) * float64(width) / 8
	return int(math.Round(bw / 1e9))
}

func newPCIeFam(w *world, rng *rand.Rand) *pcieFam {
	f := &pcieFam{lat: 140, flit: pcieFlit(4, 16)}
	f.pc = pcie.NewConnector().WithRegistrar(w.reg).WithFrequency(1 * timing.GHz)
	switch rng.Intn(3) {
	case 0:
		v, wd := 1+rng.Intn(5), []int{4, 8, 16}[rng.Intn(3)]
		f.pc = f.pc.WithVersion(v, wd)
		f.flit = pcieFlit(v, wd)
		f.how = fmt.Sprintf("version %d x%d", v, wd)
	case 1:
		bw := uint64(1+rng.Intn(64)) * 1e9
		f.pc = f.pc.WithBandwidth(bw)
		f.flit = int(bw / 1e9)
		f.how = fmt.Sprintf("%d B/s", bw)
	default:
		f.how = "default (4 x16)"
	}
	if rng.Intn(3) > 0 {
		f.lat = []int{0, 1, 2, 5, 17, 60, 140, 200}[rng.Intn(8)]
		f.pc = f.pc.WithSwitchLatency(f.lat)
	}
	return f
}

func (f *pcieFam) build(w *world, rng *rand.Rand, k int) *netInfo {
	f.pc.CreateNetwork(fmt.Sprintf("PCIe%d", k))
	ni := &netInfo{Family: "pcie", Live: true, MaxLat: f.lat, Flit: f.flit}
	na := 0
	mk := func() *agent {
		a := w.newAgent(fmt.Sprintf("P%dD%d", k, na), 1+rng.Intn(3), rng)
		na++
		ni.agents = append(ni.agents, a)
		return a
	}
	root := f.pc.AddRootComplex(mk().ports)
	sws := []int{root}
	parent := map[int]int{}
	for n := rng.Intn(5); n > 0; n-- {
		base := sws[rng.Intn(len(sws))]
		id := f.pc.AddSwitch(base)
		parent[id] = base
		sws = append(sws, id)
	}
	var devAt []int
	for n := 1 + rng.Intn(8); n > 0; n-- {
		sw := sws[rng.Intn(len(sws))]
		if rng.Intn(3) > 0 {
			sw = sws[len(sws)-1-rng.Intn((len(sws)+1)/2)] // prefer the deeper switches
		}
		f.pc.PlugInDevice(sw, mk().ports)
		devAt = append(devAt, sw)
	}
	f.pc.EstablishRoute()
	ni.MaxSw = len(sws)
	ni.Desc = map[string]any{"bandwidth": f.how, "switch_latency": f.lat, "switches": len(sws), "switch_parent": fmt.Sprint(parent), "devices_at_switch": devAt}
	return ni
}

// ---------------------------------------------------------------- NVLink / PCIe hybrid

type nvFam struct {
	nc     *nvlink.Connector
	cyclic bool
	lat    int
	how    string
	flit   int
}

func newNVFam(w *world, rng *rand.Rand, cyclic bool) *nvFam {
	f := &nvFam{cyclic: cyclic, lat: 140, flit: pcieFlit(4, 16)}
	f.nc = nvlink.NewConnector().WithRegistrar(w.reg).WithFrequency(1 * timing.GHz)
	if rng.Intn(2) == 0 {
		v, wd := 1+rng.Intn(5), []int{4, 8, 16}[rng.Intn(3)]
		f.nc = f.nc.WithPCIeVersion(v, wd)
		f.flit = pcieFlit(v, wd)
		f.how = fmt.Sprintf("pcie %d x%d", v, wd)
	}
	if rng.Intn(2) == 0 {
		f.nc = f.nc.WithNVLinkVersion(1 + rng.Intn(3))
	}
	if rng.Intn(3) > 0 {
		f.lat = []int{0, 1, 3, 20, 140}[rng.Intn(5)]
		f.nc = f.nc.WithPCIeSwitchLatency(f.lat).WithNVLinkSwitchLatency([]int{0, 1, 5, 140}[rng.Intn(4)])
	}
	return f
}

func (f *nvFam) build(w *world, rng *rand.Rand, k int) *netInfo {
	f.nc.CreateNetwork(fmt.Sprintf("NV%d", k))
	ni := &netInfo{Family: "nvlink-acyclic", MaxLat: 140, Flit: f.flit}
	if f.cyclic {
		ni.Family = "nvlink-cyclic"
	}
	na := 0
	mk := func() *agent {
		a := w.newAgent(fmt.Sprintf("V%dD%d", k, na), 1+rng.Intn(2), rng)
		na++
		ni.agents = append(ni.agents, a)
		return a
	}
	nSw, nEdge := 0, 0
	nIsl := 1 + rng.Intn(4)
	if !f.cyclic && nIsl == 1 && rng.Intn(2) == 0 {
		nIsl = 2
	}
	isl := make([][]int, nIsl) // device ids per island
	var plan []string
	for i := 0; i < nIsl; i++ {
		var psw []int
		if i == 0 && rng.Intn(2) == 0 { // at most one root complex per network: its switch name is fixed
			psw = append(psw, f.nc.AddRootComplex(mk().ports)) // also makes the CPU's device switch and NVLink switch
			nSw += 3
			nEdge += 2
			isl[i] = append(isl[i], -1) // the CPU is not an NVLink device
			plan = append(plan, "root")
		}
		for n := 1 + rng.Intn(2); n > 0; n-- {
			s := f.nc.AddPCIeSwitch()
			nSw++
			if len(psw) > 0 {
				f.nc.ConnectSwitchesWithPCIeLink(psw[rng.Intn(len(psw))], s)
				nEdge++
			}
			psw = append(psw, s)
		}
		for n := 1 + rng.Intn(3); n > 0; n-- {
			d := f.nc.PlugInDevice(psw[rng.Intn(len(psw))], mk().ports)
			nSw += 2
			nEdge += 2
			isl[i] = append(isl[i], d)
		}
		plan = append(plan, fmt.Sprintf("island%d: %d pcie switches, devices %v", i, len(psw), isl[i]))
	}
	gpu := func(i int) int {
		for {
			if d := isl[i][rng.Intn(len(isl[i]))]; d >= 0 {
				return d
			}
		}
	}
	for i := 1; i < nIsl; i++ { // a tree over the islands keeps the network connected
		a, b := gpu(rng.Intn(i)), gpu(i)
		f.nc.ConnectDevicesWithNVLink(a, b, 1+rng.Intn(2))
		nEdge++
		plan = append(plan, fmt.Sprintf("nvlink %d-%d", a, b))
	}
	if f.cyclic {
		var all []int
		for _, ds := range isl {
			for _, d := range ds {
				if d >= 0 {
					all = append(all, d)
				}
			}
		}
		for n := 1 + rng.Intn(2*len(all)); n > 0 && len(all) > 1; n-- {
			a, b := all[rng.Intn(len(all))], all[rng.Intn(len(all))]
			if a != b {
				f.nc.ConnectDevicesWithNVLink(a, b, 1+rng.Intn(2))
				nEdge++
				plan = append(plan, fmt.Sprintf("nvlink %d-%d", a, b))
			}
		}
	}
	f.nc.EstablishRoute()
	ni.Live = nEdge == nSw-1 // connected by construction: a tree exactly then
	ni.MaxSw = nSw
	ni.Desc = map[string]any{"pcie": f.how, "pcie_switch_latency": f.lat, "plan": plan, "switches": nSw, "switch_links": nEdge}
	return ni
}

// ---------------------------------------------------------------- generic connector

type genFam struct {
	conn   *networkconnector.Connector
	cyclic bool
	flit   int
	bwr    bool
	maxSw  int
}

var treeShapes = []string{"path", "star", "tree", "tree", "single"}
var cyclicShapes = []string{"ring", "clique", "grid", "random", "random", "multi"}

func newGenFam(w *world, rng *rand.Rand, cyclic bool, maxSw int) *genFam {
	f := &genFam{cyclic: cyclic, flit: []int{1, 4, 16, 32, 64, 100}[rng.Intn(6)], bwr: rng.Intn(4) == 0, maxSw: maxSw}
	c := networkconnector.MakeConnector().WithRegistrar(w.reg).WithDefaultFreq(1 * timing.GHz).WithFlitSize(f.flit)
	if f.bwr {
		c = c.WithRouter(&networkconnector.BandwidthFirstRouter{FlitSize: f.flit})
	}
	f.conn = &c
	return f
}

func genEdges(rng *rand.Rand, shape string, n int) [][2]int {
	var es [][2]int
	add := func(a, b int) { es = append(es, [2]int{a, b}) }
	switch shape {
	case "path":
		for i := 1; i < n; i++ {
			add(i-1, i)
		}
	case "ring":
		for i := 1; i < n; i++ {
			add(i-1, i)
		}
		if n > 2 {
			add(n-1, 0)
		}
	case "star":
		for i := 1; i < n; i++ {
			add(0, i)
		}
	case "tree":
		for i := 1; i < n; i++ {
			add(rng.Intn(i), i)
		}
	case "clique":
		for i := 0; i < n; i++ {
			for j := i + 1; j < n; j++ {
				add(i, j)
			}
		}
	case "grid":
		w := 1 + rng.Intn(4)
		for i := 0; i < n; i++ {
			if i%w != 0 {
				add(i-1, i)
			}
			if i >= w {
				add(i-w, i)
			}
		}
	case "random", "multi":
		for i := 1; i < n; i++ {
			add(rng.Intn(i), i)
		}
		for k := rng.Intn(2*n + 1); k > 0 && n > 1; k-- {
			a, b := rng.Intn(n), rng.Intn(n)
			if a != b {
				add(a, b) // may duplicate an existing link: parallel links
			}
		}
		if shape == "multi" && n > 1 {
			e := es[rng.Intn(len(es))]
			add(e[1], e[0])
		}
	}
	perm := rng.Perm(n)
	for i := range es {
		a, b := perm[es[i][0]], perm[es[i][1]]
		if rng.Intn(2) == 0 {
			a, b = b, a
		}
		es[i] = [2]int{a, b}
	}
	return es
}

func swEnd(rng *rand.Rand, lat int) networkconnector.LinkEndSwitchParameter {
	return networkconnector.LinkEndSwitchParameter{
		IncomingBufSize: 1 + rng.Intn(3), OutgoingBufSize: 1 + rng.Intn(3),
		NumInputChannel: 1 + rng.Intn(3), NumOutputChannel: 1 + rng.Intn(3), Latency: rng.Intn(lat + 1),
	}
}

func (f *genFam) build(w *world, rng *rand.Rand, k int) *netInfo {
	f.conn.NewNetwork(fmt.Sprintf("Gen%d", k))
	shapes := treeShapes
	if f.cyclic {
		shapes = cyclicShapes
	}
	shape := shapes[rng.Intn(len(shapes))]
	n := 1 + rng.Intn(f.maxSw)
	if shape == "single" {
		n = 1
	}
	if shape == "clique" && n > 6 {
		n = 6
	}
	lat := []int{0, 1, 3, 12}[rng.Intn(4)]
	es := genEdges(rng, shape, n)
	ni := &netInfo{Family: "generic-tree", Flit: f.flit, MaxLat: lat, MaxSw: n}
	ni.Live = len(es) == n-1 // connected by construction: a tree exactly then
	if !ni.Live {
		ni.Family = "generic-cyclic"
	}
	for i := 0; i < n; i++ {
		var id int
		if rng.Intn(2) == 0 {
			id = f.conn.AddSwitch()
		} else {
			id = f.conn.AddSwitchWithName(fmt.Sprintf("S%d", i))
		}
		if id != i {
			panic(fmt.Sprintf("harness: switch id %d for the %d-th switch", id, i))
		}
	}
	nDev := 2 + rng.Intn(7)
	type op struct{ link, a, b, dev int }
	var ops []op
	for _, e := range es {
		ops = append(ops, op{link: 1, a: e[0], b: e[1]})
	}
	devSw := make([]int, nDev)
	for d := 0; d < nDev; d++ {
		devSw[d] = rng.Intn(n)
		ops = append(ops, op{dev: d})
		ni.agents = append(ni.agents, w.newAgent(fmt.Sprintf("G%dD%d", k, d), 1+rng.Intn(3), rng))
	}
	rng.Shuffle(len(ops), func(i, j int) { ops[i], ops[j] = ops[j], ops[i] })
	ideal := networkconnector.LinkParameter{IsIdeal: true, Frequency: 1 * timing.GHz}
	for _, o := range ops {
		if o.link == 1 {
			f.conn.ConnectSwitches(o.a, o.b, networkconnector.SwitchToSwitchLinkParameter{
				LeftEndParam: swEnd(rng, lat), RightEndParam: swEnd(rng, lat), LinkParam: ideal})
			continue
		}
		param := networkconnector.DeviceToSwitchLinkParameter{
			DeviceEndParam: networkconnector.LinkEndDeviceParameter{
				IncomingBufSize: 1 + rng.Intn(3), OutgoingBufSize: 1 + rng.Intn(3),
				NumInputChannel: 1 + rng.Intn(3), NumOutputChannel: 1 + rng.Intn(3)},
			SwitchEndParam: swEnd(rng, lat), LinkParam: ideal}
		if rng.Intn(2) == 0 {
			f.conn.ConnectDeviceWithEPName(fmt.Sprintf("EP%d", o.dev), devSw[o.dev], ni.agents[o.dev].ports, param)
		} else {
			f.conn.ConnectDevice(devSw[o.dev], ni.agents[o.dev].ports, param)
		}
	}
	f.conn.EstablishRoute()
	router := "floyd-warshall"
	if f.bwr {
		router = "bandwidth-first"
	}
	ni.Desc = map[string]any{"shape": shape, "switches": n, "links": es, "device_switch": devSw, "max_latency": lat, "router": router}
	return ni
}
