// C42 Clock arithmetic is exact: math/big reference over hostile (freq, time) points.
package main

import (
	"fmt"
	"math/big"
	"math/rand"

	"verifharness/kit"

	"github.com/sarchlab/akita/v5/timing"
)

var two64 = new(big.Int).Lsh(big.NewInt(1), 64)

func fits(x *big.Int) bool { return x.Sign() >= 0 && x.Cmp(two64) < 0 }

func pickFreq(rng *rand.Rand) uint64 {
	switch rng.Intn(8) {
	case 0: // powers of ten
		f := uint64(1)
		for i := rng.Intn(13); i > 0; i-- {
			f *= 10
		}
		return f
	case 1: // divisors of 1e12 of the form 2^a 5^b
		f := uint64(1)
		for i := rng.Intn(13); i > 0; i-- {
			f *= 2
		}
		for i := rng.Intn(13); i > 0; i-- {
			f *= 5
		}
		if f > 1e12 {
			f = 1e12
		}
		return f
	case 2: // common non-divisors
		return []uint64{3, 7, 700e6, 1500e6, 3e9, 1333333333, 999999999999, 333e9, 600e9, 7e11, 123456789}[rng.Intn(11)]
	case 3:
		return 1 + uint64(rng.Int63n(1000))
	case 4:
		return 1e12 - uint64(rng.Int63n(1000))
	case 5:
		return 5e11 + uint64(rng.Int63n(11)) - 5 // period flips between 1 and 2
	default:
		return 1 + uint64(rng.Int63n(1e12))
	}
}

func pickTime(rng *rand.Rand, p uint64) uint64 {
	maxK := ^uint64(0) / p
	switch rng.Intn(7) {
	case 0:
		return uint64(rng.Intn(3))
	case 1:
		return p + uint64(rng.Intn(3)) - 1
	case 2: // k*p +- 1
		k := rng.Uint64() % maxK // maxK >= 2^64/1e12 > 0
		return k*p + uint64(rng.Intn(3)) - 1
	case 3: // within a period of 2^64
		return ^uint64(0) - uint64(rng.Int63n(int64(min64(2*p+2, 1<<62))))
	case 4: // largest multiple of p below 2^64, +-1
		return maxK*p + uint64(rng.Intn(3)) - 1
	case 5:
		return rng.Uint64()
	default:
		return uint64(rng.Int63n(1 << 40))
	}
}

func min64(a, b uint64) uint64 {
	if a < b {
		return a
	}
	return b
}

func main() {
	kit.Main(kit.Prop{
		ID:    "C42",
		Level: "exploration",
		Rule: "points (freq,time,n) drawn from classes biased to divisors/non-divisors of 1e12, k*p±1 and values within a period of 2^64; " +
			"each of ThisTick/NextTick/NCyclesLater/Cycle/Period is compared with a math/big reference and judged only when the exact result < 2^64; " +
			"a point is non-trivial when time is not 0 and at least one result was judged; distinct by (freq,time,n)",
		Assumptions: []string{"frequencies 1 Hz..1 THz; n >= 0; results that do not fit in 64 bits are not judged"},
		Plan: func(tier string, seed int64) []kit.Batch {
			nb, n := 8, 25000
			if tier == "thorough" {
				nb, n = 32, 1500000
			}
			var bs []kit.Batch
			for i := 0; i < nb; i++ {
				bs = append(bs, kit.Batch{Name: fmt.Sprintf("pts%d", i), Seed: seed*1000 + int64(i), N: n})
			}
			return bs
		},
		Run: run,
	})
}

func run(b kit.Batch, r *kit.R) {
	r.ForEach(b.N, func(c *kit.Case) {
		rng := c.Rng
		fHz := pickFreq(rng)
		f := timing.Freq(fHz)
		p := uint64(1e12) / fHz
		t := pickTime(rng, p)
		n := 0
		switch rng.Intn(4) {
		case 0:
			n = rng.Intn(4)
		case 1:
			n = rng.Intn(1 << 20)
		case 2:
			// chosen so that base+n*p is close to 2^64
			room := (^uint64(0) - t) / p
			if room > 1<<62 {
				room = 1 << 62
			}
			n = int(room) - rng.Intn(3)
			if n < 0 {
				n = 0
			}
		}
		c.Desc(map[string]any{"freq_hz": fHz, "time": fmt.Sprint(t), "n": n})
		bp, bt := new(big.Int).SetUint64(p), new(big.Int).SetUint64(t)
		judged := 0
		check := func(name string, want *big.Int, got func() uint64) {
			if !fits(want) {
				r.Count("not_judged_overflow", 1)
				return
			}
			judged++
			g := got()
			if new(big.Int).SetUint64(g).Cmp(want) != 0 {
				c.Failf("clock/"+name, "%s(freq=%d Hz, t=%d, n=%d) = %d, exact = %s (period %d)", name, fHz, t, n, g, want.String(), p)
			}
		}
		if uint64(f.Period()) != p {
			c.Failf("clock/Period", "Period(%d)=%d want %d", fHz, f.Period(), p)
		}
		q, m := new(big.Int).DivMod(bt, bp, new(big.Int))
		// ThisTick = ceil(t/p)*p
		ceilq := new(big.Int).Set(q)
		if m.Sign() != 0 {
			ceilq.Add(ceilq, big.NewInt(1))
		}
		this := new(big.Int).Mul(ceilq, bp)
		check("ThisTick", this, func() uint64 { return uint64(f.ThisTick(timing.VTimeInPicoSec(t))) })
		check("NoEarlierThan", this, func() uint64 { return uint64(f.NoEarlierThan(timing.VTimeInPicoSec(t))) })
		next := new(big.Int).Mul(new(big.Int).Add(q, big.NewInt(1)), bp)
		check("NextTick", next, func() uint64 { return uint64(f.NextTick(timing.VTimeInPicoSec(t))) })
		ncl := new(big.Int).Add(this, new(big.Int).Mul(big.NewInt(int64(n)), bp))
		check("NCyclesLater", ncl, func() uint64 { return uint64(f.NCyclesLater(n, timing.VTimeInPicoSec(t))) })
		check("Cycle", q, func() uint64 { return f.Cycle(timing.VTimeInPicoSec(t)) })
		r.Count("results_judged", int64(judged))
		if t != 0 && judged > 0 {
			c.Nontrivial(fmt.Sprintf("%d/%d/%d", fHz, t, n))
			if m.Sign() == 0 {
				r.Count("on_edge_points", 1)
			}
			if new(big.Int).Add(bt, bp).Cmp(two64) >= 0 {
				r.Count("points_within_a_period_of_2^64", 1)
			}
		}
		c.Sample(map[string]any{"freq_hz": fHz, "time": fmt.Sprint(t), "n": n, "ThisTick_exact": this.String(), "NextTick_exact": next.String()})
	})
}
