// C31 Endpoints packetise and reassemble losslessly.
//
// One real endpoint on a serial engine, with real ports. The harness is the
// rest of the world: a ticking "driver" component owns the device ports and
// plays the network behind the endpoint's NetworkPort. Every cycle it randomly
// sends device messages, drains flits from the NetworkPort, injects flits of
// many incoming messages (interleaved, permuted, some messages with a flit
// withheld for ever) and drains the device ports, under PRNG-chosen pressure.
// Observation is by port hooks: the Send hook of the NetworkPort sees every
// flit the endpoint emits, the Recv hook of each device port sees every
// delivery at the instant it is made.
package main

import (
	"fmt"
	"math"
	"math/big"
	"math/rand"

	"verifharness/kit"

	"github.com/sarchlab/akita/v5/hooking"
	"github.com/sarchlab/akita/v5/messaging"
	"github.com/sarchlab/akita/v5/modeling"
	"github.com/sarchlab/akita/v5/noc/networking/switching/endpoint"
	"github.com/sarchlab/akita/v5/noc/packetization"
	"github.com/sarchlab/akita/v5/timing"
)

// ---------------------------------------------------------------- model

// flitCounts returns the acceptable flit counts for a message of b traffic
// bytes: ceil((b + ceil(b*o)) / f), at least 1. b*o is evaluated exactly on the
// float64 value of o; when that product is within 1e-9 (relative) of an integer
// the integer itself is accepted too, because the endpoint multiplies in
// float64 (0.1*10 must be allowed to mean 1).
func flitCounts(b int, o float64, f int) (cands []int, ambiguous bool) {
	if b <= 0 {
		return []int{1}, false
	}
	x := new(big.Rat).Mul(new(big.Rat).SetInt64(int64(b)), new(big.Rat).SetFloat64(o))
	q := new(big.Int).Quo(x.Num(), x.Denom()) // floor, x >= 0
	encs := []int64{q.Int64()}
	if !x.IsInt() {
		encs[0]++
	}
	xf, _ := x.Float64()
	if r := math.Round(xf); math.Abs(xf-r) <= 1e-9*math.Max(1, math.Abs(xf)) && int64(r) != encs[0] {
		encs = append(encs, int64(r))
		ambiguous = true
	}
	for _, e := range encs {
		total := int64(b) + e
		n := int((total-1)/int64(f)) + 1
		if n < 1 {
			n = 1
		}
		if len(cands) == 0 || cands[0] != n {
			cands = append(cands, n)
		}
	}
	return cands, ambiguous
}

// ---------------------------------------------------------------- world

type payloadMsg struct {
	messaging.MsgMeta
	Payload []byte
}

type outMsg struct {
	meta   messaging.MsgMeta
	port   int
	sent   bool
	flits  []packetization.Flit // as observed at the NetworkPort
	counts []int
}

type inMsg struct {
	meta      messaging.MsgMeta
	port      int
	n         int
	withheld  int // SeqID never injected, or -1
	injected  int
	delivered int
	earlyAt   int // injected count at the first delivery, when it was too small
}

type fakeConn struct {
	hooking.HookableBase
	d *driver
}

func (c *fakeConn) Name() string                     { return "Network" }
func (c *fakeConn) PlugIn(_ messaging.Port)          {}
func (c *fakeConn) Unplug(_ messaging.Port)          {}
func (c *fakeConn) NotifyAvailable(_ messaging.Port) { c.d.TickLater() }
func (c *fakeConn) NotifySend()                      { c.d.TickLater() }

type hookFn func(ctx hooking.HookCtx)

type fnHook struct{ f hookFn }

func (h *fnHook) Func(ctx hooking.HookCtx) { h.f(ctx) }

type knobs struct {
	SendPct    int `json:"send_pct"`   // chance per cycle and device port to send the next message
	DrainPct   int `json:"drain_pct"`  // chance per cycle to drain the network port
	DrainMax   int `json:"drain_max"`  // flits drained per draining cycle
	InjectPct  int `json:"inject_pct"` // chance per cycle to inject flits
	InjectMax  int `json:"inject_max"` // flits injected per injecting cycle
	DevRecvPct int `json:"dev_recv_pct"`
}

type driver struct {
	*modeling.TickingComponent
	rng       *rand.Rand
	k         knobs
	devPorts  []messaging.Port
	netPort   messaging.Port
	netOutCap int

	outQ   [][]*outMsg // per device port, still to send
	outAll map[uint64]*outMsg
	inj    []packetization.Flit // injection schedule
	inAll  map[uint64]*inMsg

	idle                                         int
	activity                                     bool
	phantomOut                                   []packetization.Flit
	phantomIn                                    []string
	wrongPort                                    []string
	assembling                                   map[uint64]bool
	maxAssembling                                int
	cycles, netFullCycles, devBlocked, devInFull int64
	budget                                       int64 // cycles after which the driver gives up (the endpoint does not quiesce)
	gaveUp                                       bool
	deliveries                                   int
}

func (d *driver) pending() bool {
	for _, q := range d.outQ {
		if len(q) > 0 {
			return true
		}
	}
	return len(d.inj) > 0
}

func (d *driver) Tick() bool {
	rng := d.rng
	d.cycles++
	if d.cycles > d.budget {
		d.gaveUp = true
		return false // stop serving the ports: the endpoint blocks and the engine runs dry
	}
	if d.netPort.NumOutgoing() >= d.netOutCap {
		d.netFullCycles++
	}
	for pi, port := range d.devPorts {
		for len(d.outQ[pi]) > 0 && rng.Intn(100) < d.k.SendPct {
			if !port.CanSend() {
				d.devBlocked++
				break
			}
			m := d.outQ[pi][0]
			d.outQ[pi] = d.outQ[pi][1:]
			m.sent = true
			port.Send(payloadMsg{MsgMeta: m.meta, Payload: make([]byte, 3)})
			d.activity = true
		}
		if port.NumIncoming() > 0 && !port.CanDeliver() {
			d.devInFull++
		}
		for rng.Intn(100) < d.k.DevRecvPct && port.RetrieveIncoming() != nil {
			d.activity = true
		}
	}
	if rng.Intn(100) < d.k.DrainPct {
		for i := 0; i < d.k.DrainMax && d.netPort.RetrieveOutgoing() != nil; i++ {
			d.activity = true
		}
	}
	if rng.Intn(100) < d.k.InjectPct {
		for i := 0; i < d.k.InjectMax && len(d.inj) > 0 && d.netPort.CanDeliver(); i++ {
			f := d.inj[0]
			d.inj = d.inj[1:]
			im := d.inAll[f.Msg.ID]
			im.injected++
			limit := im.n
			if im.withheld >= 0 {
				limit--
			}
			if im.injected < limit || im.withheld >= 0 {
				d.assembling[f.Msg.ID] = true
			} else {
				delete(d.assembling, f.Msg.ID)
			}
			if len(d.assembling) > d.maxAssembling {
				d.maxAssembling = len(d.assembling)
			}
			d.netPort.Deliver(f)
			d.activity = true
		}
	}
	if d.activity {
		d.idle = 0
		d.activity = false
	} else {
		d.idle++
	}
	busy := d.netPort.NumOutgoing() > 0
	for _, p := range d.devPorts {
		busy = busy || p.NumIncoming() > 0
	}
	return d.pending() || busy || d.idle < 48
}

// ---------------------------------------------------------------- generators

func pickBytes(rng *rand.Rand, f int, maxFlits int) int {
	var b int
	switch rng.Intn(8) {
	case 0:
		b = 0
	case 1:
		b = 1 + rng.Intn(3)
	case 2:
		b = f + rng.Intn(3) - 1
	case 3:
		b = (1+rng.Intn(maxFlits))*f + rng.Intn(3) - 1
	case 4:
		b = rng.Intn(maxFlits*f + 1)
	case 5:
		b = []int{4, 8, 12, 16, 32, 64, 100, 128, 1000, 4096}[rng.Intn(10)]
	default:
		b = rng.Intn(4*f + 2)
	}
	if b > maxFlits*f {
		b = maxFlits * f
	}
	if b < 0 {
		b = 0
	}
	return b
}

var (
	flitSizes    = []int{1, 2, 3, 4, 7, 8, 16, 32, 33, 64, 100, 128, 4096}
	dyadicOvh    = []float64{0, 0, 0.25, 0.25, 0.5, 0.125, 0.0625, 1, 1.5, 2, 0.75, 1.0 / 1024}
	nonDyadicOvh = []float64{0.1, 0.2, 0.3, 1.0 / 3, 0.01, 0.07, 0.6, 1.1, 0.15, 2.0 / 3}
	classes      = []string{"", "mem.ReadReq", "mem.WriteReq", "mem.DataReadyRsp", "payloadMsg"}
)

func newID(rng *rand.Rand, used map[uint64]bool) uint64 {
	for {
		var id uint64
		switch rng.Intn(4) {
		case 0:
			id = timing.GetIDGenerator().Generate()
		case 1:
			id = rng.Uint64() | 1<<63
		case 2:
			id = uint64(1 + rng.Intn(64)) // small, dense: neighbours of each other
		default:
			id = rng.Uint64()
		}
		if id != 0 && !used[id] {
			used[id] = true
			return id
		}
	}
}

type params struct {
	NonDyadic bool `json:"non_dyadic"`
	MaxMsgs   int  `json:"max_msgs"`
	MaxFlits  int  `json:"max_flits"`
}

func run(b kit.Batch, r *kit.R) {
	var pr params
	b.P(&pr)
	r.ForEach(b.N, func(c *kit.Case) {
		rng := c.Rng
		spec := endpoint.DefaultSpec()
		spec.Freq = 1 * timing.GHz
		spec.FlitByteSize = flitSizes[rng.Intn(len(flitSizes))]
		if pr.NonDyadic {
			spec.EncodingOverhead = nonDyadicOvh[rng.Intn(len(nonDyadicOvh))]
		} else {
			spec.EncodingOverhead = dyadicOvh[rng.Intn(len(dyadicOvh))]
		}
		spec.NumInputChannels = 1 + rng.Intn(4)
		spec.NumOutputChannels = 1 + rng.Intn(4)
		pcts := []int{8, 30, 60, 100}
		k := knobs{SendPct: pcts[rng.Intn(4)], DrainPct: pcts[rng.Intn(4)], DrainMax: 1 + rng.Intn(4),
			InjectPct: pcts[rng.Intn(4)], InjectMax: 1 + rng.Intn(4), DevRecvPct: pcts[rng.Intn(4)]}
		nDev := 1 + rng.Intn(3)
		netIn, netOut := 1+rng.Intn(4), 1+rng.Intn(4)
		devBuf := 1 + rng.Intn(3)
		nOut, nIn := rng.Intn(pr.MaxMsgs+1), rng.Intn(pr.MaxMsgs+1)
		if nOut+nIn == 0 {
			nOut, nIn = 3, 3
		}
		desc := map[string]any{"flit_bytes": spec.FlitByteSize, "overhead": spec.EncodingOverhead,
			"in_channels": spec.NumInputChannels, "out_channels": spec.NumOutputChannels, "knobs": k,
			"device_ports": nDev, "net_port_buf": []int{netIn, netOut}, "dev_port_buf": devBuf, "out_msgs": nOut, "in_msgs": nIn}
		c.Desc(desc)

		engine := timing.NewSerialEngine()
		d := &driver{rng: rand.New(rand.NewSource(rng.Int63())), k: k, netOutCap: netOut,
			outAll: map[uint64]*outMsg{}, inAll: map[uint64]*inMsg{}, assembling: map[uint64]bool{}}
		d.TickingComponent = modeling.NewTickingComponent("Driver", engine, 1*timing.GHz, d)
		for i := 0; i < nDev; i++ {
			d.devPorts = append(d.devPorts, messaging.NewPort(d, devBuf, devBuf, fmt.Sprintf("Driver.Port[%d]", i)))
		}
		d.outQ = make([][]*outMsg, nDev)
		ep := endpoint.MakeBuilder().
			WithRegistrar(modeling.NewStandaloneRegistrar(engine)).
			WithSpec(spec).
			WithResources(endpoint.Resources{DevicePorts: d.devPorts}).
			Build("EP")
		d.netPort = messaging.NewPort(ep, netIn, netOut, "EP.NetworkPort")
		d.netPort.SetConnection(&fakeConn{d: d})
		ep.SetNetworkPort(d.netPort)
		const switchPort = messaging.RemotePort("Switch.Port[0]")
		ep.SetDefaultSwitchDst(switchPort)

		// ---- traffic
		used := map[uint64]bool{}
		var outOrder []*outMsg
		for i := 0; i < nOut; i++ {
			pi := rng.Intn(nDev)
			m := &outMsg{port: pi, meta: messaging.MsgMeta{
				ID: newID(rng, used), Src: d.devPorts[pi].AsRemote(), Dst: messaging.RemotePort(fmt.Sprintf("Remote[%d].Port", rng.Intn(4))),
				TrafficClass: classes[rng.Intn(len(classes))], TrafficBytes: pickBytes(rng, spec.FlitByteSize, pr.MaxFlits)}}
			if rng.Intn(3) == 0 {
				m.meta.RspTo = newID(rng, map[uint64]bool{})
			}
			if rng.Intn(40) == 0 {
				m.meta.TrafficBytes = -1 - rng.Intn(3)
			}
			var amb bool
			m.counts, amb = flitCounts(m.meta.TrafficBytes, spec.EncodingOverhead, spec.FlitByteSize)
			if amb {
				r.Count("out_messages_with_float_ambiguous_size", 1)
			}
			d.outQ[pi] = append(d.outQ[pi], m)
			d.outAll[m.meta.ID] = m
			outOrder = append(outOrder, m)
		}
		var inOrder []*inMsg
		var perMsg [][]packetization.Flit
		totalIn := 0
		for i := 0; i < nIn; i++ {
			pi := rng.Intn(nDev)
			n := 1
			switch rng.Intn(4) {
			case 0:
			case 1:
				n = 2 + rng.Intn(3)
			default:
				n = 1 + rng.Intn(pr.MaxFlits)
			}
			m := &inMsg{port: pi, n: n, withheld: -1, meta: messaging.MsgMeta{
				ID: newID(rng, used), Src: messaging.RemotePort(fmt.Sprintf("Remote[%d].Port", rng.Intn(2))), Dst: d.devPorts[pi].AsRemote(),
				TrafficClass: classes[rng.Intn(len(classes))], TrafficBytes: rng.Intn(5000)}}
			if rng.Intn(3) == 0 {
				m.meta.RspTo = newID(rng, map[uint64]bool{})
			}
			if rng.Intn(3) == 0 && i > 0 { // a twin: same endpoints, size and class as the previous message
				prev := inOrder[i-1]
				m.meta.Src, m.meta.Dst, m.meta.TrafficBytes, m.meta.TrafficClass, m.meta.RspTo = prev.meta.Src, prev.meta.Dst, prev.meta.TrafficBytes, prev.meta.TrafficClass, prev.meta.RspTo
				m.port, m.n = prev.port, prev.n
				r.Count("in_twin_messages", 1)
			}
			if rng.Intn(6) == 0 {
				m.withheld = rng.Intn(m.n)
			}
			taskID := timing.GetIDGenerator().Generate()
			var fl []packetization.Flit
			for s := 0; s < m.n; s++ {
				if s == m.withheld {
					continue
				}
				fl = append(fl, packetization.Flit{
					MsgMeta: messaging.MsgMeta{ID: timing.GetIDGenerator().Generate(), Src: switchPort, Dst: d.netPort.AsRemote(), TrafficBytes: spec.FlitByteSize},
					SeqID:   s, NumFlitInMsg: m.n, Msg: m.meta, MsgTaskID: taskID})
			}
			switch rng.Intn(3) { // order of the flits of one message
			case 0:
			case 1:
				rng.Shuffle(len(fl), func(a, b int) { fl[a], fl[b] = fl[b], fl[a] })
				if len(fl) > 1 {
					r.Count("in_messages_with_permuted_flits", 1)
				}
			default:
				for a, b := 0, len(fl)-1; a < b; a, b = a+1, b-1 {
					fl[a], fl[b] = fl[b], fl[a]
				}
				if len(fl) > 1 {
					r.Count("in_messages_with_permuted_flits", 1)
				}
			}
			perMsg = append(perMsg, fl)
			totalIn += len(fl)
			d.inAll[m.meta.ID] = m
			inOrder = append(inOrder, m)
		}
		// merge the per-message sequences: a sliding window of `width` open messages
		width := 1 + rng.Intn(6)
		lo := 0
		for totalIn > 0 {
			for lo < len(perMsg) && len(perMsg[lo]) == 0 {
				lo++
			}
			hi := lo + width
			if hi > len(perMsg) {
				hi = len(perMsg)
			}
			j := lo + rng.Intn(hi-lo)
			if len(perMsg[j]) == 0 {
				continue
			}
			d.inj = append(d.inj, perMsg[j][0])
			perMsg[j] = perMsg[j][1:]
			totalIn--
		}
		nInj := len(d.inj)
		d.budget = 20000
		for _, m := range outOrder {
			d.budget += 40 * int64(m.counts[len(m.counts)-1]+2)
		}
		d.budget += 40 * int64(nInj+len(inOrder))

		// ---- observation
		flitIDs := map[uint64]bool{}
		d.netPort.AcceptHook(&fnHook{func(ctx hooking.HookCtx) {
			if ctx.Pos != messaging.HookPosPortMsgSend {
				return
			}
			d.activity = true
			f, ok := ctx.Item.(packetization.Flit)
			if !ok {
				d.phantomOut = append(d.phantomOut, packetization.Flit{SeqID: -1})
				return
			}
			m := d.outAll[f.Msg.ID]
			if m == nil || !m.sent {
				d.phantomOut = append(d.phantomOut, f)
				return
			}
			if flitIDs[f.ID] {
				r.Count("x_duplicate_flit_ids", 1)
			}
			flitIDs[f.ID] = true
			m.flits = append(m.flits, f)
		}})
		for pi, p := range d.devPorts {
			pi, p := pi, p
			p.AcceptHook(&fnHook{func(ctx hooking.HookCtx) {
				if ctx.Pos != messaging.HookPosPortMsgRecvd {
					return
				}
				d.activity = true
				am, ok := ctx.Item.(packetization.AssembledMsg)
				if !ok {
					d.phantomIn = append(d.phantomIn, fmt.Sprintf("%T %+v", ctx.Item, ctx.Item))
					return
				}
				m := d.inAll[am.ID]
				if m == nil || am.MsgMeta != m.meta {
					d.phantomIn = append(d.phantomIn, fmt.Sprintf("%+v", am.MsgMeta))
					return
				}
				if m.port != pi {
					d.wrongPort = append(d.wrongPort, fmt.Sprintf("%+v on %s", am.MsgMeta, p.Name()))
				}
				if m.delivered == 0 && (m.injected < m.n) {
					m.earlyAt = m.injected + 1 // +1 so that 0 means "not early"
				}
				m.delivered++
				d.deliveries++
			}})
		}

		// ---- run
		d.TickLater()
		for round := 0; ; round++ {
			if err := engine.Run(); err != nil {
				panic(err)
			}
			moved := false
			for d.netPort.RetrieveOutgoing() != nil {
				moved = true
			}
			for _, p := range d.devPorts {
				for p.RetrieveIncoming() != nil {
					moved = true
				}
			}
			if !moved || d.gaveUp || round > 1000 {
				break
			}
		}

		if d.gaveUp {
			c.Failf("run/no-quiescence", "the endpoint was still active after %d cycles (budget for this traffic); %d device deliveries, %d flits sent so far", d.budget, d.deliveries, len(flitIDs))
		}

		// ---- judge: outgoing
		flitsOut, multi := 0, 0
		for _, m := range outOrder {
			if !m.sent {
				c.Failf("harness/unsent", "driver never sent %+v", m.meta)
				continue
			}
			n := len(m.flits)
			flitsOut += n
			ok := false
			for _, want := range m.counts {
				ok = ok || want == n
			}
			if !ok {
				c.Failf("outgoing/flit-count", "message of %d traffic bytes (overhead %v, flit %d B) left as %d flits, want %v", m.meta.TrafficBytes, spec.EncodingOverhead, spec.FlitByteSize, n, m.counts)
				continue
			}
			if n > 1 {
				multi++
			}
			seen := make([]bool, n)
			for _, f := range m.flits {
				switch {
				case f.NumFlitInMsg != n:
					c.Failf("outgoing/num-flit-in-msg", "flit says NumFlitInMsg=%d, message left as %d flits", f.NumFlitInMsg, n)
				case f.SeqID < 0 || f.SeqID >= n || seen[f.SeqID]:
					c.Failf("outgoing/seq-id", "SeqID %d is out of range or repeated in a %d-flit message", f.SeqID, n)
				case f.Msg != m.meta:
					c.Failf("outgoing/metadata", "flit carries %+v, message was %+v", f.Msg, m.meta)
				case f.Src != d.netPort.AsRemote() || f.Dst != switchPort:
					c.Failf("outgoing/flit-addressing", "flit goes %s -> %s, want %s -> %s", f.Src, f.Dst, d.netPort.AsRemote(), switchPort)
				default:
					seen[f.SeqID] = true
				}
			}
			r.Max("max_flits_per_out_message", int64(n))
		}
		for _, f := range d.phantomOut {
			c.Failf("outgoing/phantom-flit", "NetworkPort sent a flit that belongs to no message handed to the endpoint: %+v", f)
		}

		// ---- judge: incoming
		complete, incomplete := 0, 0
		for _, m := range inOrder {
			switch {
			case m.withheld >= 0:
				incomplete++
				if m.delivered > 0 {
					c.Failf("incoming/delivered-incomplete", "message %+v delivered %d time(s) although flit %d of %d never arrived", m.meta, m.delivered, m.withheld, m.n)
				}
			case m.earlyAt > 0:
				c.Failf("incoming/delivered-early", "message %+v delivered when %d of its %d flits had arrived", m.meta, m.earlyAt-1, m.n)
			case m.delivered == 0:
				c.Failf("incoming/not-delivered", "message %+v: all %d flits arrived, never delivered (engine ran dry)", m.meta, m.n)
			case m.delivered > 1:
				c.Failf("incoming/duplicate-delivery", "message %+v delivered %d times", m.meta, m.delivered)
			default:
				complete++
			}
			r.Max("max_flits_per_in_message", int64(m.n))
		}
		for _, s := range d.phantomIn {
			c.Failf("incoming/phantom-or-altered", "device port received a message that was never sent in this form: %s", s)
		}
		for _, s := range d.wrongPort {
			c.Failf("incoming/wrong-port", "%s", s)
		}
		if len(d.inj) > 0 {
			c.Failf("harness/uninjected", "%d flits never injected", len(d.inj))
		}

		// ---- evidence
		r.Count("out_messages", int64(len(outOrder)))
		r.Count("out_flits_observed", int64(flitsOut))
		r.Count("out_multi_flit_messages", int64(multi))
		r.Count("in_flits_injected", int64(nInj))
		r.Count("in_messages_delivered_once", int64(complete))
		r.Count("in_messages_with_a_withheld_flit", int64(incomplete))
		r.Count("cycles", d.cycles)
		r.Max("max_cycle_budget_used_pct", d.cycles*100/d.budget)
		r.Count("cycles_network_port_full", d.netFullCycles)
		r.Count("device_send_blocked", d.devBlocked)
		r.Count("device_port_full_observations", d.devInFull)
		r.Max("max_messages_assembling_at_once", int64(d.maxAssembling))
		if d.maxAssembling >= 2 {
			r.Count("cases_with_interleaved_assembly", 1)
		}
		r.Distinct("flit_size/overhead", fmt.Sprintf("%d/%v", spec.FlitByteSize, spec.EncodingOverhead))
		if flitsOut+nInj > 0 {
			c.Nontrivial(fmt.Sprintf("%v/%d", desc, c.Seed))
		}
		var sample []map[string]any
		for i, m := range outOrder {
			if i < 4 {
				sample = append(sample, map[string]any{"traffic_bytes": m.meta.TrafficBytes, "flits_seen": len(m.flits), "flits_model": m.counts})
			}
		}
		c.Sample(map[string]any{"config": desc, "first_out_messages": sample, "in_messages": len(inOrder), "in_flits": nInj,
			"max_assembling_at_once": d.maxAssembling, "cycles": d.cycles})
	})
}

func main() {
	kit.Main(kit.Prop{
		ID:    "C31",
		Level: "exploration",
		Rule: "one endpoint per case with PRNG-drawn flit size, encoding overhead, channel counts, port buffer sizes and driver pressure; 0..MaxMsgs outgoing messages with byte counts " +
			"around the flit boundaries and 0..MaxMsgs incoming messages whose flits are merged through a sliding window, permuted inside a message, with twins (identical metadata except the id) " +
			"and messages with one flit withheld; a case is non-trivial when at least one flit crossed the NetworkPort in either direction; distinct by configuration and seed",
		Assumptions: []string{
			"message ids are unique among the messages in flight (the id generator guarantees it in a simulation)",
			"b*overhead is judged exactly; when the exact product is within 1e-9 of an integer the endpoint's float64 result is accepted too",
			"flit order inside an outgoing message is not judged; no flit is duplicated by the network",
		},
		Plan: func(tier string, seed int64) []kit.Batch {
			n, reps := 60, 1
			if tier == "thorough" {
				n, reps = 1500, 4
			}
			var bs []kit.Batch
			add := func(name string, n int, p params) {
				bs = append(bs, kit.Batch{Name: name, Seed: seed*1000 + int64(len(bs)), N: n, Params: kit.MkParams(p)})
			}
			for rep := 0; rep < reps; rep++ {
				for i := 0; i < 6; i++ {
					add(fmt.Sprintf("dyadic%d.%d", rep, i), n, params{MaxMsgs: 40, MaxFlits: 12})
				}
				for i := 0; i < 3; i++ {
					add(fmt.Sprintf("nondyadic%d.%d", rep, i), n, params{NonDyadic: true, MaxMsgs: 40, MaxFlits: 12})
				}
				add(fmt.Sprintf("many%d", rep), n/3, params{MaxMsgs: 200, MaxFlits: 6})
				add(fmt.Sprintf("long%d", rep), n/3, params{MaxMsgs: 12, MaxFlits: 150})
				add(fmt.Sprintf("longnd%d", rep), n/3, params{NonDyadic: true, MaxMsgs: 12, MaxFlits: 150})
			}
			return bs
		},
		Run: run,
		MustObserve: []string{
			"out_flits_observed", "out_multi_flit_messages", "in_messages_delivered_once", "in_messages_with_a_withheld_flit",
			"in_messages_with_permuted_flits", "in_twin_messages", "cases_with_interleaved_assembly",
			"cycles_network_port_full", "device_send_blocked", "device_port_full_observations",
		},
	})
}
