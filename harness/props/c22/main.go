// C22 DRAM issues commands in protocol-legal order and timing; every request
// completes and reads return the last written data.
//
// Observation: source hook H3 (dram.VerifSetCmdObserver, build tag verif)
// delivers every command the bank-tick middleware issues, with its decoded
// location and the virtual time of the issuing tick. oracle.go replays the
// stream through an independent per-bank state machine and a set of minimum
// separations computed from the raw/normalised Spec fields (never from the
// controller's generated timing table). The data side uses kit/sim's scripted
// driver (flat reference memory, exactly-one-response monitor).
package main

import (
	"encoding/json"
	"fmt"
	"math/rand"

	"verifharness/kit"
	"verifharness/kit/sim"

	"github.com/sarchlab/akita/v5/mem/dram"
	"github.com/sarchlab/akita/v5/mem/memcontrolprotocol"
	"github.com/sarchlab/akita/v5/messaging"
	"github.com/sarchlab/akita/v5/modeling"
	"github.com/sarchlab/akita/v5/noc/directconnection"
	"github.com/sarchlab/akita/v5/timing"
)

type params struct {
	NumReqs int `json:"num_reqs"`
}

// variant is a deviation from the plain preset that sim.MemCfg cannot express.
type variant struct {
	Kind  string `json:"kind,omitempty"` // "" | rwsplit | ranks2 | tal | names
	RQ    int    `json:"rq,omitempty"`
	WQ    int    `json:"wq,omitempty"`
	WHi   int    `json:"whi,omitempty"`
	WLo   int    `json:"wlo,omitempty"`
	TAL   int    `json:"tal,omitempty"`
	Ranks int    `json:"ranks,omitempty"`
}

type caseCfg struct {
	Stack  sim.StackCfg `json:"stack"`
	Var    variant      `json:"variant"`
	Shapes []string     `json:"shapes"`
	// control traffic: a Reset before the first request, or after ResetAt responses once everything outstanding
	// has been answered (drivers halted meanwhile). The controller must behave like a freshly built one afterwards.
	ResetFirst bool `json:"reset_before_traffic,omitempty"`
	ResetAt    int  `json:"reset_after_responses,omitempty"`
}

var presets = []string{"DDR3", "DDR4", "DDR5", "HBM2", "HBM3", "GDDR6"}

func presetSpec(name string) dram.Spec {
	switch name {
	case "DDR3":
		return dram.DefaultSpec()
	case "DDR4":
		return dram.DDR4Spec
	case "DDR5":
		return dram.DDR5Spec
	case "HBM2":
		return dram.HBM2Spec
	case "HBM3":
		return dram.HBM3Spec
	case "GDDR6":
		return dram.GDDR6Spec
	}
	panic("unknown preset " + name)
}

// inputSpec is the Spec handed to the DRAM builder for a case.
func inputSpec(cc caseCfg) dram.Spec {
	mc := cc.Stack.Mem
	sp := presetSpec(mc.Preset)
	sp.PagePolicy = dram.PagePolicyOpen
	if mc.ClosePage {
		sp.PagePolicy = dram.PagePolicyClose
	}
	if mc.TransQ > 0 {
		sp.TransactionQueueSize = mc.TransQ
	}
	if mc.CmdQ > 0 {
		sp.CommandQueueCapacity = mc.CmdQ
	}
	switch cc.Var.Kind {
	case "rwsplit":
		sp.ReadQueueSize, sp.WriteQueueSize = cc.Var.RQ, cc.Var.WQ
		sp.WriteHighWatermark, sp.WriteLowWatermark = cc.Var.WHi, cc.Var.WLo
	case "ranks2":
		sp.NumRank = cc.Var.Ranks
	case "tal":
		sp.TAL = cc.Var.TAL
	case "names":
		sp.Scheduler, sp.AddrMapper = "FRFCFS", "default"
	}
	return sp
}

// geom is the address geometry used only to shape workloads.
type geom struct{ unit, rowBytes, rowStride, nbg, nb, maxRow uint64 }

func geomOf(sp dram.Spec) geom {
	var g geom
	g.unit = uint64(sp.BusWidth / 8 * sp.BurstLength)
	g.rowBytes = g.unit * uint64(sp.NumCol/sp.BurstLength)
	g.nbg = uint64(sp.NumBankGroup)
	g.nb = uint64(sp.NumBankGroup * sp.NumBank * sp.NumRank)
	g.rowStride = g.rowBytes * g.nb
	capacity := uint64(sp.NumCol*sp.NumRow*sp.DeviceWidth/8) * uint64(sp.NumBank*(sp.BusWidth/sp.DeviceWidth)*sp.NumRank)
	g.maxRow = capacity / g.rowStride
	return g
}

func pick[T any](rng *rand.Rand, xs ...T) T { return xs[rng.Intn(len(xs))] }

// genCase draws one configuration + workload. idx walks preset x page policy
// so every batch covers all twelve combinations.
func genCase(rng *rand.Rand, idx, numReqs int) caseCfg {
	var cc caseCfg
	mc := sim.MemCfg{Kind: "dram", Preset: presets[idx%len(presets)], ClosePage: (idx/len(presets))%2 == 1}
	mc.TransQ = pick(rng, 0, 2, 3, 4, 8, 16, 64)
	mc.CmdQ = pick(rng, 0, 1, 2, 4, 16)
	cc.Stack.Mem = mc
	cc.Stack.PortBuf = pick(rng, 1, 2, 4, 8)
	if rng.Intn(3) == 0 {
		switch pick(rng, "rwsplit", "rwsplit", "ranks2", "ranks2", "tal", "names") {
		case "rwsplit":
			v := variant{Kind: "rwsplit", RQ: 1 + rng.Intn(8), WQ: 1 + rng.Intn(8)}
			v.WHi = 1 + rng.Intn(v.WQ)
			v.WLo = rng.Intn(v.WHi)
			cc.Var = v
		case "ranks2":
			cc.Var = variant{Kind: "ranks2", Ranks: pick(rng, 2, 2, 4)}
		case "tal":
			if p := mc.Preset; p == "DDR3" || p == "DDR4" || p == "DDR5" {
				cl := presetSpec(p).TCL
				cc.Var = variant{Kind: "tal", TAL: pick(rng, 1, cl-2, cl-1)}
			}
		case "names":
			cc.Var = variant{Kind: "names"}
		}
	}
	sp := inputSpec(cc)
	g := geomOf(sp)
	tq := uint64(sp.TransactionQueueSize)

	nd := 1 + rng.Intn(3)
	for d := 0; d < nd; d++ {
		ds := sim.DriverSpec{Seed: rng.Uint64(), NumReqs: numReqs / nd}
		ds.MaxInflight = pick(rng, 1, 4, 16, 64)
		ds.IssuePerTick = 1 + rng.Intn(4)
		ds.ReadPct = pick(rng, 0, 30, 50, 50, 70, 100)
		ds.FullPct = pick(rng, 0, 30)
		ds.MaskPct = pick(rng, 0, 30)
		ds.IdlePct = pick(rng, 0, 0, 20, 60)
		ds.Freq = pick(rng, 500*timing.MHz, 1*timing.GHz, 1*timing.GHz, 3*timing.GHz)
		// a request of LineSize bytes must split into fewer than TransQ sub-transactions
		lines := []uint64{1}
		for _, k := range []uint64{2, 4} {
			if k < tq {
				lines = append(lines, k)
			}
		}
		ds.LineSize = g.unit * lines[rng.Intn(len(lines))]
		baseRow := uint64(d)*512 + uint64(rng.Intn(256))
		base := baseRow * g.rowStride
		var span, stride uint64
		shape := pick(rng, "onebank", "onebank", "fewbanks", "allbanks", "multirow", "samegroup")
		switch shape {
		case "onebank": // one row of one bank; PIDs = other rows of the same bank
			base += uint64(rng.Intn(int(g.nb))) * g.rowBytes
			span = g.rowBytes
			stride = g.rowStride * uint64(1+rng.Intn(3))
		case "samegroup": // one row; PIDs = other banks of the same bank group (or rank)
			span = g.rowBytes
			stride = g.rowBytes * g.nbg
			if stride*4 > g.rowStride {
				stride = g.rowStride
			}
		case "fewbanks": // the same row in 2..4 adjacent banks
			k := uint64(2 + rng.Intn(3))
			base += uint64(rng.Intn(int(g.nb-k+1))) * g.rowBytes
			span = k * g.rowBytes
			stride = g.rowStride * uint64(1+rng.Intn(3))
		case "allbanks": // the same row in every bank (and rank)
			span = g.rowStride
			stride = g.rowStride * uint64(1+rng.Intn(3))
		case "multirow":
			m := uint64(2 + rng.Intn(7))
			span = m * g.rowStride
			stride = span * uint64(1+rng.Intn(3))
		}
		ds.AddrBase = base
		ds.NumLines = span / ds.LineSize
		if rng.Intn(3) == 0 { // few hot lines: many row hits
			ds.NumLines = min(ds.NumLines, uint64(pick(rng, 4, 8, 32)))
		}
		if rng.Intn(3) != 0 {
			ds.NumPIDs = 2 + rng.Intn(3)
			ds.PIDStride = stride
		}
		cc.Stack.Drivers = append(cc.Stack.Drivers, ds)
		cc.Shapes = append(cc.Shapes, fmt.Sprintf("%s/pids%d", shape, ds.NumPIDs))
	}
	switch rng.Intn(4) {
	case 0:
		cc.ResetFirst = true
	case 1:
		cc.ResetAt = 20 + rng.Intn(numReqs/2)
	}
	cc.Stack.WithCtrl = cc.ResetFirst || cc.ResetAt > 0
	return cc
}

// build assembles the case: plain presets through sim.BuildStack, variants
// through the same wiring with a tweaked Spec.
func build(cc caseCfg, dir string) *sim.Stack {
	if cc.Var.Kind == "" {
		return sim.BuildStack(cc.Stack, dir)
	}
	cfg := cc.Stack
	s := &sim.Stack{Cfg: cfg, Dir: dir}
	s.Sim = sim.NewSim(dir, false)
	s.Engine = s.Sim.GetEngine().(*timing.SerialEngine)
	pb := cfg.PortBuf
	c := dram.MakeBuilder().WithRegistrar(s.Sim).WithSpec(inputSpec(cc)).Build("Mem0")
	for _, n := range []string{"Top", "Control"} {
		p := modeling.MakePortBuilder().WithRegistrar(s.Sim).WithComponent(c).
			WithSpec(modeling.PortSpec{BufSize: pb}).Build(n)
		c.AssignPort(n, p)
	}
	s.Mems = append(s.Mems, c)
	s.Storages = append(s.Storages, c.Resources().Storage)
	conn := directconnection.MakeBuilder().WithRegistrar(s.Sim).Build("Conn")
	s.Conns = append(s.Conns, conn)
	conn.PlugIn(c.GetPortByName("Top"))
	for i, ds := range cfg.Drivers {
		ds.Dsts = []string{string(c.GetPortByName("Top").AsRemote())}
		ds.Interleave = 4096
		d := sim.BuildDriver(s.Sim, fmt.Sprintf("Driver%d", i), ds, pb)
		s.Drivers = append(s.Drivers, d)
		conn.PlugIn(d.GetPortByName("Mem"))
	}
	if cfg.WithCtrl {
		s.Ctrl = sim.BuildCtrlDriver(s.Sim, "CtrlDriver", pb)
		cconn := directconnection.MakeBuilder().WithRegistrar(s.Sim).Build("CtrlConn")
		s.Conns = append(s.Conns, cconn)
		cconn.PlugIn(s.Ctrl.GetPortByName("Ctrl"))
		cconn.PlugIn(c.GetPortByName("Control"))
	}
	return s
}

var cur *monitor

func main() {
	kit.Main(kit.Prop{
		ID:    "C22",
		Level: "exploration",
		Rule: "each case is one DRAM controller (preset DDR3/DDR4/DDR5/HBM2/HBM3/GDDR6 x open/close page, walked round-robin; PRNG-drawn transaction/command queue sizes, " +
			"port buffers, and in a third of the cases a Spec variant: split read/write queues with write-drain watermarks, 2-4 ranks, additive latency, explicit scheduler/mapper names) " +
			"under 1-3 scripted drivers whose address windows are shaped from the geometry (one row of one bank, same row in adjacent banks / all banks, several rows, same bank group; " +
			"per-PID row or bank offsets create row conflicts), random read/write/masked mixes and issue rates. Every issued command (hook H3) is judged by an independent bank state machine " +
			"and JEDEC separations computed from the Spec. Non-trivial: all requests answered, >= 50 column commands, >= 1 ACT and >= 100 separation checks evaluated; distinct by configuration JSON",
		Assumptions: []string{
			"the only registered scheduler (FRFCFS) and address mapper (default) are exercised, by default and by explicit name; NumChannel = 1 (the builder refuses more)",
			"a request splits into fewer sub-transactions than TransactionQueueSize (the controller refuses larger ones by panic)",
			"separations are measured in controller clock cycles of virtual time (time / period); refresh is a global stall without commands (documented deviation D2) and is not judged",
			"a run in which no response arrives during 2e5 controller cycles of virtual time while requests are outstanding is reported as unanswered (bounded-progress restatement)",
		},
		Plan: func(tier string, seed int64) []kit.Batch {
			nb, n, nreq := 16, 12, 400
			if tier == "thorough" {
				nb, n, nreq = 48, 100, 800
			}
			var bs []kit.Batch
			for i := 0; i < nb; i++ {
				bs = append(bs, kit.Batch{Name: fmt.Sprintf("dram%d", i), Seed: seed*104729 + int64(i), N: n,
					Params: kit.MkParams(params{NumReqs: nreq})})
			}
			return bs
		},
		Run: run,
		MustObserve: []string{
			"cmd/ACT", "cmd/PRE", "cmd/RD", "cmd/WR", "cmd/RDA", "cmd/WRA",
			"row_hits(column_cmd_on_already_used_open_row)", "row_conflict_precharges", "acts_while_other_bank_open",
			"tight/act-rd(tRCD)", "tight/act-wr(tRCD)", "tight/act-pre(tRAS)", "tight/pre-act(tRP)", "tight/act-act-same-bank(tRC)",
			"tight/act-act-other-bank(tRRD)", "tight/fifth-act(tFAW)", "tight/rd-pre(tRTP)", "tight/wr-pre(tWR)",
			"tight/wra-act(tWR+tRP)", "tight/rd-rd(tCCD)", "tight/wr-wr(tCCD)",
			"reads_checked_against_flat_memory", "column_cmds_matched_to_requested_access_units",
			"resets_before_traffic", "resets_mid_run_at_quiescence", "cmds_after_a_reset",
		},
	})
}

func run(b kit.Batch, r *kit.R) {
	var p params
	b.P(&p)
	dram.VerifSetCmdObserver(func(v dram.VerifCmd) {
		if cur != nil {
			cur.on(v)
		}
	})
	r.ForEach(b.N, func(c *kit.Case) {
		cc := genCase(c.Rng, c.Index, p.NumReqs)
		c.Desc(cc)
		runCase(c, cc)
	})
}

func runCase(c *kit.Case, cc caseCfg) {
	r := c.R
	s := build(cc, r.WorkDir)
	defer s.Close()
	comp := s.Mems[0].(*dram.Comp)
	m := newMonitor(c, cc, comp.Name(), comp.Spec())
	cur = m
	defer func() { cur = nil }()

	total, nRsp, halted := 0, 0, false
	for _, d := range s.Drivers {
		total += d.Spec().NumReqs
		d := d
		d.OnError = func(key, msg string) {
			c.Fail("dram/data/"+key, map[string]any{"msg": msg, "driver": d.Name(), "cfg": cc})
		}
		d.OnIssue = func(req sim.InflightReq, _ messaging.Msg) { m.expect(req) }
		d.OnRsp = func(sim.RspEvent) {
			nRsp++
			if cc.ResetAt > 0 && nRsp == cc.ResetAt {
				for _, x := range s.Drivers {
					x.State.Halt = true
				}
				halted = true
			}
		}
	}
	// reset sends a Reset to the idle controller and waits for the acknowledgment; the monitor forgets its
	// bank and timing state, as the controller is documented to.
	reset := func(when string) bool {
		ctrl := comp.GetPortByName("Control").AsRemote()
		n := len(s.Ctrl.Acks)
		s.Ctrl.Send(sim.CtrlCmd{Dst: ctrl, Command: memcontrolprotocol.CmdReset})
		for i := 0; i < 10 && len(s.Ctrl.Acks) == n; i++ {
			if err := s.Engine.RunUntil(s.Engine.CurrentTime() + timing.VTimeInPicoSec(2000)*comp.Spec().Freq.Period()); err != nil {
				c.Failf("dram/engine-error", "%v", err)
				return false
			}
		}
		if len(s.Ctrl.Acks) != n+1 || !s.Ctrl.Acks[n].Rsp.Success {
			c.Fail("dram/reset-not-acknowledged", map[string]any{"when": when, "acks": s.Ctrl.Acks[n:], "cfg": cc})
			return false
		}
		m.reset()
		r.Count("resets_"+when, 1)
		return true
	}
	if cc.ResetFirst {
		if !reset("before_traffic") {
			return
		}
	}
	s.Start()
	// bounded progress: stop when everything is answered, or when no response
	// arrived during 2e5 controller cycles of virtual time (or the event queue
	// drained) although requests are outstanding
	chunk := timing.VTimeInPicoSec(20000) * comp.Spec().Freq.Period()
	completed := func() (n int, all bool) {
		all = true
		for _, d := range s.Drivers {
			n += d.State.Completed
			all = all && d.Done()
		}
		return
	}
	limit := timing.VTimeInPicoSec(0)
	for last, stale := -1, 0; stale < 10; {
		limit += chunk
		if err := s.Engine.RunUntil(limit); err != nil {
			c.Failf("dram/engine-error", "%v", err)
			break
		}
		n, all := completed()
		if all {
			break
		}
		if halted {
			out := 0
			for _, d := range s.Drivers {
				out += len(d.State.Inflight)
			}
			if out == 0 {
				halted = false
				if !reset("mid_run_at_quiescence") {
					return
				}
				limit = s.Engine.CurrentTime()
				for _, d := range s.Drivers {
					d.State.Halt = false
					d.TickLater()
				}
				last, stale = n, 0
				continue
			}
		}
		if n == last {
			stale++
		} else {
			last, stale = n, 0
		}
	}
	done := true
	for _, d := range s.Drivers {
		if !d.Done() {
			done = false
			c.Fail("dram/unanswered", map[string]any{
				"msg": fmt.Sprintf("%s: issued %d of %d, %d outstanding at t=%d (event queue empty: %v)", d.Name(), d.State.Issued,
					d.Spec().NumReqs, len(d.State.Inflight), s.Engine.CurrentTime(), s.Engine.CurrentTime() < limit),
				"outstanding": d.State.Inflight, "cfg": cc, "last_cmds": m.recent()})
		}
		r.Count("responses_checked", int64(d.State.Completed))
		r.Count("reads_checked_against_flat_memory", int64(d.State.Reads))
		r.Count("writes_issued", int64(d.State.Writes))
	}
	st := comp.State
	m.finish(done, st.TotalActivates+st.TotalPrecharges+st.TotalReadCommands+st.TotalWriteCommands)

	mc := cc.Stack.Mem
	r.Distinct("preset_x_policy_x_queues", fmt.Sprintf("%s/%v/%d/%d/%s", mc.Preset, mc.ClosePage, mc.TransQ, mc.CmdQ, cc.Var.Kind))
	r.Distinct("preset_x_policy", fmt.Sprintf("%s/%v", mc.Preset, mc.ClosePage))
	r.Count("cases/"+mc.Preset, 1)
	if cc.Var.Kind != "" {
		r.Count("cases_variant/"+cc.Var.Kind, 1)
	}
	if done && m.nCol >= 50 && m.kinds["ACT"] >= 1 && m.nChecked >= 100 {
		j, _ := json.Marshal(cc)
		c.Nontrivial(string(j))
	}
	c.Sample(map[string]any{"cfg": cc, "limits_cycles": m.L, "commands": m.kinds, "first_commands": m.first,
		"tight_separations": m.tightLocal, "end_time_ps": s.Engine.CurrentTime()})
}
