package main

import (
	"fmt"
	"sort"

	"verifharness/kit"
	"verifharness/kit/sim"

	"github.com/sarchlab/akita/v5/mem/dram"
)

// limits holds the minimum separations, in controller cycles, derived from the
// Spec fields by the JEDEC definitions (see the table in the manifest / final
// report). Nothing here reads the controller's generated timing table.
type limits struct {
	ActRD  int64 `json:"act_rd"`  // ACT -> RD/RDA same bank: tRCD - tAL (tRCDRD for GDDR/HBM)
	ActWR  int64 `json:"act_wr"`  // ACT -> WR/WRA same bank: tRCD - tAL (tRCDWR for GDDR/HBM)
	RAS    int64 `json:"ras"`     // ACT -> PRE same bank
	RP     int64 `json:"rp"`      // PRE -> ACT same bank
	RC     int64 `json:"rc"`      // ACT -> ACT same bank: tRAS + tRP
	RRDS   int64 `json:"rrd_s"`   // ACT -> ACT other bank group, same rank
	RRDL   int64 `json:"rrd_l"`   // ACT -> ACT same bank group, other bank
	FAW    int64 `json:"faw"`     // 1st -> 5th ACT in a rank (0 = not configured)
	RdPre  int64 `json:"rd_pre"`  // RD -> PRE same bank: tAL + tRTP
	WrPre  int64 `json:"wr_pre"`  // WR -> PRE same bank: tWL + burst + tWR
	RdaAct int64 `json:"rda_act"` // RDA -> ACT same bank: tAL + tRTP + tRP
	WraAct int64 `json:"wra_act"` // WRA -> ACT same bank: tWL + burst + tWR + tRP
	CCDS   int64 `json:"ccd_s"`   // RD->RD / WR->WR other bank group, same rank
	CCDL   int64 `json:"ccd_l"`   // RD->RD / WR->WR same bank group
	WtrS   int64 `json:"wtr_s"`   // WR -> RD other bank group, same rank: tWL + burst + tWTR_S
	WtrL   int64 `json:"wtr_l"`   // WR -> RD same bank group: tWL + burst + tWTR_L
	RL     int64 `json:"rl"`      // tAL + tCL
	WL     int64 `json:"wl"`      // tAL + tCWL
	Burst  int64 `json:"burst"`   // data-bus cycles of one burst (normalised Spec.BurstCycle)
}

func limitsFrom(preset string, sp dram.Spec) limits {
	i := func(v int) int64 { return int64(v) }
	var l limits
	l.RL, l.WL, l.Burst = i(sp.TAL+sp.TCL), i(sp.TAL+sp.TCWL), i(sp.BurstCycle)
	l.ActRD, l.ActWR = i(sp.TRCD-sp.TAL), i(sp.TRCD-sp.TAL)
	if preset == "HBM2" || preset == "HBM3" || preset == "GDDR6" {
		l.ActRD, l.ActWR = i(sp.TRCDRD), i(sp.TRCDWR)
	}
	l.RAS, l.RP, l.RC = i(sp.TRAS), i(sp.TRP), i(sp.TRAS+sp.TRP)
	l.RRDS, l.RRDL = i(sp.TRRDS), i(sp.TRRDL)
	l.CCDS, l.CCDL = i(sp.TCCDS), i(sp.TCCDL)
	l.WtrS, l.WtrL = l.WL+l.Burst+i(sp.TWTRS), l.WL+l.Burst+i(sp.TWTRL)
	if sp.NumBankGroup == 1 {
		// no bank groups: a single tRRD/tCCD/tWTR exists; which of the two
		// fields carries it is a convention, so only the smaller is demanded
		l.RRDS = min(l.RRDS, l.RRDL)
		l.RRDL = l.RRDS
		l.CCDS = min(l.CCDS, l.CCDL)
		l.CCDL = l.CCDS
		l.WtrS = min(l.WtrS, l.WtrL)
		l.WtrL = l.WtrS
	}
	l.FAW = i(sp.TFAW)
	l.RdPre = i(sp.TAL + sp.TRTP)
	l.WrPre = l.WL + l.Burst + i(sp.TWR)
	l.RdaAct = l.RdPre + l.RP
	l.WraAct = l.WrPre + l.RP
	return l
}

type bankKey struct{ rank, bg, bank uint64 }

type bank struct {
	open        bool
	row         uint64
	act         int64 // last ACT
	pre         int64 // last explicit PRE
	rd, wr      int64 // last RD(A)/WR(A) since the last ACT
	rda, wra    int64 // last RDA / WRA
	colsSinceAC int
}

type window struct {
	start, end int64
	read       bool
	rank       uint64
	cmd        string
}

type unitKey struct {
	write                    bool
	rank, bg, bank, row, col uint64
}

type monitor struct {
	c      *kit.Case
	r      *kit.R
	cc     caseCfg
	comp   string
	sp     dram.Spec
	L      limits
	period uint64

	banks    map[bankKey]*bank
	rankActs map[uint64][]int64
	lastRD   map[[2]uint64]int64 // (rank, bank group) -> last RD/RDA
	lastWR   map[[2]uint64]int64
	windows  []window
	lastCyc  int64
	lastTick uint64
	nCmd     uint64
	nCmdBase uint64 // commands seen before the last Reset (the controller's statistics restart there)
	wasReset bool

	kinds      map[string]int
	nCol       int
	nChecked   int
	tightLocal map[string]int
	first      []string
	ring       []string
	units      map[unitKey]int // requested minus issued column accesses
	nUnits     int
}

func newMonitor(c *kit.Case, cc caseCfg, comp string, sp dram.Spec) *monitor {
	return &monitor{c: c, r: c.R, cc: cc, comp: comp, sp: sp, L: limitsFrom(cc.Stack.Mem.Preset, sp),
		period: uint64(sp.Freq.Period()),
		banks:  map[bankKey]*bank{}, rankActs: map[uint64][]int64{},
		lastRD: map[[2]uint64]int64{}, lastWR: map[[2]uint64]int64{}, lastCyc: -1,
		kinds: map[string]int{}, tightLocal: map[string]int{}, units: map[unitKey]int{}}
}

func (m *monitor) recent() []string { return m.ring }

// reset: the controller was Reset while idle; it is documented to be a freshly built controller afterwards
// (all banks closed, no timing history, statistics zero), so the monitor forgets the same things.
func (m *monitor) reset() {
	m.banks = map[bankKey]*bank{}
	m.rankActs = map[uint64][]int64{}
	m.lastRD = map[[2]uint64]int64{}
	m.lastWR = map[[2]uint64]int64{}
	m.windows = nil
	m.nCmdBase = m.nCmd
	m.wasReset = true
	m.ring = append(m.ring, "--- Reset acknowledged ---")
}

func (m *monitor) fail(key string, cmd string, format string, a ...any) {
	m.c.Fail(key, map[string]any{"msg": fmt.Sprintf(format, a...), "cmd": cmd, "limits_cycles": m.L,
		"preceding_cmds": append([]string(nil), m.ring...), "cfg": m.cc})
}

// sep judges one minimum separation.
func (m *monitor) sep(name, cmd string, now, prev, minSep int64, what string) {
	if prev < 0 {
		return
	}
	m.nChecked++
	m.r.Count("checked/"+name, 1)
	d := now - prev
	if d < minSep {
		m.fail("dram/timing/"+name, cmd, "%s: %d cycles after the %s at cycle %d, minimum %d", name, d, what, prev, minSep)
	} else if d == minSep {
		m.tightLocal[name]++
		m.r.Count("tight/"+name, 1)
	}
}

func (m *monitor) bank(k bankKey) *bank {
	b := m.banks[k]
	if b == nil {
		b = &bank{act: -1, pre: -1, rd: -1, wr: -1, rda: -1, wra: -1}
		m.banks[k] = b
	}
	return b
}

func (m *monitor) on(v dram.VerifCmd) {
	if v.Comp != m.comp {
		return
	}
	now := int64(v.Time / m.period)
	k := bankKey{v.Rank, v.BankGroup, v.Bank}
	desc := fmt.Sprintf("@%d %s r%d/g%d/b%d row%d col%d", now, v.Kind, v.Rank, v.BankGroup, v.Bank, v.Row, v.Column)
	defer func() {
		if len(m.first) < 24 {
			m.first = append(m.first, desc)
		}
		m.ring = append(m.ring, desc)
		if len(m.ring) > 24 {
			m.ring = m.ring[1:]
		}
	}()
	m.kinds[v.Kind]++
	m.r.Count("cmd/"+v.Kind, 1)
	m.nCmd++
	if m.wasReset {
		m.r.Count("cmds_after_a_reset", 1)
	}

	// command bus: at most one command per controller cycle, time never runs back
	if now < m.lastCyc {
		m.fail("dram/cmd-bus/time-runs-backwards", desc, "command at cycle %d after a command at cycle %d", now, m.lastCyc)
	} else if now == m.lastCyc {
		m.fail("dram/cmd-bus/two-commands-in-one-cycle", desc, "second command in cycle %d", now)
	}
	m.lastCyc, m.lastTick = now, v.Tick

	b := m.bank(k)
	switch v.Kind {
	case "ACT":
		if b.open {
			m.fail("dram/state/act-on-open-bank", desc, "ACT while row %d of the bank is open (no precharge in between)", b.row)
		}
		m.sep("act-act-same-bank(tRC)", desc, now, b.act, m.L.RC, "ACT to this bank")
		m.sep("pre-act(tRP)", desc, now, b.pre, m.L.RP, "PRE to this bank")
		m.sep("rda-act(tRTP+tRP)", desc, now, b.rda, m.L.RdaAct, "RDA to this bank")
		m.sep("wra-act(tWR+tRP)", desc, now, b.wra, m.L.WraAct, "WRA to this bank")
		others := 0
		for ok, ob := range m.banks {
			if ok == k || ok.rank != k.rank {
				continue
			}
			if ob.open {
				others++
			}
			lim := m.L.RRDS
			if ok.bg == k.bg {
				lim = m.L.RRDL
			}
			m.sep("act-act-other-bank(tRRD)", desc, now, ob.act, lim, fmt.Sprintf("ACT to g%d/b%d", ok.bg, ok.bank))
		}
		if others > 0 {
			m.r.Count("acts_while_other_bank_open", 1)
		}
		m.r.Max("max_banks_open_in_a_rank", int64(others+1))
		h := m.rankActs[k.rank]
		if m.L.FAW > 0 && len(h) >= 4 {
			m.sep("fifth-act(tFAW)", desc, now, h[len(h)-4], m.L.FAW, "fourth-last ACT of the rank")
		}
		h = append(h, now)
		if len(h) > 4 {
			h = h[1:]
		}
		m.rankActs[k.rank] = h
		b.open, b.row, b.act, b.rd, b.wr, b.colsSinceAC = true, v.Row, now, -1, -1, 0

	case "RD", "RDA", "WR", "WRA":
		isRead := v.Kind[0] == 'R'
		m.nCol++
		if !b.open {
			m.fail("dram/state/column-cmd-on-closed-bank", desc, "%s to a bank with no open row", v.Kind)
		} else if b.row != v.Row {
			m.fail("dram/state/column-cmd-on-wrong-row", desc, "%s for row %d while row %d is open", v.Kind, v.Row, b.row)
		}
		if isRead {
			m.sep("act-rd(tRCD)", desc, now, b.act, m.L.ActRD, "ACT to this bank")
		} else {
			m.sep("act-wr(tRCD)", desc, now, b.act, m.L.ActWR, "ACT to this bank")
		}
		if b.colsSinceAC > 0 {
			m.r.Count("row_hits(column_cmd_on_already_used_open_row)", 1)
		}
		b.colsSinceAC++
		for g := uint64(0); g < uint64(m.sp.NumBankGroup); g++ {
			rk := [2]uint64{k.rank, g}
			ccd, wtr := m.L.CCDS, m.L.WtrS
			if g == k.bg {
				ccd, wtr = m.L.CCDL, m.L.WtrL
			}
			if isRead {
				if t, ok := m.lastRD[rk]; ok {
					m.sep("rd-rd(tCCD)", desc, now, t, ccd, fmt.Sprintf("RD in bank group %d", g))
				}
				if t, ok := m.lastWR[rk]; ok {
					m.sep("wr-rd(tWL+burst+tWTR)", desc, now, t, wtr, fmt.Sprintf("WR in bank group %d", g))
				}
			} else if t, ok := m.lastWR[rk]; ok {
				m.sep("wr-wr(tCCD)", desc, now, t, ccd, fmt.Sprintf("WR in bank group %d", g))
			}
		}
		// data bus: the bursts of any two column commands must not overlap
		w := window{read: isRead, rank: k.rank, cmd: desc}
		if isRead {
			w.start = now + m.L.RL
		} else {
			w.start = now + m.L.WL
		}
		w.end = w.start + m.L.Burst
		for _, o := range m.windows {
			m.nChecked++
			if w.start < o.end && o.start < w.end {
				rel := "same-rank"
				if o.rank != w.rank {
					rel = "other-rank"
				}
				kind := map[bool]string{true: "rd", false: "wr"}
				m.fail(fmt.Sprintf("dram/data-bus-overlap/%s-%s-%s", kind[o.read], kind[w.read], rel), desc,
					"data burst [%d,%d) overlaps the burst [%d,%d) of %q (RL=%d WL=%d burst=%d)", w.start, w.end, o.start, o.end, o.cmd, m.L.RL, m.L.WL, m.L.Burst)
			} else if w.start == o.end {
				m.r.Count("tight/data-bus-back-to-back", 1)
			}
		}
		m.r.Count("checked/data-bus-overlap", int64(len(m.windows)))
		m.windows = append(m.windows, w)
		if len(m.windows) > 12 {
			m.windows = m.windows[1:]
		}
		if isRead {
			m.lastRD[[2]uint64{k.rank, k.bg}] = now
			b.rd = now
		} else {
			m.lastWR[[2]uint64{k.rank, k.bg}] = now
			b.wr = now
		}
		switch v.Kind {
		case "RDA":
			b.open, b.rda = false, now
		case "WRA":
			b.open, b.wra = false, now
		}
		m.units[unitKey{!isRead, v.Rank, v.BankGroup, v.Bank, v.Row, v.Column}]--

	case "PRE":
		if !b.open {
			// JEDEC treats PRE to an idle bank as a NOP; counted, not judged
			m.r.Count("pre_on_closed_bank(not_judged)", 1)
		} else {
			m.r.Count("row_conflict_precharges", 1)
		}
		m.sep("act-pre(tRAS)", desc, now, b.act, m.L.RAS, "ACT to this bank")
		m.sep("rd-pre(tRTP)", desc, now, b.rd, m.L.RdPre, "RD to this bank")
		m.sep("wr-pre(tWR)", desc, now, b.wr, m.L.WrPre, "WR to this bank")
		b.open, b.pre = false, now

	default:
		// REF/REFb/SREF*: the model never issues them (refresh is a stall); not judged
		m.r.Count("other_cmds(not_judged)", 1)
	}
}

// expect records the access units a driver request must touch, decoded with
// the position/mask fields of the built Spec.
func (m *monitor) expect(req sim.InflightReq) {
	unit := uint64(1) << m.sp.Log2AccessUnitSize
	sp := &m.sp
	for a := req.Addr &^ (unit - 1); a < req.Addr+req.Len; a += unit {
		u := unitKey{write: !req.IsRead,
			rank: (a >> sp.RankPos) & sp.RankMask, bg: (a >> sp.BankGroupPos) & sp.BankGroupMask,
			bank: (a >> sp.BankPos) & sp.BankMask, row: (a >> sp.RowPos) & sp.RowMask, col: (a >> sp.ColPos) & sp.ColMask}
		m.units[u]++
		m.nUnits++
	}
}

func (m *monitor) finish(done bool, statCmds uint64) {
	if statCmds != m.nCmd-m.nCmdBase {
		m.fail("c22/hook-count-differs-from-controller-statistics", "", "hook saw %d commands (since the last Reset), State counters sum to %d", m.nCmd-m.nCmdBase, statCmds)
	}
	if done {
		var bad []string
		for u, n := range m.units {
			if n != 0 {
				bad = append(bad, fmt.Sprintf("%+v: requested-issued=%d", u, n))
			}
		}
		sort.Strings(bad)
		if len(bad) > 0 {
			if len(bad) > 8 {
				bad = bad[:8]
			}
			m.fail("dram/column-cmds-differ-from-requested-accesses", "", "%d access units; mismatches: %v", m.nUnits, bad)
		} else {
			m.r.Count("column_cmds_matched_to_requested_access_units", int64(m.nUnits))
		}
	}
	m.r.Max("max_cmds_per_case", int64(m.nCmd))
	for name := range m.tightLocal {
		m.r.Distinct("preset_x_tight_constraint", m.cc.Stack.Mem.Preset+"/"+name)
	}
}
