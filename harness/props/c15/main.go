// C15 Pipelines conserve items, respect lanes and never strand an item:
// queueing.Pipeline[int] is driven tick by tick with unique item ids, random
// accept patterns and sink-availability patterns; the Stages() snapshot and the
// sink pushes are monitored after every step, then the pipeline is drained.
package main

import (
	"fmt"
	"io"
	"log"
	"sort"
	"strconv"
	"strings"

	"verifharness/kit"

	"github.com/sarchlab/akita/v5/queueing"
)

type params struct {
	Ticks int `json:"ticks"`
}

func main() {
	kit.Main(kit.Prop{
		ID:    "C15",
		Level: "exploration",
		Rule: "a case is one pipeline configuration (width 1..4 or occasionally 5..20, stages 1..6 or occasionally 7..12, per-item delay 0..maxDelay with maxDelay 0..3) driven for `ticks` ticks with a " +
			"PRNG accept pattern (only while CanAccept) and one of four sink patterns (always room / random per-tick room / long blocked bursts / a real bounded queueing.Buffer drained at random), followed by a drain with an always-ready sink; " +
			"after every accept phase and every Tick the Stages() snapshot is checked (slot bounds, one item per (lane,stage), inside = accepted - emitted) and every sink push is checked (exactly once, only when CanPush was true); " +
			"always-room cases additionally require latency == stages+delay for every item, one-lane cases require FIFO emission, and the drain must empty the pipeline within (stages+maxDelay)*(width*stages+1) ticks; " +
			"non-trivial when items overlapped in flight and were emitted and, for the three back-pressure patterns, an item was actually held back by the sink; distinct by (configuration, per-tick accept/room/emit trace)",
		Assumptions: []string{
			"stage count >= 1 and width >= 1 (a 0-stage pipeline has no slot to accept into; not constructed)",
			"Accept/AcceptWithDelay are called only while CanAccept() is true and delays are >= 0",
			"'eventually leaves' is decided as: leaves within (stages+maxDelay)*(width*stages+1) ticks of an always-ready sink",
			"latency under back-pressure is only counted (never below stages+delay is not part of the statement), Tick's boolean is judged only in the direction 'false implies nothing changed' (its doc comment)",
		},
		Plan: func(tier string, seed int64) []kit.Batch {
			nb, n, ticks := 12, 400, 200
			if tier == "thorough" {
				nb, n, ticks = 32, 10000, 400
			}
			var bs []kit.Batch
			for i := 0; i < nb; i++ {
				bs = append(bs, kit.Batch{Name: fmt.Sprintf("pipe%d", i), Seed: seed*1000 + int64(i), N: n,
					Params: kit.MkParams(params{Ticks: ticks})})
			}
			return bs
		},
		Run: run,
		MustObserve: []string{
			"items_accepted", "items_emitted", "exact_latency_judged", "items_with_delay_emitted",
			"item_held_at_last_stage_by_sink", "stall_propagated_upstream", "accept_refused_stage0_full",
			"dwell_ticks_observed", "one_lane_fifo_pairs_judged", "drains_completed_empty",
			"single_stage_cases", "single_stage_items_with_delay", "real_buffer_sink_cases", "max_lanes_in_use_reached_width",
		},
	})
}

// sink is the monitored destination of the pipeline.
type sink struct {
	room      int // pushes still allowed in this tick; <0 = unlimited
	buf       *queueing.Buffer[int]
	pushed    []int // ids pushed during the current tick
	noRoom    int   // PushTyped calls made while CanPush was false
	refusals  int   // CanPush()==false answers in this tick
	canPushes int
}

func (s *sink) CanPush() bool {
	s.canPushes++
	ok := s.room != 0
	if s.buf != nil {
		ok = s.buf.CanPush()
	}
	if !ok {
		s.refusals++
	}
	return ok
}

func (s *sink) PushTyped(v int) {
	if s.buf != nil {
		if !s.buf.CanPush() {
			s.noRoom++
			s.pushed = append(s.pushed, v)
			return
		}
		s.buf.PushTyped(v)
		s.pushed = append(s.pushed, v)
		return
	}
	if s.room == 0 {
		s.noRoom++
	} else if s.room > 0 {
		s.room--
	}
	s.pushed = append(s.pushed, v)
}

type item struct {
	acceptedAt int // number of ticks executed before the acceptance
	delay      int
	emittedAt  int // tick number (1-based) that pushed it; 0 = still inside
	stage, cl  int
	seen       bool
}

func run(b kit.Batch, r *kit.R) {
	log.SetOutput(io.Discard)
	var p params
	b.P(&p)
	r.ForEach(b.N, func(c *kit.Case) { runCase(c, r, p.Ticks) })
}

var sinkModes = []string{"always", "random", "bursty", "buffer"}

func runCase(c *kit.Case, r *kit.R, nTicks int) {
	rng := c.Rng
	width := 1 + rng.Intn(4)
	stages := 1 + rng.Intn(6)
	if rng.Intn(25) == 0 {
		width = 5 + rng.Intn(16)
	}
	if rng.Intn(25) == 0 {
		stages = 7 + rng.Intn(6)
	}
	maxDelay := rng.Intn(4)
	mode := sinkModes[rng.Intn(4)]
	acceptPct := []int{15, 40, 75, 100}[rng.Intn(4)]
	roomPct := []int{20, 50, 80}[rng.Intn(3)]
	cfg := map[string]any{"width": width, "stages": stages, "max_delay": maxDelay, "sink": mode,
		"accept_pct": acceptPct, "room_pct": roomPct, "ticks": nTicks}
	c.Desc(cfg)

	alwaysReady := mode == "always" // the sink never refuses during the whole case
	p := queueing.NewPipeline[int](width, stages)
	sk := &sink{room: -1}
	if mode == "buffer" {
		bb := queueing.NewBuffer[int]("sink", 1+rng.Intn(2*width))
		sk.buf = &bb
		r.Count("real_buffer_sink_cases", 1)
	}
	if stages == 1 {
		r.Count("single_stage_cases", 1)
	}

	items := map[int]*item{}
	inside := map[int]bool{}
	var acceptOrder, emitOrder []int
	nextID := 1
	tick := 0
	var trace strings.Builder
	fmt.Fprintf(&trace, "%d/%d/%d/%s:", width, stages, maxDelay, mode)
	var written []string
	failed := false
	fail := func(key, format string, a ...any) {
		failed = true
		c.Fail(key, map[string]any{"msg": fmt.Sprintf(format, a...), "config": cfg, "tick": tick, "first_ticks": written})
	}

	snapshotStr := func(st []queueing.PipelineStage[int]) string {
		ss := make([]string, len(st))
		for i, s := range st {
			ss[i] = fmt.Sprintf("item%d@lane%d,stage%d,left%d", s.Item, s.Lane, s.Stage, s.CycleLeft)
		}
		sort.Strings(ss)
		return strings.Join(ss, " ")
	}
	// checkSnapshot verifies slot bounds, lane exclusivity and conservation.
	checkSnapshot := func(when string) []queueing.PipelineStage[int] {
		st := p.Stages()
		slots := map[[2]int]int{}
		seen := map[int]bool{}
		stage0 := 0
		for _, s := range st {
			if s.Lane < 0 || s.Lane >= width || s.Stage < 0 || s.Stage >= stages || s.CycleLeft < 0 {
				fail("pipeline/slot-out-of-range", "%s: %s (width %d, stages %d)", when, snapshotStr(st), width, stages)
				return st
			}
			k := [2]int{s.Lane, s.Stage}
			if other, dup := slots[k]; dup {
				fail("pipeline/lane-conflict", "%s: items %d and %d both occupy lane %d of stage %d: %s", when, other, s.Item, s.Lane, s.Stage, snapshotStr(st))
				return st
			}
			slots[k] = s.Item
			if seen[s.Item] {
				fail("pipeline/item-duplicated", "%s: item %d appears twice: %s", when, s.Item, snapshotStr(st))
				return st
			}
			seen[s.Item] = true
			if !inside[s.Item] {
				fail("pipeline/item-duplicated", "%s: item %d is inside although it was never accepted or already emitted: %s", when, s.Item, snapshotStr(st))
				return st
			}
			if s.Stage == 0 {
				stage0++
			}
		}
		for id := range inside {
			if !seen[id] {
				fail("pipeline/item-lost", "%s: item %d (accepted before tick %d, delay %d) is neither inside nor emitted: %s", when, id, items[id].acceptedAt+1, items[id].delay, snapshotStr(st))
				return st
			}
		}
		if got := p.CanAccept(); got != (stage0 < width) {
			fail("pipeline/can-accept", "%s: CanAccept()=%v with %d of %d lanes of stage 0 occupied: %s", when, got, stage0, width, snapshotStr(st))
		}
		r.Max("max_items_in_flight", int64(len(st)))
		return st
	}

	var overlapped, heldBySink bool
	lanesUsedMax := 0
	// doTick runs one Tick with the sink prepared by the caller and checks it.
	doTick := func(acceptedNow int, roomDesc string) {
		before := p.Stages()
		waitingAtLast := 0
		for _, s := range before {
			if s.Stage == stages-1 && s.CycleLeft == 0 {
				waitingAtLast++
			}
			it := items[s.Item]
			it.stage, it.cl, it.seen = s.Stage, s.CycleLeft, true
		}
		if len(before) >= 2 {
			overlapped = true
		}
		sk.pushed, sk.noRoom, sk.refusals, sk.canPushes = sk.pushed[:0], 0, 0, 0
		moved := p.Tick(sk)
		tick++
		r.Count("ticks", 1)
		if sk.noRoom > 0 {
			fail("pipeline/push-without-room", "tick %d pushed %v although the sink had no room (room %s)", tick, sk.pushed, roomDesc)
			return
		}
		for _, id := range sk.pushed {
			it := items[id]
			if it == nil || !inside[id] {
				if it != nil && it.emittedAt != 0 {
					fail("pipeline/emitted-twice", "item %d pushed into the sink at tick %d and again at tick %d", id, it.emittedAt, tick)
				} else {
					fail("pipeline/emitted-unknown", "tick %d pushed item %d that was never accepted", tick, id)
				}
				return
			}
			delete(inside, id)
			it.emittedAt = tick
			emitOrder = append(emitOrder, id)
			r.Count("items_emitted", 1)
			if it.delay > 0 {
				r.Count("items_with_delay_emitted", 1)
			}
			lat := tick - it.acceptedAt
			r.Max("max_latency_ticks", int64(lat))
			if alwaysReady {
				r.Count("exact_latency_judged", 1)
				if lat != stages+it.delay {
					key := "pipeline/latency"
					fail(key, "always-ready sink: item %d (delay %d) accepted before tick %d left in tick %d: %d ticks, want stages+delay = %d", id, it.delay, it.acceptedAt+1, tick, lat, stages+it.delay)
					return
				}
			} else if lat < stages+it.delay {
				r.Count("left_earlier_than_stages_plus_delay_under_backpressure(not judged)", 1)
			}
		}
		if len(sk.pushed) < waitingAtLast {
			heldBySink = true
			r.Count("item_held_at_last_stage_by_sink", int64(waitingAtLast-len(sk.pushed)))
		}
		after := checkSnapshot(fmt.Sprintf("after tick %d", tick))
		if failed {
			return
		}
		if !moved {
			r.Count("ticks_reporting_no_movement", 1)
			if beforeStr, afterStr := snapshotStr(before), snapshotStr(after); len(sk.pushed) > 0 || afterStr != beforeStr {
				fail("pipeline/tick-false-but-moved", "Tick %d returned false but the content changed: %s -> %s, pushed %v", tick, beforeStr, afterStr, sk.pushed)
				return
			}
		}
		lanes := map[int]bool{}
		for _, s := range after {
			it := items[s.Item]
			lanes[s.Lane] = true
			if !it.seen {
				continue
			}
			switch {
			case s.CycleLeft < it.cl:
				r.Count("dwell_ticks_observed", 1)
			case s.Stage == it.stage && it.cl > 0:
				r.Count("dwell_not_decremented(observed only)", 1)
			case s.Stage == it.stage && s.Stage < stages-1:
				r.Count("stall_propagated_upstream", 1)
			}
		}
		if len(lanes) > lanesUsedMax {
			lanesUsedMax = len(lanes)
		}
		if tick%4 == 0 {
			r.Distinct("occupancy_states_sampled_every_4th_tick", occupancy(width, stages, after))
		}
		fmt.Fprintf(&trace, "%d,%s,%d;", acceptedNow, roomDesc, len(sk.pushed))
		if len(written) < 14 {
			written = append(written, fmt.Sprintf("tick %d: accepted %d, sink room %s, pushed %v, moved=%v, inside after: [%s]", tick, acceptedNow, roomDesc, append([]int(nil), sk.pushed...), moved, snapshotStr(after)))
		}
	}

	burstLeft, burstOpen := 0, true
	idleLeft := 0
	for t := 0; t < nTicks && !failed; t++ {
		// accept phase
		acceptedNow := 0
		if idleLeft > 0 {
			idleLeft--
		} else {
			if rng.Intn(40) == 0 {
				idleLeft = rng.Intn(3 * (stages + maxDelay + 1)) // let it run dry now and then
			}
			for k := 0; k < width; k++ {
				if rng.Intn(100) >= acceptPct {
					continue
				}
				if !p.CanAccept() {
					r.Count("accept_refused_stage0_full", 1)
					break
				}
				d := 0
				if maxDelay > 0 {
					d = rng.Intn(maxDelay + 1)
				}
				id := nextID
				nextID++
				if d == 0 && rng.Intn(2) == 0 {
					p.Accept(id)
				} else {
					p.AcceptWithDelay(id, d)
				}
				items[id] = &item{acceptedAt: tick, delay: d}
				inside[id] = true
				acceptOrder = append(acceptOrder, id)
				acceptedNow++
				r.Count("items_accepted", 1)
				if d > 0 {
					r.Count("items_accepted_with_delay", 1)
					if stages == 1 {
						r.Count("single_stage_items_with_delay", 1)
					}
				}
			}
			if acceptedNow > 0 {
				checkSnapshot(fmt.Sprintf("after accepting %d item(s) before tick %d", acceptedNow, tick+1))
				if failed {
					break
				}
			}
		}
		// sink room for this tick
		roomDesc := "unlimited"
		switch mode {
		case "random":
			sk.room = 0
			if rng.Intn(100) < roomPct {
				sk.room = 1 + rng.Intn(width)
			}
			roomDesc = fmt.Sprint(sk.room)
		case "bursty":
			if burstLeft == 0 {
				burstOpen = !burstOpen
				burstLeft = 1 + rng.Intn(2*(stages+2))
			}
			burstLeft--
			sk.room = 0
			if burstOpen {
				sk.room = -1
				if rng.Intn(3) == 0 {
					sk.room = 1
				}
			}
			roomDesc = fmt.Sprint(sk.room)
			if sk.room < 0 {
				roomDesc = "unlimited"
			}
		case "buffer":
			if rng.Intn(100) < roomPct {
				for k := rng.Intn(sk.buf.Capacity() + 1); k > 0; k-- {
					sk.buf.Pop()
				}
			}
			roomDesc = fmt.Sprintf("buffer %d/%d", sk.buf.Size(), sk.buf.Capacity())
		}
		doTick(acceptedNow, roomDesc)
	}

	// drain with an always-ready sink
	if !failed {
		sk.buf, sk.room = nil, -1
		bound := (stages + maxDelay) * (width*stages + 1)
		n := 0
		for ; n < bound && len(p.Stages()) > 0 && !failed; n++ {
			doTick(0, "unlimited")
		}
		r.Max("max_drain_ticks_used", int64(n))
		if !failed {
			if st := p.Stages(); len(st) > 0 {
				allDwell := stages == 1
				for _, s := range st {
					if items[s.Item].delay == 0 || s.CycleLeft != items[s.Item].delay {
						allDwell = false
					}
				}
				key := "pipeline/stranded"
				if allDwell {
					// the specific defect: a one-stage pipeline never counts a dwell delay down
					key = "pipeline/stranded-single-stage-dwell"
				}
				fail(key, "after %d drain ticks with an always-ready sink still inside: %s", n, snapshotStr(st))
			} else {
				r.Count("drains_completed_empty", 1)
			}
		}
	}
	// exactly once + one-lane FIFO (conservation at the end: everything accepted has left)
	if !failed {
		if len(emitOrder) != len(acceptOrder) {
			fail("pipeline/item-lost", "%d accepted, %d emitted after the drain", len(acceptOrder), len(emitOrder))
		} else if width == 1 {
			for i := range acceptOrder {
				if i > 0 {
					r.Count("one_lane_fifo_pairs_judged", 1)
				}
				if acceptOrder[i] != emitOrder[i] {
					fail("pipeline/fifo-one-lane", "one-lane pipeline emitted %v..., accepted %v...", emitOrder[max(0, i-2):min(len(emitOrder), i+3)], acceptOrder[max(0, i-2):min(len(acceptOrder), i+3)])
					break
				}
			}
		}
	}
	if lanesUsedMax == width {
		r.Count("max_lanes_in_use_reached_width", 1)
	}
	r.Distinct("configurations", fmt.Sprintf("%d/%d/%d/%s", width, stages, maxDelay, mode))
	if overlapped && len(emitOrder) > 0 && (mode == "always" || heldBySink) {
		c.Nontrivial(trace.String())
	}
	c.Sample(map[string]any{"config": cfg, "accepted": len(acceptOrder), "emitted": len(emitOrder), "first_ticks": written})
}

func occupancy(width, stages int, st []queueing.PipelineStage[int]) string {
	codes := make([]int, len(st))
	for i, s := range st {
		codes[i] = (s.Stage*64+s.Lane)*8 + s.CycleLeft
	}
	sort.Ints(codes)
	b := make([]byte, 0, 8+4*len(codes))
	b = strconv.AppendInt(b, int64(width*100+stages), 10)
	for _, c := range codes {
		b = append(b, ',')
		b = strconv.AppendInt(b, int64(c), 36)
	}
	return string(b)
}
