// C17 Flushing write-back caches makes backing memory current.
package main

import (
	"encoding/json"
	"fmt"
	"sort"

	"verifharness/kit"
	"verifharness/kit/sim"

	"github.com/sarchlab/akita/v5/mem"
	"github.com/sarchlab/akita/v5/mem/cache"
	"github.com/sarchlab/akita/v5/mem/cache/writeback"
	"github.com/sarchlab/akita/v5/mem/idealmemcontroller"
	"github.com/sarchlab/akita/v5/modeling"
	"github.com/sarchlab/akita/v5/noc/directconnection"
	"github.com/sarchlab/akita/v5/mem/memcontrolprotocol"
	"github.com/sarchlab/akita/v5/mem/memprotocol"
	"github.com/sarchlab/akita/v5/mem/vm"
	"github.com/sarchlab/akita/v5/messaging"
	"github.com/sarchlab/akita/v5/timing"
)

type params struct {
	NumReqs int  `json:"num_reqs"`
	Filter  bool `json:"filter"`
	Sibling bool `json:"sibling"`
}

func main() {
	kit.Main(kit.Prop{
		ID:    "C17",
		Level: "exploration",
		Rule: "whole-hierarchy cases: a PRNG-drawn hierarchy with at least one write-back cache runs a random request stream; at a PRNG-chosen response count the drivers stop issuing and every cache is drained top-down and then flushed top-down " +
			"(so evictions and fills are in flight when the drain starts); the backing storages are then read directly and compared with the flat reference at every written byte (bytes of still-unacknowledged writes may hold either value); " +
			"the hierarchy is then re-enabled, finishes its stream under the read-data monitor, and is drained, flushed and compared again. Filter cases: one write-back cache with two processes; after a drain the directory is snapshotted, a Flush with an address and/or PID filter is sent, " +
			"and the writes seen at the cache's Bottom port must be exactly the matching dirty lines, which become clean; other dirty lines stay dirty and every valid line stays valid. Sibling cases: two write-back caches share a lower level and their drivers write disjoint 4-byte words of the same lines (so both hold partially dirty copies of one line); after both are drained and flushed every written word must be in memory. Non-trivial: at least one dirty line was written back by the flush; distinct by (configuration, stop point, filter)",
		Assumptions: []string{"a flush address filter names a line by any address inside it (the flusher aligns addresses down); empty address list = all lines; PID 0 = all processes (as documented)"},
		Plan: func(tier string, seed int64) []kit.Batch {
			nb, n, nreq := 16, 4, 300
			if tier == "thorough" {
				nb, n, nreq = 48, 60, 1200
			}
			var bs []kit.Batch
			for i := 0; i < nb; i++ {
				bs = append(bs, kit.Batch{Name: fmt.Sprintf("flush%d", i), Seed: seed*9973 + int64(i), N: n, Params: kit.MkParams(params{NumReqs: nreq, Filter: i%4 == 1 || i%4 == 3, Sibling: i%4 == 2})})
			}
			return bs
		},
		Run: run,
		MustObserve: []string{"hierarchy_flushes_compared", "written_bytes_compared_with_storage", "dirty_lines_written_back_by_flush", "drains_started_with_requests_in_flight",
			"filter_flushes_checked", "filter_flushes_leaving_some_dirty_lines", "filter_flushes_after_an_earlier_flush_and_enable", "sibling_flushes_compared", "sibling_lines_dirty_in_both_caches"},
	})
}

func run(b kit.Batch, r *kit.R) {
	var p params
	b.P(&p)
	r.ForEach(b.N, func(c *kit.Case) {
		if p.Sibling {
			siblingCase(c, p)
		} else if p.Filter {
			filterCase(c, p)
		} else {
			hierarchyCase(c, p)
		}
	})
}

// sendAndRun sends control commands one at a time, running the engine to
// quiescence after each, and checks the acknowledgments.
func sendAndRun(c *kit.Case, s *sim.Stack, cfg any, cmds []sim.CtrlCmd, mustSucceed bool) bool {
	ok := true
	for _, cmd := range cmds {
		n := len(s.Ctrl.Acks)
		s.Ctrl.Send(cmd)
		if err := s.Engine.Run(); err != nil {
			c.Failf("flush/engine-error", "%v", err)
			return false
		}
		if len(s.Ctrl.Acks) != n+1 {
			c.Fail("flush/control-request-not-acknowledged", map[string]any{"cmd": fmt.Sprintf("%v -> %s", cmd.Command, cmd.Dst), "acks": len(s.Ctrl.Acks) - n, "cfg": cfg, "t": s.Engine.CurrentTime()})
			return false
		}
		ack := s.Ctrl.Acks[n].Rsp
		if ack.Command != cmd.Command || ack.RspTo != s.Ctrl.SentIDs[len(s.Ctrl.SentIDs)-1] {
			c.Fail("flush/ack-for-another-command", map[string]any{"cmd": cmd, "ack": ack, "cfg": cfg})
			ok = false
		}
		if mustSucceed && !ack.Success {
			c.Fail("flush/verb-refused", map[string]any{"cmd": fmt.Sprintf("%v -> %s", cmd.Command, cmd.Dst), "error": ack.Error, "cfg": cfg})
			ok = false
		}
	}
	return ok
}

func ctrlPort(comp messaging.Component) messaging.RemotePort {
	return comp.GetPortByName("Control").AsRemote()
}

func isROB(s *sim.Stack, comp messaging.Component) bool {
	for _, x := range s.ROBs {
		if x.Name() == comp.Name() {
			return true
		}
	}
	return false
}

// compareStorage reads the backing storages directly.
func compareStorage(c *kit.Case, s *sim.Stack, cfg any, phase string) {
	r := c.R
	for _, d := range s.Drivers {
		// bytes of unacknowledged writes may hold either value
		amb := map[uint64][2]byte{} // addr -> {old,new}
		for _, q := range d.State.Inflight {
			if q.IsRead {
				continue
			}
			for i := uint64(0); i < q.Len; i++ {
				amb[q.Addr+i] = [2]byte{q.Expect[i], d.RefByte(q.PID, q.Addr+i)}
			}
		}
		bad := 0
		for _, pa := range d.WrittenBytes() {
			pid, addr := int(pa[0]), pa[1]
			got, err := s.StorageFor(addr).Read(addr, 1)
			if err != nil {
				c.Failf("flush/storage-read-error", "%v", err)
				return
			}
			r.Count("written_bytes_compared_with_storage", 1)
			want := d.RefByte(pid, addr)
			if a, isAmb := amb[addr]; isAmb {
				r.Count("bytes_of_unacknowledged_writes(either_value_accepted)", 1)
				if got[0] == a[0] || got[0] == a[1] {
					continue
				}
			} else if got[0] == want {
				continue
			}
			bad++
			if bad <= 3 {
				c.Fail("flush/backing-memory-stale", map[string]any{"phase": phase, "addr": addr, "storage_holds": got[0], "last_acknowledged_write": want,
					"driver": d.Name(), "cfg": cfg, "t": s.Engine.CurrentTime()})
			}
		}
	}
	r.Count("hierarchy_flushes_compared", 1)
}

func dirtyLines(s *sim.Stack) int {
	n := 0
	for _, w := range s.WB {
		for _, set := range w.State.DirectoryState.Sets {
			for _, b := range set.Blocks {
				if b.IsValid && b.IsDirty {
					n++
				}
			}
		}
	}
	return n
}

func hierarchyCase(c *kit.Case, p params) {
	r := c.R
	cfg := sim.RandomStackCfg(c.Rng, sim.GenOpts{NumReqs: p.NumReqs, AllowDRAM: c.Rng.Intn(4) == 0, AllowBanked: true, MaxDrivers: 2, ForceWB: true})
	cfg.WithCtrl = true
	stopAt := 20 + c.Rng.Intn(p.NumReqs*2/3)
	desc := map[string]any{"cfg": cfg, "stop_after_responses": stopAt}
	c.Desc(desc)
	s := sim.BuildStack(cfg, r.WorkDir)
	defer s.Close()
	for _, d := range s.Drivers {
		d := d
		d.OnError = func(key, msg string) {
			c.Fail("flush/"+key, map[string]any{"msg": msg, "driver": d.Name(), "cfg": cfg, "stop_after_responses": stopAt})
		}
	}
	tap := sim.AttachTap(s.AllPorts(), s.Engine.CurrentTime, false)
	total := 0
	inflightAtStop := 0
	for _, d := range s.Drivers {
		d.OnRsp = func(sim.RspEvent) {
			total++
			if total == stopAt {
				for _, x := range s.Drivers {
					x.State.Halt = true
					inflightAtStop += len(x.State.Inflight)
				}
				// the drain of the top level starts right now, with requests, fills and evictions in flight
				if len(s.Levels) > 0 {
					s.Ctrl.Send(sim.CtrlCmd{Dst: ctrlPort(s.Levels[0]), Command: memcontrolprotocol.CmdDrain})
				}
			}
		}
	}
	s.Start()
	if err := s.Engine.Run(); err != nil {
		c.Failf("flush/engine-error", "%v", err)
		return
	}
	if total < stopAt {
		r.Count("runs_ending_before_the_stop_point(skipped)", 1)
		return
	}
	if inflightAtStop > 0 {
		r.Count("drains_started_with_requests_in_flight", 1)
	}
	if len(s.Ctrl.Acks) != 1 || !s.Ctrl.Acks[0].Rsp.Success {
		c.Fail("flush/control-request-not-acknowledged", map[string]any{"cmd": "Drain top level", "acks": s.Ctrl.Acks, "cfg": cfg})
		return
	}
	// Per level, top-down: drain it (the levels below still run, so its write-backs are accepted), then flush it.
	var seq, enables []sim.CtrlCmd
	for i, l := range s.Levels {
		if i > 0 {
			seq = append(seq, sim.CtrlCmd{Dst: ctrlPort(l), Command: memcontrolprotocol.CmdDrain})
		}
		if !isROB(s, l) {
			seq = append(seq, sim.CtrlCmd{Dst: ctrlPort(l), Command: memcontrolprotocol.CmdFlush})
		}
	}
	for i := len(s.Levels) - 1; i >= 0; i-- {
		enables = append(enables, sim.CtrlCmd{Dst: ctrlPort(s.Levels[i]), Command: memcontrolprotocol.CmdEnable})
	}
	before := dirtyLines(s)
	wbWritesBefore := 0
	for _, w := range s.WB {
		wbWritesBefore += tap.CountMatching(w.Name()+".Bottom/send/", "WriteReq")
	}
	if !sendAndRun(c, s, cfg, seq, true) {
		return
	}
	wbWritesAfter := 0
	for _, w := range s.WB {
		wbWritesAfter += tap.CountMatching(w.Name()+".Bottom/send/", "WriteReq")
	}
	r.Count("dirty_lines_in_top_level_state_before_flush", int64(before))
	r.Count("dirty_lines_written_back_by_flush", int64(wbWritesAfter-wbWritesBefore))
	if left := dirtyLines(s); left != 0 {
		c.Fail("flush/dirty-lines-left-after-unfiltered-flush", map[string]any{"dirty_left": left, "cfg": cfg, "stop_after_responses": stopAt})
	}
	compareStorage(c, s, desc, "mid-stream")
	if wbWritesAfter > wbWritesBefore {
		j, _ := json.Marshal(desc)
		c.Nontrivial(string(j))
	}
	// resume, finish the stream under the read-data monitor, flush again
	if !sendAndRun(c, s, cfg, enables, true) {
		return
	}
	for _, d := range s.Drivers {
		d.State.Halt = false
		d.TickLater()
	}
	if err := s.Engine.Run(); err != nil {
		c.Failf("flush/engine-error", "%v", err)
		return
	}
	for _, d := range s.Drivers {
		if !d.Done() {
			c.Fail("flush/unanswered-after-enable", map[string]any{"driver": d.Name(), "issued": d.State.Issued, "outstanding": d.State.Inflight, "cfg": cfg, "stop_after_responses": stopAt})
			return
		}
		r.Count("responses_checked_after_flush_and_enable", int64(d.State.Completed-0))
	}
	seq = append([]sim.CtrlCmd{{Dst: ctrlPort(s.Levels[0]), Command: memcontrolprotocol.CmdDrain}}, seq...)
	if !sendAndRun(c, s, cfg, seq, true) {
		return
	}
	compareStorage(c, s, desc, "end-of-stream")
	c.Sample(desc)
}

type lineKey struct {
	Tag uint64
	PID uint32
}

func filterCase(c *kit.Case, p params) {
	r := c.R
	rng := c.Rng
	log2 := uint64(4 + rng.Intn(3))
	lc := sim.LevelCfg{Kind: "wb", Log2Blk: log2, Ways: 1 + rng.Intn(4), Sets: []int{1, 2, 4, 8}[rng.Intn(4)], MSHR: 1 + rng.Intn(4),
		Banks: 1 + rng.Intn(2), BankLat: 1 + rng.Intn(3), DirLat: rng.Intn(3), ReqPerCycle: 1 + rng.Intn(3), WriteBuf: 1 + rng.Intn(4), MaxFetch: 1 + rng.Intn(4), MaxEvict: 1 + rng.Intn(4)}
	line := uint64(1) << log2
	cfg := sim.StackCfg{Levels: []sim.LevelCfg{lc}, Mem: sim.MemCfg{Kind: "ideal", Count: 1, Latency: 1 + rng.Intn(10)}, PortBuf: 1 + rng.Intn(4), WithCtrl: true,
		Drivers: []sim.DriverSpec{{Seed: uint64(rng.Int63()), NumReqs: p.NumReqs, MaxInflight: 1 + rng.Intn(8), IssuePerTick: 1 + rng.Intn(2), LineSize: line,
			NumLines: uint64(4 + rng.Intn(28)), NumPIDs: 2, PIDStride: 1 << 20, SendPID: true, ReadPct: 30, FullPct: 30, MaskPct: 20}}}
	// 1-3 rounds of (traffic, drain, filtered flush, enable) on the same cache: later flushes must not be
	// influenced by what earlier ones wrote back.
	rounds := 1 + rng.Intn(3)
	stops := make([]int, rounds)
	for i := range stops {
		lo := 20 + i*(p.NumReqs-20)/rounds
		hi := 20 + (i+1)*(p.NumReqs-20)/rounds
		stops[i] = lo + rng.Intn(hi-lo)
	}
	s := sim.BuildStack(cfg, r.WorkDir)
	defer s.Close()
	w := s.WB[0]
	d := s.Drivers[0]
	d.OnError = func(key, msg string) { c.Fail("flush/"+key, map[string]any{"msg": msg, "cfg": cfg}) }
	n, round := 0, 0
	d.OnRsp = func(sim.RspEvent) {
		n++
		if round < rounds && n == stops[round] {
			d.State.Halt = true
			s.Ctrl.Send(sim.CtrlCmd{Dst: ctrlPort(w), Command: memcontrolprotocol.CmdDrain})
		}
	}
	s.Start()
	type blk struct {
		valid, dirty bool
	}
	for ; round < rounds; round++ {
		stopAt := stops[round]
		acks0 := len(s.Ctrl.Acks)
		if round > 0 {
			d.State.Halt = false
			d.TickLater()
		}
		if err := s.Engine.Run(); err != nil {
			c.Failf("flush/engine-error", "%v", err)
			return
		}
		if n < stopAt || len(s.Ctrl.Acks) != acks0+1 || !s.Ctrl.Acks[acks0].Rsp.Success {
			c.Fail("flush/control-request-not-acknowledged", map[string]any{"cmd": "Drain", "round": round, "acks": s.Ctrl.Acks, "responses": n, "cfg": cfg})
			return
		}
		if !filterRound(c, p, s, cfg, line, round, stops) {
			return
		}
		if round > 0 {
			r.Count("filter_flushes_after_an_earlier_flush_and_enable", 1)
		}
	}
	// finish the stream: lines must still serve correct data
	d.State.Halt = false
	d.TickLater()
	s.Engine.Run()
	if !d.Done() {
		c.Fail("flush/unanswered-after-enable", map[string]any{"issued": d.State.Issued, "outstanding": d.State.Inflight, "cfg": cfg, "stops": stops})
	}
}

// filterRound: the cache is drained; snapshot, filtered flush, checks, enable.
func filterRound(c *kit.Case, p params, s *sim.Stack, cfg sim.StackCfg, line uint64, round int, stops []int) bool {
	r := c.R
	rng := c.Rng
	w := s.WB[0]
	d := s.Drivers[0]
	type blk struct {
		valid, dirty bool
	}
	before := map[lineKey]blk{}
	var dirty []lineKey
	for _, set := range w.State.DirectoryState.Sets {
		for _, b := range set.Blocks {
			if b.IsValid {
				k := lineKey{b.Tag, b.PID}
				before[k] = blk{true, b.IsDirty}
				if b.IsDirty {
					dirty = append(dirty, k)
				}
			}
		}
	}
	sort.Slice(dirty, func(i, j int) bool { return dirty[i].Tag < dirty[j].Tag })
	// filter
	var addrs []uint64
	var pid vm.PID
	kind := rng.Intn(5)
	switch kind {
	case 0: // everything
	case 1: // pid only
		pid = vm.PID(1 + rng.Intn(2))
	default:
		for _, k := range dirty {
			if rng.Intn(2) == 0 {
				a := k.Tag
				if rng.Intn(2) == 0 {
					a += uint64(rng.Intn(int(line))) // an address inside the line
				}
				addrs = append(addrs, a)
			}
		}
		// clean lines and absent lines in the filter
		for k, b := range before {
			if !b.dirty && rng.Intn(3) == 0 {
				addrs = append(addrs, k.Tag)
			}
		}
		addrs = append(addrs, 1<<30+uint64(rng.Intn(64))*line)
		if kind == 4 {
			pid = vm.PID(1 + rng.Intn(2))
		}
		rng.Shuffle(len(addrs), func(i, j int) { addrs[i], addrs[j] = addrs[j], addrs[i] })
	}
	match := func(k lineKey) bool {
		if pid != 0 && vm.PID(k.PID) != pid {
			return false
		}
		if len(addrs) == 0 {
			return true
		}
		for _, a := range addrs {
			if a/line*line == k.Tag {
				return true
			}
		}
		return false
	}
	want := map[lineKey]bool{}
	for _, k := range dirty {
		if match(k) {
			want[k] = true
		}
	}
	desc := map[string]any{"cfg": cfg, "stops_after_responses": stops, "round": round, "filter_addresses": addrs, "filter_pid": pid, "dirty_lines": dirty,
		"state_at_snapshot": map[string]any{"evicting_list": w.State.EvictingList, "pending_evictions": w.State.PendingEvictionIndices, "inflight_evictions": w.State.InflightEvictionIndices,
			"inflight_fetch": w.State.InflightFetchIndices, "driver_outstanding": len(d.State.Inflight), "bottom_out": w.GetPortByName("Bottom").NumOutgoing(), "top_in": w.GetPortByName("Top").NumIncoming()}}
	c.Desc(desc)
	// observe the writes leaving the cache during the flush window
	wtap := sim.AttachTap([]messaging.Port{w.GetPortByName("Bottom")}, s.Engine.CurrentTime, true)
	if !sendAndRun(c, s, cfg, []sim.CtrlCmd{{Dst: ctrlPort(w), Command: memcontrolprotocol.CmdFlush, Addresses: addrs, PID: pid}}, true) {
		return false
	}
	wtap.Keep = false
	r.Count("filter_flushes_checked", 1)
	got := map[lineKey]int{}
	for _, rec := range wtap.Recs {
		if rec.Pos != "send" {
			continue
		}
		if wr, ok := rec.Msg.(memprotocol.WriteReq); ok {
			got[lineKey{wr.Address / line * line, uint32(wr.PID)}]++
		} else {
			c.Fail("flush/non-write-sent-during-flush", map[string]any{"msg": fmt.Sprintf("%T", rec.Msg), "desc": desc})
		}
	}
	for k := range want {
		if got[k] == 0 {
			c.Fail("flush/matching-dirty-line-not-written-back", map[string]any{"line": k, "desc": desc})
		}
	}
	for k, cnt := range got {
		if !want[k] {
			c.Fail("flush/non-matching-line-written-back", map[string]any{"line": k, "desc": desc})
		} else if cnt > 1 {
			c.Fail("flush/line-written-back-twice", map[string]any{"line": k, "count": cnt, "desc": desc})
		}
	}
	r.Count("dirty_lines_written_back_by_flush", int64(len(got)))
	// directory afterwards
	after := map[lineKey]cache.BlockState{}
	for _, set := range w.State.DirectoryState.Sets {
		for _, b := range set.Blocks {
			if b.IsValid {
				after[lineKey{b.Tag, b.PID}] = b
			}
		}
	}
	left := 0
	for k, b := range before {
		a, still := after[k]
		if !still {
			c.Fail("flush/valid-line-invalidated", map[string]any{"line": k, "was_dirty": b.dirty, "desc": desc})
			continue
		}
		switch {
		case want[k] && a.IsDirty:
			c.Fail("flush/matching-line-still-dirty", map[string]any{"line": k, "desc": desc})
		case b.dirty && !want[k] && !a.IsDirty:
			c.Fail("flush/non-matching-dirty-line-cleaned", map[string]any{"line": k, "desc": desc})
		case b.dirty && !want[k]:
			left++
		}
	}
	if left > 0 {
		r.Count("filter_flushes_leaving_some_dirty_lines", 1)
	}
	// the written-back lines are current in memory; the others need not be.
	// Bytes of writes that are still unacknowledged (stuck in the drained cache's Top port) may hold either value.
	unacked := map[uint64]bool{}
	for _, q := range d.State.Inflight {
		if !q.IsRead {
			for i := uint64(0); i < q.Len; i++ {
				unacked[uint64(q.PID)<<48|(q.Addr+i)] = true
			}
		}
	}
	for k := range want {
		for off := uint64(0); off < line; off++ {
			addr := k.Tag + off
			if _, written := d.State.Ref[uint64(k.PID)<<48|addr]; !written || unacked[uint64(k.PID)<<48|addr] {
				continue
			}
			gotB, _ := s.Storages[0].Read(addr, 1)
			r.Count("written_bytes_compared_with_storage", 1)
			if gotB[0] != d.RefByte(int(k.PID), addr) {
				c.Fail("flush/backing-memory-stale", map[string]any{"phase": "filtered", "addr": addr, "storage_holds": gotB[0], "last_acknowledged_write": d.RefByte(int(k.PID), addr), "desc": desc})
				break
			}
		}
	}
	if len(got) > 0 {
		j, _ := json.Marshal(map[string]any{"cfg": cfg, "stops": stops}) // one key per case, whichever round wrote lines back
		c.Nontrivial(string(j))
	}
	r.Distinct("filter_kinds", fmt.Sprint(kind))
	if round == len(stops)-1 {
		c.Sample(desc)
	}
	_ = timing.VTimeInPicoSec(0)
	return sendAndRun(c, s, cfg, []sim.CtrlCmd{{Dst: ctrlPort(w), Command: memcontrolprotocol.CmdEnable}}, true)
}

// siblingCase: two write-back caches over one shared lower level, each with its own driver; the drivers
// share cache lines but never bytes (even / odd 4-byte words).
func siblingCase(c *kit.Case, p params) {
	r := c.R
	rng := c.Rng
	log2 := uint64(4 + rng.Intn(3))
	line := uint64(1) << log2
	withL2 := rng.Intn(2) == 0
	desc := map[string]any{"family": "sibling", "log2_blk": log2, "shared_l2": withL2}
	dir := r.WorkDir
	s := sim.NewSim(dir, false)
	defer (&sim.Stack{Sim: s, Dir: dir}).Close()
	eng := s.GetEngine().(*timing.SerialEngine)
	pb := 1 + rng.Intn(4)
	mk := func(name string, lower messaging.RemotePort, sets, ways int) *writeback.Comp {
		sp := writeback.DefaultSpec()
		sp.Log2BlockSize = log2
		sp.WayAssociativity = ways
		sp.TotalByteSize = uint64(sets*ways) << log2
		sp.NumMSHREntry = 1 + rng.Intn(4)
		sp.BankLatency = 1 + rng.Intn(4)
		sp.DirLatency = rng.Intn(3)
		sp.NumReqPerCycle = 1 + rng.Intn(3)
		sp.WriteBufferCapacity = 1 + rng.Intn(4)
		sp.MaxInflightFetch, sp.MaxInflightEviction = 1+rng.Intn(4), 1+rng.Intn(4)
		cc := writeback.MakeBuilder().WithRegistrar(s).WithSpec(sp).
			WithResources(writeback.Resources{AddressToPortMapper: &mem.SinglePortMapper{Port: lower}}).Build(name)
		for _, n := range []string{"Top", "Bottom", "Control"} {
			cc.AssignPort(n, modeling.MakePortBuilder().WithRegistrar(s).WithComponent(cc).WithSpec(modeling.PortSpec{BufSize: pb}).Build(n))
		}
		return cc
	}
	msp := idealmemcontroller.DefaultSpec()
	msp.Latency = 1 + rng.Intn(12)
	msp.Capacity = 1 << 32
	m := idealmemcontroller.MakeBuilder().WithRegistrar(s).WithSpec(msp).Build("Mem0")
	for _, n := range []string{"Top", "Control"} {
		m.AssignPort(n, modeling.MakePortBuilder().WithRegistrar(s).WithComponent(m).WithSpec(modeling.PortSpec{BufSize: pb}).Build(n))
	}
	lower := m.GetPortByName("Top").AsRemote()
	var l2 *writeback.Comp
	if withL2 {
		l2 = mk("L2", lower, 1+rng.Intn(4), 1+rng.Intn(4))
		lower = l2.GetPortByName("Top").AsRemote()
	}
	var l1 [2]*writeback.Comp
	var drv [2]*sim.Driver
	numLines := uint64(4 + rng.Intn(12))
	for k := 0; k < 2; k++ {
		l1[k] = mk(fmt.Sprintf("L1x%d", k), lower, 1+rng.Intn(4), 1+rng.Intn(3))
		ds := sim.DriverSpec{Freq: 1 * timing.GHz, Seed: uint64(rng.Int63()), NumReqs: p.NumReqs / 2, MaxInflight: 1 + rng.Intn(8), IssuePerTick: 1 + rng.Intn(2),
			LineSize: line, NumLines: numLines, ReadPct: 30, MaskPct: 30, WordMod: 2, WordRem: uint64(k), Dsts: []string{string(l1[k].GetPortByName("Top").AsRemote())}}
		drv[k] = sim.BuildDriver(s, fmt.Sprintf("Driver%d", k), ds, pb)
		k := k
		drv[k].OnError = func(key, msg string) { c.Fail("flush/sibling/"+key, map[string]any{"msg": msg, "driver": k, "desc": desc}) }
	}
	ctrl := sim.BuildCtrlDriver(s, "CtrlDriver", pb)
	conn := directconnection.MakeBuilder().WithRegistrar(s).Build("Conn")
	conn.PlugIn(m.GetPortByName("Top"))
	ctl := directconnection.MakeBuilder().WithRegistrar(s).Build("CtrlConn")
	ctl.PlugIn(ctrl.GetPortByName("Ctrl"))
	ctl.PlugIn(m.GetPortByName("Control"))
	caches := []*writeback.Comp{l1[0], l1[1]}
	if l2 != nil {
		caches = append(caches, l2)
	}
	for _, cc := range caches {
		conn.PlugIn(cc.GetPortByName("Top"))
		conn.PlugIn(cc.GetPortByName("Bottom"))
		ctl.PlugIn(cc.GetPortByName("Control"))
	}
	for k := 0; k < 2; k++ {
		conn.PlugIn(drv[k].GetPortByName("Mem"))
		drv[k].TickLater()
	}
	c.Desc(desc)
	if err := eng.Run(); err != nil {
		c.Failf("flush/engine-error", "%v", err)
		return
	}
	for k := 0; k < 2; k++ {
		if !drv[k].Done() {
			c.Fail("flush/sibling/unanswered", map[string]any{"driver": k, "outstanding": drv[k].State.Inflight, "desc": desc})
			return
		}
	}
	// lines dirty in both L1 caches at the same time
	dirtyIn := func(cc *writeback.Comp) map[uint64]bool {
		o := map[uint64]bool{}
		for _, set := range cc.State.DirectoryState.Sets {
			for _, b := range set.Blocks {
				if b.IsValid && b.IsDirty {
					o[b.Tag] = true
				}
			}
		}
		return o
	}
	a, b := dirtyIn(l1[0]), dirtyIn(l1[1])
	both := 0
	for t := range a {
		if b[t] {
			both++
		}
	}
	r.Count("sibling_lines_dirty_in_both_caches", int64(both))
	order := []*writeback.Comp{l1[0], l1[1]}
	if rng.Intn(2) == 0 {
		order = []*writeback.Comp{l1[1], l1[0]}
	}
	if l2 != nil {
		order = append(order, l2)
	}
	for _, cc := range order {
		for _, cmd := range []memcontrolprotocol.Command{memcontrolprotocol.CmdDrain, memcontrolprotocol.CmdFlush} {
			n := len(ctrl.Acks)
			ctrl.Send(sim.CtrlCmd{Dst: cc.GetPortByName("Control").AsRemote(), Command: cmd})
			eng.Run()
			if len(ctrl.Acks) != n+1 || !ctrl.Acks[n].Rsp.Success {
				c.Fail("flush/control-request-not-acknowledged", map[string]any{"cmd": fmt.Sprintf("%v -> %s", cmd, cc.Name()), "desc": desc})
				return
			}
		}
	}
	st := m.Resources().Storage
	bad := 0
	for k := 0; k < 2; k++ {
		for _, pa := range drv[k].WrittenBytes() {
			got, _ := st.Read(pa[1], 1)
			r.Count("written_bytes_compared_with_storage", 1)
			if got[0] != drv[k].RefByte(0, pa[1]) {
				bad++
				if bad <= 3 {
					c.Fail("flush/backing-memory-stale", map[string]any{"phase": "sibling", "addr": pa[1], "storage_holds": got[0], "last_acknowledged_write": drv[k].RefByte(0, pa[1]), "driver": k, "desc": desc})
				}
			}
		}
	}
	r.Count("sibling_flushes_compared", 1)
	r.Count("hierarchy_flushes_compared", 1)
	if both > 0 {
		j, _ := json.Marshal(desc)
		c.Nontrivial(fmt.Sprintf("%s/%d", j, c.Seed))
	}
}
