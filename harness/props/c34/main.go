// C34 Aggregate tracers compute exact statistics: integer reference model over
// generated time-ordered task streams fed to the four real tracers.
package main

import (
	"fmt"
	"math/rand"
	"sort"
	"strings"

	"verifharness/kit"

	"github.com/sarchlab/akita/v5/timing"
	"github.com/sarchlab/akita/v5/tracing"
)

type task struct {
	id         uint64
	kind, what string
	start, end uint64
	ended      bool // false: never ended inside the stream (clipped by TerminateAllTasks)
	neverStart bool // only mentioned by tags, never started
}

type event struct {
	time uint64
	typ  int // 0 start, 1 end, 2 tag
	task int
	tag  string
	seq  int
}

var shapes = []string{"disjoint", "touching", "nested", "chain", "overlap", "random", "zero", "mixed", "longchain", "tiny"}

func genTasks(rng *rand.Rand, shape string) []*task {
	n := 1 + rng.Intn(12)
	if rng.Intn(6) == 0 {
		n = 12 + rng.Intn(40)
	}
	scale := uint64([]int{1, 3, 10, 1000, 1 << 20, 1 << 40}[rng.Intn(6)])
	rd := func(k int) uint64 { return uint64(rng.Intn(k)) * scale }
	var ts []*task
	cur := rd(5)
	add := func(s, e uint64) {
		ts = append(ts, &task{start: s, end: e, ended: true})
	}
	sub := shape
	for i := 0; i < n; i++ {
		if shape == "mixed" {
			sub = shapes[rng.Intn(7)]
		}
		switch sub {
		case "disjoint":
			s := cur + scale + rd(5)
			e := s + rd(10)
			add(s, e)
			cur = e
		case "touching":
			e := cur + rd(10)
			add(cur, e)
			cur = e
		case "nested":
			if i == 0 || rng.Intn(5) == 0 {
				s := cur + rd(4)
				e := s + 20*scale + rd(40)
				add(s, e)
				cur = e
			} else {
				p := ts[rng.Intn(len(ts))]
				w := p.end - p.start
				if w == 0 {
					add(p.start, p.end)
				} else {
					s := p.start + uint64(rng.Int63n(int64(w)+1))
					e := s + uint64(rng.Int63n(int64(p.end-s)+1))
					add(s, e)
				}
			}
		case "chain", "longchain":
			// each task starts inside the previous one and ends after it; it
			// starts after the end of the one before the previous.
			if len(ts) == 0 || (sub == "chain" && rng.Intn(6) == 0) {
				s := cur + scale + rd(3)
				add(s, s+4*scale+rd(8))
			} else {
				p := ts[len(ts)-1]
				lo := p.start
				if len(ts) >= 2 && ts[len(ts)-2].end > lo && ts[len(ts)-2].end <= p.end {
					lo = ts[len(ts)-2].end
				}
				if p.end <= lo {
					s := p.end + scale
					add(s, s+4*scale+rd(8))
				} else {
					s := lo + 1 + uint64(rng.Int63n(int64(p.end-lo)))
					if s > p.end {
						s = p.end
					}
					add(s, p.end+scale+rd(8))
				}
			}
			cur = ts[len(ts)-1].end
		case "overlap":
			s := cur
			if cur > 0 && rng.Intn(3) > 0 {
				back := rd(6)
				if back > s {
					back = s
				}
				s -= back
			} else {
				s += rd(4)
			}
			e := s + rd(12)
			add(s, e)
			if e > cur {
				cur = e
			}
		case "zero":
			s := cur + rd(3)
			add(s, s)
			cur = s
		case "tiny": // durations 0..3 only: the average is rarely an integer
			s := cur + uint64(rng.Intn(3))
			add(s, s+uint64(rng.Intn(4)))
			cur = s
		default: // random
			s := rd(60)
			add(s, s+rd(30))
		}
	}
	kinds := []string{"req_in", "req_out", "pipeline"}
	whats := []string{"read", "write"}
	for i, t := range ts {
		t.id = uint64(i + 1)
		if rng.Intn(4) == 0 {
			t.id = uint64(i+1) + uint64(rng.Int63n(1<<40))<<8
		}
		t.kind = kinds[rng.Intn(len(kinds))]
		t.what = whats[rng.Intn(len(whats))]
	}
	return ts
}

func unionLen(iv [][2]uint64) uint64 {
	if len(iv) == 0 {
		return 0
	}
	sort.Slice(iv, func(i, j int) bool { return iv[i][0] < iv[j][0] })
	total := uint64(0)
	s, e := iv[0][0], iv[0][1]
	for _, x := range iv[1:] {
		if x[0] > e {
			total += e - s
			s, e = x[0], x[1]
		} else if x[1] > e {
			e = x[1]
		}
	}
	return total + (e - s)
}

// hasChain: three intervals a,b,c with b overlapping a, c overlapping b but
// not a (the situation in which a merge must use the extended interval).
func hasChain(iv [][2]uint64) bool {
	ov := func(a, b [2]uint64) bool { return a[0] <= b[1] && b[0] <= a[1] }
	for i := range iv {
		for j := range iv {
			if j == i || !ov(iv[i], iv[j]) {
				continue
			}
			for k := range iv {
				if k != i && k != j && ov(iv[j], iv[k]) && !ov(iv[i], iv[k]) && iv[k][0] > iv[i][1] && iv[k][0] < iv[j][1] {
					return true
				}
			}
		}
	}
	return false
}

func main() {
	kit.Main(kit.Prop{
		ID:    "C34",
		Level: "exploration",
		Rule: "time-ordered streams of 1..50 tasks drawn from shape classes (disjoint, touching, nested, chained, overlapping, zero-length, random, mixed) at six time scales, " +
			"with a kind/what filter, tags on tracked, ended, filtered-out and never-started tasks, random tie order at equal instants and optionally unended tasks closed by TerminateAllTasks; " +
			"the same stream is fed to the four real tracers and compared with integer references (sum, floor(sum/n) after every end, sort-and-sweep union, tag/task counts); " +
			"a stream is non-trivial when at least two filtered tasks overlap (union < sum); distinct by the full event list",
		Assumptions: []string{
			"events are delivered in non-decreasing time order; a task id is started at most once and ended at most once after its start",
			"total/average are judged over ended tasks only; busy time is judged once all tasks ended or after TerminateAllTasks(now) with now >= last event time",
			"sums stay below 2^63 (times < 2^47, at most 52 tasks)",
		},
		Plan: func(tier string, seed int64) []kit.Batch {
			nb, n := 16, 4000
			if tier == "thorough" {
				nb, n = 32, 100000
			}
			var bs []kit.Batch
			for i := 0; i < nb; i++ {
				bs = append(bs, kit.Batch{Name: fmt.Sprintf("streams%d", i), Seed: seed*1000 + int64(i), N: n})
			}
			return bs
		},
		Run:         run,
		MustObserve: []string{"streams_with_chain", "streams_with_inexact_average", "streams_with_unended_tasks", "tags_on_untracked_tasks", "streams_with_overlap"},
	})
}

func run(b kit.Batch, r *kit.R) {
	r.ForEach(b.N, func(c *kit.Case) {
		rng := c.Rng
		shape := shapes[rng.Intn(len(shapes))]
		ts := genTasks(rng, shape)
		// some tasks never end; some ids are only ever mentioned by tags
		unended := rng.Intn(4) == 0
		if unended {
			for _, t := range ts {
				if rng.Intn(3) == 0 {
					t.ended = false
				}
			}
		}
		ghost := &task{id: 1 << 50, neverStart: true}
		ts = append(ts, ghost)

		// filter
		fk := rng.Intn(4)
		fKind := []string{"req_in", "req_out", "pipeline"}[rng.Intn(3)]
		pass := func(kind, what string) bool {
			switch fk {
			case 0:
				return true
			case 1:
				return kind == fKind
			case 2:
				return what == "read"
			default:
				return kind != fKind
			}
		}
		filter := func(t tracing.TaskStart) bool { return pass(t.Kind, t.What) }

		// events
		var evs []event
		tagNames := []string{"hit", "miss", "mshr-hit", "a b", ""}
		last := uint64(0)
		for i, t := range ts {
			if t.neverStart {
				continue
			}
			evs = append(evs, event{time: t.start, typ: 0, task: i})
			if t.ended {
				evs = append(evs, event{time: t.end, typ: 1, task: i})
				if t.end > last {
					last = t.end
				}
			}
			if t.start > last {
				last = t.start
			}
		}
		ntags := rng.Intn(2 * len(ts))
		for k := 0; k < ntags; k++ {
			i := rng.Intn(len(ts))
			t := ts[i]
			var tm uint64
			switch {
			case t.neverStart:
				tm = uint64(rng.Int63n(int64(last) + 1))
			case rng.Intn(5) == 0: // any time: may be before the start or after the end
				tm = uint64(rng.Int63n(int64(last) + 1))
			default:
				hi := t.end
				if !t.ended {
					hi = last
				}
				if hi < t.start {
					hi = t.start
				}
				tm = t.start + uint64(rng.Int63n(int64(hi-t.start)+1))
			}
			evs = append(evs, event{time: tm, typ: 2, task: i, tag: tagNames[rng.Intn(len(tagNames))]})
		}
		for i := range evs {
			evs[i].seq = rng.Int()
		}
		// time order; at equal instants random order except that a task's
		// start precedes its own end.
		sort.SliceStable(evs, func(i, j int) bool {
			if evs[i].time != evs[j].time {
				return evs[i].time < evs[j].time
			}
			return evs[i].seq < evs[j].seq
		})
		pos := map[[2]int]int{}
		for i, e := range evs {
			if e.typ != 2 {
				pos[[2]int{e.task, e.typ}] = i
			}
		}
		for ti := range ts {
			s, ok1 := pos[[2]int{ti, 0}]
			e, ok2 := pos[[2]int{ti, 1}]
			if ok1 && ok2 && e < s {
				evs[s], evs[e] = evs[e], evs[s]
			}
		}

		total := tracing.NewTotalTimeTracer(filter)
		avg := tracing.NewAverageTimeTracer(filter)
		busy := tracing.NewBusyTimeTracer(filter)
		tagc := tracing.NewTagCountTracer(filter)
		tracers := []tracing.Tracer{total, avg, busy, tagc}

		var sb strings.Builder
		fmt.Fprintf(&sb, "f%d%s;", fk, fKind)
		started, ended := map[int]bool{}, map[int]bool{}
		var sum, cnt uint64
		wantTag := map[string]uint64{}
		wantTask := map[string]uint64{}
		seen := map[string]bool{} // task|tag
		untrackedTags := int64(0)
		desc := func() any {
			var l []string
			for _, e := range evs {
				t := ts[e.task]
				switch e.typ {
				case 0:
					l = append(l, fmt.Sprintf("start(id=%d,%s/%s,t=%d)", t.id, t.kind, t.what, e.time))
				case 1:
					l = append(l, fmt.Sprintf("end(id=%d,t=%d)", t.id, e.time))
				default:
					l = append(l, fmt.Sprintf("tag(id=%d,%q,t=%d)", t.id, e.tag, e.time))
				}
			}
			return map[string]any{"shape": shape, "filter": fmt.Sprintf("mode %d kind %s", fk, fKind), "events": l}
		}
		failed := false
		fail := func(key, format string, a ...any) {
			if failed {
				return
			}
			failed = true
			c.Desc(desc())
			c.Failf(key, format, a...)
		}
		inexact := false
		for _, e := range evs {
			t := ts[e.task]
			fmt.Fprintf(&sb, "%d:%d:%d:%s;", e.typ, e.task, e.time, e.tag)
			switch e.typ {
			case 0:
				st := tracing.TaskStart{ID: t.id, Kind: t.kind, What: t.what, Location: "comp." + t.kind, Time: timing.VTimeInPicoSec(e.time)}
				for _, tr := range tracers {
					tr.StartTask(st)
				}
				started[e.task] = true
			case 1:
				en := tracing.TaskEnd{ID: t.id, Time: timing.VTimeInPicoSec(e.time)}
				for _, tr := range tracers {
					tr.EndTask(en)
				}
				ended[e.task] = true
				if pass(t.kind, t.what) {
					sum += t.end - t.start
					cnt++
					if sum%cnt != 0 {
						inexact = true
					}
				}
				// running values are judged after every end
				if got := uint64(total.TotalTime()); got != sum {
					fail("tracer/total", "TotalTime=%d, sum of the %d filtered ended durations=%d", got, cnt, sum)
				}
				if got := avg.TotalCount(); got != cnt {
					fail("tracer/average-count", "TotalCount=%d want %d", got, cnt)
				}
				if cnt > 0 {
					if got := uint64(avg.AverageTime()); got != sum/cnt {
						fail("tracer/average", "AverageTime=%d, floor(%d/%d)=%d", got, sum, cnt, sum/cnt)
					}
				}
			case 2:
				tg := tracing.TaskTag{ID: uint64(1000 + len(seen)), TaskID: t.id, What: e.tag, Time: timing.VTimeInPicoSec(e.time)}
				for _, tr := range tracers {
					tr.AddTaskTag(tg)
				}
				wantTag[e.tag]++
				tracked := started[e.task] && !ended[e.task] && pass(t.kind, t.what)
				if tracked {
					k := fmt.Sprintf("%d|%s", e.task, e.tag)
					if !seen[k] {
						seen[k] = true
						wantTask[e.tag]++
					}
				} else {
					untrackedTags++
				}
			}
		}
		// busy time
		var iv [][2]uint64
		nUnended := 0
		for i, t := range ts {
			if t.neverStart || !pass(t.kind, t.what) {
				continue
			}
			_ = i
			if t.ended {
				iv = append(iv, [2]uint64{t.start, t.end})
			} else {
				nUnended++
			}
		}
		now := last
		anyUnended := false
		for _, t := range ts {
			if !t.neverStart && !t.ended {
				anyUnended = true
			}
		}
		if anyUnended {
			now = last + uint64(rng.Intn(3))*uint64(rng.Intn(1000))
			for _, t := range ts {
				if !t.neverStart && !t.ended && pass(t.kind, t.what) {
					iv = append(iv, [2]uint64{t.start, now})
				}
			}
			busy.TerminateAllTasks(timing.VTimeInPicoSec(now))
			fmt.Fprintf(&sb, "term:%d", now)
		}
		ivCopy := append([][2]uint64(nil), iv...)
		want := unionLen(iv)
		if got := uint64(busy.BusyTime()); got != want {
			fail("tracer/busy", "BusyTime=%d, length of the union of the %d filtered intervals=%d (TerminateAllTasks at %d: %v)", got, len(iv), want, now, anyUnended)
		}
		// total/average once more at the very end (unchanged by termination)
		if got := uint64(total.TotalTime()); got != sum {
			fail("tracer/total", "TotalTime=%d at the end, want %d", got, sum)
		}
		if got := uint64(avg.AverageTime()); cnt > 0 && got != sum/cnt {
			fail("tracer/average", "AverageTime=%d at the end, floor(%d/%d)=%d", got, sum, cnt, sum/cnt)
		}
		// tag counts
		names := tagc.GetTagNames()
		gotNames := map[string]bool{}
		for _, n := range names {
			if gotNames[n] {
				fail("tracer/tagnames", "tag name %q listed twice", n)
			}
			gotNames[n] = true
		}
		if len(gotNames) != len(wantTag) {
			fail("tracer/tagnames", "GetTagNames=%q, names recorded=%d", names, len(wantTag))
		}
		for n, w := range wantTag {
			if !gotNames[n] {
				fail("tracer/tagnames", "tag name %q missing from GetTagNames=%q", n, names)
			}
			if got := tagc.GetTagCount(n); got != w {
				fail("tracer/tagcount", "GetTagCount(%q)=%d want %d", n, got, w)
			}
			if got := tagc.GetTaskCount(n); got != wantTask[n] {
				fail("tracer/taskcount", "GetTaskCount(%q)=%d, distinct tracked tasks carrying it=%d", n, got, wantTask[n])
			}
		}
		if got := tagc.GetTagCount("never-used"); got != 0 {
			fail("tracer/tagcount", "GetTagCount of an unused name=%d", got)
		}

		// what was observed
		r.Count("streams", 1)
		r.Count("task_events", int64(len(evs)))
		r.Count("filtered_tasks_ended", int64(cnt))
		r.Count("tags", int64(ntags))
		r.Count("tags_on_untracked_tasks", untrackedTags)
		r.Distinct("shape_x_filter", fmt.Sprintf("%s/%d", shape, fk))
		r.Max("max_tasks_in_stream", int64(len(ts)-1))
		var sumAll uint64
		for _, x := range ivCopy {
			sumAll += x[1] - x[0]
		}
		if len(ivCopy) >= 2 && want < sumAll {
			r.Count("streams_with_overlap", 1)
			c.Nontrivial(sb.String())
		}
		if len(ivCopy) <= 40 && hasChain(ivCopy) {
			r.Count("streams_with_chain", 1)
		}
		if inexact {
			r.Count("streams_with_inexact_average", 1)
		}
		if nUnended > 0 {
			r.Count("streams_with_unended_tasks", 1)
		}
		if len(ivCopy) >= 3 && want < sumAll {
			c.Sample(map[string]any{"stream": desc(), "total": sum, "count": cnt, "average": func() uint64 {
				if cnt == 0 {
					return 0
				}
				return sum / cnt
			}(), "busy": want})
		}
	})
}
