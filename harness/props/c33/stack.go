package main

// Code below the marker is a copy of verifharness/kit/sim/stack.go (BuildStack
// and its helpers) with the registrar made a parameter.

import (
	"fmt"

	"verifharness/kit/sim"

	"github.com/sarchlab/akita/v5/mem"
	"github.com/sarchlab/akita/v5/mem/cache/writeback"
	"github.com/sarchlab/akita/v5/mem/cache/writethroughcache"
	"github.com/sarchlab/akita/v5/mem/dram"
	"github.com/sarchlab/akita/v5/mem/idealmemcontroller"
	"github.com/sarchlab/akita/v5/mem/rob"
	"github.com/sarchlab/akita/v5/mem/simplebankedmemory"
	"github.com/sarchlab/akita/v5/messaging"
	"github.com/sarchlab/akita/v5/modeling"
	"github.com/sarchlab/akita/v5/noc/directconnection"
	"github.com/sarchlab/akita/v5/timing"
)

// stack is a built assembly (the fields of sim.Stack this check needs).
type stack struct {
	Engine   *timing.SerialEngine
	Drivers  []*sim.Driver
	Levels   []messaging.Component
	WB       []*writeback.Comp
	WT       []*writethroughcache.Comp
	ROBs     []*rob.Comp
	Mems     []messaging.Component
	Storages []*mem.Storage
	Conns    []*directconnection.Comp
	Ctrl     *sim.CtrlDriver
	Cfg      sim.StackCfg
}

func mhz(v int, def timing.Freq) timing.Freq {
	if v <= 0 {
		return def
	}
	return timing.Freq(v) * timing.MHz
}

func or(v, d int) int {
	if v <= 0 {
		return d
	}
	return v
}

func assignPorts(reg modeling.Registrar, comp messaging.Component, buf int, names ...string) {
	for _, n := range names {
		p := modeling.MakePortBuilder().WithRegistrar(reg).WithComponent(comp).
			WithSpec(modeling.PortSpec{BufSize: buf}).Build(n)
		comp.AssignPort(n, p)
	}
}

func dramPreset(name string) dram.Spec {
	switch name {
	case "DDR5":
		return dram.DDR5Spec
	case "HBM2":
		return dram.HBM2Spec
	case "HBM3":
		return dram.HBM3Spec
	case "GDDR6":
		return dram.GDDR6Spec
	case "DDR3":
		return dram.DefaultSpec()
	default:
		return dram.DDR4Spec
	}
}

func (s *stack) storageFor(addr uint64) *mem.Storage {
	if len(s.Storages) == 1 {
		return s.Storages[0]
	}
	il := s.Cfg.Mem.Interleave
	if il == 0 {
		il = 4096
	}
	return s.Storages[(addr/il)%uint64(len(s.Storages))]
}

// ---- copied from kit/sim/stack.go ----

// buildStack is sim.BuildStack (copied verbatim apart from the registrar) so that the same
// assembly can be built on a bare registrar that attaches nothing.
func buildStack(cfg sim.StackCfg, reg modeling.Registrar, s *stack) {
	pb := or(cfg.PortBuf, 4)

	// memories
	mc := cfg.Mem
	n := or(mc.Count, 1)
	capacity := mc.Capacity
	if capacity == 0 {
		capacity = 1 << 32
	}
	var shared *mem.Storage
	var memTops []messaging.RemotePort
	for i := 0; i < n; i++ {
		name := fmt.Sprintf("Mem%d", i)
		var comp messaging.Component
		var st *mem.Storage
		if mc.SharedStorage && shared == nil && mc.Kind != "dram" {
			shared = mem.MakeStorageBuilder().WithCapacity(capacity).WithSimulation(reg).Build("SharedStorage")
		}
		switch mc.Kind {
		case "banked":
			sp := simplebankedmemory.DefaultSpec()
			sp.Freq = mhz(mc.FreqMHz, sp.Freq)
			sp.NumBanks = or(mc.Banks, 2)
			sp.BankPipelineDepth = or(mc.Depth, 1)
			sp.BankPipelineWidth = or(mc.PWidth, 1)
			sp.StageLatency = or(mc.Latency, 3)
			sp.PostPipelineBufSize = or(mc.PostBuf, 1)
			sp.Capacity = capacity
			c := simplebankedmemory.MakeBuilder().WithRegistrar(reg).WithSpec(sp).
				WithResources(simplebankedmemory.Resources{Storage: shared}).Build(name)
			comp, st = c, c.Resources().Storage
		case "dram":
			sp := dramPreset(mc.Preset)
			if mc.ClosePage {
				sp.PagePolicy = dram.PagePolicyClose
			} else {
				sp.PagePolicy = dram.PagePolicyOpen
			}
			if mc.TransQ > 0 {
				sp.TransactionQueueSize = mc.TransQ
			}
			if mc.CmdQ > 0 {
				sp.CommandQueueCapacity = mc.CmdQ
			}
			c := dram.MakeBuilder().WithRegistrar(reg).WithSpec(sp).Build(name)
			comp, st = c, c.Resources().Storage
		default:
			sp := idealmemcontroller.DefaultSpec()
			sp.Freq = mhz(mc.FreqMHz, sp.Freq)
			sp.Latency = or(mc.Latency, 5)
			sp.Width = or(mc.Width, 1)
			sp.Capacity = capacity
			c := idealmemcontroller.MakeBuilder().WithRegistrar(reg).WithSpec(sp).
				WithResources(idealmemcontroller.Resources{Storage: shared}).Build(name)
			comp, st = c, c.Resources().Storage
		}
		assignPorts(reg, comp, pb, "Top", "Control")
		s.Mems = append(s.Mems, comp)
		s.Storages = append(s.Storages, st)
		memTops = append(memTops, comp.GetPortByName("Top").AsRemote())
	}

	// levels, built bottom-up so each knows its lower module(s)
	lowerTops := memTops
	lowerInterleave := mc.Interleave
	if lowerInterleave == 0 {
		lowerInterleave = 4096
	}
	s.Levels = make([]messaging.Component, len(cfg.Levels))
	for li := len(cfg.Levels) - 1; li >= 0; li-- {
		lc := cfg.Levels[li]
		name := fmt.Sprintf("L%d%s", li, lc.Kind)
		var mapper mem.AddressToPortMapper
		if len(lowerTops) == 1 {
			mapper = &mem.SinglePortMapper{Port: lowerTops[0]}
		} else {
			im := mem.NewInterleavedAddressPortMapper(lowerInterleave)
			im.LowModules = append(im.LowModules, lowerTops...)
			mapper = im
		}
		var comp messaging.Component
		switch lc.Kind {
		case "rob":
			if len(lowerTops) != 1 {
				panic("rob needs a single lower unit")
			}
			sp := rob.DefaultSpec()
			sp.Freq = mhz(lc.FreqMHz, sp.Freq)
			sp.BufferSize = or(lc.ROBSize, 8)
			sp.NumReqPerCycle = or(lc.ReqPerCycle, 2)
			sp.BottomUnit = lowerTops[0]
			c := rob.MakeBuilder().WithRegistrar(reg).WithSpec(sp).Build(name)
			comp = c
			s.ROBs = append(s.ROBs, c)
		case "wb":
			sp := writeback.DefaultSpec()
			sp.Freq = mhz(lc.FreqMHz, sp.Freq)
			sp.Log2BlockSize = uint64(or(int(lc.Log2Blk), 6))
			sp.WayAssociativity = or(lc.Ways, 2)
			sp.TotalByteSize = uint64(or(lc.Sets, 4)) * uint64(sp.WayAssociativity) << sp.Log2BlockSize
			sp.NumMSHREntry = or(lc.MSHR, 4)
			sp.NumBanks = or(lc.Banks, 1)
			sp.BankLatency = or(lc.BankLat, 2)
			sp.DirLatency = lc.DirLat
			sp.NumReqPerCycle = or(lc.ReqPerCycle, 1)
			sp.WriteBufferCapacity = or(lc.WriteBuf, 4)
			sp.MaxInflightFetch = or(lc.MaxFetch, 4)
			sp.MaxInflightEviction = or(lc.MaxEvict, 4)
			c := writeback.MakeBuilder().WithRegistrar(reg).WithSpec(sp).
				WithResources(writeback.Resources{AddressToPortMapper: mapper}).Build(name)
			comp = c
			s.WB = append(s.WB, c)
		default: // wa we wt
			sp := writethroughcache.DefaultSpec()
			sp.Freq = mhz(lc.FreqMHz, sp.Freq)
			sp.WritePolicyType = map[string]string{"wa": "write-around", "we": "write-evict", "wt": "write-through"}[lc.Kind]
			sp.Log2BlockSize = uint64(or(int(lc.Log2Blk), 6))
			sp.WayAssociativity = or(lc.Ways, 2)
			sp.TotalByteSize = uint64(or(lc.Sets, 4)) * uint64(sp.WayAssociativity) << sp.Log2BlockSize
			sp.NumMSHREntry = or(lc.MSHR, 4)
			sp.NumBanks = or(lc.Banks, 1)
			sp.BankLatency = or(lc.BankLat, 2)
			sp.DirLatency = or(lc.DirLat, 1)
			sp.NumReqPerCycle = or(lc.ReqPerCycle, 2)
			sp.MaxNumConcurrentTrans = or(lc.MaxTrans, 8)
			c := writethroughcache.MakeBuilder().WithRegistrar(reg).WithSpec(sp).
				WithResources(writethroughcache.Resources{AddressMapper: mapper}).Build(name)
			comp = c
			s.WT = append(s.WT, c)
		}
		assignPorts(reg, comp, pb, "Top", "Bottom", "Control")
		s.Levels[li] = comp
		lowerTops = []messaging.RemotePort{comp.GetPortByName("Top").AsRemote()}
	}

	// drivers
	for i, ds := range cfg.Drivers {
		ds.Dsts = nil
		for _, t := range lowerTops {
			ds.Dsts = append(ds.Dsts, string(t))
		}
		if ds.Interleave == 0 {
			ds.Interleave = lowerInterleave
		}
		if ds.Freq == 0 {
			ds.Freq = 1 * timing.GHz
		}
		d := sim.BuildDriver(reg, fmt.Sprintf("Driver%d", i), ds, pb)
		s.Drivers = append(s.Drivers, d)
	}

	// connections
	mkConn := func(name string) *directconnection.Comp {
		b := directconnection.MakeBuilder().WithRegistrar(reg)
		if cfg.ConnFreqMHz > 0 {
			sp := directconnection.DefaultSpec()
			sp.Freq = timing.Freq(cfg.ConnFreqMHz) * timing.MHz
			b = b.WithSpec(sp)
		}
		c := b.Build(name)
		s.Conns = append(s.Conns, c)
		return c
	}
	if !cfg.PerLinkConn {
		c := mkConn("Conn")
		for _, d := range s.Drivers {
			c.PlugIn(d.GetPortByName("Mem"))
		}
		for _, l := range s.Levels {
			c.PlugIn(l.GetPortByName("Top"))
			c.PlugIn(l.GetPortByName("Bottom"))
		}
		for _, m := range s.Mems {
			c.PlugIn(m.GetPortByName("Top"))
		}
	} else {
		// link k connects the Bottom ports above with the Top ports below
		upper := []messaging.Port{}
		for _, d := range s.Drivers {
			upper = append(upper, d.GetPortByName("Mem"))
		}
		for li, l := range s.Levels {
			c := mkConn(fmt.Sprintf("Conn%d", li))
			for _, p := range upper {
				c.PlugIn(p)
			}
			c.PlugIn(l.GetPortByName("Top"))
			upper = []messaging.Port{l.GetPortByName("Bottom")}
		}
		c := mkConn("ConnMem")
		for _, p := range upper {
			c.PlugIn(p)
		}
		for _, m := range s.Mems {
			c.PlugIn(m.GetPortByName("Top"))
		}
	}
	if cfg.WithCtrl {
		s.Ctrl = sim.BuildCtrlDriver(reg, "CtrlDriver", pb)
		c := mkConn("CtrlConn")
		c.PlugIn(s.Ctrl.GetPortByName("Ctrl"))
		for _, l := range s.Levels {
			c.PlugIn(l.GetPortByName("Control"))
		}
		for _, m := range s.Mems {
			c.PlugIn(m.GetPortByName("Control"))
		}
	}
}

