// C33 Observing a simulation does not change it.
//
// One PRNG-drawn hierarchy + workload + control history is executed several
// times: on a bare registrar that attaches nothing at all (no hook anywhere,
// so every NumHooks()==0 fast path is taken), and under PRNG-drawn sets of
// observers (the simulation's always-attached DB tracer with vis tracing off
// or on from the start, port buffer tracers, a recording tracer, the four
// aggregate tracers, engine hooks, port taps). The ID-free outcome fingerprint
// of every observed run must equal the unobserved one.
package main

import (
	"encoding/binary"
	"encoding/json"
	"fmt"
	"hash/fnv"
	"os"
	"path/filepath"
	"sort"
	"strings"

	"verifharness/kit"
	"verifharness/kit/sim"

	"github.com/sarchlab/akita/v5/hooking"
	"github.com/sarchlab/akita/v5/mem/memcontrolprotocol"
	"github.com/sarchlab/akita/v5/messaging"
	"github.com/sarchlab/akita/v5/modeling"
	"github.com/sarchlab/akita/v5/naming"
	"github.com/sarchlab/akita/v5/queueing"
	"github.com/sarchlab/akita/v5/simulation"
	"github.com/sarchlab/akita/v5/timing"
	"github.com/sarchlab/akita/v5/tracing"
)

type params struct {
	NumReqs  int `json:"num_reqs"`
	Variants int `json:"variants"` // observed runs per configuration (besides the baseline)
}

func main() {
	kit.Main(kit.Prop{
		ID:    "C33",
		Level: "exploration",
		Rule: "each case is a PRNG-drawn memory hierarchy (ROB, write-around/evict/through and write-back caches, ideal/banked/DRAM memories, 1-3 drivers), request stream and control history (none, Pause-all/Enable-all, or Reset-all in the middle of traffic) " +
			"that is executed once unobserved (bare registrar: no hook on any component, port or the engine) and then under observer sets: the three fixed ones (simulation with its DB tracer idle; with vis tracing on from the start; everything at once) plus PRNG-drawn subsets of " +
			"{simulation registrar, vis tracing, port buffer tracers, recording tracer, busy/total/average/tag-count tracers, engine hooks, port taps, push/pop hooks on the caches' stage buffers}. Judged: per-driver response log hash (order, kind, data, simulated time), issue/completion counts, " +
			"final storage content at every written byte and the end time. Non-trivial: the baseline completed >= 50 requests through at least one cache level or several memory modules and at least one observed run recorded >= 100 trace events; distinct by configuration",
		Assumptions: []string{
			"generated IDs are excluded from the fingerprint, as the property allows; whether the number of IDs consumed coincides is reported, not judged",
			"the unobserved baseline is built on a registrar that only hands out the engine; the same builder code builds every variant, so construction order is identical",
		},
		Plan: func(tier string, seed int64) []kit.Batch {
			nb, n, nreq, nv := 16, 3, 300, 6
			if tier == "thorough" {
				nb, n, nreq, nv = 48, 16, 1000, 8
			}
			var bs []kit.Batch
			for i := 0; i < nb; i++ {
				bs = append(bs, kit.Batch{Name: fmt.Sprintf("obs%d", i), Seed: seed*5851 + int64(i), N: n, Params: kit.MkParams(params{NumReqs: nreq, Variants: nv})})
			}
			return bs
		},
		Run: run,
		MustObserve: []string{"observed_runs_compared_with_unobserved_baseline", "trace_events_seen_by_recording_tracers", "engine_hook_invocations", "port_tap_events", "stage_buffer_hook_events",
			"runs_with_vis_tracing_writing_to_the_recorder", "aggregate_tracer_tasks", "baseline_runs_without_any_hook", "runs_with_a_reset_in_the_middle_of_traffic", "responses_in_compared_runs"},
	})
}

// observer bits
const (
	oSim = 1 << iota // built on a simulation.Simulation: DB tracer attached to every component (idle), port buffer tracers on every port
	oVis             // ... with vis tracing on from the start (DB tracer records into the SQLite recorder)
	oBuf             // port buffer tracers on every port (bare registrar only; the simulation installs them itself)
	oRec             // recording tracer on every component
	oAgg             // busy/total/average time + tag count tracers on every component
	oEng             // engine hooks
	oTap             // port taps on every port
	oQBuf            // hooks on the caches' internal stage buffers (queueing.Buffer push/pop hooks)
	oAll  = oSim | oVis | oRec | oAgg | oEng | oTap | oQBuf
	nBits = 8
)

func obsName(o int) string {
	if o == 0 {
		return "unobserved"
	}
	var parts []string
	for i, n := range []string{"simulation", "vis-tracing", "buffer-tracers", "recording-tracer", "aggregate-tracers", "engine-hooks", "port-taps", "stage-buffer-hooks"} {
		if o&(1<<i) != 0 {
			parts = append(parts, n)
		}
	}
	return strings.Join(parts, "+")
}

// recReg records what is registered and forwards to the inner registrar.
type recReg struct {
	inner modeling.Registrar
	comps []naming.Named
	ports []messaging.Port
}

func (r *recReg) GetEngine() timing.Engine { return r.inner.GetEngine() }
func (r *recReg) RegisterComponent(c naming.Named) {
	r.comps = append(r.comps, c)
	r.inner.RegisterComponent(c)
}
func (r *recReg) RegisterConnection(c naming.Named) { r.inner.RegisterConnection(c) }
func (r *recReg) RegisterResource(c naming.Named)   { r.inner.RegisterResource(c) }
func (r *recReg) RegisterPort(p naming.Named) {
	r.ports = append(r.ports, p.(messaging.Port))
	r.inner.RegisterPort(p)
}

type countTracer struct{ n *int64 }

func (t countTracer) StartTask(tracing.TaskStart)    { *t.n++ }
func (t countTracer) EndTask(tracing.TaskEnd)        { *t.n++ }
func (t countTracer) AddTaskTag(tracing.TaskTag)     { *t.n++ }
func (t countTracer) AddMilestone(tracing.Milestone) { *t.n++ }

func every(tracing.TaskStart) bool { return true }

type countHook struct{ n *int64 }

func (h countHook) Func(hooking.HookCtx) { *h.n++ }

type episode struct {
	At   int    `json:"at_response"`
	Kind string `json:"kind"` // pause-enable | reset
}

type outcome struct {
	Drivers   []string `json:"drivers"` // per driver: issued/completed/response-log hash/errors
	Storage   string   `json:"storage"` // hash over every written byte as the storages hold it
	Bytes     int      `json:"bytes"`
	EndTime   uint64   `json:"end_time_ps"`
	Acks      int      `json:"control_acks"`
	IDs       uint64   `json:"-"`
	Responses int      `json:"-"`
	TraceEv   int64    `json:"-"`
	EngEv     int64    `json:"-"`
	TapEv     int64    `json:"-"`
	BufEv     int64    `json:"-"`
	AggTasks  int64    `json:"-"`
	Hooks     int      `json:"-"`
	Done      bool     `json:"-"`
}

func (o outcome) key() string {
	j, _ := json.Marshal(o)
	return string(j)
}

func ctrlPort(c messaging.Component) messaging.RemotePort {
	return c.GetPortByName("Control").AsRemote()
}

// execute builds the configuration under the observer set and runs it.
func execute(cfg sim.StackCfg, eps []episode, obs int, dir string) (out outcome, err error) {
	s := &stack{Cfg: cfg}
	var rr *recReg
	var simu *simulation.Simulation
	if obs&oSim != 0 {
		os.MkdirAll(dir, 0o755)
		simu = sim.NewSim(dir, obs&oVis != 0)
		s.Engine = simu.GetEngine().(*timing.SerialEngine)
		rr = &recReg{inner: simu}
		defer func() {
			simu.Terminate()
			ms, _ := filepath.Glob(filepath.Join(dir, "out*"))
			for _, m := range ms {
				os.Remove(m)
			}
		}()
	} else {
		s.Engine = timing.NewSerialEngine()
		rr = &recReg{inner: modeling.NewStandaloneRegistrar(s.Engine)}
	}
	timing.GetIDGenerator() // make sure the (sequential) generator exists before its counter is read
	idsBefore := timing.GetIDGeneratorNextID()
	buildStack(cfg, rr, s)

	// observers
	var busy []*tracing.BusyTimeTracer
	for _, c := range rr.comps {
		d, ok := c.(tracing.NamedHookable)
		if !ok {
			continue
		}
		if obs&oRec != 0 {
			tracing.CollectTrace(d, countTracer{&out.TraceEv})
		}
		if obs&oAgg != 0 {
			b := tracing.NewBusyTimeTracer(every)
			busy = append(busy, b)
			tracing.CollectTrace(d, b)
			tracing.CollectTrace(d, tracing.NewTotalTimeTracer(every))
			tracing.CollectTrace(d, tracing.NewAverageTimeTracer(every))
			tracing.CollectTrace(d, tracing.NewTagCountTracer(every))
			tracing.CollectTrace(d, countTracer{&out.AggTasks})
		}
	}
	if obs&oBuf != 0 && obs&oSim == 0 {
		for _, p := range rr.ports {
			tracing.CollectIncomingBufferTrace(p)
			tracing.CollectOutgoingBufferTrace(p)
		}
	}
	if obs&oEng != 0 {
		s.Engine.AcceptHook(countHook{&out.EngEv})
	}
	if obs&oTap != 0 {
		for _, p := range rr.ports {
			p.AcceptHook(countHook{&out.TapEv})
		}
	}
	if obs&oQBuf != 0 {
		h := countHook{&out.BufEv}
		for _, w := range s.WB {
			st := &w.State
			for _, b := range []*queueing.Buffer[int]{&st.DirStageBuf, &st.MSHRStageBuf, &st.WriteBufferBuf, &st.DirPostPipelineBuf} {
				b.AcceptHook(h)
				out.Hooks++
			}
			for _, bs := range [][]queueing.Buffer[int]{st.DirToBankBufs, st.WriteBufferToBankBufs} {
				for i := range bs {
					bs[i].AcceptHook(h)
					out.Hooks++
				}
			}
		}
		for _, w := range s.WT {
			st := &w.State
			st.DirBuf.AcceptHook(h)
			st.DirPostBuf.AcceptHook(h)
			out.Hooks += 2
			for _, bs := range [][]queueing.Buffer[int]{st.BankBufs, st.BankPostBufs} {
				for i := range bs {
					bs[i].AcceptHook(h)
					out.Hooks++
				}
			}
		}
	}
	for _, c := range rr.comps {
		if h, ok := c.(hooking.Hookable); ok {
			out.Hooks += h.NumHooks()
		}
	}
	for _, p := range rr.ports {
		out.Hooks += p.NumHooks()
	}
	out.Hooks += s.Engine.NumHooks()

	units := append(append([]messaging.Component{}, s.Levels...), s.Mems...)
	all := func(cmd memcontrolprotocol.Command) {
		for _, u := range units {
			s.Ctrl.Send(sim.CtrlCmd{Dst: ctrlPort(u), Command: cmd})
		}
	}
	total, next := 0, 0
	trigger, armed := false, true
	for _, d := range s.Drivers {
		d.OnRsp = func(sim.RspEvent) {
			total++
			if armed && next < len(eps) && total >= eps[next].At {
				trigger, armed = true, false
				for _, q := range s.Drivers {
					q.State.Halt = true
				}
				if eps[next].Kind == "reset" {
					all(memcontrolprotocol.CmdReset)
				} else {
					all(memcontrolprotocol.CmdPause)
				}
			}
		}
	}
	for _, d := range s.Drivers {
		d.TickLater()
	}
	for {
		if err = s.Engine.Run(); err != nil {
			return out, err
		}
		if !trigger {
			break
		}
		trigger = false
		e := eps[next]
		next++
		if e.Kind == "reset" {
			// settle bottom-up, one at a time, so no transaction waits for a neighbour that dropped it
			for i := len(units) - 1; i >= 0; i-- {
				s.Ctrl.Send(sim.CtrlCmd{Dst: ctrlPort(units[i]), Command: memcontrolprotocol.CmdReset})
				if err = s.Engine.Run(); err != nil {
					return out, err
				}
			}
			for _, d := range s.Drivers {
				d.State.Inflight = nil
			}
		} else {
			all(memcontrolprotocol.CmdEnable)
			if err = s.Engine.Run(); err != nil {
				return out, err
			}
		}
		armed = true
		for _, d := range s.Drivers {
			d.State.Halt = false
			d.TickLater()
		}
	}

	// fingerprint
	out.Done = true
	sh := fnv.New64a()
	for _, d := range s.Drivers {
		st := d.State
		out.Drivers = append(out.Drivers, fmt.Sprintf("%s issued=%d completed=%d reads=%d writes=%d rsp_log=%016x last_rsp_at=%d errors=%d", d.Name(), st.Issued, st.Completed, st.Reads, st.Writes, st.RspHash, st.LastRspAt, st.ErrCount))
		out.Responses += st.Completed
		if !d.Done() {
			out.Done = false
		}
		wb := d.WrittenBytes()
		sort.Slice(wb, func(i, j int) bool {
			if wb[i][0] != wb[j][0] {
				return wb[i][0] < wb[j][0]
			}
			return wb[i][1] < wb[j][1]
		})
		for _, pa := range wb {
			got, rerr := s.storageFor(pa[1]).Read(pa[1], 1)
			if rerr != nil {
				return out, rerr
			}
			var b8 [8]byte
			binary.LittleEndian.PutUint64(b8[:], pa[1])
			sh.Write(b8[:])
			sh.Write(got)
			out.Bytes++
		}
	}
	out.Storage = fmt.Sprintf("%016x", sh.Sum64())
	out.EndTime = uint64(s.Engine.CurrentTime())
	out.Acks = len(s.Ctrl.Acks)
	out.IDs = timing.GetIDGeneratorNextID() - idsBefore
	for _, b := range busy {
		_ = b.BusyTime()
	}
	return out, nil
}

func run(b kit.Batch, r *kit.R) {
	var p params
	b.P(&p)
	r.ForEach(b.N, func(c *kit.Case) { oneCase(c, p) })
}

func oneCase(c *kit.Case, p params) {
	r := c.R
	rng := c.Rng
	cfg := sim.RandomStackCfg(rng, sim.GenOpts{NumReqs: p.NumReqs, AllowDRAM: rng.Intn(3) == 0, AllowBanked: true, MaxDrivers: 3})
	cfg.WithCtrl = true
	var eps []episode
	switch rng.Intn(3) {
	case 1:
		eps = []episode{{At: 10 + rng.Intn(p.NumReqs/2), Kind: "pause-enable"}}
	case 2:
		eps = []episode{{At: 10 + rng.Intn(p.NumReqs/2), Kind: "reset"}}
		if rng.Intn(2) == 0 {
			eps = append(eps, episode{At: eps[0].At + 10 + rng.Intn(p.NumReqs/3), Kind: []string{"reset", "pause-enable"}[rng.Intn(2)]})
		}
	}
	obsSets := []int{oSim, oSim | oVis, oAll}
	for len(obsSets) < p.Variants {
		o := rng.Intn(1 << nBits)
		if o == 0 {
			continue
		}
		if o&oVis != 0 {
			o |= oSim
		}
		if o&oSim != 0 {
			o &^= oBuf
		}
		if o&oBuf != 0 && o&(oRec|oAgg) == 0 {
			o |= oRec // buffer tracers report to the component's tracers
		}
		obsSets = append(obsSets, o)
	}
	desc := map[string]any{"cfg": cfg, "history": eps}
	c.Desc(desc)

	base, err := execute(cfg, eps, 0, r.WorkDir)
	if err != nil {
		c.Failf("observe/engine-error", "unobserved run: %v", err)
		return
	}
	if base.Hooks != 0 {
		c.Failf("observe/harness-baseline-has-hooks", "the unobserved baseline has %d hooks attached", base.Hooks)
		return
	}
	r.Count("baseline_runs_without_any_hook", 1)
	if !base.Done {
		r.Count("baselines_that_did_not_finish_their_stream(still_compared)", 1)
	}
	for _, e := range eps {
		if e.Kind == "reset" && base.Acks > 0 {
			r.Count("runs_with_a_reset_in_the_middle_of_traffic", 1)
			break
		}
	}
	maxTrace := int64(0)
	for _, o := range obsSets {
		got, err := execute(cfg, eps, o, r.WorkDir)
		name := obsName(o)
		if err != nil {
			c.Failf("observe/engine-error", "run under %s: %v", name, err)
			continue
		}
		r.Count("observed_runs_compared_with_unobserved_baseline", 1)
		r.Count("responses_in_compared_runs", int64(got.Responses))
		r.Count("trace_events_seen_by_recording_tracers", got.TraceEv)
		r.Count("engine_hook_invocations", got.EngEv)
		r.Count("port_tap_events", got.TapEv)
		r.Count("stage_buffer_hook_events", got.BufEv)
		r.Count("aggregate_tracer_tasks", got.AggTasks)
		r.Max("max_hooks_attached_in_one_run", int64(got.Hooks))
		r.Distinct("observer_sets", name)
		if o&oVis != 0 {
			r.Count("runs_with_vis_tracing_writing_to_the_recorder", 1)
		}
		if got.TraceEv > maxTrace {
			maxTrace = got.TraceEv
		}
		if got.IDs != base.IDs {
			r.Count("observed_runs_consuming_a_different_number_of_ids(not_judged)", 1)
		} else {
			r.Count("observed_runs_consuming_the_same_number_of_ids", 1)
		}
		if got.key() != base.key() {
			what := "timing"
			switch {
			case fmt.Sprint(got.Drivers) != fmt.Sprint(base.Drivers):
				what = "response-log"
			case got.Storage != base.Storage || got.Bytes != base.Bytes:
				what = "final-storage"
			case got.Acks != base.Acks:
				what = "control-acks"
			case got.EndTime != base.EndTime:
				what = "end-time"
			}
			// the smallest observer class goes into the key so that unrelated defects are not merged
			c.Fail("observe/outcome-differs:"+what, map[string]any{"observers": name, "unobserved": base, "observed": got, "case": desc})
		}
	}
	if base.Responses >= 50 && (len(cfg.Levels) > 0 || cfg.Mem.Count > 1) && maxTrace >= 100 {
		j, _ := json.Marshal(desc)
		c.Nontrivial(string(j))
	}
	var names []string
	for _, o := range obsSets {
		names = append(names, obsName(o))
	}
	c.Sample(map[string]any{"case": desc, "observer_sets": names, "unobserved_outcome": base})
}
