// Handler programs (DESIGN.md §2.2) and the reference scheduler.
//
// This file is duplicated verbatim in props/c01 and props/c02.
//
// A program is a pure description: handling event u yields children that are a
// function of (program seed, u.uid) only, never of the order in which events
// were handled. A scheduler that is obviously right (two lists kept sorted by
// time with insertion after every equal time, primary list preferred on equal
// time) can therefore predict the exact dispatch sequence of the real engine.
package main

import (
	"math/rand"
	"sort"

	"github.com/sarchlab/akita/v5/timing"
)

const maxT = ^uint64(0)

func mix(x uint64) uint64 { // splitmix64 finaliser
	x += 0x9e3779b97f4a7c15
	x = (x ^ (x >> 30)) * 0xbf58476d1ce4e5b9
	x = (x ^ (x >> 27)) * 0x94d049bb133111eb
	return x ^ (x >> 31)
}

func h2(a, b uint64) uint64 { return mix(mix(a) ^ (b + 0x632be59bd9b4e019)) }

var hnames = []string{"H0", "H1", "H2", "H3", "H4", "H5", "H6", "H7"}

// ev is the event type of handler programs.
type ev struct {
	uid   uint64
	t     uint64
	h     int
	sec   bool
	fuel  int // number of events in the subtree rooted here (itself included)
	chain int // length of the same-instant chain that ends in this event
}

func (e ev) Time() timing.VTimeInPicoSec { return timing.VTimeInPicoSec(e.t) }
func (e ev) HandlerID() string           { return hnames[e.h] }
func (e ev) IsSecondary() bool           { return e.sec }

type root struct {
	Off  uint64 `json:"off"`
	Sec  bool   `json:"sec"`
	H    int    `json:"h"`
	Fuel int    `json:"fuel"`
}

// program is the complete, serialisable description of a case.
type program struct {
	Flavor  string `json:"flavor"`
	Seed    uint64 `json:"seed"`
	H       int    `json:"handlers"`
	PZero   int    `json:"pm_delta0"`      // per mille: child at the same instant
	POne    int    `json:"pm_delta1"`      // per mille: child one picosecond later
	PLarge  int    `json:"pm_delta_large"` // per mille: child 1..Large later; otherwise 1..Small
	PSec    int    `json:"pm_secondary"`   // per mille: child is secondary
	MaxKids int    `json:"max_children"`
	Small   uint64 `json:"small"`
	Large   uint64 `json:"large"`
	Base    uint64 `json:"base_time"`
	// Phases: the roots of phase k are scheduled from outside the engine
	// (phase 0 at Base+Off, later phases at CurrentTime+Off) and then Run is
	// called; phase k+1 starts after Run returned.
	Phases    [][]root `json:"phases"`
	ProbePast bool     `json:"probe_past"` // some handlers also try to schedule an event in the past
}

func addT(t, d uint64) uint64 {
	if t+d < t {
		return t // would overflow: stay at the same instant
	}
	return t + d
}

func (p *program) rootEvent(phase, i int, base uint64) ev {
	r := p.Phases[phase][i]
	return ev{uid: h2(h2(p.Seed, uint64(phase)+1000), uint64(i)), t: addT(base, r.Off), h: r.H, sec: r.Sec, fuel: r.Fuel}
}

// children is the pure function (program, event) -> events it schedules, in
// scheduling order.
func (p *program) children(e ev) []ev {
	if e.fuel <= 1 {
		return nil
	}
	s := h2(p.Seed, e.uid)
	rest := e.fuel - 1
	k := 1 + int(s%uint64(p.MaxKids))
	if k > rest {
		k = rest
	}
	out := make([]ev, 0, k)
	for i := 0; i < k; i++ {
		s = mix(s + uint64(i))
		f := rest
		if i < k-1 {
			f = 1 + int((s>>8)%uint64(rest-(k-1-i)))
		}
		rest -= f
		s2 := mix(s)
		var d uint64
		switch r := int((s >> 20) % 1000); {
		case r < p.PZero:
			d = 0
		case r < p.PZero+p.POne:
			d = 1
		case r < p.PZero+p.POne+p.PLarge:
			d = 1 + s2%p.Large
		default:
			d = 1 + s2%p.Small
		}
		c := ev{
			uid:  h2(h2(p.Seed, e.uid), uint64(i)+1),
			t:    addT(e.t, d),
			h:    int((s2 >> 50) % uint64(p.H)),
			sec:  int((s2>>30)%1000) < p.PSec,
			fuel: f,
		}
		if c.t == e.t {
			c.chain = e.chain + 1
		}
		out = append(out, c)
	}
	return out
}

// wantsPastProbe tells whether the handler of e also tries to schedule an
// event before the current time (which the engine has to refuse).
func (p *program) wantsPastProbe(e ev) bool {
	return p.ProbePast && e.t > 0 && h2(p.Seed^0x5555, e.uid)%4 == 0
}

func (p *program) totalEvents() int {
	n := 0
	for _, ph := range p.Phases {
		for _, r := range ph {
			n += r.Fuel
		}
	}
	return n
}

// ---------------------------------------------------------------- generator

func genProgram(rng *rand.Rand, budget int) *program {
	p := &program{
		Seed: rng.Uint64(), H: 1 + rng.Intn(8), MaxKids: 1 + rng.Intn(4),
		PZero: rng.Intn(500), POne: rng.Intn(200), PLarge: rng.Intn(200), PSec: rng.Intn(500),
		Small: 1 + uint64(rng.Intn(20)), Large: 1 + uint64(rng.Int63n(1<<20)),
	}
	total := 20 + rng.Intn(budget-19)
	nPhases := 1
	if rng.Intn(3) == 0 {
		nPhases = 2 + rng.Intn(2)
	}
	nRoots := 1 + rng.Intn(8)
	rootOff := func() uint64 { return uint64(rng.Intn(30)) }
	switch rng.Intn(7) {
	case 0:
		p.Flavor = "generic"
	case 1: // few distinct times, many events per time
		p.Flavor = "tie-heavy"
		p.Small = 1 + uint64(rng.Intn(2))
		p.PZero = 300 + rng.Intn(500)
		p.PLarge = 0
		p.POne = rng.Intn(200)
		rootOff = func() uint64 { return uint64(rng.Intn(3)) }
		nRoots = 1 + rng.Intn(30)
	case 2: // long chains inside one instant, both classes
		p.Flavor = "same-instant-chains"
		p.MaxKids = 1 + rng.Intn(2)
		p.PZero = 850 + rng.Intn(150)
		p.POne = 0
		p.PLarge = 0
		p.PSec = 100 + rng.Intn(800)
		nRoots = 1 + rng.Intn(4)
	case 3: // times in the upper half of the 64-bit range
		p.Flavor = "huge-times"
		switch rng.Intn(3) {
		case 0:
			p.Base = 1<<63 - uint64(rng.Intn(1000))
		case 1:
			p.Base = maxT - uint64(rng.Int63n(1<<20))
		default:
			p.Base = rng.Uint64()
		}
		p.Large = 1 + uint64(rng.Int63n(1<<62))
		p.PLarge = 100 + rng.Intn(400)
	case 4: // a wide front of equal-time leaves: stresses the heap tie-break
		p.Flavor = "wide-front"
		nRoots = total / (1 + rng.Intn(3))
		if nRoots < 1 {
			nRoots = 1
		}
		nt := uint64(1 + rng.Intn(4))
		rootOff = func() uint64 { return uint64(rng.Int63n(int64(nt))) }
		p.PZero = rng.Intn(900)
	case 5: // secondaries that schedule primaries at their own instant
		p.Flavor = "secondary-heavy"
		p.PSec = 500 + rng.Intn(450)
		p.PZero = 400 + rng.Intn(500)
		p.Small = 1 + uint64(rng.Intn(3))
		p.PLarge = 0
	default: // sparse: every event at its own time
		p.Flavor = "sparse"
		p.PZero = rng.Intn(50)
		p.POne = rng.Intn(50)
		p.PLarge = 700
		p.Large = 1 + uint64(rng.Int63n(1<<40))
	}
	if p.Base == 0 && rng.Intn(2) == 0 {
		p.Base = uint64(rng.Intn(1000))
	}
	p.ProbePast = rng.Intn(4) == 0
	// distribute the budget over phases and roots
	for ph := 0; ph < nPhases; ph++ {
		share := total / nPhases
		if share < 1 {
			share = 1
		}
		n := nRoots
		if n > share {
			n = share
		}
		rs := make([]root, n)
		for i := range rs {
			rs[i] = root{Off: rootOff(), Sec: rng.Intn(1000) < p.PSec, H: rng.Intn(p.H), Fuel: 1}
		}
		for left := share - n; left > 0; {
			i := rng.Intn(n)
			g := 1 + rng.Intn(left)
			rs[i].Fuel += g
			left -= g
		}
		p.Phases = append(p.Phases, rs)
	}
	return p
}

// ---------------------------------------------------------------- reference

type step struct {
	uid uint64
	t   uint64
}

// refSched is the reference scheduler: two lists sorted by time; a new event
// goes behind every event with the same or an earlier time (= schedule order
// among equals); the primary list wins on equal time.
type refSched struct {
	pri, sec []ev
	now      uint64
}

func (s *refSched) push(e ev) {
	q := &s.pri
	if e.sec {
		q = &s.sec
	}
	i := sort.Search(len(*q), func(i int) bool { return (*q)[i].t > e.t })
	*q = append(*q, ev{})
	copy((*q)[i+1:], (*q)[i:])
	(*q)[i] = e
}

func (s *refSched) earliest() (t uint64, ok bool) {
	switch {
	case len(s.pri) == 0 && len(s.sec) == 0:
		return 0, false
	case len(s.sec) == 0:
		return s.pri[0].t, true
	case len(s.pri) == 0:
		return s.sec[0].t, true
	case s.pri[0].t <= s.sec[0].t:
		return s.pri[0].t, true
	}
	return s.sec[0].t, true
}

func (s *refSched) pop() ev {
	q := &s.sec
	if len(s.sec) == 0 || (len(s.pri) > 0 && s.pri[0].t <= s.sec[0].t) {
		q = &s.pri
	}
	e := (*q)[0]
	*q = (*q)[1:]
	s.now = e.t
	return e
}

// runUntil dispatches every event with time <= limit.
func (s *refSched) runUntil(p *program, limit uint64, out *[]step) {
	for {
		t, ok := s.earliest()
		if !ok || t > limit {
			return
		}
		e := s.pop()
		*out = append(*out, step{e.uid, e.t})
		for _, c := range p.children(e) {
			s.push(c)
		}
	}
}

// refRun predicts the whole dispatch sequence of the program; phaseEnd[k] is
// the number of events handled when the Run of phase k returns.
func refRun(p *program) (seq []step, phaseEnd []int) {
	s := &refSched{}
	for ph := range p.Phases {
		base := s.now
		if ph == 0 {
			base = p.Base
		}
		for i := range p.Phases[ph] {
			s.push(p.rootEvent(ph, i, base))
		}
		s.runUntil(p, maxT, &seq)
		phaseEnd = append(phaseEnd, len(seq))
	}
	return
}
