// C01 Serial engine: every event once, in time / phase / FIFO order.
//
// Deterministic handler programs (prog.go) are executed on the real
// SerialEngine (runner.go) and on a reference scheduler; the dispatch
// sequences must be identical, and independent monitors check exactly-once,
// clock, primary-before-secondary and per-class FIFO on the real run alone.
package main

import (
	"fmt"
	"io"
	"log"

	"verifharness/kit"
)

func main() {
	kit.Main(kit.Prop{
		ID:    "C01",
		Level: "exploration",
		Rule: "handler programs drawn from 7 flavours (generic, tie-heavy, same-instant chains, huge times, wide equal-time front, secondary-heavy, sparse), " +
			"1-8 handlers, 1-3 Run phases, roots scheduled from outside and children from inside handlers at delta 0/1/small/large; half of the runs with engine hooks; " +
			"a program is non-trivial when it handled >= 20 events of both classes, contained a same-instant child and had two events of one time and class pending together; " +
			"distinct by the hash of the dispatch sequence",
		Assumptions: []string{
			"handlers only schedule at times >= CurrentTime (attempts in the past are made separately and must be refused by a panic)",
			"single goroutine; Pause/Continue are not used (C05)",
			"the reference scheduler (two time-sorted lists, insertion behind equal times, primary list first on equal time) is taken as the meaning of the statement",
		},
		Plan: func(tier string, seed int64) []kit.Batch {
			nb, n, budget := 16, 1000, 600
			if tier == "thorough" {
				nb, n, budget = 64, 1500, 5000
			}
			var bs []kit.Batch
			for i := 0; i < nb; i++ {
				bn, bb := n, budget
				if tier != "thorough" && i%8 == 7 {
					// two batches of few but big programs: thousands of events pending at once
					// (queue growth / shrink paths), which the small-program batches never reach
					bn, bb = n/12, 6000
				}
				bs = append(bs, kit.Batch{Name: fmt.Sprintf("prog%d", i), Seed: seed*1000 + int64(i), N: bn,
					Params: kit.MkParams(map[string]int{"budget": bb})})
			}
			return bs
		},
		Run: run,
		MustObserve: []string{"events_handled", "programs_with_hooks", "programs_without_hooks", "same_instant_children",
			"primaries_scheduled_by_a_secondary_at_its_instant", "schedules_with_equal_time_and_class_pending", "past_schedules_refused",
			"programs_with_several_run_phases"},
	})
}

func run(b kit.Batch, r *kit.R) {
	log.SetOutput(io.Discard) // the refused past-time probes log through log.Panic
	var prm struct {
		Budget int `json:"budget"`
	}
	b.P(&prm)
	r.ForEach(b.N, func(c *kit.Case) {
		p := genProgram(c.Rng, prm.Budget)
		hooked := c.Rng.Intn(2) == 0
		c.Desc(map[string]any{"program": p, "hooks": hooked})

		want, wantPhaseEnd := refRun(p)

		rr := newRunner(p, hooked)
		defer func() { // also when akita code panics in the middle of the case
			seen := map[string]bool{}
			for _, f := range rr.fails {
				if !seen[f.key] {
					seen[f.key] = true
					c.Failf(f.key, "%s", f.msg)
				}
			}
		}()
		for ph := range p.Phases {
			rr.scheduleRoots(ph)
			if err := rr.eng.Run(); err != nil {
				rr.fail("serial/run-error", "Run returned %v", err)
			}
			// Run returns only once no event remains.
			if e, left := rr.pendingAtOrBefore(maxT); left {
				rr.fail("serial/run-returned-early", "Run of phase %d returned with event %x @%d (secondary=%v) still queued", ph, e.uid, e.t, e.sec)
			}
			if len(rr.steps) != wantPhaseEnd[ph] {
				rr.fail("serial/order-differs-from-reference", "phase %d: %d events handled when Run returned, reference %d", ph, len(rr.steps), wantPhaseEnd[ph])
			}
			if n := len(rr.steps); n > 0 && uint64(rr.eng.CurrentTime()) != rr.steps[n-1].t {
				rr.fail("serial/clock-not-event-time", "after Run CurrentTime()=%d, last handled event at %d", rr.eng.CurrentTime(), rr.steps[n-1].t)
			}
		}
		rr.checkComplete("after the last Run")
		if i := firstDiff(rr.steps, want); i >= 0 {
			rr.fail("serial/order-differs-from-reference", "dispatch sequence differs from the reference at step %d: engine %v, reference %v",
				i, window(rr.steps, i), window(want, i))
		}
		// a further Run on the drained engine must not handle anything
		n0 := len(rr.steps)
		_ = rr.eng.Run()
		if len(rr.steps) != n0 {
			rr.fail("serial/handled-twice", "Run on a drained engine handled %d more events", len(rr.steps)-n0)
		}

		// observations
		nSec, nZero := 0, 0
		for _, in := range rr.info {
			if in.e.sec {
				nSec++
			}
			if in.e.chain > 0 {
				nZero++
			}
		}
		r.Count("events_handled", int64(len(rr.steps)))
		r.Count("events_secondary", int64(nSec))
		r.Count("same_instant_children", int64(nZero))
		r.Count("primaries_scheduled_by_a_secondary_at_its_instant", int64(rr.secToPriSame))
		r.Count("schedules_with_equal_time_and_class_pending", int64(rr.tiesPending))
		r.Count("past_schedules_refused", int64(rr.pastRefused))
		r.Count("hook_firings", int64(rr.nBefore+rr.nAfter))
		if hooked {
			r.Count("programs_with_hooks", 1)
		} else {
			r.Count("programs_without_hooks", 1)
		}
		if len(p.Phases) > 1 {
			r.Count("programs_with_several_run_phases", 1)
		}
		r.Count("programs_flavor_"+p.Flavor, 1)
		r.Max("max_events_in_one_program", int64(len(rr.steps)))
		r.Max("max_pending_events", int64(rr.maxPending))
		r.Max("max_same_instant_chain_depth", int64(rr.maxChain))
		r.Max("max_events_handled_at_one_instant", int64(rr.maxSameTime))
		r.Distinct("same_instant_chain_depth_log2", fmt.Sprint(log2(rr.maxChain)))
		r.Distinct("dispatch_order_hashes", fmt.Sprintf("%x", seqHash(rr.steps)))
		nontrivial := len(rr.steps) >= 20 && nSec > 0 && nSec < len(rr.steps) && nZero > 0 && rr.tiesPending > 0
		if nontrivial {
			c.Nontrivial(fmt.Sprintf("%x", seqHash(rr.steps)))
		}
		if nontrivial && len(rr.steps) <= 40 {
			var seq []string
			for _, s := range rr.steps {
				e := rr.info[s.uid].e
				cls := "P"
				if e.sec {
					cls = "S"
				}
				seq = append(seq, fmt.Sprintf("%s@%d/%s#%d", cls, e.t, hnames[e.h], rr.info[s.uid].schedIdx))
			}
			c.Sample(map[string]any{"program": p, "hooks": hooked, "dispatch(class@time/handler#scheduleIndex)": seq})
		}
	})
}

func log2(n int) int {
	k := 0
	for n > 1 {
		n >>= 1
		k++
	}
	return k
}
