// Runs a handler program on the real SerialEngine and monitors it.
//
// This file is duplicated verbatim in props/c01 and props/c02.
package main

import (
	"fmt"

	"github.com/sarchlab/akita/v5/hooking"
	"github.com/sarchlab/akita/v5/timing"
)

type evInfo struct {
	e        ev
	schedIdx int
	handled  int
}

type failure struct{ key, msg string }

// runner owns one engine and logs every Schedule and every Handle.
type runner struct {
	p        *program
	eng      *timing.SerialEngine
	hooked   bool
	steps    []step
	info     map[uint64]*evInfo
	nSched   int
	pendPri  map[uint64]int // scheduled-but-unhandled primaries per time
	pending  int
	lastT    uint64
	lastFIFO map[[2]uint64]int // (time, class) -> schedIdx of the last handled event of the class
	fails    []failure

	// hook bracket automaton: 0 idle, 1 after Before(uid), 2 after Handle(uid)
	hookState int
	hookUID   uint64
	nBefore   int
	nAfter    int

	// observations
	maxPending   int
	maxChain     int
	secToPriSame int // primaries scheduled by a secondary at its own instant
	pastRefused  int
	sameTimeRun  int // current run length of equal (time, class)
	maxSameTime  int
	tiesPending  int // events scheduled while an event of the same time and class was pending
	pendClass    map[[2]uint64]int
}

func (r *runner) fail(key, format string, a ...any) {
	if len(r.fails) < 20 {
		r.fails = append(r.fails, failure{key, fmt.Sprintf(format, a...)})
	}
}

type hnd struct {
	r   *runner
	idx int
}

type engHook struct{ r *runner }

func newRunner(p *program, hooked bool) *runner {
	r := &runner{p: p, eng: timing.NewSerialEngine(), hooked: hooked,
		info: map[uint64]*evInfo{}, pendPri: map[uint64]int{}, lastFIFO: map[[2]uint64]int{},
		pendClass: map[[2]uint64]int{}}
	for i := 0; i < p.H; i++ {
		r.eng.RegisterHandler(hnames[i], &hnd{r, i})
	}
	if hooked {
		r.eng.AcceptHook(&engHook{r})
	}
	return r
}

func classKey(e ev) [2]uint64 {
	if e.sec {
		return [2]uint64{e.t, 1}
	}
	return [2]uint64{e.t, 0}
}

// schedule logs and forwards to the engine.
func (r *runner) schedule(e ev) {
	if _, dup := r.info[e.uid]; dup {
		panic("harness: uid collision")
	}
	r.info[e.uid] = &evInfo{e: e, schedIdx: r.nSched}
	r.nSched++
	r.pending++
	if r.pending > r.maxPending {
		r.maxPending = r.pending
	}
	if !e.sec {
		r.pendPri[e.t]++
	}
	k := classKey(e)
	if r.pendClass[k] > 0 {
		r.tiesPending++
	}
	r.pendClass[k]++
	r.eng.Schedule(e)
}

func (r *runner) scheduleRoots(phase int) {
	base := uint64(r.eng.CurrentTime())
	if phase == 0 {
		base = r.p.Base
	}
	for i := range r.p.Phases[phase] {
		r.schedule(r.p.rootEvent(phase, i, base))
	}
}

// probePast tries to schedule an event before the current time; the engine
// documents (and C01's mechanism relies on) refusing it with a panic.
func (r *runner) probePast(now uint64, h int) {
	defer func() {
		if recover() != nil {
			r.pastRefused++
		}
	}()
	d := 1 + h2(r.p.Seed, now)%3
	if d > now {
		d = now
	}
	r.eng.Schedule(ev{uid: 0xdead, t: now - d, h: h})
	r.fail("serial/past-event-accepted", "Schedule accepted an event at %d while CurrentTime is %d", now-d, now)
}

func (h *hnd) Handle(e timing.Event) error {
	r := h.r
	x, ok := e.(ev)
	if !ok {
		r.fail("serial/unknown-event", "handler got %T", e)
		return nil
	}
	now := uint64(r.eng.CurrentTime())
	in := r.info[x.uid]
	if in == nil {
		r.fail("serial/unknown-event", "handled uid %x that was never scheduled", x.uid)
		return nil
	}
	if in.e != x {
		r.fail("serial/event-altered", "event %x scheduled as %+v handled as %+v", x.uid, in.e, x)
	}
	if x.h != h.idx {
		r.fail("serial/wrong-handler", "event for %s delivered to %s", hnames[x.h], hnames[h.idx])
	}
	if r.hooked {
		if r.hookState != 1 || r.hookUID != x.uid {
			r.fail("serial/hooks", "Handle(%x) not preceded by its BeforeEvent hook (state %d uid %x)", x.uid, r.hookState, r.hookUID)
		}
		r.hookState = 2
	}
	in.handled++
	if in.handled == 2 {
		r.fail("serial/handled-twice", "event %x @%d handled again at step %d", x.uid, x.t, len(r.steps))
	}
	if in.handled == 1 {
		r.pending--
		r.pendClass[classKey(x)]--
		if !x.sec {
			r.pendPri[x.t]--
		}
	}
	if now != x.t {
		r.fail("serial/clock-not-event-time", "CurrentTime()=%d inside the handler of event %x with Time()=%d", now, x.uid, x.t)
	}
	if len(r.steps) > 0 && x.t < r.lastT {
		r.fail("serial/time-decreased", "step %d: event at %d handled after an event at %d", len(r.steps), x.t, r.lastT)
	}
	if x.sec && r.pendPri[x.t] > 0 {
		r.fail("serial/secondary-before-primary", "step %d: secondary %x handled at %d while %d primary event(s) for %d are pending",
			len(r.steps), x.uid, x.t, r.pendPri[x.t], x.t)
	}
	k := classKey(x)
	if last, seen := r.lastFIFO[k]; seen && last > in.schedIdx {
		r.fail("serial/fifo", "step %d: event %x (time %d, secondary=%v, scheduled #%d) handled after one of the same time and class scheduled later (#%d)",
			len(r.steps), x.uid, x.t, x.sec, in.schedIdx, last)
	}
	r.lastFIFO[k] = in.schedIdx
	if len(r.steps) > 0 && r.lastT == x.t {
		r.sameTimeRun++
	} else {
		r.sameTimeRun = 1
	}
	if r.sameTimeRun > r.maxSameTime {
		r.maxSameTime = r.sameTimeRun
	}
	if x.chain > r.maxChain {
		r.maxChain = x.chain
	}
	r.lastT = x.t
	r.steps = append(r.steps, step{x.uid, x.t})

	for _, c := range r.p.children(x) {
		if x.sec && !c.sec && c.t == x.t {
			r.secToPriSame++
		}
		r.schedule(c)
	}
	if r.p.wantsPastProbe(x) {
		r.probePast(now, x.h)
	}
	return nil
}

func (h *engHook) Func(ctx hooking.HookCtx) {
	r := h.r
	x, ok := ctx.Item.(ev)
	if !ok {
		r.fail("serial/hooks", "hook item is %T", ctx.Item)
		return
	}
	if ctx.Domain != hooking.Hookable(r.eng) {
		r.fail("serial/hooks", "hook domain is not the engine")
	}
	switch ctx.Pos {
	case timing.HookPosBeforeEvent:
		r.nBefore++
		if r.hookState != 0 {
			r.fail("serial/hooks", "BeforeEvent(%x) while event %x is still open (state %d)", x.uid, r.hookUID, r.hookState)
		}
		if uint64(r.eng.CurrentTime()) != x.t {
			r.fail("serial/clock-not-event-time", "CurrentTime()=%d in BeforeEvent of event @%d", r.eng.CurrentTime(), x.t)
		}
		r.hookState, r.hookUID = 1, x.uid
	case timing.HookPosAfterEvent:
		r.nAfter++
		if r.hookState != 2 || r.hookUID != x.uid {
			r.fail("serial/hooks", "AfterEvent(%x) without Before+Handle of the same event (state %d uid %x)", x.uid, r.hookState, r.hookUID)
		}
		r.hookState = 0
	default:
		r.fail("serial/hooks", "unexpected hook position %v", ctx.Pos)
	}
}

// pendingAtOrBefore returns a scheduled, not yet handled event with time <= t.
func (r *runner) pendingAtOrBefore(t uint64) (ev, bool) {
	for _, in := range r.info {
		if in.handled == 0 && in.e.t <= t {
			return in.e, true
		}
	}
	return ev{}, false
}

// checkComplete: every scheduled event handled exactly once, hooks balanced.
func (r *runner) checkComplete(where string) {
	for _, in := range r.info {
		if in.handled == 0 {
			r.fail("serial/lost-event", "%s: event %x @%d (secondary=%v) was scheduled but never handled", where, in.e.uid, in.e.t, in.e.sec)
			break
		}
	}
	if r.hooked && (r.hookState != 0 || r.nBefore != len(r.steps) || r.nAfter != len(r.steps)) {
		r.fail("serial/hooks", "%s: %d handled, %d BeforeEvent, %d AfterEvent, state %d", where, len(r.steps), r.nBefore, r.nAfter, r.hookState)
	}
	if !r.hooked && r.nBefore+r.nAfter > 0 {
		r.fail("serial/hooks", "hooks fired without being attached")
	}
}

// firstDiff returns the first index where two dispatch sequences differ, or -1.
func firstDiff(a, b []step) int {
	n := len(a)
	if len(b) < n {
		n = len(b)
	}
	for i := 0; i < n; i++ {
		if a[i] != b[i] {
			return i
		}
	}
	if len(a) != len(b) {
		return n
	}
	return -1
}

func window(s []step, i int) []string {
	var out []string
	for j := i - 2; j <= i+2; j++ {
		if j >= 0 && j < len(s) {
			out = append(out, fmt.Sprintf("#%d uid=%x t=%d", j, s[j].uid, s[j].t))
		}
	}
	return out
}

func seqHash(s []step) uint64 {
	h := uint64(1469598103934665603)
	for _, x := range s {
		h = mix(h ^ x.uid)
		h = mix(h ^ x.t)
	}
	return h
}
