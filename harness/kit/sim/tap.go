package sim

import (
	"fmt"
	"strings"
	"sync"

	"github.com/sarchlab/akita/v5/hooking"
	"github.com/sarchlab/akita/v5/messaging"
	"github.com/sarchlab/akita/v5/timing"
)

// TapRec is one observed port event.
type TapRec struct {
	Pos  string // send | recv | retr_in | retr_out
	Port string
	Time timing.VTimeInPicoSec
	Msg  messaging.Msg
}

// Tap is a port hook that only appends to a log (it never calls back into the
// port: Send/Recvd hooks run under the port lock).
type Tap struct {
	mu     sync.Mutex
	now    func() timing.VTimeInPicoSec
	Keep   bool
	Filter func(pos string, port string) bool
	Recs   []TapRec
	Counts map[string]int // "<port-suffix>/<pos>/<msg type>"
}

func posName(p *hooking.HookPos) string {
	switch p {
	case messaging.HookPosPortMsgSend:
		return "send"
	case messaging.HookPosPortMsgRecvd:
		return "recv"
	case messaging.HookPosPortMsgRetrieveIncoming:
		return "retr_in"
	case messaging.HookPosPortMsgRetrieveOutgoing:
		return "retr_out"
	}
	return ""
}

// Func implements hooking.Hook.
func (t *Tap) Func(ctx hooking.HookCtx) {
	pos := posName(ctx.Pos)
	if pos == "" {
		return
	}
	port := ctx.Domain.(messaging.Port).Name()
	msg, _ := ctx.Item.(messaging.Msg)
	t.mu.Lock()
	defer t.mu.Unlock()
	t.Counts[fmt.Sprintf("%s/%s/%T", port, pos, msg)]++
	if t.Keep && (t.Filter == nil || t.Filter(pos, port)) {
		t.Recs = append(t.Recs, TapRec{Pos: pos, Port: port, Time: t.now(), Msg: msg})
	}
}

// AttachTap hooks the given ports.
func AttachTap(ports []messaging.Port, now func() timing.VTimeInPicoSec, keep bool) *Tap {
	t := &Tap{now: now, Keep: keep, Counts: map[string]int{}}
	for _, p := range ports {
		p.AcceptHook(t)
	}
	return t
}

// CountMatching sums counters whose key contains all the given substrings.
func (t *Tap) CountMatching(subs ...string) int {
	n := 0
	for k, v := range t.Counts {
		ok := true
		for _, s := range subs {
			if !strings.Contains(k, s) {
				ok = false
				break
			}
		}
		if ok {
			n += v
		}
	}
	return n
}

// MsgHash is a port hook that keeps a running hash over every port event
// (position, port, time, message type and full metadata including IDs).
type MsgHash struct {
	mu  sync.Mutex
	now func() timing.VTimeInPicoSec
	N   int
	h   uint64
}

// Func implements hooking.Hook.
func (t *MsgHash) Func(ctx hooking.HookCtx) {
	pos := posName(ctx.Pos)
	if pos == "" {
		return
	}
	msg, _ := ctx.Item.(messaging.Msg)
	if msg == nil {
		return
	}
	m := msg.Meta()
	t.mu.Lock()
	t.N++
	s := fmt.Sprintf("%x|%s|%s|%d|%T|%d|%s|%s|%d|%s|%d", t.h, pos, ctx.Domain.(messaging.Port).Name(), t.now(), msg, m.ID, m.Src, m.Dst, m.RspTo, m.TrafficClass, m.TrafficBytes)
	var h uint64 = 14695981039346656037
	for i := 0; i < len(s); i++ {
		h ^= uint64(s[i])
		h *= 1099511628211
	}
	t.h = h
	t.mu.Unlock()
}

// Hash returns the running hash.
func (t *MsgHash) Hash() string { return fmt.Sprintf("%016x", t.h) }

// AttachMsgHash hooks the ports.
func AttachMsgHash(ports []messaging.Port, now func() timing.VTimeInPicoSec) *MsgHash {
	t := &MsgHash{now: now}
	for _, p := range ports {
		p.AcceptHook(t)
	}
	return t
}
