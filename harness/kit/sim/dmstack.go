package sim

import (
	"encoding/binary"
	"encoding/json"
	"fmt"
	"hash/fnv"
	"math/rand"

	"github.com/sarchlab/akita/v5/mem"
	"github.com/sarchlab/akita/v5/mem/datamover"
	"github.com/sarchlab/akita/v5/mem/datamoverprotocol"
	"github.com/sarchlab/akita/v5/mem/idealmemcontroller"
	"github.com/sarchlab/akita/v5/messaging"
	"github.com/sarchlab/akita/v5/modeling"
	"github.com/sarchlab/akita/v5/noc/directconnection"
	"github.com/sarchlab/akita/v5/simulation"
	"github.com/sarchlab/akita/v5/timing"
)

// Assembly kind "dm": one datamover.Comp between two groups of ideal memory
// controllers (inside / outside, 1-2 interleaved controllers per side, each
// with its own registered storage) and a serialisable requester that issues a
// script of DataMoveRequests.

const dmCapacity = 16 * 1024

// DMSideCfg is one side of the data mover.
type DMSideCfg struct {
	Granule    uint64 `json:"granule"`
	Ctrls      int    `json:"controllers"`
	Interleave uint64 `json:"interleave"`
	Latency    []int  `json:"latency"`
	Width      []int  `json:"width"`
	MHz        []int  `json:"mhz"`
}

// DMMove is one scripted move. Moves of one burst may be queued together at the mover.
type DMMove struct {
	Idx     int    `json:"idx"`
	Burst   int    `json:"burst"`
	SrcSide string `json:"src_side"`
	DstSide string `json:"dst_side"`
	Src     uint64 `json:"src"`
	Dst     uint64 `json:"dst"`
	Size    uint64 `json:"size"`
	Class   string `json:"size_class"`
}

// DMCfg describes a data-mover assembly.
type DMCfg struct {
	Seed       int64     `json:"seed"` // memory prefill
	Inside     DMSideCfg `json:"inside"`
	Outside    DMSideCfg `json:"outside"`
	BufferSize uint64    `json:"buffer_size"`
	PortBuf    int       `json:"port_buf"`
	MemPortBuf int       `json:"mem_port_buf"`
	ReqPortBuf int       `json:"req_port_buf"`
	DMMHz      int       `json:"dm_mhz"`
	ReqMHz     int       `json:"req_mhz"`
	ReqSeed    uint64    `json:"req_seed"`
	IdlePct    int       `json:"idle_pct"`
	Moves      []DMMove  `json:"moves"`
	Tracing    bool      `json:"tracing"`
}

func (c DMCfg) side(name string) DMSideCfg {
	if name == "inside" {
		return c.Inside
	}
	return c.Outside
}

// DMReqSpec configures the requester.
type DMReqSpec struct {
	Freq     timing.Freq `json:"freq"`
	Seed     uint64      `json:"seed"`
	IdlePct  int         `json:"idle_pct"`
	Dst      string      `json:"dst"`
	NumMoves int         `json:"num_moves"`
}

// DMOutstanding is a request that was sent and not yet acknowledged.
type DMOutstanding struct {
	ID     uint64 `json:"id"`
	Idx    int    `json:"idx"`
	Burst  int    `json:"burst"`
	SentAt uint64 `json:"sent_at"`
}

// DMReqState is the whole mutable state of the requester: the script that is
// still to be sent, what is outstanding, and a hash of acknowledgment order and times.
type DMReqState struct {
	Rng         uint64          `json:"rng"`
	Queue       []DMMove        `json:"queue"`
	Outstanding []DMOutstanding `json:"outstanding"`
	Sent        int             `json:"sent"`
	Acked       int             `json:"acked"`
	SentIdx     []int           `json:"sent_idx"`
	AckedIdx    []int           `json:"acked_idx"`
	AckHash     uint64          `json:"ack_hash"`
	LastAckAt   uint64          `json:"last_ack_at"`
	MaxQueued   int             `json:"max_queued"` // most requests outstanding at once
	IdleTicks   int             `json:"idle_ticks"`
	Errors      int             `json:"errors"` // acknowledgments that match no outstanding request
}

// DMRequester is the scripted requester.
type DMRequester struct {
	*modeling.Component[DMReqSpec, DMReqState, modeling.None]
}

type dmReqMW struct{ q *DMRequester }

func (q *DMRequester) next() uint64 {
	x := q.State.Rng
	x ^= x >> 12
	x ^= x << 25
	x ^= x >> 27
	q.State.Rng = x
	return x * 2685821657736338717
}

// Done reports whether the whole script was sent and acknowledged.
func (q *DMRequester) Done() bool { return len(q.State.Queue) == 0 && len(q.State.Outstanding) == 0 }

func (m *dmReqMW) Tick() bool {
	q := m.q
	st := &q.State
	sp := q.Spec()
	port := q.GetPortByName("Out")
	now := uint64(q.CurrentTime())
	progress := false
	for {
		msg := port.RetrieveIncoming()
		if msg == nil {
			break
		}
		progress = true
		rspTo := msg.Meta().RspTo
		k := -1
		for i, o := range st.Outstanding {
			if o.ID == rspTo {
				k = i
				break
			}
		}
		if _, isAck := msg.(datamoverprotocol.DataMoveResponse); !isAck || k < 0 {
			st.Errors++
			continue
		}
		o := st.Outstanding[k]
		st.Outstanding = append(st.Outstanding[:k], st.Outstanding[k+1:]...)
		st.Acked++
		st.AckedIdx = append(st.AckedIdx, o.Idx)
		st.LastAckAt = now
		h := fnv.New64a()
		var b8 [8]byte
		for _, v := range []uint64{st.AckHash, uint64(o.Idx), o.SentAt, now} {
			binary.LittleEndian.PutUint64(b8[:], v)
			h.Write(b8[:])
		}
		st.AckHash = h.Sum64()
	}
	if len(st.Queue) == 0 {
		return progress
	}
	mv := st.Queue[0]
	// a new burst starts only when everything before it is acknowledged
	if len(st.Outstanding) > 0 && st.Outstanding[0].Burst != mv.Burst {
		return progress // woken by the awaited acknowledgment
	}
	if sp.IdlePct > 0 && int(q.next()%100) < sp.IdlePct {
		st.IdleTicks++
		return true
	}
	if !port.CanSend() {
		return progress // woken when the port frees up
	}
	req := datamoverprotocol.DataMoveRequest{SrcAddress: mv.Src, DstAddress: mv.Dst, ByteSize: mv.Size,
		SrcSide: datamoverprotocol.DataMovePort(mv.SrcSide), DstSide: datamoverprotocol.DataMovePort(mv.DstSide)}
	req.ID = timing.GetIDGenerator().Generate()
	req.Src, req.Dst = port.AsRemote(), messaging.RemotePort(sp.Dst)
	req.TrafficBytes, req.TrafficClass = 40, "datamoverprotocol.DataMoveRequest"
	port.Send(req)
	st.Queue = st.Queue[1:]
	st.Outstanding = append(st.Outstanding, DMOutstanding{ID: req.ID, Idx: mv.Idx, Burst: mv.Burst, SentAt: now})
	st.Sent++
	st.SentIdx = append(st.SentIdx, mv.Idx)
	if len(st.Outstanding) > st.MaxQueued {
		st.MaxQueued = len(st.Outstanding)
	}
	return true
}

// DMStack is a built data-mover assembly.
type DMStack struct {
	Cfg      DMCfg
	Sim      *simulation.Simulation
	Eng      *timing.SerialEngine
	Req      *DMRequester
	DM       *datamover.Comp
	Mems     map[string][]*idealmemcontroller.Comp
	Storages map[string][]*mem.Storage
	Dir      string
}

func dmPort(reg modeling.Registrar, comp messaging.Component, name string, buf int) messaging.Port {
	p := modeling.MakePortBuilder().WithRegistrar(reg).WithComponent(comp).WithSpec(modeling.PortSpec{BufSize: buf}).Build(name)
	comp.AssignPort(name, p)
	return p
}

// BuildDMStack builds the assembly described by cfg. dir is a scratch dir.
func BuildDMStack(cfg DMCfg, dir string) *DMStack {
	s := &DMStack{Cfg: cfg, Dir: dir, Mems: map[string][]*idealmemcontroller.Comp{}, Storages: map[string][]*mem.Storage{}}
	s.Sim = NewSim(dir, cfg.Tracing)
	s.Eng = s.Sim.GetEngine().(*timing.SerialEngine)
	reg := s.Sim
	fill := rand.New(rand.NewSource(cfg.Seed))

	memPorts := map[string][]messaging.Port{}
	for _, side := range []string{"inside", "outside"} {
		sc := cfg.side(side)
		for i := 0; i < sc.Ctrls; i++ {
			name := fmt.Sprintf("Mem%s%d", side, i)
			sp := idealmemcontroller.DefaultSpec()
			sp.Freq, sp.Latency, sp.Width, sp.Capacity = mhz(sc.MHz[i], 1*timing.GHz), sc.Latency[i], or(sc.Width[i], 1), dmCapacity
			mc := idealmemcontroller.MakeBuilder().WithRegistrar(reg).WithSpec(sp).Build(name) // builds and registers its own storage
			data := make([]byte, dmCapacity)
			fill.Read(data)
			if err := mc.Resources().Storage.Write(0, data); err != nil {
				panic(err)
			}
			memPorts[side] = append(memPorts[side], dmPort(reg, mc, "Top", or(cfg.MemPortBuf, 2)))
			dmPort(reg, mc, "Control", 1)
			s.Mems[side] = append(s.Mems[side], mc)
			s.Storages[side] = append(s.Storages[side], mc.Resources().Storage)
		}
	}
	mapper := func(side string) mem.AddressToPortMapper {
		sc := cfg.side(side)
		if sc.Ctrls == 1 {
			return &mem.SinglePortMapper{Port: memPorts[side][0].AsRemote()}
		}
		m := mem.NewInterleavedAddressPortMapper(sc.Interleave)
		for _, p := range memPorts[side] {
			m.LowModules = append(m.LowModules, p.AsRemote())
		}
		return m
	}
	spec := datamover.DefaultSpec()
	spec.Freq = mhz(cfg.DMMHz, 1*timing.GHz)
	spec.BufferSize = cfg.BufferSize
	spec.InsideByteGranularity = cfg.Inside.Granule
	spec.OutsideByteGranularity = cfg.Outside.Granule
	s.DM = datamover.MakeBuilder().WithRegistrar(reg).WithSpec(spec).
		WithResources(datamover.Resources{InsideMapper: mapper("inside"), OutsideMapper: mapper("outside")}).Build("DM")
	pb := or(cfg.PortBuf, 2)
	top := dmPort(reg, s.DM, "Top", pb)
	sidePort := map[string]messaging.Port{"inside": dmPort(reg, s.DM, "Inside", pb), "outside": dmPort(reg, s.DM, "Outside", pb)}
	dmPort(reg, s.DM, "Control", 1)

	rs := DMReqSpec{Freq: mhz(cfg.ReqMHz, 1*timing.GHz), Seed: cfg.ReqSeed, IdlePct: cfg.IdlePct, Dst: string(top.AsRemote()), NumMoves: len(cfg.Moves)}
	c := modeling.NewBuilder[DMReqSpec, DMReqState, modeling.None]().WithEngine(reg.GetEngine()).WithFreq(rs.Freq).WithSpec(rs).Build("Req")
	c.State = DMReqState{Rng: rs.Seed*2654435761 + 0x9E3779B97F4A7C15, Queue: append([]DMMove(nil), cfg.Moves...)}
	c.DeclarePort("Out", datamoverprotocol.Requester)
	s.Req = &DMRequester{Component: c}
	c.AddMiddleware(&dmReqMW{q: s.Req})
	reg.RegisterComponent(s.Req)
	out := dmPort(reg, s.Req, "Out", or(cfg.ReqPortBuf, 4))

	connTop := directconnection.MakeBuilder().WithRegistrar(reg).Build("ConnTop")
	connTop.PlugIn(top)
	connTop.PlugIn(out)
	for _, side := range []string{"inside", "outside"} {
		conn := directconnection.MakeBuilder().WithRegistrar(reg).Build("Conn" + side)
		conn.PlugIn(sidePort[side])
		for _, p := range memPorts[side] {
			conn.PlugIn(p)
		}
	}
	return s
}

// Start kicks the requester.
func (s *DMStack) Start() { s.Req.TickLater() }

// Close terminates the simulation.
func (s *DMStack) Close() { (&Stack{Sim: s.Sim, Dir: s.Dir}).Close() }

// AllPorts lists every registered port.
func (s *DMStack) AllPorts() []messaging.Port {
	var out []messaging.Port
	for _, p := range s.Sim.Ports() {
		out = append(out, p.(messaging.Port))
	}
	return out
}

// DMAssembly adapts DMStack to Assembly.
type DMAssembly struct{ *DMStack }

func (a DMAssembly) Engine() *timing.SerialEngine      { return a.Eng }
func (a DMAssembly) SaveCheckpoint(p, id string) error { return a.Sim.SaveCheckpoint(p, id) }
func (a DMAssembly) LoadCheckpoint(p, id string) error { return a.Sim.LoadCheckpoint(p, id) }
func (a DMAssembly) Ports() []messaging.Port           { return a.AllPorts() }
func (a DMAssembly) Done() (bool, int)                 { return a.Req.Done(), a.Req.State.Errors }
func (a DMAssembly) Payloads(dir string) (map[string][]byte, error) {
	m, _, err := EntityPayloads(a.Sim, dir, "digest")
	return m, err
}
func (a DMAssembly) InFlight() int {
	n := len(a.Req.State.Outstanding)
	for _, p := range a.Sim.Ports() {
		n += p.NumIncoming() + p.NumOutgoing()
	}
	return n
}

// ---------------------------------------------------------------- generator

func dmRoundUp(v, g uint64) uint64 { return (v + g - 1) / g * g }

func dmOverlap(a, an, b, bn uint64) bool { return a < b+bn && b < a+an }

// RandomDMCfg draws a data mover with a script of nmoves moves: granule-aligned
// addresses, sizes that are multiples of both / one / neither granule or below
// one granule, sent singly or in bursts that queue at the mover. Source and
// destination ranges of one move do not overlap, and among the moves of one
// burst nobody's source overlaps somebody else's destination.
func RandomDMCfg(rng *rand.Rand, nmoves int) DMCfg {
	gran := []uint64{16, 32, 64, 128, 256}
	if rng.Intn(4) == 0 { // granules that do not divide each other
		gran = []uint64{16, 24, 48, 64, 96, 160, 256}
	}
	c := DMCfg{Seed: rng.Int63(), PortBuf: pick(rng, 1, 2, 4, 8), MemPortBuf: pick(rng, 1, 2, 4, 8), ReqPortBuf: pick(rng, 1, 2, 4),
		DMMHz: pick(rng, 1000, 1000, 500, 1300), ReqMHz: pick(rng, 1000, 1000, 800), ReqSeed: uint64(rng.Int63()), IdlePct: pick(rng, 0, 0, 30)}
	sameG := rng.Intn(4) == 0
	mkSide := func(outside bool) DMSideCfg {
		sc := DMSideCfg{Granule: gran[rng.Intn(len(gran))], Ctrls: 1 + rng.Intn(2)}
		if sameG && outside {
			sc.Granule = c.Inside.Granule
		}
		sc.Interleave = sc.Granule << uint(rng.Intn(3))
		for i := 0; i < sc.Ctrls; i++ {
			sc.Latency = append(sc.Latency, pick(rng, 0, 1, 3, 10, 25))
			sc.Width = append(sc.Width, pick(rng, 1, 1, 2, 4))
			sc.MHz = append(sc.MHz, pick(rng, 1000, 1000, 600, 1700))
		}
		return sc
	}
	c.Inside = mkSide(false)
	c.Outside = mkSide(true)
	gi, go_ := c.Inside.Granule, c.Outside.Granule
	maxG := max(gi, go_)
	if maxG%min(gi, go_) != 0 {
		maxG = gi + go_ // a destination write can straddle two source chunks; the read window must hold both
	}
	c.BufferSize = maxG * uint64(pick(rng, 1, 1, 2, 3, 4, 8))
	if rng.Intn(4) == 0 {
		c.BufferSize += uint64(rng.Intn(int(maxG)))
	}
	sides := []string{"inside", "outside"}
	burst := 0
	for len(c.Moves) < nmoves {
		bl := pick(rng, 1, 1, 2, 3, 4)
		start := len(c.Moves)
		for k := 0; k < bl && len(c.Moves) < nmoves; k++ {
			for try := 0; try < 50; try++ {
				m := DMMove{Idx: len(c.Moves), Burst: burst, SrcSide: sides[rng.Intn(2)], DstSide: sides[rng.Intn(2)]}
				sg, dg := c.side(m.SrcSide).Granule, c.side(m.DstSide).Granule
				mg := max(sg, dg)
				switch rng.Intn(8) {
				case 0, 1:
					m.Class, m.Size = "multiple_of_both", mg*uint64(1+rng.Intn(4))
				case 2:
					m.Class, m.Size = "multiple_of_src_granule", sg*uint64(1+rng.Intn(8))
				case 3:
					m.Class, m.Size = "multiple_of_dst_granule", dg*uint64(1+rng.Intn(8))
				case 4:
					m.Class, m.Size = "below_one_granule", 1+uint64(rng.Intn(int(min(sg, dg))))
				case 5:
					m.Class, m.Size = "granule_multiple_plus_minus_few", mg*uint64(1+rng.Intn(4))+uint64(rng.Intn(7))-3
				default:
					m.Class, m.Size = "arbitrary", 1+uint64(rng.Intn(900))
				}
				ext := max(dmRoundUp(m.Size, sg), dmRoundUp(m.Size, dg))
				if ext+mg > dmCapacity {
					continue
				}
				m.Src = uint64(rng.Int63n(int64((dmCapacity-ext)/sg+1))) * sg
				m.Dst = uint64(rng.Int63n(int64((dmCapacity-ext)/dg+1))) * dg
				ok := !(m.SrcSide == m.DstSide && dmOverlap(m.Src, ext, m.Dst, ext))
				for _, o := range c.Moves[start:] {
					oe := max(dmRoundUp(o.Size, c.side(o.SrcSide).Granule), dmRoundUp(o.Size, c.side(o.DstSide).Granule))
					if (o.DstSide == m.SrcSide && dmOverlap(o.Dst, oe, m.Src, ext)) || (m.DstSide == o.SrcSide && dmOverlap(m.Dst, ext, o.Src, oe)) ||
						(m.DstSide == o.DstSide && dmOverlap(m.Dst, ext, o.Dst, oe)) {
						ok = false
					}
				}
				if ok {
					c.Moves = append(c.Moves, m)
					break
				}
			}
		}
		burst++
	}
	return c
}

func init() {
	RegisterFactory("dm", func(cfg json.RawMessage, dir string, _ []string) Assembly {
		var c DMCfg
		if err := json.Unmarshal(cfg, &c); err != nil {
			panic(err)
		}
		return DMAssembly{DMStack: BuildDMStack(c, dir)}
	})
}
