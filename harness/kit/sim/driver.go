// Package sim builds small akita assemblies for the property checks: a
// scripted, fully serialisable memory driver, stack builders, port taps and
// digests.
package sim

import (
	"encoding/binary"
	"fmt"
	"hash/fnv"

	"github.com/sarchlab/akita/v5/mem/memprotocol"
	"github.com/sarchlab/akita/v5/mem/vm"
	"github.com/sarchlab/akita/v5/messaging"
	"github.com/sarchlab/akita/v5/modeling"
	"github.com/sarchlab/akita/v5/timing"
)

// DriverSpec configures the scripted memory driver. Everything the driver
// does is a function of Spec and State, so it can be checkpointed.
type DriverSpec struct {
	Freq        timing.Freq `json:"freq"`
	Seed        uint64      `json:"seed"`
	NumReqs     int         `json:"num_reqs"`
	MaxInflight int         `json:"max_inflight"`
	IssuePerTick int        `json:"issue_per_tick"`
	LineSize    uint64      `json:"line_size"` // no request crosses a multiple of this
	LineStride  uint64      `json:"line_stride"` // distance between consecutive lines (0 = LineSize)
	AddrBase    uint64      `json:"addr_base"`
	NumLines    uint64      `json:"num_lines"` // address span = NumLines*LineSize
	// per-PID: PID p (1..NumPIDs) uses AddrBase + (p-1)*PIDStride
	NumPIDs   int    `json:"num_pids"`
	PIDStride uint64 `json:"pid_stride"`
	ReadPct   int    `json:"read_pct"`   // % of reads
	FullPct   int    `json:"full_pct"`   // % of writes that are full-line
	MaskPct   int    `json:"mask_pct"`   // % of writes that carry a dirty mask
	IdlePct   int    `json:"idle_pct"`   // % of ticks in which the driver issues nothing
	// RspStallPct: % of ticks (with a response waiting) in which the driver takes no response: a slow requester
	// that back-pressures the unit above it.
	RspStallPct int `json:"rsp_stall_pct,omitempty"`
	// Destination: single port or interleaved over several.
	Dsts       []string `json:"dsts"`
	Interleave uint64   `json:"interleave"`
	// WordMod > 0: every request is one aligned 4-byte word whose index satisfies (addr/4) % WordMod == WordRem
	// (lets several drivers share cache lines without sharing bytes).
	WordMod uint64 `json:"word_mod"`
	WordRem uint64 `json:"word_rem"`
	// SendPID: set the PID field of requests (translation stacks); otherwise 0.
	SendPID bool `json:"send_pid"`
}

// InflightReq is one outstanding request.
type InflightReq struct {
	ID     uint64 `json:"id"`
	Seq    int    `json:"seq"`
	IsRead bool   `json:"is_read"`
	PID    int    `json:"pid"`
	Addr   uint64 `json:"addr"`
	Len    uint64 `json:"len"`
	Expect []byte `json:"expect"`
	Issued uint64 `json:"issued"` // time
}

// DriverState is the mutable state of the driver.
type DriverState struct {
	Rng       uint64            `json:"rng"`
	Issued    int               `json:"issued"`
	Completed int               `json:"completed"`
	Reads     int               `json:"reads"`
	Writes    int               `json:"writes"`
	Inflight  []InflightReq     `json:"inflight"`
	Ref       map[uint64]byte   `json:"ref"` // key = (pid<<48 | addr)... see refKey
	RspHash   uint64            `json:"rsp_hash"` // order+kind+data+time of responses, no IDs
	Errors    []string          `json:"errors"`
	ErrCount  int               `json:"err_count"`
	LastRspAt uint64            `json:"last_rsp_at"`
	Halt      bool              `json:"halt"` // stop issuing new requests (responses are still processed)
}

// RspEvent is handed to an observer for each response.
type RspEvent struct {
	Req  InflightReq
	Kind string // "data" | "done"
	Data []byte
	Time timing.VTimeInPicoSec
	Msg  messaging.Msg
}

// Driver is the scripted requester.
type Driver struct {
	*modeling.Component[DriverSpec, DriverState, modeling.None]
	OnIssue func(req InflightReq, msg messaging.Msg)
	OnRsp   func(ev RspEvent)
	OnError func(key, msg string)
}

func refKey(pid int, addr uint64) uint64 { return uint64(pid)<<48 | addr }

// RefByte returns the reference content of a byte (zero when never written).
func (d *Driver) RefByte(pid int, addr uint64) byte { return d.State.Ref[refKey(pid, addr)] }

// WrittenBytes lists (pid, addr) of all bytes ever written.
func (d *Driver) WrittenBytes() [][2]uint64 {
	out := make([][2]uint64, 0, len(d.State.Ref))
	for k := range d.State.Ref {
		out = append(out, [2]uint64{k >> 48, k & (1<<48 - 1)})
	}
	return out
}

// Done reports whether every scripted request was issued and answered.
func (d *Driver) Done() bool {
	return d.State.Issued == d.Spec().NumReqs && len(d.State.Inflight) == 0
}

func (d *Driver) fail(key, format string, a ...any) {
	msg := fmt.Sprintf(format, a...)
	d.State.ErrCount++
	if len(d.State.Errors) < 8 {
		d.State.Errors = append(d.State.Errors, key+": "+msg)
	}
	if d.OnError != nil {
		d.OnError(key, msg)
	}
}

type driverMW struct{ d *Driver }

func (m *driverMW) port() messaging.Port { return m.d.GetPortByName("Mem") }

func (d *Driver) next() uint64 { // xorshift64*
	x := d.State.Rng
	x ^= x >> 12
	x ^= x << 25
	x ^= x >> 27
	d.State.Rng = x
	return x * 2685821657736338717
}

func (d *Driver) intn(n uint64) uint64 {
	if n == 0 {
		return 0
	}
	return d.next() % n
}

func (m *driverMW) Tick() bool {
	progress := false
	if sp := m.d.Spec(); sp.RspStallPct > 0 && m.port().PeekIncoming() != nil && int(m.d.intn(100)) < sp.RspStallPct {
		m.issue()
		return true // a response is waiting: keep ticking
	}
	for i := 0; i < 4; i++ {
		if !m.processRsp() {
			break
		}
		progress = true
	}
	if m.issue() {
		progress = true
	}
	return progress
}

func (m *driverMW) processRsp() bool {
	msg := m.port().RetrieveIncoming()
	if msg == nil {
		return false
	}
	d := m.d
	st := &d.State
	now := d.CurrentTime()
	meta := msg.Meta()
	idx := -1
	for i := range st.Inflight {
		if st.Inflight[i].ID == meta.RspTo {
			idx = i
			break
		}
	}
	if meta.Dst != m.port().AsRemote() {
		d.fail("rsp-wrong-dst", "response %T id=%d has Dst=%s, delivered to %s", msg, meta.ID, meta.Dst, m.port().Name())
	}
	if idx < 0 {
		d.fail("rsp-unmatched", "response %T RspTo=%d matches no outstanding request (duplicate or stray)", msg, meta.RspTo)
		return true
	}
	req := st.Inflight[idx]
	st.Inflight = append(st.Inflight[:idx], st.Inflight[idx+1:]...)
	st.Completed++
	st.LastRspAt = uint64(now)
	ev := RspEvent{Req: req, Time: now, Msg: msg}
	switch rsp := msg.(type) {
	case memprotocol.DataReadyRsp:
		ev.Kind, ev.Data = "data", rsp.Data
		if !req.IsRead {
			d.fail("rsp-wrong-kind", "write seq=%d answered with DataReadyRsp", req.Seq)
		} else if string(rsp.Data) != string(req.Expect) {
			d.fail("read-data-mismatch", "read seq=%d pid=%d addr=%#x len=%d returned %x, flat memory holds %x",
				req.Seq, req.PID, req.Addr, req.Len, rsp.Data, req.Expect)
		}
	case memprotocol.WriteDoneRsp:
		ev.Kind = "done"
		if req.IsRead {
			d.fail("rsp-wrong-kind", "read seq=%d answered with WriteDoneRsp", req.Seq)
		}
	default:
		ev.Kind = fmt.Sprintf("%T", msg)
		d.fail("rsp-wrong-kind", "request seq=%d answered with %T", req.Seq, msg)
	}
	h := fnv.New64a()
	var b8 [8]byte
	binary.LittleEndian.PutUint64(b8[:], st.RspHash)
	h.Write(b8[:])
	binary.LittleEndian.PutUint64(b8[:], uint64(req.Seq))
	h.Write(b8[:])
	binary.LittleEndian.PutUint64(b8[:], uint64(now))
	h.Write(b8[:])
	h.Write([]byte(ev.Kind))
	h.Write(ev.Data)
	st.RspHash = h.Sum64()
	if d.OnRsp != nil {
		d.OnRsp(ev)
	}
	return true
}

func (m *driverMW) overlaps(pid int, addr, n uint64) bool {
	for _, r := range m.d.State.Inflight {
		if r.PID == pid && addr < r.Addr+r.Len && r.Addr < addr+n {
			return true
		}
	}
	return false
}

func (m *driverMW) issue() bool {
	d := m.d
	st := &d.State
	sp := d.Spec()
	if st.Issued >= sp.NumReqs || st.Halt {
		return false
	}
	if sp.IdlePct > 0 && int(d.intn(100)) < sp.IdlePct {
		return true // deliberately idle this tick, but keep ticking
	}
	progress := false
	per := sp.IssuePerTick
	if per < 1 {
		per = 1
	}
	for k := 0; k < per && st.Issued < sp.NumReqs; k++ {
		if len(st.Inflight) >= sp.MaxInflight || !m.port().CanSend() {
			break
		}
		// draw a request; retry a few times to avoid in-flight bytes
		var pid int
		var addr, n uint64
		ok := false
		for try := 0; try < 6; try++ {
			pid = 0
			if sp.NumPIDs > 0 {
				pid = 1 + int(d.intn(uint64(sp.NumPIDs)))
			}
			line := d.intn(sp.NumLines)
			stride := sp.LineStride
			if stride == 0 {
				stride = sp.LineSize
			}
			base := sp.AddrBase + line*stride
			if pid > 0 {
				base += uint64(pid-1) * sp.PIDStride
			}
			switch d.intn(4) {
			case 0:
				addr, n = base, sp.LineSize
			case 1: // word
				w := uint64(4)
				if sp.LineSize < 4 {
					w = sp.LineSize
				}
				addr, n = base+d.intn(sp.LineSize/w)*w, w
			default:
				off := d.intn(sp.LineSize)
				n = 1 + d.intn(sp.LineSize-off)
				addr = base + off
			}
			if sp.WordMod > 0 {
				words := sp.LineSize / 4
				w := d.intn(words)
				w = w - w%sp.WordMod + sp.WordRem
				if w >= words {
					continue
				}
				addr, n = base+w*4, 4
			}
			if !m.overlaps(pid, addr, n) {
				ok = true
				break
			}
		}
		if !ok {
			break
		}
		isRead := int(d.intn(100)) < sp.ReadPct
		req := InflightReq{Seq: st.Issued, IsRead: isRead, PID: pid, Addr: addr, Len: n,
			Issued: uint64(d.CurrentTime())}
		dst := sp.Dsts[0]
		if len(sp.Dsts) > 1 {
			dst = sp.Dsts[(addr/sp.Interleave)%uint64(len(sp.Dsts))]
		}
		var msg messaging.Msg
		id := timing.GetIDGenerator().Generate()
		req.ID = id
		sendPID := vm.PID(0)
		if sp.SendPID {
			sendPID = vm.PID(pid)
		}
		if isRead {
			req.Expect = make([]byte, n)
			for i := uint64(0); i < n; i++ {
				req.Expect[i] = st.Ref[refKey(pid, addr+i)]
			}
			r := memprotocol.ReadReq{Address: addr, AccessByteSize: n, PID: sendPID}
			r.ID, r.Src, r.Dst = id, m.port().AsRemote(), messaging.RemotePort(dst)
			r.TrafficBytes, r.TrafficClass = 12, "memprotocol.ReadReq"
			msg = r
			st.Reads++
		} else {
			if sp.WordMod == 0 && int(d.intn(100)) < sp.FullPct {
				// widen to the whole line unless that overlaps
				base := addr - addr%sp.LineSize // AddrBase, LineStride and PIDStride are multiples of LineSize
				if !m.overlaps(pid, base, sp.LineSize) {
					addr, n = base, sp.LineSize
					req.Addr, req.Len = addr, n
				}
			}
			data := make([]byte, n)
			var mask []bool
			masked := int(d.intn(100)) < sp.MaskPct
			if masked {
				mask = make([]bool, n)
			}
			req.Expect = make([]byte, n) // for a write: the bytes it replaces (needed while it is unacknowledged)
			for i := uint64(0); i < n; i++ {
				req.Expect[i] = st.Ref[refKey(pid, addr+i)]
				data[i] = byte(d.next() >> 32)
				if masked {
					mask[i] = d.intn(3) != 0
				}
				if !masked || mask[i] {
					st.Ref[refKey(pid, addr+i)] = data[i]
				}
			}
			w := memprotocol.WriteReq{Address: addr, Data: data, DirtyMask: mask, PID: sendPID}
			w.ID, w.Src, w.Dst = id, m.port().AsRemote(), messaging.RemotePort(dst)
			w.TrafficBytes, w.TrafficClass = int(n)+12, "memprotocol.WriteReq"
			msg = w
			st.Writes++
		}
		st.Inflight = append(st.Inflight, req)
		st.Issued++
		m.port().Send(msg)
		if d.OnIssue != nil {
			d.OnIssue(req, msg)
		}
		progress = true
	}
	return progress
}

// BuildDriver creates and registers a driver with one port "Mem".
func BuildDriver(reg modeling.Registrar, name string, spec DriverSpec, portBuf int) *Driver {
	c := modeling.NewBuilder[DriverSpec, DriverState, modeling.None]().
		WithEngine(reg.GetEngine()).WithFreq(spec.Freq).WithSpec(spec).Build(name)
	c.State = DriverState{Rng: spec.Seed*2654435761 + 0x9E3779B97F4A7C15, Ref: map[uint64]byte{}}
	c.DeclarePort("Mem")
	d := &Driver{Component: c}
	c.AddMiddleware(&driverMW{d: d})
	reg.RegisterComponent(d)
	p := modeling.MakePortBuilder().WithRegistrar(reg).WithComponent(d).
		WithSpec(modeling.PortSpec{BufSize: portBuf}).Build("Mem")
	d.AssignPort("Mem", p)
	return d
}
