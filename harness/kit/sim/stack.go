package sim

import (
	"fmt"
	"math/rand"
	"os"
	"path/filepath"

	"github.com/sarchlab/akita/v5/mem"
	"github.com/sarchlab/akita/v5/mem/cache/writeback"
	"github.com/sarchlab/akita/v5/mem/cache/writethroughcache"
	"github.com/sarchlab/akita/v5/mem/dram"
	"github.com/sarchlab/akita/v5/mem/idealmemcontroller"
	"github.com/sarchlab/akita/v5/mem/rob"
	"github.com/sarchlab/akita/v5/mem/simplebankedmemory"
	"github.com/sarchlab/akita/v5/messaging"
	"github.com/sarchlab/akita/v5/modeling"
	"github.com/sarchlab/akita/v5/noc/directconnection"
	"github.com/sarchlab/akita/v5/simulation"
	"github.com/sarchlab/akita/v5/timing"
)

// LevelCfg is one cache/ROB level, listed top (closest to the driver) first.
type LevelCfg struct {
	Kind   string `json:"kind"` // rob | wa | we | wt | wb
	Log2Blk uint64 `json:"log2_blk"`
	Ways   int    `json:"ways"`
	Sets   int    `json:"sets"`
	MSHR   int    `json:"mshr"`
	Banks  int    `json:"banks"`
	BankLat int   `json:"bank_lat"`
	DirLat int    `json:"dir_lat"`
	ReqPerCycle int `json:"req_per_cycle"`
	WriteBuf int  `json:"write_buf"`
	MaxFetch int  `json:"max_fetch"`
	MaxEvict int  `json:"max_evict"`
	MaxTrans int  `json:"max_trans"`
	ROBSize  int  `json:"rob_size"`
	FreqMHz  int  `json:"freq_mhz"`
}

// MemCfg is the backing memory (one or several interleaved modules).
type MemCfg struct {
	Kind       string `json:"kind"` // ideal | banked | dram
	Preset     string `json:"preset"` // dram: DDR4 DDR5 HBM2 HBM3 GDDR6
	ClosePage  bool   `json:"close_page"`
	Count      int    `json:"count"`
	Interleave uint64 `json:"interleave"`
	SharedStorage bool `json:"shared_storage"`
	Latency    int    `json:"latency"`
	Width      int    `json:"width"`
	Banks      int    `json:"banks"`
	Depth      int    `json:"depth"`
	PWidth     int    `json:"pwidth"`
	PostBuf    int    `json:"post_buf"`
	FreqMHz    int    `json:"freq_mhz"`
	TransQ     int    `json:"trans_q"`
	CmdQ       int    `json:"cmd_q"`
	Capacity   uint64 `json:"capacity"` // 0 = 4 GiB
}

// StackCfg describes a whole memory-hierarchy assembly.
type StackCfg struct {
	Levels   []LevelCfg   `json:"levels"`
	Mem      MemCfg       `json:"mem"`
	Drivers  []DriverSpec `json:"drivers"`
	PortBuf  int          `json:"port_buf"`
	PerLinkConn bool      `json:"per_link_conn"`
	ConnFreqMHz int       `json:"conn_freq_mhz"`
	Tracing  bool         `json:"tracing"` // vis tracing on start (DB tracer)
	WithCtrl bool         `json:"with_ctrl"` // add a control driver wired to every Control port
	// FlushAt > 0 (needs WithCtrl and a write-back level): at cycle FlushAt a scripted control component (fully
	// serialisable, so it can be checkpointed mid-script) stops the drivers, drains the first write-back cache, flushes
	// it with an address filter naming FlushLines lines, enables it again, and lets the drivers resume.
	FlushAt    int `json:"flush_at"`
	FlushLines int `json:"flush_lines"`
}

// Stack is a built assembly.
type Stack struct {
	Cfg      StackCfg
	Sim      *simulation.Simulation
	Engine   *timing.SerialEngine
	Drivers  []*Driver
	Levels   []messaging.Component // same order as Cfg.Levels
	WB       []*writeback.Comp
	WT       []*writethroughcache.Comp
	ROBs     []*rob.Comp
	Mems     []messaging.Component
	Storages []*mem.Storage // one per memory module (may repeat when shared)
	Conns    []*directconnection.Comp
	Ctrl     *CtrlDriver
	Script   *ScriptCtrl
	ctrlConn *directconnection.Comp
	Dir      string
}

func mhz(v int, def timing.Freq) timing.Freq {
	if v <= 0 {
		return def
	}
	return timing.Freq(v) * timing.MHz
}

func or(v, d int) int {
	if v <= 0 {
		return d
	}
	return v
}

func assignPorts(reg modeling.Registrar, comp messaging.Component, buf int, names ...string) {
	for _, n := range names {
		p := modeling.MakePortBuilder().WithRegistrar(reg).WithComponent(comp).
			WithSpec(modeling.PortSpec{BufSize: buf}).Build(n)
		comp.AssignPort(n, p)
	}
}

// NewSim builds an empty simulation (serial engine, no monitor) whose output
// database lives in dir.
func NewSim(dir string, tracingOn bool) *simulation.Simulation {
	os.MkdirAll(dir, 0o755)
	b := simulation.MakeBuilder().WithoutMonitoring().WithoutSourceRecording().
		WithOutputFileName(filepath.Join(dir, fmt.Sprintf("out%d", rand.Int63())))
	if tracingOn {
		b = b.WithVisTracingOnStart()
	}
	return b.Build()
}

func dramPreset(name string) dram.Spec {
	switch name {
	case "DDR5":
		return dram.DDR5Spec
	case "HBM2":
		return dram.HBM2Spec
	case "HBM3":
		return dram.HBM3Spec
	case "GDDR6":
		return dram.GDDR6Spec
	case "DDR3":
		return dram.DefaultSpec()
	default:
		return dram.DDR4Spec
	}
}

// BuildStack builds the assembly described by cfg. dir is a scratch dir.
func BuildStack(cfg StackCfg, dir string) *Stack {
	s := &Stack{Cfg: cfg, Dir: dir}
	s.Sim = NewSim(dir, cfg.Tracing)
	s.Engine = s.Sim.GetEngine().(*timing.SerialEngine)
	reg := s.Sim
	pb := or(cfg.PortBuf, 4)

	// memories
	mc := cfg.Mem
	n := or(mc.Count, 1)
	capacity := mc.Capacity
	if capacity == 0 {
		capacity = 1 << 32
	}
	var shared *mem.Storage
	var memTops []messaging.RemotePort
	for i := 0; i < n; i++ {
		name := fmt.Sprintf("Mem%d", i)
		var comp messaging.Component
		var st *mem.Storage
		if mc.SharedStorage && shared == nil && mc.Kind != "dram" {
			shared = mem.MakeStorageBuilder().WithCapacity(capacity).WithSimulation(reg).Build("SharedStorage")
		}
		switch mc.Kind {
		case "banked":
			sp := simplebankedmemory.DefaultSpec()
			sp.Freq = mhz(mc.FreqMHz, sp.Freq)
			sp.NumBanks = or(mc.Banks, 2)
			sp.BankPipelineDepth = or(mc.Depth, 1)
			sp.BankPipelineWidth = or(mc.PWidth, 1)
			sp.StageLatency = or(mc.Latency, 3)
			sp.PostPipelineBufSize = or(mc.PostBuf, 1)
			sp.Capacity = capacity
			c := simplebankedmemory.MakeBuilder().WithRegistrar(reg).WithSpec(sp).
				WithResources(simplebankedmemory.Resources{Storage: shared}).Build(name)
			comp, st = c, c.Resources().Storage
		case "dram":
			sp := dramPreset(mc.Preset)
			if mc.ClosePage {
				sp.PagePolicy = dram.PagePolicyClose
			} else {
				sp.PagePolicy = dram.PagePolicyOpen
			}
			if mc.TransQ > 0 {
				sp.TransactionQueueSize = mc.TransQ
			}
			if mc.CmdQ > 0 {
				sp.CommandQueueCapacity = mc.CmdQ
			}
			c := dram.MakeBuilder().WithRegistrar(reg).WithSpec(sp).Build(name)
			comp, st = c, c.Resources().Storage
		default:
			sp := idealmemcontroller.DefaultSpec()
			sp.Freq = mhz(mc.FreqMHz, sp.Freq)
			sp.Latency = or(mc.Latency, 5)
			sp.Width = or(mc.Width, 1)
			sp.Capacity = capacity
			c := idealmemcontroller.MakeBuilder().WithRegistrar(reg).WithSpec(sp).
				WithResources(idealmemcontroller.Resources{Storage: shared}).Build(name)
			comp, st = c, c.Resources().Storage
		}
		assignPorts(reg, comp, pb, "Top", "Control")
		s.Mems = append(s.Mems, comp)
		s.Storages = append(s.Storages, st)
		memTops = append(memTops, comp.GetPortByName("Top").AsRemote())
	}

	// levels, built bottom-up so each knows its lower module(s)
	lowerTops := memTops
	lowerInterleave := mc.Interleave
	if lowerInterleave == 0 {
		lowerInterleave = 4096
	}
	s.Levels = make([]messaging.Component, len(cfg.Levels))
	for li := len(cfg.Levels) - 1; li >= 0; li-- {
		lc := cfg.Levels[li]
		name := fmt.Sprintf("L%d%s", li, lc.Kind)
		var mapper mem.AddressToPortMapper
		if len(lowerTops) == 1 {
			mapper = &mem.SinglePortMapper{Port: lowerTops[0]}
		} else {
			im := mem.NewInterleavedAddressPortMapper(lowerInterleave)
			im.LowModules = append(im.LowModules, lowerTops...)
			mapper = im
		}
		var comp messaging.Component
		switch lc.Kind {
		case "rob":
			if len(lowerTops) != 1 {
				panic("rob needs a single lower unit")
			}
			sp := rob.DefaultSpec()
			sp.Freq = mhz(lc.FreqMHz, sp.Freq)
			sp.BufferSize = or(lc.ROBSize, 8)
			sp.NumReqPerCycle = or(lc.ReqPerCycle, 2)
			sp.BottomUnit = lowerTops[0]
			c := rob.MakeBuilder().WithRegistrar(reg).WithSpec(sp).Build(name)
			comp = c
			s.ROBs = append(s.ROBs, c)
		case "wb":
			sp := writeback.DefaultSpec()
			sp.Freq = mhz(lc.FreqMHz, sp.Freq)
			sp.Log2BlockSize = uint64(or(int(lc.Log2Blk), 6))
			sp.WayAssociativity = or(lc.Ways, 2)
			sp.TotalByteSize = uint64(or(lc.Sets, 4)) * uint64(sp.WayAssociativity) << sp.Log2BlockSize
			sp.NumMSHREntry = or(lc.MSHR, 4)
			sp.NumBanks = or(lc.Banks, 1)
			sp.BankLatency = or(lc.BankLat, 2)
			sp.DirLatency = lc.DirLat
			sp.NumReqPerCycle = or(lc.ReqPerCycle, 1)
			sp.WriteBufferCapacity = or(lc.WriteBuf, 4)
			sp.MaxInflightFetch = or(lc.MaxFetch, 4)
			sp.MaxInflightEviction = or(lc.MaxEvict, 4)
			c := writeback.MakeBuilder().WithRegistrar(reg).WithSpec(sp).
				WithResources(writeback.Resources{AddressToPortMapper: mapper}).Build(name)
			comp = c
			s.WB = append(s.WB, c)
		default: // wa we wt
			sp := writethroughcache.DefaultSpec()
			sp.Freq = mhz(lc.FreqMHz, sp.Freq)
			sp.WritePolicyType = map[string]string{"wa": "write-around", "we": "write-evict", "wt": "write-through"}[lc.Kind]
			sp.Log2BlockSize = uint64(or(int(lc.Log2Blk), 6))
			sp.WayAssociativity = or(lc.Ways, 2)
			sp.TotalByteSize = uint64(or(lc.Sets, 4)) * uint64(sp.WayAssociativity) << sp.Log2BlockSize
			sp.NumMSHREntry = or(lc.MSHR, 4)
			sp.NumBanks = or(lc.Banks, 1)
			sp.BankLatency = or(lc.BankLat, 2)
			sp.DirLatency = or(lc.DirLat, 1)
			sp.NumReqPerCycle = or(lc.ReqPerCycle, 2)
			sp.MaxNumConcurrentTrans = or(lc.MaxTrans, 8)
			c := writethroughcache.MakeBuilder().WithRegistrar(reg).WithSpec(sp).
				WithResources(writethroughcache.Resources{AddressMapper: mapper}).Build(name)
			comp = c
			s.WT = append(s.WT, c)
		}
		assignPorts(reg, comp, pb, "Top", "Bottom", "Control")
		s.Levels[li] = comp
		lowerTops = []messaging.RemotePort{comp.GetPortByName("Top").AsRemote()}
	}

	// drivers
	for i, ds := range cfg.Drivers {
		ds.Dsts = nil
		for _, t := range lowerTops {
			ds.Dsts = append(ds.Dsts, string(t))
		}
		if ds.Interleave == 0 {
			ds.Interleave = lowerInterleave
		}
		if ds.Freq == 0 {
			ds.Freq = 1 * timing.GHz
		}
		d := BuildDriver(reg, fmt.Sprintf("Driver%d", i), ds, pb)
		s.Drivers = append(s.Drivers, d)
	}

	// connections
	mkConn := func(name string) *directconnection.Comp {
		b := directconnection.MakeBuilder().WithRegistrar(reg)
		if cfg.ConnFreqMHz > 0 {
			sp := directconnection.DefaultSpec()
			sp.Freq = timing.Freq(cfg.ConnFreqMHz) * timing.MHz
			b = b.WithSpec(sp)
		}
		c := b.Build(name)
		s.Conns = append(s.Conns, c)
		return c
	}
	if !cfg.PerLinkConn {
		c := mkConn("Conn")
		for _, d := range s.Drivers {
			c.PlugIn(d.GetPortByName("Mem"))
		}
		for _, l := range s.Levels {
			c.PlugIn(l.GetPortByName("Top"))
			c.PlugIn(l.GetPortByName("Bottom"))
		}
		for _, m := range s.Mems {
			c.PlugIn(m.GetPortByName("Top"))
		}
	} else {
		// link k connects the Bottom ports above with the Top ports below
		upper := []messaging.Port{}
		for _, d := range s.Drivers {
			upper = append(upper, d.GetPortByName("Mem"))
		}
		for li, l := range s.Levels {
			c := mkConn(fmt.Sprintf("Conn%d", li))
			for _, p := range upper {
				c.PlugIn(p)
			}
			c.PlugIn(l.GetPortByName("Top"))
			upper = []messaging.Port{l.GetPortByName("Bottom")}
		}
		c := mkConn("ConnMem")
		for _, p := range upper {
			c.PlugIn(p)
		}
		for _, m := range s.Mems {
			c.PlugIn(m.GetPortByName("Top"))
		}
	}
	if cfg.WithCtrl {
		s.Ctrl = BuildCtrlDriver(reg, "CtrlDriver", pb)
		c := mkConn("CtrlConn")
		s.ctrlConn = c
		c.PlugIn(s.Ctrl.GetPortByName("Ctrl"))
		for _, l := range s.Levels {
			c.PlugIn(l.GetPortByName("Control"))
		}
		for _, m := range s.Mems {
			c.PlugIn(m.GetPortByName("Control"))
		}
	}
	if cfg.FlushAt > 0 && s.Ctrl != nil && len(s.WB) > 0 {
		s.attachFlushScript()
	}
	return s
}

func (s *Stack) attachFlushScript() {
	cfg := s.Cfg
	target := s.WB[0].GetPortByName("Control").AsRemote()
	var addrs []uint64
	for i := 0; i < cfg.FlushLines; i++ {
		d := s.Drivers[i%len(s.Drivers)].Spec()
		addrs = append(addrs, d.AddrBase+uint64(i)*d.LineSize)
	}
	s.Script = BuildScriptCtrl(s.Sim, "ScriptCtrl", ScriptSpec{Freq: 1 * timing.GHz, At: uint64(cfg.FlushAt) * 1000,
		Target: string(target), Addrs: addrs}, s.Drivers, or(cfg.PortBuf, 4))
	s.ctrlConn.PlugIn(s.Script.GetPortByName("Ctrl"))
}

// Start kicks every driver.
func (s *Stack) Start() {
	for _, d := range s.Drivers {
		d.TickLater()
	}
	if s.Script != nil {
		s.Script.TickLater()
	}
}

// Close terminates the simulation and removes its database.
func (s *Stack) Close() {
	s.Sim.Terminate()
	matches, _ := filepath.Glob(filepath.Join(s.Dir, "out*"))
	for _, m := range matches {
		os.Remove(m)
	}
}

// StorageFor returns the storage holding addr (global addresses).
func (s *Stack) StorageFor(addr uint64) *mem.Storage {
	if len(s.Storages) == 1 {
		return s.Storages[0]
	}
	il := s.Cfg.Mem.Interleave
	if il == 0 {
		il = 4096
	}
	return s.Storages[(addr/il)%uint64(len(s.Storages))]
}

// AllPorts lists every registered port.
func (s *Stack) AllPorts() []messaging.Port {
	var out []messaging.Port
	for _, p := range s.Sim.Ports() {
		out = append(out, p.(messaging.Port))
	}
	return out
}
