package sim

import (
	"github.com/sarchlab/akita/v5/mem/memcontrolprotocol"
	"github.com/sarchlab/akita/v5/mem/vm"
	"github.com/sarchlab/akita/v5/messaging"
	"github.com/sarchlab/akita/v5/modeling"
	"github.com/sarchlab/akita/v5/timing"
)

// CtrlCmd is one control request to send.
type CtrlCmd struct {
	Dst       messaging.RemotePort
	Command   memcontrolprotocol.Command
	Addresses []uint64
	PID       vm.PID
}

// CtrlAck is a received control response.
type CtrlAck struct {
	Rsp  memcontrolprotocol.Rsp
	Time timing.VTimeInPicoSec
}

type ctrlSpec struct {
	Freq timing.Freq `json:"freq"`
}

type ctrlState struct {
	Sent int `json:"sent"`
}

// CtrlDriver sends queued control requests and records the responses. Its
// queue is harness state (not checkpointed).
type CtrlDriver struct {
	*modeling.Component[ctrlSpec, ctrlState, modeling.None]
	Queue   []CtrlCmd
	SentIDs []uint64
	Acks    []CtrlAck
	OnAck   func(a CtrlAck)
}

type ctrlMW struct{ d *CtrlDriver }

func (m *ctrlMW) Tick() bool {
	p := m.d.GetPortByName("Ctrl")
	progress := false
	for {
		msg := p.RetrieveIncoming()
		if msg == nil {
			break
		}
		if r, ok := msg.(memcontrolprotocol.Rsp); ok {
			a := CtrlAck{Rsp: r, Time: m.d.CurrentTime()}
			m.d.Acks = append(m.d.Acks, a)
			if m.d.OnAck != nil {
				m.d.OnAck(a)
			}
		}
		progress = true
	}
	for len(m.d.Queue) > 0 && p.CanSend() {
		c := m.d.Queue[0]
		m.d.Queue = m.d.Queue[1:]
		req := memcontrolprotocol.Req{Command: c.Command, Addresses: c.Addresses, PID: c.PID}
		req.ID = timing.GetIDGenerator().Generate()
		req.Src, req.Dst = p.AsRemote(), c.Dst
		req.TrafficBytes, req.TrafficClass = 8, "memcontrolprotocol.Req"
		p.Send(req)
		m.d.SentIDs = append(m.d.SentIDs, req.ID)
		m.d.State.Sent++
		progress = true
	}
	return progress
}

// Send queues a command and wakes the driver.
func (d *CtrlDriver) Send(c CtrlCmd) {
	d.Queue = append(d.Queue, c)
	d.TickLater()
}

// BuildCtrlDriver builds the control driver with a port "Ctrl".
func BuildCtrlDriver(reg modeling.Registrar, name string, portBuf int) *CtrlDriver {
	c := modeling.NewBuilder[ctrlSpec, ctrlState, modeling.None]().
		WithEngine(reg.GetEngine()).WithFreq(1 * timing.GHz).WithSpec(ctrlSpec{Freq: 1 * timing.GHz}).Build(name)
	c.DeclarePort("Ctrl")
	d := &CtrlDriver{Component: c}
	c.AddMiddleware(&ctrlMW{d: d})
	reg.RegisterComponent(d)
	p := modeling.MakePortBuilder().WithRegistrar(reg).WithComponent(d).
		WithSpec(modeling.PortSpec{BufSize: portBuf}).Build("Ctrl")
	d.AssignPort("Ctrl", p)
	return d
}
