package sim

import (
	"github.com/sarchlab/akita/v5/mem/memcontrolprotocol"
	"github.com/sarchlab/akita/v5/mem/vm"
	"github.com/sarchlab/akita/v5/messaging"
	"github.com/sarchlab/akita/v5/modeling"
	"github.com/sarchlab/akita/v5/timing"
)

// CtrlCmd is one control request to send.
type CtrlCmd struct {
	Dst       messaging.RemotePort
	Command   memcontrolprotocol.Command
	Addresses []uint64
	PID       vm.PID
}

// CtrlAck is a received control response.
type CtrlAck struct {
	Rsp  memcontrolprotocol.Rsp
	Time timing.VTimeInPicoSec
}

type ctrlSpec struct {
	Freq timing.Freq `json:"freq"`
}

type ctrlState struct {
	Sent int `json:"sent"`
}

// CtrlDriver sends queued control requests and records the responses. Its
// queue is harness state (not checkpointed).
type CtrlDriver struct {
	*modeling.Component[ctrlSpec, ctrlState, modeling.None]
	Queue   []CtrlCmd
	SentIDs []uint64
	Acks    []CtrlAck
	OnAck   func(a CtrlAck)
}

type ctrlMW struct{ d *CtrlDriver }

func (m *ctrlMW) Tick() bool {
	p := m.d.GetPortByName("Ctrl")
	progress := false
	for {
		msg := p.RetrieveIncoming()
		if msg == nil {
			break
		}
		if r, ok := msg.(memcontrolprotocol.Rsp); ok {
			a := CtrlAck{Rsp: r, Time: m.d.CurrentTime()}
			m.d.Acks = append(m.d.Acks, a)
			if m.d.OnAck != nil {
				m.d.OnAck(a)
			}
		}
		progress = true
	}
	for len(m.d.Queue) > 0 && p.CanSend() {
		c := m.d.Queue[0]
		m.d.Queue = m.d.Queue[1:]
		req := memcontrolprotocol.Req{Command: c.Command, Addresses: c.Addresses, PID: c.PID}
		req.ID = timing.GetIDGenerator().Generate()
		req.Src, req.Dst = p.AsRemote(), c.Dst
		req.TrafficBytes, req.TrafficClass = 8, "memcontrolprotocol.Req"
		p.Send(req)
		m.d.SentIDs = append(m.d.SentIDs, req.ID)
		m.d.State.Sent++
		progress = true
	}
	return progress
}

// Send queues a command and wakes the driver.
func (d *CtrlDriver) Send(c CtrlCmd) {
	d.Queue = append(d.Queue, c)
	d.TickLater()
}

// BuildCtrlDriver builds the control driver with a port "Ctrl".
func BuildCtrlDriver(reg modeling.Registrar, name string, portBuf int) *CtrlDriver {
	c := modeling.NewBuilder[ctrlSpec, ctrlState, modeling.None]().
		WithEngine(reg.GetEngine()).WithFreq(1 * timing.GHz).WithSpec(ctrlSpec{Freq: 1 * timing.GHz}).Build(name)
	c.DeclarePort("Ctrl")
	d := &CtrlDriver{Component: c}
	c.AddMiddleware(&ctrlMW{d: d})
	reg.RegisterComponent(d)
	p := modeling.MakePortBuilder().WithRegistrar(reg).WithComponent(d).
		WithSpec(modeling.PortSpec{BufSize: portBuf}).Build("Ctrl")
	d.AssignPort("Ctrl", p)
	return d
}

// ScriptSpec configures the scripted control component.
type ScriptSpec struct {
	Freq   timing.Freq `json:"freq"`
	At     uint64      `json:"at"` // simulated time (ps) at which the script starts
	Target string      `json:"target"`
	Addrs  []uint64    `json:"addrs"`
}

// ScriptState is fully serialisable: a checkpoint taken in the middle of the script resumes it.
type ScriptState struct {
	Step    int  `json:"step"` // 0 waiting for At, 1..3 Drain/Flush/Enable, 4 done
	Waiting bool `json:"waiting"`
	Acked   int  `json:"acked"`
	Failed  int  `json:"failed"`
}

// ScriptCtrl halts the drivers at a fixed time, drains + flushes (with an address filter) + enables one cache, and
// lets the drivers resume.
type ScriptCtrl struct {
	*modeling.Component[ScriptSpec, ScriptState, modeling.None]
	drivers []*Driver
}

type scriptMW struct{ c *ScriptCtrl }

func (m *scriptMW) Tick() bool {
	c := m.c
	st := &c.State
	sp := c.Spec()
	p := c.GetPortByName("Ctrl")
	progress := false
	for {
		msg := p.RetrieveIncoming()
		if msg == nil {
			break
		}
		if r, ok := msg.(memcontrolprotocol.Rsp); ok {
			st.Acked++
			if !r.Success {
				st.Failed++
			}
			st.Waiting = false
			st.Step++
		}
		progress = true
	}
	switch {
	case st.Step == 0:
		if uint64(c.CurrentTime()) >= sp.At {
			for _, d := range c.drivers {
				d.State.Halt = true
			}
			st.Step = 1
		}
		return true // keep ticking until the script starts
	case st.Step >= 1 && st.Step <= 3:
		if !st.Waiting && p.CanSend() {
			cmd := []memcontrolprotocol.Command{memcontrolprotocol.CmdDrain, memcontrolprotocol.CmdFlush, memcontrolprotocol.CmdEnable}[st.Step-1]
			req := memcontrolprotocol.Req{Command: cmd}
			if cmd == memcontrolprotocol.CmdFlush {
				req.Addresses = sp.Addrs
			}
			req.ID = timing.GetIDGenerator().Generate()
			req.Src, req.Dst = p.AsRemote(), messaging.RemotePort(sp.Target)
			req.TrafficBytes, req.TrafficClass = 8, "memcontrolprotocol.Req"
			p.Send(req)
			st.Waiting = true
			progress = true
		}
	case st.Step == 4:
		for _, d := range c.drivers {
			d.State.Halt = false
			d.TickLater()
		}
		st.Step = 5
		progress = true
	}
	return progress
}

// BuildScriptCtrl builds the scripted control component with a port "Ctrl".
func BuildScriptCtrl(reg modeling.Registrar, name string, spec ScriptSpec, drivers []*Driver, portBuf int) *ScriptCtrl {
	c := modeling.NewBuilder[ScriptSpec, ScriptState, modeling.None]().
		WithEngine(reg.GetEngine()).WithFreq(spec.Freq).WithSpec(spec).Build(name)
	c.DeclarePort("Ctrl")
	sc := &ScriptCtrl{Component: c, drivers: drivers}
	c.AddMiddleware(&scriptMW{c: sc})
	reg.RegisterComponent(sc)
	p := modeling.MakePortBuilder().WithRegistrar(reg).WithComponent(sc).
		WithSpec(modeling.PortSpec{BufSize: portBuf}).Build("Ctrl")
	sc.AssignPort("Ctrl", p)
	return sc
}
