package sim

import (
	"archive/tar"
	"bytes"
	"compress/gzip"
	"crypto/sha256"
	"encoding/hex"
	"fmt"
	"io"
	"os"
	"path/filepath"
	"sort"

	"github.com/sarchlab/akita/v5/hooking"
	"github.com/sarchlab/akita/v5/simulation"
	"github.com/sarchlab/akita/v5/timing"
)

// EntityPayloads saves a checkpoint of the simulation into dir and returns the
// raw payload of every entity (archive member name -> bytes).
func EntityPayloads(s *simulation.Simulation, dir, buildID string) (map[string][]byte, []byte, error) {
	path := filepath.Join(dir, fmt.Sprintf("ckpt-%p.tar.gz", s))
	defer os.Remove(path)
	if err := s.SaveCheckpoint(path, buildID); err != nil {
		return nil, nil, err
	}
	raw, err := os.ReadFile(path)
	if err != nil {
		return nil, nil, err
	}
	m, err := ReadTarGz(raw)
	return m, raw, err
}

// ReadTarGz lists the members of a gzip'd tar.
func ReadTarGz(raw []byte) (map[string][]byte, error) {
	zr, err := gzip.NewReader(bytes.NewReader(raw))
	if err != nil {
		return nil, err
	}
	tr := tar.NewReader(zr)
	out := map[string][]byte{}
	for {
		h, err := tr.Next()
		if err == io.EOF {
			break
		}
		if err != nil {
			return nil, err
		}
		d, err := io.ReadAll(tr)
		if err != nil {
			return nil, err
		}
		out[h.Name] = d
	}
	return out, nil
}

// DigestPayloads hashes entity payloads in name order.
func DigestPayloads(m map[string][]byte) string {
	names := make([]string, 0, len(m))
	for n := range m {
		names = append(names, n)
	}
	sort.Strings(names)
	h := sha256.New()
	for _, n := range names {
		fmt.Fprintf(h, "%s:%d:", n, len(m[n]))
		h.Write(m[n])
	}
	return hex.EncodeToString(h.Sum(nil))
}

// DiffPayloads names the entities whose payload differs.
func DiffPayloads(a, b map[string][]byte) []string {
	var out []string
	for n, d := range a {
		if o, ok := b[n]; !ok {
			out = append(out, n+" (missing)")
		} else if !bytes.Equal(d, o) {
			out = append(out, n)
		}
	}
	for n := range b {
		if _, ok := a[n]; !ok {
			out = append(out, n+" (extra)")
		}
	}
	sort.Strings(out)
	return out
}

// EventRec is one handled event as seen by the engine's BeforeEvent hook.
type EventRec struct {
	Time    timing.VTimeInPicoSec
	Handler string
	Type    string
	Sec     bool
}

// EventTrace records handled events.
type EventTrace struct {
	Recs []EventRec
	N    int
	Keep bool
	h    [32]byte
}

// Func implements hooking.Hook.
func (t *EventTrace) Func(ctx hooking.HookCtx) {
	if ctx.Pos != timing.HookPosBeforeEvent {
		return
	}
	e, ok := ctx.Item.(timing.Event)
	if !ok {
		return
	}
	t.N++
	r := EventRec{Time: e.Time(), Handler: e.HandlerID(), Type: fmt.Sprintf("%T", e), Sec: e.IsSecondary()}
	if t.Keep {
		t.Recs = append(t.Recs, r)
	}
	hh := sha256.New()
	hh.Write(t.h[:])
	fmt.Fprintf(hh, "%d|%s|%s|%v", r.Time, r.Handler, r.Type, r.Sec)
	copy(t.h[:], hh.Sum(nil))
}

// Hash is the running hash of the trace.
func (t *EventTrace) Hash() string { return hex.EncodeToString(t.h[:8]) }

// AttachEventTrace hooks the engine.
func AttachEventTrace(e *timing.SerialEngine, keep bool) *EventTrace {
	t := &EventTrace{Keep: keep}
	e.AcceptHook(t)
	return t
}
