package sim

import (
	"bytes"
	"encoding/gob"
	"encoding/json"
	"fmt"
	"os"
	"os/exec"
	"path/filepath"
	"time"

	"github.com/sarchlab/akita/v5/messaging"
	"github.com/sarchlab/akita/v5/timing"
)

// Process-isolated runs. akita keeps process-global registries (the ID
// generator, tracing's message-id -> task-id maps), so a faithful
// "rebuild in a new process" experiment needs a new process. A property
// binary calls MaybeRunRole at the top of main(); CallRole re-executes the
// binary with VERIF_ROLE_REQ pointing at a request file.

// RoleReq asks a fresh process to do one thing.
type RoleReq struct {
	Role   string          `json:"role"` // ref | saves | resume
	Kind   string          `json:"kind"` // assembly kind (key of the builder table)
	Cfg    json.RawMessage `json:"cfg"`
	Dir    string          `json:"dir"`
	Limit  uint64          `json:"limit"`
	Cuts   []uint64        `json:"cuts"`   // saves: checkpoint at each of these times, files Dir/cut-<i>.tar.gz
	Path   string          `json:"path"`   // resume: archive to load
	Resave bool            `json:"resave"` // resume: save again right after the load, report the bytes
	KeepTrace bool         `json:"keep_trace"`
	Observers []string     `json:"observers,omitempty"` // optional observer set names (C33)
	Again     bool         `json:"again,omitempty"`     // ref: run the assembly a second time in this same process (after timing.ResetIDGenerator) and report that run instead
}

// RoleRes is the answer.
type RoleRes struct {
	Err       string
	Trace     []EventRec
	TraceHash string
	Events    int
	Payloads  map[string][]byte
	EndTime   uint64
	NextID    uint64
	Done      bool
	ErrCount  int
	InFlight  []int    // saves: per cut
	Resaved   []byte   // resume+resave
	Extra     map[string]string
}

// AssemblyFactory builds an assembly from its JSON config.
type AssemblyFactory func(cfg json.RawMessage, dir string, observers []string) Assembly

var factories = map[string]AssemblyFactory{
	"stack": func(cfg json.RawMessage, dir string, _ []string) Assembly {
		var c StackCfg
		if err := json.Unmarshal(cfg, &c); err != nil {
			panic(err)
		}
		return StackAssembly{Stack: BuildStack(c, dir)}
	},
}

// RegisterFactory adds an assembly kind.
func RegisterFactory(kind string, f AssemblyFactory) { factories[kind] = f }

// MaybeRunRole executes a role request if this process was started for one.
func MaybeRunRole() {
	reqPath := os.Getenv("VERIF_ROLE_REQ")
	if reqPath == "" {
		return
	}
	var req RoleReq
	d, err := os.ReadFile(reqPath)
	if err == nil {
		err = json.Unmarshal(d, &req)
	}
	var res RoleRes
	if err != nil {
		res.Err = "bad request: " + err.Error()
	} else {
		res = runRole(req)
	}
	var buf bytes.Buffer
	if err := gob.NewEncoder(&buf).Encode(res); err != nil {
		fmt.Fprintln(os.Stderr, "encode:", err)
		os.Exit(3)
	}
	os.WriteFile(reqPath+".res", buf.Bytes(), 0o644)
	os.Exit(0)
}

func runRole(req RoleReq) (res RoleRes) {
	defer func() {
		if e := recover(); e != nil {
			res.Err = fmt.Sprintf("panic: %v", e)
		}
	}()
	f := factories[req.Kind]
	if f == nil {
		return RoleRes{Err: "unknown assembly kind " + req.Kind}
	}
	limit := timing.VTimeInPicoSec(req.Limit)
	if req.Role == "ref" && req.Again {
		// first execution in this process, result discarded; then a new ID generator, as a program that
		// runs several simulations in one process would do
		ResetIDs()
		first := f(req.Cfg, req.Dir, req.Observers)
		first.Start()
		first.Engine().RunUntil(limit)
		first.Close()
		timing.ResetIDGenerator()
	}
	ResetIDs()
	a := f(req.Cfg, req.Dir, req.Observers)
	defer a.Close()
	switch req.Role {
	case "ref":
		tr := AttachEventTrace(a.Engine(), req.KeepTrace)
		var mh *MsgHash
		if pa, ok := a.(interface{ Ports() []messaging.Port }); ok {
			mh = AttachMsgHash(pa.Ports(), a.Engine().CurrentTime)
		}
		a.Start()
		if err := a.Engine().RunUntil(limit); err != nil {
			return RoleRes{Err: err.Error()}
		}
		res = fill(a, tr, req.Dir)
		if mh != nil {
			if res.Extra == nil {
				res.Extra = map[string]string{}
			}
			res.Extra["msg_hash"] = mh.Hash()
			res.Extra["msg_count"] = fmt.Sprint(mh.N)
		}
		return res
	case "saves":
		a.Start()
		for i, t := range req.Cuts {
			if err := a.Engine().RunUntil(timing.VTimeInPicoSec(t)); err != nil {
				return RoleRes{Err: err.Error()}
			}
			res.InFlight = append(res.InFlight, a.InFlight())
			if err := a.SaveCheckpoint(filepath.Join(req.Dir, fmt.Sprintf("cut-%d.tar.gz", i)), "verif"); err != nil {
				res.Err = fmt.Sprintf("save at %d: %v", t, err)
				return res
			}
		}
		return res
	case "resume":
		if err := a.LoadCheckpoint(req.Path, "verif"); err != nil {
			return RoleRes{Err: "load: " + err.Error()}
		}
		var again []byte
		if req.Resave {
			p2 := req.Path + ".resave"
			if err := a.SaveCheckpoint(p2, "verif"); err != nil {
				return RoleRes{Err: "re-save: " + err.Error()}
			}
			again, _ = os.ReadFile(p2)
			os.Remove(p2)
		}
		tr := AttachEventTrace(a.Engine(), req.KeepTrace)
		if err := a.Engine().RunUntil(limit); err != nil {
			return RoleRes{Err: err.Error()}
		}
		res = fill(a, tr, req.Dir)
		res.Resaved = again
		return res
	}
	return RoleRes{Err: "unknown role " + req.Role}
}

func fill(a Assembly, tr *EventTrace, dir string) RoleRes {
	r, err := finish(a, tr, dir)
	if err != nil {
		return RoleRes{Err: err.Error()}
	}
	out := RoleRes{Trace: tr.Recs, TraceHash: tr.Hash(), Events: tr.N, Payloads: r.Payloads, EndTime: uint64(r.EndTime),
		NextID: r.NextID, Done: r.Done, ErrCount: r.ErrCount}
	if x, ok := a.(interface{ Extra() map[string]string }); ok {
		out.Extra = x.Extra()
	}
	return out
}

var roleSeq int

// CallRole runs req in a fresh process of the same binary.
func CallRole(req RoleReq) (RoleRes, error) {
	roleSeq++
	os.MkdirAll(req.Dir, 0o755)
	reqPath := filepath.Join(req.Dir, fmt.Sprintf("role-%d-%d.json", os.Getpid(), roleSeq))
	d, _ := json.Marshal(req)
	if err := os.WriteFile(reqPath, d, 0o644); err != nil {
		return RoleRes{}, err
	}
	defer os.Remove(reqPath)
	defer os.Remove(reqPath + ".res")
	self, _ := os.Executable()
	cmd := exec.Command(self)
	cmd.Env = append(os.Environ(), "VERIF_ROLE_REQ="+reqPath)
	var stderr bytes.Buffer
	cmd.Stderr = &stderr
	cmd.Stdout = &stderr
	cmd.Dir = req.Dir
	if err := cmd.Start(); err != nil {
		return RoleRes{}, err
	}
	done := make(chan error, 1)
	go func() { done <- cmd.Wait() }()
	select {
	case err := <-done:
		if err != nil {
			return RoleRes{}, fmt.Errorf("role process failed: %v\n%s", err, tailStr(stderr.String(), 4000))
		}
	case <-time.After(15 * time.Minute):
		cmd.Process.Kill()
		<-done
		return RoleRes{}, fmt.Errorf("role process watchdog")
	}
	rd, err := os.ReadFile(reqPath + ".res")
	if err != nil {
		return RoleRes{}, fmt.Errorf("no result: %v\n%s", err, tailStr(stderr.String(), 4000))
	}
	var res RoleRes
	if err := gob.NewDecoder(bytes.NewReader(rd)).Decode(&res); err != nil {
		return RoleRes{}, err
	}
	return res, nil
}

func tailStr(s string, n int) string {
	if len(s) > n {
		return s[len(s)-n:]
	}
	return s
}
